(* Proofs/WhereExprSafe.v -- the executable model of WHERE expressions (Model/WhereExpr.v) never
   yields Panic and never runs out of fuel, for all byte strings, all oracles and all objects.

   Layout:
     1. safe, the bind lemmas, facts about the checked accessors, trim, read_ident
     2. squash / read_group: always defined on a non-empty input; a group is a prefix of length >= 2
     3. string literals: the scan of parse_string only accepts validated bodies (vbody: every
        backslash is followed by a braced u escape that has its closing brace, a u escape with
        four more bytes, an x escape with two more bytes, or one other byte), and unescape_loop
        is safe on a validated body from every escape boundary (including the surrogate pair
        look-ahead, which lands on an escape boundary again)
     4. values, operators, number literals, strip_bangs, recog (with the bounds of ASplit)
     5. the scanning loops and evalAtom relative to the callback rec, for strings no longer than a
        bound L on which rec is safe below L; eval_auto by induction on the level
     6. eval_expr by induction on the depth fuel; eval, match_expr; the six final theorems *)
From Coq Require Import List NArith ZArith Bool Lia ZifyN ZifyNat ZifyBool.
From T38 Require Import Base.Bytes Model.WhereExpr.
Import ListNotations.
Local Open Scope nat_scope.

(* ================================================================== 1, 2 *)

(* ------------------------------------------------------------------ safe *)

Definition safe {A} (r : res A) : Prop := r <> Panic /\ r <> NoFuel.

Lemma safe_ok {A} (a : A) : safe (Ok a).
Proof. split; discriminate. Qed.
Lemma safe_err {A} e : safe (@Err A e).
Proof. split; discriminate. Qed.
Lemma safe_outside {A} : safe (@Outside A).
Proof. split; discriminate. Qed.
Lemma safe_opt_outside {A} (o : option A) : safe (opt_outside o).
Proof. destruct o; split; discriminate. Qed.
Lemma safe_opt_panic_some {A} (a : A) : safe (opt_panic (Some a)).
Proof. split; discriminate. Qed.

Lemma safe_bind {A B} (r : res A) (f : A -> res B) :
  safe r -> (forall a, r = Ok a -> safe (f a)) -> safe (bind r f).
Proof.
  intros [H1 H2] Hf. destruct r; cbn [bind]; try (split; congruence). apply Hf; reflexivity.
Qed.

Lemma safe_bind' {A B} (r : res A) (f : A -> res B) :
  safe r -> (forall a, safe (f a)) -> safe (bind r f).
Proof. intros H Hf. apply safe_bind; auto. Qed.

Lemma safe_bind_panic {A B} (o : option A) (f : A -> res B) :
  (exists a, o = Some a) -> (forall a, o = Some a -> safe (f a)) -> safe (bind (opt_panic o) f).
Proof. intros [a ->] Hf. cbn [opt_panic bind]. apply Hf; reflexivity. Qed.

Lemma safe_ok_ex {A} (r : res A) : (exists a, r = Ok a) -> safe r.
Proof. intros [a ->]; apply safe_ok. Qed.

(* ------------------------------------------------------------------ bytes *)

Lemma bat_some s i c : bat s i = Some c -> i < length s.
Proof. unfold bat. intros H. apply nth_error_Some. congruence. Qed.

Lemma bat_none s i : bat s i = None -> length s <= i.
Proof. unfold bat. apply nth_error_None. Qed.

Lemma bat_lt s i : i < length s -> exists c, bat s i = Some c.
Proof.
  unfold bat. intros H. destruct (nth_error s i) eqn:E; [eauto|].
  apply nth_error_None in E. lia.
Qed.

Lemma bat_pred_ok s i : 1 <= i <= length s -> exists c, bat_pred s i = Some c.
Proof.
  intros H. destruct i as [|j]; [lia|]. cbn [bat_pred]. apply (bat_lt s j). lia.
Qed.

Lemma slice_ok s a b : a <= b <= length s -> slice s a b = Some (firstn (b - a) (skipn a s)).
Proof.
  intros [H1 H2]. unfold slice.
  apply Nat.leb_le in H1. apply Nat.leb_le in H2. rewrite H1, H2. reflexivity.
Qed.

Lemma slice_ex s a b : a <= b <= length s -> exists t, slice s a b = Some t.
Proof. intros H. rewrite slice_ok by exact H. eauto. Qed.

Lemma slice_inv s a b t : slice s a b = Some t ->
  t = firstn (b - a) (skipn a s) /\ a <= b <= length s /\ length t = b - a.
Proof.
  unfold slice. destruct (a <=? b) eqn:E1; [|discriminate]. destruct (b <=? length s) eqn:E2; [|discriminate].
  cbn [andb]. intros H; inversion H; subst. apply Nat.leb_le in E1. apply Nat.leb_le in E2.
  repeat split; try lia. rewrite firstn_length, skipn_length. lia.
Qed.

Lemma sfrom_ok s a : a <= length s -> sfrom s a = Some (skipn a s).
Proof. intros H. unfold sfrom. apply Nat.leb_le in H. rewrite H. reflexivity. Qed.

Lemma sfrom_ex s a : a <= length s -> exists t, sfrom s a = Some t.
Proof. intros H. rewrite sfrom_ok by exact H. eauto. Qed.

Lemma sfrom_inv s a t : sfrom s a = Some t -> t = skipn a s /\ a <= length s /\ length t = length s - a.
Proof.
  unfold sfrom. destruct (a <=? length s) eqn:E; [|discriminate]. intros H; inversion H; subst.
  apply Nat.leb_le in E. repeat split; try lia. apply skipn_length.
Qed.

Lemma trim_left_len s : length (trim_left s) <= length s.
Proof. induction s as [|c r IH]; cbn [trim_left length]; [lia|]. destruct (isspace c); cbn [length]; lia. Qed.

Lemma trim_len s : length (trim s) <= length s.
Proof.
  unfold trim. rewrite rev_length.
  etransitivity; [apply trim_left_len|]. rewrite rev_length. apply trim_left_len.
Qed.

Lemma id_rest_prefix s : exists r, s = id_rest s ++ r.
Proof.
  induction s as [|c r [t IH]]; cbn [id_rest]; [exists []; reflexivity|].
  destruct (id_continue c); [|exists (c :: r); reflexivity].
  exists t. cbn [app]. rewrite <- IH. reflexivity.
Qed.

Lemma read_ident_prefix s id : read_ident s = Some id -> exists r, s = id ++ r.
Proof.
  destruct s as [|c r]; cbn [read_ident]; [discriminate|].
  destruct (id_start c); [|discriminate]. intros H; inversion H; subst.
  destruct (id_rest_prefix r) as [t Ht]. exists t. cbn [app]. rewrite <- Ht. reflexivity.
Qed.

Lemma read_ident_len s id : read_ident s = Some id -> 1 <= length id <= length s.
Proof.
  intros H. destruct (read_ident_prefix _ _ H) as [r Hr].
  assert (length s = length id + length r) by (rewrite Hr at 1; apply app_length).
  destruct s as [|c t]; cbn [read_ident] in H; [discriminate|].
  destruct (id_start c); [|discriminate]. inversion H; subst id. cbn [length] in *. lia.
Qed.

(* ------------------------------------------------------------------ squash / readGroup *)

Lemma sq_count_ok data s2 : forall fuel k n, k <= length data -> k < fuel ->
  exists m, sq_count data fuel k s2 n = Ok m.
Proof.
  induction fuel as [|fuel IH]; intros k n Hk Hf; [lia|].
  cbn [sq_count]. destruct (s2 <? k) eqn:E; [|eauto].
  apply Nat.ltb_lt in E. destruct (bat_pred_ok data k) as [c Hc]; [lia|].
  rewrite Hc. cbn [opt_panic bind]. destruct (c =? 92)%N; [apply IH; lia | eauto].
Qed.

Lemma sq_quote_ok data s2 q : forall fuel i, 1 <= i <= length data -> length data < fuel + i ->
  exists j, sq_quote data fuel i s2 q = Ok j /\ i <= j <= length data.
Proof.
  induction fuel as [|fuel IH]; intros i Hi Hf; [lia|].
  cbn [sq_quote]. destruct (bat data i) as [c|] eqn:Eb.
  2:{ exists i. split; [reflexivity|lia]. }
  apply bat_some in Eb.
  destruct (92 <? c)%N; [destruct (IH (S i)) as [j [Hj Hb]]; [lia|lia|]; exists j; split; [exact Hj|lia]|].
  destruct (c =? q)%N.
  - destruct (bat_pred_ok data i) as [p Hp]; [lia|]. rewrite Hp. cbn [opt_panic bind].
    destruct (p =? 92)%N.
    + destruct (sq_count_ok data s2 (S (length data)) (i - 1) 0) as [n Hn]; [lia|lia|].
      rewrite Hn. cbn [bind]. destruct (Nat.even n).
      * destruct (IH (S i)) as [j [Hj Hb]]; [lia|lia|]. exists j; split; [exact Hj|lia].
      * exists i. split; [reflexivity|lia].
    + exists i. split; [reflexivity|lia].
  - destruct (IH (S i)) as [j [Hj Hb]]; [lia|lia|]. exists j; split; [exact Hj|lia].
Qed.

Lemma sq_loop_ok data : forall fuel i depth, i <= length data + 1 -> length data + 2 <= fuel + i ->
  exists r, sq_loop data fuel i depth = Ok r /\ (forall j, r = Some j -> j < length data).
Proof.
  induction fuel as [|fuel IH]; intros i depth Hi Hf; [lia|].
  cbn [sq_loop]. destruct (bat data i) as [c|] eqn:Eb.
  2:{ exists None. split; [reflexivity|discriminate]. }
  apply bat_some in Eb.
  destruct ((c <? 34) || (125 <? c))%N; [apply IH; lia|].
  destruct ((c =? 34) || (c =? 39))%N.
  - destruct (sq_quote_ok data (S i) c (S (length data)) (S i)) as [j [Hj Hb]]; [lia|lia|].
    rewrite Hj. cbn [bind]. destruct (depth =? 0)%Z.
    + destruct (length data <=? j) eqn:El.
      * exists None. split; [reflexivity|discriminate].
      * apply Nat.leb_gt in El. exists (Some j). split; [reflexivity|]. intros j' H; inversion H; subst; lia.
    + apply IH; lia.
  - destruct ((c =? 123) || (c =? 91) || (c =? 40))%N; [apply IH; lia|].
    destruct ((c =? 125) || (c =? 93) || (c =? 41))%N; [|apply IH; lia].
    destruct (depth - 1 =? 0)%Z; [|apply IH; lia].
    exists (Some i). split; [reflexivity|]. intros j' H; inversion H; subst; lia.
Qed.

Lemma squash_ok data : data <> [] ->
  exists r, squash data = Ok r /\ (forall j, r = Some j -> j < length data).
Proof.
  intros Hne. unfold squash.
  destruct data as [|c0 rest] eqn:Ed; [congruence|]. rewrite <- Ed.
  assert (Hb : bat data 0 = Some c0) by (subst; reflexivity).
  assert (Hl : 1 <= length data) by (subst; cbn [length]; lia).
  rewrite Hb. cbn [opt_panic bind].
  destruct ((c0 =? 34) || (c0 =? 39))%N eqn:Eq.
  - cbn [sq_loop]. rewrite Hb.
    assert (E1 : ((c0 <? 34) || (125 <? c0))%N = false) by lia. rewrite E1, Eq.
    destruct (sq_quote_ok data 1 c0 (S (length data)) 1) as [j [Hj Hbd]]; [lia|lia|].
    rewrite Hj. cbn [bind]. change (0 =? 0)%Z with true. cbv iota.
    destruct (length data <=? j) eqn:El.
    + exists None. split; [reflexivity|discriminate].
    + apply Nat.leb_gt in El. exists (Some j). split; [reflexivity|]. intros j' H; inversion H; subst; lia.
  - apply sq_loop_ok; lia.
Qed.

Lemma read_group_cases data : data <> [] ->
  read_group data = Err ESyntax \/
  exists j, 1 <= j < length data /\ read_group data = Ok (firstn (S j) data).
Proof.
  intros Hne. unfold read_group.
  destruct (squash_ok data Hne) as [r [Hr Hj]]. rewrite Hr. cbn [bind].
  destruct r as [j|]; [|left; reflexivity].
  specialize (Hj j eq_refl).
  rewrite slice_ok by lia. cbn [opt_panic bind skipn]. rewrite Nat.sub_0_r.
  assert (Hlen : length (firstn (S j) data) = S j) by (rewrite firstn_length; lia).
  rewrite Hlen. destruct (S j <? 2) eqn:E2; [left; reflexivity|]. apply Nat.ltb_ge in E2.
  unfold last_byte. rewrite Hlen.
  destruct (bat_pred_ok (firstn (S j) data) (S j)) as [l Hl]; [lia|]. rewrite Hl. cbn [opt_panic bind].
  destruct (bat_lt data 0) as [c0 Hc0]; [lia|]. rewrite Hc0. cbn [opt_panic bind].
  destruct (negb (l =? closech c0)%N); [left; reflexivity|].
  right. exists j. split; [lia|reflexivity].
Qed.

Lemma read_group_safe0 data : data <> [] -> safe (read_group data).
Proof.
  intros Hne. destruct (read_group_cases data Hne) as [H|[j [_ H]]]; rewrite H; split; discriminate.
Qed.

Lemma read_group_prefix0 : forall data g, read_group data = Ok g -> 2 <= length g /\ exists r, data = g ++ r.
Proof.
  intros data g H. destruct data as [|c0 rest] eqn:Ed.
  - cbv in H. discriminate.
  - rewrite <- Ed in *. destruct (read_group_cases data) as [H1|[j [Hj H1]]]; [subst; discriminate| |];
      rewrite H1 in H; [discriminate|].
    assert (g = firstn (S j) data) by congruence. subst g. clear H.
    split; [rewrite firstn_length; lia|]. exists (skipn (S j) data). symmetry; apply firstn_skipn.
Qed.

(* ================================================================== 3 *)

(* ------------------------------------------------------------------ suffix bookkeeping *)

Lemma sk_all s p c r : skipn p s = c :: r -> bat s p = Some c /\ skipn (S p) s = r /\ p < length s.
Proof.
  revert s. induction p as [|p IH]; intros s H; destruct s as [|a t]; cbn [skipn] in H; try discriminate.
  - inversion H; subst. cbn. repeat split; lia.
  - destruct (IH t H) as [H1 [H2 H3]]. cbn [length]. repeat split; [exact H1|exact H2|lia].
Qed.
Lemma sk_bat s p c r : skipn p s = c :: r -> bat s p = Some c.
Proof. intros H; apply (sk_all _ _ _ _ H). Qed.
Lemma sk_next (s : bytes) p c r : skipn p s = c :: r -> skipn (S p) s = r.
Proof. intros H; apply (sk_all _ _ _ _ H). Qed.
Lemma sk_lt (s : bytes) p c r : skipn p s = c :: r -> p < length s.
Proof. intros H; apply (sk_all _ _ _ _ H). Qed.

Lemma bat_skipn s i c : bat s i = Some c -> skipn i s = c :: skipn (S i) s.
Proof.
  revert s. induction i as [|i IH]; intros s H; destruct s as [|a t]; cbn in H; try discriminate.
  - inversion H; subst. reflexivity.
  - cbn [skipn]. rewrite (IH t H). reflexivity.
Qed.

Lemma sk_add (s : bytes) p n : skipn (p + n) s = skipn n (skipn p s).
Proof.
  revert s. induction p as [|p IH]; intros s; [reflexivity|].
  destruct s as [|a t]; cbn [Nat.add skipn]; [destruct n; reflexivity|apply IH].
Qed.

Lemma sk_len (s : bytes) p : p <= length s -> length s = p + length (skipn p s).
Proof. intros H. rewrite skipn_length. lia. Qed.

Lemma sk_split (s : bytes) p k : p + k <= length s ->
  exists w, length w = k /\ skipn p s = w ++ skipn (p + k) s.
Proof.
  intros H. exists (firstn k (skipn p s)). split.
  - rewrite firstn_length, skipn_length. lia.
  - rewrite sk_add. symmetry. apply firstn_skipn.
Qed.

Lemma skipn_app_S {A} (hs : list A) x r : skipn (S (length hs)) (hs ++ x :: r) = r.
Proof. induction hs as [|h hs IH]; [reflexivity|]. cbn [length app]. exact IH. Qed.

Lemma firstn_app_len {A} (p r : list A) : firstn (length p) (p ++ r) = p.
Proof. induction p as [|a p IH]; [reflexivity|]. cbn [length app firstn]. rewrite IH. reflexivity. Qed.

(* ------------------------------------------------------------------ validated string bodies *)

(* what follows a backslash-u: a braced run without a closing brace inside, or four bytes *)
Definition upayload (t r4 : bytes) : Prop :=
  match t with
  | [] => False
  | h1 :: r3 =>
      if (h1 =? 123)%N then exists hs, r3 = hs ++ 125%N :: r4 /\ Forall (fun c => c <> 125%N) hs
      else exists h2 h3 h4, r3 = h2 :: h3 :: h4 :: r4
  end.

Inductive vbody : bytes -> Prop :=
| vb_nil : vbody []
| vb_plain c r : c <> 92%N -> vbody r -> vbody (c :: r)
| vb_esc e r : e <> 117%N -> e <> 120%N -> vbody r -> vbody (92%N :: e :: r)
| vb_x h1 h2 r : vbody r -> vbody (92%N :: 120%N :: h1 :: h2 :: r)
| vb_u t r : upayload t r -> vbody r -> vbody (92%N :: 117%N :: t).

Definition vinv (l : bytes) : Prop :=
  match l with
  | [] => True
  | c :: r =>
    if (c =? 92)%N then
      match r with
      | [] => False
      | e :: r2 =>
        if (e =? 117)%N then exists r4, upayload r2 r4 /\ vbody r4
        else if (e =? 120)%N then exists h1 h2 r3, r2 = h1 :: h2 :: r3 /\ vbody r3
        else vbody r2
      end
    else vbody r
  end.

Lemma vbody_inv l : vbody l -> vinv l.
Proof.
  destruct 1; cbn [vinv].
  - exact I.
  - destruct (N.eqb_spec c 92); [contradiction|assumption].
  - change (92 =? 92)%N with true. cbv iota.
    destruct (N.eqb_spec e 117); [contradiction|]. destruct (N.eqb_spec e 120); [contradiction|assumption].
  - change (92 =? 92)%N with true. change (120 =? 117)%N with false. change (120 =? 120)%N with true. cbv iota.
    eauto.
  - change (92 =? 92)%N with true. change (117 =? 117)%N with true. cbv iota. eauto.
Qed.

Lemma find_rbrace_app hs r : Forall (fun c => c <> 125%N) hs ->
  forall k, find_rbrace (hs ++ 125%N :: r) k = Some (k + length hs).
Proof.
  induction 1 as [|h hs Hh _ IH]; intros k; cbn [app find_rbrace length].
  - change (125 =? 125)%N with true. cbv iota. f_equal; lia.
  - destruct (N.eqb_spec h 125); [contradiction|]. rewrite IH. f_equal; lia.
Qed.

Lemma runeit_u_ok t r4 : upayload t r4 ->
  exists rr n, runeit t false = Ok (rr, n) /\ 1 <= n <= length t /\ skipn n t = r4.
Proof.
  destruct t as [|h1 r3]; cbn [upayload]; [contradiction|].
  unfold runeit. cbn [bat nth_error opt_panic bind].
  destruct (h1 =? 123)%N eqn:E.
  - intros [hs [-> HF]]. apply N.eqb_eq in E; subst h1.
    cbn [find_rbrace]. change (123 =? 125)%N with false. cbv iota.
    rewrite find_rbrace_app by exact HF.
    rewrite slice_ok by (cbn [length]; rewrite app_length; cbn [length]; lia).
    cbn [opt_panic bind]. eexists; eexists. split; [reflexivity|]. split.
    + cbn [length]. rewrite app_length. cbn [length]. lia.
    + cbn [Nat.add skipn]. apply skipn_app_S.
  - intros [h2 [h3 [h4 ->]]].
    rewrite slice_ok by (cbn [length]; lia).
    cbn [opt_panic bind]. eexists; eexists. split; [reflexivity|]. split.
    + cbn [length]. lia.
    + reflexivity.
Qed.

Lemma runeit_x_ok h1 h2 r3 : exists rr, runeit (h1 :: h2 :: r3) true = Ok (rr, 2).
Proof.
  unfold runeit. rewrite slice_ok by (cbn [length]; lia). cbn [opt_panic bind]. eauto.
Qed.

Lemma unescape_loop_safe s : forall fuel i acc,
  i <= length s -> length s < fuel + i -> vbody (skipn i s) -> safe (unescape_loop s fuel i acc).
Proof.
  induction fuel as [|fuel IH]; intros i acc Hi Hf Hv; [lia|].
  cbn [unescape_loop].
  destruct (bat s i) as [c|] eqn:Eb; [|apply safe_ok].
  pose proof (bat_skipn _ _ _ Eb) as Hs.
  pose proof (bat_some _ _ _ Eb) as Hlt.
  apply vbody_inv in Hv. rewrite Hs in Hv. cbn [vinv] in Hv.
  destruct (c =? 92)%N eqn:Ec; cbn [negb].
  2:{ apply IH; [lia|lia|exact Hv]. }
  destruct (skipn (S i) s) as [|e r2] eqn:Hs1; [contradiction|].
  pose proof (sk_bat _ _ _ _ Hs1) as Eb1. pose proof (sk_lt _ _ _ _ Hs1) as Hlt1.
  pose proof (sk_next _ _ _ _ Hs1) as Hs2.
  rewrite Eb1. cbn [opt_panic bind].
  assert (Hsimple : (e =? 117)%N = false -> (e =? 120)%N = false ->
                    forall acc', safe (unescape_loop s fuel (S (S i)) acc')).
  { intros E1 E2 acc'. rewrite E1, E2 in Hv. apply IH; [lia|lia|]. rewrite Hs2; exact Hv. }
  destruct (e =? 48)%N eqn:E48; [apply Hsimple; lia|].
  destruct (e =? 98)%N eqn:E98; [apply Hsimple; lia|].
  destruct (e =? 102)%N eqn:E102; [apply Hsimple; lia|].
  destruct (e =? 110)%N eqn:E110; [apply Hsimple; lia|].
  destruct (e =? 114)%N eqn:E114; [apply Hsimple; lia|].
  destruct (e =? 116)%N eqn:E116; [apply Hsimple; lia|].
  destruct (e =? 118)%N eqn:E118; [apply Hsimple; lia|].
  assert (Hlen2 : length s = S (S i) + length r2) by (rewrite <- Hs2; apply sk_len; lia).
  destruct (e =? 117)%N eqn:E117.
  - clear Hsimple. destruct Hv as [r4 [Hp Hv4]].
    rewrite (sfrom_ok s (S (S i))) by lia. cbn [opt_panic bind]. rewrite Hs2.
    destruct (runeit_u_ok _ _ Hp) as [rr [n [Hr [Hn Hsk]]]]. rewrite Hr. cbn [bind].
    assert (Hp4 : skipn (S (S i) + n) s = r4) by (rewrite sk_add, Hs2; exact Hsk).
    assert (Hlen4 : length s = S (S i) + n + length r4) by (rewrite <- Hp4; apply sk_len; lia).
    remember (S (S i) + n) as p eqn:Ep.
    assert (Hcont : forall acc', safe (unescape_loop s fuel p acc'))
      by (intros; apply IH; [lia|lia|rewrite Hp4; exact Hv4]).
    destruct (is_surrogate rr); [|apply Hcont].
    rewrite (sfrom_ok s p) by lia. cbn [opt_panic bind]. rewrite Hp4.
    destruct (6 <=? length r4) eqn:E6; [|apply Hcont]. apply Nat.leb_le in E6.
    destruct r4 as [|d0 [|d1 r6]]; cbn [length] in E6; try lia.
    pose proof (sk_next _ _ _ _ Hp4) as Hp5.
    pose proof (sk_next _ _ _ _ Hp5) as Hp6.
    rewrite (sk_bat _ _ _ _ Hp4). cbn [opt_panic bind].
    rewrite (sk_bat _ _ _ _ Hp5). cbn [opt_panic bind].
    destruct ((d0 =? 92) && (d1 =? 117))%N eqn:Ed; [|apply Hcont].
    apply vbody_inv in Hv4. cbn [vinv] in Hv4.
    assert (E0 : (d0 =? 92)%N = true) by lia. assert (E1 : (d1 =? 117)%N = true) by lia.
    rewrite E0, E1 in Hv4. destruct Hv4 as [r8 [Hp8 Hv8]].
    cbn [length] in Hlen4.
    replace (p + 2) with (S (S p)) by lia.
    rewrite (sfrom_ok s (S (S p))) by lia. cbn [opt_panic bind]. rewrite Hp6.
    destruct (runeit_u_ok _ _ Hp8) as [rr2 [n2 [Hr2 [Hn2 Hsk2]]]]. rewrite Hr2. cbn [bind].
    assert (Hp8' : skipn (S (S p) + n2) s = r8) by (rewrite sk_add, Hp6; exact Hsk2).
    apply IH; [| |rewrite Hp8'; exact Hv8].
    + pose proof (sk_len s (S (S p) + n2)) as Hq. rewrite Hp8' in Hq. lia.
    + lia.
  - destruct (e =? 120)%N eqn:E120; [|apply Hsimple; reflexivity].
    clear Hsimple. destruct Hv as [h1 [h2 [r3 [-> Hv3]]]].
    rewrite (sfrom_ok s (S (S i))) by lia. cbn [opt_panic bind]. rewrite Hs2.
    destruct (runeit_x_ok h1 h2 r3) as [rr Hr]. rewrite Hr. cbn [bind].
    cbn [length] in Hlen2.
    apply IH; [lia|lia|]. rewrite sk_add, Hs2. exact Hv3.
Qed.

Lemma unescape_string_safe s : vbody s -> safe (unescape_string s).
Proof. intros H. unfold unescape_string. apply unescape_loop_safe; [lia|lia|exact H]. Qed.

(* ------------------------------------------------------------------ parseString's scan *)

Lemma ps_brace_ok data : forall fuel k, 1 <= fuel -> length data < fuel + k ->
  exists r, ps_brace data fuel k = Ok r.
Proof.
  induction fuel as [|fuel IH]; intros k H1 Hf; [lia|].
  cbn [ps_brace]. destruct (bat data k) as [c|] eqn:Eb; [|eauto].
  apply bat_some in Eb. destruct (c =? 125)%N; [eauto|]. destruct (negb (ishex c)); [eauto|].
  apply IH; lia.
Qed.

Lemma ps_brace_spec data : forall fuel k j, ps_brace data fuel k = Ok (Some (Some j)) ->
  exists hs, skipn k data = hs ++ 125%N :: skipn (S j) data /\
             Forall (fun c => c <> 125%N) hs /\ j = k + length hs.
Proof.
  induction fuel as [|fuel IH]; intros k j H; cbn [ps_brace] in H; [discriminate|].
  destruct (bat data k) as [c|] eqn:Eb; [|discriminate].
  apply bat_skipn in Eb.
  destruct (c =? 125)%N eqn:Ec.
  - apply N.eqb_eq in Ec; subst c. inversion H; subst j. exists []. cbn [app length]. repeat split; [exact Eb|constructor|lia].
  - destruct (negb (ishex c)); [discriminate|].
    destruct (IH _ _ H) as [hs [H1 [H2 H3]]]. exists (c :: hs). cbn [app length].
    repeat split; [rewrite Eb, H1; reflexivity| |lia].
    constructor; [|exact H2]. apply N.eqb_neq; exact Ec.
Qed.

Lemma ps_hex_spec data : forall k i j, ps_hex data k i = Some j -> j = i + k /\ (k = 0 \/ j < length data).
Proof.
  induction k as [|k IH]; intros i j H; cbn [ps_hex] in H.
  - inversion H; subst. split; [lia|left; reflexivity].
  - destruct (bat data (S i)) as [c|] eqn:Eb; [|discriminate]. apply bat_some in Eb.
    destruct (ishex c); [|discriminate]. destruct (IH _ _ H) as [H1 H2]. split; [lia|right; lia].
Qed.

Definition vpre (p : bytes) : Prop := forall X, vbody X -> vbody (p ++ X).

Lemma vpre_app p w : vpre p -> vpre w -> vpre (p ++ w).
Proof. intros Hp Hw X HX. rewrite <- app_assoc. apply Hp, Hw, HX. Qed.

Lemma ps_step (data : bytes) q0 p i w i' :
  data = q0 :: p ++ skipn i data -> length p + 1 = i ->
  skipn i data = w ++ skipn i' data -> i' = i + length w ->
  data = q0 :: (p ++ w) ++ skipn i' data /\ length (p ++ w) + 1 = i'.
Proof.
  intros H1 H2 H3 H4. split; [|rewrite app_length; lia].
  rewrite <- app_assoc, <- H3. exact H1.
Qed.

Lemma ps_loop_safe data q0 q : forall fuel i esc p,
  1 <= i <= length data -> length data < fuel + i ->
  data = q0 :: p ++ skipn i data -> length p + 1 = i -> vpre p ->
  safe (ps_loop data fuel i q esc).
Proof.
  induction fuel as [|fuel IH]; intros i esc p Hi Hf Hd Hl Hp; [lia|].
  assert (Hgo : forall esc' w i', skipn i data = w ++ skipn i' data -> i' = i + length w ->
                  1 <= length w -> i' <= length data -> vpre w -> safe (ps_loop data fuel i' q esc')).
  { intros esc' w i' Hw Hi' Hw1 Hle Hvw.
    destruct (ps_step _ _ _ _ _ _ Hd Hl Hw Hi') as [Hd' Hl'].
    apply (IH i' esc' (p ++ w)); [lia|lia|exact Hd'|exact Hl'|apply vpre_app; assumption]. }
  cbn [ps_loop].
  destruct (bat data i) as [c|] eqn:Eb; [|apply safe_ok].
  pose proof (bat_skipn _ _ _ Eb) as Hs. pose proof (bat_some _ _ _ Eb) as Hlt.
  destruct (c <? 32)%N eqn:E32; [apply safe_ok|].
  destruct (c =? 92)%N eqn:Ec.
  - apply N.eqb_eq in Ec; subst c.
    destruct (bat data (S i)) as [e|] eqn:Eb1; [|apply safe_ok].
    pose proof (bat_skipn _ _ _ Eb1) as Hs1. pose proof (bat_some _ _ _ Eb1) as Hlt1.
    assert (Hs01 : skipn i data = [92%N; e] ++ skipn (S (S i)) data) by (rewrite Hs, Hs1; reflexivity).
    destruct (e =? 117)%N eqn:E117.
    + apply N.eqb_eq in E117; subst e.
      destruct (match bat data (S (S i)) with Some c1 => (c1 =? 123)%N | None => false end) eqn:EB.
      * assert (Eb2 : bat data (S (S i)) = Some 123%N).
        { destruct (bat data (S (S i))) as [c1|]; [|discriminate]. apply N.eqb_eq in EB; subst; reflexivity. }
        pose proof (bat_skipn _ _ _ Eb2) as Hs2. pose proof (bat_some _ _ _ Eb2) as Hlt2.
        destruct (ps_brace_ok data (S (length data)) (S i + 2)) as [r Hr]; [lia|lia|].
        rewrite Hr. cbn [bind]. destruct r as [[j|]|]; try apply safe_ok.
        destruct (ps_brace_spec _ _ _ _ Hr) as [hs [H1 [H2 H3]]].
        replace (S i + 2) with (S (S (S i))) in H1 by lia.
        assert (HL : length data = S (S (S i)) + length (skipn (S (S (S i))) data)) by (apply sk_len; lia).
        rewrite H1 in HL. rewrite app_length in HL. cbn [length] in HL.
        apply (Hgo true ([92%N; 117%N; 123%N] ++ hs ++ [125%N]) (S j)).
        -- rewrite Hs, Hs1, Hs2, H1. cbn [app]. rewrite <- app_assoc. reflexivity.
        -- rewrite app_length, app_length. cbn [length]. lia.
        -- rewrite app_length. cbn [length]. lia.
        -- lia.
        -- intros X HX. cbn [app]. apply (vb_u _ X); [|exact HX].
           cbn [upayload]. change (123 =? 123)%N with true. cbv iota.
           exists hs. split; [rewrite <- app_assoc; reflexivity|exact H2].
      * destruct (ps_hex data 4 (S i)) as [j|] eqn:Eh; [|apply safe_ok].
        destruct (ps_hex_spec _ _ _ _ Eh) as [Hj [Hk|Hk]]; [lia|]. subst j.
        destruct (sk_split data (S (S i)) 4) as [w [Hw1 Hw2]]; [lia|].
        destruct w as [|h1 [|h2 [|h3 [|h4 [|]]]]]; cbn [length] in Hw1; try lia.
        rewrite (sk_bat _ _ _ _ Hw2) in EB.
        apply (Hgo true [92%N; 117%N; h1; h2; h3; h4] (S (S i + 4))).
        -- rewrite Hs01, Hw2. cbn [app]. replace (S (S i) + 4) with (S (S i + 4)) by lia. reflexivity.
        -- cbn [length]. lia.
        -- cbn [length]. lia.
        -- lia.
        -- intros X HX. cbn [app]. apply (vb_u _ X); [|exact HX].
           cbn [upayload]. rewrite EB. eauto.
    + destruct (e =? 120)%N eqn:E120.
      * apply N.eqb_eq in E120; subst e.
        destruct (ps_hex data 2 (S i)) as [j|] eqn:Eh; [|apply safe_ok].
        destruct (ps_hex_spec _ _ _ _ Eh) as [Hj [Hk|Hk]]; [lia|]. subst j.
        destruct (sk_split data (S (S i)) 2) as [w [Hw1 Hw2]]; [lia|].
        destruct w as [|h1 [|h2 [|]]]; cbn [length] in Hw1; try lia.
        apply (Hgo true [92%N; 120%N; h1; h2] (S (S i + 2))).
        -- rewrite Hs01, Hw2. cbn [app]. replace (S (S i) + 2) with (S (S i + 2)) by lia. reflexivity.
        -- cbn [length]. lia.
        -- cbn [length]. lia.
        -- lia.
        -- intros X HX. cbn [app]. apply vb_x; exact HX.
      * apply (Hgo true [92%N; e] (S (S i))).
        -- exact Hs01.
        -- cbn [length]. lia.
        -- cbn [length]. lia.
        -- lia.
        -- intros X HX. cbn [app]. apply vb_esc; [apply N.eqb_neq; exact E117|apply N.eqb_neq; exact E120|exact HX].
  - destruct (c =? q)%N eqn:Eq.
    + assert (Hsl : slice data 1 i = Some p).
      { rewrite slice_ok by lia. f_equal. rewrite Hd at 1. cbn [skipn].
        replace (i - 1) with (length p) by lia. apply firstn_app_len. }
      rewrite Hsl. cbn [opt_panic bind].
      apply safe_bind; [|intros; apply safe_ok].
      destruct esc; [|apply safe_ok].
      apply unescape_string_safe. specialize (Hp [] vb_nil). rewrite app_nil_r in Hp. exact Hp.
    + apply (Hgo esc [c] (S i)).
      * exact Hs.
      * cbn [length]. lia.
      * cbn [length]. lia.
      * lia.
      * intros X HX. cbn [app]. apply vb_plain; [apply N.eqb_neq; exact Ec|exact HX].
Qed.

Lemma ps_loop_len data q : forall fuel i esc s n,
  ps_loop data fuel i q esc = Ok (Some (s, n)) -> n <= length data.
Proof.
  induction fuel as [|fuel IH]; intros i esc s n H; cbn [ps_loop] in H; [discriminate|].
  destruct (bat data i) as [c|] eqn:Eb; [|discriminate]. apply bat_some in Eb.
  destruct (c <? 32)%N; [discriminate|].
  destruct (c =? 92)%N.
  - destruct (bat data (S i)) as [e|]; [|discriminate].
    destruct (e =? 117)%N.
    + destruct (match bat data (S (S i)) with Some c1 => (c1 =? 123)%N | None => false end).
      * destruct (ps_brace data (S (length data)) (S i + 2)) as [r| | | |]; cbn [bind] in H; try discriminate.
        destruct r as [[j|]|]; try discriminate. eapply IH; exact H.
      * destruct (ps_hex data 4 (S i)); [|discriminate]. eapply IH; exact H.
    + destruct (e =? 120)%N.
      * destruct (ps_hex data 2 (S i)); [|discriminate]. eapply IH; exact H.
      * eapply IH; exact H.
  - destruct (c =? q)%N; [|eapply IH; exact H].
    destruct (opt_panic (slice data 1 i)) as [t| | | |]; cbn [bind] in H; try discriminate.
    destruct (if esc then unescape_string t else Ok t) as [t'| | | |]; cbn [bind] in H; try discriminate.
    inversion H; subst. lia.
Qed.

Lemma parse_string_safe' data : safe (parse_string data).
Proof.
  unfold parse_string. destruct (length data <? 2) eqn:E; [apply safe_ok|]. apply Nat.ltb_ge in E.
  destruct data as [|q0 rest] eqn:Ed; [cbn [length] in E; lia|]. rewrite <- Ed in *.
  assert (Hb : bat data 0 = Some q0) by (subst; reflexivity). rewrite Hb. cbn [opt_panic bind].
  apply (ps_loop_safe data q0 q0 (S (length data)) 1 false []).
  - lia.
  - lia.
  - subst. reflexivity.
  - reflexivity.
  - intros X HX; exact HX.
Qed.

Lemma parse_string_len data s n : parse_string data = Ok (Some (s, n)) -> n <= length data.
Proof.
  unfold parse_string. destruct (length data <? 2); [discriminate|].
  destruct (opt_panic (bat data 0)) as [q| | | |]; cbn [bind]; try discriminate.
  apply ps_loop_len.
Qed.

(* ================================================================== 4 *)

(* ------------------------------------------------------------------ a small automation *)

Create HintDb wxs.

Ltac safe_tac :=
  repeat first
    [ apply safe_ok | apply safe_err | apply safe_outside | apply safe_opt_outside
    | assumption
    | solve [auto with wxs]
    | apply safe_bind'; [|intros ?]
    | match goal with
      | |- safe (match ?x with _ => _ end) => destruct x
      end ].

Lemma bat_pred_none s i : bat_pred s i = None -> i = 0 \/ length s < i.
Proof.
  destruct i as [|j]; [left; reflexivity|]. cbn [bat_pred]. intros H. apply (bat_none s j) in H. right; lia.
Qed.

Section WXS.
Context (F : Type) (O : oracle F) (obj : eobj F).

Lemma to_string_safe v : safe (to_string F O obj v).
Proof. unfold to_string. safe_tac. Qed.

Lemma conv_parse_float_safe a : safe (conv_parse_float F O a).
Proof. unfold conv_parse_float. safe_tac. Qed.
#[local] Hint Resolve to_string_safe conv_parse_float_safe : wxs.

Lemma atof_safe a : safe (atof F O a).
Proof. unfold atof. safe_tac. Qed.
Lemma atoi_safe a : safe (atoi F O a).
Proof. unfold atoi. safe_tac. Qed.
#[local] Hint Resolve atof_safe atoi_safe : wxs.

Lemma to_float_safe v : safe (to_float F O v).
Proof. unfold to_float. safe_tac. Qed.
Lemma to_int_safe v : safe (to_int F O v).
Proof. unfold to_int. safe_tac. Qed.
#[local] Hint Resolve to_float_safe to_int_safe : wxs.
Lemma to_bool_safe v : safe (to_bool F O obj v).
Proof. unfold to_bool. safe_tac. Qed.
#[local] Hint Resolve to_bool_safe : wxs.

Lemma obj_expr_safe id : safe (obj_expr F O obj id).
Proof. unfold obj_expr. safe_tac. Qed.
#[local] Hint Resolve obj_expr_safe : wxs.
Lemma ext_ref_safe ch l id : safe (ext_ref F O obj ch l id).
Proof. unfold ext_ref. safe_tac. Qed.
#[local] Hint Resolve ext_ref_safe : wxs.
Lemma get_ref_value_safe ch l id oc : safe (get_ref_value F O obj ch l id oc).
Proof. unfold get_ref_value. safe_tac. Qed.
Lemma ext_call_safe ch v id args : safe (ext_call F O obj ch v id args).
Proof. unfold ext_call. safe_tac. Qed.
Lemma do_op_regex_safe a b : safe (do_op_regex F O obj a b).
Proof. unfold do_op_regex. safe_tac. Qed.
Lemma do_op_other_safe : safe (do_op_other F).
Proof. unfold do_op_other. safe_tac. Qed.
#[local] Hint Resolve get_ref_value_safe ext_call_safe do_op_regex_safe do_op_other_safe : wxs.

Lemma float2_safe op a b : safe (float2 F O op a b).
Proof. unfold float2. safe_tac. Qed.
Lemma concat2_safe a b : safe (concat2 F O obj a b).
Proof. unfold concat2. safe_tac. Qed.
#[local] Hint Resolve float2_safe concat2_safe : wxs.

Lemma op_add_safe a b : safe (op_add F O obj a b).
Proof. unfold op_add. safe_tac. Qed.
Lemma op_sub_safe a b : safe (op_sub F O a b).
Proof. unfold op_sub. safe_tac. Qed.
Lemma op_mul_safe a b : safe (op_mul F O a b).
Proof. unfold op_mul. safe_tac. Qed.
Lemma op_div_safe a b : safe (op_div F O a b).
Proof. unfold op_div. safe_tac. Qed.
Lemma op_mod_safe a b : safe (op_mod F O a b).
Proof. unfold op_mod. safe_tac. Qed.
Lemma int2_safe op a b : safe (int2 F O op a b).
Proof. unfold int2. safe_tac. Qed.
#[local] Hint Resolve op_add_safe op_sub_safe op_mul_safe op_div_safe op_mod_safe int2_safe : wxs.
Lemma op_lt_safe a b : safe (op_lt F O a b).
Proof. unfold op_lt. safe_tac. Qed.
#[local] Hint Resolve op_lt_safe : wxs.
Lemma op_eq_safe a b : safe (op_eq F O obj a b).
Proof. unfold op_eq. safe_tac. Qed.
#[local] Hint Resolve op_eq_safe : wxs.
Lemma op_lte_safe a b : safe (op_lte F O obj a b).
Proof. unfold op_lte. safe_tac. Qed.
Lemma op_gt_safe a b : safe (op_gt F O a b).
Proof. unfold op_gt. safe_tac. Qed.
#[local] Hint Resolve op_lte_safe op_gt_safe : wxs.
Lemma op_gte_safe a b : safe (op_gte F O obj a b).
Proof. unfold op_gte. safe_tac. Qed.
Lemma op_seq_safe a b : safe (op_seq F O obj a b).
Proof. unfold op_seq. safe_tac. Qed.
#[local] Hint Resolve op_gte_safe op_seq_safe : wxs.
Lemma op_neq_safe a b : safe (op_neq F O obj a b).
Proof. unfold op_neq. safe_tac. Qed.
Lemma op_sneq_safe a b : safe (op_sneq F O obj a b).
Proof. unfold op_sneq. safe_tac. Qed.
Lemma op_and_safe a b : safe (op_and F O obj a b).
Proof. unfold op_and. safe_tac. Qed.
Lemma op_or_safe a b : safe (op_or F O obj a b).
Proof. unfold op_or. safe_tac. Qed.
Lemma op_coalesce_safe a b : safe (op_coalesce F a b).
Proof. unfold op_coalesce. safe_tac. Qed.
#[local] Hint Resolve op_neq_safe op_sneq_safe op_and_safe op_or_safe op_coalesce_safe : wxs.

Lemma apply_op_safe n op l r : safe (apply_op F O obj n op l r).
Proof.
  unfold apply_op, op_bor, op_band, op_xor.
  do 10 (destruct n as [|n]; [safe_tac|]). safe_tac.
Qed.

Lemma expr_parse_float_safe s : safe (expr_parse_float F O s).
Proof. unfold expr_parse_float. safe_tac. Qed.
#[local] Hint Resolve expr_parse_float_safe : wxs.

Lemma atom_number_safe e : e <> [] -> safe (atom_number F O e).
Proof.
  intros Hne. unfold atom_number.
  destruct e as [|c0 t] eqn:Ee; [congruence|]. rewrite <- Ee.
  assert (Hb : bat e 0 = Some c0) by (subst; reflexivity). rewrite Hb. cbn [opt_panic bind]. cbv zeta.
  match goal with
  | |- safe (if _ then match _ with Some _ => if _ then _ else ?G | None => _ end else _) =>
      assert (Hg : safe G)
  end.
  { apply safe_bind.
    - destruct ((3 <? length e) && has_suffix_64 e) eqn:E3; [|apply safe_ok].
      assert (3 < length e) by lia.
      destruct (bat_lt e (length e - 3)) as [k Hk]; [lia|]. rewrite Hk. cbn [opt_panic bind].
      destruct (slice_ex e 0 (length e - 3)) as [h Hh]; [lia|]. rewrite Hh. cbn [opt_panic bind].
      safe_tac.
    - intros a _. safe_tac. }
  destruct (c0 =? 48)%N; [|exact Hg].
  destruct (bat e 1) as [c1|] eqn:E1; [|exact Hg]. apply bat_some in E1.
  destruct ((c1 =? 120) || (c1 =? 88))%N; [|exact Hg].
  destruct (sfrom_ex e 2) as [h Hh]; [lia|]. rewrite Hh. cbn [opt_panic bind]. safe_tac.
Qed.

Lemma strip_bangs_ok : forall fuel e neg b, length e < fuel ->
  strip_bangs fuel e neg b = Err ESyntax \/
  exists n' b' e', strip_bangs fuel e neg b = Ok (n', b', e') /\ length e' <= length e.
Proof.
  induction fuel as [|fuel IH]; intros e neg b Hf; [lia|].
  cbn [strip_bangs]. destruct e as [|c r]; [left; reflexivity|].
  destruct (negb (c =? 33)%N).
  - right. eexists; eexists; eexists. split; [reflexivity|lia].
  - pose proof (trim_len r) as Ht. cbn [length] in *.
    destruct (IH (trim r) (negb neg) true) as [H|[n' [b' [e' [H1 H2]]]]]; [lia|left; exact H|].
    right. exists n', b', e'. split; [exact H1|lia].
Qed.

Lemma sums_adjust_ok e s neg : s <= length e ->
  exists s' neg', sums_adjust e s neg = Ok (s', neg') /\ s' <= s.
Proof.
  intros Hs. unfold sums_adjust. destruct neg; [|eauto].
  destruct ((0 <? s) && (s <? length e)) eqn:E; [|eauto].
  destruct (bat_pred_ok e s) as [p Hp]; [lia|]. rewrite Hp. cbn [opt_panic bind].
  destruct (bat_lt e s) as [c Hc]; [lia|]. rewrite Hc. cbn [opt_panic bind].
  destruct ((p =? 45)%N && isdigit c); eexists; eexists; (split; [reflexivity|lia]).
Qed.

End WXS.

#[export] Hint Resolve to_string_safe to_float_safe to_int_safe to_bool_safe get_ref_value_safe ext_call_safe
  op_add_safe op_sub_safe op_mul_safe apply_op_safe : wxs.

(* ------------------------------------------------------------------ recog *)

Ltac rc :=
  repeat match goal with
  | |- context [opt_panic (bat ?e ?k)] =>
      let E := fresh "E" in destruct (bat e k) eqn:E; [|apply bat_none in E]; cbn [opt_panic bind]
  | |- context [opt_panic (bat_pred ?e ?k)] =>
      let E := fresh "E" in destruct (bat_pred e k) eqn:E; [|apply bat_pred_none in E]; cbn [opt_panic bind]
  | |- context [if ?x then _ else _] => destruct x eqn:?; cbn [opt_panic bind]
  end.

Lemma recog_ok n e i c : i < length e ->
  safe (recog n e i c) /\
  (forall o z, recog n e i c = Ok (ASplit o z) -> 1 <= z /\ i + z <= length e).
Proof.
  intros Hi. unfold recog. cbv zeta.
  do 10 (destruct n as [|n];
    [ rc; try (exfalso; lia);
      (split; [first [apply safe_ok|apply safe_err] | intros o z H; try discriminate; inversion H; subst; lia]) |]).
  split; [apply safe_ok|intros; discriminate].
Qed.

(* ================================================================== 5, 6 *)

(* do t <- e[i:]; do g <- readGroup(t); K g   -- the group skip of every scanning loop *)
Lemma skip_group_safe {B} (e : bytes) i (K : bytes -> res B) :
  i < length e -> (forall g, 2 <= length g -> safe (K g)) ->
  safe (bind (opt_panic (sfrom e i)) (fun t => bind (read_group t) K)).
Proof.
  intros Hi HK. rewrite sfrom_ok by lia. cbn [opt_panic bind].
  apply safe_bind.
  - apply read_group_safe0. intros E. apply (f_equal (@length N)) in E. rewrite skipn_length in E. cbn [length] in E. lia.
  - intros g Hg. apply HK. apply (read_group_prefix0 _ _ Hg).
Qed.

Section LV.
Context (F : Type) (O : oracle F) (obj : eobj F).

Lemma safe_ret v : safe (ret F v).
Proof. unfold ret. apply safe_ok. Qed.
Lemma safe_lift r : safe r -> safe (lift F r).
Proof. intros H. unfold lift. apply safe_bind'; [exact H|intros; apply safe_ret]. Qed.
Lemma safe_rbind r f : safe r -> (forall v, safe (f v)) -> safe (rbind F r f).
Proof.
  intros Hr Hf. unfold rbind. apply safe_bind'; [exact Hr|]. intros [v em].
  apply safe_bind'; [apply Hf|]. intros [w em2]. apply safe_ok.
Qed.

(* ------------------------------------------------------------------ operands *)

Lemma operand_safe n next it lft op e :
  (forall it' e', length e' <= length e -> safe (next it' e')) ->
  safe (operand F O obj n next it lft op e).
Proof.
  intros Hn. unfold operand. cbv zeta. pose proof (trim_len e) as Ht.
  remember (trim e) as e1 eqn:He1.
  destruct (n =? 4).
  - destruct (strip_bangs_ok (S (length e1)) e1 false false) as [H|[n' [b' [e' [H1 H2]]]]]; [lia| |].
    + rewrite H. cbn [bind]. apply safe_err.
    + rewrite H1. cbn [bind]. apply safe_rbind; [apply Hn; lia|]. intros rgt.
      apply safe_bind'; [|intros; apply safe_lift, apply_op_safe].
      destruct b'; [|apply safe_ok].
      apply safe_bind'; [|intros; apply safe_ok].
      destruct rgt; first [apply safe_ok | apply to_bool_safe].
  - destruct e1 as [|c t]; [apply safe_err|].
    apply safe_rbind; [apply Hn; lia|]. intros; apply safe_lift, apply_op_safe.
Qed.

Lemma sum_operand_safe next it lft op e neg :
  (forall it' e', length e' <= length e -> safe (next it' e')) ->
  safe (sum_operand F O obj next it lft op e neg).
Proof.
  intros Hn. unfold sum_operand. cbv zeta. pose proof (trim_len e) as Ht.
  remember (trim e) as e1 eqn:He1.
  destruct e1 as [|c t]; [apply safe_err|].
  apply safe_rbind; [apply Hn; lia|]. intros rgt.
  apply safe_bind'; [destruct neg; [apply op_mul_safe|apply safe_ok]|]. intros rgt'.
  destruct (op =? 43)%N; [apply safe_lift, op_add_safe|].
  destruct (op =? 45)%N; [apply safe_lift, op_sub_safe|apply safe_ret].
Qed.

(* ------------------------------------------------------------------ the scanning loops *)

Lemma scan_level_safe n next it e :
  (forall it' e', length e' <= length e -> safe (next it' e')) ->
  forall fuel i s lft op em, 1 <= fuel -> length e < fuel + i -> s <= i -> s <= length e ->
  safe (scan_level F O obj n next it e fuel i s lft op em).
Proof.
  intros Hn. induction fuel as [|fuel IH]; intros i s lft op em H1 Hf Hsi Hs; [lia|].
  cbn [scan_level].
  destruct (bat e i) as [c|] eqn:Eb.
  2:{ destruct (sfrom_ex e s Hs) as [seg Hseg]. rewrite Hseg. cbn [opt_panic bind].
      apply sfrom_inv in Hseg.
      apply safe_bind'; [apply operand_safe; intros; apply Hn; lia|]. intros [v em2]. apply safe_ok. }
  pose proof (bat_some _ _ _ Eb) as Hlt.
  destruct (is_opener c).
  - apply skip_group_safe; [exact Hlt|]. intros g Hg. apply IH; lia.
  - destruct (recog_ok n e i c Hlt) as [Hsafe Hsplit].
    apply safe_bind; [exact Hsafe|]. intros a Ha. destruct a as [| |opch opsz].
    + apply IH; lia.
    + apply IH; lia.
    + specialize (Hsplit _ _ Ha).
      destruct (slice_ex e s i) as [seg Hseg]; [lia|]. rewrite Hseg. cbn [opt_panic bind].
      apply slice_inv in Hseg.
      apply safe_bind'; [apply operand_safe; intros; apply Hn; lia|]. intros [v em2]. cbv zeta.
      apply IH; lia.
Qed.

Lemma scan_sums_safe next it e :
  (forall it' e', length e' <= length e -> safe (next it' e')) ->
  forall fuel i s lft op fill neg em, 1 <= fuel -> length e < fuel + i -> s <= i -> s <= length e ->
  safe (scan_sums F O obj next it e fuel i s lft op fill neg em).
Proof.
  intros Hn. induction fuel as [|fuel IH]; intros i s lft op fill neg em H1 Hf Hsi Hs; [lia|].
  cbn [scan_sums].
  destruct (bat e i) as [c|] eqn:Eb.
  2:{ destruct (sums_adjust_ok e s neg Hs) as [s' [neg' [Ha Hs']]]. rewrite Ha. cbn [bind].
      destruct (sfrom_ex e s') as [seg Hseg]; [lia|]. rewrite Hseg. cbn [opt_panic bind].
      apply sfrom_inv in Hseg.
      apply safe_bind'; [apply sum_operand_safe; intros; apply Hn; lia|]. intros [v em2]. apply safe_ok. }
  pose proof (bat_some _ _ _ Eb) as Hlt.
  assert (Hprev : forall (f : N -> bool), safe (if 0 <? i then bind (opt_panic (bat_pred e i)) (fun p => Ok (f p)) else Ok false)).
  { intros f. destruct (0 <? i) eqn:E0; [|apply safe_ok].
    destruct (bat_pred_ok e i) as [p Hp]; [lia|]. rewrite Hp. cbn [opt_panic bind]. apply safe_ok. }
  destruct ((c =? 45) || (c =? 43))%N.
  - destruct (negb fill).
    + apply safe_bind'; [apply (Hprev (fun p => (p =? c)%N))|]. intros dup.
      destruct dup; [apply safe_err|]. apply IH; lia.
    + apply safe_bind'; [apply (Hprev (fun p => ((p =? 101) || (p =? 69))%N))|]. intros sci.
      destruct sci; [apply IH; lia|].
      destruct (sums_adjust_ok e s neg Hs) as [s' [neg' [Ha Hs']]]. rewrite Ha. cbn [bind].
      destruct (slice_ex e s' i) as [seg Hseg]; [lia|]. rewrite Hseg. cbn [opt_panic bind].
      apply slice_inv in Hseg.
      apply safe_bind'; [apply sum_operand_safe; intros; apply Hn; lia|]. intros [v em2].
      apply IH; lia.
  - destruct (is_opener c).
    + apply skip_group_safe; [exact Hlt|]. intros g Hg. apply IH; lia.
    + apply IH; lia.
Qed.

Lemma scan_comma_safe next it e :
  (forall it' e', length e' <= length e -> safe (next it' e')) ->
  forall fuel i s em, 1 <= fuel -> length e < fuel + i -> s <= i -> s <= length e ->
  safe (scan_comma F next it e fuel i s em).
Proof.
  intros Hn. induction fuel as [|fuel IH]; intros i s em H1 Hf Hsi Hs; [lia|].
  cbn [scan_comma].
  destruct (bat e i) as [c|] eqn:Eb.
  2:{ destruct (sfrom_ex e s Hs) as [seg Hseg]. rewrite Hseg. cbn [opt_panic bind].
      apply sfrom_inv in Hseg.
      apply safe_bind'; [apply Hn; lia|]. intros [v em2]. apply safe_ok. }
  pose proof (bat_some _ _ _ Eb) as Hlt.
  destruct (c =? 44)%N.
  - destruct (slice_ex e s i) as [seg Hseg]; [lia|]. rewrite Hseg. cbn [opt_panic bind].
    apply slice_inv in Hseg.
    apply safe_bind'; [apply Hn; lia|]. intros [v em2]. apply IH; lia.
  - destruct (is_opener c).
    + apply skip_group_safe; [exact Hlt|]. intros g Hg. apply IH; lia.
    + apply IH; lia.
Qed.

(* ------------------------------------------------------------------ relative to the callback *)

Section LEVELS.
Context (rec : N -> bool -> bytes -> R F) (steps : N) (L : nat)
        (Hrec : forall st it e', length e' < L -> safe (rec st it e')).

Lemma eval_for_each_safe it e : length e < L -> safe (eval_for_each F rec it e).
Proof.
  intros H. unfold eval_for_each. cbv zeta. pose proof (trim_len e).
  destruct (length (trim e) =? 0); [apply safe_ret|]. apply Hrec. lia.
Qed.

Lemma multi_safe e : length e < L -> safe (multi_exprs_to_array F O obj rec e).
Proof.
  intros H. unfold multi_exprs_to_array. apply safe_bind'; [apply eval_for_each_safe; exact H|].
  intros [v em]. induction em as [|x em IH]; [apply safe_ok|].
  apply safe_bind'; [apply to_string_safe|]. intros s. apply safe_bind'; [exact IH|]. intros; apply safe_ok.
Qed.

Lemma scan_terns_safe next it e : length e <= L ->
  (forall it' e', length e' <= length e -> safe (next it' e')) ->
  forall fuel i s cond depth, 1 <= fuel -> length e < fuel + i -> s <= i ->
    (e <> [] -> length cond < length e) ->
  safe (scan_terns F O obj rec steps next it e fuel i s cond depth).
Proof.
  intros HL Hn. induction fuel as [|fuel IH]; intros i s cond depth H1 Hf Hsi Hc; [lia|].
  cbn [scan_terns].
  destruct (bat e i) as [c|] eqn:Eb.
  2:{ destruct (depth =? 0)%Z; [apply Hn; lia|apply safe_err]. }
  pose proof (bat_some _ _ _ Eb) as Hlt.
  assert (Hne : e <> []) by (intros E; subst e; cbn [length] in Hlt; lia).
  specialize (Hc Hne).
  destruct (c =? 63)%N.
  - apply safe_bind'.
    { destruct (S i <? length e) eqn:E1; [|apply safe_ok].
      destruct (bat_lt e (S i)) as [c1 Hc1]; [lia|]. rewrite Hc1. cbn [opt_panic bind]. apply safe_ok. }
    intros skip. destruct skip; [apply IH; (lia || (intros; lia))|].
    destruct (depth =? 0)%Z; [|apply IH; (lia || (intros; lia))].
    destruct (slice_ex e 0 i) as [cnd Hcnd]; [lia|]. rewrite Hcnd. cbn [opt_panic bind].
    apply slice_inv in Hcnd. apply IH; (lia || (intros; lia)).
  - destruct (c =? 58)%N.
    + destruct (depth - 1 =? 0)%Z; [|apply IH; (lia || (intros; lia))].
      destruct (slice_ex e s i) as [l Hl]; [lia|]. rewrite Hl. cbn [opt_panic bind]. apply slice_inv in Hl.
      destruct (sfrom_ex e (S i)) as [r Hr]; [lia|]. rewrite Hr. cbn [opt_panic bind]. apply sfrom_inv in Hr.
      apply safe_rbind; [apply Hrec; lia|]. intros cv.
      apply safe_bind'; [apply to_bool_safe|]. intros t. destruct t; apply Hrec; lia.
    + destruct (is_opener c).
      * apply skip_group_safe; [exact Hlt|]. intros g Hg. apply IH; (lia || (intros; lia)).
      * apply IH; (lia || (intros; lia)).
Qed.

(* case '.' of the chain loop, with the continuation abstracted *)
Lemma member_safe (K : bytes -> evalue F -> R F) lft (e0 : bytes) (oc : bool) :
  1 <= length e0 -> (forall e2 val, length e2 < length e0 -> safe (K e2 val)) ->
  safe (bind (opt_panic (sfrom e0 1)) (fun e1 =>
          match read_ident (trim e1) with
          | None => Err ESyntax
          | Some ident =>
              bind (get_ref_value F O obj true lft ident oc) (fun val =>
              bind (opt_panic (sfrom (trim e1) (length ident))) (fun e2 => K e2 val))
          end)).
Proof.
  intros H1 HK. destruct (sfrom_ex e0 1 H1) as [e1 He1]. rewrite He1. cbn [opt_panic bind].
  apply sfrom_inv in He1. pose proof (trim_len e1) as Ht.
  destruct (read_ident (trim e1)) as [ident|] eqn:Ei; [|apply safe_err].
  apply read_ident_len in Ei.
  apply safe_bind'; [apply get_ref_value_safe|]. intros val.
  destruct (sfrom_ex (trim e1) (length ident)) as [e2 He2]; [lia|]. rewrite He2. cbn [opt_panic bind].
  apply sfrom_inv in He2. apply HK. lia.
Qed.

Lemma atom_chain_safe : forall fuel it e lft ll h oc, length e < fuel -> length e <= L ->
  safe (atom_chain F O obj rec steps fuel it e lft ll h oc).
Proof.
  induction fuel as [|fuel IH]; intros it e lft ll h oc Hf HL; [lia|].
  cbn [atom_chain]. cbv beta zeta.
  pose proof (trim_len e) as Ht.
  remember (trim e) as e' eqn:He'.
  destruct e' as [|c t] eqn:Ee'; [apply safe_ret|]. rewrite <- Ee' in *.
  assert (Hl1 : 1 <= length e') by (rewrite Ee'; cbn [length]; lia).
  assert (Hne : e' <> []) by (rewrite Ee'; discriminate).
  destruct (c =? 63)%N.
  - destruct (length e' =? 1) eqn:E1; [apply safe_err|].
    destruct (bat_lt e' 1) as [c1 Hc1]; [lia|]. rewrite Hc1. cbn [opt_panic bind].
    destruct (negb (c1 =? 46)%N); [apply safe_err|].
    destruct (sfrom_ex e' 1) as [e1 He1]; [lia|]. rewrite He1. cbn [opt_panic bind].
    apply sfrom_inv in He1.
    apply (member_safe (fun e2 val => atom_chain F O obj rec steps fuel it e2 val lft true true)); [lia|].
    intros e2 val H2. apply IH; lia.
  - destruct (c =? 46)%N.
    + apply (member_safe (fun e2 val => atom_chain F O obj rec steps fuel it e2 val lft true oc)); [lia|].
      intros e2 val H2. apply IH; lia.
    + destruct ((c =? 40) || (c =? 91))%N; [|apply safe_err].
      apply safe_bind; [apply read_group_safe0; exact Hne|]. intros g Hg.
      destruct (read_group_prefix0 _ _ Hg) as [Hg2 [r Hr]].
      assert (Hlg : length e' = length g + length r) by (rewrite Hr at 1; apply app_length).
      destruct (bat_lt g 0) as [g0 Hg0]; [lia|]. rewrite Hg0. cbn [opt_panic bind].
      unfold group_inner.
      destruct (slice_ex g 1 (length g - 1)) as [inner Hin]; [lia|]. rewrite Hin. cbn [opt_panic bind].
      apply slice_inv in Hin.
      destruct (sfrom_ex e' (length g)) as [rest Hrest]; [lia|]. rewrite Hrest. cbn [opt_panic bind].
      apply sfrom_inv in Hrest.
      destruct (g0 =? 40)%N.
      * destruct lft; try apply safe_err.
        apply safe_bind'; [apply multi_safe; lia|]. intros args.
        apply safe_bind'; [apply ext_call_safe|]. intros val. apply IH; lia.
      * apply safe_rbind; [apply Hrec; lia|]. intros last.
        apply safe_bind'; [apply to_string_safe|]. intros ident.
        apply safe_bind'; [apply get_ref_value_safe|]. intros val. apply IH; lia.
Qed.

Lemma eval_atom_safe it e : length e <= L -> safe (eval_atom F O obj rec steps it e).
Proof.
  intros HL. unfold eval_atom. cbv beta zeta. pose proof (trim_len e) as Ht.
  remember (trim e) as e' eqn:He'.
  destruct e' as [|c t] eqn:Ee'; [apply safe_err|]. rewrite <- Ee' in *.
  assert (Hne : e' <> []) by (rewrite Ee'; discriminate).
  assert (Hchain : forall lft rest, length rest <= L ->
            safe (atom_chain F O obj rec steps (S (length rest)) it rest lft (VUndef F) false false))
    by (intros; apply atom_chain_safe; lia).
  destruct ((c =? 48)%N || (c =? 45)%N || (c =? 46)%N || ((49 <=? c) && (c <=? 57))%N);
    [apply safe_lift, atom_number_safe; exact Hne|].
  destruct ((c =? 34) || (c =? 39))%N.
  { apply safe_bind; [apply parse_string_safe'|]. intros p Hp.
    destruct p as [[s rawlen]|]; [|apply safe_err]. apply parse_string_len in Hp.
    destruct (sfrom_ex e' rawlen Hp) as [rest Hr]. rewrite Hr. cbn [opt_panic bind].
    apply sfrom_inv in Hr. apply Hchain. lia. }
  destruct ((c =? 40) || (c =? 123) || (c =? 91))%N.
  { apply safe_bind; [apply read_group_safe0; exact Hne|]. intros g Hg.
    destruct (read_group_prefix0 _ _ Hg) as [Hg2 [r Hr]].
    assert (Hlg : length e' = length g + length r) by (rewrite Hr at 1; apply app_length).
    destruct (bat_lt g 0) as [g0 Hg0]; [lia|]. rewrite Hg0. cbn [opt_panic bind].
    unfold group_inner.
    destruct (slice_ex g 1 (length g - 1)) as [inner Hin]; [lia|]. rewrite Hin. cbn [opt_panic bind].
    apply slice_inv in Hin.
    destruct (sfrom_ex e' (length g)) as [rest Hrest]; [lia|]. rewrite Hrest.
    apply sfrom_inv in Hrest.
    destruct (g0 =? 40)%N.
    - apply safe_rbind; [apply Hrec; lia|]. intros lft. cbn [opt_panic bind]. apply Hchain. lia.
    - destruct (g0 =? 91)%N; [|apply safe_err].
      apply safe_bind'; [apply multi_safe; lia|]. intros items. cbn [opt_panic bind]. apply Hchain. lia. }
  destruct (read_ident e') as [ident|] eqn:Ei; [|apply safe_err].
  apply read_ident_len in Ei.
  apply safe_bind'.
  { repeat match goal with |- safe (if ?x then _ else _) => destruct x end;
      first [apply safe_ok | apply safe_err | apply get_ref_value_safe]. }
  intros lft.
  destruct (sfrom_ex e' (length ident)) as [rest Hrest]; [lia|]. rewrite Hrest. cbn [opt_panic bind].
  apply sfrom_inv in Hrest. apply Hchain. lia.
Qed.

Lemma eval_auto_safe : forall n it e, length e <= L -> safe (eval_auto F O obj rec steps n it e).
Proof.
  induction n as [|m IH]; intros it e HL; [apply eval_atom_safe; exact HL|].
  cbn [eval_auto]. cbv zeta.
  assert (Hn : forall it' e', length e' <= length e -> safe (eval_auto F O obj rec steps m it' e'))
    by (intros; apply IH; lia).
  clear IH. revert Hn. generalize (eval_auto F O obj rec steps m). intros next Hn.
  destruct (has_step steps (S m)); [|apply Hn; lia].
  do 11 (destruct m as [|m];
    [ cbv iota;
      first [ apply scan_comma_safe | apply scan_terns_safe | apply scan_sums_safe | apply scan_level_safe ];
      first [ exact Hn | exact HL | lia | (intros Hne; destruct e; [congruence|cbn [length]; lia]) ] |]).
  cbv iota. apply scan_level_safe; first [ exact Hn | lia ].
Qed.

End LEVELS.

(* ------------------------------------------------------------------ the knot *)

Lemma eval_expr_safe : forall d steps it e, length e < d -> safe (eval_expr F O obj d steps it e).
Proof.
  induction d as [|d IH]; intros steps it e Hd; [lia|].
  cbn [eval_expr]. apply (eval_auto_safe (eval_expr F O obj d) steps d); [|lia].
  intros st it' e' H. apply IH; exact H.
Qed.

Lemma eval_safe' e : safe (eval F O obj e).
Proof.
  unfold eval. apply safe_bind'; [|intros; apply safe_ok].
  apply (eval_for_each_safe (eval_expr F O obj (S (length e))) 0%N (S (length e))); [|lia].
  intros st it e' H. apply eval_expr_safe. exact H.
Qed.

Lemma match_expr_safe' e : safe (match_expr F O obj e).
Proof.
  unfold match_expr. pose proof (eval_safe' e) as [H1 H2].
  destruct (eval F O obj e); try congruence; [apply to_bool_safe|apply safe_ok|apply safe_outside].
Qed.

End LV.

Theorem eval_safe : forall (F : Type) (O : oracle F) (obj : eobj F) (e : bytes),
  eval F O obj e <> Panic /\ eval F O obj e <> NoFuel.
Proof. exact eval_safe'. Qed.

Theorem match_expr_safe : forall (F : Type) (O : oracle F) (obj : eobj F) (e : bytes),
  match_expr F O obj e <> Panic /\ match_expr F O obj e <> NoFuel.
Proof. exact match_expr_safe'. Qed.

Theorem detect_expr_token_safe : forall vs, exists b, detect_expr_token vs = Ok b.
Proof.
  intros vs. unfold detect_expr_token.
  repeat match goal with
  | |- exists b, Ok _ = Ok b => eexists; reflexivity
  | |- exists b, match ?x with _ => _ end = Ok b => destruct x
  end.
Qed.

Theorem read_group_safe : forall data, data <> [] -> read_group data <> Panic /\ read_group data <> NoFuel.
Proof. exact read_group_safe0. Qed.

Theorem read_group_prefix : forall data g, read_group data = Ok g -> (2 <= length g)%nat /\ exists r, data = g ++ r.
Proof. exact read_group_prefix0. Qed.

Theorem parse_string_safe : forall data, parse_string data <> Panic /\ parse_string data <> NoFuel.
Proof. exact parse_string_safe'. Qed.
