(* The regenerated entry section / epilogue of aofshrink() are Model/Shrink.v's `request` /
   `end_rewrite` on the flag and the log; hence a refused AOFSHRINK changes nothing. *)
From Coq Require Import String List Bool.
From T38 Require Import Model.Shrink Gen.ShrinkEntry Gen.ShrinkFinal Model.ShrinkEntry Proofs.ShrinkProofs.
Import ListNotations.
Open Scope string_scope.

(* the entry section, on any state with the log file open: what `request` does to flag and log *)
Lemma entry_transcribed : forall r,
  exec_section true entry_section r =
  Some (if r_shrinking r then r else mkRun (r_live r) (r_sh r) [] true).
Proof. intros [l sh lg [|]]; vm_compute; reflexivity. Qed.

Lemma entry_is_request : forall r,
  exists r', exec_section true entry_section r = Some r' /\
    r_shrinking r' = r_shrinking (request r) /\ r_log r' = r_log (request r) /\ r_live r' = r_live (request r).
Proof.
  intros r. rewrite entry_transcribed. eexists. split; [reflexivity|].
  unfold request. destruct (r_shrinking r) eqn:E; cbn; rewrite ?E; auto.
Qed.

(* a request that arrives while a rewrite is running (or with no log file): nothing changes — in
   particular the running rewrite's shrinklog keeps every command acknowledged so far *)
Lemma refused_request_changes_nothing : forall r,
  r_shrinking r = true -> exec_section true entry_section r = Some r.
Proof. intros r H. rewrite entry_transcribed, H. reflexivity. Qed.

Lemma request_without_aof_changes_nothing : forall r, exec_section false entry_section r = Some r.
Proof. intros [l sh lg [|]]; vm_compute; reflexivity. Qed.

(* the epilogue of the rewrite that passed the entry check is `end_rewrite` *)
Lemma epilogue_transcribed : forall b r, exec_section b epilogue_section r = Some (end_rewrite r).
Proof. intros [|] [l sh lg [|]]; vm_compute; reflexivity. Qed.

(* nothing else in the package assigns the flag or the log (writeAOF appends), except a reset that
   also makes the running rewrite give up before its file can become the log *)
Lemma state_writes_accounted :
  forallb (write_ok shrink_state_writes final_section) shrink_state_writes = true /\
  forallb (fun w => in_list w shrink_state_writes) expected_state_writes = true.
Proof. vm_compute. split; reflexivity. Qed.

(* along a whole schedule of writes / rewrite steps / further requests: the log of the running rewrite
   holds, in order, every logged command accepted since it started — requests do not shorten it *)
Lemma requests_keep_log (mk mi : nat) : forall sched r,
  r_shrinking r = true ->
  r_log (run_sched mk mi (filter (fun e => match e with Req => false | _ => true end) sched) r) =
  r_log (run_sched mk mi sched r) /\
  r_shrinking (run_sched mk mi sched r) = true.
Proof.
  induction sched as [|e rest IH]; intros r H; [split; [reflexivity | exact H]|].
  destruct e as [c| |]; cbn [filter run_sched fold_left].
  - assert (Hs : r_shrinking (do_ev mk mi r (W c)) = true).
    { cbn [do_ev]. destruct (exec (r_live r) c) as [s' o]. cbn. exact H. }
    apply (IH _ Hs).
  - assert (Hs : r_shrinking (do_ev mk mi r Step) = true) by (cbn; exact H).
    apply (IH _ Hs).
  - rewrite (request_is_noop mk mi r H). apply (IH r H).
Qed.
