(* Lemmas about Model/Pipeline.v: stability of the tile38-level parser (HTTP sniff + redcon) under
   appended bytes, the carry-over step of ReadMessages, absence of Panic after the proposed repair. *)
From Coq Require Import ZifyN ZifyNat ZifyBool.
From T38 Require Import Base.Bytes Model.Resp Model.Pipeline Proofs.RespProofs.
Local Open Scope Z_scope.

Definition cext (e : bytes) (r r' : cres) : Prop :=
  match r with
  | CComplete a k rest => r' = CComplete a k (rest ++ e)
  | CErr x => r' = CErr x
  | _ => True
  end.

Lemma of_result_ext e r r' : ext e r r' -> cext e (of_result r) (of_result r').
Proof. destruct r; cbn; intros H; subst; try exact I; reflexivity. Qed.

Lemma find_crlf_app_l s e : forall prev i k, find_crlf s prev i = Some k -> find_crlf (s ++ e) prev i = Some k.
Proof.
  induction s as [|x s IH]; intros prev i k H; cbn [find_crlf app] in *; [discriminate|].
  destruct ((x =? LF) && (prev =? CR))%N; auto.
Qed.

(* the sniff decision is stable once a CRLF has been seen *)
Lemma sniff_stable d e :
  match sniff d with
  | SIncomplete | SPanic => True
  | r => sniff (d ++ e) = r
  end.
Proof.
  destruct d as [|c s]; [exact I|]. cbn [sniff app].
  destruct ((c =? 71) || (c =? 80) || (c =? 79))%N; [|reflexivity].
  destruct (find_crlf s c 1) as [i|] eqn:F; [|exact I].
  rewrite (find_crlf_app_l _ e _ _ _ F).
  destruct (11 <? i + 1); [|reflexivity].
  destruct (slice (c :: s) (i + 1 - 11) (i + 1 - 5)) as [w|] eqn:Sl; [|exact I].
  change (c :: s ++ e) with ((c :: s) ++ e). rewrite (slice_app_l _ e _ _ _ Sl).
  destruct (bytes_eqb w w_http); reflexivity.
Qed.

Section WithHttp.
  Variable http : bytes -> cres.
  Hypothesis http_stable : forall d e, cext e (http d) (http (d ++ e)).

  Lemma read_cmd_stable d e : cext e (read_cmd http d) (read_cmd http (d ++ e)).
  Proof.
    unfold read_cmd. pose proof (sniff_stable d e) as S.
    destruct (sniff d); try exact I; rewrite S.
    - apply http_stable.
    - apply of_result_ext. apply read_next_ext.
  Qed.

  (* after the repair: never Panic *)
  Lemma read_cmd_fixed_no_panic d : read_cmd_fixed http d <> CPanic.
  Proof. unfold read_cmd_fixed. destruct d; [discriminate|]. destruct (read_cmd http (n :: d)); discriminate. Qed.
End WithHttp.

(* ---------- the carry-over step of ReadMessages, for any parser stable under appended bytes ---------- *)
Section Accumulate.
  Variable parse : bytes -> cres.
  Hypothesis parse_stable : forall d e, cext e (parse d) (parse (d ++ e)).

  Definition prepend (ms : list msg) (r : rm_res) : rm_res :=
    match r with RM ms' b x => RM (ms ++ ms') b x | other => other end.

  Lemma prepend_nil r : prepend [] r = r.
  Proof. destruct r; reflexivity. Qed.

  Lemma rm_loop_S f data : rm_loop parse (S f) data =
    match data with
    | [] => RM [] [] None
    | _ =>
        match parse data with
        | CErr e => RM [] data (Some e)
        | CIncomplete => RM [] data None
        | CPanic => RMPanic
        | CFuel => RMFuel
        | CComplete args k rest =>
            match k, args with
            | KHttp, [] => RMAbort
            | _, _ =>
                match rm_loop parse f rest with
                | RM ms b e => RM (match args with [] => ms | _ => {| m_args := args; m_kind := k |} :: ms end) b e
                | r => r
                end
            end
        end
    end.
  Proof. reflexivity. Qed.

  Lemma rm_loop_mono : forall f d f', (f <= f')%nat -> rm_loop parse f d <> RMFuel ->
    rm_loop parse f' d = rm_loop parse f d.
  Proof.
    induction f as [|f IH]; intros d f' Hle Hn; [cbn in Hn; congruence|].
    destruct f' as [|f']; [lia|]. rewrite !rm_loop_S in *.
    destruct d as [|x d]; [reflexivity|].
    destruct (parse (x :: d)) as [args k rest| | | |]; try reflexivity.
    assert (Hrec : rm_loop parse f rest <> RMFuel -> rm_loop parse f' rest = rm_loop parse f rest)
      by (intros; apply IH; [lia|assumption]).
    destruct k; destruct args; try reflexivity;
      (destruct (rm_loop parse f rest) eqn:D; rewrite Hrec by (try discriminate; congruence); reflexivity).
  Qed.

  (* parsing d ++ e = parsing d, keeping the leftover b, then parsing b ++ e *)
  Lemma rm_loop_app e : forall f d ms b f2,
    rm_loop parse f d = RM ms b None ->
    rm_loop parse f2 (b ++ e) <> RMFuel ->
    rm_loop parse (f + f2) (d ++ e) = prepend ms (rm_loop parse f2 (b ++ e)).
  Proof.
    induction f as [|f IH]; intros d ms b f2 H Hn; [cbn in H; discriminate|].
    rewrite rm_loop_S in H.
    destruct d as [|x d].
    { inversion H; subst. cbn [app] in *. rewrite prepend_nil. apply rm_loop_mono; [lia|assumption]. }
    pose proof (parse_stable (x :: d) e) as St.
    destruct (parse (x :: d)) as [args k rest| |x0| |] eqn:P; try discriminate.
    - cbn [cext] in St. change (S f + f2)%nat with (S (f + f2)). rewrite rm_loop_S.
      change ((x :: d) ++ e) with (x :: d ++ e) in *. rewrite St.
      destruct k; destruct args; try discriminate;
        (destruct (rm_loop parse f rest) as [ms' b' x'| | |] eqn:D; try discriminate;
         injection H as Hm Hb Hx; subst ms b' x';
         rewrite (IH rest ms' b f2 D Hn);
         destruct (rm_loop parse f2 (b ++ e)); reflexivity).
    - inversion H; subst. rewrite prepend_nil. apply rm_loop_mono; [lia|assumption].
  Qed.

  (* an error point found in d is found at the same place, after the same messages, in d ++ e *)
  Lemma rm_loop_err e : forall f d ms b x,
    rm_loop parse f d = RM ms b (Some x) ->
    rm_loop parse f (d ++ e) = RM ms (b ++ e) (Some x).
  Proof.
    induction f as [|f IH]; intros d ms b x H; [cbn in H; discriminate|].
    rewrite rm_loop_S in H.
    destruct d as [|y d]; [discriminate|].
    pose proof (parse_stable (y :: d) e) as St.
    destruct (parse (y :: d)) as [args k rest| |x0| |] eqn:P; try discriminate.
    - cbn [cext] in St. rewrite rm_loop_S. change ((y :: d) ++ e) with (y :: d ++ e) in *. rewrite St.
      destruct k; destruct args; try discriminate;
        (destruct (rm_loop parse f rest) as [ms' b' x'| | |] eqn:D; try discriminate;
         injection H as Hm Hb Hx; subst ms b x'; rewrite (IH rest ms' b' x D); reflexivity).
    - cbn [cext] in St. inversion H; subst. rewrite rm_loop_S. change ((y :: d) ++ e) with (y :: d ++ e) in *.
      rewrite St. reflexivity.
  Qed.
End Accumulate.

(* ---------- no Panic anywhere once the parser cannot panic ---------- *)
Lemma rm_loop_no_panic parse : (forall d, parse d <> CPanic) -> forall f d, rm_loop parse f d <> RMPanic.
Proof.
  intros Hp. induction f as [|f IH]; intros d; [discriminate|].
  rewrite rm_loop_S. destruct d as [|x d]; [discriminate|].
  pose proof (Hp (x :: d)) as Hx.
  destruct (parse (x :: d)) as [args k rest| | | |]; try discriminate; try congruence.
  pose proof (IH rest) as Hr.
  destruct k; destruct args; try discriminate; destruct (rm_loop parse f rest); try discriminate; congruence.
Qed.

Lemma conn_run_no_crash parse : (forall d, parse d <> CPanic) ->
  forall chunks buf acc, conn_run parse chunks buf acc <> Crashed.
Proof.
  intros Hp. induction chunks as [|c rest IH]; intros buf acc; cbn [conn_run]; [discriminate|].
  unfold rm_step. pose proof (rm_loop_no_panic parse Hp (S (length (buf ++ c))) (buf ++ c)) as Hn.
  destruct (rm_loop parse (S (length (buf ++ c))) (buf ++ c)) as [ms b [e|]| | |]; try discriminate; try congruence; try apply IH.
Qed.

(* F6 on the pinned code: eleven bytes crash the connection goroutine (and with it the process) *)
Lemma pinned_parser_panics :
  read_next [42; 49; 13; 10; 36; 45; 49; 48; 48; 13; 10]%N = Panic /\      (* "*1\r\n$-100\r\n" *)
  read_next [42; 49; 13; 10; 36; 45; 50; 13; 10]%N = Panic /\              (* "*1\r\n$-2\r\n"  *)
  (forall http, conn_run (read_cmd http) [[42; 49; 13; 10; 36; 45; 50; 13; 10]%N] [] [] = Crashed).
Proof. repeat split; intros; vm_compute; reflexivity. Qed.
