(* Lemmas about Model/Pipeline.v: stability of the tile38-level parser (HTTP sniff + redcon) under
   appended bytes, the carry-over step of ReadMessages, absence of Panic after the proposed repair. *)
From Coq Require Import ZifyN ZifyNat ZifyBool.
From T38 Require Import Base.Bytes Model.Resp Model.Pipeline Proofs.RespProofs Proofs.ChunkProofs Proofs.PanicProofs.
Local Open Scope Z_scope.

Definition cext (e : bytes) (r r' : cres) : Prop :=
  match r with
  | CComplete a k rest => r' = CComplete a k (rest ++ e)
  | CErr x => r' = CErr x
  | _ => True
  end.

Lemma of_result_ext e r r' : ext e r r' -> cext e (of_result r) (of_result r').
Proof. destruct r; cbn; intros H; subst; try exact I; reflexivity. Qed.

Lemma find_crlf_app_l s e : forall prev i k, find_crlf s prev i = Some k -> find_crlf (s ++ e) prev i = Some k.
Proof.
  induction s as [|x s IH]; intros prev i k H; cbn [find_crlf app] in *; [discriminate|].
  destruct ((x =? LF) && (prev =? CR))%N; auto.
Qed.

(* the sniff decision is stable once a CRLF has been seen *)
Lemma sniff_stable d e :
  match sniff d with
  | SIncomplete | SPanic => True
  | r => sniff (d ++ e) = r
  end.
Proof.
  destruct d as [|c s]; [exact I|]. cbn [sniff app].
  destruct ((c =? 71) || (c =? 80) || (c =? 79))%N; [|reflexivity].
  destruct (find_crlf s c 1) as [i|] eqn:F; [|exact I].
  rewrite (find_crlf_app_l _ e _ _ _ F).
  destruct (11 <? i + 1); [|reflexivity].
  destruct (slice (c :: s) (i + 1 - 11) (i + 1 - 5)) as [w|] eqn:Sl; [|exact I].
  change (c :: s ++ e) with ((c :: s) ++ e). rewrite (slice_app_l _ e _ _ _ Sl).
  destruct (bytes_eqb w w_http); reflexivity.
Qed.

Section WithHttp.
  Variable http : bytes -> cres.
  Hypothesis http_stable : forall d e, cext e (http d) (http (d ++ e)).

  Lemma read_cmd_stable d e : cext e (read_cmd http d) (read_cmd http (d ++ e)).
  Proof.
    unfold read_cmd. pose proof (sniff_stable d e) as S.
    destruct (sniff d); try exact I; rewrite S.
    - apply http_stable.
    - apply of_result_ext. apply read_next_ext.
  Qed.

  (* after the repair: never Panic *)
  Lemma read_cmd_fixed_no_panic d : read_cmd_fixed http d <> CPanic.
  Proof. unfold read_cmd_fixed. destruct d; [discriminate|]. destruct (read_cmd http (n :: d)); discriminate. Qed.
End WithHttp.

(* ---------- the carry-over step of ReadMessages, for any parser stable under appended bytes ---------- *)
Definition cgood (parse : bytes -> cres) : Prop :=
  forall d, match parse d with CComplete _ _ rest => len rest < len d | CFuel => False | _ => True end.

Section Accumulate.
  Variable parse : bytes -> cres.
  Variable B : Z.   (* buffers shorter than B (a Go slice is shorter than 2^62) *)
  Hypothesis parse_stable : forall d e, len (d ++ e) < B -> cext e (parse d) (parse (d ++ e)).
  Hypothesis parse_good : cgood parse.

  Definition prepend (ms : list msg) (r : rm_res) : rm_res :=
    match r with RM ms' b x => RM (ms ++ ms') b x | other => other end.

  Lemma prepend_nil r : prepend [] r = r.
  Proof. destruct r; reflexivity. Qed.

  Lemma rm_loop_S f data : rm_loop parse (S f) data =
    match data with
    | [] => RM [] [] None
    | _ =>
        match parse data with
        | CErr e => RM [] data (Some e)
        | CIncomplete => RM [] data None
        | CPanic => RMPanic
        | CFuel => RMFuel
        | CComplete args k rest =>
            match k, args with
            | KHttp, [] => RM [] data (Some (EHttp 0))
            | _, _ =>
                match rm_loop parse f rest with
                | RM ms b e => RM (match args with [] => ms | _ => {| m_args := args; m_kind := k |} :: ms end) b e
                | r => r
                end
            end
        end
    end.
  Proof. reflexivity. Qed.

  Lemma rm_loop_mono : forall f d f', (f <= f')%nat -> rm_loop parse f d <> RMFuel ->
    rm_loop parse f' d = rm_loop parse f d.
  Proof.
    induction f as [|f IH]; intros d f' Hle Hn; [cbn in Hn; congruence|].
    destruct f' as [|f']; [lia|]. rewrite !rm_loop_S in *.
    destruct d as [|x d]; [reflexivity|].
    destruct (parse (x :: d)) as [args k rest| | | |]; try reflexivity.
    assert (Hrec : rm_loop parse f rest <> RMFuel -> rm_loop parse f' rest = rm_loop parse f rest)
      by (intros; apply IH; [lia|assumption]).
    destruct k; destruct args; try reflexivity;
      (destruct (rm_loop parse f rest) eqn:D; rewrite Hrec by (try discriminate; congruence); reflexivity).
  Qed.

  (* parsing d ++ e = parsing d, keeping the leftover b, then parsing b ++ e *)
  Lemma rm_loop_app e : forall f d ms b f2,
    len (d ++ e) < B ->
    rm_loop parse f d = RM ms b None ->
    rm_loop parse f2 (b ++ e) <> RMFuel ->
    rm_loop parse (f + f2) (d ++ e) = prepend ms (rm_loop parse f2 (b ++ e)).
  Proof.
    induction f as [|f IH]; intros d ms b f2 Hb H Hn; [cbn in H; discriminate|].
    rewrite rm_loop_S in H.
    destruct d as [|x d].
    { inversion H; subst. cbn [app] in *. rewrite prepend_nil. apply rm_loop_mono; [lia|assumption]. }
    pose proof (parse_stable (x :: d) e Hb) as St. pose proof (parse_good (x :: d)) as G.
    destruct (parse (x :: d)) as [args k rest| |x0| |] eqn:P; try discriminate.
    - assert (Hb' : len (rest ++ e) < B) by (rewrite len_app in *; lia).
      cbn [cext] in St. change (S f + f2)%nat with (S (f + f2)). rewrite rm_loop_S.
      change ((x :: d) ++ e) with (x :: d ++ e) in *. rewrite St.
      destruct k; destruct args; try discriminate;
        (destruct (rm_loop parse f rest) as [ms' b' x'| |] eqn:D; try discriminate;
         injection H as Hm Hbb Hx; subst ms b' x';
         rewrite (IH rest ms' b f2 Hb' D Hn);
         destruct (rm_loop parse f2 (b ++ e)); reflexivity).
    - inversion H; subst. rewrite prepend_nil. apply rm_loop_mono; [lia|assumption].
  Qed.

  (* an error point found in d is found at the same place, after the same messages, in d ++ e *)
  Lemma rm_loop_err e : forall f d ms b x,
    len (d ++ e) < B ->
    rm_loop parse f d = RM ms b (Some x) ->
    rm_loop parse f (d ++ e) = RM ms (b ++ e) (Some x).
  Proof.
    induction f as [|f IH]; intros d ms b x Hb H; [cbn in H; discriminate|].
    rewrite rm_loop_S in H.
    destruct d as [|y d]; [discriminate|].
    pose proof (parse_stable (y :: d) e Hb) as St. pose proof (parse_good (y :: d)) as G.
    destruct (parse (y :: d)) as [args k rest| |x0| |] eqn:P; try discriminate.
    - assert (Hb' : len (rest ++ e) < B) by (rewrite len_app in *; lia).
      cbn [cext] in St. rewrite rm_loop_S. change ((y :: d) ++ e) with (y :: d ++ e) in *. rewrite St.
      destruct k; destruct args; try discriminate;
        first [ solve [inversion H; subst; reflexivity]
              | (destruct (rm_loop parse f rest) as [ms' b' x'| |] eqn:D; try discriminate;
                 injection H as Hm Hbb Hx; subst ms b x'; rewrite (IH rest ms' b' x Hb' D); reflexivity) ].
    - cbn [cext] in St. inversion H; subst. rewrite rm_loop_S. change ((y :: d) ++ e) with (y :: d ++ e) in *.
      rewrite St. reflexivity.
  Qed.
End Accumulate.

(* ---------- no Panic anywhere once the parser cannot panic ---------- *)
Lemma rm_loop_no_panic parse : (forall d, parse d <> CPanic) -> forall f d, rm_loop parse f d <> RMPanic.
Proof.
  intros Hp. induction f as [|f IH]; intros d; [discriminate|].
  rewrite rm_loop_S. destruct d as [|x d]; [discriminate|].
  pose proof (Hp (x :: d)) as Hx.
  destruct (parse (x :: d)) as [args k rest| | | |]; try discriminate; try congruence.
  pose proof (IH rest) as Hr.
  destruct k; destruct args; try discriminate; destruct (rm_loop parse f rest); try discriminate; congruence.
Qed.

Lemma conn_run_no_crash parse : (forall d, parse d <> CPanic) ->
  forall chunks buf acc, conn_run parse chunks buf acc <> Crashed.
Proof.
  intros Hp. induction chunks as [|c rest IH]; intros buf acc; cbn [conn_run]; [discriminate|].
  unfold rm_step. pose proof (rm_loop_no_panic parse Hp (S (length (buf ++ c))) (buf ++ c)) as Hn.
  destruct (rm_loop parse (S (length (buf ++ c))) (buf ++ c)) as [ms b [e|]| |]; try discriminate; try congruence; try apply IH.
Qed.

(* F6 on the pinned code: eleven bytes crash the connection goroutine (and with it the process) *)
Lemma pinned_parser_panics :
  read_next [42; 49; 13; 10; 36; 45; 49; 48; 48; 13; 10]%N = Panic /\      (* "*1\r\n$-100\r\n" *)
  read_next [42; 49; 13; 10; 36; 45; 50; 13; 10]%N = Panic /\              (* "*1\r\n$-2\r\n"  *)
  (forall http, conn_run (read_cmd http) [[42; 49; 13; 10; 36; 45; 50; 13; 10]%N] [] [] = Crashed).
Proof. repeat split; intros; vm_compute; reflexivity. Qed.

(* ---------- k-way chunking: feeding any segmentation = feeding the stream whole ---------- *)
Section Chunking.
  Variable parse : bytes -> cres.
  Variable B : Z.
  Hypothesis parse_stable : forall d e, len (d ++ e) < B -> cext e (parse d) (parse (d ++ e)).
  Hypothesis parse_good : cgood parse.

  Definition rm_all (d : bytes) : rm_res := rm_loop parse (S (length d)) d.

  Lemma rm_loop_no_fuel : forall f d, (length d < f)%nat -> rm_loop parse f d <> RMFuel.
  Proof.
    induction f as [|f IH]; intros d Hf; [lia|].
    rewrite rm_loop_S. destruct d as [|x d]; [discriminate|].
    pose proof (parse_good (x :: d)) as G.
    destruct (parse (x :: d)) as [args k rest| | | |]; try discriminate; [|contradiction].
    assert (Hl : (length rest < length (x :: d))%nat) by (rewrite !len_spec in G; lia).
    pose proof (IH rest ltac:(lia)) as Hr.
    destruct k; destruct args; try discriminate; destruct (rm_loop parse f rest); try discriminate; congruence.
  Qed.

  Lemma rm_all_app pre c acc buf : len (pre ++ c) < B ->
    rm_all pre = RM acc buf None -> rm_all (pre ++ c) = prepend acc (rm_all (buf ++ c)).
  Proof.
    intros Hb Hpre. unfold rm_all in *.
    pose proof (rm_loop_no_fuel (S (length (buf ++ c))) (buf ++ c) ltac:(lia)) as Hnf.
    rewrite <- (rm_loop_app parse B parse_stable parse_good c (S (length pre)) pre acc buf (S (length (buf ++ c))) Hb Hpre Hnf).
    symmetry. apply (rm_loop_mono parse B parse_stable).
    - rewrite !app_length. lia.
    - apply rm_loop_no_fuel. lia.
  Qed.

  Lemma rm_all_err pre e ms b x : len (pre ++ e) < B ->
    rm_all pre = RM ms b (Some x) -> rm_all (pre ++ e) = RM ms (b ++ e) (Some x).
  Proof.
    intros Hb H. unfold rm_all in *.
    pose proof (rm_loop_err parse B parse_stable parse_good e _ _ _ _ _ Hb H) as He.
    rewrite (rm_loop_mono parse B parse_stable (S (length pre)) (pre ++ e) (S (length (pre ++ e)))).
    - exact He.
    - rewrite app_length. lia.
    - rewrite He. discriminate.
  Qed.

  Definition whole_result (stream : bytes) : conn_res := conn_run parse [stream] [] [].

  Lemma whole_result_eq stream : whole_result stream =
    match rm_all stream with
    | RM ms b None => Open ms b
    | RM ms b (Some e) => Closed ms e
    | RMPanic => Crashed
    | RMFuel => NoFuel
    end.
  Proof.
    unfold whole_result, rm_all. cbn [conn_run]. unfold rm_step. cbn [app].
    destruct (rm_loop parse (S (length stream)) stream) as [ms b [e|]| |]; reflexivity.
  Qed.

  Lemma firstn_app_exact (A : Type) (a b : list A) : firstn (length a) (a ++ b) = a.
  Proof. rewrite firstn_app, Nat.sub_diag, firstn_O, app_nil_r. apply firstn_all. Qed.

  Lemma conn_run_gen : forall chunks pre buf acc,
    len (pre ++ concat chunks) < B ->
    rm_all pre = RM acc buf None ->
    (forall k, rm_all (firstn k (pre ++ concat chunks)) <> RMPanic) ->
    conn_run parse chunks buf acc = whole_result (pre ++ concat chunks).
  Proof.
    induction chunks as [|c rest IH]; intros pre buf acc Hb Hpre Hnp.
    - cbn [concat conn_run]. rewrite app_nil_r, whole_result_eq, Hpre. reflexivity.
    - cbn [concat conn_run]. unfold rm_step. fold (rm_all (buf ++ c)).
      cbn [concat] in Hb. pose proof (len_nonneg (concat rest)) as Hcr.
      assert (Hb1 : len (pre ++ c) < B) by (rewrite !len_app in *; lia).
      assert (Hb2 : len ((pre ++ c) ++ concat rest) < B) by (rewrite <- app_assoc; exact Hb).
      pose proof (rm_all_app pre c acc buf Hb1 Hpre) as Hall.
      pose proof (rm_loop_no_fuel (S (length (buf ++ c))) (buf ++ c) ltac:(lia)) as Hnf. fold (rm_all (buf ++ c)) in Hnf.
      destruct (rm_all (buf ++ c)) as [ms b [x|]| |] eqn:R; cbn [prepend] in Hall.
      + rewrite whole_result_eq. rewrite app_assoc. rewrite (rm_all_err _ (concat rest) _ _ _ Hb2 Hall). reflexivity.
      + rewrite app_assoc. apply IH; [exact Hb2|exact Hall|]; intros k; rewrite <- app_assoc; apply Hnp.
      + exfalso. apply (Hnp (length (pre ++ c))). cbn [concat]. rewrite app_assoc, firstn_app_exact. exact Hall.
      + congruence.
  Qed.

  (* feeding the chunks one ReadMessages call at a time = feeding their concatenation in one call:
     same messages in the same order, same error point, same leftover *)
  Theorem conn_run_chunking chunks :
    len (concat chunks) < B ->
    (forall k, rm_all (firstn k (concat chunks)) <> RMPanic) ->
    conn_run parse chunks [] [] = conn_run parse [concat chunks] [] [].
  Proof.
    intros Hb Hp. exact (conn_run_gen chunks [] [] [] Hb eq_refl Hp).
  Qed.
End Chunking.

(* ---------- the model of readNextHTTPCommand: stability and progress ---------- *)
Lemma crlf_go_app e : forall s prev r line rest,
  crlf_go s prev r = Some (line, rest) -> crlf_go (s ++ e) prev r = Some (line, rest ++ e).
Proof.
  induction s as [|x s IH]; intros prev r line rest H; cbn [crlf_go app] in *; [discriminate|].
  destruct ((x =? LF) && (prev =? CR))%N; [inversion H; subst; reflexivity|]. apply IH; assumption.
Qed.
Lemma crlf_go_shorter : forall s prev r line rest,
  crlf_go s prev r = Some (line, rest) -> (length rest < length s)%nat.
Proof.
  induction s as [|x s IH]; intros prev r line rest H; cbn [crlf_go] in H; [discriminate|].
  destruct ((x =? LF) && (prev =? CR))%N; [inversion H; subst; cbn [length]; lia|].
  apply IH in H. cbn [length]. lia.
Qed.
Lemma readcrlf_app e p line rest : readcrlf p = Some (line, rest) -> readcrlf (p ++ e) = Some (line, rest ++ e).
Proof. destruct p as [|c s]; [discriminate|]. cbn [readcrlf app]. apply crlf_go_app. Qed.
Lemma readcrlf_shorter p line rest : readcrlf p = Some (line, rest) -> (length rest < length p)%nat.
Proof. destruct p as [|c s]; [discriminate|]. cbn [readcrlf length]. intros H. apply crlf_go_shorter in H. lia. Qed.

Lemma read_headers_app e : forall f p racc hs rest f',
  read_headers f p racc = HOk hs rest -> (f <= f')%nat ->
  read_headers f' (p ++ e) racc = HOk hs (rest ++ e).
Proof.
  induction f as [|f IH]; intros p racc hs rest f' H Hle; [discriminate|].
  destruct f' as [|f']; [lia|]. cbn [read_headers] in *.
  destruct (readcrlf p) as [[line r]|] eqn:R; [|discriminate].
  rewrite (readcrlf_app e _ _ _ R).
  destruct line; [inversion H; subst; reflexivity|]. apply (IH r); [assumption|lia].
Qed.
Lemma read_headers_shorter : forall f p racc hs rest,
  read_headers f p racc = HOk hs rest -> (length rest < length p)%nat.
Proof.
  induction f as [|f IH]; intros p racc hs rest H; [discriminate|]. cbn [read_headers] in H.
  destruct (readcrlf p) as [[line r]|] eqn:R; [|discriminate]. apply readcrlf_shorter in R.
  destruct line; [inversion H; subst; assumption|]. apply IH in H. lia.
Qed.
Lemma read_headers_no_fuel : forall f p racc, (length p < f)%nat -> read_headers f p racc <> HFuel.
Proof.
  induction f as [|f IH]; intros p racc Hf; [lia|]. cbn [read_headers].
  destruct (readcrlf p) as [[line r]|] eqn:R; [|discriminate]. apply readcrlf_shorter in R.
  destruct line; [discriminate|]. apply IH. lia.
Qed.

Lemma http_finish_stable e path rest : cext e (http_finish path rest) (http_finish path (rest ++ e)).
Proof.
  unfold http_finish. destruct path; [reflexivity|].
  destruct (native_tok _ _ _); cbn; try exact I; reflexivity.
Qed.

Lemma http_stable d e : cext e (http_parse d) (http_parse (d ++ e)).
Proof.
  unfold http_parse.
  destruct (read_headers (S (length d)) d []) as [|hs rest|] eqn:RH; try exact I.
  rewrite (read_headers_app e _ _ _ _ _ (S (length (d ++ e))) RH) by (rewrite app_length; lia).
  destruct hs as [|first hs]; [exact I|].
  destruct (split_on 32 first []) as [|method [|rawpath [|proto [|x l]]]]; try reflexivity.
  destruct (bytes_eqb method w_options); [exact I|].
  destruct rawpath as [|c0 escaped]; [reflexivity|].
  destruct c0 as [|p0]; [reflexivity|].
  do 6 (destruct p0 as [p0|p0|]; try reflexivity).
  destruct (query_unescape escaped) as [path|]; [|reflexivity].
  destruct (negb _); [reflexivity|].
  destruct (fold_headers hs _) as [st|c]; [|reflexivity].
  destruct (h_ws st && (13 <=? h_wsver st) && h_wskey st); [apply http_finish_stable|].
  destruct (0 <? h_cl st) eqn:Hcl; [|apply http_finish_stable].
  destruct (Z.ltb_spec (len rest) (h_cl st)) as [Hlt|Hge]; [exact I|].
  pose proof (len_nonneg e).
  destruct (Z.ltb_spec (len (rest ++ e)) (h_cl st)) as [Hlt2|_]; [rewrite len_app in Hlt2; lia|].
  destruct (slice rest 0 (h_cl st)) as [body|] eqn:Sb; [|exact I].
  rewrite (slice_app_l _ e _ _ _ Sb).
  destruct (slice_from rest (h_cl st)) as [rest'|] eqn:Sf; [|exact I].
  rewrite (slice_from_app_l _ e _ _ Sf). apply http_finish_stable.
Qed.

Lemma http_finish_good path rest p : len rest < len p ->
  match http_finish path rest with CComplete _ _ r => len r < len p | CFuel => False | _ => True end.
Proof.
  intros H. unfold http_finish. destruct path as [|c path]; [exact H|].
  pose proof (ChunkProofs.native_tok_no_fuel (S (length (c :: path))) (c :: path) [] ltac:(lia)) as Hn.
  destruct (native_tok _ _ _); try exact I; [exact H|congruence].
Qed.

Lemma http_good : cgood http_parse.
Proof.
  intros p. unfold http_parse.
  pose proof (read_headers_no_fuel (S (length p)) p [] ltac:(lia)) as Hnf.
  destruct (read_headers (S (length p)) p []) as [|hs rest|] eqn:RH; try exact I; [|congruence].
  apply read_headers_shorter in RH. assert (Hr : len rest < len p) by (rewrite !len_spec; lia).
  destruct hs as [|first hs]; [exact I|].
  destruct (split_on 32 first []) as [|method [|rawpath [|proto [|x l]]]]; try exact I.
  destruct (bytes_eqb method w_options); [exact I|].
  destruct rawpath as [|c0 escaped]; [exact I|].
  destruct c0 as [|p0]; [exact I|].
  do 6 (destruct p0 as [p0|p0|]; try exact I).
  destruct (query_unescape escaped) as [path|]; [|exact I].
  destruct (negb _); [exact I|].
  destruct (fold_headers hs _) as [st|c]; [|exact I].
  destruct (h_ws st && (13 <=? h_wsver st) && h_wskey st); [apply http_finish_good; exact Hr|].
  destruct (0 <? h_cl st) eqn:Hcl; [|apply http_finish_good; exact Hr].
  destruct (len rest <? h_cl st); [exact I|].
  destruct (slice rest 0 (h_cl st)) as [body|]; [|exact I].
  destruct (slice_from rest (h_cl st)) as [rest'|] eqn:Sf; [|exact I].
  apply http_finish_good. apply slice_from_range in Sf. lia.
Qed.

(* ---------- the tile38-level entry point with the modelled HTTP parser ---------- *)
Definition t38_parse : bytes -> cres := read_cmd http_parse.
Definition t38_parse_fixed : bytes -> cres := read_cmd_fixed http_parse.

Lemma t38_parse_stable d e : cext e (t38_parse d) (t38_parse (d ++ e)).
Proof. apply read_cmd_stable. apply http_stable. Qed.

Lemma of_result_good p : match of_result (read_next p) with CComplete _ _ r => len r < len p | CFuel => False | _ => True end.
Proof. pose proof (read_next_good p) as G. destruct (read_next p); cbn [of_result]; auto. Qed.

Lemma t38_parse_good : cgood t38_parse.
Proof.
  intros p. unfold t38_parse, read_cmd. destruct (sniff p); try exact I; [apply http_good|apply of_result_good].
Qed.

Theorem t38_chunking chunks :
  (forall k, rm_all t38_parse (firstn k (concat chunks)) <> RMPanic) ->
  conn_run t38_parse chunks [] [] = conn_run t38_parse [concat chunks] [] [].
Proof.
  apply (conn_run_chunking t38_parse (len (concat chunks) + 1)); [intros; apply t38_parse_stable|exact t38_parse_good|lia].
Qed.

(* ---------- the repaired entry point: a recovered panic is an error found at the same place ---------- *)
Lemma find_crlf_range : forall s prev i k, find_crlf s prev i = Some k -> i <= k < i + len s.
Proof.
  induction s as [|x s IH]; intros prev i k H; cbn [find_crlf] in H; [discriminate|].
  rewrite len_cons. pose proof (len_nonneg s).
  destruct ((x =? LF) && (prev =? CR))%N; [inversion H; subst; lia|]. apply IH in H. lia.
Qed.

Lemma sniff_no_panic p : p <> [] -> sniff p <> SPanic.
Proof.
  destruct p as [|c s]; [congruence|]. intros _. cbn [sniff].
  destruct ((c =? 71) || (c =? 80) || (c =? 79))%N; [|discriminate].
  destruct (find_crlf s c 1) as [i|] eqn:F; [|discriminate]. apply find_crlf_range in F.
  destruct (Z.ltb_spec 11 (i + 1)); [|discriminate].
  destruct (slice_some (c :: s) (i + 1 - 11) (i + 1 - 5) ltac:(lia) ltac:(rewrite len_cons; lia)) as [w Hw].
  rewrite Hw. destruct (bytes_eqb w w_http); discriminate.
Qed.

Lemma http_finish_panic path rest rest' : http_finish path rest = CPanic -> http_finish path rest' = CPanic.
Proof. unfold http_finish. destruct path; [discriminate|]. destruct (native_tok _ _ _); try discriminate; reflexivity. Qed.

Lemma http_panic_stable d e : http_parse d = CPanic -> http_parse (d ++ e) = CPanic.
Proof.
  unfold http_parse.
  destruct (read_headers (S (length d)) d []) as [|hs rest|] eqn:RH; try discriminate.
  rewrite (read_headers_app e _ _ _ _ _ (S (length (d ++ e))) RH) by (rewrite app_length; lia).
  destruct hs as [|first hs]; [reflexivity|].
  destruct (split_on 32 first []) as [|method [|rawpath [|proto [|x l]]]]; try discriminate.
  destruct (bytes_eqb method w_options); [discriminate|].
  destruct rawpath as [|c0 escaped]; [discriminate|].
  destruct c0 as [|p0]; [discriminate|].
  do 6 (destruct p0 as [p0|p0|]; try discriminate).
  destruct (query_unescape escaped) as [path|]; [|discriminate].
  destruct (negb _); [discriminate|].
  destruct (fold_headers hs _) as [st|c]; [|discriminate].
  destruct (h_ws st && (13 <=? h_wsver st) && h_wskey st); [apply http_finish_panic|].
  destruct (Z.ltb_spec 0 (h_cl st)) as [Hcl|Hcl]; [|apply http_finish_panic].
  destruct (Z.ltb_spec (len rest) (h_cl st)) as [Hlt|Hge]; [discriminate|].
  pose proof (len_nonneg e).
  destruct (Z.ltb_spec (len (rest ++ e)) (h_cl st)) as [Hlt2|_]; [rewrite len_app in Hlt2; lia|].
  destruct (slice_some rest 0 (h_cl st) ltac:(lia) Hge) as [body Sb]. rewrite Sb, (slice_app_l _ e _ _ _ Sb).
  destruct (slice_from_some rest (h_cl st) ltac:(lia)) as [rest' Sf]. rewrite Sf, (slice_from_app_l _ e _ _ Sf).
  apply http_finish_panic.
Qed.

Lemma t38_parse_panic_stable d e : d <> [] -> len (d ++ e) < BIG ->
  t38_parse d = CPanic -> t38_parse (d ++ e) = CPanic.
Proof.
  intros Hne Hbig. unfold t38_parse, read_cmd.
  pose proof (sniff_stable d e) as S. pose proof (sniff_no_panic d Hne) as Hnp.
  destruct (sniff d); try discriminate; try congruence; rewrite S.
  - apply http_panic_stable.
  - intros H. destruct (read_next d) eqn:R; try discriminate.
    rewrite (read_next_panic_stable d e Hbig R). reflexivity.
Qed.

Lemma t38_fixed_stable d e : len (d ++ e) < BIG -> cext e (t38_parse_fixed d) (t38_parse_fixed (d ++ e)).
Proof.
  intros Hbig. unfold t38_parse_fixed, read_cmd_fixed.
  destruct d as [|c d]; [exact I|]. change ((c :: d) ++ e) with (c :: d ++ e) in *.
  pose proof (t38_parse_stable (c :: d) e) as St.
  pose proof (t38_parse_panic_stable (c :: d) e ltac:(discriminate) Hbig) as Sp.
  unfold t38_parse in *. change ((c :: d) ++ e) with (c :: d ++ e) in *.
  destruct (read_cmd http_parse (c :: d)); cbn [recovered cext] in *; try exact I.
  - rewrite St. reflexivity.
  - rewrite St. reflexivity.
  - rewrite Sp by reflexivity. reflexivity.
Qed.

Lemma t38_fixed_good : cgood t38_parse_fixed.
Proof.
  intros p. unfold t38_parse_fixed, read_cmd_fixed. destruct p as [|c p]; [exact I|].
  pose proof (t38_parse_good (c :: p)) as G. unfold t38_parse in G.
  destruct (read_cmd http_parse (c :: p)); cbn [recovered] in *; auto.
Qed.

Lemma t38_fixed_no_panic d : t38_parse_fixed d <> CPanic.
Proof. apply read_cmd_fixed_no_panic. Qed.

(* k-way chunking for the repaired entry point: no panic hypothesis is left *)
Theorem t38_fixed_chunking chunks :
  len (concat chunks) < BIG ->
  conn_run t38_parse_fixed chunks [] [] = conn_run t38_parse_fixed [concat chunks] [] [].
Proof.
  intros Hb. apply (conn_run_chunking t38_parse_fixed BIG); try assumption.
  - intros d e H. apply t38_fixed_stable; assumption.
  - exact t38_fixed_good.
  - intros k. apply rm_loop_no_panic. exact t38_fixed_no_panic.
Qed.

(* the message list and the error point, read off a connection outcome *)
Definition conn_msgs (r : conn_res) : list msg :=
  match r with Open ms _ | Closed ms _ => ms | _ => [] end.
Definition conn_err (r : conn_res) : option cerr :=
  match r with Closed _ e => Some e | _ => None end.

(* ---------- client.in (InputStream) is dead as long as a socket read fits the pipeline buffer ---------- *)
Definition of_conn (r : conn_res) : serve_res :=
  match r with
  | Open ms b => SOpen ms b []
  | Closed ms e => SClosed ms e
  | Crashed => SCrashed
  | NoFuel => SNoFuel
  end.

Lemma serve_reads_dead parse psz : forall reads buf acc,
  Forall (fun r => (length r <= psz)%nat) reads ->
  serve_reads parse psz reads [] buf acc = of_conn (conn_run parse reads buf acc).
Proof.
  induction reads as [|r rest IH]; intros buf acc Hf; [reflexivity|].
  inversion Hf as [|? ? Hr Hrest]; subst.
  cbn [serve_reads conn_run app]. rewrite firstn_all2 by exact Hr. rewrite skipn_all2 by exact Hr.
  destruct (rm_step parse buf r) as [ms b [e|]| |]; try reflexivity. apply IH; exact Hrest.
Qed.

(* with the read size the source uses, every read fits *)
Lemma in_b_dead parse rsz psz reads buf acc : (rsz <= psz)%nat ->
  Forall (fun r => (length r <= rsz)%nat) reads ->
  serve_reads parse psz reads [] buf acc = of_conn (conn_run parse reads buf acc).
Proof.
  intros Hle Hf. apply serve_reads_dead. eapply Forall_impl; [|exact Hf]. cbn. intros; lia.
Qed.

Lemma source_sizes_fit : (N.to_nat sock_read_size <= N.to_nat pipeline_buf_size)%nat.
Proof. unfold sock_read_size, pipeline_buf_size. lia. Qed.

(* a socket read one byte larger than the pipeline buffer parks the last byte: the command is complete on
   the server and is not parsed (scaled-down witness: buffer 5, read of the 6 bytes "PING\r\n") *)
Lemma oversized_read_parks :
  let r := [80; 73; 78; 71; 13; 10]%N in
  serve_reads t38_parse_fixed 5 [r] [] [] [] = SOpen [] [80; 73; 78; 71; 13]%N [10%N] /\
  conn_run t38_parse_fixed [r] [] [] = Open [{| m_args := [[80; 73; 78; 71]%N]; m_kind := KTelnet |}] [].
Proof. vm_compute. split; reflexivity. Qed.
