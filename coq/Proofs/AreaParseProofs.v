(* The two query-area parsers (Model/AreaParse.v): neither panics nor runs out of fuel; on the
   area words they share they build the same object, consume the same tokens and fail with the
   same error; where they differ the difference is stated and witnessed. *)
From Coq Require Import String Ascii List Bool ZArith NArith Lia.
From T38 Require Import Base.Bytes Model.AreaParse Proofs.AreaParseBing.
Import ListNotations.
Local Open Scope Z_scope.

Lemma beq_true l s : beq l s = true -> l = lit s.
Proof. unfold beq. apply bytes_eqb_eq. Qed.

Lemma beq_refl s : beq (lit s) s = true.
Proof. unfold beq. apply bytes_eqb_refl. Qed.

(* resolve comparisons between two literals *)
Ltac lits :=
  repeat match goal with
  | |- context [beq (lit ?a) ?b] =>
      let v := eval vm_compute in (beq (lit a) b) in change (beq (lit a) b) with v
  end.
Ltac lits_in H :=
  repeat match type of H with
  | context [beq (lit ?a) ?b] =>
      let v := eval vm_compute in (beq (lit a) b) in change (beq (lit a) b) with v in H
  end.

Definition safe {A} (r : res A) : Prop := match r with Panic | NoFuel => False | _ => True end.

Lemma safe_bind {A B} (r : res A) (f : A -> res B) :
  safe r -> (forall a, r = Ok a -> safe (f a)) -> safe (bind r f).
Proof. destruct r; cbn; auto. Qed.

Lemma need_tok_cases vs :
  need_tok vs = Err ENumArgs \/
  exists t vs', vs = t :: vs' /\ is_empty t = false /\ need_tok vs = Ok (vs', t).
Proof.
  destruct vs as [|t vs']; [left; reflexivity|].
  destruct t as [|c t]; [left; reflexivity|].
  right. exists (c :: t), vs'. repeat split; reflexivity.
Qed.

Lemma need_tok_ok vs vs' t : need_tok vs = Ok (vs', t) -> vs = t :: vs' /\ is_empty t = false.
Proof.
  destruct (need_tok_cases vs) as [E|(t0 & vs0 & -> & Ht & E)]; rewrite E; [discriminate|].
  intros H; inversion H; subst. split; [reflexivity|exact Ht].
Qed.

Lemma need_tok_cons t vs : is_empty t = false -> need_tok (t :: vs) = Ok (vs, t).
Proof. destruct t; [discriminate|reflexivity]. Qed.

(* one step through `do (vs, x) <- need_tok vs; …` on every side at once *)
Ltac dtok v :=
  let E := fresh "E" in let Ht := fresh "Hne" in
  destruct (need_tok_cases v) as [E|(? & ? & -> & Ht & E)]; rewrite ?E; cbn [bind]; cbn beta iota.

Section P.
  Variable lower : bytes -> bytes.
  Variable pf : bytes -> option Z.
  Variable gj_ok : bytes -> bool.
  Variable sec_ok : Z -> Z -> Z -> Z -> Z -> bool.
  Variable lookup : bytes -> bytes -> lookupT.

  Notation parse_rect_area := (parse_rect_area pf).
  Notation search_switch := (search_switch lower pf gj_ok sec_ok lookup).
  Notation clipby_loop := (clipby_loop lower pf).
  Notation search_area := (search_area lower pf gj_ok sec_ok lookup).
  Notation parse_area := (parse_area lower pf gj_ok sec_ok lookup).
  Notation test_expr_loop := (test_expr_loop lower pf gj_ok sec_ok lookup).
  Notation test_expr := (test_expr lower pf gj_ok sec_ok lookup).
  Notation test_tail := (test_tail lower pf gj_ok sec_ok lookup).
  Notation need_float := (need_float pf).

  (* one case split on the outermost scrutinee of a transcribed parser body *)
  Ltac step1 :=
    match goal with
    | |- context [if ?b then _ else _] =>
        lazymatch b with
        | true => fail | false => fail
        | _ => destruct b eqn:?
        end
    | |- context [need_tok ?v] => dtok v
    | |- context [AreaParse.need_float pf ?s] => unfold AreaParse.need_float; destruct (pf s) eqn:?
    | |- context [quadkey_to_bounds ?k] =>
        let H := fresh "Hq" in
        destruct (quadkey_to_bounds_total k) as [[_ [? [? [_ H]]]]|[_ H]]; rewrite H
    | |- context [match pf ?s with _ => _ end] => destruct (pf s) eqn:?
    | |- context [match lookup ?a ?b with _ => _ end] => destruct (lookup a b) eqn:?
    | |- context [match parse_int64 ?a with _ => _ end] => destruct (parse_int64 a) eqn:?
    | |- context [match parse_uint64 ?a with _ => _ end] => destruct (parse_uint64 a) eqn:?
    | |- context [match tokenval ?v with _ => _ end] => destruct v; cbn [tokenval]
    end.
  Ltac step := step1; cbn [bind]; cbn beta iota.

  Ltac leaf_len :=
    try discriminate;
    let H := fresh in intros H; inversion H; subst; cbn [length h_vs];
    repeat match goal with
           | H : _ = true |- _ => clear H | H : _ = false |- _ => clear H
           | H : _ = Some _ |- _ => clear H | H : _ = None |- _ => clear H
           | H : _ = Ok _ |- _ => clear H | H : _ = Err _ |- _ => clear H
           end; lia.

  (* ================================================================ parseRectArea *)

  Lemma parse_rect_area_safe l vs : safe (parse_rect_area l vs).
  Proof. unfold AreaParse.parse_rect_area. repeat (first [exact I | step]). Qed.

  (* the rest of the token list is a proper suffix *)
  Lemma parse_rect_area_len l vs vs' a t :
    parse_rect_area l vs = Ok (vs', a, t) -> (length vs' < length vs)%nat.
  Proof. unfold AreaParse.parse_rect_area. repeat step; leaf_len. Qed.

  (* errNotRectangle only for a word that is none of the five *)
  Lemma parse_rect_area_notrect l vs :
    parse_rect_area l vs = Err ENotRectangle ->
    beq l "bounds" = false /\ beq l "hash" = false /\ beq l "quadkey" = false /\ beq l "tile" = false.
  Proof.
    unfold AreaParse.parse_rect_area.
    destruct (beq l "bounds") eqn:E1. { repeat step; discriminate. }
    destruct (beq l "hash") eqn:E2. { repeat step; discriminate. }
    destruct (beq l "quadkey") eqn:E3. { repeat step; discriminate. }
    destruct (beq l "tile") eqn:E4; cbn [orb]. { repeat step; discriminate. }
    intros _. repeat split; reflexivity.
  Qed.

  (* ================================================================ cmdSearchArgs: the switch *)

  Lemma search_switch_safe cmd clip l vs : safe (search_switch cmd clip l vs).
  Proof.
    unfold AreaParse.search_switch, AreaParse.parse_rect_area.
    repeat (first [exact I | step]).
  Qed.

  Lemma search_switch_len cmd clip l vs h :
    search_switch cmd clip l vs = Ok h -> (length (h_vs h) <= length vs)%nat.
  Proof.
    unfold AreaParse.search_switch, AreaParse.parse_rect_area. repeat step; leaf_len.
  Qed.

  (* ================================================================ the CLIPBY loop *)

  Lemma clipby_loop_safe : forall fuel vs obj tile err,
    (length vs < fuel)%nat -> safe (clipby_loop fuel vs obj tile err).
  Proof.
    induction fuel as [|fuel IH]; intros vs obj tile err Hf; [lia|].
    destruct vs as [|t0 vs0]; [cbn; destruct err; exact I|].
    cbn [AreaParse.clipby_loop].
    destruct (is_empty t0) eqn:Ht0; [destruct t0; [exact I|discriminate]|].
    rewrite (need_tok_cons _ _ Ht0). cbn [bind]; cbn beta iota.
    destruct (beq (lower t0) "clipby"); cbn [negb]; [|exact I].
    destruct (need_tok_cases vs0) as [E|(t1 & vs1 & -> & Ht1 & E)]; rewrite E; cbn [bind]; cbn beta iota;
      [exact I|].
    destruct (beq (lower t1) "bounds" || beq (lower t1) "hash" || beq (lower t1) "tile"
              || beq (lower t1) "quadkey"); [|exact I].
    pose proof (parse_rect_area_safe (lower t1) vs1) as Hs.
    destruct (parse_rect_area (lower t1) vs1) as [[[vs' a] t]|e| |] eqn:E1; cbn in Hs; try contradiction.
    - apply IH. apply parse_rect_area_len in E1. cbn [length] in Hf. lia.
    - destruct e; exact I.
  Qed.

  Theorem search_area_safe cmd fence clip outb vs : safe (search_area cmd fence clip outb vs).
  Proof.
    unfold AreaParse.search_area.
    destruct (need_tok_cases vs) as [E|(t & vs' & -> & Ht & E)]; rewrite E; cbn [bind]; cbn beta iota;
      [exact I|].
    destruct (if outb && negb (is_nearby cmd)
              then match pf t with Some _ => (t :: vs', lit "BOUNDS", true) | None => (vs', t, false) end
              else (vs', t, false)) as [[vs1 typ] outreset].
    destruct (negb _); [exact I|].
    apply safe_bind; [apply search_switch_safe|]. intros h Hh.
    apply safe_bind; [apply clipby_loop_safe; lia|]. intros [obj tile] _. exact I.
  Qed.

  (* ================================================================ parseArea *)

  Lemma parse_area_safe dc vs : safe (parse_area dc vs).
  Proof. unfold AreaParse.parse_area. repeat (first [exact I | step]). Qed.

  (* every arm consumes the type word: the rest is strictly shorter *)
  Lemma parse_area_len dc vs vs' a : parse_area dc vs = Ok (vs', a) -> (length vs' < length vs)%nat.
  Proof. unfold AreaParse.parse_area. repeat step; leaf_len. Qed.

  (* ================================================================ parseAreaExpression *)

  Definition tsafe (r : tres) : Prop := match r with TPanic | TNoFuel => False | _ => True end.

  Lemma test_expr_loop_safe : forall fuel dc ae vs,
    (length vs < fuel)%nat -> tsafe (fst (test_expr_loop fuel dc ae vs)).
  Proof.
    induction fuel as [|fuel IH]; intros dc ae vs Hf; [lia|].
    cbn [AreaParse.test_expr_loop].
    assert (Hfin : tsafe (fst match ae with
                              | None => (TErr ENumArgs, vs)
                              | Some (ANil, false) => (TErr ENumArgs, vs)
                              | Some (ANil, true) => (TOutside, vs)
                              | Some (a, _) => (TOk dc a, vs)
                              end)).
    { destruct ae as [[[] []]|]; exact I. }
    destruct vs as [|w vs0]; cbn [tokenval negb orb]; cbn beta iota; [exact Hfin|].
    destruct (is_empty w); [exact Hfin|].
    destruct (beq (lower w) "("); [exact I|].
    destruct (beq (lower w) ")"); [exact I|].
    destruct (beq (lower w) "not"); [exact I|].
    destruct (beq (lower w) "and"); [destruct ae; exact I|].
    destruct (beq (lower w) "or"); [destruct ae; exact I|].
    destruct (is_area_word (lower w)); [|exact Hfin].
    pose proof (parse_area_safe dc (w :: vs0)) as Hs.
    destruct (parse_area dc (w :: vs0)) as [[vs' a]|e| |] eqn:E; cbn in Hs; try contradiction; [|exact I].
    apply IH. apply parse_area_len in E. lia.
  Qed.

  Theorem test_tail_safe isect a1nil vs : tsafe (test_tail isect a1nil vs).
  Proof.
    unfold AreaParse.test_tail.
    destruct (tokenval vs) as [[nvs wtok] ok] eqn:Etv.
    set (isclip := ok && negb (is_empty wtok) && beq (lower wtok) "clip").
    destruct (isclip && negb isect); [exact I|].
    set (vs2 := if isclip then nvs else vs).
    pose proof (test_expr_loop_safe (S (length vs2)) isclip None vs2 ltac:(lia)) as Hs.
    unfold AreaParse.test_expr.
    destruct (test_expr_loop (S (length vs2)) isclip None vs2) as [[dc a| e | | |] rest]; cbn in Hs;
      try contradiction; try exact I.
    destruct (isclip && a1nil); [exact I|]. destruct rest; exact I.
  Qed.

  (* once the first object is in place the loop never replaces it, and the CLIP flag is the argument *)
  Lemma test_expr_loop_keeps : forall fuel dc a k vs dc' a' rest,
    test_expr_loop fuel dc (Some (a, k)) vs = (TOk dc' a', rest) -> a' = a /\ dc' = dc.
  Proof.
    induction fuel as [|fuel IH]; intros dc a k vs dc' a' rest; [discriminate|].
    cbn [AreaParse.test_expr_loop].
    assert (Hfin : match a, k with
                   | ANil, false => (TErr ENumArgs, vs)
                   | ANil, true => (TOutside, vs)
                   | _, _ => (TOk dc a, vs)
                   end = (TOk dc' a', rest) -> a' = a /\ dc' = dc).
    { destruct a, k; intros H; inversion H; auto. }
    destruct vs as [|w vs0]; cbn [tokenval negb orb]; cbn beta iota; [exact Hfin|].
    destruct (is_empty w); [exact Hfin|].
    destruct (beq (lower w) "("); [discriminate|].
    destruct (beq (lower w) ")"); [discriminate|].
    destruct (beq (lower w) "not"); [discriminate|].
    destruct (beq (lower w) "and"); [discriminate|].
    destruct (beq (lower w) "or"); [discriminate|].
    destruct (is_area_word (lower w)); [|exact Hfin].
    destruct (parse_area dc (w :: vs0)) as [[vs' a0]|e| |]; try discriminate.
    apply IH.
  Qed.

  (* ================================================================ agreement on the shared words *)

  Definition lift (clip : bool) (r : res (list bytes * area)) : res shead :=
    match r with
    | Ok (vs, a) => Ok (mkH vs a (0, 0, 0) false clip None None)
    | Err e => Err e
    | Panic => Panic
    | NoFuel => NoFuel
    end.

  (* words on which the two parsers run the same statements *)
  Definition shared_any (l : bytes) : bool :=
    beq l "point" || beq l "bounds" || beq l "hash" || beq l "quadkey".
  Definition shared_noclip (l : bytes) : bool :=
    beq l "circle" || beq l "object" || beq l "sector" || beq l "get".

  Ltac kind K Hl :=
    apply beq_true in K; rewrite K in *; clear K;
    unfold AreaParse.search_switch, AreaParse.parse_rect_area; lits; cbn [orb]; cbn beta iota.

  Lemma switch_shared cmd clip typ vs :
    is_nearby cmd = false -> is_empty typ = false ->
    (shared_any (lower typ) = true \/ (clip = false /\ shared_noclip (lower typ) = true)) ->
    search_switch cmd clip (lower typ) vs = lift clip (parse_area clip (typ :: vs)).
  Proof.
    intros Hnb Hne Hk. unfold AreaParse.parse_area. rewrite (need_tok_cons _ _ Hne).
    cbn [bind]; cbn beta iota. unfold shared_any, shared_noclip in Hk.
    destruct Hk as [Hk|[-> Hk]]; repeat (apply orb_true_iff in Hk; destruct Hk as [Hk|Hk]).
    - kind Hk Hl. rewrite Hnb. repeat step; reflexivity.
    - kind Hk Hl. repeat step; reflexivity.
    - kind Hk Hl. repeat step; reflexivity.
    - kind Hk Hl. repeat step; reflexivity.
    - kind Hk Hl. repeat step; reflexivity.
    - kind Hk Hl. repeat step; reflexivity.
    - kind Hk Hl. repeat step; reflexivity.
    - kind Hk Hl. repeat step; reflexivity.
  Qed.

  (* with CLIP both refuse CIRCLE / OBJECT / SECTOR / GET — in different words *)
  Lemma switch_clip_refused cmd typ vs :
    is_empty typ = false ->
    beq (lower typ) "circle" || beq (lower typ) "object" || beq (lower typ) "sector"
      || beq (lower typ) "get" = true ->
    (exists m, search_switch cmd true (lower typ) vs = Err (EInvalidArg (lit "cannot clip with " ++ m)))
    /\ parse_area true (typ :: vs) = Err (EClipType typ).
  Proof.
    intros Hne Hk. unfold AreaParse.parse_area. rewrite (need_tok_cons _ _ Hne).
    cbn [bind]; cbn beta iota.
    repeat (apply orb_true_iff in Hk; destruct Hk as [Hk|Hk]); kind Hk Hl.
    - split; [eexists; reflexivity | reflexivity].
    - split; [exists (lit "object"); reflexivity | reflexivity].
    - split; [eexists; reflexivity | reflexivity].
    - split; [exists (lit "get"); reflexivity | reflexivity].
  Qed.

  (* ---------- strconv: the same digits read by Atoi / ParseInt and by ParseUint ---------- *)

  Definition unsigned_tok (s : bytes) : bool :=
    match s with c :: _ => negb ((c =? 43) || (c =? 45))%N | [] => true end.

  Lemma pi_pu s z : parse_int64 s = Some z -> unsigned_tok s = true -> 0 <= z /\ parse_uint64 s = Some z.
  Proof.
    unfold parse_int64, unsigned_tok. destruct s as [|c r]; [discriminate|].
    intros H Hu. apply negb_true_iff in Hu. rewrite Hu in H.
    apply orb_false_iff in Hu. destruct Hu as [_ H45]. rewrite H45 in H.
    destruct (parse_uint64 (c :: r)) as [un|] eqn:E; [|discriminate].
    destruct (un <? 2 ^ 63); [|discriminate]. inversion H; subst. split; [|reflexivity].
    unfold parse_uint64 in E. destruct (digits_val 0 (c :: r)) eqn:Ed; [|discriminate].
    destruct (z0 <? 2 ^ 64); [|discriminate]. inversion E; subst.
    assert (Hnn : forall s acc v, 0 <= acc -> digits_val acc s = Some v -> 0 <= v).
    { clear. induction s as [|c r IH]; intros acc v Ha H; cbn in H; [inversion H; subst; exact Ha|].
      destruct (isdigit c); [|discriminate]. eapply IH; [|exact H]. lia. }
    eapply Hnn; [|exact Ed]. lia.
  Qed.

  Lemma pu_first_digit s z : parse_uint64 s = Some z -> unsigned_tok s = true.
  Proof.
    unfold parse_uint64, unsigned_tok. destruct s as [|c r]; [discriminate|].
    cbn [digits_val]. destruct (isdigit c) eqn:Ed; [|discriminate]. intros _.
    unfold isdigit in Ed. apply andb_true_iff in Ed. destruct Ed as [H1 H2].
    apply N.leb_le in H1. apply negb_true_iff. apply orb_false_iff.
    split; apply N.eqb_neq; lia.
  Qed.

  Lemma pu_pi s z : parse_uint64 s = Some z ->
    parse_int64 s = if z <? 2 ^ 63 then Some z else None.
  Proof.
    intros H. pose proof (pu_first_digit _ _ H) as Hu. unfold parse_int64.
    destruct s as [|c r]; [discriminate|]. cbn [unsigned_tok] in Hu. apply negb_true_iff in Hu.
    rewrite Hu. apply orb_false_iff in Hu. destruct Hu as [_ H45]. rewrite H45, H. reflexivity.
  Qed.

  Lemma digits_val_nonneg : forall s acc v, 0 <= acc -> digits_val acc s = Some v -> 0 <= v.
  Proof.
    induction s as [|c r IH]; intros acc v Ha H; cbn in H; [inversion H; subst; exact Ha|].
    destruct (isdigit c); [|discriminate]. eapply IH; [|exact H]. lia.
  Qed.

  Lemma pu_nonneg s z : parse_uint64 s = Some z -> 0 <= z < 2 ^ 64.
  Proof.
    unfold parse_uint64. destruct s as [|c r]; [discriminate|].
    destruct (digits_val 0 (c :: r)) eqn:Ed; [|discriminate].
    destruct (Z.ltb_spec z0 (2 ^ 64)); [|discriminate]. intros H1; inversion H1; subst.
    split; [eapply digits_val_nonneg; [|exact Ed]; lia|assumption].
  Qed.

  (* ---------- TILE ---------- *)

  Ltac tk := match goal with |- context [need_tok ?v] => dtok v end.
  Ltac pint v E :=
    match goal with |- context [match parse_int64 ?s with _ => _ end] =>
      destruct (parse_int64 s) as [v|] eqn:E end.
  Ltac ifd H :=
    match goal with |- context [if ?b then _ else _] => destruct b eqn:H end.

  (* the third number of a TILE has no sign *)
  Definition tile_z_unsigned (vs : list bytes) : bool :=
    match vs with
    | typ :: _ :: _ :: sz :: _ => if beq (lower typ) "tile" then unsigned_tok sz else true
    | _ => true
    end.

  Lemma switch_tile_fwd cmd clip typ vs h :
    is_empty typ = false -> beq (lower typ) "tile" = true ->
    tile_z_unsigned (typ :: vs) = true ->
    search_switch cmd clip (lower typ) vs = Ok h ->
    parse_area clip (typ :: vs) = Ok (h_vs h, h_obj h) /\
    exists x y z, h = mkH (h_vs h) (ATile x y z) (x, y, z) false clip None None.
  Proof.
    intros Hne Hk Hu. unfold AreaParse.parse_area. rewrite (need_tok_cons _ _ Hne).
    cbn [bind]; cbn beta iota. unfold tile_z_unsigned in Hu. rewrite Hk in Hu.
    kind Hk Hl.
    tk; [discriminate|]. tk; [discriminate|]. tk; [discriminate|].
    cbn beta iota in Hu.
    pint vx Ex; [|discriminate]. ifd Hx; [discriminate|].
    pint vy Ey; [|discriminate]. ifd Hy; [discriminate|].
    pint vz Ez; [|discriminate]. ifd Hz; [discriminate|].
    destruct (pi_pu _ _ Ez Hu) as [_ Epu]. rewrite Epu.
    intros H; inversion H; subst; cbn [h_vs h_obj]. split; [reflexivity|].
    exists vx, vy, vz. reflexivity.
  Qed.

  Lemma switch_tile_bwd cmd clip typ vs vs' a :
    is_empty typ = false -> beq (lower typ) "tile" = true ->
    parse_area clip (typ :: vs) = Ok (vs', a) ->
    exists x y z, a = ATile x y z /\
      ((0 <= x /\ 0 <= y /\ z <= 23 /\
        search_switch cmd clip (lower typ) vs = Ok (mkH vs' a (x, y, z) false clip None None))
       \/ ((x < 0 \/ y < 0 \/ 23 < z) /\
           exists t, search_switch cmd clip (lower typ) vs = Err (EInvalidArg t))).
  Proof.
    intros Hne Hk. unfold AreaParse.parse_area. rewrite (need_tok_cons _ _ Hne).
    cbn [bind]; cbn beta iota.
    kind Hk Hl.
    tk; [discriminate|]. tk; [discriminate|]. tk; [discriminate|].
    pint vx Ex; [|discriminate]. pint vy Ey; [|discriminate].
    match goal with |- context [match parse_uint64 ?s with _ => _ end] =>
      destruct (parse_uint64 s) as [vz|] eqn:Ez; [|discriminate] end.
    intros H; inversion H; subst. exists vx, vy, vz. split; [reflexivity|].
    rewrite (pu_pi _ _ Ez).
    assert (Hz0 : 0 <= vz) by (eapply pu_nonneg; exact Ez).
    destruct (Z.ltb_spec vx 0); [right; split; [lia|eexists; reflexivity]|].
    destruct (Z.ltb_spec vy 0); [right; split; [lia|eexists; reflexivity]|].
    destruct (Z.ltb_spec vz (2 ^ 63)); [|right; split; [lia|eexists; reflexivity]].
    destruct (Z.ltb_spec vz 0); [lia|]. destruct (Z.ltb_spec 23 vz); cbn [orb].
    - right; split; [lia|eexists; reflexivity].
    - left. repeat split; try lia.
  Qed.

  (* ================================================================ words *)

  Lemma types_not_nearby cmd l : is_nearby cmd = false ->
    types_has cmd l = (beq l "bounds" || beq l "hash" || beq l "tile"
                       || beq l "quadkey" || beq l "get" || beq l "object" || beq l "circle"
                       || beq l "point" || beq l "sector" || beq l "mvt").
  Proof. destruct cmd; [discriminate| |]; reflexivity. Qed.

  Definition not_keyword (l : bytes) : Prop :=
    beq l "(" = false /\ beq l ")" = false /\ beq l "not" = false /\ beq l "and" = false /\
    beq l "or" = false /\ beq l "clip" = false /\ beq l "clipby" = false.

  Lemma area_word_cases l : is_area_word l = true ->
    shared_any l = true \/ shared_noclip l = true \/ beq l "tile" = true.
  Proof.
    unfold is_area_word, shared_any, shared_noclip. intros H.
    repeat (apply orb_true_iff in H; destruct H as [H|H]); rewrite H;
      rewrite ?orb_true_r; cbn [orb]; auto.
  Qed.

  Lemma area_word_not_keyword l : is_area_word l = true -> not_keyword l.
  Proof.
    unfold is_area_word, not_keyword. intros H.
    repeat (apply orb_true_iff in H; destruct H as [H|H]); apply beq_true in H; subst l;
      repeat split; vm_compute; reflexivity.
  Qed.

  Definition plain (a : area) : bool :=
    match a with ANil | AClip _ _ | AMvt _ _ _ => false | _ => true end.

  Lemma parse_area_plain dc typ vs rest a :
    is_empty typ = false -> is_area_word (lower typ) = true ->
    parse_area dc (typ :: vs) = Ok (rest, a) -> plain a = true.
  Proof.
    intros Hne Hw. unfold AreaParse.parse_area. rewrite (need_tok_cons _ _ Hne).
    cbn [bind]; cbn beta iota.
    repeat step; try discriminate; intros H; inversion H; subst; try reflexivity.
    unfold is_area_word in Hw.
    repeat match goal with E : beq _ _ = false |- _ => rewrite E in Hw; clear E end.
    discriminate.
  Qed.

  (* ================================================================ the CLIPBY loop, facts *)

  Lemma clipby_nil n obj t : clipby_loop n [] obj t None = Ok (obj, t).
  Proof. destruct n; reflexivity. Qed.

  Lemma clipby_keeps_clip : forall fuel vs a c t e o' t',
    clipby_loop fuel vs (AClip a c) t e = Ok (o', t') -> exists a' c', o' = AClip a' c'.
  Proof.
    induction fuel as [|fuel IH]; intros vs a c t e o' t'.
    - destruct vs; cbn; [destruct e; [discriminate|]; intros H; inversion H; eauto|discriminate].
    - destruct vs as [|t0 vs0]; cbn [AreaParse.clipby_loop].
      + destruct e; [discriminate|]. intros H; inversion H; eauto.
      + destruct (need_tok_cases (t0 :: vs0)) as [E|(t1 & vs1 & Heq & Ht1 & E)]; rewrite E; cbn [bind];
          cbn beta iota; [discriminate|].
        destruct (beq (lower t1) "clipby"); cbn [negb]; [|discriminate].
        destruct (need_tok_cases vs1) as [E2|(t2 & vs2 & -> & Ht2 & E2)]; rewrite E2; cbn [bind];
          cbn beta iota; [discriminate|].
        destruct (_ || _); [|discriminate].
        destruct (parse_rect_area (lower t2) vs2) as [[[vs' c0] tl]|er| |]; try discriminate.
        * apply IH.
        * destruct er; discriminate.
  Qed.

  Lemma clipby_cons_ok fuel tok rest obj t e o' t' :
    clipby_loop fuel (tok :: rest) obj t e = Ok (o', t') ->
    is_empty tok = false /\ beq (lower tok) "clipby" = true /\ exists a c, o' = AClip a c.
  Proof.
    destruct fuel as [|fuel]; [discriminate|]. cbn [AreaParse.clipby_loop].
    destruct (is_empty tok) eqn:Ht; [destruct tok; [discriminate|discriminate]|].
    rewrite (need_tok_cons _ _ Ht). cbn [bind]; cbn beta iota.
    destruct (beq (lower tok) "clipby"); cbn [negb]; [|discriminate].
    destruct (need_tok_cases rest) as [E2|(t2 & vs2 & -> & Ht2 & E2)]; rewrite E2; cbn [bind];
      cbn beta iota; [discriminate|].
    destruct (_ || _); [|discriminate].
    destruct (parse_rect_area (lower t2) vs2) as [[[vs' c0] tl]|er| |]; try discriminate.
    - intros H. apply clipby_keeps_clip in H. auto.
    - destruct er; discriminate.
  Qed.

  Lemma clipby_cons_other n tok rest obj t e :
    is_empty tok = false -> beq (lower tok) "clipby" = false ->
    clipby_loop (S n) (tok :: rest) obj t e = Err ENumArgs.
  Proof.
    intros Ht Hc. cbn [AreaParse.clipby_loop]. rewrite (need_tok_cons _ _ Ht). cbn [bind]; cbn beta iota.
    rewrite Hc. reflexivity.
  Qed.

  (* ================================================================ TEST: the first word *)

  Lemma test_expr_first dc typ vs1 :
    is_empty typ = false -> is_area_word (lower typ) = true ->
    test_expr dc (typ :: vs1) =
      match parse_area dc (typ :: vs1) with
      | Ok (pvs, pobj) => test_expr_loop (S (length vs1)) dc (Some (pobj, false)) pvs
      | Err e => (TErr e, typ :: vs1)
      | Panic => (TPanic, typ :: vs1)
      | NoFuel => (TNoFuel, typ :: vs1)
      end.
  Proof.
    intros Hne Hw. destruct (area_word_not_keyword _ Hw) as (K1 & K2 & K3 & K4 & K5 & _).
    unfold AreaParse.test_expr. cbn [length AreaParse.test_expr_loop tokenval negb orb].
    cbn beta iota. rewrite Hne, K1, K2, K3, K4, K5, Hw.
    destruct (parse_area dc (typ :: vs1)) as [[pvs pobj]|e| |]; reflexivity.
  Qed.

  Lemma test_expr_unknown dc typ vs1 :
    is_empty typ = false -> is_area_word (lower typ) = false ->
    beq (lower typ) "(" = false -> beq (lower typ) ")" = false -> beq (lower typ) "not" = false ->
    beq (lower typ) "and" = false -> beq (lower typ) "or" = false ->
    test_expr dc (typ :: vs1) = (TErr ENumArgs, typ :: vs1).
  Proof.
    intros Hne Hw K1 K2 K3 K4 K5.
    unfold AreaParse.test_expr. cbn [length AreaParse.test_expr_loop tokenval negb orb].
    cbn beta iota. rewrite Hne, K1, K2, K3, K4, K5, Hw. reflexivity.
  Qed.

  Lemma test_loop_end n dc a : plain a = true ->
    test_expr_loop (S n) dc (Some (a, false)) [] = (TOk dc a, []).
  Proof. intros Hp. cbn. destruct a; try discriminate; reflexivity. Qed.

  Lemma test_loop_stop n dc a tok rest : plain a = true ->
    is_empty tok = false -> is_area_word (lower tok) = false ->
    beq (lower tok) "(" = false -> beq (lower tok) ")" = false -> beq (lower tok) "not" = false ->
    beq (lower tok) "and" = false -> beq (lower tok) "or" = false ->
    test_expr_loop (S n) dc (Some (a, false)) (tok :: rest) = (TOk dc a, tok :: rest).
  Proof.
    intros Hp Hne Hw K1 K2 K3 K4 K5.
    cbn [AreaParse.test_expr_loop tokenval negb orb]. cbn beta iota.
    rewrite Hne, K1, K2, K3, K4, K5, Hw. destruct a; try discriminate; reflexivity.
  Qed.

  Lemma test_tail_unfold isect a1nil typ vs1 :
    is_empty typ = false -> beq (lower typ) "clip" = false ->
    test_tail isect a1nil (typ :: vs1) =
      match test_expr false (typ :: vs1) with
      | (TOk dc a, rest) => match rest with [] => TOk dc a | _ => TErr ENumArgs end
      | (r, _) => r
      end.
  Proof.
    intros Hne Hc. unfold AreaParse.test_tail. cbn [tokenval]. rewrite Hne, Hc. cbn [negb andb].
    cbn beta iota. reflexivity.
  Qed.

  (* what the search side answers, read on the TEST side *)
  Definition obj_answer (o : area) : tres :=
    match o with
    | ANil | AClip _ _ => TErr ENumArgs      (* a CLIPBY followed: TEST does not know it *)
    | a => TOk false a
    end.
  Definition expected_test (r : sres) : tres :=
    if s_mvt r then TErr ENumArgs else obj_answer (s_obj r).

  (* the common tail of both directions: the switch and parseArea left the same object and the same
     rest; then the CLIPBY loop against the second iteration of the expression loop *)
  Lemma after_head isect typ vs1 rest a tile obj tile' :
    is_empty typ = false -> is_area_word (lower typ) = true ->
    parse_area false (typ :: vs1) = Ok (rest, a) ->
    clipby_loop (S (length rest)) rest a tile None = Ok (obj, tile') ->
    test_tail isect false (typ :: vs1) = obj_answer obj.
  Proof.
    intros Hne Hw Hpa Hcl.
    pose proof (parse_area_plain _ _ _ _ _ Hne Hw Hpa) as Hp.
    destruct (area_word_not_keyword _ Hw) as (_ & _ & _ & _ & _ & Kc & _).
    rewrite (test_tail_unfold _ _ _ _ Hne Kc), (test_expr_first _ _ _ Hne Hw), Hpa.
    destruct rest as [|tok rest'].
    - rewrite clipby_nil in Hcl. inversion Hcl; subst.
      rewrite (test_loop_end _ _ _ Hp). destruct obj; try discriminate; reflexivity.
    - destruct (clipby_cons_ok _ _ _ _ _ _ _ _ Hcl) as (Ht & Hc & a' & c' & ->).
      apply beq_true in Hc.
      rewrite (test_loop_stop (length vs1) false a tok rest' Hp Ht); try (rewrite Hc; vm_compute; reflexivity).
      reflexivity.
  Qed.

  (* ================================================================ search succeeded => TEST agrees *)

  Theorem search_ok_test_same cmd fence isect vs r :
    is_nearby cmd = false ->
    search_area cmd fence false false vs = Ok r ->
    tile_z_unsigned vs = true ->
    test_tail isect false vs = expected_test r.
  Proof.
    intros Hnb Hs Hu. unfold AreaParse.search_area in Hs.
    destruct (need_tok_cases vs) as [E|(typ & vs1 & -> & Hne & E)]; rewrite E in Hs; cbn [bind] in Hs;
      cbn beta iota in Hs; [discriminate|].
    cbn [andb] in Hs. cbn beta iota in Hs.
    rewrite Hnb, andb_false_r, orb_false_r in Hs.
    destruct (types_has cmd (lower typ)) eqn:Hty; cbn [negb] in Hs; [|discriminate].
    destruct (search_switch cmd false (lower typ) vs1) as [h| | |] eqn:Hsw; cbn [bind] in Hs; try discriminate.
    destruct (clipby_loop (S (length (h_vs h))) (h_vs h) (h_obj h) (h_tile h) (h_err h))
      as [[obj tile]| | |] eqn:Hcl; cbn [bind] in Hs; try discriminate.
    inversion Hs; subst r; clear Hs. unfold expected_test; cbn [s_mvt s_obj].
    rewrite (types_not_nearby _ _ Hnb) in Hty.
    assert (Hunknown : lower typ = lit "mvt" ->
              test_tail isect false (typ :: vs1) = TErr ENumArgs).
    { intros Hl.
      rewrite test_tail_unfold; [|exact Hne|rewrite Hl; vm_compute; reflexivity].
      rewrite test_expr_unknown; [reflexivity|exact Hne|idtac..];
        rewrite Hl; vm_compute; reflexivity. }
    assert (Hshared : forall tl, h = mkH (h_vs h) (h_obj h) tl false false None None ->
              is_area_word (lower typ) = true ->
              parse_area false (typ :: vs1) = Ok (h_vs h, h_obj h) ->
              test_tail isect false (typ :: vs1) =
                (if h_mvt h then TErr ENumArgs else obj_answer obj)).
    { intros tl Hh Hw Hpa. rewrite Hh in Hcl |- *. cbn [h_vs h_obj h_tile h_err h_mvt] in Hcl |- *.
      eapply after_head; eassumption. }
    repeat (apply orb_true_iff in Hty; destruct Hty as [Hty|Hty]).
    - (* bounds *)
      assert (Hw : is_area_word (lower typ) = true) by (unfold is_area_word; rewrite Hty, ?orb_true_r; reflexivity).
      rewrite switch_shared in Hsw; [|exact Hnb|exact Hne|left; unfold shared_any; rewrite Hty, ?orb_true_r; reflexivity].
      destruct (parse_area false (typ :: vs1)) as [[rest a]| | |] eqn:Hpa; try discriminate.
      cbn [lift] in Hsw. inversion Hsw; subst h. eapply Hshared; [reflexivity|exact Hw|reflexivity].
    - (* hash *)
      assert (Hw : is_area_word (lower typ) = true) by (unfold is_area_word; rewrite Hty, ?orb_true_r; reflexivity).
      rewrite switch_shared in Hsw; [|exact Hnb|exact Hne|left; unfold shared_any; rewrite Hty, ?orb_true_r; reflexivity].
      destruct (parse_area false (typ :: vs1)) as [[rest a]| | |] eqn:Hpa; try discriminate.
      cbn [lift] in Hsw. inversion Hsw; subst h. eapply Hshared; [reflexivity|exact Hw|reflexivity].
    - (* tile *)
      assert (Hw : is_area_word (lower typ) = true) by (unfold is_area_word; rewrite Hty, ?orb_true_r; reflexivity).
      destruct (switch_tile_fwd _ _ _ _ _ Hne Hty Hu Hsw) as [Hpa (x & y & z & Hh)].
      eapply Hshared; [|exact Hw|exact Hpa].
      rewrite Hh at 1. cbn [h_vs h_obj]. rewrite Hh. cbn [h_vs h_obj]. reflexivity.
    - (* quadkey *)
      assert (Hw : is_area_word (lower typ) = true) by (unfold is_area_word; rewrite Hty, ?orb_true_r; reflexivity).
      rewrite switch_shared in Hsw; [|exact Hnb|exact Hne|left; unfold shared_any; rewrite Hty, ?orb_true_r; reflexivity].
      destruct (parse_area false (typ :: vs1)) as [[rest a]| | |] eqn:Hpa; try discriminate.
      cbn [lift] in Hsw. inversion Hsw; subst h. eapply Hshared; [reflexivity|exact Hw|reflexivity].
    - (* get *)
      assert (Hw : is_area_word (lower typ) = true) by (unfold is_area_word; rewrite Hty, ?orb_true_r; reflexivity).
      rewrite switch_shared in Hsw; [|exact Hnb|exact Hne|right; split; [reflexivity|unfold shared_noclip; rewrite Hty, ?orb_true_r; reflexivity]].
      destruct (parse_area false (typ :: vs1)) as [[rest a]| | |] eqn:Hpa; try discriminate.
      cbn [lift] in Hsw. inversion Hsw; subst h. eapply Hshared; [reflexivity|exact Hw|reflexivity].
    - (* object *)
      assert (Hw : is_area_word (lower typ) = true) by (unfold is_area_word; rewrite Hty, ?orb_true_r; reflexivity).
      rewrite switch_shared in Hsw; [|exact Hnb|exact Hne|right; split; [reflexivity|unfold shared_noclip; rewrite Hty, ?orb_true_r; reflexivity]].
      destruct (parse_area false (typ :: vs1)) as [[rest a]| | |] eqn:Hpa; try discriminate.
      cbn [lift] in Hsw. inversion Hsw; subst h. eapply Hshared; [reflexivity|exact Hw|reflexivity].
    - (* circle *)
      assert (Hw : is_area_word (lower typ) = true) by (unfold is_area_word; rewrite Hty, ?orb_true_r; reflexivity).
      rewrite switch_shared in Hsw; [|exact Hnb|exact Hne|right; split; [reflexivity|unfold shared_noclip; rewrite Hty, ?orb_true_r; reflexivity]].
      destruct (parse_area false (typ :: vs1)) as [[rest a]| | |] eqn:Hpa; try discriminate.
      cbn [lift] in Hsw. inversion Hsw; subst h. eapply Hshared; [reflexivity|exact Hw|reflexivity].
    - (* point *)
      assert (Hw : is_area_word (lower typ) = true) by (unfold is_area_word; rewrite Hty, ?orb_true_r; reflexivity).
      rewrite switch_shared in Hsw; [|exact Hnb|exact Hne|left; unfold shared_any; rewrite Hty, ?orb_true_r; reflexivity].
      destruct (parse_area false (typ :: vs1)) as [[rest a]| | |] eqn:Hpa; try discriminate.
      cbn [lift] in Hsw. inversion Hsw; subst h. eapply Hshared; [reflexivity|exact Hw|reflexivity].
    - (* sector *)
      assert (Hw : is_area_word (lower typ) = true) by (unfold is_area_word; rewrite Hty, ?orb_true_r; reflexivity).
      rewrite switch_shared in Hsw; [|exact Hnb|exact Hne|right; split; [reflexivity|unfold shared_noclip; rewrite Hty, ?orb_true_r; reflexivity]].
      destruct (parse_area false (typ :: vs1)) as [[rest a]| | |] eqn:Hpa; try discriminate.
      cbn [lift] in Hsw. inversion Hsw; subst h. eapply Hshared; [reflexivity|exact Hw|reflexivity].
    - (* mvt *) apply beq_true in Hty. rewrite (Hunknown Hty).
      rewrite Hty in Hsw. unfold AreaParse.search_switch in Hsw. lits_in Hsw. cbn [orb] in Hsw.
      cbn beta iota in Hsw.
      destruct (parse_rect_area (lit "mvt") vs1) as [[[vs' a] tl]| | |]; cbn [bind] in Hsw; try discriminate.
      inversion Hsw; subst h. reflexivity.
  Qed.

  (* ================================================================ TEST succeeded => what search does *)

  Lemma test_expr_loop_dc : forall fuel dc ae vs dc' a' rest,
    test_expr_loop fuel dc ae vs = (TOk dc' a', rest) -> dc' = dc.
  Proof.
    induction fuel as [|fuel IH]; intros dc ae vs dc' a' rest; [discriminate|].
    cbn [AreaParse.test_expr_loop].
    assert (Hfin : match ae with
                   | None => (TErr ENumArgs, vs)
                   | Some (ANil, false) => (TErr ENumArgs, vs)
                   | Some (ANil, true) => (TOutside, vs)
                   | Some (a, _) => (TOk dc a, vs)
                   end = (TOk dc' a', rest) -> dc' = dc).
    { destruct ae as [[[] []]|]; intros H; inversion H; auto. }
    destruct vs as [|w vs0]; cbn [tokenval negb orb]; cbn beta iota; [exact Hfin|].
    destruct (is_empty w); [exact Hfin|].
    destruct (beq (lower w) "("); [discriminate|].
    destruct (beq (lower w) ")"); [discriminate|].
    destruct (beq (lower w) "not"); [discriminate|].
    destruct (beq (lower w) "and"); [destruct ae; discriminate|].
    destruct (beq (lower w) "or"); [destruct ae; discriminate|].
    destruct (is_area_word (lower w)); [|exact Hfin].
    destruct (parse_area dc (w :: vs0)) as [[vs' a0]|e| |]; try discriminate.
    apply IH.
  Qed.

  (* a token after the first object that the loop swallowed is another area word *)
  Lemma test_loop_consumes n dc a k tok rest' dc' a' :
    test_expr_loop (S n) dc (Some (a, k)) (tok :: rest') = (TOk dc' a', []) ->
    is_empty tok = false /\ is_area_word (lower tok) = true.
  Proof.
    cbn [AreaParse.test_expr_loop tokenval negb orb]. cbn beta iota.
    assert (Hfin : match a, k with
                   | ANil, false => (TErr ENumArgs, tok :: rest')
                   | ANil, true => (TOutside, tok :: rest')
                   | _, _ => (TOk dc a, tok :: rest')
                   end = (TOk dc' a', []) -> is_empty tok = false /\ is_area_word (lower tok) = true).
    { destruct a, k; intros H; inversion H. }
    destruct (is_empty tok); [exact Hfin|].
    destruct (beq (lower tok) "("); [discriminate|].
    destruct (beq (lower tok) ")"); [discriminate|].
    destruct (beq (lower tok) "not"); [discriminate|].
    destruct (beq (lower tok) "and"); [discriminate|].
    destruct (beq (lower tok) "or"); [discriminate|].
    destruct (is_area_word (lower tok)); [auto|exact Hfin].
  Qed.

  Lemma area_word_types cmd l : is_nearby cmd = false -> is_area_word l = true -> types_has cmd l = true.
  Proof.
    intros Hnb Hw. rewrite (types_not_nearby _ _ Hnb). unfold is_area_word in Hw.
    repeat (apply orb_true_iff in Hw; destruct Hw as [Hw|Hw]); rewrite Hw; rewrite ?orb_true_r; reflexivity.
  Qed.

  Lemma shared_area_word l : shared_any l = true \/ shared_noclip l = true -> is_area_word l = true.
  Proof.
    unfold shared_any, shared_noclip, is_area_word. intros [H|H];
      repeat (apply orb_true_iff in H; destruct H as [H|H]); rewrite H; rewrite ?orb_true_r; reflexivity.
  Qed.

  Lemma search_area_cons cmd fence clip typ vs1 :
    is_nearby cmd = false -> is_empty typ = false -> types_has cmd (lower typ) = true ->
    search_area cmd fence clip false (typ :: vs1) =
      (do h <- search_switch cmd clip (lower typ) vs1;
       do r <- clipby_loop (S (length (h_vs h))) (h_vs h) (h_obj h) (h_tile h) (h_err h);
       match r with (obj, tile) => Ok (mkS obj false tile (h_mvt h) (h_clip h) (h_roam h)) end).
  Proof.
    intros Hnb Hne Hty. unfold AreaParse.search_area. rewrite (need_tok_cons _ _ Hne).
    cbn [bind andb]. cbn beta iota. rewrite Hty. reflexivity.
  Qed.

  Theorem test_ok_search_same cmd fence isect vs a :
    is_nearby cmd = false ->
    test_tail isect false vs = TOk false a ->
    (exists r, search_area cmd fence false false vs = Ok r /\ s_obj r = a /\ s_mvt r = false /\
               s_clip r = false /\ s_outreset r = false /\ s_roam r = None)
    \/ (search_area cmd fence false false vs = Err ENumArgs /\
        exists rest, parse_area false vs = Ok (rest, a) /\ rest <> [])
    \/ (exists x y z t, a = ATile x y z /\ (x < 0 \/ y < 0 \/ 23 < z) /\
        search_area cmd fence false false vs = Err (EInvalidArg t)).
  Proof.
    intros Hnb Ht. destruct vs as [|typ vs1]; [cbn in Ht; discriminate|].
    destruct (is_empty typ) eqn:Hne.
    { destruct typ; [|discriminate Hne]. cbn in Ht. discriminate. }
    destruct (beq (lower typ) "clip") eqn:Hc.
    { unfold AreaParse.test_tail in Ht. cbn [tokenval] in Ht. rewrite Hne, Hc in Ht.
      cbn [negb andb] in Ht. destruct isect; cbn [negb] in Ht; [|discriminate].
      cbn beta iota in Ht.
      destruct (test_expr true vs1) as [tr rest] eqn:Hte. destruct tr; try discriminate.
      unfold AreaParse.test_expr in Hte. apply test_expr_loop_dc in Hte. subst doclip.
      cbn [andb] in Ht. destruct rest; [|discriminate]. discriminate. }
    rewrite (test_tail_unfold _ _ _ _ Hne Hc) in Ht.
    destruct (is_area_word (lower typ)) eqn:Hw.
    2:{ unfold AreaParse.test_expr in Ht. cbn [length AreaParse.test_expr_loop tokenval negb orb] in Ht.
        cbn beta iota in Ht. rewrite Hne, Hw in Ht.
        destruct (beq (lower typ) "("); [discriminate|].
        destruct (beq (lower typ) ")"); [discriminate|].
        destruct (beq (lower typ) "not"); [discriminate|].
        destruct (beq (lower typ) "and"); [discriminate|].
        destruct (beq (lower typ) "or"); discriminate. }
    rewrite (test_expr_first _ _ _ Hne Hw) in Ht.
    destruct (parse_area false (typ :: vs1)) as [[rest1 a1]|e| |] eqn:Hpa; try discriminate.
    destruct (test_expr_loop (S (length vs1)) false (Some (a1, false)) rest1) as [tr rest2] eqn:Hloop.
    destruct tr; try discriminate. destruct rest2; [|discriminate]. inversion Ht; subst doclip a0; clear Ht.
    destruct (test_expr_loop_keeps _ _ _ _ _ _ _ _ Hloop) as [-> _].
    pose proof (area_word_types _ _ Hnb Hw) as Hty.
    rewrite (search_area_cons _ fence false _ vs1 Hnb Hne Hty).
    (* once the switch agrees, the CLIPBY loop against the rest *)
    assert (Hfin : forall tl,
      search_switch cmd false (lower typ) vs1 = Ok (mkH rest1 a1 tl false false None None) ->
      (exists r, (do h <- search_switch cmd false (lower typ) vs1;
                  do r <- clipby_loop (S (length (h_vs h))) (h_vs h) (h_obj h) (h_tile h) (h_err h);
                  match r with (obj, tile) => Ok (mkS obj false tile (h_mvt h) (h_clip h) (h_roam h)) end)
                 = Ok r /\ s_obj r = a1 /\ s_mvt r = false /\ s_clip r = false /\ s_outreset r = false /\
                 s_roam r = None)
      \/ ((do h <- search_switch cmd false (lower typ) vs1;
           do r <- clipby_loop (S (length (h_vs h))) (h_vs h) (h_obj h) (h_tile h) (h_err h);
           match r with (obj, tile) => Ok (mkS obj false tile (h_mvt h) (h_clip h) (h_roam h)) end)
          = Err ENumArgs /\ exists rest, Ok (rest1, a1) = Ok (rest, a1) /\ rest <> [])).
    { intros tl Hsw. rewrite Hsw. cbn [bind h_vs h_obj h_tile h_err h_mvt h_clip h_roam].
      destruct rest1 as [|tok rest'].
      - left. rewrite clipby_nil. cbn [bind]. eexists. repeat split.
      - right. destruct (test_loop_consumes _ _ _ _ _ _ _ _ Hloop) as [Htk Hwk].
        destruct (area_word_not_keyword _ Hwk) as (_ & _ & _ & _ & _ & _ & Kcb).
        rewrite (clipby_cons_other _ _ _ _ _ _ Htk Kcb). cbn [bind]. split; [reflexivity|].
        exists (tok :: rest'). split; [reflexivity|discriminate]. }
    destruct (area_word_cases _ Hw) as [Hk|[Hk|Hk]].
    - specialize (Hfin (0, 0, 0)). rewrite switch_shared in Hfin |- *; auto.
      rewrite Hpa in Hfin |- *. cbn [lift] in Hfin |- *.
      destruct (Hfin eq_refl) as [H|H]; [left; exact H|right; left; exact H].
    - specialize (Hfin (0, 0, 0)). rewrite switch_shared in Hfin |- *; auto.
      rewrite Hpa in Hfin |- *. cbn [lift] in Hfin |- *.
      destruct (Hfin eq_refl) as [H|H]; [left; exact H|right; left; exact H].
    - destruct (switch_tile_bwd cmd false _ _ _ _ Hne Hk Hpa) as (x & y & z & Ha & [(Hx & Hy & Hz & Hsw)|(Hr & t & Hsw)]).
      + destruct (Hfin _ Hsw) as [H|H]; [left; exact H|right; left; exact H].
      + right; right. exists x, y, z, t. rewrite Hsw. cbn [bind]. auto.
  Qed.

  (* ================================================================ both fail: the same error *)

  Theorem shared_error_same cmd fence isect typ vs1 e :
    is_nearby cmd = false -> is_empty typ = false ->
    shared_any (lower typ) = true \/ shared_noclip (lower typ) = true ->
    search_area cmd fence false false (typ :: vs1) = Err e ->
    test_tail isect false (typ :: vs1) = TErr e
    \/ exists rest a, parse_area false (typ :: vs1) = Ok (rest, a) /\ rest <> [].
  Proof.
    intros Hnb Hne Hk Hs.
    pose proof (shared_area_word _ Hk) as Hw.
    rewrite (search_area_cons _ fence false _ vs1 Hnb Hne (area_word_types _ _ Hnb Hw)) in Hs.
    rewrite switch_shared in Hs; [|exact Hnb|exact Hne|destruct Hk; auto].
    destruct (parse_area false (typ :: vs1)) as [[rest a]|e0| |] eqn:Hpa; cbn [lift bind] in Hs; try discriminate.
    - right. exists rest, a. split; [reflexivity|]. intros ->.
      cbn [h_vs h_obj h_tile h_err length] in Hs. rewrite clipby_nil in Hs. discriminate.
    - left. inversion Hs; subst e0.
      destruct (area_word_not_keyword _ Hw) as (_ & _ & _ & _ & _ & Kc & _).
      rewrite (test_tail_unfold _ _ _ _ Hne Kc), (test_expr_first _ _ _ Hne Hw), Hpa. reflexivity.
  Qed.

  (* ================================================================ WITHIN key BOUNDS a b c d *)

  Theorem bounds_shorthand cmd fence clip t vs b :
    is_nearby cmd = false -> is_empty t = false -> pf t = Some b ->
    search_area cmd fence clip true (t :: vs) =
      match search_area cmd fence clip false (lit "BOUNDS" :: t :: vs) with
      | Ok r => Ok (mkS (s_obj r) true (s_tile r) (s_mvt r) (s_clip r) (s_roam r))
      | x => x
      end.
  Proof.
    intros Hnb Hne Hpf. unfold AreaParse.search_area.
    rewrite (need_tok_cons _ _ Hne). rewrite (need_tok_cons (lit "BOUNDS")) by reflexivity.
    cbn [bind andb]. cbn beta iota. rewrite Hnb. cbn [negb]. rewrite Hpf. cbn beta iota.
    destruct (negb _); [reflexivity|].
    destruct (search_switch cmd clip (lower (lit "BOUNDS")) (t :: vs)) as [h| | |]; cbn [bind]; try reflexivity.
    destruct (clipby_loop _ _ _ _ _) as [[obj tile]| | |]; reflexivity.
  Qed.

  (* ================================================================ lfs.obj is an object *)

  Lemma switch_obj_nonnil cmd clip l vs h :
    is_nearby cmd = false -> types_has cmd l = true ->
    search_switch cmd clip l vs = Ok h -> h_obj h <> ANil.
  Proof.
    intros Hnb Hty. rewrite (types_not_nearby _ _ Hnb) in Hty.
    unfold AreaParse.search_switch, AreaParse.parse_rect_area.
    repeat step; try discriminate; intros H; inversion H; subst; cbn [h_obj]; try discriminate.
    all: repeat match goal with E : _ || _ = false |- _ => apply orb_false_iff in E; destruct E end.
    all: repeat match goal with E : beq _ _ = false |- _ => rewrite E in Hty; clear E end.
    all: try discriminate.
    all: match goal with E : beq ?x "roam" = true |- _ => apply beq_true in E; subst x end.
    all: vm_compute in Hty; discriminate.
  Qed.

  Lemma clipby_obj fuel vs obj t e o' t' :
    clipby_loop fuel vs obj t e = Ok (o', t') -> o' = obj \/ exists a c, o' = AClip a c.
  Proof.
    destruct vs as [|tok rest].
    - destruct fuel; cbn; (destruct e; [discriminate|]); intros H; inversion H; auto.
    - intros H. apply clipby_cons_ok in H. destruct H as (_ & _ & H). auto.
  Qed.

  (* every accepted WITHIN / INTERSECTS area — any flags, the BOUNDS shorthand included — leaves a
     search object *)
  Theorem search_obj_nonnil cmd fence clip outb vs r :
    is_nearby cmd = false ->
    search_area cmd fence clip outb vs = Ok r -> s_obj r <> ANil.
  Proof.
    intros Hnb Hs. unfold AreaParse.search_area in Hs.
    destruct (need_tok_cases vs) as [E|(t & vs' & -> & Hne & E)]; rewrite E in Hs; cbn [bind] in Hs;
      cbn beta iota in Hs; [discriminate|].
    destruct (if outb && negb (is_nearby cmd)
              then match pf t with Some _ => (t :: vs', lit "BOUNDS", true) | None => (vs', t, false) end
              else (vs', t, false)) as [[vs1 typ] outreset].
    rewrite Hnb, andb_false_r, orb_false_r in Hs.
    destruct (types_has cmd (lower typ)) eqn:Hty; cbn [negb] in Hs; [|discriminate].
    destruct (search_switch cmd clip (lower typ) vs1) as [h| | |] eqn:Hsw; cbn [bind] in Hs; try discriminate.
    destruct (clipby_loop _ _ _ _ _) as [[obj tile]| | |] eqn:Hcl; cbn [bind] in Hs; try discriminate.
    inversion Hs; subst r; cbn [s_obj].
    pose proof (switch_obj_nonnil _ _ _ _ _ Hnb Hty Hsw) as Hnn.
    destruct (clipby_obj _ _ _ _ _ _ _ Hcl) as [->|(a & c & ->)]; [exact Hnn|discriminate].
  Qed.
End P.

(* ================================================================== concrete oracles, witnesses *)

Definition lower0 (s : bytes) : bytes :=
  map (fun c => if ((65 <=? c) && (c <=? 90))%N then (c + 32)%N else c) s.
(* strconv.ParseFloat on the tokens the witnesses use *)
Definition pf0 (s : bytes) : option Z :=
  if beq s "0" then Some 0
  else if beq s "1" then Some 4607182418800017408
  else if beq s "5" then Some 4617315517961601024
  else if beq s "-1" then Some 13830554455654793216
  else if beq s "+1" then Some 4607182418800017408
  else if beq s "24" then Some 4627448617123184640
  else None.
Definition gj0 (_ : bytes) : bool := true.
Definition sec0 (_ _ _ _ _ : Z) : bool := true.
Definition lookup0 (_ _ : bytes) : lookupT := LFound.

Definition search0 := search_area lower0 pf0 gj0 sec0 lookup0.
Definition search0_pinned := search_area_pinned lower0 pf0 gj0 sec0 lookup0.
Definition test0 := test_tail lower0 pf0 gj0 sec0 lookup0.

Definition toks (l : list string) : list bytes := map lit l.

(* pinned code, WITHIN key GEO: accepted, lfs.obj == nil (the server then dereferenced it); the repaired
   code refuses the word *)
Lemma geo_nil_pinned_witness :
  (exists vs r, search0_pinned CWithin false false false vs = Ok r /\ s_obj r = ANil) /\
  search0 CWithin false false false (toks ["GEO"%string]) = Err (EInvalidArg (lit "GEO")).
Proof.
  split; [|vm_compute; reflexivity].
  exists (toks ["GEO"%string]). eexists. split; [vm_compute; reflexivity|reflexivity].
Qed.

(* pinned code: INTERSECTS key CLIP GET k i is refused, INTERSECTS key CLIP GET k i CLIPBY BOUNDS … is
   not; the repaired code refuses both *)
Lemma clip_get_pinned_witness :
  (search0_pinned CIntersects false true false (toks ["GET"; "k"; "i"]%string)
     = Err (EInvalidArg (lit "cannot clip with get")) /\
   exists r, search0_pinned CIntersects false true false
               (toks ["GET"; "k"; "i"; "CLIPBY"; "BOUNDS"; "0"; "0"; "1"; "1"]%string) = Ok r
             /\ s_clip r = true
             /\ s_obj r = AClip (AGet (lit "k") (lit "i")) (ABounds 0 0 4607182418800017408 4607182418800017408)) /\
  search0 CIntersects false true false (toks ["GET"; "k"; "i"; "CLIPBY"; "BOUNDS"; "0"; "0"; "1"; "1"]%string)
    = Err (EInvalidArg (lit "cannot clip with get")).
Proof.
  split; [|vm_compute; reflexivity].
  split; [vm_compute; reflexivity|]. eexists. split; [vm_compute; reflexivity|split; reflexivity].
Qed.

(* TILE 0 0 +1: Atoi accepts the sign, ParseUint does not *)
Lemma tile_sign_witness :
  exists vs r, search0 CWithin false false false vs = Ok r /\ s_obj r = ATile 0 0 1 /\
               test0 false false vs = TErr (EInvalidArg (lit "+1")).
Proof.
  exists (toks ["TILE"; "0"; "0"; "+1"]%string). eexists.
  split; [vm_compute; reflexivity|split; [reflexivity|vm_compute; reflexivity]].
Qed.

(* TILE -1 0 5 and TILE 0 0 24: TEST evaluates them, search refuses them *)
Lemma tile_range_witness :
  (search0 CWithin false false false (toks ["TILE"; "-1"; "0"; "5"]%string) = Err (EInvalidArg (lit "-1")) /\
   test0 false false (toks ["TILE"; "-1"; "0"; "5"]%string) = TOk false (ATile (-1) 0 5)) /\
  (search0 CWithin false false false (toks ["TILE"; "0"; "0"; "24"]%string) = Err (EInvalidArg (lit "24")) /\
   test0 false false (toks ["TILE"; "0"; "0"; "24"]%string) = TOk false (ATile 0 0 24)).
Proof. repeat split; vm_compute; reflexivity. Qed.

(* a second area after the first: TEST parses it and ignores it, search wants CLIPBY *)
Lemma trailing_area_witness :
  search0 CWithin false false false (toks ["BOUNDS"; "0"; "0"; "1"; "1"; "BOUNDS"; "5"; "5"; "5"; "5"]%string) = Err ENumArgs /\
  test0 false false (toks ["BOUNDS"; "0"; "0"; "1"; "1"; "BOUNDS"; "5"; "5"; "5"; "5"]%string)
    = TOk false (ABounds 0 0 4607182418800017408 4607182418800017408).
Proof. split; vm_compute; reflexivity. Qed.

(* an unknown word: "invalid argument 'FOO'" against "invalid number of arguments" *)
Lemma unknown_word_witness :
  search0 CWithin false false false (toks ["FOO"%string]) = Err (EInvalidArg (lit "FOO")) /\
  test0 false false (toks ["FOO"%string]) = TErr ENumArgs.
Proof. split; vm_compute; reflexivity. Qed.

(* the hypotheses of the agreement theorems are satisfiable: one list per shared word *)
Lemma agreement_nonvacuous :
  (exists r, search0 CWithin false false false (toks ["CIRCLE"; "1"; "5"; "24"]%string) = Ok r /\
             test0 false false (toks ["CIRCLE"; "1"; "5"; "24"]%string) = TOk false (s_obj r) /\
             s_obj r = ACircle 4607182418800017408 4617315517961601024 4627448617123184640) /\
  (exists r, search0 CIntersects false false false (toks ["sector"; "0"; "0"; "24"; "1"; "5"]%string) = Ok r /\
             test0 true false (toks ["sector"; "0"; "0"; "24"; "1"; "5"]%string) = TOk false (s_obj r) /\
             s_obj r = ASector 0 0 4627448617123184640 4607182418800017408 4617315517961601024) /\
  (exists r, search0 CWithin false false false (toks ["QuadKey"; "0123"]%string) = Ok r /\
             test0 false false (toks ["QuadKey"; "0123"]%string) = TOk false (s_obj r) /\
             s_obj r = ATile 5 3 4).
Proof.
  repeat split; eexists; (split; [vm_compute; reflexivity|split; [vm_compute; reflexivity|reflexivity]]).
Qed.

(* ================================================================== statements without [safe] *)

Lemma search_area_no_panic lower pf gj_ok sec_ok lookup cmd fence clip outb vs :
  search_area lower pf gj_ok sec_ok lookup cmd fence clip outb vs <> Panic /\
  search_area lower pf gj_ok sec_ok lookup cmd fence clip outb vs <> NoFuel.
Proof.
  pose proof (search_area_safe lower pf gj_ok sec_ok lookup cmd fence clip outb vs) as H.
  destruct (search_area lower pf gj_ok sec_ok lookup cmd fence clip outb vs); cbn in H;
    try contradiction; split; discriminate.
Qed.

Lemma test_side_no_panic lower pf gj_ok sec_ok lookup :
  (forall dc vs, parse_area lower pf gj_ok sec_ok lookup dc vs <> Panic /\
                 parse_area lower pf gj_ok sec_ok lookup dc vs <> NoFuel) /\
  (forall isect a1nil vs, test_tail lower pf gj_ok sec_ok lookup isect a1nil vs <> TPanic /\
                          test_tail lower pf gj_ok sec_ok lookup isect a1nil vs <> TNoFuel).
Proof.
  split.
  - intros dc vs. pose proof (parse_area_safe lower pf gj_ok sec_ok lookup dc vs) as H.
    destruct (parse_area lower pf gj_ok sec_ok lookup dc vs); cbn in H; try contradiction; split; discriminate.
  - intros isect a1nil vs. pose proof (test_tail_safe lower pf gj_ok sec_ok lookup isect a1nil vs) as H.
    destruct (test_tail lower pf gj_ok sec_ok lookup isect a1nil vs); cbn in H; try contradiction;
      split; discriminate.
Qed.
