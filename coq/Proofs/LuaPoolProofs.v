(* The interpreter pool (Model/LuaPool.v): when every user that registers an eval mode removes it again
   on every way out - which is what Gen/LuaPool.v says of the source - then, for EVERY history of Get /
   Store / tile38.call / exit / Prune operations by any number of concurrent requests (two interpreters
   out at once, returned in either order, early exits before the Store, pool growth and pruning),
     - no idle interpreter carries a mode,
     - a request that did not register a mode (WHEREEVAL filters, SCRIPT LOAD, an EVAL before its Store)
       finds none on its interpreter: its tile38.call is refused,
     - a request past its Store finds its own command word - not one left behind by somebody else. *)
From Coq Require Import String List Bool Arith Lia.
From T38 Require Import Model.Tables Gen.ScriptTables Gen.LuaPool Model.LuaPool.
Import ListNotations.
Local Open Scope string_scope.
Local Open Scope list_scope.

Lemma reg_get_del_same r x : reg_get (reg_del r x) x = None.
Proof.
  induction r as [|[y m] r IH]; cbn; [reflexivity|].
  destruct (Nat.eqb_spec y x) as [->|Hne]; [exact IH|]. cbn.
  destruct (Nat.eqb_spec y x); [congruence | exact IH].
Qed.

Lemma reg_get_del_other r x y : y <> x -> reg_get (reg_del r x) y = reg_get r y.
Proof.
  intros Hne. induction r as [|[z m] r IH]; cbn; [reflexivity|].
  destruct (Nat.eqb_spec z x) as [->|Hzx].
  - destruct (Nat.eqb_spec x y); [congruence | exact IH].
  - cbn. destruct (Nat.eqb z y); [reflexivity | exact IH].
Qed.

Lemma reg_get_set_same r x m : reg_get (reg_set r x m) x = Some m.
Proof. unfold reg_set. cbn. rewrite Nat.eqb_refl. reflexivity. Qed.

Lemma reg_get_set_other r x m y : y <> x -> reg_get (reg_set r x m) y = reg_get r y.
Proof.
  intros Hne. unfold reg_set. cbn. destruct (Nat.eqb_spec x y); [congruence|]. apply reg_get_del_other. exact Hne.
Qed.

Lemma find_holder_in l u h : find_holder l u = Some h -> In h l /\ h_user h = u.
Proof.
  induction l as [|x l IH]; cbn; [discriminate|].
  destruct (Nat.eqb_spec (h_user x) u) as [E|E].
  - intros H; inversion H; subst. split; [left; reflexivity | reflexivity].
  - intros H. destruct (IH H) as [Hi Hu]. split; [right; exact Hi | exact Hu].
Qed.

Lemma drop_holder_in l u h : In h (drop_holder l u) -> In h l /\ h_user h <> u.
Proof.
  induction l as [|x l IH]; cbn; [tauto|].
  destruct (Nat.eqb_spec (h_user x) u) as [E|E].
  - intros H. destruct (IH H) as [Hi Hu]. split; [right; exact Hi | exact Hu].
  - intros [<-|H]; [split; [left; reflexivity | exact E]|]. destruct (IH H) as [Hi Hu]. split; [right; exact Hi | exact Hu].
Qed.

Lemma rev_cons_inv {A} (l : list A) x rest : rev l = x :: rest -> l = rev rest ++ [x].
Proof. intros H. rewrite <- (rev_involutive l), H. reflexivity. Qed.

Lemma nodup_app_r {A} (l m : list A) : NoDup (l ++ m) -> NoDup m.
Proof. induction l as [|a l IH]; cbn; [tauto|]. intros H. inversion H; subst. apply IH. assumption. Qed.

Lemma NoDup_skipn {A} k (l m : list A) : NoDup (l ++ m) -> NoDup (skipn k l ++ m).
Proof.
  intros H. rewrite <- (firstn_skipn k l), <- app_assoc in H. exact (nodup_app_r _ _ H).
Qed.

Lemma in_skipn {A} k (l : list A) x : In x (skipn k l) -> In x l.
Proof. intros H. rewrite <- (firstn_skipn k l). apply in_or_app. right. exact H. Qed.

Lemma drop_holder_nodup l u : NoDup (map h_state l) -> NoDup (map h_state (drop_holder l u)).
Proof.
  induction l as [|b l IH]; cbn; intros Hn; [constructor|]. inversion Hn as [|? ? Hb Hl]; subst.
  destruct (Nat.eqb (h_user b) u); [apply IH; exact Hl|]. cbn. constructor; [|apply IH; exact Hl].
  intros Hx. apply in_map_iff in Hx as [h' [Eh' Hh']]. apply Hb. rewrite <- Eh'. apply in_map.
  exact (proj1 (drop_holder_in _ _ _ Hh')).
Qed.

Lemma move_holder_nodup l u hh :
  NoDup (map h_state l) -> In hh l -> h_user hh = u -> NoDup (h_state hh :: map h_state (drop_holder l u)).
Proof.
  induction l as [|a l IH]; intros Hn Hi Hhu; [destruct Hi|].
  cbn in Hn. inversion Hn as [|? ? Hna Hnl]. cbn [drop_holder].
  destruct Hi as [Ha|Hi].
  - rewrite Ha, Hhu, Nat.eqb_refl. constructor; [|apply drop_holder_nodup; exact Hnl].
    intros Hx. apply in_map_iff in Hx as [h' [Eh' Hh']]. apply Hna. rewrite Ha, <- Eh'. apply in_map.
    exact (proj1 (drop_holder_in _ _ _ Hh')).
  - specialize (IH Hnl Hi Hhu). destruct (Nat.eqb_spec (h_user a) u) as [Ea|Ea]; [exact IH|].
    cbn. inversion IH as [|? ? Hh1 Hh2]. constructor.
    + intros [Hx|Hx]; [apply Hna; rewrite Hx; apply in_map; exact Hi | exact (Hh1 Hx)].
    + constructor; [|exact Hh2]. intros Hx. apply in_map_iff in Hx as [h' [Eh' Hh']]. apply Hna.
      rewrite <- Eh'. apply in_map. exact (proj1 (drop_holder_in _ _ _ Hh')).
Qed.

Section PoolProofs.
Variable fl : string -> bool * bool.
(* a user that registers a mode removes it on every way out *)
Hypothesis discipline : forall fn, fst (fl fn) = true -> snd (fl fn) = true.

Definition states (p : pool) : list nat := saved p ++ map h_state (held p).

Definition holder_ok (p : pool) (h : holder) : Prop :=
  if h_stored h then fst (fl (h_fn h)) = true /\ reg_get (reg p) (h_state h) = Some (h_mode h)
  else reg_get (reg p) (h_state h) = None.

Definition call_ok (c : lcall) : Prop :=
  if c_stored c then c_found c = Some (c_mode c) else c_found c = None.

Record PInv (p : pool) : Prop := mkPI {
  pi_nodup : NoDup (states p);
  pi_bound : forall x, In x (states p) -> x < fresh p;
  pi_new : forall x, fresh p <= x -> reg_get (reg p) x = None;
  pi_idle : forall x, In x (saved p) -> reg_get (reg p) x = None;
  pi_held : forall h, In h (held p) -> holder_ok p h;
  pi_calls : Forall call_ok (calls p) }.

Lemma pinv_init n : PInv (pinit n).
Proof.
  constructor; cbn; try tauto; try (intros; reflexivity).
  - unfold states. cbn. rewrite app_nil_r. apply seq_NoDup.
  - unfold states. cbn. intros x H. rewrite app_nil_r in H. apply in_seq in H. lia.
  - constructor.
Qed.

Lemma held_state_in p h : In h (held p) -> In (h_state h) (states p).
Proof. intros H. unfold states. apply in_or_app. right. apply in_map. exact H. Qed.

Lemma pinv_step p o : PInv p -> PInv (pstep fl p o).
Proof.
  intros [Hnd Hb Hnew Hidle Hheld Hcalls]. destruct o as [u fn mode|u|u|u|k]; cbn [pstep].
  - (* OGet *)
    destruct (find_holder (held p) u) as [h0|]; [constructor; assumption|].
    destruct (rev (saved p)) as [|x rest] eqn:Er.
    + assert (Hs : saved p = []) by (destruct (saved p) as [|a l]; [reflexivity | cbn in Er; destruct (rev l); discriminate]).
      unfold states in *. rewrite Hs in *. cbn [app] in *.
      constructor; cbn [saved fresh reg held calls]; unfold states; cbn [saved held app map h_state].
      * constructor; [|exact Hnd]. intros Hin. specialize (Hb _ Hin). lia.
      * intros x [<-|Hin]; [lia|]. specialize (Hb _ Hin). lia.
      * intros x Hx. apply Hnew. lia.
      * intros x [].
      * intros h [<-|Hin]; [|exact (Hheld h Hin)]. unfold holder_ok. cbn. apply Hnew. lia.
      * exact Hcalls.
    + apply rev_cons_inv in Er.
      assert (Hst : saved p ++ map h_state (held p) = rev rest ++ x :: map h_state (held p))
        by (rewrite Er, <- app_assoc; reflexivity).
      constructor; cbn [saved fresh reg held calls]; unfold states in *; cbn [saved held map h_state].
      * rewrite <- Hst. exact Hnd.
      * rewrite <- Hst. exact Hb.
      * exact Hnew.
      * intros y Hy. apply Hidle. rewrite Er. apply in_or_app. left. exact Hy.
      * intros h [<-|Hin]; [|exact (Hheld h Hin)]. unfold holder_ok. cbn. apply Hidle. rewrite Er.
        apply in_or_app. right. left. reflexivity.
      * exact Hcalls.
  - (* OStore *)
    destruct (find_holder (held p) u) as [h|] eqn:Ef; [|constructor; assumption].
    destruct (fst (fl (h_fn h))) eqn:Est; [|constructor; assumption].
    destruct (find_holder_in _ _ _ Ef) as [Hin Hu].
    assert (Hperm : forall y, In y (h_state h :: map h_state (drop_holder (held p) u)) -> In y (map h_state (held p))).
    { intros y [<-|Hy]; [apply in_map; exact Hin|]. apply in_map_iff in Hy as [h' [<- Hh']].
      apply in_map. exact (proj1 (drop_holder_in _ _ _ Hh')). }
    assert (Hnd' : NoDup (saved p ++ h_state h :: map h_state (drop_holder (held p) u))).
    { (* the same interpreters, the holder of u moved to the front, other entries of u dropped *)
      unfold states in Hnd. pose proof (nodup_app_r _ _ Hnd) as Hnh.
      pose proof (move_holder_nodup _ _ _ Hnh Hin Hu) as Hsub.
      clear -Hnd Hsub Hperm. induction (saved p) as [|a l IH]; cbn in *; [exact Hsub|].
      inversion Hnd; subst. constructor; [|apply IH; assumption].
      intros Hx. apply H1. apply in_app_or in Hx as [Hx|Hx]; apply in_or_app; [left; exact Hx | right; apply Hperm; exact Hx]. }
    constructor; cbn [saved fresh reg held calls]; unfold states in *; cbn [saved held map h_state].
    + exact Hnd'.
    + intros x Hx. apply Hb. apply in_app_or in Hx as [Hx|Hx]; apply in_or_app; [left; exact Hx | right; apply Hperm; exact Hx].
    + intros x Hx. rewrite reg_get_set_other; [apply Hnew; exact Hx|].
      intros ->. specialize (Hb _ (held_state_in p h Hin)). lia.
    + intros x Hx. rewrite reg_get_set_other; [apply Hidle; exact Hx|].
      intros ->. apply NoDup_remove_2 in Hnd'. apply Hnd'. apply in_or_app. left. exact Hx.
    + intros h' [<-|Hh'].
      * unfold holder_ok. cbn. split; [exact Est | apply reg_get_set_same].
      * destruct (drop_holder_in _ _ _ Hh') as [Hi' Hu'].
        pose proof (Hheld h' Hi') as Hok. unfold holder_ok in *. cbn [reg].
        assert (Hne : h_state h' <> h_state h).
        { intros E. apply NoDup_remove_2 in Hnd'. apply Hnd'. apply in_or_app. right. rewrite <- E. apply in_map. exact Hh'. }
        rewrite reg_get_set_other by exact Hne. exact Hok.
    + exact Hcalls.
  - (* OCall *)
    destruct (find_holder (held p) u) as [h|] eqn:Ef; [|constructor; assumption].
    destruct (find_holder_in _ _ _ Ef) as [Hin Hu].
    constructor; cbn [saved fresh reg held calls]; try assumption.
    apply Forall_app. split; [exact Hcalls|]. constructor; [|constructor].
    pose proof (Hheld h Hin) as Hok. unfold holder_ok in Hok. unfold call_ok. cbn.
    destruct (h_stored h); [exact (proj2 Hok) | exact Hok].
  - (* OExit *)
    destruct (find_holder (held p) u) as [h|] eqn:Ef; [|constructor; assumption].
    destruct (find_holder_in _ _ _ Ef) as [Hin Hu].
    set (r := if h_stored h && snd (fl (h_fn h)) then reg_del (reg p) (h_state h) else reg p).
    assert (Hrx : reg_get r (h_state h) = None).
    { unfold r. pose proof (Hheld h Hin) as Hok. unfold holder_ok in Hok. destruct (h_stored h); cbn.
      - rewrite (discipline _ (proj1 Hok)). apply reg_get_del_same.
      - exact Hok. }
    assert (Hry : forall y, y <> h_state h -> reg_get r y = reg_get (reg p) y).
    { intros y Hy. unfold r. destruct (h_stored h && snd (fl (h_fn h))); [apply reg_get_del_other; exact Hy | reflexivity]. }
    assert (Hsubset : forall y, In y ((saved p ++ [h_state h]) ++ map h_state (drop_holder (held p) u)) -> In y (states p)).
    { intros y Hy. unfold states. apply in_app_or in Hy as [Hy|Hy].
      - apply in_app_or in Hy as [Hy|[<-|[]]]; apply in_or_app; [left; exact Hy | right; apply in_map; exact Hin].
      - apply in_or_app. right. apply in_map_iff in Hy as [h' [<- Hh']]. apply in_map. exact (proj1 (drop_holder_in _ _ _ Hh')). }
    assert (Hnd' : NoDup ((saved p ++ [h_state h]) ++ map h_state (drop_holder (held p) u))).
    { unfold states in Hnd. clear -Hnd Hin Hu.
      pose proof (move_holder_nodup _ _ _ (nodup_app_r _ _ Hnd) Hin Hu) as Hsub.
      rewrite <- app_assoc. cbn [app].
      induction (saved p) as [|a l IH]; cbn in *; [exact Hsub|].
      inversion Hnd; subst. constructor; [|apply IH; assumption].
      intros Hx. apply H1. apply in_app_or in Hx as [Hx|Hx]; apply in_or_app; [left; exact Hx|].
      right. destruct Hx as [<-|Hx]; [apply in_map; exact Hin|].
      apply in_map_iff in Hx as [h' [<- Hh']]. apply in_map. exact (proj1 (drop_holder_in _ _ _ Hh')). }
    constructor; cbn [saved fresh reg held calls]; unfold states; cbn [saved held].
    + exact Hnd'.
    + intros x Hx. apply Hb. apply Hsubset. exact Hx.
    + intros x Hx. destruct (Nat.eq_dec x (h_state h)) as [->|Hne]; [exact Hrx|]. rewrite Hry by exact Hne. apply Hnew. exact Hx.
    + intros x Hx. apply in_app_or in Hx as [Hx|[<-|[]]]; [|exact Hrx].
      destruct (Nat.eq_dec x (h_state h)) as [->|Hne]; [exact Hrx|]. rewrite Hry by exact Hne. apply Hidle. exact Hx.
    + intros h' Hh'. destruct (drop_holder_in _ _ _ Hh') as [Hi' Hu'].
      pose proof (Hheld h' Hi') as Hok. unfold holder_ok in *. cbn [reg].
      assert (Hne : h_state h' <> h_state h).
      { intros E. rewrite <- app_assoc in Hnd'. cbn [app] in Hnd'. apply NoDup_remove_2 in Hnd'. apply Hnd'.
        apply in_or_app. right. rewrite <- E. apply in_map. exact Hh'. }
      rewrite Hry by exact Hne. exact Hok.
    + exact Hcalls.
  - (* OPrune *)
    constructor; cbn [saved fresh reg held calls]; unfold states in *; cbn [saved held]; try assumption.
    + apply NoDup_skipn. exact Hnd.
    + intros x Hx. apply Hb. apply in_app_or in Hx as [Hx|Hx]; apply in_or_app; [left; exact (in_skipn _ _ _ Hx) | right; exact Hx].
    + intros x Hx. apply Hidle. exact (in_skipn _ _ _ Hx).
Qed.

Theorem pinv_run n ops : PInv (prun fl (pinit n) ops).
Proof.
  unfold prun. generalize (pinv_init n). generalize (pinit n).
  induction ops as [|o ops IH]; intros p Hp; cbn [fold_left]; [exact Hp|].
  apply IH. apply pinv_step. exact Hp.
Qed.

Theorem idle_interpreters_have_no_mode n ops x :
  In x (saved (prun fl (pinit n) ops)) -> reg_get (reg (prun fl (pinit n) ops)) x = None.
Proof. apply (pi_idle _ (pinv_run n ops)). Qed.

Theorem calls_find_own_mode_or_none n ops c :
  In c (calls (prun fl (pinit n) ops)) ->
  if c_stored c then c_found c = Some (c_mode c) else c_found c = None.
Proof.
  intros H. pose proof (pi_calls _ (pinv_run n ops)) as Hc. rewrite Forall_forall in Hc. exact (Hc c H).
Qed.

End PoolProofs.

(* ---- the source, through Gen/LuaPool.v ---- *)

Lemma assoc_in' {A} (l : list (string * A)) k v : assoc l k = Some v -> In (k, v) l.
Proof.
  induction l as [|[k' v'] l IH]; cbn; [discriminate|].
  destruct (String.eqb_spec k' k) as [->|]; [intros H; inversion H; left; reflexivity | intros H; right; exact (IH H)].
Qed.

(* every user of the pool that registers a mode removes it on every way out (computed over the table) *)
Lemma source_discipline : forall fn, fst (user_flags fn) = true -> snd (user_flags fn) = true.
Proof.
  assert (H : forallb (fun pu => implb (fst (fst (snd pu))) (snd (fst (snd pu)))) pool_users = true) by (vm_compute; reflexivity).
  rewrite forallb_forall in H. intros fn. unfold user_flags.
  destruct (assoc pool_users fn) as [f|] eqn:E; [|discriminate].
  specialize (H _ (assoc_in' _ _ _ E)). cbn in H. intros Hs. rewrite Hs in H. exact H.
Qed.

(* only cmdEvalUnified registers a mode: every other user of the pool, and every other function, does not *)
Lemma only_eval_registers :
  evalcmd_store_fns = ["Server.cmdEvalUnified"] /\
  forallb (fun pu => implb (fst (fst (snd pu))) (String.eqb (fst pu) "Server.cmdEvalUnified")) pool_users = true /\
  forallb (fun fn => negb (fst (user_flags fn))) ["Server.parseSearchScanBaseTokens"; "Server.cmdScriptLoad"] = true /\
  existsb (fun pu => String.eqb (fst pu) "Server.parseSearchScanBaseTokens") pool_users = true.
Proof. vm_compute. repeat split. Qed.

(* an interpreter without a mode is refused by luaTile38Call *)
Lemma no_mode_is_refused : route None = None.
Proof. vm_compute. reflexivity. Qed.

Theorem source_idle_interpreters_have_no_mode n ops x :
  In x (saved (src_run (pinit n) ops)) -> reg_get (reg (src_run (pinit n) ops)) x = None.
Proof. apply (idle_interpreters_have_no_mode user_flags source_discipline). Qed.

(* a WHEREEVAL filter (or any request whose function has no Store) that calls tile38.call is refused;
   a script past its Store is routed by its OWN command word *)
Theorem source_calls_are_routed_by_own_mode n ops c :
  In c (calls (src_run (pinit n) ops)) ->
  (fst (user_flags (c_fn c)) = false -> route (c_found c) = None) /\
  (c_stored c = true -> c_found c = Some (c_mode c)) /\
  (c_stored c = false -> route (c_found c) = None).
Proof.
  intros H. pose proof (calls_find_own_mode_or_none user_flags source_discipline n ops c H) as Hc.
  assert (Hst : c_stored c = true -> fst (user_flags (c_fn c)) = true).
  { (* a call flagged stored was made by a holder past its Store: its function has one *)
    clear Hc. revert c H. unfold src_run, prun.
    assert (G : forall p, (forall h, In h (held p) -> h_stored h = true -> fst (user_flags (h_fn h)) = true) ->
                          (forall c, In c (calls p) -> c_stored c = true -> fst (user_flags (c_fn c)) = true) ->
                forall ops, let q := fold_left (pstep user_flags) ops p in
                          forall c, In c (calls q) -> c_stored c = true -> fst (user_flags (c_fn c)) = true).
    { intros p Hh Hc ops0. revert p Hh Hc. induction ops0 as [|o ops0 IH]; intros p Hh Hc; cbn [fold_left]; [exact Hc|].
      apply IH.
      - destruct o as [u fn mode|u|u|u|k]; cbn [pstep].
        + destruct (find_holder (held p) u); [exact Hh|].
          destruct (rev (saved p)); cbn; intros h [<-|Hi] Hs; try discriminate; exact (Hh h Hi Hs).
        + destruct (find_holder (held p) u) as [h0|] eqn:Ef; [|exact Hh].
          destruct (fst (user_flags (h_fn h0))) eqn:Es; [|exact Hh]. cbn.
          intros h [<-|Hi] Hs; [exact Es|]. exact (Hh h (proj1 (drop_holder_in _ _ _ Hi)) Hs).
        + destruct (find_holder (held p) u); exact Hh.
        + destruct (find_holder (held p) u) as [h1|]; [|exact Hh]. cbn. intros h Hi Hs. exact (Hh h (proj1 (drop_holder_in _ _ _ Hi)) Hs).
        + exact Hh.
      - destruct o as [u fn mode|u|u|u|k]; cbn [pstep].
        + destruct (find_holder (held p) u); [exact Hc|]. destruct (rev (saved p)); exact Hc.
        + destruct (find_holder (held p) u) as [h0|]; [|exact Hc]. destruct (fst (user_flags (h_fn h0))); exact Hc.
        + destruct (find_holder (held p) u) as [h0|] eqn:Ef; [|exact Hc]. cbn.
          intros c Hi Hs. apply in_app_or in Hi as [Hi|[<-|[]]]; [exact (Hc c Hi Hs)|].
          cbn in Hs |- *. exact (Hh h0 (proj1 (find_holder_in _ _ _ Ef)) Hs).
        + destruct (find_holder (held p) u); exact Hc.
        + exact Hc. }
    intros c Hc. apply (G (pinit n) (fun h (F : In h []) => match F with end) (fun c0 (F : In c0 []) => match F with end) ops c Hc). }
  split; [|split].
  - intros Hf. destruct (c_stored c) eqn:Es; [rewrite (Hst eq_refl) in Hf; discriminate|].
    rewrite Hc. exact no_mode_is_refused.
  - intros Hs. rewrite Hs in Hc. exact Hc.
  - intros Hs. rewrite Hs in Hc. rewrite Hc. exact no_mode_is_refused.
Qed.
