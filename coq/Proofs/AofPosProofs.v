(* The append discipline: with the position at the end and only flushes / position-neutral functions,
   the file is what it was plus the flushed bytes in order; a seek + read through the server's own
   descriptor that ends short of the end makes the next flush overwrite old bytes. And, over the table
   regenerated from the source, every use of Server.aof outside the audited set is neutral. *)
From Coq Require Import String List Bool Arith NArith Lia.
From T38 Require Import Base.Bytes Model.Resp Gen.AofPos Model.AofPos.
Import ListNotations.
Local Open Scope list_scope.
Local Open Scope nat_scope.

Lemma fd_write_at_end c b : fd_write (mkFd c (length c)) b = mkFd (c ++ b) (length c + length b).
Proof.
  unfold fd_write. cbn [f_content f_pos]. rewrite Nat.sub_diag. cbn [repeat]. rewrite app_nil_r.
  rewrite firstn_all. rewrite skipn_all2 by lia. rewrite app_nil_r. reflexivity.
Qed.

Lemma append_discipline ops : forall f,
  f_pos f = length (f_content f) -> forallb disciplined ops = true ->
  f_content (run_ops ops f) = (f_content f ++ flushed ops)%list /\
  f_pos (run_ops ops f) = length (f_content (run_ops ops f)).
Proof.
  induction ops as [|o ops IH]; intros f Hp Hd.
  - cbn. rewrite app_nil_r. split; [reflexivity|exact Hp].
  - cbn [forallb] in Hd. apply andb_true_iff in Hd. destruct Hd as [Ho Hd].
    cbn [run_ops fold_left]. fold (run_ops ops (step f o)).
    destruct o as [b| |p n]; [| |discriminate].
    + destruct f as [c p]. cbn [f_pos f_content] in Hp. subst p.
      cbn [step]. rewrite fd_write_at_end.
      destruct (IH (mkFd (c ++ b) (length c + length b))) as [H1 H2];
        [cbn; rewrite app_length; reflexivity | exact Hd |].
      split; [|exact H2]. rewrite H1. cbn [f_content]. unfold flushed. cbn [map concat].
      rewrite app_assoc. reflexivity.
    + cbn [step]. destruct (IH f Hp Hd) as [H1 H2]. split; [|exact H2].
      rewrite H1. unfold flushed. cbn [map concat]. reflexivity.
Qed.

(* the file written by flushing the records of a log one by one (with any number of neutral commands
   in between) from the empty file is the byte string the replay theorems call the log *)
Fixpoint flush_log (log : list (list bytes)) : list op :=
  match log with [] => [] | c :: l => ONeutral :: OFlush (enc c) :: flush_log l end.

Lemma flushed_flush_log log : flushed (flush_log log) = encs log.
Proof.
  induction log as [|c l IH]; [reflexivity|].
  cbn [flush_log]. unfold flushed in *. cbn [map concat]. rewrite IH. reflexivity.
Qed.

Lemma flush_log_disciplined log : forallb disciplined (flush_log log) = true.
Proof. induction log as [|c l IH]; [reflexivity|]. cbn. exact IH. Qed.

Lemma file_is_log log : f_content (run_ops (flush_log log) (mkFd [] 0)) = encs log.
Proof.
  destruct (append_discipline (flush_log log) (mkFd [] 0) eq_refl (flush_log_disciplined log)) as [H _].
  rewrite H. cbn [f_content app]. apply flushed_flush_log.
Qed.

(* the length of the file after a write inside it *)
Lemma fd_write_length f b : f_pos f <= length (f_content f) ->
  length (f_content (fd_write f b)) = Nat.max (length (f_content f)) (f_pos f + length b).
Proof.
  intros Hp. unfold fd_write. cbn [f_content].
  replace (f_pos f - length (f_content f)) with 0 by lia. cbn [repeat]. rewrite app_nil_r.
  rewrite !app_length, firstn_length, skipn_length. lia.
Qed.

(* A seek + read through the server's descriptor that ends short of the end of the file, then a flush
   of at least one byte: the file is NOT the old file plus the flushed bytes — it is shorter: old
   bytes were overwritten. Whatever the file, the block and the record. *)
Lemma seek_read_breaks_append f p n b :
  p + n < length (f_content f) -> b <> [] ->
  f_content (run_ops [OSeekRead p n; OFlush b] f) <> (f_content f ++ b)%list.
Proof.
  intros Hs Hb H. apply (f_equal (@length _)) in H.
  cbn [run_ops fold_left step] in H.
  rewrite fd_write_length in H by (cbn; lia). cbn [f_content f_pos] in H. rewrite app_length in H.
  destruct b as [|x b]; [congruence|]. cbn [length] in H. lia.
Qed.

(* ---------- the table ---------- *)
Lemma uses_audited : forallb use_ok aof_uses = true.
Proof. vm_compute. reflexivity. Qed.

Local Opaque aof_uses audited.

Lemma uses_audited_spec u : In u aof_uses ->
  use_neutral u = true \/ existsb (use_eqb (use_key u)) audited = true.
Proof.
  intros Hi. pose proof uses_audited as H. rewrite forallb_forall in H. specialize (H u Hi).
  unfold use_ok in H. apply orb_true_iff in H. exact H.
Qed.

Lemma audited_fn u : existsb (use_eqb (use_key u)) audited = true -> In (u_fn u) audited_functions.
Proof.
  intros H. apply existsb_exists in H. destruct H as [a [Ha He]].
  unfold use_eqb in He. apply andb_true_iff in He. destruct He as [He _]. apply andb_true_iff in He. destruct He as [He _].
  cbn [use_key u_fn fst] in He. apply String.eqb_eq in He. rewrite He.
  Local Transparent audited.
  unfold audited in Ha. cbn [In] in Ha.
  repeat (destruct Ha as [Ha|Ha]; [subst a; cbn [u_fn fst]; unfold audited_functions; cbn [In]; tauto|]). contradiction.
Qed.
Local Opaque audited.

(* every function outside the audited ones only makes position-neutral uses of the descriptor: it is
   an ONeutral step of the model. In particular every command handler (AOFMD5, AOF, SERVER, ...). *)
Lemma unaudited_functions_neutral fn : ~ In fn audited_functions -> fn_neutral fn = true.
Proof.
  intros Hn. unfold fn_neutral. apply forallb_forall. intros u Hu.
  unfold uses_of in Hu. apply filter_In in Hu. destruct Hu as [Hi Hf]. apply String.eqb_eq in Hf.
  destruct (uses_audited_spec u Hi) as [H|H]; [exact H|].
  exfalso. apply Hn. rewrite <- Hf. apply audited_fn. exact H.
Qed.

Local Transparent aof_uses audited.

(* the append is the only Write, and no open passes O_APPEND: the position is what makes it an append *)
Lemma only_flush_writes :
  filter (fun u => String.eqb (u_kind u) "call" && negb (existsb (String.eqb (u_detail u)) ["Name"; "Stat"; "Sync"; "Fd"; "Read"; "Seek"; "Truncate"; "Close"])) aof_uses
    = [("Server.flushAOF", "call", "Write")%string] /\
  some_open_with_o_append = false.
Proof. vm_compute. split; reflexivity. Qed.

(* non-vacuity: the readers of the log do touch the descriptor — for its name only *)
Lemma readers_use_name_only :
  uses_of "Server.checksum" = [("Server.checksum", "call", "Name")%string] /\
  uses_of "Server.liveAOF" = [("Server.liveAOF", "call", "Name")%string] /\
  fn_neutral "Server.cmdAOFMD5" = true /\ fn_neutral "Server.cmdAOF" = true.
Proof. vm_compute. repeat split. Qed.
