(* Proofs/RoamProofs.v — lemmas about Model/Roam.v (C20). *)
From Coq Require Import List NArith ZArith Bool Arith Lia Permutation Sorting.Sorted Relations.
From Coq Require Import ZifyN ZifyNat ZifyBool.
From T38 Require Import Base.Bytes Model.Glob Model.Roam.
Import ListNotations.
Local Open Scope nat_scope.

Arguments o_id {G}. Arguments o_geo {G}. Arguments Build_robj {G}.
Arguments m_id {G}. Arguments m_geo {G}. Arguments m_meters {G}. Arguments Build_rmatch {G}.
Arguments RoamDone {G}. Arguments RoamFuel {G}.

(* ---------- generic list facts ---------- *)

Lemma NoDup_map_inj {A B} (f : A -> B) l a b :
  NoDup (map f l) -> In a l -> In b l -> f a = f b -> a = b.
Proof.
  induction l as [|x l IH]; cbn [map In]; intros Hnd Ha Hb Hab; [contradiction|].
  inversion Hnd as [|? ? Hnx Hnd']; subst.
  destruct Ha as [->|Ha], Hb as [->|Hb]; auto.
  - exfalso. apply Hnx. rewrite Hab. now apply in_map.
  - exfalso. apply Hnx. rewrite <- Hab. now apply in_map.
Qed.

Lemma nth_error_split_len {A} (l : list A) i a :
  nth_error l i = Some a -> exists l1 l2, l = l1 ++ a :: l2 /\ length l1 = i.
Proof. intro H. destruct (nth_error_split l i H) as (l1 & l2 & ? & ?). eauto. Qed.

Lemma nth_error_last {A} (l1 : list A) z : nth_error (l1 ++ [z]) (length (l1 ++ [z]) - 1) = Some z.
Proof.
  rewrite app_length. cbn [length]. replace (length l1 + 1 - 1) with (length l1 + 0) by lia.
  rewrite nth_error_app2 by lia. replace (length l1 + 0 - length l1) with 0 by lia. reflexivity.
Qed.

(* what the swap-remove does, by position *)
Lemma swap_remove_shape {A} (l : list A) i a :
  nth_error l i = Some a ->
  exists l1 l2, l = l1 ++ a :: l2 /\ length l1 = i /\
    ((l2 = [] /\ swap_remove i l = l1) \/
     (exists l2' z, l2 = l2' ++ [z] /\ swap_remove i l = l1 ++ z :: l2')).
Proof.
  intro H. destruct (nth_error_split_len l i a H) as (l1 & l2 & -> & Hlen).
  exists l1, l2. split; [reflexivity|]. split; [assumption|].
  destruct (exists_last (l := a :: l2)) as (m & z & Hm); [discriminate|].
  unfold swap_remove.
  assert (Hlast : nth_error (l1 ++ a :: l2) (length (l1 ++ a :: l2) - 1) = Some z).
  { rewrite Hm. rewrite app_assoc. apply nth_error_last. }
  rewrite Hlast. unfold set_nth.
  rewrite <- Hlen.
  rewrite firstn_app, firstn_all, Nat.sub_diag. cbn [firstn]. rewrite app_nil_r.
  replace (skipn (S (length l1)) (l1 ++ a :: l2)) with l2.
  2:{ replace (S (length l1)) with (length (l1 ++ [a])) by (rewrite app_length; cbn; lia).
      replace (l1 ++ a :: l2) with ((l1 ++ [a]) ++ l2) by (rewrite <- app_assoc; reflexivity).
      rewrite skipn_app, skipn_all, Nat.sub_diag. reflexivity. }
  destruct (exists_last (l := z :: l2)) as (m2 & z2 & Hm2); [discriminate|].
  destruct l2 as [|b l2].
  - left. split; [reflexivity|].
    replace (l1 ++ [z]) with (l1 ++ [z]) by reflexivity. apply removelast_last.
  - right.
    destruct (exists_last (l := b :: l2)) as (l2' & z' & Hl2); [discriminate|].
    assert (z' = z).
    { rewrite Hl2 in Hm. change (a :: l2' ++ [z']) with ((a :: l2') ++ [z']) in Hm.
      apply app_inj_tail in Hm. tauto. }
    subst z'. exists l2', z. split; [assumption|].
    rewrite Hl2. replace (l1 ++ z :: l2' ++ [z]) with ((l1 ++ z :: l2') ++ [z]).
    + apply removelast_last.
    + rewrite <- app_assoc. reflexivity.
Qed.

Lemma swap_remove_perm {A} (l : list A) i a :
  nth_error l i = Some a -> Permutation l (a :: swap_remove i l).
Proof.
  intro H. destruct (swap_remove_shape l i a H) as (l1 & l2 & E & _ & [[E2 E3]|(l2' & z & E2 & E3)]);
    rewrite E3; subst l l2.
  - apply (Permutation_app_comm l1 [a]).
  - apply Permutation_sym, Permutation_cons_app. apply Permutation_app_head.
    apply (Permutation_app_comm [z] l2').
Qed.

Lemma swap_remove_firstn {A} (l : list A) i a :
  nth_error l i = Some a -> firstn i (swap_remove i l) = firstn i l.
Proof.
  intro H. destruct (swap_remove_shape l i a H) as (l1 & l2 & E & Hlen & [[E2 E3]|(l2' & z & E2 & E3)]);
    rewrite E3; subst l l2 i; rewrite ?firstn_app, ?firstn_all, ?Nat.sub_diag; cbn [firstn]; rewrite ?app_nil_r; reflexivity.
Qed.

Lemma swap_remove_length {A} (l : list A) i a :
  nth_error l i = Some a -> length l = S (length (swap_remove i l)).
Proof. intro H. apply (Permutation_length (swap_remove_perm l i a H)). Qed.

(* ---------- metres rounding and the SCAN member ---------- *)

Lemma round_mm_spec d : (0 <= d)%Z ->
  (0 <= round_mm d /\ 1000 * round_mm d <= d < 1000 * round_mm d + 1000)%Z.
Proof. unfold round_mm. intro H. split; [apply Z.div_pos; lia|]. pose proof (Z.div_mod d 1000). pose proof (Z.mod_pos_bound d 1000). lia. Qed.

Lemma round_mm_mono a b : (a <= b)%Z -> (round_mm a <= round_mm b)%Z.
Proof. unfold round_mm. intro H. apply Z.div_le_mono; lia. Qed.

Lemma scan_ids_spec ids mid scan s i :
  In (s, i) (scan_ids ids mid scan) <->
  (s = true /\ i = mid /\ In mid ids) \/
  (s = false /\ In i ids /\ i <> mid /\ glob_match (mid ++ scan) i = WTrue).
Proof.
  unfold scan_ids. rewrite in_app_iff, in_map_iff. split.
  - intros [H|(j & E & Hj)].
    + left. destruct (existsb (bytes_eqb mid) ids) eqn:Ex; [|destruct H].
      destruct H as [E|[]]. inversion E; subst. split; [reflexivity|]. split; [reflexivity|].
      apply existsb_exists in Ex. destruct Ex as (x & Hx & Hm). apply bytes_eqb_eq in Hm. now subst.
    + right. inversion E; subst. apply filter_In in Hj. destruct Hj as [Hin Hb].
      apply andb_true_iff in Hb. destruct Hb as [Hne Hg]. split; [reflexivity|]. split; [assumption|]. split.
      * intro Eq. subst. rewrite bytes_eqb_refl in Hne. discriminate.
      * destruct (glob_match (mid ++ scan) i); congruence.
  - intros [(-> & -> & Hin)|(-> & Hin & Hne & Hg)].
    + left. assert (existsb (bytes_eqb mid) ids = true) as ->; [|now left].
      apply existsb_exists. exists mid. split; [assumption|apply bytes_eqb_refl].
    + right. exists i. split; [reflexivity|]. apply filter_In. split; [assumption|].
      rewrite Hg. rewrite andb_true_r. apply negb_true_iff.
      destruct (bytes_eqb i mid) eqn:E; [|reflexivity]. apply bytes_eqb_eq in E. contradiction.
Qed.

Section RoamProofs.
  Variable G : Type.
  Variable dist : G -> G -> Z.
  Variable in_rect : G -> Z -> G -> bool.

  Notation robj := (robj G).
  Notation rmatch := (rmatch G).
  Notation visit := (visit G dist).
  Notation nearbys := (nearbys G dist in_rect).
  Notation find_id := (find_id G).
  Notation dwell_loop := (dwell_loop G).
  Notation roam_less := (roam_less G).
  Notation insert_match := (insert_match G).
  Notation sort_matches := (sort_matches G).
  Notation remeasure := (remeasure G dist).
  Notation fence_match_roam := (fence_match_roam G dist in_rect).

  Definition ids (l : list rmatch) : list bytes := map m_id l.

  (* ---------- fenceMatchNearbys ---------- *)

  Definition candidate (sw : roamsw) (ob o : robj) : Prop :=
    o_id o <> o_id ob /\ (dist (o_geo ob) (o_geo o) <= rs_meters sw)%Z /\ id_match sw (o_id o) = true.

  Definition match_of (ob o : robj) : rmatch :=
    {| m_id := o_id o; m_geo := o_geo o; m_meters := dist (o_geo ob) (o_geo o) |}.

  Lemma visit_spec sw ob acc o :
    (candidate sw ob o /\ visit sw ob acc o = acc ++ [match_of ob o]) \/
    (~ candidate sw ob o /\ visit sw ob acc o = acc).
  Proof.
    unfold visit, candidate.
    destruct (bytes_eqb (o_id o) (o_id ob)) eqn:He.
    - right. apply bytes_eqb_eq in He. split; [tauto|reflexivity].
    - assert (o_id o <> o_id ob) by (intro E; apply bytes_eqb_eq in E; congruence).
      destruct (Z.gtb_spec (dist (o_geo ob) (o_geo o)) (rs_meters sw)).
      + right. split; [lia|reflexivity].
      + destruct (id_match sw (o_id o)); cbn [negb].
        * left. split; [repeat split; auto; lia|reflexivity].
        * right. split; [intros (_ & _ & ?); discriminate|reflexivity].
  Qed.

  Lemma fold_visit_In sw ob l : forall acc m,
    In m (fold_left (visit sw ob) l acc) <->
    In m acc \/ exists o, In o l /\ candidate sw ob o /\ m = match_of ob o.
  Proof.
    induction l as [|o l IH]; intros acc m; cbn [fold_left].
    - split; [auto|]. intros [?|(? & [] & _)]; assumption.
    - rewrite IH. destruct (visit_spec sw ob acc o) as [[Hc ->]|[Hc ->]].
      + rewrite in_app_iff. split.
        * intros [[?|[<-|[]]]|(o' & ? & ? & ?)].
          -- left; assumption.
          -- right. exists o. split; [left; reflexivity|]. split; [assumption|reflexivity].
          -- right. exists o'. split; [right; assumption|]. split; assumption.
        * intros [?|(o' & [->|?] & ? & ->)].
          -- left; left; assumption.
          -- left; right; left; reflexivity.
          -- right. exists o'. split; [assumption|]. split; [assumption|reflexivity].
      + split.
        * intros [?|(o' & ? & ? & ?)].
          -- left; assumption.
          -- right. exists o'. split; [right; assumption|]. split; assumption.
        * intros [?|(o' & [->|?] & ? & ->)].
          -- left; assumption.
          -- contradiction.
          -- right. exists o'. split; [assumption|]. split; [assumption|reflexivity].
  Qed.

  Lemma fold_visit_ids sw ob l : forall acc,
    exists t, fold_left (visit sw ob) l acc = acc ++ t /\
              (forall i, In i (ids t) -> In i (map o_id l)) /\
              (NoDup (map o_id l) -> NoDup (ids t)).
  Proof.
    induction l as [|o l IH]; intros acc; cbn [fold_left].
    - exists []. rewrite app_nil_r. split; [reflexivity|]. split; [intros i []|intros _; constructor].
    - destruct (IH (visit sw ob acc o)) as (t & -> & Hsub & Hnd).
      destruct (visit_spec sw ob acc o) as [[Hc ->]|[Hc ->]].
      + exists (match_of ob o :: t). rewrite <- app_assoc. split; [reflexivity|]. split.
        * cbn. intros i [<-|Hi]; auto.
        * cbn. intro H. inversion H; subst. constructor; auto.
      + exists t. split; [reflexivity|]. split.
        * cbn. intros i Hi; auto.
        * cbn. intro H. inversion H; subst. auto.
  Qed.

  Lemma nearbys_In col sw ob m :
    In m (nearbys col sw (Some ob)) <->
    exists o, In o col /\ in_rect (o_geo ob) (rs_meters sw) (o_geo o) = true /\
              candidate sw ob o /\ m = match_of ob o.
  Proof.
    unfold Roam.nearbys. rewrite fold_visit_In. cbn [In]. split.
    - intros [[]|(o & Ho & Hc & ->)]. apply filter_In in Ho. destruct Ho. eauto 7.
    - intros (o & Ho & Hr & Hc & ->). right. exists o. rewrite filter_In. auto.
  Qed.

  Lemma NoDup_map_filter {A B} (f : A -> B) p (l : list A) : NoDup (map f l) -> NoDup (map f (filter p l)).
  Proof.
    induction l as [|x l IH]; cbn; intro H; [constructor|]. inversion H; subst.
    destruct (p x); cbn; auto. constructor; auto.
    intro Hin. apply in_map_iff in Hin. destruct Hin as (y & Hy & Hin). apply filter_In in Hin.
    apply H2. rewrite <- Hy. apply in_map. tauto.
  Qed.

  Lemma nearbys_NoDup col sw obj : NoDup (map o_id col) -> NoDup (ids (nearbys col sw obj)).
  Proof.
    intro H. destruct obj as [ob|]; [|constructor]. unfold Roam.nearbys.
    destruct (fold_visit_ids sw ob (filter (fun o => in_rect (o_geo ob) (rs_meters sw) (o_geo o)) col) [])
      as (t & -> & _ & Hnd). cbn [app]. apply Hnd. now apply NoDup_map_filter.
  Qed.

  (* ---------- the dwell loop ---------- *)

  Lemma find_id_spec i l : forall j0,
    match find_id i l j0 with
    | Some j => exists m, (j0 <= j)%nat /\ nth_error l (j - j0) = Some m /\ m_id m = i
    | None => ~ In i (ids l)
    end.
  Proof.
    induction l as [|m l IH]; intro j0; cbn [Roam.find_id].
    - intros [].
    - destruct (bytes_eqb (m_id m) i) eqn:He.
      + apply bytes_eqb_eq in He. exists m. rewrite Nat.sub_diag. auto.
      + specialize (IH (S j0)). destruct (find_id i l (S j0)) as [j|].
        * destruct IH as (m' & Hle & Hn & Hi). exists m'. split; [lia|]. split; [|assumption].
          replace (j - j0)%nat with (S (j - S j0)) by lia. exact Hn.
        * cbn. intros [E|Hin]; [|auto]. rewrite <- E in He. rewrite bytes_eqb_refl in He. discriminate.
  Qed.

  Section Loop.
    Variable nodwell : bool.
    Variables O N : list rmatch.

    Record inv (i : nat) (oldN newN : list rmatch) : Prop := {
      inv_nd_old : NoDup (ids oldN);
      inv_nd_new : NoDup (ids newN);
      inv_incl_old : incl oldN O;
      inv_incl_new : incl newN N;
      inv_keep : forall x, In x O -> ~ In (m_id x) (ids N) -> In x oldN;
      inv_done : forall x, In x (firstn i oldN) -> ~ In (m_id x) (ids N);
      inv_dwell : nodwell = false -> newN = N;
      inv_gone_new : forall y, In y N -> In y newN \/ (In (m_id y) (ids O) /\ ~ In (m_id y) (ids oldN));
      inv_gone_old : nodwell = true -> forall x, In x O -> In x oldN \/ ~ In (m_id x) (ids newN)
    }.

    Lemma inv_init : NoDup (ids O) -> NoDup (ids N) -> inv 0 O N.
    Proof.
      intros HO HN. constructor; auto using incl_refl.
    Qed.

    Lemma ids_perm_cons l a l' : Permutation l (a :: l') -> Permutation (ids l) (m_id a :: ids l').
    Proof. intro H. apply (Permutation_map m_id) in H. exact H. Qed.

    Lemma loop_spec : forall fuel i oldN newN,
      inv i oldN newN -> (length oldN - i < fuel)%nat ->
      exists far near, dwell_loop fuel nodwell i oldN newN = Some (far, near) /\
                       inv (length far) far near.
    Proof.
      induction fuel as [|fuel IH]; intros i oldN newN Hinv Hf; [lia|].
      cbn [Roam.dwell_loop].
      destruct (nth_error oldN i) as [oi|] eqn:Hoi.
      2:{ exists oldN, newN. split; [reflexivity|].
          apply nth_error_None in Hoi.
          destruct Hinv. constructor; auto.
          rewrite firstn_all. rewrite firstn_all2 in inv_done0 by assumption. assumption. }
      pose proof (find_id_spec (m_id oi) newN 0) as Hfind.
      assert (Hoi_in : In oi oldN) by (eapply nth_error_In; eauto).
      destruct (find_id (m_id oi) newN 0) as [j|].
      - (* dwelling: remove from the old list (and from the new list under NODWELL) *)
        destruct Hfind as (nj & _ & Hnj & Hid). rewrite Nat.sub_0_r in Hnj.
        assert (Hnj_in : In nj newN) by (eapply nth_error_In; eauto).
        pose proof (swap_remove_perm oldN i oi Hoi) as Hpo.
        pose proof (ids_perm_cons _ _ _ Hpo) as Hpoi.
        assert (Hndo : NoDup (m_id oi :: ids (swap_remove i oldN))).
        { eapply Permutation_NoDup; [exact Hpoi|]. apply Hinv. }
        assert (Hsubo : forall x, In x (swap_remove i oldN) -> In x oldN).
        { intros x Hx. eapply Permutation_in; [symmetry; exact Hpo|]. now right. }
        assert (Hsplito : forall x, In x oldN -> x = oi \/ In x (swap_remove i oldN)).
        { intros x Hx. apply (Permutation_in _ Hpo) in Hx. destruct Hx; auto. }
        assert (Hidso : forall k, In k (ids (swap_remove i oldN)) -> In k (ids oldN)).
        { intros k Hk. eapply Permutation_in; [symmetry; exact Hpoi|]. now right. }
        apply IH.
        2:{ assert (i < length oldN)%nat by (apply nth_error_Some; congruence).
            rewrite (swap_remove_length oldN i oi Hoi) in *. lia. }
        destruct Hinv. constructor.
        + now inversion Hndo.
        + destruct nodwell; [|assumption].
          pose proof (ids_perm_cons _ _ _ (swap_remove_perm newN j nj Hnj)) as Hp.
          apply (Permutation_NoDup Hp) in inv_nd_new0. now inversion inv_nd_new0.
        + intros x Hx. apply inv_incl_old0. auto.
        + destruct nodwell; [|assumption]. intros y Hy. apply inv_incl_new0.
          eapply Permutation_in; [symmetry; apply (swap_remove_perm newN j nj Hnj)|]. now right.
        + intros x Hx Hn. destruct (Hsplito x (inv_keep0 x Hx Hn)) as [->|]; [|assumption].
          exfalso. apply Hn. rewrite <- Hid. apply in_map. apply inv_incl_new0. assumption.
        + rewrite (swap_remove_firstn oldN i oi Hoi). assumption.
        + intro Hd. rewrite Hd. auto.
        + intros y Hy.
          assert (Hgone : In (m_id oi) (ids O) /\ ~ In (m_id oi) (ids (swap_remove i oldN))).
          { split; [apply in_map; apply inv_incl_old0; assumption|]. now inversion Hndo. }
          destruct (inv_gone_new0 y Hy) as [Hin|[H1 H2]].
          * destruct nodwell; [|auto].
            apply (Permutation_in _ (swap_remove_perm newN j nj Hnj)) in Hin.
            destruct Hin as [<-|Hin]; [|auto]. right. rewrite Hid. exact Hgone.
          * right. split; [assumption|]. intro Hk. apply H2. auto.
        + intros Hd x Hx. rewrite Hd.
          pose proof (ids_perm_cons _ _ _ (swap_remove_perm newN j nj Hnj)) as Hp.
          assert (Hndn : NoDup (m_id nj :: ids (swap_remove j newN))).
          { eapply Permutation_NoDup; [exact Hp|]. assumption. }
          destruct (inv_gone_old0 Hd x Hx) as [Hin|Hn].
          * destruct (Hsplito x Hin) as [->|]; [|auto]. right. rewrite <- Hid. now inversion Hndn.
          * right. intro Hk. apply Hn. eapply Permutation_in; [symmetry; exact Hp|]. now right.
      - (* no match: keep, advance *)
        apply IH; [|assert (i < length oldN)%nat by (apply nth_error_Some; congruence); lia].
        destruct Hinv. constructor; auto.
        intros x Hx.
        assert (Hfs : firstn (S i) oldN = firstn i oldN ++ [oi]).
        { destruct (nth_error_split_len oldN i oi Hoi) as (l1 & l2 & -> & <-).
          rewrite !firstn_app, !firstn_all, !Nat.sub_diag.
          replace (S (length l1) - length l1)%nat with 1%nat by lia.
          rewrite firstn_all2 by lia. cbn. rewrite app_nil_r. reflexivity. }
        rewrite Hfs in Hx. apply in_app_iff in Hx. destruct Hx as [Hx|[<-|[]]]; [auto|].
        intro Hk. apply in_map_iff in Hk. destruct Hk as (y & Hy & Hyin).
        destruct (inv_gone_new0 y Hyin) as [Hin|[_ Hn]].
        + apply Hfind. rewrite <- Hy. now apply in_map.
        + apply Hn. rewrite Hy. now apply in_map.
    Qed.
  End Loop.

  (* ---------- sortRoamMatches ---------- *)

  Definition lex_le (a b : rmatch) : Prop :=
    (m_meters a < m_meters b)%Z \/ (m_meters a = m_meters b /\ bytes_leb (m_id a) (m_id b) = true).

  Lemma roam_less_false a b : roam_less b a = false -> lex_le a b.
  Proof.
    unfold Roam.roam_less, lex_le.
    destruct (Z.ltb_spec (m_meters b) (m_meters a)); [discriminate|].
    destruct (Z.gtb_spec (m_meters b) (m_meters a)); [intros _; left; lia|].
    intro Hlt. right. split; [lia|].
    unfold bytes_ltb in Hlt. unfold bytes_leb. rewrite (bytes_cmp_antisym (m_id a) (m_id b)) in Hlt.
    destruct (bytes_cmp (m_id a) (m_id b)); cbn in *; congruence.
  Qed.

  Lemma roam_less_true a b : roam_less a b = true -> lex_le a b.
  Proof.
    unfold Roam.roam_less, lex_le.
    destruct (Z.ltb_spec (m_meters a) (m_meters b)); [intros _; left; assumption|].
    destruct (Z.gtb_spec (m_meters a) (m_meters b)); [discriminate|].
    intro Hlt. right. split; [lia|]. now apply bytes_ltb_leb.
  Qed.

  Lemma lex_le_trans a b c : lex_le a b -> lex_le b c -> lex_le a c.
  Proof.
    unfold lex_le. intros [H1|[H1 L1]] [H2|[H2 L2]]; try (left; lia).
    right. split; [lia|]. eapply bytes_leb_trans; eauto.
  Qed.

  Lemma insert_perm x l : Permutation (insert_match x l) (x :: l).
  Proof.
    induction l as [|y t IH]; cbn [Roam.insert_match]; [reflexivity|].
    destruct (roam_less y x); [|reflexivity].
    rewrite IH. apply perm_swap.
  Qed.

  Lemma sort_perm l : Permutation (sort_matches l) l.
  Proof.
    induction l as [|x l IH]; cbn; [constructor|].
    change (Permutation (insert_match x (sort_matches l)) (x :: l)).
    rewrite insert_perm. now constructor.
  Qed.

  Lemma insert_hdrel y x t : lex_le y x -> HdRel lex_le y t -> HdRel lex_le y (insert_match x t).
  Proof.
    intros Hyx Ht. destruct t as [|z t]; cbn [Roam.insert_match]; [constructor; assumption|].
    destruct (roam_less z x); constructor; [|assumption]. now inversion Ht.
  Qed.

  Lemma insert_sorted x l : Sorted lex_le l -> Sorted lex_le (insert_match x l).
  Proof.
    induction l as [|y t IH]; intro Hs; cbn [Roam.insert_match].
    - repeat constructor.
    - inversion Hs as [|? ? Hst Hhd]; subst.
      destruct (roam_less y x) eqn:E.
      + constructor; [auto|]. apply insert_hdrel; [now apply roam_less_true|assumption].
      + constructor; [assumption|]. constructor. now apply roam_less_false.
  Qed.

  Lemma sort_sorted l : StronglySorted lex_le (sort_matches l).
  Proof.
    apply Sorted_StronglySorted; [intros a b c; apply lex_le_trans|].
    induction l as [|x l IH]; cbn; [constructor|].
    change (Sorted lex_le (insert_match x (sort_matches l))). now apply insert_sorted.
  Qed.

  Lemma sort_In l m : In m (sort_matches l) <-> In m l.
  Proof. split; apply Permutation_in; [apply sort_perm|symmetry; apply sort_perm]. Qed.

  Lemma sort_NoDup l : NoDup (ids l) -> NoDup (ids (sort_matches l)).
  Proof.
    intro H. eapply Permutation_NoDup; [|exact H]. unfold ids. apply Permutation_map.
    symmetry. apply sort_perm.
  Qed.

  (* ---------- fenceMatchRoam ---------- *)

  Lemma roam_result col sw obj old :
    NoDup (map o_id col) ->
    let O := nearbys col sw old in
    let N := nearbys col sw (Some obj) in
    exists far near,
      fence_match_roam col sw obj old = RoamDone (sort_matches near) (sort_matches (map (remeasure obj) far)) /\
      (forall x, In x far <-> In x O /\ ~ In (m_id x) (ids N)) /\
      (forall y, In y near <-> In y N /\ (rs_nodwell sw = true -> ~ In (m_id y) (ids O))) /\
      NoDup (ids far) /\ NoDup (ids near).
  Proof.
    intros Hnd O N.
    assert (HO : NoDup (ids O)) by (apply nearbys_NoDup; assumption).
    assert (HN : NoDup (ids N)) by (apply nearbys_NoDup; assumption).
    destruct (loop_spec (rs_nodwell sw) O N (S (length O)) 0 O N (inv_init _ O N HO HN)) as (far & near & Hl & Hinv);
      [lia|].
    exists far, near. unfold Roam.fence_match_roam. fold O. fold N. rewrite Hl.
    split; [reflexivity|].
    destruct Hinv. rewrite firstn_all in inv_done0.
    split; [|split; [|split; assumption]].
    - intro x. split.
      + intro Hx. split; [apply inv_incl_old0; assumption|apply inv_done0; assumption].
      + intros [Hx Hn]. apply inv_keep0; assumption.
    - intro y. split.
      + intro Hy. split; [apply inv_incl_new0; assumption|].
        intros Hd Hin. apply in_map_iff in Hin. destruct Hin as (x & Hid & Hx).
        destruct (inv_gone_old0 Hd x Hx) as [Hf|Hn].
        * apply (inv_done0 x Hf). rewrite Hid. apply in_map. apply inv_incl_new0. assumption.
        * apply Hn. rewrite Hid. now apply in_map.
      + intros [Hy Hd]. destruct (rs_nodwell sw) eqn:E.
        * destruct (inv_gone_new0 y Hy) as [?|[Hin _]]; [assumption|]. exfalso. now apply Hd.
        * now rewrite inv_dwell0.
  Qed.

  Theorem roam_total col sw obj old :
    NoDup (map o_id col) -> exists near far, fence_match_roam col sw obj old = RoamDone near far.
  Proof. intro H. destruct (roam_result col sw obj old H) as (far & near & E & _). eauto. Qed.

  Theorem roam_sorted col sw obj old near far :
    NoDup (map o_id col) ->
    fence_match_roam col sw obj old = RoamDone near far ->
    StronglySorted lex_le near /\ StronglySorted lex_le far /\ NoDup (ids near) /\ NoDup (ids far).
  Proof.
    intros Hnd Hres.
    destruct (roam_result col sw obj old Hnd) as (far0 & near0 & E & _ & _ & Hnf & Hnn).
    rewrite Hres in E. injection E as -> ->.
    repeat split; try apply sort_sorted; apply sort_NoDup; [assumption|].
    unfold ids. rewrite map_map. cbn [Roam.remeasure m_id]. exact Hnf.
  Qed.
  (* the search rectangle contains the circle: every object within the radius is visited.
     geo.RectFromCenter collapses to the centre point for radii below about 0.28 m (cos r rounds
     to 1), so the hypothesis is only asked for radii from rmin upwards (known finding C20-tiny-radius) *)
  Variable rmin : Z.
  Hypothesis Hr : forall c r o, (rmin <= r)%Z -> (dist c o <= r)%Z -> in_rect c r o = true.

  Lemma nearbys_In_r col sw ob m :
    (rmin <= rs_meters sw)%Z ->
    (In m (nearbys col sw (Some ob)) <-> exists o, In o col /\ candidate sw ob o /\ m = match_of ob o).
  Proof.
    intro Hmin. rewrite nearbys_In. split.
    - intros (o & ? & _ & ? & ?). eauto.
    - intros (o & ? & Hc & ?). exists o. repeat split; auto; try apply Hc. apply Hr; [assumption|apply Hc].
  Qed.

  Lemma nearbys_id_iff col sw ob o :
    (rmin <= rs_meters sw)%Z ->
    NoDup (map o_id col) -> In o col ->
    (In (o_id o) (ids (nearbys col sw (Some ob))) <-> candidate sw ob o).
  Proof.
    intros Hmin Hnd Ho. split.
    - intro Hin. apply in_map_iff in Hin. destruct Hin as (m & Hid & Hm).
      apply nearbys_In_r in Hm; [|assumption]. destruct Hm as (o' & Ho' & Hc & ->). cbn in Hid.
      now rewrite <- (NoDup_map_inj o_id col o' o Hnd Ho' Ho Hid).
    - intro Hc. apply in_map_iff. exists (match_of ob o). split; [reflexivity|].
      apply nearbys_In_r; [assumption|]. eauto.
  Qed.

  Definition same_id (obj : robj) (old : option robj) : Prop :=
    forall ob, old = Some ob -> o_id ob = o_id obj.

  Theorem roam_nearby_exact col sw obj old near far :
    (rmin <= rs_meters sw)%Z ->
    NoDup (map o_id col) -> same_id obj old ->
    fence_match_roam col sw obj old = RoamDone near far ->
    forall m, In m near <->
      exists o, In o col /\
        (o_id o <> o_id obj /\ (dist (o_geo obj) (o_geo o) <= rs_meters sw)%Z /\ id_match sw (o_id o) = true) /\
        (rs_nodwell sw = true -> forall ob, old = Some ob -> ~ (dist (o_geo ob) (o_geo o) <= rs_meters sw)%Z) /\
        m = {| m_id := o_id o; m_geo := o_geo o; m_meters := dist (o_geo obj) (o_geo o) |}.
  Proof.
    intros Hmin Hnd Hsame Hres m.
    destruct (roam_result col sw obj old Hnd) as (far0 & near0 & E & _ & Hnear & _).
    rewrite Hres in E. injection E as -> _. rewrite sort_In, Hnear, (nearbys_In_r col sw obj m Hmin). split.
    - intros [(o & Ho & Hc & ->) Hd]. exists o. split; [assumption|]. split; [exact Hc|]. split; [|reflexivity].
      intros Hnod ob -> Hle. apply (Hd Hnod). cbn [match_of m_id].
      apply nearbys_id_iff; [assumption|assumption|assumption|].
      destruct Hc as (Hne & _ & Him). repeat split; [|assumption|assumption].
      rewrite (Hsame ob eq_refl). assumption.
    - intros (o & Ho & Hc & Hd & ->). split; [exists o; auto|].
      intros Hnod Hin. cbn [m_id] in Hin. destruct old as [ob|]; [|exact Hin].
      apply nearbys_id_iff in Hin; [|assumption|assumption|assumption].
      apply (Hd Hnod ob eq_refl). apply Hin.
  Qed.

  Theorem roam_faraway_exact col sw obj old near far :
    (rmin <= rs_meters sw)%Z ->
    NoDup (map o_id col) -> same_id obj old ->
    fence_match_roam col sw obj old = RoamDone near far ->
    forall m, In m far <->
      exists o ob, old = Some ob /\ In o col /\
        (o_id o <> o_id obj /\ (dist (o_geo ob) (o_geo o) <= rs_meters sw)%Z /\ id_match sw (o_id o) = true) /\
        ~ (dist (o_geo obj) (o_geo o) <= rs_meters sw)%Z /\
        m = {| m_id := o_id o; m_geo := o_geo o; m_meters := dist (o_geo o) (o_geo obj) |}.
  Proof.
    intros Hmin Hnd Hsame Hres m.
    destruct (roam_result col sw obj old Hnd) as (far0 & near0 & E & Hfar & _ & _).
    rewrite Hres in E. injection E as _ ->. rewrite sort_In, in_map_iff. split.
    - intros (x & <- & Hx). apply Hfar in Hx. destruct Hx as [Hx Hn].
      destruct old as [ob|]; [|destruct Hx].
      apply nearbys_In_r in Hx; [|assumption]. destruct Hx as (o & Ho & Hc & ->).
      exists o, ob. split; [reflexivity|]. split; [assumption|].
      pose proof (Hsame ob eq_refl) as Hid. destruct Hc as (Hne & Hle & Him).
      split; [repeat split; try assumption; now rewrite <- Hid|]. split; [|reflexivity].
      intro Hle'. apply Hn. cbn [match_of m_id]. apply nearbys_id_iff; [assumption|assumption|assumption|].
      repeat split; try assumption. now rewrite <- Hid.
    - intros (o & ob & -> & Ho & (Hne & Hle & Him) & Hn & ->).
      pose proof (Hsame ob eq_refl) as Hid.
      exists (match_of ob o). split; [reflexivity|]. apply Hfar. split.
      + apply nearbys_In_r; [assumption|]. exists o. split; [assumption|]. split; [|reflexivity].
        repeat split; try assumption. now rewrite Hid.
      + cbn [match_of m_id]. intro Hin. apply nearbys_id_iff in Hin; [|assumption|assumption|assumption].
        apply Hn. apply Hin.
  Qed.

End RoamProofs.

(* ---------- a concrete instance: the plane with squared distances ---------- *)
(* Used for the non-vacuity examples of Props/C20.v and for the refutation of the pinned code. *)
Module Plane.
  Definition P : Type := (Z * Z)%type.
  Definition sq (x : Z) : Z := (x * x)%Z.
  Definition pdist (a b : P) : Z := (sq (fst a - fst b) + sq (snd a - snd b))%Z.
  (* bounding square of the disc: |dx|^2 <= r and |dy|^2 <= r *)
  Definition prect (c : P) (r : Z) (o : P) : bool :=
    Z.leb (sq (fst c - fst o)) r && Z.leb (sq (snd c - snd o)) r.

  Lemma prect_contains_disc : forall c r o, (0 <= r)%Z -> (pdist c o <= r)%Z -> prect c r o = true.
  Proof.
    intros c r o _. unfold pdist, prect, sq. intro H.
    pose proof (Z.square_nonneg (fst c - fst o)). pose proof (Z.square_nonneg (snd c - snd o)).
    apply andb_true_iff. split; apply Z.leb_le; lia.
  Qed.

  Definition b (n : N) : bytes := [n].
  Definition sw1000 (nodwell : bool) : roamsw :=
    roam_parse (b 42) 1000000%Z nodwell true.            (* ROAM key * 1000 (squared) *)
  Definition mk (n : N) (x y : Z) : robj P := {| o_id := b n; o_geo := (x, y) |}.
  (* self = 97 at the origin (moved there from (5000,0)); 98 in the corner of the square, outside
     the disc; 99 inside the disc; 100 far away; 101 near the old position only *)
  Definition col : list (robj P) :=
    [mk 97 0 0; mk 98 800 800; mk 99 300 400; mk 100 9000 9000; mk 101 5000 300].

  (* the radius test of the pinned tree: meters := o.Geo().Distance(o.Geo()) *)
  Definition visit_pinned (sw : roamsw) (ob : robj P) (acc : list (rmatch P)) (o : robj P) : list (rmatch P) :=
    if bytes_eqb (o_id o) (o_id ob) then acc
    else
      let meters := pdist (o_geo o) (o_geo o) in
      if Z.gtb meters (rs_meters sw) then acc
      else if negb (id_match sw (o_id o)) then acc
      else acc ++ [{| m_id := o_id o; m_geo := o_geo o; m_meters := pdist (o_geo ob) (o_geo o) |}].
  Definition nearbys_pinned (col : list (robj P)) (sw : roamsw) (ob : robj P) : list (rmatch P) :=
    fold_left (visit_pinned sw ob) (filter (fun o => prect (o_geo ob) (rs_meters sw) (o_geo o)) col) [].

  (* F8: with the pinned radius test the corner neighbour (distance^2 1280000 > 1000000) is reported *)
  Lemma pinned_reports_outside_radius :
    exists m, In m (nearbys_pinned col (sw1000 false) (mk 97 0 0)) /\
              (m_meters m > rs_meters (sw1000 false))%Z.
  Proof.
    exists {| m_id := b 98; m_geo := (800, 800)%Z; m_meters := 1280000%Z |}.
    split; [vm_compute; auto|vm_compute; reflexivity].
  Qed.

  Lemma repaired_example :
    fence_match_roam P pdist prect col (sw1000 false) (mk 97 0 0) (Some (mk 97 5000 0)) =
    RoamDone [{| m_id := b 99; m_geo := (300, 400)%Z; m_meters := 250000%Z |}]
             [{| m_id := b 101; m_geo := (5000, 300)%Z; m_meters := 25090000%Z |}].
  Proof. vm_compute. reflexivity. Qed.

  (* a rectangle function that, like geo.RectFromCenter, collapses to the centre for tiny radii *)
  Definition prect_degenerate (c : P) (r : Z) (o : P) : bool :=
    if Z.ltb r 100 then Z.eqb (fst c) (fst o) && Z.eqb (snd c) (snd o) else prect c r o.
  Definition sw_tiny : roamsw := roam_parse (b 42) 50%Z false true.
  Definition col_tiny : list (robj P) := [mk 97 0 0; mk 98 3 4].
  (* the neighbour at distance^2 25 <= 50 matches the pattern and is not self, yet nothing is reported *)
  Lemma tiny_radius_misses :
    fence_match_roam P pdist prect_degenerate col_tiny sw_tiny (mk 97 0 0) None = RoamDone [] [] /\
    In (mk 98 3 4) col_tiny /\ (pdist (0, 0)%Z (3, 4)%Z <= rs_meters sw_tiny)%Z /\
    id_match sw_tiny (b 98) = true.
  Proof. vm_compute. repeat split; auto; discriminate. Qed.
End Plane.
