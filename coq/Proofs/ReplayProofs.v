(* Replay equivalence and crash recovery to a command prefix. *)
From T38 Require Import Base.Bytes Model.Resp Model.Aof Proofs.RespProofs Proofs.AofProofs Model.Replay.
From Coq Require Import Lia.
Local Open Scope Z_scope.

Section ReplayProofs.
Variable S : Type.
Variable exec : S -> cmd -> S * bool.
(* a command that reports "not updated" leaves the dataset as it was (for the keyspace model this is
   c01_error_changes_nothing / the nada paths) *)
Hypothesis noupd : forall s c, snd (exec s c) = false -> fst (exec s c) = s.

Notation run := (run S exec).
Notation logof := (logof S exec).
Notation replay := (replay S exec).
Notation recover := (recover S exec).

Lemma replay_logof p : forall s0, replay (logof p s0) s0 = run p s0.
Proof.
  induction p as [|c p IH]; intros s0; cbn; [reflexivity|].
  destruct (exec s0 c) as [s' upd] eqn:E.
  assert (Hs : step S exec s0 c = s') by (unfold step; rewrite E; reflexivity).
  destruct upd.
  - cbn. unfold Replay.replay, Replay.run in *. cbn. rewrite Hs. apply IH.
  - assert (Heq : s' = s0) by (pose proof (noupd s0 c) as H; rewrite E in H; cbn in H; apply H; reflexivity).
    unfold Replay.run; cbn. rewrite Hs, Heq. apply IH.
Qed.

Lemma logof_app p1 p2 s0 : logof (p1 ++ p2) s0 = logof p1 s0 ++ logof p2 (run p1 s0).
Proof.
  revert s0; induction p1 as [|c p1 IH]; intros s0; cbn; [reflexivity|].
  destruct (exec s0 c) as [s' upd] eqn:E.
  assert (Hs : step S exec s0 c = s') by (unfold step; rewrite E; reflexivity).
  unfold Replay.run; cbn. rewrite Hs.
  destruct upd; cbn; rewrite IH; reflexivity.
Qed.

(* every prefix of the log is the log of a prefix of the program *)
Lemma firstn_logof p : forall s0 n, exists p1 p2, p = p1 ++ p2 /\ firstn n (logof p s0) = logof p1 s0.
Proof.
  induction p as [|c p IH]; intros s0 n.
  - exists [], []. split; [reflexivity|]. destruct n; reflexivity.
  - cbn. destruct (exec s0 c) as [s' upd] eqn:E. destruct upd.
    + destruct n as [|n].
      * exists [], (c :: p). split; reflexivity.
      * destruct (IH s' n) as [p1 [p2 [Hp Hf]]]. exists (c :: p1), p2.
        split; [cbn; rewrite Hp; reflexivity|]. cbn. rewrite E, Hf. reflexivity.
    + destruct (IH s' n) as [p1 [p2 [Hp Hf]]]. exists (c :: p1), p2.
      split; [cbn; rewrite Hp; reflexivity|]. cbn. rewrite E. exact Hf.
Qed.

(* all commands whose bytes lie wholly inside the first k bytes are counted by `inside` *)
Lemma inside_ge cmds : forall m k, (m <= length cmds)%nat -> len (encs (firstn m cmds)) <= k -> (m <= inside cmds k)%nat.
Proof.
  induction cmds as [|c cs IH]; intros m k Hm Hk.
  - cbn in Hm. lia.
  - destruct m as [|m]; [lia|]. cbn [firstn] in Hk.
    change (encs (c :: firstn m cs)) with (enc c ++ encs (firstn m cs)) in Hk. rewrite len_app in Hk.
    pose proof (len_nonneg (encs (firstn m cs))).
    cbn [inside]. destruct (Z.leb_spec (len (enc c)) k); [|lia].
    cbn in Hm. specialize (IH m (k - len (enc c)) ltac:(lia) ltac:(lia)). lia.
Qed.

Theorem replay_equiv p s0 : replay (logof p s0) s0 = run p s0.
Proof. apply replay_logof. Qed.

(* A kill leaves a byte prefix q of the file. Start-up recovers exactly the state after a PREFIX p1
   of the program (never a partially applied command), cuts the file to the end of p1's log, and
   every logged command whose bytes were wholly written is inside p1. *)
Theorem crash_prefix p s0 q t :
  Forall cmd_ok (logof p s0) -> q ++ t = encs (logof p s0) ->
  exists p1 p2, p = p1 ++ p2 /\
    recover q s0 = Some (run p1 s0, len (encs (logof p1 s0))) /\
    len (encs (logof p1 s0)) <= len q /\
    (forall m, (m <= length (logof p s0))%nat -> len (encs (firstn m (logof p s0))) <= len q ->
               (m <= length (logof p1 s0))%nat).
Proof.
  intros Hok Hq.
  pose proof (load_whole_cut (logof p s0) q t Hok Hq) as Hl.
  set (n := inside (logof p s0) (len q)) in *.
  destruct (firstn_logof p s0 n) as [p1 [p2 [Hp Hf]]].
  exists p1, p2. split; [exact Hp|].
  unfold Replay.recover. rewrite Hl. unfold cmd in *. rewrite Hf. split; [rewrite replay_logof; reflexivity|].
  split.
  - (* the kept commands fit in q: q = encs kept ++ left *)
    destruct (drain_cut (logof p s0) q t (Datatypes.S (length q)) Hok Hq ltac:(lia)) as [left [_ Hql]].
    fold n in Hql. rewrite Hf in Hql. apply (f_equal len) in Hql. rewrite len_app in Hql. pose proof (len_nonneg left). lia.
  - intros m Hm Hk. rewrite <- Hf. rewrite firstn_length.
    pose proof (inside_ge (logof p s0) m (len q) Hm Hk). fold n in H. lia.
Qed.

End ReplayProofs.
