(* C13 — lemmas about Model/Knn.v: the best-first traversal emits every item once, in
   non-decreasing distance; the radius cut and LIMIT of cmdNearby are exact on that order. *)
From Coq Require Import List NArith ZArith Bool Lia ZifyN ZifyNat ZifyBool Sorted Permutation.
From T38 Require Import Model.Cursor Model.Knn Proofs.CursorProofs.
Import ListNotations.

Section KnnProofs.
  Context {I R : Type}.
  Variable d : I -> Z.      (* dist_item: the distance of an item (DISTANCE prints it) *)
  Variable lb : R -> Z.     (* dist_rect: the key a node rectangle gets in the queue *)

  Notation tree := (@tree I R).
  Notation qelem := (@qelem I R).
  Notation qnode := (@qnode I R).
  Notation queue := (@queue I R).

  (* ---- the list discipline: pop returns a minimal entry and leaves the others ---- *)
  Lemma pop_min_none (q : queue) : pop_min q = None -> q = [].
  Proof.
    destruct q as [|x r]; [reflexivity|]. cbn [pop_min].
    destruct (pop_min r) as [[m r']|]; [|discriminate].
    destruct (fst x <=? fst m)%Z; discriminate.
  Qed.

  Lemma pop_min_spec : forall (q : queue) m q',
    pop_min q = Some (m, q') ->
    Permutation q (m :: q') /\ Forall (fun y => (fst m <= fst y)%Z) q'.
  Proof.
    induction q as [|x r IH]; intros m q' H; [discriminate|].
    cbn [pop_min] in H. destruct (pop_min r) as [[m0 r']|] eqn:E.
    - destruct (IH m0 r' eq_refl) as [Hp Hf].
      destruct (fst x <=? fst m0)%Z eqn:C; injection H as <- <-.
      + split; [reflexivity|].
        rewrite Forall_forall in *. intros y Hy.
        assert (Hy' : In y (m0 :: r')) by (eapply Permutation_in; eauto).
        destruct Hy' as [<-|Hy']; [lia|]. specialize (Hf y Hy'). lia.
      + split.
        * etransitivity; [apply perm_skip; exact Hp|]. apply perm_swap.
        * constructor; [lia|exact Hf].
    - injection H as <- <-. apply pop_min_none in E. subst r. split; [reflexivity|constructor].
  Qed.

  (* ---- what the proofs need of a queue discipline ---- *)
  Definition queue_ok (qinv : queue -> Prop)
      (qpush : queue -> qnode -> queue) (qpop : queue -> option (qnode * queue)) : Prop :=
    qinv [] /\
    (forall q e, qinv q -> qinv (qpush q e) /\ Permutation (qpush q e) (e :: q)) /\
    (forall q, qinv q -> qpop q = None -> q = []) /\
    (forall q m q', qinv q -> qpop q = Some (m, q') ->
       qinv q' /\ Permutation q (m :: q') /\ Forall (fun y : qnode => (fst m <= fst y)%Z) q').

  Lemma list_queue_ok : queue_ok (fun _ => True) list_push pop_min.
  Proof.
    split; [exact Logic.I|split; [|split]].
    - intros q e _. split; [exact Logic.I|]. unfold list_push. rewrite Permutation_app_comm. reflexivity.
    - intros q _. apply pop_min_none.
    - intros q m q' _ H. split; [exact Logic.I|]. now apply pop_min_spec.
  Qed.

  Variable qinv : queue -> Prop.
  Variable qpush : queue -> qnode -> queue.
  Variable qpop : queue -> option (qnode * queue).
  Hypothesis Hq : queue_ok qinv qpush qpop.

  Notation knn_order := (knn_order d lb qpush qpop).
  Notation knn_loop := (knn_loop d lb qpush qpop).
  Notation push_all := (push_all qpush).
  Notation push_items := (push_items (R := R) d qpush).
  Notation push_children := (push_children (I := I) lb qpush).

  Lemma push_all_perm : forall es (q : queue),
    qinv q -> qinv (push_all q es) /\ Permutation (push_all q es) (es ++ q).
  Proof.
    destruct Hq as (_ & Hpush & _).
    induction es as [|e es IH]; intros q Hi; cbn [Knn.push_all fold_left app]; [split; [exact Hi|reflexivity]|].
    fold (push_all (qpush q e) es). destruct (Hpush q e Hi) as [Hi' Hp].
    destruct (IH _ Hi') as [Hi'' Hp']. split; [exact Hi''|].
    rewrite Hp', Hp. symmetry. apply Permutation_middle.
  Qed.

  (* ---- sizes and item lists ---- *)
  Definition under (e : qelem) : list I :=
    match e with QItem i => [i] | QNode t => items_of t end.
  Definition q_items (q : queue) : list I := flat_map (fun ke : qnode => under (snd ke)) q.

  Lemma items_of_node (cs : list (R * tree)) :
    items_of (Node cs) = flat_map (fun rc => items_of (snd rc)) cs.
  Proof. induction cs as [|rc cs IH]; [reflexivity|]. cbn in *. now rewrite IH. Qed.

  Lemma tsize_node (cs : list (R * tree)) :
    tsize (Node cs) = S (list_sum (map (fun rc => tsize (snd rc)) cs)).
  Proof.
    induction cs as [|rc cs IH]; [reflexivity|]. cbn in *. injection IH as IH. now rewrite IH.
  Qed.

  Lemma qsize_cons (ke : qnode) (q : queue) : qsize (ke :: q) = (esize (snd ke) + qsize q)%nat.
  Proof. reflexivity. Qed.

  Lemma qsize_app (a b : queue) : qsize (a ++ b) = (qsize a + qsize b)%nat.
  Proof. unfold qsize. rewrite map_app. apply list_sum_app. Qed.

  Lemma list_sum_perm (l1 l2 : list nat) : Permutation l1 l2 -> list_sum l1 = list_sum l2.
  Proof. unfold list_sum. induction 1; simpl; lia. Qed.

  Lemma qsize_perm (a b : queue) : Permutation a b -> qsize a = qsize b.
  Proof. intros H. unfold qsize. apply list_sum_perm. now apply Permutation_map. Qed.

  Lemma list_sum_ones {X} (l : list X) : list_sum (map (fun _ => 1%nat) l) = length l.
  Proof. induction l as [|x r IH]; simpl; [reflexivity | now rewrite IH]. Qed.

  Lemma qsize_push_items (q : queue) its : qinv q -> qsize (push_items q its) = (qsize q + length its)%nat.
  Proof.
    intros Hi. unfold Knn.push_items. rewrite (qsize_perm _ _ (proj2 (push_all_perm _ q Hi))), qsize_app.
    unfold qsize at 1. rewrite map_map. simpl. rewrite list_sum_ones. lia.
  Qed.

  Lemma qsize_push_children (q : queue) cs : qinv q ->
    S (qsize (push_children q cs)) = (qsize q + tsize (Node cs))%nat.
  Proof.
    intros Hi. unfold Knn.push_children. rewrite (qsize_perm _ _ (proj2 (push_all_perm _ q Hi))), qsize_app, tsize_node.
    unfold qsize at 1. rewrite map_map. cbn [snd esize]. lia.
  Qed.

  Lemma q_items_app (a b : queue) : q_items (a ++ b) = q_items a ++ q_items b.
  Proof. unfold q_items. apply flat_map_app. Qed.

  Lemma q_items_perm (a b : queue) : Permutation a b -> Permutation (q_items a) (q_items b).
  Proof. intros H. unfold q_items. now apply Permutation_flat_map. Qed.

  Lemma q_items_push_items (q : queue) its : qinv q ->
    Permutation (q_items (push_items q its)) (q_items q ++ map snd its).
  Proof.
    intros Hi. unfold Knn.push_items. rewrite (q_items_perm _ _ (proj2 (push_all_perm _ q Hi))), q_items_app.
    rewrite Permutation_app_comm. apply Permutation_app_head. unfold q_items.
    induction its as [|x r IH]; [reflexivity|]. cbn [map flat_map snd under app]. now apply perm_skip.
  Qed.

  Lemma q_items_push_children (q : queue) cs : qinv q ->
    Permutation (q_items (push_children q cs)) (q_items q ++ items_of (Node cs)).
  Proof.
    intros Hi. unfold Knn.push_children. rewrite (q_items_perm _ _ (proj2 (push_all_perm _ q Hi))), q_items_app, items_of_node.
    rewrite Permutation_app_comm. apply Permutation_app_head. unfold q_items.
    induction cs as [|x r IH]; [reflexivity|]. cbn [map flat_map snd under]. now apply Permutation_app_head.
  Qed.

  Lemma Forall_push_all (P : qnode -> Prop) (q : queue) es : qinv q ->
    Forall P q -> Forall P es -> Forall P (push_all q es).
  Proof.
    intros Hi H1 H2. eapply Permutation_Forall; [symmetry; apply (push_all_perm _ _ Hi)|].
    apply Forall_app. split; assumption.
  Qed.

  (* ---- the hypothesis on the keys: a node's key is a lower bound for every item under it ---- *)
  Inductive lb_ok : tree -> Prop :=
  | lb_leaf its : lb_ok (Leaf its)
  | lb_node cs :
      Forall (fun rc : R * tree =>
                (forall i, In i (items_of (snd rc)) -> (lb (fst rc) <= d i)%Z) /\ lb_ok (snd rc)) cs ->
      lb_ok (Node cs).

  Definition e_ok (ke : qnode) : Prop :=
    match snd ke with
    | QItem i => fst ke = d i
    | QNode t => lb_ok t /\ forall i, In i (items_of t) -> (fst ke <= d i)%Z
    end.

  Lemma e_ok_under ke i : e_ok ke -> In i (under (snd ke)) -> (fst ke <= d i)%Z.
  Proof.
    unfold e_ok. destruct ke as [k [j|t]]; cbn [fst snd under].
    - intros -> [<-|[]]. lia.
    - intros [_ H] Hi. now apply H.
  Qed.

  Lemma q_items_in (q : queue) i : In i (q_items q) -> exists ke, In ke q /\ In i (under (snd ke)).
  Proof. unfold q_items. rewrite in_flat_map. intros (ke & H1 & H2). eauto. Qed.

  (* ---- the traversal ---- *)
  Definition emitted_ok (l : list (I * Z)) : Prop := Forall (fun p => snd p = d (fst p)) l.
  Definition dist_sorted (l : list (I * Z)) : Prop := StronglySorted (fun a b => (snd a <= snd b)%Z) l.

  Lemma knn_order_spec : forall fuel (q : queue),
    qinv q -> Forall e_ok q -> (qsize q < fuel)%nat ->
    exists l, knn_order fuel q = Done l /\
              Permutation (map fst l) (q_items q) /\ emitted_ok l /\ dist_sorted l.
  Proof.
    induction fuel as [|fuel IH]; intros q Hi Hok Hf; [lia|].
    destruct Hq as (_ & _ & Hnone & Hpop).
    cbn [Knn.knn_order]. destruct (qpop q) as [[[k e] q']|] eqn:E.
    - destruct (Hpop _ _ _ Hi E) as (Hi' & Hp & Hmin).
      assert (Hok' : Forall e_ok ((k, e) :: q')) by (eapply Permutation_Forall; eauto).
      inversion Hok' as [|? ? He Hq']; subst.
      pose proof (qsize_perm _ _ Hp) as Hsz. rewrite qsize_cons in Hsz. cbn [snd] in Hsz.
      assert (Hitems : Permutation (q_items q) (under e ++ q_items q')).
      { unfold q_items. etransitivity; [apply Permutation_flat_map; exact Hp|]. reflexivity. }
      destruct e as [i|[its|cs]]; cbn [esize] in Hsz.
      + (* an item leaves the queue: it is emitted with its key *)
        destruct (IH q' Hi' Hq') as (l & Hl & Hperm & Hem & Hs); [lia|].
        rewrite Hl. exists ((i, k) :: l). split; [reflexivity|]. split; [|split].
        * cbn [map fst]. rewrite Hitems. cbn [under app]. now apply perm_skip.
        * constructor; [exact He | exact Hem].
        * constructor; [exact Hs|].
          rewrite Forall_forall. intros p Hp'. cbn [snd].
          unfold emitted_ok in Hem. rewrite Forall_forall in Hem. rewrite (Hem p Hp').
          assert (Hin : In (fst p) (q_items q')).
          { eapply Permutation_in; [exact Hperm|]. now apply in_map. }
          destruct (q_items_in _ _ Hin) as (ke & Hke & Hu).
          rewrite Forall_forall in Hmin, Hq'.
          pose proof (Hmin ke Hke) as H1. cbn [fst] in H1.
          pose proof (e_ok_under ke _ (Hq' ke Hke) Hu). lia.
      + (* a leaf: its items enter the queue with their own distances *)
        assert (Hok2 : Forall e_ok (push_items q' its)).
        { unfold Knn.push_items. apply Forall_push_all; [exact Hi'|exact Hq'|].
          rewrite Forall_forall. intros ke Hke. apply in_map_iff in Hke. destruct Hke as (ri & <- & _).
          reflexivity. }
        destruct (IH (push_items q' its) (proj1 (push_all_perm _ _ Hi')) Hok2) as (l & Hl & Hperm & Hem & Hs).
        { rewrite (qsize_push_items _ _ Hi'). cbn [tsize] in Hsz. lia. }
        exists l. split; [exact Hl|]. split; [|split; assumption].
        rewrite Hperm, (q_items_push_items _ _ Hi'), Hitems. cbn [under items_of]. apply Permutation_app_comm.
      + (* an inner node: its children enter the queue with the key of their rectangle *)
        assert (Hok2 : Forall e_ok (push_children q' cs)).
        { unfold Knn.push_children. apply Forall_push_all; [exact Hi'|exact Hq'|].
          destruct He as [Hlb _]. inversion Hlb as [|? Hcs]; subst.
          rewrite Forall_forall in *. intros ke Hke. apply in_map_iff in Hke. destruct Hke as (rc & <- & Hrc).
          destruct (Hcs rc Hrc) as [H1 H2]. split; assumption. }
        destruct (IH (push_children q' cs) (proj1 (push_all_perm _ _ Hi')) Hok2) as (l & Hl & Hperm & Hem & Hs).
        { pose proof (qsize_push_children q' cs Hi'). lia. }
        exists l. split; [exact Hl|]. split; [|split; assumption].
        rewrite Hperm, (q_items_push_children _ _ Hi'), Hitems. cbn [under]. apply Permutation_app_comm.
    - apply (Hnone _ Hi) in E. subst q. exists []. repeat split; constructor.
  Qed.

  (* the caller's iterator sees exactly that order, until it says stop *)
  Fixpoint run_until {S : Type} (f : S -> I -> Z -> S * bool) (l : list (I * Z)) (s : S) : S :=
    match l with
    | [] => s
    | (i, k) :: r => let '(s', keep) := f s i k in if keep then run_until f r s' else s'
    end.

  Lemma knn_loop_run {S : Type} (f : S -> I -> Z -> S * bool) : forall fuel (q : queue) l s,
    knn_order fuel q = Done l -> knn_loop fuel q f s = Done (run_until f l s).
  Proof.
    induction fuel as [|fuel IH]; intros q l s H; [discriminate|].
    cbn [Knn.knn_order Knn.knn_loop] in *.
    destruct (qpop q) as [[[k e] q']|].
    - destruct e as [i|[its|cs]].
      + destruct (knn_order fuel q') as [l'|] eqn:E; [|discriminate]. injection H as <-.
        cbn [run_until]. destruct (f s i k) as [s' keep]. destruct keep; [|reflexivity].
        now apply IH.
      + now apply IH.
      + now apply IH.
    - injection H as <-. reflexivity.
  Qed.

  (* Collection.Nearby + cmdNearby + pushObject over that order = the pagination skeleton of C11 *)
  Lemma run_nearby_iter test maxd limit offset : forall l count w,
    snd (run_until (nearby_iter test maxd limit offset) l (count, w)) =
    iterate test (radius_stop maxd) limit offset l count w.
  Proof.
    induction l as [|[i k] r IH]; intros count w; [reflexivity|].
    cbn [run_until Cursor.iterate]. unfold nearby_iter at 1. cbn [fst snd].
    destruct (count + 1 <=? offset)%N; [apply IH|]. rewrite !next_step_eq.
    destruct (radius_stop maxd (i, k)); [reflexivity|].
    destruct (push_object test limit (sw_step w 1) (i, k)) as [w' keep].
    destruct keep; [apply IH | reflexivity].
  Qed.

  Definition root_items (root : option tree) : list I :=
    match root with None => [] | Some t => items_of t end.
  Definition root_ok (root : option tree) : Prop :=
    match root with None => True | Some t => lb_ok t end.

  Hypothesis Hnn : forall i, (0 <= d i)%Z.   (* distances are not negative (the root's key is 0) *)

  Lemma start_perm root :
    qinv (start_queue qpush root) /\
    Permutation (start_queue qpush root) (match root with None => [] | Some t => [(0%Z, QNode t)] end).
  Proof.
    destruct Hq as (H0 & Hpush & _). destruct root as [t|]; cbn [start_queue]; [apply (Hpush _ _ H0) | split; [exact H0|reflexivity]].
  Qed.

  Lemma start_ok root : root_ok root -> Forall e_ok (start_queue qpush root).
  Proof.
    intros H. eapply Permutation_Forall; [symmetry; apply (proj2 (start_perm root))|].
    destruct root as [t|]; cbn [root_ok] in *; [|constructor].
    constructor; [|constructor]. split; [exact H|]. intros i _. apply Hnn.
  Qed.

  Lemma start_items root : Permutation (q_items (start_queue qpush root)) (root_items root).
  Proof.
    rewrite (q_items_perm _ _ (proj2 (start_perm root))). destruct root; cbn; [now rewrite app_nil_r | reflexivity].
  Qed.

  Theorem knn_sorted root :
    root_ok root ->
    exists l, knn d lb qpush qpop root = Done l /\
              Permutation (map fst l) (root_items root) /\ emitted_ok l /\ dist_sorted l.
  Proof.
    intros H. unfold knn.
    destruct (knn_order_spec (S (qsize (start_queue qpush root))) (start_queue qpush root) (proj1 (start_perm root)) (start_ok _ H)) as (l & H1 & H2 & H3 & H4); [lia|].
    exists l. split; [exact H1|]. split; [|auto]. rewrite H2. apply start_items.
  Qed.

  Theorem nearby_query_page test root maxd cursor limit l :
    knn d lb qpush qpop root = Done l ->
    nearby_query d lb qpush qpop test root maxd cursor limit = Done (page test (radius_stop maxd) l cursor limit).
  Proof.
    unfold knn, nearby_query. intros H.
    rewrite (knn_loop_run _ _ _ _ _ H).
    pose proof (run_nearby_iter test maxd limit cursor l 0%N (sw_step (mkSW 0 0 false []) cursor)) as E.
    destruct (run_until _ l _) as [c w]. cbn [snd] in E. subst w. reflexivity.
  Qed.
End KnnProofs.

(* ---- LIMIT k without filters and radius: the first k of the order ---- *)
Lemma iterate_all_firstn {A} limit : forall (l : list A) count w,
  sw_hit w = false -> (sw_items w < limit)%N ->
  sw_filled (iterate (fun _ => true) (fun _ => false) limit 0 l count w) =
  sw_filled w ++ firstn (N.to_nat (limit - sw_items w)) l.
Proof.
  induction l as [|o r IH]; intros count w Hh Hi.
  - cbn [Cursor.iterate]. rewrite firstn_nil. now rewrite app_nil_r.
  - cbn [Cursor.iterate].
    assert (E : (count + 1 <=? 0)%N = false) by (apply N.leb_gt; lia). rewrite E.
    rewrite next_step_eq. unfold push_object. cbn [sw_step sw_items sw_iters sw_hit sw_filled].
    destruct (sw_items w + 1 =? limit)%N eqn:El.
    + cbn [sw_filled]. apply N.eqb_eq in El.
      replace (N.to_nat (limit - sw_items w)) with 1%nat by lia. cbn [firstn]. reflexivity.
    + apply N.eqb_neq in El. rewrite IH; cbn [sw_hit sw_items sw_filled]; [|exact Hh|lia].
      replace (N.to_nat (limit - sw_items w)) with (S (N.to_nat (limit - (sw_items w + 1)))) by lia.
      cbn [firstn]. rewrite <- app_assoc. reflexivity.
Qed.

Lemma page_all_firstn {A} (l : list A) limit :
  (1 <= limit)%N ->
  fst (page (fun _ => true) (fun _ => false) l 0 limit) = firstn (N.to_nat limit) l.
Proof.
  intros H. unfold page. cbn [fst]. rewrite iterate_all_firstn; cbn; try lia; try reflexivity.
  now rewrite N.sub_0_r.
Qed.

Lemma SS_split {A} (Rel : A -> A -> Prop) (l1 l2 : list A) :
  StronglySorted Rel (l1 ++ l2) -> forall x y, In x l1 -> In y l2 -> Rel x y.
Proof.
  induction l1 as [|a l1 IH]; cbn [app]; intros H x y Hx Hy; [destruct Hx|].
  inversion H as [|? ? Hs Hf]; subst. destruct Hx as [<-|Hx].
  - rewrite Forall_forall in Hf. apply Hf. apply in_or_app. now right.
  - now apply IH.
Qed.

Lemma Permutation_filter {A} (f : A -> bool) (l1 l2 : list A) :
  Permutation l1 l2 -> Permutation (filter f l1) (filter f l2).
Proof.
  induction 1 as [|x l1 l2 H IH|x y l|l1 l2 l3 H1 IH1 H2 IH2]; cbn [filter].
  - constructor.
  - destruct (f x); [now apply perm_skip | exact IH].
  - destruct (f x), (f y); try reflexivity. apply perm_swap.
  - etransitivity; eauto.
Qed.

Lemma map_fst_filter {I} (d : I -> Z) (r : Z) (l : list (I * Z)) :
  Forall (fun p => snd p = d (fst p)) l ->
  map fst (filter (fun e => (snd e <=? r)%Z) l) = filter (fun i => (d i <=? r)%Z) (map fst l).
Proof.
  induction 1 as [|p l Hp Hl IH]; [reflexivity|]. cbn [filter map]. rewrite <- Hp.
  destruct (snd p <=? r)%Z; cbn [map]; now rewrite IH.
Qed.

Lemma filter_len_le {A} (f : A -> bool) (l : list A) : (length (filter f l) <= length l)%nat.
Proof. induction l as [|x r IH]; cbn [filter length]; [lia|]. destruct (f x); cbn [length]; lia. Qed.

(* a limit above the number of entries is never hit: one request returns everything, cursor 0 *)
Lemma page_big_limit {A} (test stop : A -> bool) (src : list A) limit :
  (N.of_nat (length src) < limit)%N ->
  page test stop src 0 limit = (unlimited test stop src, 0%N).
Proof.
  intros H. assert (Hl : (1 <= limit)%N) by lia.
  destruct (page_spec test stop src 0 limit Hl) as [[Hz Hi] | (pre & post & Hr & Hne & Hns & Hc & Hi & Hn)].
  - destruct (page test stop src 0 limit) as [a b]. cbn [fst snd] in *. subst. reflexivity.
  - exfalso. unfold rest_at in Hr. cbn [N.to_nat skipn] in Hr.
    assert (length (filter test pre) <= length pre)%nat by apply filter_len_le.
    apply (f_equal (@length A)) in Hr. rewrite app_length in Hr. lia.
Qed.

Lemma iterate_stop_ext {A} (test stop1 stop2 : A -> bool) limit offset :
  (forall e, stop1 e = stop2 e) -> forall l count w,
  iterate test stop1 limit offset l count w = iterate test stop2 limit offset l count w.
Proof.
  intros H. induction l as [|o r IH]; intros count w; cbn [Cursor.iterate]; [reflexivity|].
  rewrite H. destruct (count + 1 <=? offset)%N; [apply IH|]. rewrite next_step_eq.
  destruct (stop2 o); [reflexivity|].
  destruct (push_object test limit (sw_step w 1) o) as [w' keep]. destruct keep; [apply IH|reflexivity].
Qed.

Lemma page_stop_ext {A} (test stop1 stop2 : A -> bool) l cursor limit :
  (forall e, stop1 e = stop2 e) -> page test stop1 l cursor limit = page test stop2 l cursor limit.
Proof. intros H. unfold page. now rewrite (iterate_stop_ext test stop1 stop2 limit cursor H). Qed.

Section KnnQuery.
  Context {I R : Type}.
  Variable d : I -> Z.
  Variable lb : R -> Z.
  Hypothesis Hnn : forall i, (0 <= d i)%Z.
  Variable qpush : @queue I R -> @qnode I R -> @queue I R.
  Variable qpop : @queue I R -> option (@qnode I R * @queue I R).
  Variable qinv : @queue I R -> Prop.
  Hypothesis Hq : queue_ok qinv qpush qpop.
  Let all : I * Z -> bool := fun _ => true.

  (* LIMIT k, no radius, no filters: k items, none of the others is closer than any of them *)
  Theorem k_closest (root : option (@tree I R)) k max_dist :
    root_ok d lb root -> (1 <= k)%N -> (max_dist <= 0)%Z ->
    exists l res c,
      knn d lb qpush qpop root = Done l /\ nearby_query d lb qpush qpop all root max_dist 0 k = Done (res, c) /\
      Permutation (map fst l) (root_items root) /\ emitted_ok d l /\
      res = firstn (N.to_nat k) l /\
      dist_sorted res /\
      (forall x y, In x res -> In y (skipn (N.to_nat k) l) -> (snd x <= snd y)%Z).
  Proof.
    intros Hok Hk Hm.
    destruct (knn_sorted d lb qinv qpush qpop Hq Hnn root Hok) as (l & Hl & Hp & He & Hs).
    exists l. rewrite (nearby_query_page d lb qpush qpop all root max_dist 0%N k l Hl).
    assert (Estop : forall e : I * Z, radius_stop max_dist e = (fun _ => false) e).
    { intros e. unfold radius_stop. destruct (0 <? max_dist)%Z eqn:E; [lia|reflexivity]. }
    assert (Epage : page all (radius_stop max_dist) l 0 k = page all (fun _ => false) l 0 k)
      by (apply page_stop_ext; exact Estop).
    rewrite Epage.
    destruct (page all (fun _ => false) l 0 k) as [res c] eqn:Ep.
    exists res, c. split; [exact Hl|]. split; [reflexivity|]. split; [exact Hp|]. split; [exact He|].
    assert (Hres : res = firstn (N.to_nat k) l).
    { pose proof (page_all_firstn l k Hk) as H. unfold all in Ep. rewrite Ep in H. exact H. }
    split; [exact Hres|].
    rewrite <- (firstn_skipn (N.to_nat k) l) in Hs. rewrite <- Hres in Hs. split.
    - clear - Hs. induction res as [|a res IH]; [constructor|].
      cbn [app] in Hs. inversion Hs as [|? ? H1 H2]; subst. constructor; [now apply IH|].
      rewrite Forall_forall in *. intros y Hy. apply H2. apply in_or_app. now left.
    - intros x y Hx Hy. exact (SS_split _ _ _ Hs x y Hx Hy).
  Qed.

  (* a positive radius: the reply is exactly the items whose distance does not exceed it *)
  Theorem radius_exact (root : option (@tree I R)) r limit :
    root_ok d lb root -> (0 < r)%Z ->
    exists l,
      knn d lb qpush qpop root = Done l /\
      unlimited all (radius_stop r) l = filter (fun e => (snd e <=? r)%Z) l /\
      Permutation (map fst (unlimited all (radius_stop r) l))
                  (filter (fun i => (d i <=? r)%Z) (root_items root)) /\
      ((N.of_nat (length l) < limit)%N ->
       nearby_query d lb qpush qpop all root r 0 limit = Done (filter (fun e => (snd e <=? r)%Z) l, 0%N)).
  Proof.
    intros Hok Hr.
    destruct (knn_sorted d lb qinv qpush qpop Hq Hnn root Hok) as (l & Hl & Hp & He & Hs).
    exists l. split; [exact Hl|].
    assert (Hu : unlimited all (radius_stop r) l = filter (fun e => (snd e <=? r)%Z) l).
    { unfold unlimited.
      rewrite (until_stop_monotone (fun a b : I * Z => (snd a <= snd b)%Z) (radius_stop r) l Hs).
      - rewrite filter_filter. apply filter_ext. intros e. unfold radius_stop, all.
        rewrite andb_true_r. destruct (0 <? r)%Z eqn:E; [|lia]. cbn [andb]. lia.
      - unfold radius_stop. intros x y Hxy Hx. lia. }
    split; [exact Hu|]. split.
    - rewrite Hu, (map_fst_filter d r l He). apply Permutation_filter. exact Hp.
    - intros Hlim. rewrite (nearby_query_page d lb qpush qpop all root r 0%N limit l Hl).
      rewrite (page_big_limit all (radius_stop r) l limit Hlim). now rewrite Hu.
  Qed.
End KnnQuery.
