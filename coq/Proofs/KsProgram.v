(* From single requests to command lines and programs: exec refines the specification run,
   the invariant holds in every reachable state, an error / negative reply changes nothing,
   the repaired handlers do not panic (and the pinned FSET does). *)
From Coq Require Import String.
From Coq Require Import ZifyN ZifyNat ZifyBool Sorted.
From T38 Require Import Base.Bytes Base.SMap Model.Field Model.Object Model.Glob Model.Spec Model.Keyspace
  Proofs.GlobProofs Proofs.KsField Proofs.KsInv Proofs.KsRefine.

Section Program.
Variable O : oracle.

(* a command line whose PDEL / KEYS pattern (if any) is outside the open finding C12-ff *)
Definition cmd_ok (e : env) (args : list bytes) : Prop :=
  match dispatch O e args with
  | DReq _ _ q => req_ok q
  | DOut _ => True
  end.

Fixpoint prog_ok (p : list step) : Prop :=
  match p with
  | [] => True
  | (e, args) :: p' => cmd_ok e args /\ prog_ok p'
  end.

Theorem exec_refines e s args s' r log :
  inv s -> cmd_ok e args -> exec O true e s args = Done s' r log ->
  sexec_cmd O e (abs s) args = (abs s', r) /\ inv s'.
Proof.
  intros Hi Hok H. unfold exec in H. unfold sexec_cmd, cmd_ok in *.
  destruct (dispatch O e args) as [c w q|r0].
  - destruct (run_req O true e s q) as [[[s1 r1] u1]|] eqn:Er; [|discriminate].
    destruct (step_refines O e s q Hi Hok s1 r1 u1 Er) as [Hs Hinv].
    rewrite Hs. inversion H; subst. split; [reflexivity | exact Hinv].
  - inversion H; subst. split; [reflexivity | exact Hi].
Qed.

Theorem exec_no_panic e s args : exec O true e s args <> Panic.
Proof.
  unfold exec. destruct (dispatch O e args) as [c w q|r0]; [|discriminate].
  destruct (run_req O true e s q) as [[[s1 r1] u1]|] eqn:Er; [discriminate|].
  exfalso. exact (run_req_no_panic O e s q Er).
Qed.

Theorem run_refines p : forall s, inv s -> prog_ok p ->
  exists sf rs, run O true s p = Some (sf, rs) /\ srun O (abs s) p = (abs sf, rs) /\ inv sf.
Proof.
  induction p as [|[e args] p IH]; intros s Hi Hok.
  - exists s, []. cbn. auto.
  - destruct Hok as [Hc Hp]. cbn [run srun].
    destruct (exec O true e s args) as [s1 r1 l1|] eqn:Ex; [|exfalso; exact (exec_no_panic e s args Ex)].
    destruct (exec_refines e s args s1 r1 l1 Hi Hc Ex) as [Hs Hi1].
    destruct (IH s1 Hi1 Hp) as [sf [rs [Hr [Hsr Hif]]]].
    exists sf, (r1 :: rs). rewrite Hr, Hs, Hsr. auto.
Qed.


Theorem run_refines_init p : prog_ok p ->
  exists sf rs, run O true [] p = Some (sf, rs) /\ srun O [] p = (abs sf, rs) /\ inv sf.
Proof. intros Hok. exact (run_refines p [] inv_nil Hok). Qed.

(* ---------- the invariant needs no side condition ---------- *)
Lemma inv_step e s q s' r u : inv s -> run_req O true e s q = Some (s', r, u) -> inv s'.
Proof.
  intros Hi H.
  destruct q as [ | | |key pat| | | | | | | | | | | | | |pat|key cursor limit globs desc out nofields| ]; 
    try (match type of H with run_req _ _ _ _ ?q = _ => exact (proj2 (step_refines O e s q Hi I s' r u H)) end).
  - (* PDEL with any pattern *)
    cbn [run_req] in H. inversion H as [H1]; clear H. unfold cmd_pdel in H1.
    destruct (get key s) as [c|] eqn:Ek.
    + destruct (inv_get _ _ _ Hi Ek) as [_ [Hcs HcF]].
      inversion H1; subst.
      destruct (fold_del_ok (map fst (filter (fun io => matchesb pat (fst io)) (range_scan pat false c))) c Hcs HcF).
      apply store_col_inv; assumption.
    + inversion H1; subst. exact Hi.
  - (* KEYS *)
    cbn [run_req] in H. inversion H; subst. exact Hi.
Qed.

Lemma inv_exec e s args s' r log : inv s -> exec O true e s args = Done s' r log -> inv s'.
Proof.
  intros Hi H. unfold exec in H.
  destruct (dispatch O e args) as [c w q|r0].
  - destruct (run_req O true e s q) as [[[s1 r1] u1]|] eqn:Er; [|discriminate].
    inversion H; subst. eapply inv_step; eauto.
  - inversion H; subst. exact Hi.
Qed.

Inductive Reach : state -> Prop :=
| reach_init : Reach []
| reach_step e s args s' r log : Reach s -> exec O true e s args = Done s' r log -> Reach s'.

Theorem reach_inv s : Reach s -> inv s.
Proof. induction 1; [apply inv_nil | eapply inv_exec; eauto]. Qed.

Theorem nonempty_cols s : Reach s -> forall k c, get k s = Some c -> c <> [].
Proof. intros Hr k c Hg. destruct (inv_get _ _ _ (reach_inv s Hr) Hg) as [H _]. exact H. Qed.

Theorem reach_well_formed s : Reach s ->
  msorted s /\ forall k c, get k s = Some c -> c <> [] /\ msorted c /\
     forall id o, get id c = Some o -> o_id o = id /\ msorted (o_fields o).
Proof.
  intros Hr. pose proof (reach_inv s Hr) as Hi. split; [exact (proj1 Hi)|].
  intros k c Hg. destruct (inv_get _ _ _ Hi Hg) as [H1 [H2 H3]]. split; [exact H1|]. split; [exact H2|].
  intros id o Ho. exact (inv_obj _ _ _ _ _ Hi Hg Ho).
Qed.

(* ---------- an error or a negative answer changes nothing ---------- *)
Definition is_negative (r : reply) : bool :=
  match r with
  | RErr _ => true
  | RNil => true
  | RInt 0 => true
  | _ => false
  end.

Lemma render_negative c r : is_negative (render c r) = is_negative r.
Proof. destruct r; reflexivity. Qed.

Lemma geo_reply_pos g kind prec : is_negative (geo_reply O g kind prec) = false.
Proof.
  unfold geo_reply. destruct (kind =? RK_POINT); [reflexivity|].
  destruct (kind =? RK_BOUNDS).
  - unfold bounds_reply. destruct (o_bounds O g) as [|a [|b [|c [|d [|x l]]]]]; reflexivity.
  - destruct (kind =? RK_HASH); reflexivity.
Qed.

Lemma obj_reply_pos o wf kind prec : is_negative (obj_reply O o wf kind prec) = false.
Proof. unfold obj_reply, object_reply. destruct wf; [reflexivity | apply geo_reply_pos]. Qed.

Lemma fset_count fields : forall l n l' n',
  fold_left (fset_step O) fields (l, n) = (l', n') -> (n <= n')%Z /\ (n' = n -> l' = l).
Proof.
  induction fields as [|f fs IH]; intros l n l' n' H; cbn [fold_left] in H.
  - inversion H; subst. split; [lia | reflexivity].
  - unfold fset_step at 2 in H.
    destruct (negb (value_same (snd (fl_get (o_f O) l (fst f))) (snd f))).
    + apply IH in H. destruct H as [H1 H2]. split; [lia | intros; lia].
    + apply IH in H. exact H.
Qed.

Lemma set_obj_same (s : state) key (c : col) id o :
  inv s -> get key s = Some c -> get id c = Some o ->
  set key (set id (mkObj id (o_geo o) (o_ex o) (o_fields o)) c) s = s.
Proof.
  intros Hi Ek Eid. destruct (inv_get _ _ _ Hi Ek) as [_ [Hcs _]].
  destruct (inv_obj _ _ _ _ _ Hi Ek Eid) as [Hid _].
  assert (Ho : mkObj id (o_geo o) (o_ex o) (o_fields o) = o) by (destruct o; cbn in *; subst; reflexivity).
  rewrite Ho. rewrite (set_same id o c Hcs Eid). apply set_same; [exact (proj1 Hi) | exact Ek].
Qed.

Lemma reenter_negative e (s : state) key (c : col) id o json s' r u :
  get key s = Some c -> get id c = Some o ->
  reenter_set O e s key id json = (s', r, u) -> is_negative r = true -> s' = s /\ u = false.
Proof.
  intros Ek Eid H Hn. unfold reenter_set in H. rewrite parse_reentry in H.
  destruct (o_mkgeo O GK_OBJECT [json]) as [g|msg].
  - unfold cmd_set in H. rewrite Ek, Eid in H. cbn in H. inversion H; subst. discriminate.
  - inversion H; subst. auto.
Qed.

Theorem negative_changes_nothing_req e s q s' r u :
  inv s -> run_req O true e s q = Some (s', r, u) -> is_negative r = true -> s' = s /\ u = false.
Proof.
  intros Hi H Hn.
  destruct q as [key id fields ex nx xx rs g|key id xx rs fields|key id erron404|key pat|key|nx key newkey| |key id ex|key id
                 |key id path val raw|key id path|key id wf kind prec|key id fname|key id|key id fname|key id|key|pat|key cursor limit globs desc out nofields|key id path raw];
    cbn [run_req] in H.
  - (* SET *)
    inversion H as [H1]; clear H. unfold cmd_set in H1.
    destruct (get key s) as [c|] eqn:Ek.
    + destruct ((xx || nx) && match get id c with None => xx | Some _ => nx end).
      * inversion H1; subst. auto.
      * inversion H1; subst. destruct (rs_ret rs); [rewrite obj_reply_pos in Hn|]; discriminate.
    + destruct xx.
      * inversion H1; subst. auto.
      * cbn [get] in H1. assert (Hc : (false || nx) && false = false) by (destruct nx; reflexivity).
        rewrite Hc in H1. inversion H1; subst. destruct (rs_ret rs); [rewrite obj_reply_pos in Hn|]; discriminate.
  - (* FSET *)
    unfold cmd_fset in H. destruct (get key s) as [c|] eqn:Ek.
    + destruct (get id c) as [o|] eqn:Eid.
      * destruct (fold_left (fset_step O) fields (o_fields o, 0%Z)) as [ofields n] eqn:Ef.
        inversion H; subst; clear H.
        destruct (rs_ret rs); [rewrite obj_reply_pos in Hn; discriminate|].
        destruct (fset_count fields _ _ _ _ Ef) as [Hle Heq].
        assert (Hn0 : n = 0%Z) by (destruct n; cbn in Hn; congruence).
        subst n. rewrite (Heq eq_refl). split; [apply set_obj_same; assumption | reflexivity].
      * destruct xx; cbn in H.
        -- rewrite andb_false_r in H. inversion H; subst. auto.
        -- inversion H; subst. auto.
    + inversion H; subst. auto.
  - (* DEL *)
    inversion H as [H1]; clear H. unfold cmd_del in H1.
    destruct (get key s) as [c|]; [destruct (get id c)|]; try destruct erron404; inversion H1; subst; auto; discriminate.
  - (* PDEL *)
    inversion H as [H1]; clear H. unfold cmd_pdel in H1.
    destruct (get key s) as [c|] eqn:Ek.
    + destruct (inv_get _ _ _ Hi Ek) as [Hne [Hcs _]].
      destruct (map fst (filter (fun io => matchesb pat (fst io)) (range_scan pat false c))) as [|i ids].
      * cbn [fold_left] in H1. inversion H1; subst. split; [|reflexivity].
        unfold store_col. destruct c as [|x c']; [congruence|]. cbn [length Nat.eqb].
        apply set_same; [exact (proj1 Hi) | exact Ek].
      * inversion H1; subst. cbn in Hn. discriminate.
    + inversion H1; subst. auto.
  - (* DROP *)
    inversion H as [H1]; clear H. unfold cmd_drop in H1.
    destruct (get key s); inversion H1; subst; auto; discriminate.
  - (* RENAME *)
    inversion H as [H1]; clear H. unfold cmd_rename in H1.
    destruct (get key s) as [c|]; [|inversion H1; subst; auto].
    destruct (hook_guard e key newkey); [inversion H1; subst; auto|].
    destruct (get newkey s); destruct nx; cbn in H1; inversion H1; subst; auto; discriminate.
  - inversion H; subst. discriminate.
  - (* EXPIRE *)
    inversion H as [H1]; clear H. unfold cmd_expire in H1.
    destruct (get key s) as [c|]; [destruct (get id c)|]; inversion H1; subst; auto; discriminate.
  - (* PERSIST *)
    inversion H as [H1]; clear H. unfold cmd_persist in H1.
    destruct (get key s) as [c|]; [destruct (get id c) as [o|]|]; try destruct (negb (o_ex o =? 0)%Z);
      inversion H1; subst; auto; discriminate.
  - (* JSET *)
    inversion H as [H1]; clear H. unfold cmd_jset in H1.
    destruct (get key s) as [c|] eqn:Ek.
    + destruct (get id c) as [o|] eqn:Eid.
      * destruct (o_sjson_set O raw (g_text (o_geo o)) path val); [|inversion H1; subst; auto].
        destruct (g_spatial (o_geo o)).
        -- eapply reenter_negative; eauto.
        -- inversion H1; subst. discriminate.
      * destruct (o_sjson_set O raw [] path val); inversion H1; subst; auto; discriminate.
    + cbv beta iota zeta in H1. cbn [get] in H1. cbv beta iota zeta in H1.
      destruct (o_sjson_set O raw [] path val); inversion H1; subst; auto; discriminate.
  - (* JDEL *)
    inversion H as [H1]; clear H. unfold cmd_jdel in H1.
    destruct (get key s) as [c|] eqn:Ek; [|inversion H1; subst; auto].
    destruct (get id c) as [o|] eqn:Eid.
    + destruct (o_sjson_del O (g_text (o_geo o)) path) as [nj|]; [|inversion H1; subst; auto].
      destruct (bytes_eqb nj (g_text (o_geo o))); [inversion H1; subst; auto|].
      destruct (g_spatial (o_geo o)).
      * eapply reenter_negative; eauto.
      * inversion H1; subst. discriminate.
    + destruct (o_sjson_del O [] path) as [nj|]; [|inversion H1; subst; auto].
      destruct (bytes_eqb nj []); inversion H1; subst; auto; discriminate.
  - (* reads: the state is returned as it is *)
    inversion H as [H1]; clear H. destruct (find s key id); inversion H1; subst; auto.
  - inversion H as [H1]; clear H. destruct (get key s) as [c|]; [destruct (get id c)|]; inversion H1; subst; auto.
  - inversion H as [H1]; clear H. destruct (get key s); inversion H1; subst; auto.
  - inversion H as [H1]; clear H. destruct (get key s) as [c|]; [destruct (get id c)|]; inversion H1; subst; auto.
  - inversion H as [H1]; clear H. destruct (find s key id); inversion H1; subst; auto.
  - inversion H as [H1]; clear H. destruct (get key s); inversion H1; subst; auto.
  - inversion H; subst; auto.
  - inversion H as [H1]; clear H.
    repeat match type of H1 with context [match ?x with _ => _ end] => destruct x end; inversion H1; subst; auto.
  - inversion H as [H1]; clear H. destruct (find s key id) as [o|]; [destruct (o_jget O (g_text (o_geo o)) path raw)|]; inversion H1; subst; auto.
Qed.

Theorem negative_changes_nothing e s args s' r log :
  inv s -> exec O true e s args = Done s' r log -> is_negative r = true -> s' = s /\ log = [].
Proof.
  intros Hi H Hn. unfold exec in H.
  destruct (dispatch O e args) as [c w q|r0].
  - destruct (run_req O true e s q) as [[[s1 r1] u1]|] eqn:Er; [|discriminate].
    inversion H; subst. rewrite render_negative in Hn.
    destruct (negative_changes_nothing_req e s q s' r1 u1 Hi Er Hn) as [Hs Hu].
    subst. split; [reflexivity|]. rewrite andb_false_r. reflexivity.
  - inversion H; subst. auto.
Qed.

(* ---------- what is logged ---------- *)
Theorem log_shape e s args s' r log :
  exec O true e s args = Done s' r log -> log = [] \/ log = [args].
Proof.
  unfold exec. destruct (dispatch O e args) as [c w q|r0].
  - destruct (run_req O true e s q) as [[[s1 r1] u1]|]; [|discriminate].
    intros H. inversion H; subst. destruct (w && u1); auto.
  - intros H. inversion H; subst. auto.
Qed.

End Program.

(* ---------- concrete witnesses ---------- *)
Definition toy_foracle : foracle := mkFOracle (fun d => mkValue KString d) (fun s => s) (fun _ _ => None).
Definition toy_oracle : oracle :=
  mkOracle toy_foracle (fun _ => true) (fun _ => 1000000000%Z) (fun _ => None) (fun _ => None) (fun s => s)
           (fun k args => GOk (mkGeo true (concat args))) (fun _ => []) (fun _ => []) (fun _ _ => [])
           (fun _ j _ _ => OOk j) (fun j _ => OOk j) (fun _ _ _ => None).

Definition toy_env (now : Z) : env := mkEnv now false false false [].

Definition w_k : bytes := Eval compute in bs "k".
Definition w_g : bytes := Eval compute in bs "g".
Definition w_a : bytes := Eval compute in bs "a".
Definition w_b : bytes := Eval compute in bs "b".
Definition w_1 : bytes := Eval compute in bs "1".
Definition w_speed : bytes := Eval compute in bs "speed".
Definition w_FSET : bytes := Eval compute in bs "FSET".
Definition w_XX : bytes := Eval compute in bs "XX".
Definition w_RETURN : bytes := Eval compute in bs "RETURN".
Definition w_POINT : bytes := Eval compute in bs "POINT".
Definition w_STRING : bytes := Eval compute in bs "STRING".
Definition w_FIELD : bytes := Eval compute in bs "FIELD".
Definition w_EX : bytes := Eval compute in bs "EX".
Definition w_GET : bytes := Eval compute in bs "GET".
Definition w_missing : bytes := Eval compute in bs "missing".

(* finding F1: FSET key missingid XX RETURN f v on the pinned tree *)
Definition f1_prog_prefix : list step := [(toy_env 5, [kw_SET; w_k; w_a; w_POINT; w_1; w_1])].
Definition f1_cmd : list bytes := [w_FSET; w_k; w_missing; w_XX; w_RETURN; w_a; w_1].

Theorem fset_pinned_panics :
  exists s, run toy_oracle false [] f1_prog_prefix = Some (s, [ROk str_OK]) /\
            exec toy_oracle false (toy_env 6) s f1_cmd = Panic /\
            exists s' r l, exec toy_oracle true (toy_env 6) s f1_cmd = Done s' r l /\ s' = s /\ r = RInt 0 /\ l = [].
Proof.
  eexists. split; [vm_compute; reflexivity|]. split; [vm_compute; reflexivity|].
  eexists. eexists. eexists. split; [vm_compute; reflexivity|]. repeat split.
Qed.

(* non-vacuity: a reachable state with two collections, a string, a field-bearing point, a deadline *)
Definition demo_prog : list step :=
  [ (toy_env 5, [kw_SET; w_k; w_a; w_FIELD; w_speed; w_1; w_EX; w_1; w_POINT; w_1; w_1]);
    (toy_env 6, [kw_SET; w_g; w_b; w_STRING; w_speed]);
    (toy_env 7, [w_GET; w_k; w_a]) ].

Lemma demo_prog_ok : prog_ok toy_oracle demo_prog.
Proof. vm_compute. auto. Qed.

Lemma demo_run :
  exists sf rs, run toy_oracle true [] demo_prog = Some (sf, rs) /\ length sf = 2%nat /\
                find sf w_k w_a = Some (mkObj w_a (mkGeo true (w_1 ++ w_1)) 1000000005 [(w_speed, mkValue KString w_1)]) /\
                find sf w_g w_b = Some (mkObj w_b (mkGeo false w_speed) 0 []) /\
                nth 2 rs RNil = RBulk (w_1 ++ w_1).
Proof. eexists. eexists. split; [vm_compute; reflexivity|]. vm_compute. repeat split. Qed.

(* the side condition of the refinement cannot be dropped (C12's open finding C12-ff seen from C01):
   PDEL k "ab\xff*" does not delete the id "ab\xff\x01", the plain map does *)
Definition w_PDEL : bytes := Eval compute in bs "PDEL".
Definition ff_id : bytes := [97; 98; 255; 1].
Definition ff_pat : bytes := [97; 98; 255; 42].
Definition ff_prog : list step :=
  [ (toy_env 5, [kw_SET; w_k; ff_id; w_STRING; w_a]); (toy_env 6, [w_PDEL; w_k; ff_pat]) ].

Theorem refines_ff_refuted :
  exists sf rs, run toy_oracle true [] ff_prog = Some (sf, rs) /\ snd (srun toy_oracle [] ff_prog) <> rs.
Proof. eexists. eexists. split; [vm_compute; reflexivity|]. vm_compute. discriminate. Qed.

(* (finding C01-scan-count-cursor, repaired in /repo by 3ef88bc + a8face1: the COUNT shortcut used to
   compute col.Count() - int(cursor), so a cursor >= 2^63 gave a count above the number of objects;
   the model above is the repaired shortcut, which also honours LIMIT.) *)
