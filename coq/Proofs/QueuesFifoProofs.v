(* C10 (b) pub/sub and (c) live fences — proofs about Model/Queues.v. *)
From Coq Require Import List NArith ZArith Bool Arith Lia.
From T38 Require Import Model.Queues.
Import ListNotations.

(* ------------------------------------------------------------------------------------------ *)
(* (b) pub/sub *)

Section Pubsub.
Variable pm : chan -> chan -> bool.   (* match.Match(channel, pattern): opaque *)

Definition subs_of (t : target) (l : list (chan * target)) : list chan :=
  map fst (filter (fun ct => Nat.eqb (snd ct) t) l).

(* su is exactly what target t is registered for in s *)
Definition agrees (s : ps) (t : target) (su : tsubs) : Prop :=
  ts_exact su = subs_of t (ps_exact s) /\ ts_pat su = subs_of t (ps_pat s).

Lemma existsb_same_sub : forall c t l,
  existsb (same_sub (c, t)) l = existsb (N.eqb c) (subs_of t l).
Proof.
  induction l as [|[c0 t0] l IH]; [reflexivity|].
  unfold subs_of in *. cbn [existsb filter snd]. unfold same_sub at 1. cbn [fst snd].
  rewrite (Nat.eqb_sym t t0).
  destruct (Nat.eqb t0 t); cbn [map existsb fst].
  - rewrite andb_true_r. rewrite IH. reflexivity.
  - rewrite andb_false_r. cbn [orb]. exact IH.
Qed.

Lemma subs_of_app : forall t a b, subs_of t (a ++ b) = subs_of t a ++ subs_of t b.
Proof. intros. unfold subs_of. rewrite filter_app, map_app. reflexivity. Qed.

Lemma subs_of_add : forall t c t' l,
  subs_of t (add_sub (c, t') l) = if Nat.eqb t' t then add_c c (subs_of t l) else subs_of t l.
Proof.
  intros t c t' l. unfold add_sub, add_c.
  destruct (Nat.eqb_spec t' t) as [->|Hne].
  - rewrite existsb_same_sub. destruct (existsb (N.eqb c) (subs_of t l)); [reflexivity|].
    rewrite subs_of_app. unfold subs_of at 2. cbn [filter snd]. rewrite Nat.eqb_refl. reflexivity.
  - destruct (existsb (same_sub (c, t')) l); [reflexivity|].
    rewrite subs_of_app. unfold subs_of at 2. cbn [filter snd].
    destruct (Nat.eqb_spec t' t); [contradiction|]. cbn. apply app_nil_r.
Qed.

Lemma subs_of_del : forall t c t' l,
  subs_of t (del_sub (c, t') l) = if Nat.eqb t' t then del_c c (subs_of t l) else subs_of t l.
Proof.
  intros t c t' l. unfold del_sub, del_c, subs_of.
  induction l as [|[c0 t0] l IH]; [destruct (Nat.eqb t' t); reflexivity|].
  cbn [filter]. unfold same_sub at 1. cbn [fst snd].
  destruct (Nat.eqb_spec t' t) as [->|Hne].
  - rewrite (Nat.eqb_sym t t0).
    destruct (Nat.eqb_spec t0 t) as [->|Hne0].
    + rewrite andb_true_r. cbn [map filter fst].
      destruct (N.eqb c c0); cbn [negb]; [exact IH|].
      cbn [filter snd]. rewrite Nat.eqb_refl. cbn [map fst]. f_equal. exact IH.
    + rewrite andb_false_r. cbn [negb filter snd].
      destruct (Nat.eqb_spec t0 t); [contradiction|]. exact IH.
  - destruct (Nat.eqb t' t) eqn:E; [apply Nat.eqb_eq in E; contradiction|].
    destruct (N.eqb c c0 && Nat.eqb t' t0) eqn:E2; cbn [negb].
    + apply andb_true_iff in E2. destruct E2 as (_ & E2). apply Nat.eqb_eq in E2. subst t0.
      cbn [snd]. rewrite E. exact IH.
    + cbn [filter snd]. destruct (Nat.eqb t0 t); cbn [map]; [f_equal|]; exact IH.
Qed.

Lemma snap_exact : forall t c M l,
  map snd (filter (fun tm : target * pmsg => Nat.eqb (fst tm) t)
             (map (fun ct : chan * target => (snd ct, M)) (filter (fun ct => N.eqb (fst ct) c) l)))
  = map (fun _ => M) (filter (N.eqb c) (subs_of t l)).
Proof.
  intros t c M. unfold subs_of. induction l as [|[c0 t0] l IH]; [reflexivity|].
  cbn [filter fst snd]. rewrite (N.eqb_sym c0 c).
  destruct (N.eqb c c0) eqn:Ec; destruct (Nat.eqb t0 t) eqn:Et; cbn [map filter fst snd];
    rewrite ?Ec, ?Et; cbn [map snd]; rewrite ?IH; reflexivity.
Qed.

Lemma snap_pat : forall t c m l,
  map snd (filter (fun tm : target * pmsg => Nat.eqb (fst tm) t)
             (map (fun pt : chan * target => (snd pt, mkPmsg (Some (fst pt)) c m)) (filter (fun pt => pm (fst pt) c) l)))
  = map (fun p => mkPmsg (Some p) c m) (filter (fun p => pm p c) (subs_of t l)).
Proof.
  intros t c m. unfold subs_of. induction l as [|[p0 t0] l IH]; [reflexivity|].
  cbn [filter fst snd].
  destruct (pm p0 c) eqn:Ep; destruct (Nat.eqb t0 t) eqn:Et; cbn [map filter fst snd];
    rewrite ?Ep, ?Et; cbn [map snd]; rewrite ?IH; reflexivity.
Qed.

Lemma snapshot_for : forall s t su c m, agrees s t su ->
  map snd (filter (fun tm => Nat.eqb (fst tm) t) (snapshot pm s c m)) = expect_one pm su c m.
Proof.
  intros s t su c m (E1 & E2). unfold snapshot, expect_one.
  rewrite filter_app, map_app. rewrite snap_exact, snap_pat. rewrite E1, E2. reflexivity.
Qed.

Lemma updt_same : forall A (f : target -> A) t x, updt f t x t = x.
Proof. intros. unfold updt. now rewrite Nat.eqb_refl. Qed.

Lemma updt_other : forall A (f : target -> A) t x i, i <> t -> updt f t x i = f i.
Proof. intros A f t x i Hne. unfold updt. destruct (Nat.eqb_spec i t); congruence. Qed.

Theorem pubsub_fifo_gen : forall evs s t su,
  agrees s t su -> serialised pm s evs = true ->
  ps_view (prun pm s evs) t = ps_view s t ++ expected pm t su evs.
Proof.
  induction evs as [|ev r IH]; intros s t su Hag Hser.
  - cbn. symmetry. apply app_nil_r.
  - cbn [serialised] in Hser. apply andb_true_iff in Hser. destruct Hser as (Hnow & Hser).
    cbn [prun fold_left]. fold (prun pm (pstep pm s ev) r).
    destruct Hag as (E1 & E2).
    destruct ev as [[|] c t'|[|] c t'|c m| |t0]; cbn [expected].
    + (* PReg pattern *)
      rewrite (IH _ t (if Nat.eqb t' t then mkTsubs (ts_exact su) (add_c c (ts_pat su)) else su)); [reflexivity| |exact Hser].
      split; cbn [pstep ps_exact ps_pat].
      * destruct (Nat.eqb t' t); exact E1.
      * rewrite subs_of_add. destruct (Nat.eqb t' t); cbn [ts_pat]; [rewrite E2; reflexivity | exact E2].
    + (* PReg exact *)
      rewrite (IH _ t (if Nat.eqb t' t then mkTsubs (add_c c (ts_exact su)) (ts_pat su) else su)); [reflexivity| |exact Hser].
      split; cbn [pstep ps_exact ps_pat].
      * rewrite subs_of_add. destruct (Nat.eqb t' t); cbn [ts_exact]; [rewrite E1; reflexivity | exact E1].
      * destruct (Nat.eqb t' t); exact E2.
    + (* PUnreg pattern *)
      rewrite (IH _ t (if Nat.eqb t' t then mkTsubs (ts_exact su) (del_c c (ts_pat su)) else su)); [reflexivity| |exact Hser].
      split; cbn [pstep ps_exact ps_pat].
      * destruct (Nat.eqb t' t); exact E1.
      * rewrite subs_of_del. destruct (Nat.eqb t' t); cbn [ts_pat]; [rewrite E2; reflexivity | exact E2].
    + (* PUnreg exact *)
      rewrite (IH _ t (if Nat.eqb t' t then mkTsubs (del_c c (ts_exact su)) (ts_pat su) else su)); [reflexivity| |exact Hser].
      split; cbn [pstep ps_exact ps_pat].
      * rewrite subs_of_del. destruct (Nat.eqb t' t); cbn [ts_exact]; [rewrite E1; reflexivity | exact E1].
      * destruct (Nat.eqb t' t); exact E2.
    + (* PSnap *)
      destruct (ps_snap s) as [|x xs] eqn:ES; [|discriminate].
      rewrite (IH _ t su); [| |exact Hser].
      * cbn [pstep]. rewrite ES. unfold ps_view. cbn [ps_out ps_inbox ps_snap]. rewrite ES.
        rewrite (snapshot_for s t su c m (conj E1 E2)). cbn [filter map].
        rewrite app_nil_r. rewrite <- !app_assoc. reflexivity.
      * cbn [pstep]. rewrite ES. split; assumption.
    + (* PAppend *)
      rewrite (IH _ t su); [| |exact Hser].
      * f_equal. cbn [pstep]. destruct (ps_snap s) as [|[t0 m0] xs] eqn:ES; [reflexivity|].
        unfold ps_view. cbn [ps_out ps_inbox ps_snap]. rewrite ES. cbn [filter fst].
        destruct (Nat.eqb_spec t0 t) as [->|Hne].
        -- rewrite updt_same. cbn [map snd]. rewrite <- !app_assoc. reflexivity.
        -- rewrite updt_other by congruence. reflexivity.
      * cbn [pstep]. destruct (ps_snap s) as [|[t0 m0] xs]; split; assumption.
    + (* PDrain *)
      rewrite (IH _ t su); [| |exact Hser].
      * f_equal. cbn [pstep]. unfold ps_view. cbn [ps_out ps_inbox ps_snap].
        destruct (Nat.eq_dec t t0) as [->|Hne].
        -- rewrite !updt_same. cbn [app]. rewrite <- !app_assoc. reflexivity.
        -- rewrite !updt_other by exact Hne. reflexivity.
      * cbn [pstep]. split; assumption.
Qed.

Theorem pubsub_fifo : forall evs t,
  serialised pm ps_init evs = true ->
  ps_view (prun pm ps_init evs) t = expected pm t (mkTsubs [] []) evs.
Proof.
  intros evs t H. rewrite (pubsub_fifo_gen evs ps_init t (mkTsubs [] [])); [reflexivity| |exact H].
  split; reflexivity.
Qed.

(* after the publish completes and the subscriber goroutine has run, everything expected is on the socket *)
Theorem pubsub_drained : forall evs t,
  serialised pm ps_init evs = true -> ps_snap (prun pm ps_init evs) = [] ->
  ps_out (prun pm ps_init (evs ++ [PDrain t])) t = expected pm t (mkTsubs [] []) evs.
Proof.
  intros evs t H Hs. pose proof (pubsub_fifo evs t H) as Hv.
  unfold prun in *. rewrite fold_left_app. cbn [fold_left pstep ps_out]. rewrite updt_same.
  unfold ps_view in Hv. rewrite Hs in Hv. cbn [filter map] in Hv. rewrite app_nil_r in Hv. exact Hv.
Qed.

(* what t is owed does not depend on what other connections subscribe to or unsubscribe from *)
Lemma expected_own : forall evs t su, expected pm t su evs = expected pm t su (own_history t evs).
Proof.
  induction evs as [|ev r IH]; intros t su; [reflexivity|].
  unfold own_history in *. destruct ev as [[|] c t'|[|] c t'|c m| |t0]; cbn [filter concerns expected];
    try (destruct (Nat.eqb t' t) eqn:E; cbn [expected]; rewrite ?E; apply IH);
    try (f_equal; apply IH); apply IH.
Qed.

Theorem pubsub_foreign_unsubscribe : forall evs t,
  serialised pm ps_init evs = true ->
  ps_view (prun pm ps_init evs) t = expected pm t (mkTsubs [] []) (own_history t evs).
Proof. intros evs t H. rewrite <- expected_own. apply pubsub_fifo. exact H. Qed.

End Pubsub.

(* ------------------------------------------------------------------------------------------ *)
(* (c) live fences: composition of the FIFO stages lstack -> details -> socket *)

Definition registered (s : lv) (b : lbid) (k : key) : Prop :=
  In (b, k) (lv_lives s) /\ forall k', In (b, k') (lv_lives s) -> k' = k.

Lemma on_key_app : forall k a b, on_key k (a ++ b) = on_key k a ++ on_key k b.
Proof. intros. unfold on_key. rewrite filter_app, map_app. reflexivity. Qed.

Lemma registered_existsb : forall s b k k', registered s b k ->
  existsb (fun bk => Nat.eqb (fst bk) b && N.eqb (snd bk) k') (lv_lives s) = N.eqb k k'.
Proof.
  intros s b k k' (Hin & Hun).
  destruct (N.eqb_spec k k') as [<-|Hne].
  - apply existsb_exists. exists (b, k). split; [exact Hin|]. cbn. rewrite Nat.eqb_refl, N.eqb_refl. reflexivity.
  - match goal with |- ?X = false => destruct X eqn:E; [|reflexivity] end.
    apply existsb_exists in E. destruct E as ([b0 k0] & Hi & Hb). cbn [fst snd] in Hb.
    apply andb_true_iff in Hb. destruct Hb as (Hb1 & Hb2).
    apply Nat.eqb_eq in Hb1. apply N.eqb_eq in Hb2. subst. apply Hun in Hi. congruence.
Qed.

Theorem live_fifo_gen : forall evs s b k,
  registered s b k -> untouched b evs = true ->
  lv_view (lrun s evs) b k = lv_view s b k ++ writes_on k evs.
Proof.
  induction evs as [|ev r IH]; intros s b k Hreg Hun.
  - cbn. symmetry. apply app_nil_r.
  - cbn [lrun fold_left]. fold (lrun (lstep s ev) r).
    destruct ev as [b' k'|b'|k' d| |b0]; cbn [untouched writes_on] in *.
    + apply andb_true_iff in Hun. destruct Hun as (Hb & Hun). apply negb_true_iff in Hb. apply Nat.eqb_neq in Hb.
      rewrite IH; [reflexivity| |exact Hun].
      destruct Hreg as (Hin & Huq). split; cbn [lstep lv_lives].
      * apply in_or_app. left. exact Hin.
      * intros k0 H0. apply in_app_or in H0. destruct H0 as [H0|[H0|[]]]; [auto|]. congruence.
    + apply andb_true_iff in Hun. destruct Hun as (Hb & Hun). apply negb_true_iff in Hb. apply Nat.eqb_neq in Hb.
      rewrite IH; [reflexivity| |exact Hun].
      destruct Hreg as (Hin & Huq). split; cbn [lstep lv_lives].
      * apply filter_In. split; [exact Hin|]. cbn [fst]. apply negb_true_iff. apply Nat.eqb_neq. congruence.
      * intros k0 H0. apply filter_In in H0. apply Huq. tauto.
    + rewrite IH; [| |exact Hun].
      * cbn [lstep]. destruct Hreg as (Hin & _). destruct (lv_lives s) as [|x xs] eqn:EL; [destruct Hin|].
        unfold lv_view. cbn [lv_out lv_details lv_stack]. rewrite on_key_app.
        unfold on_key at 2. cbn [filter fst]. destruct (N.eqb k' k); cbn [map snd app]; rewrite <- ?app_assoc; [reflexivity|].
        reflexivity.
      * cbn [lstep]. unfold registered in *. remember (lv_lives s) as L eqn:EL. destruct L; [rewrite <- EL; exact Hreg|].
        cbn [lv_lives]. exact Hreg.
    + rewrite IH; [| |exact Hun].
      * f_equal. cbn [lstep]. destruct (lv_stack s) as [|[k' d] xs] eqn:ES; [reflexivity|].
        unfold lv_view. cbn [lv_out lv_details lv_stack]. rewrite ES.
        rewrite (registered_existsb s b k k' Hreg). unfold on_key. cbn [filter fst].
        rewrite (N.eqb_sym k' k). destruct (N.eqb k k'); cbn [map snd]; rewrite <- ?app_assoc; reflexivity.
      * cbn [lstep]. destruct (lv_stack s) as [|[k' d] xs]; exact Hreg.
    + rewrite IH; [| |exact Hun].
      * f_equal. cbn [lstep]. destruct (lv_details s b0) as [|d xs] eqn:ED; [reflexivity|].
        unfold lv_view. cbn [lv_out lv_details lv_stack].
        destruct (Nat.eq_dec b b0) as [->|Hne].
        -- rewrite !updt_same. rewrite ED. rewrite <- !app_assoc. reflexivity.
        -- rewrite !updt_other by exact Hne. reflexivity.
      * cbn [lstep]. destruct (lv_details s b0); exact Hreg.
Qed.

(* a live connection registered (and acknowledged) at some point receives every later write on its
   key, in write order, exactly once, after what was already on its way *)
Theorem live_fifo : forall pre evs b k,
  let s0 := lstep (lrun (mkLV [] [] (fun _ => []) (fun _ => [])) pre) (LReg b k) in
  untouched b pre = true -> untouched b evs = true ->
  lv_view (lrun s0 evs) b k = lv_view s0 b k ++ writes_on k evs.
Proof.
  intros pre evs b k s0 Hpre Hun. apply live_fifo_gen; [|exact Hun].
  (* b is not registered after pre, so (b,k) is its only registration *)
  assert (Hno : forall s, (forall k', ~ In (b, k') (lv_lives s)) -> untouched b pre = true ->
                          forall k', ~ In (b, k') (lv_lives (lrun s pre))).
  { clear. induction pre as [|ev r IH]; intros s Hs Hu; [exact Hs|].
    cbn [lrun fold_left]. fold (lrun (lstep s ev) r).
    destruct ev as [b' k1|b'|k1 d| |b0]; cbn [untouched] in Hu.
    - apply andb_true_iff in Hu. destruct Hu as (Hb & Hu). apply negb_true_iff in Hb. apply Nat.eqb_neq in Hb.
      apply IH; [|exact Hu]. intros k' H. cbn [lstep lv_lives] in H. apply in_app_or in H.
      destruct H as [H|[H|[]]]; [eapply Hs; eauto | congruence].
    - apply andb_true_iff in Hu. destruct Hu as (_ & Hu). apply IH; [|exact Hu].
      intros k' H. cbn [lstep lv_lives] in H. apply filter_In in H. eapply Hs. apply H.
    - apply IH; [|exact Hu]. cbn [lstep]. remember (lv_lives s) as L eqn:E. destruct L; [rewrite <- E; exact Hs|].
      cbn [lv_lives]. exact Hs.
    - apply IH; [|exact Hu]. cbn [lstep]. destruct (lv_stack s) as [|[? ?] ?]; exact Hs.
    - apply IH; [|exact Hu]. cbn [lstep]. destruct (lv_details s b0); exact Hs. }
  specialize (Hno (mkLV [] [] (fun _ => []) (fun _ => [])) (fun k' H => H) Hpre).
  unfold s0, registered. cbn [lstep lv_lives]. split.
  - apply in_or_app. right. left. reflexivity.
  - intros k' H. apply in_app_or in H. destruct H as [H|[H|[]]]; [exfalso; eapply Hno; eauto | congruence].
Qed.
