(* Proofs/GlobSelEscProofs.v — lemmas about Model/GlobSelEsc.v (property C12, round 5):
   cmdPDEL's selection is the plain filter for EVERY pattern (escapes included); the literal
   lookup guarded by IsGlob is right exactly when the pattern has no escape (reusing C20's
   roam_shortcut_exact) and wrong otherwise; a command line of plain words reaches the command
   as those words (readNativeMessageLine splits at the blanks), a '['-first word included. *)
From Coq Require Import ZifyN ZifyNat ZifyBool Sorting.Sorted.
From T38 Require Import Base.Bytes Base.Utf8 Model.Glob Proofs.GlobProofs Model.Roam Proofs.RoamPatProofs.
From T38 Require Import Model.Resp Model.GlobSel Proofs.GlobSelProofs Model.GlobSelEsc.
Import ListNotations.
Open Scope N_scope.

(* ---------- PDEL ---------- *)

Theorem pdel_select_exact pattern ids :
  bsorted ids -> prefix_ends_ff pattern = false ->
  pdel_select pattern ids = filter (gmatches pattern) ids.
Proof.
  intros Hs Hff. unfold pdel_select.
  destruct (isempty (g_lim0 (parse pattern false)) && isempty (g_lim1 (parse pattern false))) eqn:Eu; [reflexivity|].
  assert (Hc : forall x, gmatches pattern x = true ->
               bytes_leb (g_lim0 (parse pattern false)) x = true /\ bytes_ltb x (g_lim1 (parse pattern false)) = true).
  { intros x Hx. destruct (parse_covers pattern false x Hx Hff) as [H|H].
    - unfold unlimited in H. congruence.
    - unfold covers in H. apply andb_true_iff in H. exact H. }
  unfold scan_range_visit.
  rewrite (filter_take_until (fun a b => bytes_ltb a b = true)).
  - apply filter_skip_while. intros x Hx. apply Hc in Hx as [Hx _]. apply bytes_leb_ltb_false. exact Hx.
  - apply skip_while_sorted. exact Hs.
  - intros a b Hab Ha. unfold bytes_geb in *. eapply bytes_leb_trans; [exact Ha | apply bytes_ltb_leb; exact Hab].
  - intros x Hx. apply Hc in Hx as [_ Hx]. unfold bytes_geb. apply bytes_ltb_leb_false. exact Hx.
Qed.

Lemma filter_singleton (P : bytes -> bool) (p : bytes) l :
  bsorted l -> (forall s, P s = true <-> p = s) ->
  filter P l = if existsb (bytes_eqb p) l then [p] else [].
Proof.
  intros Hs HP. induction l as [|x r IH]; cbn [filter existsb]; [reflexivity|].
  inversion Hs as [|? ? Hs' Hall]; subst.
  destruct (bytes_eqb p x) eqn:E.
  - apply bytes_eqb_eq in E. subst x. rewrite (proj2 (HP p) eq_refl). cbn [orb].
    rewrite (filter_none P r); [reflexivity|].
    intros y Hy. destruct (P y) eqn:Py; [|reflexivity]. apply HP in Py. subst y.
    rewrite Forall_forall in Hall. specialize (Hall p Hy). rewrite bytes_ltb_irrefl in Hall. discriminate.
  - cbn [orb]. destruct (P x) eqn:Px.
    + apply HP in Px. subst x. rewrite bytes_eqb_refl in E. discriminate.
    + apply IH. exact Hs'.
Qed.

(* the literal lookup is right when the pattern has no escape (and passes IsGlob's probe) *)
Theorem pdel_plain_right_without_escape pattern ids :
  bsorted ids -> is_glob pattern = false -> glob_ok pattern -> ~ In BSL pattern ->
  pdel_select_plain pattern ids = filter (gmatches pattern) ids.
Proof.
  intros Hs Hg Hok Hesc. unfold pdel_select_plain. rewrite Hg. cbn [negb].
  symmetry. apply filter_singleton; [exact Hs|].
  intros s. unfold gmatches. pose proof (roam_shortcut_exact pattern Hg Hok Hesc s) as H.
  destruct (glob_match pattern s) eqn:Em.
  - split; intros _; [apply H; reflexivity | reflexivity].
  - split; intros H1; [discriminate | apply H in H1; discriminate].
  - split; intros H1; [discriminate | apply H in H1; discriminate].
  - split; intros H1; [discriminate | apply H in H1; discriminate].
Qed.

(* ... and wrong with one: PDEL k a\b must delete "ab" and keep "a\b" *)
Theorem pdel_plain_refuted :
  exists pattern ids, bsorted ids /\ prefix_ends_ff pattern = false /\ is_glob pattern = false /\
    pdel_select pattern ids = filter (gmatches pattern) ids /\
    pdel_select_plain pattern ids <> filter (gmatches pattern) ids.
Proof.
  exists [97; 92; 98], [[97; 92; 98]; [97; 98]].
  split; [repeat constructor|]. split; [reflexivity|]. split; [reflexivity|].
  split; [vm_compute; reflexivity|]. vm_compute. discriminate.
Qed.

(* ---------- the line splitter ---------- *)

Lemma split_sp_word w : forall rest acc, ~ In 32 w ->
  split_sp (w ++ 32 :: rest) acc = (rev acc ++ w, Some rest).
Proof.
  induction w as [|c w IH]; intros rest acc Hn; cbn [app split_sp].
  - cbn. rewrite app_nil_r. reflexivity.
  - destruct (N.eqb_spec c 32) as [E|E]; [exfalso; apply Hn; left; auto|].
    rewrite IH by (intros H; apply Hn; right; exact H). cbn [rev]. rewrite <- app_assoc. reflexivity.
Qed.

Lemma split_sp_last w : forall acc, ~ In 32 w -> split_sp w acc = (rev acc ++ w, None).
Proof.
  induction w as [|c w IH]; intros acc Hn; cbn [split_sp].
  - rewrite app_nil_r. reflexivity.
  - destruct (N.eqb_spec c 32) as [E|E]; [exfalso; apply Hn; left; auto|].
    rewrite IH by (intros H; apply Hn; right; exact H). cbn [rev]. rewrite <- app_assoc. reflexivity.
Qed.

Lemma plain_word_inv w : plain_word w = true ->
  exists c w', w = c :: w' /\ c <> 123 /\ c <> 34 /\ ~ In 32 w.
Proof.
  destruct w as [|c w']; cbn [plain_word]; [discriminate|]. intros H.
  apply andb_true_iff in H as [H H3]. apply andb_true_iff in H as [H1 H2].
  exists c, w'. split; [reflexivity|]. split; [lia|]. split; [lia|].
  intros Hin. apply negb_true_iff in H3.
  assert (existsb (N.eqb 32) (c :: w') = true).
  { apply existsb_exists. exists 32. split; [exact Hin | apply N.eqb_refl]. }
  congruence.
Qed.

Lemma native_step w rest racc fuel : plain_word w = true ->
  native_tok (S fuel) (w ++ 32 :: rest) racc = native_tok fuel rest (w :: racc).
Proof.
  intros Hw. destruct (plain_word_inv w Hw) as (c & w' & -> & H1 & H2 & Hn).
  cbn [native_tok app].
  destruct (N.eqb_spec c 123); [contradiction|].
  destruct (N.eqb_spec c 34); [contradiction|]. cbn [andb].
  change (c :: w' ++ 32 :: rest) with ((c :: w') ++ 32 :: rest).
  rewrite (split_sp_word (c :: w') rest [] Hn). cbn [rev app]. reflexivity.
Qed.

Lemma native_last w racc fuel : plain_word w = true ->
  native_tok (S fuel) w racc = TOk (rev (w :: racc)).
Proof.
  intros Hw. destruct (plain_word_inv w Hw) as (c & w' & -> & H1 & H2 & Hn).
  cbn [native_tok].
  destruct (N.eqb_spec c 123); [contradiction|].
  destruct (N.eqb_spec c 34); [contradiction|]. cbn [andb].
  rewrite (split_sp_last (c :: w') [] Hn). reflexivity.
Qed.

Lemma native_words ws : forall racc fuel, ws <> [] -> forallb plain_word ws = true ->
  (length ws <= fuel)%nat -> native_tok fuel (join_sp ws) racc = TOk (rev racc ++ ws).
Proof.
  induction ws as [|w r IH]; intros racc fuel Hne Hall Hf; [congruence|].
  cbn [forallb] in Hall. apply andb_true_iff in Hall as [Hw Hr].
  destruct fuel as [|fuel]; [cbn in Hf; lia|].
  destruct r as [|w2 r'].
  - cbn [join_sp]. rewrite (native_last w racc fuel Hw). cbn [rev]. reflexivity.
  - change (join_sp (w :: w2 :: r')) with (w ++ 32 :: join_sp (w2 :: r')).
    rewrite (native_step w _ racc fuel Hw).
    rewrite IH; [|discriminate|exact Hr|cbn [length] in *; lia].
    cbn [rev]. rewrite <- app_assoc. reflexivity.
Qed.

Lemma join_sp_length ws : forallb plain_word ws = true -> (length ws <= length (join_sp ws))%nat.
Proof.
  induction ws as [|w r IH]; cbn [forallb]; intros H; [cbn; lia|].
  apply andb_true_iff in H as [Hw Hr]. specialize (IH Hr).
  destruct (plain_word_inv w Hw) as (c & w' & -> & _).
  destruct r as [|w2 r']; cbn [join_sp length] in *; [lia|].
  rewrite app_length. cbn [length] in *. lia.
Qed.

(* a line of plain words reaches the command as exactly those words *)
Theorem transport_words_split ws : ws <> [] -> forallb plain_word ws = true ->
  transport_words (join_sp ws) = TOk ws.
Proof.
  intros Hne Hall. unfold transport_words.
  rewrite (native_words ws [] _ Hne Hall); [reflexivity|].
  pose proof (join_sp_length ws Hall). lia.
Qed.

(* a glob pattern opening with a character class is such a word *)
Lemma bracket_word_plain w : ~ In 32 w -> plain_word (LBR :: w) = true.
Proof.
  intros Hn. cbn [plain_word]. change (LBR =? 123) with false. change (LBR =? 34) with false. cbn [negb andb].
  apply negb_true_iff. destruct (existsb (N.eqb 32) (LBR :: w)) eqn:E; [|reflexivity].
  apply existsb_exists in E as [x [Hx Hx']]. apply N.eqb_eq in Hx'. subst x.
  destruct Hx as [Hx|Hx]; [discriminate | contradiction].
Qed.

Theorem bracket_pattern_split pre w post :
  forallb plain_word pre = true -> ~ In 32 w -> post <> [] -> forallb plain_word post = true ->
  transport_words (join_sp (pre ++ (LBR :: w) :: post)) = TOk (pre ++ (LBR :: w) :: post).
Proof.
  intros Hpre Hw Hne Hpost. apply transport_words_split.
  - destruct pre; discriminate.
  - rewrite forallb_app. rewrite Hpre. cbn [forallb andb]. rewrite (bracket_word_plain w Hw). exact Hpost.
Qed.

(* the '{' exclusion is the one documented exception: such a word runs to the end of the line *)
Theorem brace_first_swallows :
  exists ws, ws <> [] /\ (forall w, In w ws -> w <> [] /\ ~ In 32 w) /\ transport_words (join_sp ws) <> TOk ws.
Proof.
  exists [[115]; [123; 97]; [98]]. split; [discriminate|]. split.
  - intros w [<-|[<-|[<-|[]]]]; (split; [discriminate|]); intros H; cbn in H; intuition discriminate.
  - vm_compute. discriminate.
Qed.
