(* Proofs/FenceQueueProofs.v — C05, the webhook path end to end: what the endpoint of a webhook
   accepts, through the hook queue and Hook.proc (C10's queue model) and for every endpoint failure
   pattern within retention, is what a channel and a live connection with the same fence definition
   receive. *)
From Coq Require Import List Bool NArith ZArith Lia.
From T38 Require Import Base.Bytes Model.Fence Model.HookReg Model.Queues Model.FenceQueue
  Proofs.FenceProofs Proofs.FenceRegProofs Proofs.FenceSinkProofs Proofs.QueuesHookProofs.
Import ListNotations.

(* ---------- the message code ---------- *)

Lemma decode_code m : msg_decode (msg_code m) = m.
Proof. destruct m as [[]| |]; reflexivity. Qed.

Lemma decode_code_map l : map msg_decode (map msg_code l) = l.
Proof. rewrite map_map. rewrite <- (map_id l) at 2. apply map_ext. exact decode_code. Qed.

(* ---------- small list facts ---------- *)

Lemma filter_map_swap {A B} (g : A -> B) (p : B -> bool) l :
  filter p (map g l) = map g (filter (fun x => p (g x)) l).
Proof. induction l as [|x l IH]; [reflexivity|]. cbn. destruct (p (g x)); cbn; rewrite IH; reflexivity. Qed.

Lemma filter_ext_In {A} (p q : A -> bool) l : (forall x, In x l -> p x = q x) -> filter p l = filter q l.
Proof.
  induction l as [|x l IH]; intro H; [reflexivity|]. cbn. rewrite (H x (or_introl eq_refl)).
  rewrite IH; [reflexivity|]. intros y Hy. apply H. now right.
Qed.

Lemma flat_map_ext_In {A B} (f g : A -> list B) l : (forall x, In x l -> f x = g x) -> flat_map f l = flat_map g l.
Proof.
  induction l as [|x l IH]; intro H; [reflexivity|]. cbn. rewrite (H x (or_introl eq_refl)).
  rewrite IH; [reflexivity|]. intros y Hy. apply H. now right.
Qed.

Lemma sort_msgs_In t l : In t (sort_msgs l) <-> In t l.
Proof.
  induction l as [|x l IH]; [tauto|]. cbn [sort_msgs fold_right].
  change (In t (tinsert x (sort_msgs l)) <-> In t (x :: l)). rewrite tinsert_In, IH. cbn. intuition.
Qed.

(* every queued webhook message carries the name of one of the candidates *)
Lemma queued_tags cl cf af t :
  In t (snd (queue_hooks cl cf af)) -> exists x, In x cl /\ fst t = h_name x.
Proof.
  unfold queue_hooks. cbn [snd]. rewrite sort_msgs_In, in_flat_map. intros (x & Hx & Ht).
  apply filter_In in Hx. exists x. split; [tauto|]. exact (hook_msgs_tags cf af x t Ht).
Qed.

(* ---------- from the write history to the queue history ---------- *)

(* no candidate of any write of the history shares the queue identity of hook n without being n
   (holds for every injective nm, e.g. the name itself) *)
Definition no_collision (nm : bytes -> hookid) (evs : list sev) (n : bytes) : Prop :=
  forall w x, In w (writes_of evs) -> In x (w_cl w) -> nm (h_name x) = nm n -> h_name x = n.

Lemma injective_no_collision nm evs n : (forall a b, nm a = nm b -> a = b) -> no_collision nm evs n.
Proof. intros Hinj w x _ _ H. exact (Hinj _ _ H). Qed.

Lemma no_collision_cons nm e evs n : no_collision nm (e :: evs) n -> no_collision nm evs n.
Proof.
  intros H w x Hw Hx. apply (H w x); [|assumption]. unfold writes_of. cbn [flat_map].
  apply in_or_app. right. exact Hw.
Qed.

Lemma enq_msgs_write nm w n :
  (forall x, In x (w_cl w) -> nm (h_name x) = nm n -> h_name x = n) ->
  map snd (filter (fun hm : hookid * msgid => N.eqb (fst hm) (nm n))
                  (map (fun t : tagged => (nm (fst t), msg_code (snd t))) (snd (queue_hooks (w_cl w) (w_cf w) (w_af w))))) =
  map msg_code (webhook_delivery (w_cl w) (w_cf w) (w_af w) n).
Proof.
  intro Hnc. rewrite filter_map_swap. cbn [fst]. unfold webhook_delivery, tagged_for.
  rewrite (filter_ext_In _ (fun t : tagged => bytes_eqb (fst t) n)).
  - rewrite !map_map. reflexivity.
  - intros t Ht. destruct (queued_tags _ _ _ _ Ht) as (x & Hx & Hn). rewrite Hn.
    destruct (bytes_eqb (h_name x) n) eqn:E.
    + apply bytes_eqb_eq in E. rewrite E. apply N.eqb_refl.
    + apply N.eqb_neq. intro Hc. apply (Hnc x Hx) in Hc. rewrite Hc, bytes_eqb_refl in E. discriminate.
Qed.

(* the messages the queue model holds for hook n = the webhook messages the writes produced for n *)
Lemma enq_msgs_hist nm n evs :
  no_collision nm evs n ->
  enq_msgs (nm n) (hist nm evs) = map msg_code (webhook_stream evs n).
Proof.
  induction evs as [|[w|m now outs] evs IH]; intro Hnc; [reflexivity| |].
  - unfold hist, webhook_stream, writes_of. cbn [map qev_of enq_of enq_msgs flat_map app].
    rewrite map_app. f_equal.
    + apply enq_msgs_write. intros x Hx. apply (Hnc w x); [|assumption].
      unfold writes_of. cbn [flat_map]. now left.
    + apply IH. exact (no_collision_cons _ _ _ _ Hnc).
  - unfold hist, webhook_stream, writes_of. cbn [map qev_of enq_msgs flat_map app].
    apply IH. exact (no_collision_cons _ _ _ _ Hnc).
Qed.

(* a write history contains no process restart *)
Lemma quiet_hist nm evs : forall q, quiet q (hist nm evs).
Proof.
  induction evs as [|e evs IH]; intro q; cbn [hist map quiet]; [exact I|].
  split; [destruct e; exact I|apply IH].
Qed.

Lemma hist_app nm a b : hist nm (a ++ b) = hist nm a ++ hist nm b.
Proof. apply map_app. Qed.

(* ---------- theorems ---------- *)

(* at every instant, whatever the endpoint did: accepted ++ owed = what the writes queued for n *)
Theorem webhook_queue_prefix nm evs n :
  in_retention (hist nm evs) -> no_collision nm evs n ->
  webhook_stream evs n = webhook_accepted nm evs n ++ webhook_owed nm evs n.
Proof.
  intros Ht Hnc. pose proof (hook_order (hist nm evs) (nm n) Ht (quiet_hist nm evs hq_init)) as Ho.
  cbv zeta in Ho. rewrite (enq_msgs_hist nm n evs Hnc) in Ho.
  apply (f_equal (map msg_decode)) in Ho. rewrite decode_code_map, map_app, !map_map in Ho.
  unfold webhook_accepted, webhook_owed, bodies. exact Ho.
Qed.

Definition recovered (n : bytes) (t1 t2 t3 : Z) : list sev := [SProc n t1 []; SProc n t2 []; SProc n t3 []].

(* once the endpoint answers again, the manager's next rounds hand over everything, in order, once *)
Theorem webhook_queue_eventually nm evs n t1 t2 t3 :
  in_retention (hist nm (evs ++ recovered n t1 t2 t3)) -> no_collision nm evs n ->
  webhook_accepted nm (evs ++ recovered n t1 t2 t3) n = webhook_stream evs n /\
  webhook_owed nm (evs ++ recovered n t1 t2 t3) n = [].
Proof.
  intros Ht Hnc. rewrite hist_app in Ht. unfold recovered in *. cbn [hist map qev_of] in Ht.
  pose proof (hook_eventually_all (hist nm evs) (nm n) t1 t2 t3 Ht (quiet_hist nm evs hq_init)) as He.
  cbv zeta in He. destruct He as (Hd & Hdb & Htk).
  unfold webhook_accepted, webhook_owed, bodies. rewrite hist_app. cbn [hist map qev_of].
  split.
  - rewrite <- (decode_code_map (webhook_stream evs n)), <- (enq_msgs_hist nm n evs Hnc), <- Hd.
    rewrite map_map. reflexivity.
  - unfold pending. rewrite Hdb, Htk. reflexivity.
Qed.

(* the hypotheses of same_for_all_sinks for one write of a history: a SET / FSET (or other
   object-carrying write) on key k, a registry in which webhook hw and channel hc carry the same
   fence definition (key k, DETECT D, area a, hence the same abstract case and COMMANDS verdict),
   w_cl an enumeration of getQueueCandidates' result, and the three oracle hypotheses *)
Definition same_def (hw hc : hook) (k : bytes) (D : dset) (a : rect) (w : fwrite) : Prop :=
  w_key w = k /\
  exists r old_r new_r,
    reg_inv r /\ NoDup (map h_name (w_cl w)) /\ (forall h, In h (w_cl w) <-> In h (candidates r k old_r new_r)) /\
    In hw (hooks r) /\ In hc (hooks r) /\ h_chan hw = false /\ h_chan hc = true /\
    h_key hw = k /\ h_key hc = k /\ h_detect hw = D /\ h_detect hc = D /\
    h_area hw = Some a /\ h_area hc = Some a /\
    w_cf w hc = w_cf w hw /\ w_af w hc = w_af w hw /\
    is_move (c_cmd (w_cf w hw)) = true /\
    (sp_of (c_obj (w_cf w hw)) = true -> exists r2, new_r = Some r2 /\ overlaps a r2 = true) /\
    (sp_of (c_old (w_cf w hw)) = true -> exists r1, old_r = Some r1 /\ overlaps a r1 = true) /\
    (c_cross (w_cf w hw) = true -> is_some (c_old (w_cf w hw)) = true -> is_some (c_obj (w_cf w hw)) = true ->
       exists r1 r2, old_r = Some r1 /\ new_r = Some r2 /\ overlaps a (hull r1 r2) = true).

Lemma same_def_one hw hc k D a w :
  same_def hw hc k D a w ->
  webhook_delivery (w_cl w) (w_cf w) (w_af w) (h_name hw) = channel_delivery (w_cl w) (w_cf w) (w_af w) (h_name hc) /\
  channel_delivery (w_cl w) (w_cf w) (w_af w) (h_name hc) = live_delivery k (w_key w) (w_af w hw) D (w_cf w hw).
Proof.
  intros (Hk & r & old_r & new_r & Hi & Hnd & Hcl & Hw & Hc & Cw & Cc & Kw & Kc & Dw & Dc & Aw & Ac & Xc & Fc & Hm & Hn & Ho & Hx).
  destruct (same_for_all_sinks r (w_cl w) (w_cf w) (w_af w) hw hc k D a (w_cf w hw) (w_af w hw) old_r new_r
              Hi Hnd Hcl Hw Hc Cw Cc Kw Kc Dw Dc Aw Ac eq_refl Xc eq_refl Fc Hm Hn Ho Hx) as (H1 & H2 & H3).
  rewrite Hk. rewrite H1, H2, H3. split; reflexivity.
Qed.

(* The SET / FSET results are identical for a webhook, a channel and a live connection — with the
   webhook's queue and retries in between: for every sequence of writes satisfying same_def,
   interleaved in any way with the halves of Hook.proc of any webhooks under any send outcomes
   (endpoint failure patterns), all within the retention period, after the endpoint has recovered
   the bodies it accepted are, in order and exactly once, the messages published on the channel,
   which are the messages written to the live connection. *)
Theorem same_for_all_sinks_queued nm evs hw hc k D a t1 t2 t3 :
  in_retention (hist nm (evs ++ recovered (h_name hw) t1 t2 t3)) ->
  no_collision nm evs (h_name hw) ->
  Forall (same_def hw hc k D a) (writes_of evs) ->
  webhook_accepted nm (evs ++ recovered (h_name hw) t1 t2 t3) (h_name hw) = channel_stream evs (h_name hc) /\
  channel_stream evs (h_name hc) = live_stream k D hw evs /\
  webhook_owed nm (evs ++ recovered (h_name hw) t1 t2 t3) (h_name hw) = [].
Proof.
  intros Ht Hnc Hall. destruct (webhook_queue_eventually nm evs (h_name hw) t1 t2 t3 Ht Hnc) as (Ha & Ho).
  rewrite Forall_forall in Hall.
  split; [|split; [|exact Ho]].
  - rewrite Ha. unfold webhook_stream, channel_stream. apply flat_map_ext_In.
    intros w Hw. exact (proj1 (same_def_one _ _ _ _ _ _ (Hall w Hw))).
  - unfold channel_stream, live_stream. apply flat_map_ext_In.
    intros w Hw. exact (proj2 (same_def_one _ _ _ _ _ _ (Hall w Hw))).
Qed.

(* ... and before recovery, at every instant and under every failure pattern, what the endpoint has
   accepted so far is a prefix of the channel's sequence: never a message skipped, reordered or
   repeated *)
Theorem webhook_prefix_of_channel nm evs hw hc k D a :
  in_retention (hist nm evs) -> no_collision nm evs (h_name hw) ->
  Forall (same_def hw hc k D a) (writes_of evs) ->
  channel_stream evs (h_name hc) = webhook_accepted nm evs (h_name hw) ++ webhook_owed nm evs (h_name hw).
Proof.
  intros Ht Hnc Hall. rewrite <- (webhook_queue_prefix nm evs (h_name hw) Ht Hnc).
  rewrite Forall_forall in Hall. unfold webhook_stream, channel_stream. apply flat_map_ext_In.
  intros w Hw. symmetry. exact (proj1 (same_def_one _ _ _ _ _ _ (Hall w Hw))).
Qed.

(* without a twin: what the endpoint of webhook h finally accepts is h's own FenceMatch result of
   every write for which it was a candidate, in write order (c05_sink_delivery through the queue) *)
Definition own_reg (h : hook) (w : fwrite) : Prop :=
  exists r, reg_inv r /\ NoDup (map h_name (w_cl w)) /\ (forall x, In x (w_cl w) -> In x (hooks r)) /\ In h (hooks r).

Theorem webhook_queue_own nm evs h t1 t2 t3 :
  h_chan h = false ->
  in_retention (hist nm (evs ++ recovered (h_name h) t1 t2 t3)) ->
  no_collision nm evs (h_name h) ->
  Forall (own_reg h) (writes_of evs) ->
  webhook_accepted nm (evs ++ recovered (h_name h) t1 t2 t3) (h_name h) =
  flat_map (fun w => if existsb (fun x => bytes_eqb (h_name x) (h_name h)) (w_cl w)
                     then msgs_of (fence_match (w_af w h) (h_detect h) (w_cf w h)) else []) (writes_of evs).
Proof.
  intros Hc Ht Hnc Hall. destruct (webhook_queue_eventually nm evs (h_name h) t1 t2 t3 Ht Hnc) as (Ha & _).
  rewrite Ha. unfold webhook_stream. apply flat_map_ext_In. intros w Hw.
  rewrite Forall_forall in Hall. destruct (Hall w Hw) as (r & Hi & Hnd & Hsub & Hin).
  pose proof (sink_delivery r (w_cl w) (w_cf w) (w_af w) h Hi Hnd Hsub Hin) as H. rewrite Hc in H. exact H.
Qed.
