(* C08, the part "every data-modifying command is handed to the log at all":

   1. over the tables t38x regenerates from /repo (Gen/LockTable.v = handleInputCommand's lock
      switch, Gen/Dispatch.v = Server.command's switch, Gen/Mutators.v = what every handler can
      modify, Gen/ScriptTables.v = the three tile38.call switches): a command whose handler can
      modify the dataset, once it passes the gate, runs with write = true in a table that calls
      writeAOF after the handler (directly and from scripts);
   2. over the keyspace handlers (Model/Keyspace.v, the model C01 ties to crud.go / json.go): a
      command that changed the dataset reported updated = true, i.e. writeAOF did not take its
      `!d.updated` early return: the log record is exactly the command's argument list;
   3. the hand-written lock-table arm of Model/Keyspace.v agrees with the regenerated table.

   Model/Prewrite.v (c08_acked_flushed) starts where this ends: a command that reaches writeAOF's
   append is in the file before its reply is sent. *)
From Coq Require Import String List Bool ZArith.
From T38 Require Import Model.Tables Gen.LockTable Gen.Dispatch Gen.ScriptTables Gen.AuthGate Gen.Mutators
  Model.Gate Proofs.GateProofs.
From T38 Require Base.Bytes Base.SMap Model.Spec Model.Keyspace Proofs.KsInv Proofs.KsProgram Proofs.KsReplay.
Import ListNotations.
Open Scope string_scope.

(* ---------- 1. the gate: whatever the statement order, a handler that runs, runs with the lock
   and the write flag of its arm ---------- *)

Lemma run_gate_vrun steps outer inner e k : forall a l w fn,
  run_gate steps outer inner e k a = VRun l w fn ->
  l = a_lock (arm_of lock_table inner) /\ w = a_write (arm_of lock_table inner) /\
  exists h, find_handler dispatch inner = Some h /\ fn = h_fn h.
Proof.
  induction steps as [|st rest IH]; intros a l w fn H; [discriminate|].
  destruct st; cbn [run_gate] in H.
  - destruct (in_strs outer early_reply_cmds); [discriminate | eapply IH; eassumption].
  - destruct (e_loading e && negb (in_strs inner loading_exempt)); [discriminate | eapply IH; eassumption].
  - destruct (String.eqb outer "hello"); [discriminate | eapply IH; eassumption].
  - eapply IH; eassumption.
  - destruct ((negb a || String.eqb outer "auth") && negb (in_strs outer auth_exempt)).
    + destruct (e_requirepass e).
      * destruct (String.eqb outer "auth"); destruct (k_http_auth k) as [[|]|];
          try destruct (k_auth_arg_ok k); try discriminate; eapply IH; eassumption.
      * destruct (String.eqb inner "auth"); [discriminate | eapply IH; eassumption].
    + eapply IH; eassumption.
  - destruct (arm_verdict (arm_of lock_table inner) e); [discriminate | eapply IH; eassumption].
  - destruct (find_handler dispatch inner) as [h|] eqn:Eh; [|discriminate].
    inversion H; subst. repeat split. exists h. split; reflexivity.
  - eapply IH; eassumption.
Qed.

(* a direct command that can modify the dataset and is let through by the gate runs under the
   exclusive lock with write = true, and the `if write { s.writeAOF(...) }` follows the handler *)
Theorem changing_cmd_reaches_writeaof outer inner e k l w fn :
  gate outer inner e k = VRun l w fn ->
  changes inner = true -> in_strs inner dev_only = false ->
  w = true /\ t_logs_on_write lock_table = true /\ before GCommand GWriteAOF gate_order = true.
Proof.
  intros Hg Hc Hd. unfold gate in Hg.
  destruct (run_gate_vrun _ _ _ _ _ _ _ _ _ Hg) as [_ [Hw _]].
  pose proof (every_change_logged inner) as L. unfold logged_check in L.
  rewrite Hc, Hd in L. cbn in L. apply andb_true_iff in L as [La Lt].
  split; [rewrite Hw; exact La|]. split; [exact Lt|].
  exact (proj2 (proj2 (proj2 (proj2 gate_order_ok)))).
Qed.

(* the same for a sub-command of a read-write script (EVAL / EVALSHA: script_rw, EVALNA /
   EVALNASHA: script_na): tile38.call lets it run with write = true and calls writeAOF itself *)
Theorem changing_script_cmd_reaches_writeaof t c e l w fn :
  In t [script_rw; script_na] ->
  script_gate t c e = SRun l w fn -> changes_script c = true ->
  w = true /\ t_logs_on_write t = true.
Proof.
  intros Ht Hg Hc. pose proof (script_writes_logged t Ht c) as L.
  unfold script_logged_check in L. rewrite Hc in L. cbn [implb] in L.
  unfold script_gate in Hg.
  destruct (in_strs c script_deny); [discriminate|]. cbn [orb] in L.
  destruct (a_reject (arm_of t c)); try discriminate.
  apply andb_true_iff in L as [La Lt].
  destruct (arm_verdict (arm_of t c) e) as [[]|]; try discriminate.
  destruct (find_handler dispatch_script c); [|discriminate].
  inversion Hg; subst. split; assumption.
Qed.

(* every command of the write arm has a handler that can modify the dataset, and nothing else
   is in it (so "data-modifying command" and "command of the write arm" are the same set), and the
   script tables' write arms are the write arm minus what scripts refuse *)
Definition write_arm_cmds (t : table) : list string :=
  flat_map (fun a => if a_write a then a_cmds a else []) (t_arms t).

Lemma write_arm_is_the_changing_set :
  forallb (fun c => Bool.eqb (changes c && negb (in_strs c dev_only)) (in_strs c (write_arm_cmds lock_table)))
          all_command_names = true /\
  a_write (t_default lock_table) = false.
Proof. vm_compute. split; reflexivity. Qed.

(* ---------- 3. Model/Keyspace.v's arm_of against the regenerated lock table ---------- *)

Definition hook_chan_cmds : list string := ["setchan"; "pdelchan"; "delchan"; "sethook"; "pdelhook"; "delhook"].

Definition ks_is_write (c : string) : bool :=
  match Keyspace.arm_of (Spec.bs c) with Keyspace.ArmWrite => true | _ => false end.

Lemma ks_arm_matches_table :
  forallb (fun c => Bool.eqb (ks_is_write c) (a_write (arm_of lock_table c) && negb (in_strs c hook_chan_cmds)))
          all_command_names = true.
Proof. vm_compute. reflexivity. Qed.

(* ---------- 2. the keyspace handlers: changed => logged, with the command's own bytes ---------- *)

Section KsLogged.
Variable O : Spec.oracle.

(* Keyspace.exec's third component is what writeAOF appends: [] after the `!d.updated` return (or
   for a command outside the write arm), [args] otherwise *)
Lemma exec_log_shape e s args s' r log :
  Keyspace.exec O true e s args = Keyspace.Done s' r log -> log = [] \/ log = [args].
Proof.
  unfold Keyspace.exec. destruct (Keyspace.dispatch O e args) as [c w q|r0].
  - destruct (Keyspace.run_req O true e s q) as [[[s1 r1] u1]|]; [|discriminate].
    intros H. inversion H. destruct (w && u1); [right | left]; reflexivity.
  - intros H. inversion H. left. reflexivity.
Qed.

Theorem ks_changed_logged e s args s' r log :
  KsInv.inv s -> Keyspace.exec O true e s args = Keyspace.Done s' r log -> s' <> s -> log = [args].
Proof.
  intros Hi Hx Hne. destruct (exec_log_shape _ _ _ _ _ _ Hx) as [L|L]; [|exact L].
  exfalso. apply Hne. pose proof (KsReplay.ks_noupd O e s args Hi) as N.
  unfold KsReplay.ks_exec in N. rewrite Hx in N. cbn [fst snd] in N. subst log. apply N. reflexivity.
Qed.

(* along a whole program: the invariant is preserved, so the statement holds at every step *)
Theorem ks_changed_logged_flag e s args :
  KsInv.inv s -> fst (KsReplay.ks_exec O e s args) <> s -> snd (KsReplay.ks_exec O e s args) = true.
Proof.
  intros Hi Hne. destruct (snd (KsReplay.ks_exec O e s args)) eqn:E; [reflexivity|].
  exfalso. apply Hne. apply KsReplay.ks_noupd; assumption.
Qed.

End KsLogged.

(* witnesses: the overwrite variant of RENAME, and RENAMENX onto a free name, change the keyspace
   and are logged with their own argument list; RENAMENX onto an existing key changes nothing and
   is not logged *)
Definition w_SET : Bytes.bytes := Eval compute in Spec.bs "SET".
Definition w_RENAME : Bytes.bytes := Eval compute in Spec.bs "RENAME".
Definition w_RENAMENX : Bytes.bytes := Eval compute in Spec.bs "RENAMENX".
Definition w_n : Bytes.bytes := Eval compute in Spec.bs "n".

Definition two_keys : list Keyspace.step :=
  [(KsProgram.toy_env 5%Z, [w_SET; KsProgram.w_k; KsProgram.w_a; KsProgram.w_STRING; KsProgram.w_speed]);
   (KsProgram.toy_env 5%Z, [w_SET; KsProgram.w_g; KsProgram.w_b; KsProgram.w_STRING; KsProgram.w_speed])].

Lemma rename_variants_witness :
  exists s, Keyspace.run KsProgram.toy_oracle true [] two_keys = Some (s, [Spec.ROk Spec.str_OK; Spec.ROk Spec.str_OK]) /\
    (exists s' r, Keyspace.exec KsProgram.toy_oracle true (KsProgram.toy_env 6%Z) s [w_RENAME; KsProgram.w_k; KsProgram.w_g]
                  = Keyspace.Done s' r [[w_RENAME; KsProgram.w_k; KsProgram.w_g]] /\ s' <> s) /\
    (exists s' r, Keyspace.exec KsProgram.toy_oracle true (KsProgram.toy_env 6%Z) s [w_RENAMENX; KsProgram.w_k; w_n]
                  = Keyspace.Done s' r [[w_RENAMENX; KsProgram.w_k; w_n]] /\ s' <> s) /\
    (exists r, Keyspace.exec KsProgram.toy_oracle true (KsProgram.toy_env 6%Z) s [w_RENAMENX; KsProgram.w_k; KsProgram.w_g]
               = Keyspace.Done s r []).
Proof.
  eexists. split; [vm_compute; reflexivity|]. split; [|split].
  - eexists. eexists. split; [vm_compute; reflexivity | vm_compute; discriminate].
  - eexists. eexists. split; [vm_compute; reflexivity | vm_compute; discriminate].
  - eexists. vm_compute. reflexivity.
Qed.
