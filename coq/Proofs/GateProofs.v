(* Lemmas over the regenerated tables (coq/Gen) and the gate model (Model/Gate.v).
   The tables are finite, so the table facts are computed (vm_compute) over the complete list of
   command names that occur in them and lifted to EVERY string by the lookup lemmas below. *)
From Coq Require Import String List Bool.
From T38 Require Import Model.Tables Gen.LockTable Gen.Dispatch Gen.ScriptTables Gen.AuthGate Gen.Mutators Model.Gate.
Import ListNotations.
Open Scope string_scope.

Lemma in_strs_In s l : in_strs s l = true <-> In s l.
Proof.
  unfold in_strs. rewrite existsb_exists. split.
  - intros [x [Hx He]]. apply String.eqb_eq in He. subst. exact Hx.
  - intros H. exists s. split; [exact H | apply String.eqb_refl].
Qed.

Lemma find_handler_In hs c h : find_handler hs c = Some h -> In c (map h_cmd hs).
Proof.
  induction hs as [|x hs IH]; cbn; [discriminate|].
  destruct (String.eqb_spec (h_cmd x) c) as [E|E]; [intros _; left; exact E | intros H; right; exact (IH H)].
Qed.

Lemma handler_effects_nil hs c : ~ In c (map h_cmd hs) -> handler_effects hs c = [].
Proof.
  unfold handler_effects. destruct (find_handler hs c) eqn:E; [|reflexivity].
  intros H. exfalso. apply H. eapply find_handler_In; eauto.
Qed.

Lemma touches_nil st : touches st [] = false.
Proof. reflexivity. Qed.

(* lifting: a boolean check that holds on every listed command and on every command without a
   handler holds for every string *)
Lemma lift_dispatch (hs : list handler) (P : string -> bool) :
  forallb P (map h_cmd hs) = true ->
  (forall c, handler_effects hs c = [] -> find_handler hs c = None -> P c = true) ->
  forall c, P c = true.
Proof.
  intros Hall Hnone c.
  destruct (find_handler hs c) as [h|] eqn:E.
  - rewrite forallb_forall in Hall. apply Hall. eapply find_handler_In; eauto.
  - apply Hnone; [unfold handler_effects; rewrite E; reflexivity | exact E].
Qed.

(* ---------- C15: follower / read-only ---------- *)

Definition follower_ro_check (c : string) : bool :=
  implb (changes c && negb (in_strs c dev_only))
        (a_chk_follower (arm_of lock_table c) && a_chk_readonly (arm_of lock_table c)).

Lemma follower_ro_all : forall c, follower_ro_check c = true.
Proof.
  apply (lift_dispatch dispatch).
  - vm_compute. reflexivity.
  - intros c He _. unfold follower_ro_check, changes. rewrite He. reflexivity.
Qed.

Lemma changing_cmd_rejected c e :
  changes c = true -> in_strs c dev_only = false ->
  (e_follower e = true \/ e_readonly e = true) ->
  match arm_verdict (arm_of lock_table c) e with Some ENotLeader | Some EReadOnly => True | _ => False end.
Proof.
  intros Hc Hd Hm. pose proof (follower_ro_all c) as H. unfold follower_ro_check in H.
  rewrite Hc, Hd in H. cbn in H. apply andb_true_iff in H as [Hf Hr].
  unfold arm_verdict. rewrite Hf, Hr. cbn.
  destruct (e_follower e); cbn; [exact I|].
  destruct Hm as [Hm|Hm]; [discriminate|]. rewrite Hm. exact I.
Qed.

(* script variants: a changing sub-command is refused outright or goes through the same two tests *)
Definition script_follower_ro_check (t : table) (c : string) : bool :=
  implb (changes_script c)
        (in_strs c script_deny ||
         match a_reject (arm_of t c) with
         | RNo => a_chk_follower (arm_of t c) && a_chk_readonly (arm_of t c)
         | _ => true
         end).

Lemma script_follower_ro_all :
  forall t, In t [script_rw; script_ro; script_na] -> forall c, script_follower_ro_check t c = true.
Proof.
  intros t Ht. apply (lift_dispatch dispatch_script).
  - cbn in Ht. destruct Ht as [<-|[<-|[<-|[]]]]; vm_compute; reflexivity.
  - intros c He _. unfold script_follower_ro_check, changes_script. rewrite He. reflexivity.
Qed.

(* ---------- C15: never caught up ---------- *)

Definition caughtup_check (c : string) : bool :=
  implb (reads_objects c && negb (in_strs c dev_only))
        (a_chk_caughtup (arm_of lock_table c) || a_chk_follower (arm_of lock_table c)).

Lemma caughtup_all : forall c, caughtup_check c = true.
Proof.
  apply (lift_dispatch dispatch).
  - vm_compute. reflexivity.
  - intros c He _. unfold caughtup_check, reads_objects. rewrite He. reflexivity.
Qed.

Definition script_caughtup_check (t : table) (c : string) : bool :=
  implb (reads_objects_script c)
        (in_strs c script_deny ||
         match a_reject (arm_of t c) with
         | RNo => a_chk_caughtup (arm_of t c) || a_chk_follower (arm_of t c)
         | _ => true
         end).

Lemma script_caughtup_all :
  forall t, In t [script_rw; script_ro; script_na] -> forall c, script_caughtup_check t c = true.
Proof.
  intros t Ht. apply (lift_dispatch dispatch_script).
  - cbn in Ht. destruct Ht as [<-|[<-|[<-|[]]]]; vm_compute; reflexivity.
  - intros c He _. unfold script_caughtup_check, reads_objects_script. rewrite He. reflexivity.
Qed.

(* ---------- C15: authentication ---------- *)

Definition no_credentials (outer : string) (k : cred) : Prop :=
  k_authd k = false /\ k_http_auth k <> Some true /\ (outer = "auth" -> k_auth_arg_ok k = false).

(* the statement order the proof relies on, computed from Gen/AuthGate.v *)
Lemma gate_order_ok :
  before GAuth GLockSwitch gate_order = true /\ before GAuth GCommand gate_order = true /\
  before GTimeoutRewrite GLockSwitch gate_order = true /\ before GLockSwitch GCommand gate_order = true /\
  before GCommand GWriteAOF gate_order = true.
Proof. vm_compute. auto. Qed.

Lemma exempt_lists_ok :
  incl early_reply_cmds ["ping"; "echo"] /\ incl auth_exempt ["output"; "healthz"].
Proof. split; intros x Hx; vm_compute in Hx; cbn; tauto. Qed.

(* run_gate up to and including GAuth, on the regenerated order *)
Lemma gate_unauthenticated outer inner e k :
  e_requirepass e = true -> no_credentials outer k ->
  match gate outer inner e k with
  | VEarly => In outer ["ping"; "echo"]
  | VErr _ => True
  | VAuthOK => False
  | VRun _ _ _ => In outer ["output"; "healthz"]
  end.
Proof.
  intros Hp [Ha [Hh Harg]]. unfold gate. rewrite Ha.
  (* unfold the fold over the concrete order *)
  change gate_order with (ltac:(let x := eval vm_compute in gate_order in exact x)).
  cbn [run_gate].
  destruct (in_strs outer early_reply_cmds) eqn:Eearly.
  { apply in_strs_In in Eearly. apply (proj1 exempt_lists_ok) in Eearly. exact Eearly. }
  destruct (e_loading e && negb (in_strs inner loading_exempt)); [exact I|].
  destruct (String.eqb outer "hello"); [exact I|].
  cbn [negb orb].
  destruct (in_strs outer auth_exempt) eqn:Eex; cbn [negb andb].
  - (* output / healthz pass the auth block *)
    apply in_strs_In in Eex. apply (proj2 exempt_lists_ok) in Eex.
    destruct (arm_verdict (arm_of lock_table inner) e); [exact I|].
    destruct (find_handler dispatch inner); [exact Eex | exact I].
  - rewrite Hp.
    destruct (String.eqb_spec outer "auth") as [Eo|Eo].
    + rewrite (Harg Eo). destruct (k_http_auth k) as [[|]|]; [congruence | exact I | exact I].
    + destruct (k_http_auth k) as [[|]|]; [congruence | exact I | exact I].
Qed.

(* output and healthz, the only commands an unauthenticated connection gets to run, neither touch
   the dataset nor hand out objects *)
Lemma exempt_handlers_harmless :
  forallb (fun c => negb (changes c) && negb (reads_objects c)) auth_exempt = true.
Proof. vm_compute. reflexivity. Qed.

Lemma wrong_password_never_auths outer inner e k :
  e_requirepass e = true -> no_credentials outer k -> gate outer inner e k <> VAuthOK.
Proof.
  intros Hp Hn H. pose proof (gate_unauthenticated outer inner e k Hp Hn) as G. rewrite H in G. exact G.
Qed.

(* ---------- C15: the authd flag of a connection ---------- *)

(* the message presents the configured password: requirepass is set at that moment and the HTTP
   credentials match, or it is an AUTH whose argument matches *)
Definition presents_password (outer : string) (e : env) (k : cred) : Prop :=
  e_requirepass e = true /\ (k_http_auth k = Some true \/ (outer = "auth" /\ k_auth_arg_ok k = true)).

Lemma run_gate_authd_tail steps outer inner e k :
  ~ In GAuth steps -> forall a, run_gate_authd steps outer inner e k a = a.
Proof.
  induction steps as [|st rest IH]; intros Hn a; [reflexivity|].
  assert (Hr : ~ In GAuth rest) by (intros H; apply Hn; right; exact H).
  destruct st; cbn [run_gate_authd];
    try (exfalso; apply Hn; left; reflexivity);
    repeat match goal with |- context [if ?b then _ else _] => destruct b end;
    try reflexivity; apply IH; exact Hr.
Qed.

(* one message: the flag is true afterwards only if it was true before or the password was presented *)
Lemma authd_only_by_password :
  authd_assignments = 1 /\
  forall outer inner e k, gate_authd outer inner e k = true ->
    k_authd k = true \/ presents_password outer e k.
Proof.
  split; [vm_compute; reflexivity|].
  intros outer inner e k. unfold gate_authd, presents_password.
  change gate_order with (ltac:(let x := eval vm_compute in gate_order in exact x)).
  cbn [run_gate_authd].
  destruct (k_authd k) eqn:Ea; [intros _; left; reflexivity|].
  destruct (in_strs outer early_reply_cmds); [discriminate|].
  destruct (e_loading e && negb (in_strs inner loading_exempt)); [discriminate|].
  destruct (String.eqb outer "hello"); [discriminate|].
  cbn [negb orb].
  destruct (in_strs outer auth_exempt); cbn [negb andb]; [discriminate|].
  destruct (e_requirepass e) eqn:Ep.
  - destruct (String.eqb_spec outer "auth") as [Eo|Eo].
    + destruct (k_http_auth k) as [[|]|] eqn:Eh; try discriminate.
      * intros _. right. split; [reflexivity | left; reflexivity].
      * destruct (k_auth_arg_ok k) eqn:Ek; [|discriminate].
        intros _. right. split; [reflexivity | right; split; [exact Eo | reflexivity]].
    + destruct (k_http_auth k) as [[|]|] eqn:Eh; try discriminate.
      intros _. right. split; [reflexivity | left; reflexivity].
  - destruct (String.eqb inner "auth"); discriminate.
Qed.

(* a whole connection: if no message of the history presented the password (in particular: every
   message sent while NO password was configured), the flag is still false — whatever the
   configuration was at each moment *)
Lemma conn_never_authd_without_password ms :
  Forall (fun m => ~ presents_password (cm_outer m) (cm_env m) (cmsg_cred false m)) ms ->
  conn_authd ms false = false.
Proof.
  induction ms as [|m rest IH]; intros H; [reflexivity|].
  inversion H as [|? ? Hm Hr]; subst. cbn [conn_authd].
  destruct (gate_authd (cm_outer m) (cm_inner m) (cm_env m) (cmsg_cred false m)) eqn:E.
  - exfalso. apply (proj2 authd_only_by_password) in E. destruct E as [E|E]; [discriminate E | exact (Hm E)].
  - apply IH. exact Hr.
Qed.

(* ... hence the next message of such a connection is gated like one of a new connection *)
Lemma stale_connection_gated ms m :
  Forall (fun x => ~ presents_password (cm_outer x) (cm_env x) (cmsg_cred false x)) ms ->
  e_requirepass (cm_env m) = true ->
  cm_http_auth m <> Some true -> (cm_outer m = "auth" -> cm_auth_arg_ok m = false) ->
  match gate (cm_outer m) (cm_inner m) (cm_env m) (cmsg_cred (conn_authd ms false) m) with
  | VEarly => In (cm_outer m) ["ping"; "echo"]
  | VErr _ => True
  | VAuthOK => False
  | VRun _ _ _ => In (cm_outer m) ["output"; "healthz"]
  end.
Proof.
  intros Hms Hp Hh Ha. rewrite (conn_never_authd_without_password ms Hms).
  apply gate_unauthenticated; [exact Hp|]. unfold no_credentials, cmsg_cred. cbn.
  split; [reflexivity | split; [exact Hh | exact Ha]].
Qed.

(* ---------- C07: lock table soundness ---------- *)

Lemma cmd_lock_sound_all : forall c, in_strs c dev_only = false -> cmd_lock_sound c = true.
Proof.
  assert (H : forall c, (in_strs c dev_only || cmd_lock_sound c) = true).
  { apply (lift_dispatch dispatch).
    - vm_compute. reflexivity.
    - intros c He Hn. unfold cmd_lock_sound. rewrite He.
      (* no handler: the default/any arm with only writeAOF's effects; all arms with a_write lock exclusively *)
      apply orb_true_iff. right.
      assert (Hw : forallb (fun a => implb (a_write a) (match a_lock a with LExcl => true | _ => false end))
                     (t_default lock_table :: t_arms lock_table) = true) by (vm_compute; reflexivity).
      rewrite forallb_forall in Hw.
      assert (Ha : In (arm_of lock_table c) (t_default lock_table :: t_arms lock_table)).
      { unfold arm_of. destruct (find_arm (t_arms lock_table) c) as [a|] eqn:Ef; [right | left; reflexivity].
        clear -Ef. induction (t_arms lock_table) as [|x l IH]; cbn in *; [discriminate|].
        destruct (in_strs c (a_cmds x)); [inversion Ef; left; reflexivity | right; apply IH; exact Ef]. }
      specialize (Hw _ Ha). cbn [app].
      destruct (a_write (arm_of lock_table c)); [|reflexivity].
      cbn in Hw. destruct (a_lock (arm_of lock_table c)); try discriminate.
      apply forallb_forall. intros m _. apply orb_true_iff. right. cbn. reflexivity. }
  intros c Hd. specialize (H c). rewrite Hd in H. exact H.
Qed.

Lemma background_lock_sound :
  forallb (fun fn => in_strs fn dispatcher_entries || entry_lock_sound fn) go_entries = true.
Proof. vm_compute. reflexivity. Qed.

(* the expiry sweep is ONE critical section: backgroundExpiring takes the exclusive lock once and
   neither sweeper (nor anything they call) takes or releases the server lock, so the decision
   "this object has expired" and its deletion cannot be separated by another command *)
Lemma sweepers_single_section :
  fn_takes_lock "backgroundExpireObjects" = false /\ fn_takes_lock "backgroundExpireHooks" = false /\
  fn_takes_lock "backgroundExpiring" = true /\ entry_lock_sound "backgroundExpiring" = true /\
  forallb (fun m => is_excl (m_ctx m)) (fn_effects "backgroundExpiring") = true.
Proof. vm_compute. repeat split. Qed.

(* multi-object commands and scripts never release the lock they run under *)
Lemma multi_object_atomic :
  forallb (fun c => match find_handler dispatch c with
                    | Some h => negb (fn_takes_lock (h_fn h)) &&
                                match a_lock (arm_of lock_table c) with LExcl => true | _ => false end
                    | None => false end)
          ["pdel"; "drop"; "rename"; "renamenx"; "flushdb"; "eval"; "evalsha"; "set"; "del"; "fset"; "jset"; "jdel"; "expire"; "persist"] = true.
Proof. vm_compute. reflexivity. Qed.

(* ---------- C18 ---------- *)

Lemma eval_is_one_critical_section :
  a_lock (arm_of lock_table "eval") = LExcl /\ a_lock (arm_of lock_table "evalsha") = LExcl /\
  fn_takes_lock "cmdEvalUnified" = false /\ fn_takes_lock "luaTile38AtomicRW" = false /\
  forallb (fun a => match a_lock a with LNone => true | _ => false end) (t_default script_rw :: t_arms script_rw) = true /\
  assoc script_variant "eval" = Some script_rw /\ assoc script_variant "evalsha" = Some script_rw.
Proof. vm_compute. repeat split. Qed.

Lemma evalro_shared_and_pure :
  a_lock (arm_of lock_table "evalro") = LShared /\ a_lock (arm_of lock_table "evalrosha") = LShared /\
  assoc script_variant "evalro" = Some script_ro /\ assoc script_variant "evalrosha" = Some script_ro /\
  fn_takes_lock "luaTile38AtomicRO" = false.
Proof. vm_compute. repeat split. Qed.

Definition ro_pure_check (c : string) : bool :=
  implb (changes_script c)
        (in_strs c script_deny || match a_reject (arm_of script_ro c) with RNo => false | _ => true end).

Lemma ro_never_mutates : forall c, ro_pure_check c = true.
Proof.
  apply (lift_dispatch dispatch_script).
  - vm_compute. reflexivity.
  - intros c He _. unfold ro_pure_check, changes_script. rewrite He. reflexivity.
Qed.

Lemma ro_never_mutates_gate c e fn l w :
  script_gate script_ro c e = SRun l w fn -> changes_script c = false /\ w = false.
Proof.
  intros H. pose proof (ro_never_mutates c) as R. unfold ro_pure_check in R.
  unfold script_gate in H.
  destruct (in_strs c script_deny) eqn:Ed; [discriminate|].
  destruct (a_reject (arm_of script_ro c)) eqn:Er; try discriminate.
  rewrite ?Ed, ?Er in R. cbn in R.
  destruct (changes_script c); [discriminate|]. split; [reflexivity|].
  destruct (arm_verdict (arm_of script_ro c) e) as [[]|]; try discriminate.
  destruct (find_handler dispatch_script c); [|discriminate].
  inversion H; subst.
  assert (Hw : forallb (fun a => negb (a_write a)) (t_default script_ro :: t_arms script_ro) = true) by (vm_compute; reflexivity).
  rewrite forallb_forall in Hw.
  assert (Ha : In (arm_of script_ro c) (t_default script_ro :: t_arms script_ro)).
  { unfold arm_of. destruct (find_arm (t_arms script_ro) c) as [a|] eqn:Ef; [right | left; reflexivity].
    clear -Ef. induction (t_arms script_ro) as [|x l' IH]; cbn in *; [discriminate|].
    destruct (in_strs c (a_cmds x)); [inversion Ef; left; reflexivity | right; apply IH; exact Ef]. }
  specialize (Hw _ Ha). apply negb_true_iff in Hw. exact Hw.
Qed.

(* every changing sub-command that a read-write script variant lets through is logged *)
Definition script_logged_check (t : table) (c : string) : bool :=
  implb (changes_script c)
        (in_strs c script_deny ||
         match a_reject (arm_of t c) with RNo => a_write (arm_of t c) && t_logs_on_write t | _ => true end).

Lemma script_writes_logged :
  forall t, In t [script_rw; script_na] -> forall c, script_logged_check t c = true.
Proof.
  intros t Ht. apply (lift_dispatch dispatch_script).
  - cbn in Ht. destruct Ht as [<-|[<-|[]]]; vm_compute; reflexivity.
  - intros c He _. unfold script_logged_check, changes_script. rewrite He. reflexivity.
Qed.

(* EVALNA: each sub-command takes the server lock itself, the outer command holds none *)
Lemma evalna_per_call :
  a_lock (arm_of lock_table "evalna") = LNone /\ a_lock (arm_of lock_table "evalnasha") = LNone /\
  assoc script_variant "evalna" = Some script_na /\ assoc script_variant "evalnasha" = Some script_na /\
  forallb (fun c => script_cmd_lock_sound script_na LNone c) (map h_cmd dispatch_script) = true.
Proof. vm_compute. repeat split. Qed.

Lemma eval_sub_commands_lock_sound :
  forallb (fun c => script_cmd_lock_sound script_rw LExcl c) (map h_cmd dispatch_script) = true.
Proof. vm_compute. reflexivity. Qed.

(* every changing direct command is logged: its arm has write = true and the table logs on write *)
Definition logged_check (c : string) : bool :=
  implb (changes c && negb (in_strs c dev_only)) (a_write (arm_of lock_table c) && t_logs_on_write lock_table).

Lemma every_change_logged : forall c, logged_check c = true.
Proof.
  apply (lift_dispatch dispatch).
  - vm_compute. reflexivity.
  - intros c He _. unfold logged_check, changes. rewrite He. reflexivity.
Qed.
