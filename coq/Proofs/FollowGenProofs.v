(* C06 — lemmas about Model/FollowGen.v (follow generations, followers without a log).
   First the obligations that tie the model's configuration to the source as rendered by t38x
   (Gen/FollowSteps.v), then the properties of the transition system. *)
From Coq Require Import List ZArith Bool String Arith Lia.
From T38 Require Import Base.Bytes Model.Follow Model.FollowGen Gen.FollowSteps.
Import ListNotations.

(* ---------- the source, read back ---------- *)

(* where a stale generation ends: followStep at its top, followCheckSome and followHandleCommand right after s.mu
   is taken, and (proposed_fixes/C06-stale-generation-flag.diff) under s.mu before faofsz / the caught-up flag are
   written after the AOF reply and in the read loop *)
Lemma gen_guards_transcribed :
  cfg_of follow_step follow_check_some follow_handle_command = proved_cfg.
Proof. vm_compute. reflexivity. Qed.

(* in the caught-up block of the read loop the stale attempt returns under the generation test; nothing of the block
   that touches the server is reached by it *)
Lemma stale_in_loop_block_reaches_nothing :
  stale_run (after_plain_unlock (after_call "call s.followHandleCommand" follow_step)) = SFallsOff.
Proof. vm_compute. reflexivity. Qed.

(* follow() ends a generation on errNoLongerFollowing only *)
Lemma follow_loop_transcribed :
  map (fun x : gstmt => (fst (fst x), snd x)) follow_loop =
  [(["for"], ["call s.followStep"]); (["for"; "err == errNoLongerFollowing"], []);
   (["for"; "err != nil && err != io.EOF"], []); (["for"], [])]%string.
Proof. vm_compute. reflexivity. Qed.

(* followStartOver for a server with and without a log *)
Lemma start_over_transcribed : forall aof, so_run aof follow_start_over = Some (proved_ops aof).
Proof. intros [|]; vm_compute; reflexivity. Qed.

(* followReset always runs FLUSHDB (collections, hooks, channels and their indexes) and reset() (aofsz = 0,
   collections), whatever else it does (other statements of the function are not constrained) *)
Lemma follow_reset_transcribed :
  calls_unguarded "call s.cmdFLUSHDB" follow_reset = true /\ calls_unguarded "call s.reset" follow_reset = true.
Proof. vm_compute. split; reflexivity. Qed.

Open Scope list_scope.
Open Scope Z_scope.

Section P.
  Variable digest : Type.
  Variable md5 : bytes -> digest.
  Variable digest_eqb : digest -> digest -> bool.
  Variable csz : Z.
  Variable st : Type.
  Variable st0 : st.
  Variable app : record -> st -> st * bool.

  Notation gstep := (gstep digest md5 digest_eqb csz st st0 app).
  Notation grun := (grun digest md5 digest_eqb csz st st0 app).
  Notation world := (world st).
  Notation att := att.

  (* ---------- start-over ---------- *)
  Lemma start_over_resets : forall aof (d : gdata st),
    let d' := start_over st st0 (proved_ops aof) d in
    d_mem st d' = st0 /\ d_aofsz st d' = 0 /\
    (aof = true -> d_file st d' = []) /\ (aof = false -> d_file st d' = d_file st d).
  Proof. intros [|] d; cbn; repeat split; intros; try reflexivity; discriminate. Qed.

  (* ---------- set_nth ---------- *)
  Lemma nth_set_nth_eq : forall (A : Type) (l : list A) i x y,
    nth_error l i = Some y -> nth_error (set_nth l i x) i = Some x.
  Proof.
    induction l as [|h t IH]; intros [|i] x y H; cbn in *; try discriminate; try reflexivity.
    eapply IH; eauto.
  Qed.

  Lemma map_set_nth_gen : forall (l : list att) i a p,
    nth_error l i = Some a ->
    map (@a_gen) (set_nth l i {| a_gen := a_gen a; a_ph := p |}) = map (@a_gen) l.
  Proof.
    induction l as [|h t IH]; intros [|i] a p H; cbn in *; try discriminate; try reflexivity.
    - inversion H; subst. reflexivity.
    - f_equal. eapply IH; eauto.
  Qed.

  Lemma stale_true : forall (w : world) (a : att), a_gen a <> w_cur st w -> stale st w a = true.
  Proof. intros w a H. unfold stale. apply negb_true_iff. apply Nat.eqb_neq. exact H. Qed.

  Lemma stale_false : forall (w : world) (a : att), a_gen a = w_cur st w -> stale st w a = false.
  Proof. intros w a H. unfold stale. apply negb_false_iff. apply Nat.eqb_eq. exact H. Qed.

  (* ---------- a stale attempt changes nothing of the follower's log, dataset, aofsz ---------- *)
  Lemma stale_inert : forall cfg aof ops (w : world) e i a,
    c_check cfg = true -> c_cmd cfg = true ->
    actor e = Some i -> nth_error (w_atts st w) i = Some a -> a_gen a <> w_cur st w ->
    w_data st (gstep cfg aof ops w e) = w_data st w /\ w_cur st (gstep cfg aof ops w e) = w_cur st w.
  Proof.
    intros cfg aof ops w e i a Hc Hm Ha Hn Hs.
    pose proof (stale_true w a Hs) as St.
    destruct e; cbn in Ha; try discriminate; inversion Ha; subst;
      unfold FollowGen.gstep, with_att; rewrite Hn.
    - destruct (a_ph a); try (split; reflexivity). destruct (c_top cfg && stale st w a); split; reflexivity.
    - destruct (a_ph a); split; reflexivity.
    - destruct (a_ph a); split; reflexivity.
    - destruct (a_ph a); try (split; reflexivity). rewrite Hc, St. cbn. split; reflexivity.
    - destruct (a_ph a); try (split; reflexivity). destruct (c_aofg cfg && stale st w a); [split; reflexivity|].
      destruct (drop_bytes l pos); split; reflexivity.
    - destruct (a_ph a); split; reflexivity.
    - destruct (a_ph a) as [| | | | |s|]; try (split; reflexivity).
      destruct (gs_pend s); [split; reflexivity|]. destruct (gs_rest s); [split; reflexivity|].
      rewrite Hm, St. cbn. split; reflexivity.
    - destruct (a_ph a) as [| | | | |s|]; try (split; reflexivity).
      destruct (gs_pend s); [|split; reflexivity]. destruct (c_flagg cfg && stale st w a); split; reflexivity.
    - destruct (a_ph a); split; reflexivity.
  Qed.

  (* steps of attempts keep every attempt's generation (and s.followc) *)
  Lemma actor_keeps_gens : forall cfg aof ops (w : world) e i,
    actor e = Some i ->
    gens st (gstep cfg aof ops w e) = gens st w /\ w_cur st (gstep cfg aof ops w e) = w_cur st w.
  Proof.
    intros cfg aof ops w e i Ha. unfold gens.
    destruct e; cbn in Ha; try discriminate; inversion Ha; subst;
      unfold FollowGen.gstep, with_att; destruct (nth_error (w_atts st w) i) as [a|] eqn:Hn; try (split; reflexivity).
    all: repeat match goal with
         | |- context [match a_ph ?x with _ => _ end] => destruct (a_ph x)
         | |- context [if ?c then _ else _] => destruct c
         | |- context [match drop_bytes ?l ?p with _ => _ end] => destruct (drop_bytes l p)
         | |- context [match resync ?a1 ?a2 ?a3 ?a4 ?a5 ?a6 ?a7 ?a8 ?a9 ?a10 ?a11 with _ => _ end] =>
             destruct (resync a1 a2 a3 a4 a5 a6 a7 a8 a9 a10 a11) as [? [?|]]
         | |- context [match gs_rest ?s with _ => _ end] => destruct (gs_rest s)
         | |- context [let '(_, _) := app ?r ?m in _] => destruct (app r m)
         end; cbn; try (split; reflexivity); split; try reflexivity; eapply map_set_nth_gen; eauto.
  Qed.

  (* an event of an attempt whose generation (in the list G) is not c *)
  Definition stale_ev (G : list nat) (c : nat) (e : gev) : Prop :=
    exists i g, actor e = Some i /\ nth_error G i = Some g /\ g <> c.

  Lemma stale_inert_run : forall cfg aof ops es (w : world),
    c_check cfg = true -> c_cmd cfg = true ->
    Forall (stale_ev (gens st w) (w_cur st w)) es ->
    w_data st (grun cfg aof ops w es) = w_data st w /\ w_cur st (grun cfg aof ops w es) = w_cur st w.
  Proof.
    intros cfg aof ops es. induction es as [|e es IH]; intros w Hc Hm HF; [split; reflexivity|].
    inversion HF as [|? ? He HF']; subst. destruct He as (i & g & Ha & Hg & Hne).
    unfold gens in Hg. rewrite nth_error_map in Hg.
    destruct (nth_error (w_atts st w) i) as [a|] eqn:Hn; cbn in Hg; [|discriminate]. inversion Hg; subst.
    destruct (stale_inert cfg aof ops w e i a Hc Hm Ha Hn Hne) as [Hd Hcur].
    destruct (actor_keeps_gens cfg aof ops w e i Ha) as [HG _].
    specialize (IH (gstep cfg aof ops w e) Hc Hm).
    rewrite HG, Hcur in IH. destruct (IH HF') as [I1 I2].
    change (grun cfg aof ops w (e :: es)) with (grun cfg aof ops (gstep cfg aof ops w e) es).
    split; [rewrite I1; exact Hd | rewrite I2; reflexivity].
  Qed.

  (* the caught-up flag: a stale attempt can clear it (GClear); it cannot raise it if the two places after the
     network round trips are guarded as well (they were not before proposed_fixes/C06-stale-generation-flag.diff:
     Props c06g_stale_flag_pinned_refuted) *)
  Lemma stale_flag_partial : forall cfg aof ops (w : world) e i a,
    c_aofg cfg = true -> c_flagg cfg = true ->
    actor e = Some i -> nth_error (w_atts st w) i = Some a -> a_gen a <> w_cur st w ->
    w_cup st (gstep cfg aof ops w e) = true -> w_cup st w = true.
  Proof.
    intros cfg aof ops w e i a Hc Hm Ha Hn Hs.
    pose proof (stale_true w a Hs) as St.
    destruct e; cbn in Ha; try discriminate; inversion Ha; subst;
      unfold FollowGen.gstep, with_att; rewrite Hn.
    - destruct (a_ph a); try (intro H; exact H). destruct (c_top cfg && stale st w a); intro H; exact H.
    - destruct (a_ph a); try (intro H; exact H). cbn. discriminate.
    - destruct (a_ph a); intro H; exact H.
    - destruct (a_ph a); try (intro H; exact H). destruct (c_check cfg && stale st w a); [intro H; exact H|].
      destruct (resync _ _ _ _ _ _ _ _ _ _ _) as [? [?|]]; intro H; exact H.
    - destruct (a_ph a); try (intro H; exact H). rewrite Hc, St. cbn. intro H; exact H.
    - destruct (a_ph a); intro H; exact H.
    - destruct (a_ph a) as [| | | | |s|]; try (intro H; exact H).
      destruct (gs_pend s); [intro H; exact H|]. destruct (gs_rest s); [intro H; exact H|].
      destruct (c_cmd cfg && stale st w a); [intro H; exact H|]. destruct (app _ _). intro H; exact H.
    - destruct (a_ph a) as [| | | | |s|]; try (intro H; exact H).
      destruct (gs_pend s); [|intro H; exact H]. rewrite Hm, St. cbn. intro H; exact H.
    - destruct (a_ph a); intro H; exact H.
  Qed.

  (* the source as it is (all five places guarded): no step of a stale attempt raises the flag *)
  Lemma stale_flag_inert : forall aof ops (w : world) e i a,
    actor e = Some i -> nth_error (w_atts st w) i = Some a -> a_gen a <> w_cur st w ->
    w_cup st (gstep proved_cfg aof ops w e) = true -> w_cup st w = true.
  Proof. intros aof ops w e i a. apply stale_flag_partial; reflexivity. Qed.

  Lemma stale_flag_inert_run : forall aof ops es (w : world),
    Forall (stale_ev (gens st w) (w_cur st w)) es ->
    w_cup st (grun proved_cfg aof ops w es) = true -> w_cup st w = true.
  Proof.
    intros aof ops es. induction es as [|e es IH]; intros w HF H; [exact H|].
    inversion HF as [|? ? He HF']; subst. destruct He as (i & g & Ha & Hg & Hne).
    unfold gens in Hg. rewrite nth_error_map in Hg.
    destruct (nth_error (w_atts st w) i) as [a|] eqn:Hn; cbn in Hg; [|discriminate]. inversion Hg; subst.
    destruct (actor_keeps_gens proved_cfg aof ops w e i Ha) as [HG Hcur].
    change (grun proved_cfg aof ops w (e :: es)) with (grun proved_cfg aof ops (gstep proved_cfg aof ops w e) es) in H.
    specialize (IH (gstep proved_cfg aof ops w e)). rewrite HG, Hcur in IH.
    eapply stale_flag_inert; eauto.
  Qed.

  (* whatever the configuration: every step of a stale attempt except GAof / GFlag *)
  Lemma stale_flag_other_steps : forall cfg aof ops (w : world) e i a,
    actor e = Some i -> nth_error (w_atts st w) i = Some a -> a_gen a <> w_cur st w ->
    (forall l, e <> GAof i l) -> e <> GFlag i ->
    w_cup st (gstep cfg aof ops w e) = true -> w_cup st w = true.
  Proof.
    intros cfg aof ops w e i a Ha Hn Hs Hna Hnf.
    destruct e; cbn in Ha; try discriminate; inversion Ha; subst;
      unfold FollowGen.gstep, with_att; rewrite Hn.
    - destruct (a_ph a); try (intro H; exact H). destruct (c_top cfg && stale st w a); intro H; exact H.
    - destruct (a_ph a); try (intro H; exact H). cbn. discriminate.
    - destruct (a_ph a); intro H; exact H.
    - destruct (a_ph a); try (intro H; exact H). destruct (c_check cfg && stale st w a); [intro H; exact H|].
      destruct (resync _ _ _ _ _ _ _ _ _ _ _) as [? [?|]]; intro H; exact H.
    - exfalso. eapply Hna. reflexivity.
    - destruct (a_ph a); intro H; exact H.
    - destruct (a_ph a) as [| | | | |s|]; try (intro H; exact H).
      destruct (gs_pend s); [intro H; exact H|]. destruct (gs_rest s); [intro H; exact H|].
      destruct (c_cmd cfg && stale st w a); [intro H; exact H|]. destruct (app _ _). intro H; exact H.
    - exfalso. apply Hnf. reflexivity.
    - destruct (a_ph a); intro H; exact H.
  Qed.

  (* ---------- a follower without a log ---------- *)
  Hypothesis csz_pos : 0 < csz.

  (* s.aof == nil: nothing is ever logged, aofsz is 0 from process start on *)
  Definition noaof_wf (d : gdata st) : Prop := d_file st d = [] /\ d_aofsz st d = 0.

  (* followCheckSome of the current generation: WHATEVER the follower holds in memory, it holds nothing afterwards *)
  Lemma noaof_check_resets : forall cfg (w : world) i a sz l,
    nth_error (w_atts st w) i = Some a -> a_gen a = w_cur st w -> a_ph a = PServer sz ->
    noaof_wf (w_data st w) ->
    let w' := gstep cfg false proved_ops w (GCheck i l) in
    w_data st w' = {| d_file := []; d_mem := st0; d_aofsz := 0 |} /\
    w_cup st w' = w_cup st w /\ w_cur st w' = w_cur st w /\
    nth_error (w_atts st w') i = Some {| a_gen := a_gen a; a_ph := PChecked sz 0 |}.
  Proof.
    intros cfg w i a sz l Hn Hg Hp [Hf Hz]. cbn zeta.
    unfold FollowGen.gstep, with_att. rewrite Hn, Hp. rewrite (stale_false w a Hg), andb_false_r.
    unfold resync, check_some. rewrite Hz.
    assert (E : (0 <? csz) = true) by (apply Z.ltb_lt; exact csz_pos). rewrite E. cbn.
    rewrite Hf. repeat split; try reflexivity.
    eapply nth_set_nth_eq; eauto.
  Qed.

  Definition ses_ev (i : nat) (e : gev) : Prop := e = GDeliver i \/ e = GFlag i \/ exists r, e = GFeed i r.

  Lemma replay_snoc : forall (f : file) (r : record), replay st st0 app (f ++ [r])%list = fst (app r (replay st st0 app f)).
  Proof. intros f r. unfold replay, replay_from. rewrite fold_left_app. reflexivity. Qed.

  (* the invariant of a session of the current generation on a follower without a log: the dataset is the replay
     of what has been handed over, and handed over ++ pending = the leader's log at AOF time ++ what it logged since *)
  Definition noaof_inv (i : nat) (l : file) (F : file) (w : world) : Prop :=
    exists a s, nth_error (w_atts st w) i = Some a /\ a_gen a = w_cur st w /\ a_ph a = PStream s /\
      d_mem st (w_data st w) = replay st st0 app (gs_done s) /\ gs_done s ++ gs_rest s = l ++ F /\
      noaof_wf (w_data st w).

  Lemma noaof_inv_step : forall cfg i l F (w : world) e,
    noaof_inv i l F w -> ses_ev i e ->
    noaof_inv i l (F ++ fed [e]) (gstep cfg false proved_ops w e).
  Proof.
    intros cfg i l F w e (a & s & Hn & Hg & Hp & Hm & Hd & Hwf) He.
    pose proof (stale_false w a Hg) as Sf.
    destruct He as [He|[He|[r He]]]; subst e; cbn [fed]; rewrite ?app_nil_r;
      unfold FollowGen.gstep, with_att; rewrite Hn, Hp.
    - (* GDeliver *)
      destruct (gs_pend s) eqn:Ep; [exists a, s; repeat split; try assumption; apply Hwf|].
      destruct (gs_rest s) as [|r rest] eqn:Er; [exists a, s; rewrite Er; repeat split; try assumption; apply Hwf|].
      rewrite Sf, andb_false_r. destruct (app r (d_mem st (w_data st w))) as [mem' upd] eqn:Ea. cbn [andb].
      eexists {| a_gen := a_gen a; a_ph := _ |}, _. split; [cbn; eapply nth_set_nth_eq; eauto|].
      split; [cbn; exact Hg|]. split; [cbn; reflexivity|]. cbn.
      split; [rewrite fold_left_app; cbn; unfold replay, replay_from in Hm; rewrite <- Hm, Ea; reflexivity|].
      split; [rewrite <- app_assoc; cbn; rewrite <- Hd; reflexivity|]. destruct Hwf; split; assumption.
    - (* GFlag *)
      destruct (gs_pend s) eqn:Ep; [|exists a, s; repeat split; try assumption; apply Hwf].
      rewrite Sf, andb_false_r.
      eexists {| a_gen := a_gen a; a_ph := _ |}, _. split; [cbn; eapply nth_set_nth_eq; eauto|].
      split; [cbn; exact Hg|]. split; [cbn; reflexivity|]. cbn. repeat split; try assumption; apply Hwf.
    - (* GFeed *)
      eexists {| a_gen := a_gen a; a_ph := _ |}, _. split; [cbn; eapply nth_set_nth_eq; eauto|].
      split; [cbn; exact Hg|]. split; [cbn; reflexivity|]. cbn.
      split; [exact Hm|]. split; [rewrite app_assoc, Hd, <- app_assoc; reflexivity|]. exact Hwf.
  Qed.

  Lemma fed_app : forall es1 es2, fed (es1 ++ es2) = fed es1 ++ fed es2.
  Proof.
    induction es1 as [|e es1 IH]; intros es2; [reflexivity|].
    destruct e; cbn; rewrite ?IH; reflexivity.
  Qed.

  Lemma noaof_inv_run : forall cfg i l es F (w : world),
    noaof_inv i l F w -> Forall (ses_ev i) es ->
    noaof_inv i l (F ++ fed es) (grun cfg false proved_ops w es).
  Proof.
    intros cfg i l es. induction es as [|e es IH]; intros F w HI HF.
    - cbn. rewrite app_nil_r. exact HI.
    - inversion HF; subst.
      pose proof (noaof_inv_step cfg i l F w e HI H1) as H'.
      specialize (IH _ _ H' H2).
      change (grun cfg false proved_ops w (e :: es)) with (grun cfg false proved_ops (gstep cfg false proved_ops w e) es).
      replace (F ++ fed (e :: es)) with ((F ++ fed [e]) ++ fed es); [exact IH|].
      rewrite <- app_assoc. f_equal. change (e :: es) with ([e] ++ es). rewrite fed_app. reflexivity.
  Qed.

  (* convergence of a follower without a log, from ANY dataset: FOLLOW's / a reconnect's followCheckSome, the AOF
     handshake, then any interleaving of deliveries, flag updates and leader appends: once everything handed over has
     been handled the dataset is the replay of the leader's log (as of the handshake ++ logged since), and there is
     still no log and aofsz = 0 *)
  Lemma noaof_converge : forall cfg (w : world) i a l es,
    nth_error (w_atts st w) i = Some a -> a_gen a = w_cur st w -> a_ph a = PServer (flen l) ->
    noaof_wf (w_data st w) -> Forall (ses_ev i) es ->
    let w' := grun cfg false proved_ops (gstep cfg false proved_ops (gstep cfg false proved_ops w (GCheck i l)) (GAof i l)) es in
    exists s, phase_of st w' i = Some (PStream s) /\
      (gs_rest s = [] ->
       d_mem st (w_data st w') = replay st st0 app (l ++ fed es) /\ gs_done s = l ++ fed es) /\
      noaof_wf (w_data st w').
  Proof.
    intros cfg w i a l es Hn Hg Hp Hwf HF. cbn zeta.
    destruct (noaof_check_resets cfg w i a (flen l) l Hn Hg Hp Hwf) as (Hd & Hcup & Hcur & Hn1).
    remember (gstep cfg false proved_ops w (GCheck i l)) as w1 eqn:Ew1.
    assert (HI : noaof_inv i l [] (gstep cfg false proved_ops w1 (GAof i l))).
    { unfold FollowGen.gstep at 1, with_att. rewrite Hn1. cbn [a_ph].
      assert (Sf : stale st w1 {| a_gen := a_gen a; a_ph := PChecked (flen l) 0 |} = false).
      { apply stale_false. cbn [a_gen]. rewrite Hcur. exact Hg. }
      rewrite Sf, andb_false_r.
      assert (Ed : drop_bytes l 0 = Some l) by (destruct l; reflexivity). rewrite Ed.
      eexists {| a_gen := a_gen a; a_ph := _ |}, _. split; [cbn; eapply nth_set_nth_eq; eauto|].
      split; [cbn; rewrite Hcur; exact Hg|]. split; [cbn; reflexivity|]. cbn.
      rewrite Hd. cbn. repeat split; try reflexivity. rewrite app_nil_r. reflexivity. }
    pose proof (noaof_inv_run cfg i l es [] _ HI HF) as (a' & s & Hn' & Hg' & Hp' & Hm' & Hd' & Hwf').
    exists s. split; [unfold phase_of; rewrite Hn', Hp'; reflexivity|]. split; [|exact Hwf'].
    intro Er. rewrite Er, app_nil_r in Hd'. cbn in Hd'. rewrite Hm', Hd'. split; reflexivity.
  Qed.
End P.
