(* C06 — lemmas about the follower resync model (Model/Follow.v). *)
From Coq Require Import List ZArith Bool Lia.
From Coq Require Import ZifyN ZifyNat ZifyBool.
From T38 Require Import Base.Bytes Model.Follow.
Import ListNotations.
Open Scope Z_scope.

(* ------------------------------------------------------------------ *)
(* byte helpers                                                        *)
(* ------------------------------------------------------------------ *)
Lemma zlen_acc_spec : forall l a, zlen_acc l a = a + Z.of_nat (length l).
Proof. induction l as [|x l IH]; intros a; cbn [zlen_acc length]; [lia|]. rewrite IH. lia. Qed.

Lemma blen_spec : forall b, blen b = Z.of_nat (length b).
Proof. intros b. unfold blen. rewrite zlen_acc_spec. lia. Qed.

Lemma blen_nonneg : forall b, 0 <= blen b.
Proof. intros b. rewrite blen_spec. lia. Qed.

Lemma blen_app : forall a b, blen (a ++ b) = blen a + blen b.
Proof. intros. rewrite !blen_spec, app_length. lia. Qed.

Lemma flen_acc_spec : forall f a, flen_acc f a = a + blen (fbytes f).
Proof.
  induction f as [|r f IH]; intros a; cbn [flen_acc fbytes concat].
  - rewrite blen_spec. cbn. lia.
  - rewrite IH, zlen_acc_spec. fold (fbytes f). rewrite blen_app, !blen_spec. lia.
Qed.

Lemma flen_spec : forall f, flen f = blen (fbytes f).
Proof. intros. unfold flen. rewrite flen_acc_spec. lia. Qed.

Lemma flen_nil : flen [] = 0.
Proof. reflexivity. Qed.

Lemma flen_cons : forall r f, flen (r :: f) = blen r + flen f.
Proof. intros. rewrite !flen_spec. cbn [fbytes concat]. fold (fbytes f). apply blen_app. Qed.

Lemma fbytes_app : forall a b, fbytes (a ++ b) = fbytes a ++ fbytes b.
Proof. intros. unfold fbytes. apply concat_app. Qed.

Lemma flen_app : forall a b, flen (a ++ b) = flen a + flen b.
Proof. intros. rewrite !flen_spec, fbytes_app. apply blen_app. Qed.

Lemma flen_nonneg : forall f, 0 <= flen f.
Proof. intros. rewrite flen_spec. apply blen_nonneg. Qed.

Lemma flen_firstn_le : forall k f, flen (firstn k f) <= flen f.
Proof.
  intros k f. rewrite <- (firstn_skipn k f) at 2. rewrite flen_app.
  pose proof (flen_nonneg (skipn k f)). lia.
Qed.

Lemma zskip_spec : forall l n, 0 <= n -> zskip l n = skipn (Z.to_nat n) l.
Proof.
  induction l as [|x l IH]; intros n Hn; cbn [zskip].
  - now rewrite skipn_nil.
  - destruct (n <=? 0) eqn:E.
    + assert (n = 0) by lia. subst. reflexivity.
    + rewrite IH by lia. replace (Z.to_nat n) with (S (Z.to_nat (n - 1))) by lia. reflexivity.
Qed.

Lemma ztake_rev_spec : forall l n acc, 0 <= n -> ztake_rev l n acc = rev (firstn (Z.to_nat n) l) ++ acc.
Proof.
  induction l as [|x l IH]; intros n acc Hn; cbn [ztake_rev].
  - now rewrite firstn_nil.
  - destruct (n <=? 0) eqn:E.
    + assert (n = 0) by lia. subst. reflexivity.
    + rewrite IH by lia. replace (Z.to_nat n) with (S (Z.to_nat (n - 1))) by lia.
      cbn [firstn rev]. now rewrite <- app_assoc.
Qed.

Lemma ztake_spec : forall l n, 0 <= n -> ztake l n = firstn (Z.to_nat n) l.
Proof.
  intros. unfold ztake, rev'. rewrite <- rev_alt, ztake_rev_spec by assumption.
  now rewrite app_nil_r, rev_involutive.
Qed.

Lemma firstn_skipn_app : forall (A : Type) (a r : list A) p n,
  (p + n <= length a)%nat -> firstn n (skipn p (a ++ r)) = firstn n (skipn p a).
Proof.
  intros A a r p n H. rewrite skipn_app. rewrite firstn_app.
  replace (n - length (skipn p a))%nat with 0%nat by (rewrite skipn_length; lia).
  cbn [firstn]. now rewrite app_nil_r.
Qed.

(* ------------------------------------------------------------------ *)
(* the search loop                                                     *)
(* ------------------------------------------------------------------ *)
Section Search.
  Variable csz : Z.
  Hypothesis Hcsz : 0 < csz.

  Lemma search_loop_bounds : forall fuel m min max limit acc p pr,
    min <= limit ->
    search_loop csz fuel m min max limit acc = Some (p, pr) -> min <= p <= limit.
  Proof.
    induction fuel as [|k IH]; intros m min max limit acc p pr Hml H; cbn [search_loop] in H; [discriminate|].
    destruct ((max <? min) || (limit <? max + csz)) eqn:G.
    - inversion H; subst. lia.
    - destruct (m max) eqn:M.
      + apply IH in H; lia.
      + apply IH in H; lia.
  Qed.

  (* whatever the loop returns is the start value of min or the end of a block that matched *)
  Lemma search_loop_sound : forall fuel m min max limit acc p pr,
    search_loop csz fuel m min max limit acc = Some (p, pr) -> p = min \/ m (p - csz) = true.
  Proof.
    induction fuel as [|k IH]; intros m min max limit acc p pr H; cbn [search_loop] in H; [discriminate|].
    destruct ((max <? min) || (limit <? max + csz)) eqn:G.
    - inversion H; subst. now left.
    - destruct (m max) eqn:M.
      + apply IH in H. destruct H as [->|H]; [right|now right].
        replace (max + csz - csz) with max by lia. exact M.
      + apply IH in H. exact H.
  Qed.

  (* every probe lies inside [min, limit - csz] *)
  Lemma search_loop_terminates : forall fuel m min max limit acc,
    min <= limit -> limit - min < csz * Z.of_nat fuel ->
    search_loop csz fuel m min max limit acc <> None.
  Proof.
    induction fuel as [|k IH]; intros m min max limit acc Hml Hf; cbn [search_loop]; [lia|].
    destruct ((max <? min) || (limit <? max + csz)) eqn:G; [discriminate|].
    destruct (m max) eqn:M; apply IH; lia.
  Qed.

  Lemma search_fuel_enough : forall aofsz, csz <= aofsz ->
    aofsz - csz < csz * Z.of_nat (search_fuel csz aofsz).
  Proof.
    intros aofsz H. unfold search_fuel.
    assert (0 <= Z.quot aofsz csz) by (apply Z.quot_pos; lia).
    pose proof (Z.quot_rem' aofsz csz). pose proof (Z.rem_bound_pos aofsz csz ltac:(lia) Hcsz).
    rewrite !Nat2Z.inj_succ, Z2Nat.id by lia. nia.
  Qed.
End Search.

(* ------------------------------------------------------------------ *)
(* blocks and matching                                                 *)
(* ------------------------------------------------------------------ *)
Section Blocks.
  Variable digest : Type.
  Variable md5 : bytes -> digest.
  Variable digest_eqb : digest -> digest -> bool.
  Hypothesis digest_eqb_spec : forall a b, digest_eqb a b = true <-> a = b.
  (* MD5 is collision free on blocks of equal length — trusted *)
  Hypothesis md5_inj : forall a b, length a = length b -> md5 a = md5 b -> a = b.
  Variable csz : Z.
  Hypothesis Hcsz : 0 < csz.

  Lemma block_some : forall b claimed pos size x,
    0 <= pos -> 0 <= size ->
    block b claimed pos size = Some x ->
    pos + size <= claimed /\ pos + size <= blen b /\
    x = firstn (Z.to_nat size) (skipn (Z.to_nat pos) b) /\ length x = Z.to_nat size.
  Proof.
    intros b claimed pos size x Hp Hs H. unfold block in H.
    destruct (claimed <? pos + size) eqn:E1; [discriminate|].
    destruct (blen b <? pos + size) eqn:E2; [discriminate|].
    inversion H; subst x. rewrite zskip_spec, ztake_spec by lia.
    repeat split; try lia.
    rewrite firstn_length, skipn_length. rewrite blen_spec in E2. lia.
  Qed.

  Lemma block_prefix : forall a r claimed pos size,
    0 <= pos -> 0 <= size -> pos + size <= blen a -> pos + size <= claimed ->
    block (a ++ r) claimed pos size = block a (blen a) pos size /\
    block a (blen a) pos size <> None.
  Proof.
    intros a r claimed pos size Hp Hs Hle Hc. unfold block.
    replace (claimed <? pos + size) with false by lia.
    replace (blen a <? pos + size) with false by lia.
    rewrite blen_app. pose proof (blen_nonneg r).
    replace (blen a + blen r <? pos + size) with false by lia.
    split; [|discriminate].
    rewrite !zskip_spec, !ztake_spec by lia. f_equal.
    apply firstn_skipn_app. rewrite blen_spec in Hle. lia.
  Qed.

  (* a follower file that is a prefix of the leader's: every block inside it matches *)
  Lemma matchbs_prefix : forall (f rest : file) pos size,
    0 <= pos -> 0 <= size -> pos + size <= flen f ->
    matchbs digest md5 digest_eqb (fbytes f) (flen f) (fbytes (f ++ rest)) (flen (f ++ rest)) pos size = true.
  Proof.
    intros f rest pos size Hp Hs Hle. unfold matchbs.
    rewrite fbytes_app. rewrite flen_spec in Hle.
    destruct (block_prefix (fbytes f) (fbytes rest) (flen (f ++ rest)) pos size) as [E1 N1]; try lia.
    { rewrite flen_app, flen_spec. pose proof (flen_nonneg rest). lia. }
    rewrite E1. rewrite flen_spec.
    destruct (block (fbytes f) (blen (fbytes f)) pos size) as [x|] eqn:B; [|congruence].
    apply digest_eqb_spec. reflexivity.
  Qed.

  Lemma matchb_prefix : forall (f rest : file) pos,
    0 <= pos -> pos + csz <= flen f ->
    matchb digest md5 digest_eqb csz (fbytes f) (flen f) (fbytes (f ++ rest)) (flen (f ++ rest)) pos = true.
  Proof. intros. unfold matchb. apply matchbs_prefix; lia. Qed.

  (* a matching probe: both sides have the whole block and the blocks are equal byte strings *)
  Lemma matchbs_true : forall fb fsz lb lsz pos size,
    0 <= pos -> 0 <= size ->
    matchbs digest md5 digest_eqb fb fsz lb lsz pos size = true ->
    pos + size <= fsz /\ pos + size <= blen fb /\ pos + size <= lsz /\ pos + size <= blen lb /\
    firstn (Z.to_nat size) (skipn (Z.to_nat pos) fb) = firstn (Z.to_nat size) (skipn (Z.to_nat pos) lb).
  Proof.
    intros fb fsz lb lsz pos size Hp Hs H. unfold matchbs in H.
    destruct (block fb fsz pos size) as [x|] eqn:B1; [|discriminate].
    destruct (block lb lsz pos size) as [y|] eqn:B2; [|discriminate].
    apply block_some in B1; try lia. apply block_some in B2; try lia.
    destruct B1 as (? & ? & -> & L1). destruct B2 as (? & ? & -> & L2).
    apply digest_eqb_spec in H. apply md5_inj in H; [|congruence].
    repeat split; try lia. exact H.
  Qed.

  Lemma matchb_true : forall fb fsz lb lsz pos,
    0 <= pos ->
    matchb digest md5 digest_eqb csz fb fsz lb lsz pos = true ->
    pos + csz <= fsz /\ pos + csz <= blen fb /\ pos + csz <= lsz /\ pos + csz <= blen lb /\
    firstn (Z.to_nat csz) (skipn (Z.to_nat pos) fb) = firstn (Z.to_nat csz) (skipn (Z.to_nat pos) lb).
  Proof. intros fb fsz lb lsz pos Hp H. unfold matchb in H. apply matchbs_true in H; auto. lia. Qed.
End Blocks.

(* ------------------------------------------------------------------ *)
(* getEndOfLastValuePositionInFile at record level                     *)
(* ------------------------------------------------------------------ *)
Lemma lve_spec : forall recs off n pos p k,
  last_value_end recs off n pos = Some (p, k) ->
  exists j, k = (n + j)%nat /\ (1 <= j <= length recs)%nat /\ p = off + flen (firstn j recs) /\ pos <= p.
Proof.
  induction recs as [|r t IH]; intros off n pos p k H; cbn [last_value_end] in H; [discriminate|].
  destruct (pos <=? off + blen r) eqn:E.
  - destruct (off <? pos); [|discriminate]. inversion H; subst. exists 1%nat. cbn [firstn length].
    rewrite flen_cons, flen_nil. repeat split; lia.
  - apply IH in H. destruct H as (j & -> & Hj & -> & Hp). exists (S j). cbn [firstn length].
    rewrite flen_cons. repeat split; lia.
Qed.

Lemma lve_total : forall recs off n pos,
  off < pos <= off + flen recs -> exists p k, last_value_end recs off n pos = Some (p, k).
Proof.
  induction recs as [|r t IH]; intros off n pos H; cbn [last_value_end].
  - rewrite flen_nil in H. lia.
  - rewrite flen_cons in H. destruct (pos <=? off + blen r) eqn:E.
    + replace (off <? pos) with true by lia. eauto.
    + apply IH. lia.
Qed.

(* ------------------------------------------------------------------ *)
(* record-level facts                                                  *)
(* ------------------------------------------------------------------ *)
Definition wf_log (l : file) : Prop := Forall (fun r => 0 < blen r) l.

Lemma wf_log_app : forall a b, wf_log (a ++ b) <-> wf_log a /\ wf_log b.
Proof. intros. unfold wf_log. apply Forall_app. Qed.

Lemma drop_bytes_app : forall a r, wf_log a -> drop_bytes (a ++ r) (flen a) = Some r.
Proof.
  induction a as [|x a IH]; intros r W.
  - cbn. destruct r; reflexivity.
  - inversion W; subst. rewrite flen_cons. cbn [app drop_bytes].
    pose proof (flen_nonneg a).
    replace (blen x + flen a =? 0) with false by lia.
    replace (blen x <=? blen x + flen a) with true by lia.
    replace (blen x + flen a - blen x) with (flen a) by lia. now apply IH.
Qed.

(* two prefixes of one log: the shorter (in bytes) is a prefix of the longer *)
Lemma prefix_compare : forall (a b x y : file),
  a ++ x = b ++ y -> wf_log (a ++ x) -> flen a <= flen b -> exists e, b = a ++ e.
Proof.
  induction a as [|r a IH]; intros b x y E W H.
  - exists b. reflexivity.
  - destruct b as [|r' b].
    + rewrite flen_nil, flen_cons in H. cbn [app] in W. inversion W; subst.
      pose proof (flen_nonneg a). lia.
    + cbn [app] in E. inversion E; subst r'. cbn [app] in W. inversion W; subst.
      rewrite !flen_cons in H. destruct (IH b x y) as [e ->]; try assumption; try lia.
      exists e. reflexivity.
Qed.

(* ------------------------------------------------------------------ *)
(* check_some, connect and the trace invariant                         *)
(* ------------------------------------------------------------------ *)
Arguments f_file {st} _.
Arguments f_mem {st} _.
Arguments f_aofsz {st} _.
Arguments f_cup {st} _.
Arguments f_once {st} _.
Arguments f_ses {st} _.
Arguments f_broken {st} _.
Arguments drained {st} _.
Arguments leader_append {st} _ _.

Section Protocol.
  Variable digest : Type.
  Variable md5 : bytes -> digest.
  Variable digest_eqb : digest -> digest -> bool.
  Hypothesis digest_eqb_spec : forall a b, digest_eqb a b = true <-> a = b.
  Hypothesis md5_inj : forall a b, length a = length b -> md5 a = md5 b -> a = b.
  Variable csz : Z.
  Hypothesis Hcsz : 0 < csz.
  Variable st : Type.
  Variable st0 : st.
  Variable app : record -> st -> st * bool.

  Notation check_some := (check_some digest md5 digest_eqb csz).
  Notation matchb := (matchb digest md5 digest_eqb csz).
  Notation replay := (replay st st0 app).
  Notation connect := (connect digest md5 digest_eqb csz st st0 app).
  Notation deliver := (deliver st app Repaired).
  Notation step := (step digest md5 digest_eqb csz st st0 app).
  Notation run := (run digest md5 digest_eqb csz st st0 app).
  Notation fol := (fol st).

  Lemma replay_snoc : forall f r, replay (f ++ [r]) = fst (app r (replay f)).
  Proof. intros. unfold Follow.replay, replay_from. now rewrite fold_left_app. Qed.

  Notation matchbs := (matchbs digest md5 digest_eqb).

  (* ---------------- the check ---------------- *)
  (* termination for all sizes, all modes *)
  Lemma check_some_no_fuel : forall md f fsz l, fst (check_some md f fsz l) <> CSFuel.
  Proof.
    clear st0 app; clear st.
    intros md f fsz l. unfold Follow.check_some.
    destruct (fsz <? csz) eqn:E0; [discriminate|].
    set (m := matchb (fbytes f) fsz (fbytes l) (flen l)).
    destruct (negb (m 0)); [discriminate|].
    destruct (search_loop csz (search_fuel csz fsz) m csz (fsz - csz) fsz [(0, csz, true)]) as [[q pr]|] eqn:S.
    - destruct (last_value_end f 0 0 q) as [[p k]|]; [|discriminate].
      destruct md; cbv beta iota zeta;
        try (destruct (matchbs (fbytes f) fsz (fbytes l) (flen l) 0 p); [|discriminate]);
        match goal with |- context [if ?c then _ else _] => destruct c end; discriminate.
    - exfalso. revert S. apply search_loop_terminates; try lia. apply search_fuel_enough; lia.
  Qed.

  (* what the search alone establishes, in every mode and for ANY two files: a position > 0 means the
     first block and the block that ends at the search position q are byte-equal in both files *)
  Lemma check_some_probed : forall md f fsz l res probes pos,
    check_some md f fsz l = (res, probes) ->
    (res = CSIntact pos \/ exists k, res = CSTruncate pos k) ->
    exists q, csz <= q <= pos /\ q <= fsz /\
      firstn (Z.to_nat csz) (fbytes f) = firstn (Z.to_nat csz) (fbytes l) /\
      firstn (Z.to_nat csz) (skipn (Z.to_nat (q - csz)) (fbytes f)) =
      firstn (Z.to_nat csz) (skipn (Z.to_nat (q - csz)) (fbytes l)).
  Proof.
    clear st0 app; clear st.
    intros md f fsz l res probes pos H Hres. unfold Follow.check_some in H.
    destruct (fsz <? csz) eqn:E0.
    { inversion H; subst. destruct Hres as [?|[? ?]]; discriminate. }
    set (m := matchb (fbytes f) fsz (fbytes l) (flen l)) in *.
    destruct (m 0) eqn:M0; cbn [negb] in H.
    2:{ inversion H; subst. destruct Hres as [?|[? ?]]; discriminate. }
    destruct (search_loop csz (search_fuel csz fsz) m csz (fsz - csz) fsz [(0, csz, true)]) as [[q pr]|] eqn:S.
    2:{ inversion H; subst. destruct Hres as [?|[? ?]]; discriminate. }
    assert (Hle : csz <= fsz) by lia.
    pose proof (search_loop_bounds csz Hcsz _ _ _ _ _ _ _ _ Hle S) as Hb.
    pose proof (search_loop_sound csz _ _ _ _ _ _ _ _ S) as Hs.
    destruct (last_value_end f 0 0 q) as [[p k]|] eqn:L.
    2:{ inversion H; subst. destruct Hres as [?|[? ?]]; discriminate. }
    apply lve_spec in L. destruct L as (j & -> & Hj & -> & Hq).
    assert (Hpos : pos = 0 + flen (firstn j f)).
    { destruct md; cbv beta iota zeta in H;
        try (destruct (matchbs (fbytes f) fsz (fbytes l) (flen l) 0 (0 + flen (firstn j f)));
             [|inversion H; subst; destruct Hres as [Hr|[k Hr]]; discriminate]);
        match type of H with context [if ?c then _ else _] => destruct c eqn:C end;
        inversion H; subst; destruct Hres as [Hr|[k Hr]]; inversion Hr; subst; lia. }
    exists q. subst pos. repeat split; try lia.
    - apply (matchb_true digest md5 digest_eqb digest_eqb_spec md5_inj csz Hcsz) in M0; [|lia].
      destruct M0 as (_ & _ & _ & _ & E). cbn [Z.to_nat skipn] in E. exact E.
    - destruct Hs as [->|Hs].
      + replace (csz - csz) with 0 by lia. cbn [Z.to_nat skipn].
        apply (matchb_true digest md5 digest_eqb digest_eqb_spec md5_inj csz Hcsz) in M0; [|lia].
        destruct M0 as (_ & _ & _ & _ & E). exact E.
      + apply (matchb_true digest md5 digest_eqb digest_eqb_spec md5_inj csz Hcsz) in Hs; [|lia].
        destruct Hs as (_ & _ & _ & _ & E). exact E.
  Qed.

  (* the repaired check on a follower whose aofsz is the size of its file, against ANY leader log:
     it starts over, or it keeps the first k records of the follower's file (all of them when
     "intact") and the two FILES AGREE BYTE FOR BYTE UP TO THE RESUME POSITION; it never errs *)
  Lemma check_some_outcomes : forall f l res pr,
    check_some Repaired f (flen f) l = (res, pr) ->
    res = CSStartOverSmall \/ res = CSStartOver \/
    exists k, (k <= length f)%nat /\
      firstn (Z.to_nat (flen (firstn k f))) (fbytes f) = firstn (Z.to_nat (flen (firstn k f))) (fbytes l) /\
      flen (firstn k f) <= blen (fbytes l) /\
      (res = CSTruncate (flen (firstn k f)) k \/ (res = CSIntact (flen f) /\ flen (firstn k f) = flen f)).
  Proof.
    clear st0 app; clear st.
    intros f l res pr H. unfold Follow.check_some in H.
    destruct (flen f <? csz) eqn:E0; [left; now inversion H|].
    set (m := matchb (fbytes f) (flen f) (fbytes l) (flen l)) in *.
    destruct (m 0) eqn:M0; cbn [negb] in H; [|right; left; now inversion H].
    destruct (search_loop csz (search_fuel csz (flen f)) m csz (flen f - csz) (flen f) [(0, csz, true)]) as [[q pr0]|] eqn:S.
    2:{ exfalso. revert S. apply search_loop_terminates; try lia. apply search_fuel_enough; lia. }
    assert (Hle : csz <= flen f) by lia.
    pose proof (search_loop_bounds csz Hcsz _ _ _ _ _ _ _ _ Hle S) as Hb.
    assert (Hq0 : 0 < q <= 0 + flen f) by lia.
    destruct (lve_total f 0 0%nat q Hq0) as (p & k & L). rewrite L in H.
    apply lve_spec in L. destruct L as (j & -> & Hj & -> & Hq). cbn [Nat.add] in H.
    replace (0 + flen (firstn j f)) with (flen (firstn j f)) in * by lia.
    pose proof (flen_nonneg (firstn j f)) as Hnn.
    destruct (matchbs (fbytes f) (flen f) (fbytes l) (flen l) 0 (flen (firstn j f))) eqn:Wh;
      [|right; left; now inversion H].
    apply (matchbs_true digest md5 digest_eqb digest_eqb_spec md5_inj) in Wh; try lia.
    destruct Wh as (_ & _ & _ & Hlb & E). cbn [Z.to_nat skipn] in E.
    right; right. exists j. split; [lia|]. split; [exact E|]. split; [lia|].
    destruct ((flen (firstn j f) =? q) && (q =? flen f)) eqn:C; inversion H; subst.
    - right. split; [f_equal; lia | lia].
    - left. reflexivity.
  Qed.

  (* a follower file that is a record-boundary prefix of the leader's log, at least one block long:
     the repaired check never starts over *)
  Lemma check_some_prefix : forall f rest,
    csz <= flen f ->
    exists k, (k <= length f)%nat /\
      (fst (check_some Repaired f (flen f) (f ++ rest)) = CSTruncate (flen (firstn k f)) k \/
       fst (check_some Repaired f (flen f) (f ++ rest)) = CSIntact (flen f)).
  Proof.
    clear st0 app; clear st.
    intros f rest Hlen. unfold Follow.check_some.
    replace (flen f <? csz) with false by lia.
    rewrite (matchb_prefix digest md5 digest_eqb digest_eqb_spec md5_inj csz Hcsz f rest 0) by lia. cbn [negb].
    set (m := matchb (fbytes f) (flen f) (fbytes (f ++ rest)) (flen (f ++ rest))).
    destruct (search_loop csz (search_fuel csz (flen f)) m csz (flen f - csz) (flen f) [(0, csz, true)]) as [[q pr]|] eqn:S.
    2:{ exfalso. revert S. apply search_loop_terminates; try lia. apply search_fuel_enough; lia. }
    pose proof (search_loop_bounds csz Hcsz _ _ _ _ _ _ _ _ Hlen S) as Hb.
    assert (Hq0 : 0 < q <= 0 + flen f) by lia.
    destruct (lve_total f 0 0%nat q Hq0) as (p & k & L). rewrite L.
    apply lve_spec in L. destruct L as (j & -> & Hj & -> & Hq). cbn [Nat.add].
    pose proof (flen_nonneg (firstn j f)) as Hnn. pose proof (flen_firstn_le j f) as Hfl.
    rewrite (matchbs_prefix digest md5 digest_eqb digest_eqb_spec md5_inj f rest 0 (0 + flen (firstn j f))) by lia.
    exists j. split; [lia|].
    destruct ((0 + flen (firstn j f) =? q) && (q =? flen f)) eqn:C; cbn [fst].
    - right. f_equal; lia.
    - left. f_equal; lia.
  Qed.

  (* ... and when it is at least two blocks long the check returns exactly its size: nothing is cut *)
  Lemma check_some_prefix_exact : forall f rest,
    2 * csz <= flen f ->
    fst (check_some Repaired f (flen f) (f ++ rest)) = CSIntact (flen f).
  Proof.
    clear st0 app; clear st.
    intros f rest Hlen. unfold Follow.check_some.
    replace (flen f <? csz) with false by lia.
    rewrite (matchb_prefix digest md5 digest_eqb digest_eqb_spec md5_inj csz Hcsz f rest 0) by lia. cbn [negb].
    unfold search_fuel. cbn [search_loop].
    replace ((flen f - csz <? csz) || (flen f <? flen f - csz + csz)) with false by lia.
    rewrite (matchb_prefix digest md5 digest_eqb digest_eqb_spec md5_inj csz Hcsz f rest (flen f - csz)) by lia.
    replace (flen f - csz + csz) with (flen f) by lia.
    replace (flen f - flen f) with 0 by lia. change (Z.quot 0 2) with 0.
    assert (Hq2 : 0 <= Z.quot csz 2) by (apply Z.quot_pos; lia).
    replace ((0 - Z.quot csz 2 + flen f <? flen f) || (flen f <? 0 - Z.quot csz 2 + flen f + csz)) with true by lia.
    assert (Hq0 : 0 < flen f <= 0 + flen f) by lia.
    destruct (lve_total f 0 0%nat (flen f) Hq0) as (p & k & L). rewrite L.
    apply lve_spec in L. destruct L as (j & -> & Hj & -> & Hq).
    pose proof (flen_firstn_le j f) as Hfl.
    rewrite (matchbs_prefix digest md5 digest_eqb digest_eqb_spec md5_inj f rest 0 (0 + flen (firstn j f))) by lia.
    replace ((0 + flen (firstn j f) =? flen f) && (flen f =? flen f)) with true by lia.
    reflexivity.
  Qed.

  (* ---------------- records are self-delimiting ---------------- *)
  (* RESP frames are prefix free: trusted (okrec = "is the RESP encoding of a command") *)
  Variable okrec : record -> Prop.
  Hypothesis okrec_prefix_free : forall a b x y, okrec a -> okrec b -> a ++ x = b ++ y -> a = b.

  Definition oklog (l : file) : Prop := Forall okrec l /\ wf_log l.

  Lemma oklog_app : forall a b, oklog (a ++ b) <-> oklog a /\ oklog b.
  Proof. intros. unfold oklog. rewrite Forall_app, wf_log_app. tauto. Qed.

  (* equal bytes => equal records: a log whose bytes start with the bytes of the record list a starts
     with the records a *)
  Lemma records_of_bytes : forall a l tb,
    oklog a -> oklog l -> fbytes l = fbytes a ++ tb -> exists rest, l = a ++ rest.
  Proof.
    induction a as [|r a IH]; intros l tb Ha Hl E; [exists l; reflexivity|].
    destruct Ha as [Ha1 Ha2]. inversion Ha1; subst. inversion Ha2; subst.
    destruct l as [|b l].
    - cbn in E. symmetry in E. apply app_eq_nil in E. destruct E as [E _].
      apply app_eq_nil in E. destruct E as [-> _]. cbn in *. lia.
    - destruct Hl as [Hl1 Hl2]. inversion Hl1; subst. inversion Hl2; subst.
      cbn [fbytes concat] in E. fold (fbytes l) in E. fold (fbytes a) in E. rewrite <- app_assoc in E.
      assert (b = r) by (eapply okrec_prefix_free; eauto). subst b.
      apply app_inv_head in E.
      destruct (IH l tb) as [rest ->]; [split; assumption | split; assumption | exact E |].
      exists rest. reflexivity.
  Qed.

  Lemma flen_zero_nil : forall x, wf_log x -> flen x = 0 -> x = [].
  Proof.
    intros [|r x] W H; [reflexivity|]. inversion W; subst. rewrite flen_cons in H.
    pose proof (flen_nonneg x). lia.
  Qed.

  Lemma agree_bytes : forall a b lb,
    firstn (Z.to_nat (flen a)) (fbytes (a ++ b)) = firstn (Z.to_nat (flen a)) lb ->
    exists tb, lb = fbytes a ++ tb.
  Proof.
    intros a b lb E. exists (skipn (Z.to_nat (flen a)) lb).
    assert (H : fbytes a = firstn (Z.to_nat (flen a)) lb).
    { rewrite <- E. rewrite fbytes_app. rewrite flen_spec, blen_spec, Nat2Z.id.
      rewrite firstn_app, firstn_all, Nat.sub_diag. cbn [firstn]. now rewrite app_nil_r. }
    rewrite H. symmetry. apply firstn_skipn.
  Qed.

  (* ---------------- the protocol invariant ---------------- *)
  (* every record of the leader's log reports "updated" when the log is replayed in order (the
     leader only logs updating commands and replay is deterministic) *)
  Definition upd_ok (l : file) : Prop :=
    forall pre r post, l = pre ++ r :: post -> snd (app r (replay pre)) = true.

  (* a follower as it exists between sessions: its dataset is what its own log replays to (loadAOF),
     aofsz is the size of that log, the log consists of well-framed records.  Its CONTENT is arbitrary. *)
  Definition wf_fol (f : fol) : Prop :=
    f_mem f = replay (f_file f) /\ f_aofsz f = flen (f_file f) /\ oklog (f_file f).

  Definition synced (l : file) (f : fol) : Prop :=
    f_mem f = replay (f_file f) /\ f_aofsz f = flen (f_file f) /\
    match f_ses f with
    | None => True
    | Some s => l = f_file f ++ s_rest s /\ f_cup f = s_cu s /\ (s_cu s = true -> s_aofsize s <= f_aofsz f) /\
                s_pos s = f_aofsz f
    end.

  Definition inv (l : file) (f : fol) : Prop :=
    upd_ok l /\ oklog l /\ wf_fol f /\ (f_ses f = None \/ synced l f).

  Lemma drop_bytes_0 : forall l, drop_bytes l 0 = Some l.
  Proof. destruct l; reflexivity. Qed.

  Lemma replay_nil : replay [] = st0.
  Proof. reflexivity. Qed.

  Lemma oklog_nil : oklog [].
  Proof. split; constructor. Qed.

  (* a (re)connect of the repaired follower, whatever its log contains: afterwards the follower is in
     step with the leader (its file is a record prefix of the leader's log, the stream is the rest) *)
  Lemma connect_synced : forall l f,
    oklog l -> wf_fol f ->
    synced l (connect Repaired l f) /\ wf_fol (connect Repaired l f) /\
    exists s, f_ses (connect Repaired l f) = Some s /\ s_aofsize s = flen l.
  Proof.
    intros l f Hl (Hm & Hsz & Hf).
    destruct (check_some Repaired (f_file f) (f_aofsz f) l) as [res pr] eqn:C.
    pose proof C as C'. rewrite Hsz in C'. apply check_some_outcomes in C'.
    unfold Follow.connect, begin_connect. cbn [f_file f_mem f_aofsz f_once f_broken f_cup]. rewrite C.
    assert (Hstart : forall fo : fol, f_once fo = f_once fo -> True) by auto.
    destruct C' as [-> | [-> | (k & Hk & E & Hlb & Hres)]].
    1,2: rewrite drop_bytes_0; cbn;
      (split; [unfold synced; cbn; repeat split; auto; intros; lia |
               split; [unfold wf_fol; cbn; repeat split; auto; apply oklog_nil | eexists; split; reflexivity]]).
    set (fl := firstn k (f_file f)) in *.
    assert (Hfile : f_file f = fl ++ skipn k (f_file f)) by (unfold fl; now rewrite firstn_skipn).
    assert (Hfl : oklog fl). { rewrite Hfile in Hf. apply oklog_app in Hf. tauto. }
    rewrite Hfile in E at 1. apply agree_bytes in E. destruct E as [tb E].
    destruct (records_of_bytes fl l tb Hfl Hl E) as [rest Hrest].
    destruct Hres as [-> | [-> Hall]].
    - assert (D : drop_bytes l (flen fl) = Some rest)
        by (rewrite Hrest; apply drop_bytes_app; apply Hfl).
      rewrite D. cbn.
      split; [unfold synced; cbn; repeat split; auto; intros; lia |
              split; [unfold wf_fol; cbn; repeat split; auto; apply Hfl | eexists; split; reflexivity]].
    - assert (Hnil : skipn k (f_file f) = []).
      { apply flen_zero_nil.
        - rewrite Hfile in Hf. apply oklog_app in Hf. apply Hf.
        - pose proof (flen_app fl (skipn k (f_file f))) as Ha. rewrite <- Hfile in Ha. lia. }
      assert (Hwhole : f_file f = fl) by (rewrite Hfile, Hnil; now rewrite app_nil_r).
      assert (D : drop_bytes l (flen (f_file f)) = Some rest)
        by (rewrite Hwhole, Hrest; apply drop_bytes_app; apply Hfl).
      rewrite D. cbn.
      split; [unfold synced; cbn; repeat split; auto; try (rewrite Hwhole; exact Hrest); intros; lia |
              split; [unfold wf_fol; cbn; repeat split; auto; apply Hf | eexists; split; reflexivity]].
  Qed.

  Lemma deliver_synced : forall l f, upd_ok l -> synced l f -> synced l (deliver f).
  Proof.
    intros l f U (Hm & Hsz & Hs). unfold Follow.deliver.
    destruct (f_ses f) as [s|] eqn:Es; [|unfold synced; rewrite Es; auto].
    destruct (s_rest s) as [|r rest] eqn:R; [unfold synced; rewrite Es, R; auto|].
    destruct Hs as (Hl & Hc & Hcu & Hp). try rewrite R in Hl.
    pose proof (U _ _ _ Hl) as Hu. rewrite Hm.
    destruct (app r (replay (f_file f))) as [mem' upd] eqn:A. cbn [snd] in Hu. subst upd.
    unfold synced. cbn [f_file f_mem f_aofsz f_cup f_ses s_rest s_cu s_aofsize s_pos].
    pose proof (blen_nonneg r).
    repeat split.
    - rewrite replay_snoc, A. reflexivity.
    - rewrite flen_app, flen_cons, flen_nil. lia.
    - rewrite <- app_assoc. exact Hl.
    - rewrite Hc. reflexivity.
    - intros Hor. destruct (s_cu s) eqn:Ecu; cbn in Hor; [specialize (Hcu eq_refl); lia | lia].
    - lia.
  Qed.

  Lemma upd_ok_snoc : forall l r, upd_ok l -> snd (app r (replay l)) = true -> upd_ok (l ++ [r]).
  Proof.
    intros l r U H pre r' post E.
    destruct post as [|x post'] using rev_ind.
    - apply app_inj_tail in E. destruct E as [-> ->]. exact H.
    - clear IHpost'. rewrite app_comm_cons, app_assoc in E. apply app_inj_tail in E.
      destruct E as [E _]. eapply U; eauto.
  Qed.

  Lemma synced_wf : forall l f s, oklog l -> synced l f -> f_ses f = Some s -> wf_fol f.
  Proof.
    intros l f s Hl (Hm & Hsz & Hx) Es. rewrite Es in Hx. destruct Hx as (E & _).
    rewrite E in Hl. apply oklog_app in Hl. unfold wf_fol. tauto.
  Qed.

  Lemma deliver_keeps_session : forall f s, f_ses f = Some s -> f_ses (deliver f) <> None.
  Proof.
    intros f s Es. unfold Follow.deliver. rewrite Es.
    destruct (s_rest s); [congruence|]. destruct (app r (f_mem f)). cbn. discriminate.
  Qed.

  (* what the environment may do: the leader logs only updating, well-framed commands; a shrunk log
     is a well-framed log that replays with every record updating; no deadline elapses on the follower
     before it does on the leader (no EOwn).  NOTHING is required of the follower's content or of the
     moments at which it connects. *)
  Definition ev_ok (w : file * fol) (e : event) : Prop :=
    let '(l, f) := w in
    match e with
    | EAppend r => snd (app r (replay l)) = true /\ 0 < blen r /\ okrec r
    | EShrink l' => upd_ok l' /\ oklog l'
    | EFollow l' => upd_ok l' /\ oklog l'     (* the other leader's log is a log *)
    | EOwn _ => False      (* convergence is stated for traces without follower-side expiry *)
    | _ => True
    end.

  Fixpoint ok_trace (w : file * fol) (es : list event) : Prop :=
    match es with
    | [] => True
    | e :: t => ev_ok w e /\ ok_trace (step Repaired w e) t
    end.

  Lemma step_inv : forall l f e, ev_ok (l, f) e -> inv l f ->
    inv (fst (step Repaired (l, f) e)) (snd (step Repaired (l, f) e)).
  Proof.
    intros l f e Hok (U & W & Hwf & Hs). destruct e; cbn [Follow.step fst snd].
    - (* begin *) split; [exact U|split; [exact W|split; [exact Hwf|now left]]].
    - (* connect *) destruct (connect_synced l f W Hwf) as (H1 & H2 & _).
      split; [exact U|split; [exact W|split; [exact H2|now right]]].
    - (* deliver *) split; [exact U|]. split; [exact W|].
      destruct Hs as [Hn|Hs].
      + unfold Follow.deliver. rewrite Hn. auto.
      + pose proof (deliver_synced l f U Hs) as Hd.
        destruct (f_ses f) as [s|] eqn:Es.
        * destruct (f_ses (deliver f)) as [s'|] eqn:Es'; [|exfalso; eapply deliver_keeps_session; eauto].
          split; [eapply synced_wf; eauto | now right].
        * unfold Follow.deliver. rewrite Es. auto.
    - (* drop *) split; [exact U|split; [exact W|split; [exact Hwf|now left]]].
    - (* restart *) destruct Hwf as (Hm & Hsz & Hf).
      split; [exact U|split; [exact W|split; [|now left]]].
      unfold wf_fol. cbn. split; [reflexivity|split; [reflexivity|exact Hf]].
    - (* pause *) split; [exact U|split; [exact W|split; [exact Hwf|exact Hs]]].
    - (* append *) destruct Hok as (Hu & Hb & Hr). split; [now apply upd_ok_snoc|].
      split; [apply oklog_app; split; [exact W | split; repeat constructor; assumption]|].
      unfold leader_append. destruct (f_ses f) as [s|] eqn:Es; [|split; [exact Hwf | now left]].
      split; [exact Hwf|].
      right. destruct Hs as [Hn|(Hm & Hsz & Hx)]; [discriminate|]. rewrite Es in Hx.
      destruct Hx as (Hl & Hc & Hcu & Hp). unfold synced. cbn. repeat split; auto.
      rewrite Hl. now rewrite app_assoc.
    - (* shrink *) destruct Hok as [Hu Hw]. split; [exact Hu|split; [exact Hw|split; [exact Hwf|now left]]].
    - (* own append: excluded by ev_ok *) contradiction.
    - (* re-pointed to another leader *) destruct Hok as [Hu Hw]. split; [exact Hu|split; [exact Hw|split; [exact Hwf|now left]]].
  Qed.

  Lemma run_inv : forall es l f, ok_trace (l, f) es -> inv l f ->
    inv (fst (run Repaired (l, f) es)) (snd (run Repaired (l, f) es)).
  Proof.
    induction es as [|e es IH]; intros l f Hok Hi; [exact Hi|].
    destruct Hok as [H1 H2]. unfold Follow.run. cbn [fold_left].
    pose proof (step_inv l f e H1 Hi) as Hi'.
    destruct (step Repaired (l, f) e) as [l' f'] eqn:Est. cbn [fst snd] in Hi'.
    apply (IH l' f' H2 Hi').
  Qed.

  (* convergence: from ANY follower (any log content, dataset = replay of that log), over ANY event
     sequence: once the stream has been handled completely the follower's dataset is the replay of the
     leader's log, its log file is identical to the leader's, and aofsz is its size *)
  Lemma converge : forall l0 f0 es,
    upd_ok l0 -> oklog l0 -> wf_fol f0 -> f_ses f0 = None -> ok_trace (l0, f0) es ->
    forall l f, run Repaired (l0, f0) es = (l, f) -> drained f = true ->
    f_mem f = replay l /\ f_file f = l /\ f_aofsz f = flen l.
  Proof.
    intros l0 f0 es U W Hwf Hn Hok l f Hr Hd.
    pose proof (run_inv es l0 f0 Hok (conj U (conj W (conj Hwf (or_introl Hn))))) as Hi.
    rewrite Hr in Hi. cbn [fst snd] in Hi. destruct Hi as (_ & _ & _ & Hs).
    unfold drained in Hd. destruct (f_ses f) as [s|] eqn:Es; [|discriminate].
    destruct (s_rest s) eqn:R; [|discriminate].
    destruct Hs as [Hs|(Hm & Hsz & Hx)]; [discriminate|]. rewrite Es, R, app_nil_r in Hx.
    destruct Hx as (Hl & _). subst l. auto.
  Qed.

  (* never caught-up while lacking commands acknowledged before the (re)connect - also when the
     follower's own sweeper appends records of its own to the follower's log during the session.
     s_done (ghost) = the records handed to the follower so far in this session. *)
  Definition session_event (e : event) : Prop :=
    match e with EDeliver | EPause | EOwn _ => True | EAppend r => 0 < blen r | _ => False end.

  Definition streaming (kept l1 l : file) (f : fol) : Prop :=
    wf_log l /\ exists s e, f_ses f = Some s /\ l = kept ++ s_done s ++ s_rest s /\ l = l1 ++ e /\
      s_aofsize s = flen l1 /\ s_pos s = flen (kept ++ s_done s) /\ f_cup f = s_cu s /\
      (s_cu s = true -> s_aofsize s <= s_pos s).

  Lemma streaming_step : forall kept l1 l f e, session_event e -> streaming kept l1 l f ->
    streaming kept l1 (fst (step Repaired (l, f) e)) (snd (step Repaired (l, f) e)).
  Proof.
    intros kept l1 l f e He (W & s & x & Es & Hl & Hl1 & Ha & Hp & Hc & Hcu).
    destruct e; cbn in He; try contradiction; cbn [Follow.step fst snd].
    - (* deliver *) split; [exact W|]. unfold Follow.deliver. rewrite Es.
      destruct (s_rest s) as [|r rest] eqn:R; [exists s, x; rewrite Es, R; repeat split; auto; now rewrite <- R|].
      destruct (app r (f_mem f)) as [mem' upd]. cbn [f_ses f_cup].
      eexists _, x. split; [reflexivity|]. cbn [s_rest s_done s_aofsize s_pos s_cu].
      pose proof (blen_nonneg r).
      repeat split; auto.
      + rewrite Hl. rewrite <- !app_assoc. reflexivity.
      + rewrite Hp. rewrite !flen_app, flen_cons, flen_nil. lia.
      + rewrite Hc. reflexivity.
      + intros Hor. destruct (s_cu s) eqn:Ecu; cbn in Hor; [specialize (Hcu eq_refl); lia | lia].
    - (* pause *) split; [exact W|]. exists s, x. repeat split; auto.
    - (* append *) split; [apply wf_log_app; split; [exact W|repeat constructor; exact He]|].
      unfold leader_append. rewrite Es. eexists _, (x ++ [r]). split; [reflexivity|].
      cbn [s_rest s_done s_aofsize s_pos s_cu f_cup]. repeat split; auto.
      + rewrite Hl. rewrite <- !app_assoc. reflexivity.
      + rewrite Hl1. now rewrite <- app_assoc.
    - (* the follower's own append *) split; [exact W|]. unfold own_append.
      destruct (app r (f_mem f)) as [mem' upd]. cbn [f_ses f_cup]. exists s, x. repeat split; auto.
  Qed.

  Lemma streaming_run : forall kept l1 es l0 f0, Forall session_event es -> streaming kept l1 l0 f0 ->
    forall l f, run Repaired (l0, f0) es = (l, f) -> streaming kept l1 l f.
  Proof.
    intros kept l1. induction es as [|e es IH]; intros l0 f0 Hes Hin l f Hr.
    - cbn in Hr. inversion Hr; subst. exact Hin.
    - inversion Hes as [|? ? He1 He2]; subst. unfold Follow.run in Hr. cbn [fold_left] in Hr.
      pose proof (streaming_step kept l1 l0 f0 e He1 Hin) as Hin'.
      destruct (step Repaired (l0, f0) e) as [l' f'] eqn:Est. cbn [fst snd] in *.
      eapply IH; eauto.
  Qed.

  (* while a (re)connect attempt is under way - stalled or failing at any stage of the handshake, the
     leader possibly acknowledging more writes, further attempts starting - the caught-up flag is off *)
  Definition handshake_event (e : event) : Prop :=
    match e with EBegin | EDrop | EPause | EAppend _ | EOwn _ => True | _ => False end.

  Lemma reconnecting_flag : forall md es l f,
    Forall handshake_event es -> f_ses f = None -> f_cup f = false ->
    f_cup (snd (run md (l, f) es)) = false /\ f_ses (snd (run md (l, f) es)) = None.
  Proof.
    intros md. induction es as [|e es IH]; intros l f Hes Hn Hc; [cbn; auto|].
    inversion Hes as [|? ? He1 He2]; subst. unfold Follow.run. cbn [fold_left].
    destruct e; cbn in He1; try contradiction; cbn [Follow.step].
    - apply IH; auto.
    - apply IH; auto.
    - apply IH; auto.
    - apply IH; auto; unfold leader_append; rewrite Hn; auto.
    - unfold own_append. destruct (app r (f_mem f)). apply IH; auto.
  Qed.

  Lemma reconnecting_not_caught_up : forall md l f es,
    Forall handshake_event es -> f_cup (snd (run md (step md (l, f) EBegin) es)) = false.
  Proof. intros md l f es Hes. cbn [Follow.step]. apply reconnecting_flag; auto. Qed.

  (* a leader AOFSHRINK, a FOLLOW that points to another leader, a dropped connection and a restart end the
     running session in whatever phase it is (initial bulk copy or tailing), in every mode; the leader's log
     the follower has to agree with from then on is the new one *)
  Definition session_ending (e : event) : Prop :=
    match e with EShrink _ | EFollow _ | EDrop | ERestart => True | _ => False end.

  Lemma session_ends : forall md l f e, session_ending e ->
    f_ses (snd (step md (l, f) e)) = None /\
    (forall l', e = EShrink l' \/ e = EFollow l' -> fst (step md (l, f) e) = l').
  Proof.
    intros md l f e He. destruct e; cbn in He; try contradiction; cbn [Follow.step fst snd];
      (split; [reflexivity|]); intros l2 [E|E]; inversion E; subst; reflexivity.
  Qed.

  (* l1 = the leader's log when the follower (in ANY state) (re)connects; kept = what the follower keeps of
     its own log at that moment (a record prefix of l1, its dataset being the replay of it:
     connect_synced).  Whatever happens during the session - deliveries, pauses, leader writes, records the
     follower's own sweeper appends - the caught-up flag implies that every record of l1 beyond kept has
     been handed to the follower *)
  Lemma not_premature : forall l1 f1 es,
    oklog l1 -> wf_fol f1 -> Forall session_event es ->
    forall l f, run Repaired (step Repaired (l1, f1) EConnect) es = (l, f) ->
    f_cup f = true ->
    exists s extra, f_ses f = Some s /\ f_file (connect Repaired l1 f1) ++ s_done s = l1 ++ extra.
  Proof.
    intros l1 f1 es W Hwf Hes l f Hr Hcup.
    cbn [Follow.step] in Hr.
    destruct (connect_synced l1 f1 W Hwf) as ((Hm & Hsz & Hx) & Hwf' & s & Es & Ha).
    rewrite Es in Hx. destruct Hx as (Hl & Hc & Hcu & Hp).
    assert (Hst : streaming (f_file (connect Repaired l1 f1)) l1 l1 (connect Repaired l1 f1)).
    { split; [apply W|]. exists s, []. rewrite app_nil_r.
      assert (Hd : s_done s = []).
      { clear - Es. unfold Follow.connect in Es. revert Es.
        destruct (check_some Repaired (f_file (begin_connect st f1)) (f_aofsz (begin_connect st f1)) l1) as [res pr].
        destruct res; cbn;
          try (destruct (drop_bytes l1 _); cbn; intros E; inversion E; subst; reflexivity);
          intros E; discriminate. }
      rewrite Hd, app_nil_r. cbn [List.app]. repeat split; auto; try lia.
      all: try (intros Hs; specialize (Hcu Hs); lia). }
    destruct (streaming_run _ l1 es _ _ Hes Hst l f Hr) as (Wl & s' & x & Es' & Hl' & Hl1 & Ha' & Hp' & Hc' & Hcu').
    rewrite Hcup in Hc'. symmetry in Hc'. specialize (Hcu' Hc').
    exists s'. 
    assert (E : l1 ++ x = (f_file (connect Repaired l1 f1) ++ s_done s') ++ s_rest s').
    { rewrite <- Hl1, Hl'. now rewrite app_assoc. }
    destruct (prefix_compare l1 (f_file (connect Repaired l1 f1) ++ s_done s') x (s_rest s') E) as [extra Hx];
      [rewrite <- Hl1; exact Wl | lia |].
    exists extra. auto.
  Qed.
End Protocol.
