(* Lemmas about Model/MvtArgs.v: the tile-path rewrite of an HTTP request never panics with the guard
   `len(parts) != 4` (the last of exactly four segments carries the 4-byte extension the call site tested
   for), and does with `len(parts) < 4`.  The guard and the call site of the source are transcription
   obligations over Gen/MvtArgs.v. *)
From Coq Require Import ZifyN ZifyNat ZifyBool.
From T38 Require Import Base.Bytes Model.Resp Model.Pipeline Model.MvtArgs Model.HandoverFacts.
From T38 Require Gen.MvtArgs.
Local Open Scope N_scope.

(* ---------- strings.Split ---------- *)
Lemma split_on_nonempty c : forall l rcur, split_on c l rcur <> [].
Proof. induction l as [|x l IH]; intros rcur; cbn [split_on]; [discriminate|]. destruct (x =? c); [discriminate|apply IH]. Qed.

Lemma split_on_clean c : forall s rcur, (forall x, In x s -> x <> c) -> split_on c s rcur = [rev rcur ++ s].
Proof.
  induction s as [|x s IH]; intros rcur H; cbn [split_on]; [rewrite app_nil_r; reflexivity|].
  assert (Hx : (x =? c) = false) by (apply N.eqb_neq; apply H; left; reflexivity).
  rewrite Hx, IH by (intros y Hy; apply H; right; exact Hy).
  cbn [rev]. rewrite <- app_assoc. reflexivity.
Qed.

Lemma last_cons (A : Type) (a : A) t d : t <> [] -> last (a :: t) d = last t d.
Proof. destruct t; [congruence|reflexivity]. Qed.

(* the last segment of a path that ends in s (s without separator) ends in s *)
Lemma split_on_last_suffix c s : (forall x, In x s -> x <> c) -> forall l rcur,
  last (split_on c (l ++ s) rcur) [] = last (split_on c l rcur) [] ++ s.
Proof.
  intros Hs. induction l as [|x l IH]; intros rcur; cbn [app split_on].
  - rewrite (split_on_clean c s rcur Hs). reflexivity.
  - destruct (x =? c).
    + rewrite !last_cons by apply split_on_nonempty. apply IH.
    + apply IH.
Qed.

Lemma nth_error_last (A : Type) (l : list A) d n : length l = S n -> nth_error l n = Some (last l d).
Proof.
  revert n. induction l as [|a l IH]; intros n H; [discriminate|].
  destruct l as [|b l].
  - cbn in H. injection H as <-. reflexivity.
  - destruct n as [|n]; [cbn in H; lia|]. cbn [nth_error]. rewrite (IH n) by (cbn in *; lia). reflexivity.
Qed.

Lemma has_suffix_spec s p : has_suffix s p = true -> exists a, p = a ++ s.
Proof.
  unfold has_suffix. rewrite andb_true_iff, bytes_eqb_eq. intros [_ H].
  exists (firstn (length p - length s) p). rewrite <- H at 2. symmetry. apply firstn_skipn.
Qed.

(* ---------- no panic with the guard of the source ---------- *)
Lemma mvt_filter_exact4_suffix s path : length s = 4%nat -> (forall x, In x s -> x <> 47) ->
  has_suffix s path = true -> mvt_filter mvt_reject_exact4 path <> MPanic.
Proof.
  intros Hl Hs Hsuf. destruct (has_suffix_spec s path Hsuf) as [a ->].
  unfold mvt_filter, mvt_reject_exact4. cbv zeta.
  destruct (length (split_on 47 (a ++ s) []) =? 4)%nat eqn:E; cbn [negb]; [|discriminate].
  apply Nat.eqb_eq in E.
  rewrite (nth_error_last bytes _ (@nil N : bytes) 3%nat E), (split_on_last_suffix 47 s Hs a []).
  set (p3 := last (split_on 47 a []) [] ++ s).
  assert (Hp : (4 <= length p3)%nat) by (unfold p3; rewrite app_length; lia).
  unfold drop_last4. destruct (length p3 <? 4)%nat eqn:L; [apply Nat.ltb_lt in L; lia|].
  destruct (split_on 47 (a ++ s) []) as [|p0 [|p1 [|p2 [|q [|? ?]]]]]; cbn in E; try lia.
  cbn [firstn skipn app forallb map].
  destruct (path_unescape p0), (path_unescape p1), (path_unescape p2),
           (path_unescape (firstn (length p3 - 4) p3)); cbn; discriminate.
Qed.

Lemma mvt_entry_exact4_no_panic arg0 : mvt_entry mvt_reject_exact4 arg0 <> MPanic.
Proof.
  unfold mvt_entry. destruct (has_suffix w_mvt (before_q arg0)) eqn:A; cbn [orb].
  - apply (mvt_filter_exact4_suffix w_mvt); [reflexivity| |exact A].
    intros x Hx. cbn in Hx. intuition (subst; discriminate).
  - destruct (has_suffix w_pbf (before_q arg0)) eqn:B; [|discriminate].
    apply (mvt_filter_exact4_suffix w_pbf); [reflexivity| |exact B].
    intros x Hx. cbn in Hx. intuition (subst; discriminate).
Qed.

(* ---------- `len(parts) < 4` is not a guard: /tiles/fleet/10/193/413.mvt ---------- *)
Definition w_prefixed_tile : bytes :=
  [116;105;108;101;115;47;102;108;101;101;116;47;49;48;47;49;57;51;47;52;49;51;46;109;118;116].
Lemma mvt_below4_panics :
  mvt_entry mvt_reject_below4 w_prefixed_tile = MPanic /\
  mvt_entry mvt_reject_exact4 w_prefixed_tile = MNo /\
  mvt_entry mvt_reject_exact4 [102;108;101;101;116;47;49;48;47;49;57;51;47;52;49;51;46;109;118;116;63;108;105;109;105;116;61;53]
    = MYes [102;108;101;101;116] [49;48] [49;57;51] [52;49;51].              (* fleet/10/193/413.mvt?limit=5 *)
Proof. vm_compute. repeat split; reflexivity. Qed.

(* ---------- the source is the model: transcription obligations ---------- *)
From Coq Require Import String.
Open Scope string_scope.
Definition expected_mvt_prefix : list string :=
  ["path := msg.Args[0]";
   "parts := strings.Split(path, ""/"")";
   "if len(parts) != 4 { return false }";
   "parts[3] = parts[3][:len(parts[3])-4]";
   "for i := 0; i < len(parts); i++ { var err error parts[i], err = url.PathUnescape(parts[i]) if err != nil { return false } }"].
Definition expected_mvt_call_site : string :=
  "if msg.ConnType == HTTP && len(msg.Args) == 1 { var query string if i := strings.IndexByte(msg.Args[0], '?'); i != -1 { query = msg.Args[0][i+1:] msg.Args[0] = msg.Args[0][:i] } if strings.HasSuffix(msg.Args[0], "".mvt"") || strings.HasSuffix(msg.Args[0], "".pbf"") { mvt = mvtFilterHTTPArgs(msg, query) } else if strings.HasPrefix(msg.Args[0], ""viewer/"") || msg.Args[0] == ""viewer"" { return viewer.HandleHTTP(client, ""/""+strings.Join(msg.Args, ""/""), s.opts.DevMode) } }".

Definition expected_mvt_callers : list string := ["Server.handleInputCommand"].

Lemma mvt_source_transcribed :
  strs_eqb Gen.MvtArgs.mvt_filter_prefix expected_mvt_prefix = true /\
  str_eqb Gen.MvtArgs.mvt_call_site expected_mvt_call_site = true /\
  strs_eqb Gen.MvtArgs.mvt_callers expected_mvt_callers = true.
Proof. vm_compute. repeat split; reflexivity. Qed.
