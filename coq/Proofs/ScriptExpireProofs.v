(* Lemmas over Model/ScriptExpire.v. *)
From Coq Require Import ZArith String List Bool Lia.
From T38 Require Import Base.Bytes Model.Expire Proofs.ExpireProofs Model.Tables Gen.ScriptTables Gen.Dispatch Model.Gate Model.ScriptExpire.
Import ListNotations.

(* a call that the gate lets run is logged, when the source satisfies dl_check for that command *)
Lemma gate_logged t c e l w fn :
  dl_check t c = true -> script_gate t c e = SRun l w fn -> w && t_logs_on_write t = true.
Proof.
  unfold dl_check, script_gate. intros Hc Hg.
  destruct (in_strs c script_deny); [discriminate|]. cbn [orb] in Hc.
  destruct (a_reject (arm_of t c)); try discriminate.
  destruct (arm_verdict (arm_of t c) e) as [[]|]; try discriminate.
  destruct (find_handler dispatch_script c); [|discriminate].
  inversion Hg; subst. exact Hc.
Qed.

Lemma op_cmd_deadline o : In (op_cmd o) deadline_cmds.
Proof. destruct o; cbn; tauto. Qed.

Lemma variant_check v t c : dl_check_all = true -> In (v, t) script_variant -> In c deadline_cmds -> dl_check t c = true.
Proof.
  unfold dl_check_all. intros H Hv Hc. rewrite forallb_forall in H. specialize (H _ Hv). cbn [snd] in H.
  rewrite forallb_forall in H. exact (H _ Hc).
Qed.

Lemma fold_apply_app l1 l2 c : fold_left apply (l1 ++ l2) c = fold_left apply l2 (fold_left apply l1 c).
Proof. apply fold_left_app. Qed.

(* replaying the log a script run leaves reproduces the live collection *)
Lemma script_log_replays_st v t : dl_check_all = true -> In (v, t) script_variant ->
  forall calls c0 st, fold_left apply (snd st) c0 = fst st ->
  fold_left apply (snd (script_run t calls st)) c0 = fst (script_run t calls st).
Proof.
  intros Hall Hv calls. unfold script_run. induction calls as [|[e o] calls IH]; intros c0 st Hinv; cbn [fold_left].
  - exact Hinv.
  - apply IH. unfold call; cbn [fst snd].
    destruct (script_gate t (op_cmd o) e) eqn:Hg; try exact Hinv.
    rewrite (gate_logged t (op_cmd o) e l write fn (variant_check v t _ Hall Hv (op_cmd_deadline o)) Hg).
    cbn [fst snd]. rewrite fold_apply_app. cbn [fold_left]. rewrite Hinv. reflexivity.
Qed.

Lemma script_log_replays v t : dl_check_all = true -> In (v, t) script_variant ->
  forall calls c0 c log, fold_left apply log c0 = c ->
  fold_left apply (snd (script_run t calls (c, log))) c0 = fst (script_run t calls (c, log)).
Proof. intros Hall Hv calls c0 c log H. apply (script_log_replays_st v t Hall Hv calls c0 (c, log)). exact H. Qed.

(* ---- the same log at another clock: which objects exist and which have a deadline is kept ---- *)
Lemma zstat_refl a : zstat a a. Proof. reflexivity. Qed.

Lemma lookup_sim id l l' : objs_sim l l' ->
  match lookup id l, lookup id l' with
  | Some o, Some o' => o_val o = o_val o' /\ zstat (o_ex o) (o_ex o')
  | None, None => True
  | _, _ => False
  end.
Proof.
  induction 1 as [|[i o] [i' o'] l l' [Hi [Hv Hz]] _ IH]; cbn; [exact I|].
  cbn in Hi, Hv, Hz. subst i'. destruct (bytes_eqb i id); [split; assumption | exact IH].
Qed.

Lemma del_id_sim id l l' : objs_sim l l' -> objs_sim (del_id id l) (del_id id l').
Proof.
  induction 1 as [|[i o] [i' o'] l l' [Hi [Hv Hz]] _ IH]; cbn; [constructor|].
  cbn in Hi. subst i'. destruct (bytes_eqb i id); [exact IH|]. constructor; [|exact IH]. repeat split; assumption.
Qed.

Lemma cset_sim c c' id o o' : objs_sim (objs c) (objs c') -> o_val o = o_val o' -> zstat (o_ex o) (o_ex o') ->
  objs_sim (objs (cset c id o)) (objs (cset c' id o')).
Proof.
  intros H Hv Hz. unfold cset; cbn [objs]. constructor; [repeat split; assumption | apply del_id_sim; exact H].
Qed.

Lemma del_id_absent id l : lookup id l = None -> del_id id l = l.
Proof.
  induction l as [|[i o] l IH]; cbn; [reflexivity|]. destruct (bytes_eqb i id); [discriminate|]. intros H. rewrite (IH H). reflexivity.
Qed.

Lemma cdel_objs c id : objs (cdel c id) = del_id id (objs c).
Proof. unfold cdel. destruct (lookup id (objs c)) eqn:E; cbn [objs]; [reflexivity | symmetry; apply del_id_absent; exact E]. Qed.

Lemma apply_sim c c' o o' : objs_sim (objs c) (objs c') -> op_sim o o' -> objs_sim (objs (apply c o)) (objs (apply c' o')).
Proof.
  intros H Ho. destruct o, o'; cbn in Ho; try contradiction.
  - destruct Ho as [<- [<- Hz]]. cbn [apply]. apply cset_sim; [exact H | reflexivity | exact Hz].
  - destruct Ho as [<- Hz]. cbn [apply]. pose proof (lookup_sim id _ _ H) as L.
    destruct (lookup id (objs c)), (lookup id (objs c')); try contradiction; [|exact H].
    destruct L as [Hv _]. apply cset_sim; [exact H | exact Hv | exact Hz].
  - subst id0. cbn [apply]. pose proof (lookup_sim id _ _ H) as L.
    destruct (lookup id (objs c)), (lookup id (objs c')); try contradiction; [|exact H].
    destruct L as [Hv _]. apply cset_sim; [exact H | exact Hv | reflexivity].
  - subst id0. cbn [apply]. rewrite !cdel_objs. apply del_id_sim. exact H.
Qed.

Lemma replay_sim log log' : Forall2 op_sim log log' -> forall c c', objs_sim (objs c) (objs c') ->
  objs_sim (objs (fold_left apply log c)) (objs (fold_left apply log' c')).
Proof.
  induction 1 as [|o o' log log' Ho _ IH]; intros c c' H; cbn [fold_left]; [exact H|].
  apply IH. apply apply_sim; assumption.
Qed.

Lemma wf_fold log : forall c, Wf c -> Wf (fold_left apply log c).
Proof. induction log as [|o log IH]; intros c H; cbn [fold_left]; [exact H | apply IH, wf_apply, H]. Qed.

(* restart after a script run: the log of the run, replayed record by record at other clocks, yields
   for every id the same payload and the same has-deadline status as the live collection *)
Lemma script_restart_status v t : dl_check_all = true -> In (v, t) script_variant ->
  forall calls pre log', 
  let r := script_run t calls (fold_left apply pre cnew, pre) in
  Forall2 op_sim (snd r) log' ->
  forall id,
  match lookup id (objs (fst r)), lookup id (objs (fold_left apply log' cnew)) with
  | Some o, Some o' => o_val o = o_val o' /\ ((o_ex o =? 0)%Z = (o_ex o' =? 0)%Z)
  | None, None => True
  | _, _ => False
  end.
Proof.
  intros Hall Hv calls pre log' r Hsim id.
  pose proof (script_log_replays v t Hall Hv calls cnew (fold_left apply pre cnew) pre eq_refl) as Hrep.
  fold r in Hrep. rewrite <- Hrep.
  apply lookup_sim. apply replay_sim; [exact Hsim | constructor].
Qed.

(* PERSIST through a script, then a restart: whatever the replay clocks, the object is there without a
   deadline and no sweep of the restarted server removes it *)
Lemma script_persist_survives_restart v t : dl_check_all = true -> In (v, t) script_variant ->
  forall calls pre e id p l w fn log' now,
  let r0 := script_run t calls (fold_left apply pre cnew, pre) in
  lookup id (objs (fst r0)) = Some p ->
  script_gate t "persist"%string e = SRun l w fn ->
  let r := call t r0 (e, OPersist id) in
  Forall2 op_sim (snd r) log' ->
  exists o', lookup id (objs (fst (sweep now (fold_left apply log' cnew)))) = Some o' /\
             o_val o' = o_val p /\ o_ex o' = 0%Z.
Proof.
  intros Hall Hv calls pre e id p l w fn log' now r0 Hl Hg r Hsim.
  assert (Hr : r = script_run t (calls ++ [(e, OPersist id)]) (fold_left apply pre cnew, pre)).
  { unfold r, r0, script_run. rewrite fold_left_app. reflexivity. }
  assert (Hlive : lookup id (objs (fst r)) = Some (mkObj (o_val p) 0)).
  { unfold r, call; cbn [fst snd op_cmd]. rewrite Hg. cbn [fst apply]. rewrite Hl. cbn. rewrite bytes_eqb_refl. reflexivity. }
  rewrite Hr in Hsim, Hlive.
  pose proof (script_restart_status v t Hall Hv (calls ++ [(e, OPersist id)]) pre log' Hsim id) as S.
  cbn zeta in S. rewrite Hlive in S.
  destruct (lookup id (objs (fold_left apply log' cnew))) as [o'|] eqn:E; [|contradiction].
  destruct S as [Hv' Hz]. cbn in Hv', Hz. symmetry in Hz. apply Z.eqb_eq in Hz.
  exists o'. split; [|split; [symmetry; exact Hv' | exact Hz]].
  apply sweep_never_early; [apply wf_fold, wf_new | exact E | left; exact Hz].
Qed.
