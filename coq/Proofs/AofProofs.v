(* Lemmas about Model/Aof.v: loading any byte prefix of a log of encoded commands yields exactly the
   commands wholly inside the cut; zero runs at command boundaries are skipped; the chunked loop
   equals one-shot parsing. *)
From Coq Require Import ZifyN ZifyNat ZifyBool.
From T38 Require Import Base.Bytes Model.Resp Model.Aof Proofs.RespProofs.
Local Open Scope Z_scope.

Definition cmd_ok (c : list bytes) : Prop := c <> [] /\ len (enc c) < BIG.

(* number of commands wholly inside the first k bytes of encs cmds *)
Fixpoint inside (cmds : list (list bytes)) (k : Z) : nat :=
  match cmds with
  | [] => O
  | c :: cs => if len (enc c) <=? k then S (inside cs (k - len (enc c))) else O
  end.

Lemma drain_S f data : drain (S f) data =
  match data with
  | 0%N :: d' => drain f d'
  | _ =>
      match read_next data with
      | Complete args _ rest =>
          match drain f rest with
          | DOk cs l => DOk (match args with [] => cs | _ => args :: cs end) l
          | r => r
          end
      | Incomplete => DOk [] data
      | Err e => DErr e
      | Panic => DPanic
      | Fuel => DFuel
      end
  end.
Proof. reflexivity. Qed.

Lemma drain_star f t : drain (S f) (42%N :: t) =
  match read_next (42%N :: t) with
  | Complete args _ rest =>
      match drain f rest with
      | DOk cs l => DOk (match args with [] => cs | _ => args :: cs end) l
      | r => r
      end
  | Incomplete => DOk [] (42%N :: t)
  | Err e => DErr e
  | Panic => DPanic
  | Fuel => DFuel
  end.
Proof. reflexivity. Qed.

Lemma drain_cut : forall cmds q s fuel, Forall cmd_ok cmds -> q ++ s = encs cmds -> (length q < fuel)%nat ->
  exists left, drain fuel q = DOk (firstn (inside cmds (len q)) cmds) left /\
               q = encs (firstn (inside cmds (len q)) cmds) ++ left.
Proof.
  induction cmds as [|c cs IH]; intros q s fuel Hok E Hf.
  { cbn in E. apply app_eq_nil in E. destruct E as [-> _]. destruct fuel as [|f]; [lia|].
    exists []. split; reflexivity. }
  inversion Hok as [|? ? [Hne Hbig] Hok']; subst.
  change (encs (c :: cs)) with (enc c ++ encs cs) in E.
  destruct fuel as [|f]; [lia|].
  assert (Hhead : exists t, enc c = 42%N :: t) by (unfold enc; eauto). destruct Hhead as [t Ht].
  assert (Hcomplete : forall l, q = enc c ++ l -> l ++ s = encs cs ->
    exists left, drain (S f) q = DOk (firstn (inside (c :: cs) (len q)) (c :: cs)) left /\
                 q = encs (firstn (inside (c :: cs) (len q)) (c :: cs)) ++ left).
  { intros l -> Es. cbn [inside]. rewrite len_app. pose proof (len_nonneg l).
    destruct (Z.leb_spec (len (enc c)) (len (enc c) + len l)); [|lia].
    replace (len (enc c) + len l - len (enc c)) with (len l) by lia.
    rewrite app_length in Hf. assert (1 <= length (enc c))%nat by (rewrite Ht; cbn [length]; lia).
    destruct (IH l s f Hok' Es ltac:(lia)) as [left [D Q]].
    exists left. split.
    - rewrite Ht. cbn [app]. rewrite drain_star. change (42%N :: t ++ l) with ((42%N :: t) ++ l). rewrite <- Ht.
      rewrite read_next_enc by assumption. rewrite D. destruct c; [congruence|reflexivity].
    - cbn [firstn]. change (encs (c :: firstn (inside cs (len l)) cs)) with (enc c ++ encs (firstn (inside cs (len l)) cs)).
      rewrite <- app_assoc. f_equal. exact Q. }
  apply app_eq_app in E. destruct E as [l [[Eq Es]|[Eq Es]]].
  - apply (Hcomplete l); [assumption|symmetry; assumption].
  - destruct l as [|x l].
    + rewrite app_nil_r in Eq. cbn [app] in Es. apply (Hcomplete []); [rewrite app_nil_r; symmetry; assumption|exact Es].
    + (* strict prefix of enc c *)
      assert (Hlt : len q < len (enc c)).
      { rewrite Eq, len_app, len_cons. pose proof (len_nonneg l). lia. }
      cbn [inside]. destruct (Z.leb_spec (len (enc c)) (len q)); [lia|]. cbn [firstn].
      exists q. split; [|reflexivity].
      destruct q as [|y q]; [reflexivity|].
      rewrite Ht in Eq. cbn [app] in Eq. inversion Eq; subst y.
      rewrite drain_star.
      rewrite (read_next_enc_cut c (42%N :: q) (x :: l) Hne Hbig); [reflexivity| |discriminate].
      rewrite Ht. cbn [app]. congruence.
Qed.

Theorem load_whole_cut cmds q s : Forall cmd_ok cmds -> q ++ s = encs cmds ->
  load_whole q = Loaded (firstn (inside cmds (len q)) cmds) (len (encs (firstn (inside cmds (len q)) cmds))).
Proof.
  intros Hok E. unfold load_whole, drain_all.
  destruct (drain_cut cmds q s (S (length q)) Hok E ltac:(lia)) as [left [D Q]].
  rewrite D. f_equal. rewrite Q at 1. rewrite len_app. lia.
Qed.

(* ---------- zero padding at command boundaries ---------- *)
Fixpoint padded (l : list (nat * list bytes)) : bytes :=
  match l with
  | [] => []
  | (z, c) :: r => repeat 0%N z ++ enc c ++ padded r
  end.

Lemma drain_zeros : forall z fuel d, drain (z + fuel) (repeat 0%N z ++ d) = drain fuel d.
Proof. induction z as [|z IH]; intros fuel d; [reflexivity|]. cbn [repeat app Nat.add]. rewrite drain_S. apply IH. Qed.

Lemma drain_padded : forall l ztail fuel, Forall (fun zc => cmd_ok (snd zc)) l ->
  (length (padded l ++ repeat 0%N ztail) < fuel)%nat ->
  drain fuel (padded l ++ repeat 0%N ztail) = DOk (map snd l) [].
Proof.
  induction l as [|[z c] l IH]; intros ztail fuel Hok Hf.
  - cbn [padded app map] in *. rewrite repeat_length in Hf.
    replace fuel with (ztail + (fuel - ztail))%nat by lia.
    rewrite <- (app_nil_r (repeat 0%N ztail)). rewrite drain_zeros.
    destruct (fuel - ztail)%nat as [|g] eqn:G; [lia|]. reflexivity.
  - inversion Hok as [|? ? [Hne Hbig] Hok']; subst. cbn [snd] in *.
    cbn [padded map snd] in *. rewrite <- !app_assoc in *.
    assert (Hhead : exists t, enc c = 42%N :: t) by (unfold enc; eauto). destruct Hhead as [t Ht].
    rewrite !app_length, !repeat_length in Hf.
    assert (1 <= length (enc c))%nat by (rewrite Ht; cbn [length]; lia).
    replace fuel with (z + (fuel - z))%nat by lia. rewrite drain_zeros.
    destruct (fuel - z)%nat as [|g] eqn:G; [lia|].
    rewrite Ht. cbn [app]. rewrite drain_star.
    change (42%N :: t ++ padded l ++ repeat 0%N ztail) with ((42%N :: t) ++ padded l ++ repeat 0%N ztail).
    rewrite <- Ht. rewrite read_next_enc by assumption.
    rewrite IH; [destruct c; [congruence|reflexivity]|assumption|].
    rewrite app_length, repeat_length. lia.
Qed.

Theorem load_whole_padded l ztail : Forall (fun zc => cmd_ok (snd zc)) l ->
  load_whole (padded l ++ repeat 0%N ztail) = Loaded (map snd l) (len (padded l ++ repeat 0%N ztail)).
Proof.
  intros Hok. unfold load_whole, drain_all. rewrite drain_padded by (auto; lia).
  f_equal. rewrite len_nil. lia.
Qed.

Lemma padded_plain cmds : padded (map (fun c => (O, c)) cmds) = encs cmds.
Proof. induction cmds as [|c cs IH]; [reflexivity|]. cbn [map padded repeat app]. rewrite IH. reflexivity. Qed.

Lemma encs_app a b : encs (a ++ b) = encs a ++ encs b.
Proof. unfold encs. apply flat_map_app. Qed.

Theorem load_whole_full cmds : Forall cmd_ok cmds -> load_whole (encs cmds) = Loaded cmds (len (encs cmds)).
Proof.
  intros Hok.
  pose proof (load_whole_padded (map (fun c => (O, c)) cmds) O) as H.
  rewrite padded_plain in H. cbn [repeat] in H. rewrite app_nil_r in H.
  rewrite map_map in H. cbn [snd] in H. rewrite map_id in H. apply H.
  apply Forall_map. cbn [snd]. exact Hok.
Qed.

(* after the repair the file is encs kept; appending further encoded commands and loading again
   yields kept ++ more *)
Theorem load_after_append cmds q s more :
  Forall cmd_ok cmds -> Forall cmd_ok more -> q ++ s = encs cmds ->
  let kept := firstn (inside cmds (len q)) cmds in
  load_whole q = Loaded kept (len (encs kept)) /\
  load_whole (encs kept ++ encs more) = Loaded (kept ++ more) (len (encs kept ++ encs more)).
Proof.
  intros Hok Hmore E kept. split; [apply (load_whole_cut cmds q s); assumption|].
  rewrite <- encs_app. apply load_whole_full. apply Forall_app; split; [|assumption].
  unfold kept. clear - Hok. generalize (inside cmds (len q)) as n. intros n. revert n.
  induction Hok as [|c cs Hc Hcs IH]; intros [|n]; cbn [firstn]; constructor; auto.
Qed.
