(* The state invariant of the handler model and the algebra of the abstraction [abs]. *)
From Coq Require Import ZifyN ZifyNat ZifyBool Sorted.
From T38 Require Import Base.Bytes Base.SMap Model.Field Model.Object Model.Glob Model.Spec Model.Keyspace Proofs.KsField.

Definition obj_ok (io : bytes * obj) : Prop := o_id (snd io) = fst io /\ msorted (o_fields (snd io)).
Definition col_ok (kc : bytes * col) : Prop := snd kc <> [] /\ msorted (snd kc) /\ Forall obj_ok (snd kc).
Definition inv (s : state) : Prop := msorted s /\ Forall col_ok s.

Lemma inv_nil : inv [].
Proof. split; [apply msorted_nil | constructor]. Qed.

Lemma inv_get s k c : inv s -> get k s = Some c -> c <> [] /\ msorted c /\ Forall obj_ok c.
Proof. intros [_ HF] Hg. exact (Forall_get col_ok k s c HF Hg). Qed.

Lemma inv_obj s k c id o : inv s -> get k s = Some c -> get id c = Some o -> o_id o = id /\ msorted (o_fields o).
Proof.
  intros Hi Hk Hid. destruct (inv_get _ _ _ Hi Hk) as [_ [_ HF]].
  exact (Forall_get obj_ok id c o HF Hid).
Qed.

Lemma inv_set s k c : inv s -> col_ok (k, c) -> inv (set k c s).
Proof. intros [Hs HF] Hc. split; [apply msorted_set; exact Hs | apply Forall_set; assumption]. Qed.

Lemma inv_del s k : inv s -> inv (del k s).
Proof. intros [Hs HF]. split; [apply msorted_del; exact Hs | apply Forall_del; exact HF]. Qed.

Lemma col_ok_set k c id o :
  msorted c -> Forall obj_ok c -> o_id o = id -> msorted (o_fields o) -> col_ok (k, set id o c).
Proof.
  intros Hs HF Hid Hf. split; [apply set_nonempty|]. split; [apply msorted_set; exact Hs|].
  apply Forall_set; [exact HF | split; assumption].
Qed.

Lemma col_ok_new k id o : o_id o = id -> msorted (o_fields o) -> col_ok (k, set id o []).
Proof. intros. apply col_ok_set; [apply msorted_nil | constructor | assumption | assumption]. Qed.

(* ---------- abs commutes with the map operations ---------- *)

Lemma abs_get s k : get k (abs s) = option_map abs_col (get k s).
Proof. apply get_map. Qed.

Lemma abs_set s k c : abs (set k c s) = set k (abs_col c) (abs s).
Proof. apply set_map. Qed.

Lemma abs_del s k : abs (del k s) = del k (abs s).
Proof. apply del_map. Qed.

Lemma absc_get c id : get id (abs_col c) = option_map abs_obj (get id c).
Proof. apply get_map. Qed.

Lemma absc_set c id o : abs_col (set id o c) = set id (abs_obj o) (abs_col c).
Proof. apply set_map. Qed.

Lemma absc_del c id : abs_col (del id c) = del id (abs_col c).
Proof. apply del_map. Qed.

Lemma abs_sorted s : msorted s -> msorted (abs s).
Proof. apply msorted_map. Qed.

Lemma absc_sorted c : msorted c -> msorted (abs_col c).
Proof. apply msorted_map. Qed.

Lemma absc_length c : length (abs_col c) = length c.
Proof. apply smap_map_length. Qed.

Lemma abs_keys s : keys (abs s) = keys s.
Proof. apply keys_map. Qed.

Lemma abs_lookup s key id : lookup (abs s) key id = option_map abs_obj (find s key id).
Proof.
  unfold lookup, find. rewrite abs_get. destruct (get key s) as [c|]; cbn; [apply absc_get | reflexivity].
Qed.

Lemma abs_col_of s key : col_of (abs s) key = abs_col (match get key s with Some c => c | None => [] end).
Proof. unfold col_of. rewrite abs_get. destruct (get key s); reflexivity. Qed.

(* put on the abstract side = storing the object in the (possibly new) collection *)
Lemma abs_put_existing s key c id o :
  get key s = Some c -> put (abs s) key id (abs_obj o) = abs (set key (set id o c) s).
Proof.
  intros Hg. unfold put. rewrite abs_col_of, Hg, abs_set, absc_set. reflexivity.
Qed.

Lemma abs_put_new s key id o :
  get key s = None -> put (abs s) key id (abs_obj o) = abs (set key (set id o []) s).
Proof.
  intros Hg. unfold put. rewrite abs_col_of, Hg, abs_set, absc_set. reflexivity.
Qed.

(* removing: the collection is dropped when it becomes empty *)
Lemma abs_store_col s key c : abs (store_col s key c) = match abs_col c with [] => del key (abs s) | c' => set key c' (abs s) end.
Proof.
  unfold store_col. destruct c as [|[i o] r]; cbn [length Nat.eqb abs_col smap_map map].
  - apply abs_del.
  - rewrite abs_set. reflexivity.
Qed.

Lemma store_col_inv s key c : inv s -> msorted c -> Forall obj_ok c -> inv (store_col s key c).
Proof.
  intros Hi Hs HF. unfold store_col. destruct c as [|x r]; cbn [length Nat.eqb].
  - apply inv_del; exact Hi.
  - apply inv_set; [exact Hi|]. split; [discriminate | split; assumption].
Qed.
