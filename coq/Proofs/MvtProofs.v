(* C17 — the vector tile survives the JSON member and the HTTP route exactly when the encoder of
   writeFoot and the decoder of the HTTP arm name the same base64 encoding. *)
From Coq Require Import ZifyN ZifyNat ZifyBool.
From T38 Require Import Base.Bytes Model.Mvt.
From T38 Require Gen.Templates.
Open Scope N_scope.

Ltac Zify.zify_post_hook ::= Z.div_mod_to_equations.

Lemma b64val_char x : x < 64 -> b64val (b64char x) = Some x.
Proof.
  intros H. unfold b64char.
  destruct (N.ltb_spec x 26).
  { unfold b64val. replace ((65 <=? 65 + x) && (65 + x <=? 90)) with true by lia. f_equal; lia. }
  destruct (N.ltb_spec x 52).
  { unfold b64val. replace ((65 <=? 97 + (x - 26)) && (97 + (x - 26) <=? 90)) with false by lia.
    replace ((97 <=? 97 + (x - 26)) && (97 + (x - 26) <=? 122)) with true by lia. f_equal; lia. }
  destruct (N.ltb_spec x 62).
  { unfold b64val. replace ((65 <=? 48 + (x - 52)) && (48 + (x - 52) <=? 90)) with false by lia.
    replace ((97 <=? 48 + (x - 52)) && (48 + (x - 52) <=? 122)) with false by lia.
    replace ((48 <=? 48 + (x - 52)) && (48 + (x - 52) <=? 57)) with true by lia. f_equal; lia. }
  destruct (N.eqb_spec x 62); [subst; reflexivity|].
  assert (x = 63) by lia. subst. reflexivity.
Qed.

Lemma b64char_range x : x < 64 -> 43 <= b64char x <= 122 /\ b64char x <> PAD.
Proof.
  intros H. unfold b64char, PAD.
  destruct (N.ltb_spec x 26); [lia|]. destruct (N.ltb_spec x 52); [lia|].
  destruct (N.ltb_spec x 62); [lia|]. destruct (N.eqb_spec x 62); lia.
Qed.

Lemma b64char_not_pad x : x < 64 -> (b64char x =? PAD) = false.
Proof. intros H. apply N.eqb_neq. apply b64char_range. exact H. Qed.

Lemma b64val_pad : b64val PAD = None.
Proof. reflexivity. Qed.

Section Ind3.
Variable P : bytes -> Prop.
Hypothesis H0 : P [].
Hypothesis H1 : forall a, P [a].
Hypothesis H2 : forall a b, P [a; b].
Hypothesis H3 : forall a b c r, P r -> P (a :: b :: c :: r).
Fixpoint list_ind3 (l : bytes) : P l :=
  match l with
  | [] => H0
  | [a] => H1 a
  | [a; b] => H2 a b
  | a :: b :: c :: r => H3 a b c r (list_ind3 r)
  end.
End Ind3.

Definition keep (c : N) : bool := negb ((c =? 13) || (c =? 10)).

(* no CR / LF among the characters the encoder writes *)
Lemma encode_keeps pad t : wf_bytes t -> filter keep (b64_encode pad t) = b64_encode pad t.
Proof.
  assert (K : forall x, x < 64 -> keep (b64char x) = true).
  { intros x Hx. pose proof (b64char_range x Hx) as [Hr _]. unfold keep.
    destruct (N.eqb_spec (b64char x) 13); [lia|]. destruct (N.eqb_spec (b64char x) 10); [lia|]. reflexivity. }
  induction t as [|a|a b|a b c r IH] using list_ind3; intros Hw.
  - reflexivity.
  - inversion Hw; subst. cbn [b64_encode app filter].
    rewrite !K by lia. destruct pad; reflexivity.
  - inversion Hw as [|? ? Ha Hw']; subst. inversion Hw'; subst. cbn [b64_encode app filter].
    rewrite !K by lia. destruct pad; reflexivity.
  - inversion Hw as [|? ? Ha Hw1]; subst. inversion Hw1 as [|? ? Hb Hw2]; subst. inversion Hw2 as [|? ? Hc Hw3]; subst.
    cbn [b64_encode filter]. rewrite !K by lia. rewrite IH by exact Hw3. reflexivity.
Qed.

Lemma quanta_roundtrip pad t : wf_bytes t -> b64_quanta pad (b64_encode pad t) = Some t.
Proof.
  induction t as [|a|a b|a b c r IH] using list_ind3; intros Hw.
  - reflexivity.
  - inversion Hw; subst. cbn [b64_encode app].
    destruct pad; cbn [b64_quanta app]; rewrite !b64val_char by lia.
    + cbn [andb]. change (PAD =? PAD) with true. cbn iota. f_equal. f_equal. lia.
    + f_equal. f_equal. lia.
  - inversion Hw as [|? ? Ha Hw']; subst. inversion Hw'; subst. cbn [b64_encode app].
    destruct pad; cbn [b64_quanta app]; rewrite !b64val_char by lia.
    + cbn [andb]. rewrite b64char_not_pad by lia. change (PAD =? PAD) with true. cbn iota.
      f_equal. f_equal; [lia|]. f_equal. lia.
    + cbn [andb]. f_equal. f_equal; [lia|]. f_equal. lia.
  - inversion Hw as [|? ? Ha Hw1]; subst. inversion Hw1 as [|? ? Hb Hw2]; subst. inversion Hw2 as [|? ? Hc Hw3]; subst.
    cbn [b64_encode b64_quanta]. rewrite !b64val_char by lia.
    rewrite !b64char_not_pad by lia. rewrite !andb_false_r.
    rewrite IH by exact Hw3. f_equal. f_equal; [lia|]. f_equal; [lia|]. f_equal. lia.
Qed.

(* the same encoding on both sites: every tile comes back *)
Theorem same_kind_roundtrip k t : wf_bytes t -> decode k (encode k t) = Some t.
Proof.
  intros Hw. unfold decode, encode, b64_decode. fold keep.
  rewrite encode_keeps by exact Hw. apply quanta_roundtrip. exact Hw.
Qed.

(* padded text read by the NoPadding decoder: rejected whenever the encoder did pad *)
Lemma quanta_std_into_raw t : wf_bytes t -> (N.of_nat (length t)) mod 3 <> 0 ->
  b64_quanta false (b64_encode true t) = None.
Proof.
  induction t as [|a|a b|a b c r IH] using list_ind3; intros Hw Hn.
  - cbn in Hn. congruence.
  - inversion Hw; subst. cbn [b64_encode b64_quanta app andb].
    rewrite !b64val_char by lia. rewrite b64val_pad. reflexivity.
  - inversion Hw as [|? ? Ha Hw']; subst. inversion Hw'; subst. cbn [b64_encode b64_quanta app andb].
    rewrite !b64val_char by lia. rewrite b64val_pad. reflexivity.
  - inversion Hw as [|? ? Ha Hw1]; subst. inversion Hw1 as [|? ? Hb Hw2]; subst. inversion Hw2 as [|? ? Hc Hw3]; subst.
    cbn [b64_encode b64_quanta andb]. rewrite !b64val_char by lia.
    rewrite IH; [reflexivity | exact Hw3 |]. cbn [length] in Hn. lia.
Qed.

Theorem std_into_raw_rejected t : wf_bytes t -> (N.of_nat (length t)) mod 3 <> 0 ->
  decode BRawStd (encode BStd t) = None.
Proof.
  intros Hw Hn. unfold decode, encode, b64_decode. fold keep. cbn [padded].
  rewrite encode_keeps by exact Hw. apply quanta_std_into_raw; assumption.
Qed.

(* ---------- the two sites as the source names them ---------- *)

Lemma sites_same_kind :
  exists k, kind_of_name Gen.Templates.mvt_json_encoding = Some k /\
            kind_of_name Gen.Templates.mvt_http_decoding = Some k.
Proof. eexists. split; vm_compute; reflexivity. Qed.

Theorem mvt_http_delivers_tile : forall tile res, wf_bytes tile ->
  exists member,
    mvt_member Gen.Templates.mvt_json_encoding tile = Some member /\
    mvt_http Gen.Templates.mvt_http_decoding res (Some member) = Some (mkH 200 CTMvt tile).
Proof.
  intros tile res Hw. destruct sites_same_kind as (k & E1 & E2).
  unfold mvt_member, mvt_http. rewrite E1, E2. eexists. split; [reflexivity|].
  rewrite (same_kind_roundtrip k tile Hw). reflexivity.
Qed.

(* the padded encoder in front of the unpadded decoder (seeded change C17/9): 500 and the base64 text *)
Theorem mvt_http_std_raw_refuted : forall tile res, wf_bytes tile -> (N.of_nat (length tile)) mod 3 <> 0 ->
  mvt_http n_RawStdEncoding res (mvt_member n_StdEncoding tile) =
  Some (mkH 500 CTJson (encode BStd tile)).
Proof.
  intros tile res Hw Hn. unfold mvt_member, mvt_http.
  change (kind_of_name n_StdEncoding) with (Some BStd). change (kind_of_name n_RawStdEncoding) with (Some BRawStd).
  cbn iota. rewrite (std_into_raw_rejected tile Hw Hn). reflexivity.
Qed.
