(* A roaming fence is only ever selected through hooksOut (it has no Fence.obj): lemmas tying the
   registry model's cmdSetHook to the statement order of the source and stating that, after any
   history of SETHOOK / SETCHAN / DELHOOK / DELCHAN / PDELHOOK / PDELCHAN / FLUSHDB, a listed roaming
   hook is among getQueueCandidates' candidates for every write on its key - in particular after it
   has been re-defined under the same name.  The variant of cmdSetHook that deletes the previous
   hook from hooksOut after setting the new one is refuted. *)
From Coq Require Import List Bool ZArith Lia.
From T38 Require Import Base.Bytes Model.Fence Model.HookReg Model.HookRegOps Gen.SetHookOrder
  Proofs.FenceProofs Proofs.FenceRegProofs.
Import ListNotations.

(* ---------- HookReg.reg_sethook is the execution of the statements read from the source ---------- *)

Theorem sethook_is_source r h e : reg_sethook r h e = sethook_by sethook_stmts r h e.
Proof.
  unfold reg_sethook, sethook_by, sethook_stops.
  destruct (get_name (h_name h) (hooks r)) as [p|].
  - destruct (negb (Bool.eqb (h_chan p) (h_chan h))); [reflexivity|].
    destruct e; [reflexivity|].
    unfold sethook_stmts, run_stmts. cbn [fold_left]. unfold exec_stmt.
    cbn [fst snd forallb guard_holds andb].
    destruct (h_expires p), (detects (h_detect h) DOutside), (has_area p), (dmap (h_detect p) DCross),
      (has_area h), (dmap (h_detect h) DCross), (h_expires h); reflexivity.
  - unfold sethook_stmts, run_stmts. cbn [fold_left]. unfold exec_stmt.
    cbn [fst snd forallb guard_holds andb].
    destruct (detects (h_detect h) DOutside), (has_area h), (dmap (h_detect h) DCross), (h_expires h); reflexivity.
Qed.

(* histories executed with an arbitrary statement list for cmdSetHook *)
Definition reg_step_by (l : list stmt) (r : reg) (o : rop) : reg :=
  match o with RSet h e => sethook_by l r h e | _ => reg_step r o end.
Definition reg_run_by (l : list stmt) (ops : list rop) : reg := fold_left (reg_step_by l) ops reg_empty.

Theorem run_by_source ops : reg_run_by sethook_stmts ops = reg_run ops.
Proof.
  unfold reg_run_by, reg_run. generalize reg_empty.
  induction ops as [|o ops IH]; intros r; cbn [fold_left]; [reflexivity|].
  rewrite IH. f_equal. destruct o; cbn [reg_step_by reg_step]; try reflexivity.
  symmetry. apply sethook_is_source.
Qed.

(* ---------- a listed roaming hook is a candidate ---------- *)

Theorem roam_hook_selected_iff ops h k old new :
  h_area h = None ->
  (In h (candidates (reg_run ops) k old new) <->
   In h (hooks (reg_run ops)) /\ h_key h = k /\ detects (h_detect h) DOutside = true).
Proof.
  intros Ha. rewrite (candidates_local _ k old new h (registry_inv ops)).
  unfold cand_cond. rewrite Ha. rewrite orb_false_r. reflexivity.
Qed.

Lemma sethook_lists r h : sethook_stops r h false = false -> In h (hooks (reg_sethook r h false)).
Proof.
  unfold sethook_stops, reg_sethook. intros Hs.
  destruct (get_name (h_name h) (hooks r)) as [p|].
  - destruct (negb (Bool.eqb (h_chan p) (h_chan h))); [discriminate|]. cbn. left. reflexivity.
  - cbn. left. reflexivity.
Qed.

Lemma reg_run_snoc ops o : reg_run (ops ++ [o]) = reg_step (reg_run ops) o.
Proof. unfold reg_run. rewrite fold_left_app. reflexivity. Qed.

(* re-definition: whatever happened before, once SETHOOK / SETCHAN of a roaming fence without DETECT
   (or with DETECT outside) has been accepted - also when it replaces a hook of that name with other
   arguments - the new hook is a candidate for every write on its key *)
Theorem roam_redefined_selected ops h old new :
  h_area h = None -> detects (h_detect h) DOutside = true ->
  sethook_stops (reg_run ops) h false = false ->
  In h (candidates (reg_run (ops ++ [RSet h false])) (h_key h) old new).
Proof.
  intros Ha Hd Hs. apply (roam_hook_selected_iff _ h (h_key h) old new Ha).
  split; [|split; [reflexivity | exact Hd]].
  rewrite reg_run_snoc. cbn [reg_step]. apply sethook_lists. exact Hs.
Qed.

(* an identical re-issue (Equals) changes nothing *)
Theorem roam_reissue_unchanged ops h p :
  get_name (h_name h) (hooks (reg_run ops)) = Some p ->
  reg_run (ops ++ [RSet h true]) = reg_run ops.
Proof.
  intros Hg. rewrite reg_run_snoc. cbn [reg_step]. unfold reg_sethook. rewrite Hg.
  destruct (negb (Bool.eqb (h_chan p) (h_chan h))); reflexivity.
Qed.

(* the boolean the model driver answers with *)
Theorem selected_iff ops n k old new :
  selected (reg_run ops) n k old new = true <->
  exists h, In h (hooks (reg_run ops)) /\ h_name h = n /\ h_key h = k /\ cand_cond h old new = true.
Proof.
  unfold selected. rewrite existsb_exists. split.
  - intros (h & Hi & Hn). apply named_true in Hn.
    apply (candidates_local _ k old new h (registry_inv ops)) in Hi. destruct Hi as (H1 & H2 & H3).
    exists h. auto.
  - intros (h & H1 & Hn & H2 & H3). exists h. split; [|apply named_true; exact Hn].
    apply (candidates_local _ k old new h (registry_inv ops)). auto.
Qed.

(* ---------- the variant that deletes the previous hook from hooksOut after the Set ---------- *)

Definition sethook_stmts_late_delete : list stmt := [
  ([GPrev], SDelPrev CHooks);
  ([GPrev; GPrevExp], SDelPrev CExp);
  ([], SSetNew CHooks);
  ([GOutside], SSetNew COut);
  ([GPrev], SDelPrev COut);
  ([GPrevArea], SDelPrev CTree);
  ([GPrevArea; GPrevCross], SDelPrev CCross);
  ([GNewArea], SSetNew CTree);
  ([GNewArea; GNewCross], SSetNew CCross);
  ([GNewExp], SSetNew CExp)
].

Definition n_fence : bytes := [102; 49]%N.   (* f1 *)
Definition k_fleet : bytes := [107]%N.       (* k *)
Definition r_unit : rect := {| minx := 0; miny := 0; maxx := 0; maxy := 0 |}.

(* SETCHAN f1 NEARBY k FENCE ROAM k * 100 ; SETCHAN f1 NEARBY k FENCE ROAM k * 500 : the hook is listed,
   SETCHAN answered 1, and no write on k selects it *)
Theorem late_delete_refuted :
  exists ops h,
    h_area h = None /\ detects (h_detect h) DOutside = true /\
    In h (hooks (reg_run_by sethook_stmts_late_delete ops)) /\
    candidates (reg_run_by sethook_stmts_late_delete ops) (h_key h) (Some r_unit) (Some r_unit) = [].
Proof.
  exists [RSet (roam_hook n_fence true k_fleet true) false; RSet (roam_hook n_fence true k_fleet true) false],
         (roam_hook n_fence true k_fleet true).
  repeat split; try (vm_compute; reflexivity). vm_compute. left. reflexivity.
Qed.

(* the same history on the statement order of the source *)
Example source_order_example :
  let ops := [RSet (roam_hook n_fence true k_fleet true) false; RSet (roam_hook n_fence true k_fleet true) false] in
  selected (reg_run ops) n_fence k_fleet (Some r_unit) (Some r_unit) = true /\
  selected (reg_run (ops ++ [RSet (roam_hook n_fence true k_fleet false) false])) n_fence k_fleet (Some r_unit) (Some r_unit) = false /\
  selected (reg_run (ops ++ [RDel n_fence true])) n_fence k_fleet (Some r_unit) (Some r_unit) = false.
Proof. vm_compute. auto. Qed.
