(* Lemmas about the pattern-vs-literal decision of a ROAM fence (Model.Roam.is_glob = glob.IsGlob,
   roam_parse, id_match): a pattern without '[', '*', '?', '\' matches exactly itself, so the
   literal comparison fenceMatchNearbys uses when IsGlob is false agrees with glob.Match; hence
   id_match of a parsed ROAM clause is glob matching for every id pattern (up to the two stated
   hypotheses).  The variants of IsGlob that forget one of the three bytes are refuted. *)
From Coq Require Import List NArith ZArith Bool Arith Lia.
From T38 Require Import Base.Bytes Base.Utf8 Model.Glob Model.Roam Proofs.GlobProofs Gen.GlobMeta.
From Coq Require Import ZifyN ZifyNat ZifyBool.
Import ListNotations.
Open Scope N_scope.

(* ---------- a pattern of plain bytes matches exactly itself ---------- *)

Definition no_meta (l : bytes) : Prop := forallb (fun c => negb (is_meta c)) l = true.

Lemma no_meta_cons x l : no_meta (x :: l) ->
  (x <> LBR /\ x <> STAR /\ x <> QM /\ x <> BSL) /\ no_meta l.
Proof.
  unfold no_meta. cbn [forallb]. intros H. apply andb_true_iff in H as [Hx Hl].
  apply negb_true_iff in Hx. split; [exact (is_meta_false x Hx) | exact Hl].
Qed.

Lemma scan_body_nometa l : no_meta l -> scan_body l false = (l, []).
Proof.
  induction l as [|x l IH]; intros H; [reflexivity|].
  apply no_meta_cons in H as [[H1 [H2 [H3 H4]]] Hl].
  cbn [scan_body].
  destruct (N.eqb_spec x BSL); [contradiction|].
  destruct (N.eqb_spec x LBR); [contradiction|].
  rewrite (IH Hl).
  destruct (N.eqb_spec x RBR); [reflexivity|].
  destruct (N.eqb_spec x STAR); [contradiction|]. reflexivity.
Qed.

(* what matchChunk does on a chunk of plain bytes: strip it from the front of the name *)
Fixpoint lit_res (l s : bytes) : mres :=
  match l with
  | [] => MOk s
  | c :: l' => match s with [] => MNo | s0 :: s' => if c =? s0 then lit_res l' s' else MNo end
  end.

Lemma match_chunk_nometa l : forall fuel s,
  no_meta l -> (length l < fuel)%nat -> match_chunk fuel l s = lit_res l s.
Proof.
  induction l as [|x l IH]; intros fuel s Hl Hf.
  - destruct fuel; [inversion Hf|]. reflexivity.
  - destruct fuel as [|f]; [inversion Hf|].
    apply no_meta_cons in Hl as [[H1 [H2 [H3 H4]]] Hl].
    cbn [match_chunk lit_res]. destruct s as [|s0 s']; [reflexivity|].
    destruct (N.eqb_spec x LBR); [contradiction|].
    destruct (N.eqb_spec x QM); [contradiction|].
    destruct (N.eqb_spec x BSL); [contradiction|].
    destruct (N.eqb_spec x s0); [|reflexivity].
    apply IH; [exact Hl | cbn [length] in Hf; lia].
Qed.

Lemma lit_res_ok l : forall s t, lit_res l s = MOk t <-> s = l ++ t.
Proof.
  induction l as [|x l IH]; intros s t; cbn [lit_res app].
  - split; [intros H; injection H; auto | intros ->; reflexivity].
  - destruct s as [|s0 s']; [split; discriminate|].
    destruct (N.eqb_spec x s0) as [->|Hne].
    + rewrite IH. split; [intros ->; reflexivity | intros H; injection H; auto].
    + split; [discriminate | intros H; injection H; intros; subst; contradiction].
Qed.

Lemma lit_res_cases l : forall s, (exists t, lit_res l s = MOk t) \/ lit_res l s = MNo.
Proof.
  induction l as [|x l IH]; intros s; cbn [lit_res].
  - left; eexists; reflexivity.
  - destruct s as [|s0 s']; [right; reflexivity|].
    destruct (x =? s0); [apply IH | right; reflexivity].
Qed.

Theorem glob_match_literal p s : no_meta p -> (glob_match p s = WTrue <-> p = s).
Proof.
  intros Hp. destruct p as [|x l].
  - rewrite match_empty_pattern. split; intros H; subst; reflexivity.
  - pose proof (no_meta_cons _ _ Hp) as [[_ [Hx _]] _].
    unfold glob_match. cbn [wmatch].
    rewrite (strip_stars_nostar x l Hx). rewrite (scan_body_nometa _ Hp).
    cbn [andb isempty nonempty orb].
    unfold match_chunk0. rewrite (match_chunk_nometa (x :: l) _ s Hp) by lia.
    destruct (lit_res_cases (x :: l) s) as [[t Et] | En].
    + rewrite Et. apply lit_res_ok in Et. subst s. destruct t as [|c t].
      * cbn. rewrite app_nil_r. split; reflexivity.
      * cbn [isempty nonempty orb]. split; [discriminate|].
        intros H. apply (f_equal (@length N)) in H. rewrite app_length in H. cbn [length] in H. lia.
    + rewrite En. split; [discriminate|]. intros <-.
      assert (E : lit_res (x :: l) (x :: l) = MOk []) by (apply lit_res_ok; rewrite app_nil_r; reflexivity).
      rewrite E in En. discriminate.
Qed.

(* ---------- IsGlob ---------- *)

Lemma is_glob_loop_false metas whole p :
  is_glob_loop metas whole p = false ->
  forallb (fun c => negb (existsb (N.eqb c) metas)) p = true \/ glob_match whole WHATEVER = WBad.
Proof.
  induction p as [|a p IH]; cbn [is_glob_loop forallb]; intros H; [left; reflexivity|].
  destruct (existsb (N.eqb a) metas) eqn:E.
  - right. destruct (glob_match whole WHATEVER); try discriminate; reflexivity.
  - cbn [negb andb]. exact (IH H).
Qed.

Lemma is_glob_loop_true metas whole p :
  is_glob_loop metas whole p = true ->
  existsb (fun c => existsb (N.eqb c) metas) p = true /\ glob_match whole WHATEVER <> WBad.
Proof.
  induction p as [|a p IH]; cbn [is_glob_loop existsb]; intros H; [discriminate|].
  destruct (existsb (N.eqb a) metas) eqn:E.
  - split; [reflexivity|]. intros Hb. rewrite Hb in H. discriminate.
  - cbn [orb]. exact (IH H).
Qed.

(* the pattern passes IsGlob's probe  Match(pattern, "whatever")  without ErrBadPattern *)
Definition glob_ok (p : bytes) : Prop := glob_match p WHATEVER <> WBad.
(* a '[', '*' or '?' occurs *)
Definition has_wild (p : bytes) : bool := existsb is_glob_meta p.

Lemma not_isglob_meta_no_wild p :
  forallb (fun c => negb (existsb (N.eqb c) ISGLOB_METAS)) p = true -> has_wild p = false.
Proof.
  unfold has_wild. induction p as [|a p IH]; cbn [forallb existsb]; intros H; [reflexivity|].
  apply andb_true_iff in H as [Ha Hp]. rewrite (IH Hp).
  unfold ISGLOB_METAS in Ha. cbn [existsb] in Ha. unfold is_glob_meta.
  destruct (a =? LBR), (a =? STAR), (a =? QM); cbn in *; try discriminate; reflexivity.
Qed.

Lemma no_wild_no_bsl_no_meta p : has_wild p = false -> ~ In BSL p -> no_meta p.
Proof.
  unfold has_wild, no_meta. induction p as [|a p IH]; cbn [existsb forallb]; intros H Hb; [reflexivity|].
  apply orb_false_iff in H as [Ha Hp].
  rewrite (IH Hp) by (intros Hi; apply Hb; right; exact Hi).
  assert (a <> BSL) by (intros ->; apply Hb; left; reflexivity).
  unfold is_glob_meta in Ha. unfold is_meta.
  destruct (N.eqb_spec a BSL); [contradiction|].
  destruct (a =? LBR), (a =? STAR), (a =? QM); cbn in *; try discriminate; reflexivity.
Qed.

Lemma is_glob_false_no_wild p : is_glob p = false -> glob_ok p -> has_wild p = false.
Proof.
  unfold is_glob, is_glob_with. intros H Hok.
  destruct (is_glob_loop_false _ _ _ H) as [Hf | Hb]; [|contradiction].
  exact (not_isglob_meta_no_wild p Hf).
Qed.

(* the literal comparison is justified exactly when IsGlob is false: for a pattern that passes the
   probe and has no escape, IsGlob p = false makes glob.Match p s the same as p = s *)
Theorem roam_shortcut_exact p :
  is_glob p = false -> glob_ok p -> ~ In BSL p ->
  forall s, glob_match p s = WTrue <-> p = s.
Proof.
  intros H Hok Hb s. apply glob_match_literal.
  apply no_wild_no_bsl_no_meta; [exact (is_glob_false_no_wild p H Hok) | exact Hb].
Qed.

(* conversely IsGlob is false on every pattern of plain bytes *)
Lemma is_glob_loop_plain whole p :
  existsb is_glob_meta p = false -> is_glob_loop ISGLOB_METAS whole p = false.
Proof.
  induction p as [|a p IH]; cbn [existsb is_glob_loop]; intros H; [reflexivity|].
  apply orb_false_iff in H as [Ha Hp].
  unfold ISGLOB_METAS at 1. cbn [existsb]. unfold is_glob_meta in Ha.
  destruct (a =? LBR), (a =? STAR), (a =? QM); cbn in *; try discriminate. exact (IH Hp).
Qed.

Theorem is_glob_plain p : has_wild p = false -> is_glob p = false.
Proof. unfold is_glob, is_glob_with, has_wild. apply is_glob_loop_plain. Qed.

(* the ROAM clause as parsed by search.go matches ids by glob.Match, for every id pattern that
   passes the probe and in which an escape only occurs next to a wildcard *)
Theorem roam_idmatch_all_patterns p meters nodwell detnil s :
  glob_ok p -> (In BSL p -> has_wild p = true) ->
  (id_match (roam_parse p meters nodwell detnil) s = true <-> glob_match p s = WTrue).
Proof.
  intros Hok Hesc. unfold id_match, roam_parse. cbn [rs_pattern rs_id].
  destruct (is_glob p) eqn:E.
  - destruct (glob_match p s); split; intros H; try discriminate; reflexivity.
  - pose proof (is_glob_false_no_wild p E Hok) as Hw.
    assert (Hb : ~ In BSL p) by (intros Hi; rewrite (Hesc Hi) in Hw; discriminate).
    rewrite (roam_shortcut_exact p E Hok Hb s). apply bytes_eqb_eq.
Qed.

(* a pattern without wildcard names one id *)
Theorem roam_idmatch_plain p meters nodwell detnil s :
  has_wild p = false -> (id_match (roam_parse p meters nodwell detnil) s = true <-> p = s).
Proof.
  intros Hw. unfold id_match, roam_parse. cbn [rs_pattern rs_id].
  rewrite (is_glob_plain p Hw). apply bytes_eqb_eq.
Qed.

(* ---------- the variants that forget a byte of the case list ---------- *)

Definition b_car_q : bytes := [99; 97; 114; 63].      (* car? *)
Definition b_car_s : bytes := [99; 97; 114; 42].      (* car* *)
Definition b_car_c : bytes := [99; 97; 114; 91; 48; 45; 57; 93].   (* car[0-9] *)
Definition b_car1 : bytes := [99; 97; 114; 49].       (* car1 *)
Definition b_car_e1 : bytes := [99; 97; 114; 92; 49]. (* car\1 *)

Ltac no_bsl := let H := fresh in intros H; cbn in H; unfold BSL in H;
  repeat (destruct H as [H|H]; [discriminate H|]); exact H.
Ltac probe_ok := let H := fresh in unfold glob_ok; intros H; vm_compute in H; discriminate H.

Definition shortcut_wrong (metas : list N) : Prop :=
  exists p s, glob_ok p /\ ~ In BSL p /\ is_glob_with metas p = false /\ glob_match p s = WTrue /\ p <> s.

Theorem isglob_without_qm_refuted : shortcut_wrong [LBR; STAR].
Proof. exists b_car_q, b_car1. repeat split; try (vm_compute; reflexivity); [probe_ok | no_bsl | discriminate]. Qed.

Theorem isglob_without_star_refuted : shortcut_wrong [LBR; QM].
Proof. exists b_car_s, b_car1. repeat split; try (vm_compute; reflexivity); [probe_ok | no_bsl | discriminate]. Qed.

Theorem isglob_without_bracket_refuted : shortcut_wrong [STAR; QM].
Proof. exists b_car_c, b_car1. repeat split; try (vm_compute; reflexivity); [probe_ok | no_bsl | discriminate]. Qed.

(* the hypothesis on escapes cannot be dropped: a pattern whose only special byte is an escape is
   compared literally (IsGlob's case list has no '\', unlike Parse's) *)
Theorem roam_escape_only_is_literal :
  exists p s, glob_ok p /\ glob_match p s = WTrue /\
              id_match (roam_parse p 0%Z false true) s = false /\
              id_match (roam_parse p 0%Z false true) p = true.
Proof. exists b_car_e1, b_car1. repeat split; try (vm_compute; reflexivity). probe_ok. Qed.

(* ---------- tie to the source: what t38x read from glob.go / search.go / fence.go ---------- *)

Theorem isglob_source_tied :
  (forall c, In c isglob_case_bytes <-> In c ISGLOB_METAS) /\
  isglob_probe = WHATEVER /\ roam_pattern_is_isglob = true /\ roam_idmatch_shape = true.
Proof.
  split; [|repeat split; reflexivity].
  intros c. unfold isglob_case_bytes, ISGLOB_METAS, LBR, STAR, QM. cbn [In]. intuition.
Qed.
