(* C10 (a) — proofs about the webhook queue of Model/Queues.v. *)
From Coq Require Import List NArith ZArith Bool Arith Lia.
From Coq Require Import ZifyN ZifyNat ZifyBool.
From T38 Require Import Model.Queues.
Import ListNotations.
Local Open Scope N_scope.

Definition idxs (l : list entry) : list N := map e_idx l.

(* strictly increasing *)
Fixpoint incr (l : list N) : Prop :=
  match l with
  | [] => True
  | x :: r => Forall (N.lt x) r /\ incr r
  end.

Lemma incr_app : forall a b,
  incr (a ++ b) <-> incr a /\ incr b /\ (forall x y, In x a -> In y b -> x < y).
Proof.
  induction a as [|x a IH]; intros b; cbn [app incr].
  - split.
    + intros H. split; [exact I|]. split; [exact H|]. intros x y [].
    + intros (_ & H & _). exact H.
  - rewrite IH. rewrite Forall_app. split.
    + intros ((Fa & Fb) & Ia & Ib & C). repeat split; auto.
      intros u v [<-|Hu] Hv; [rewrite Forall_forall in Fb; auto | auto].
    + intros ((Fa & Ia) & Ib & C). repeat split; auto.
      * apply Forall_forall. intros v Hv. apply C; [left; reflexivity | exact Hv].
      * intros u v Hu Hv. apply C; [right; exact Hu | exact Hv].
Qed.

Lemma in_idxs_filter : forall f l x, In x (idxs (filter f l)) -> In x (idxs l).
Proof.
  intros f l x H. unfold idxs in *. apply in_map_iff in H. destruct H as (e & <- & He).
  apply filter_In in He. apply in_map. tauto.
Qed.

Lemma incr_filter : forall f l, incr (idxs l) -> incr (idxs (filter f l)).
Proof.
  induction l as [|e l IH]; intros H; [exact I|].
  cbn [idxs map incr] in H. destruct H as (F & Hi). cbn [filter].
  destruct (f e); [|apply IH; exact Hi].
  cbn [idxs map incr]. split; [|apply IH; exact Hi].
  apply Forall_forall. intros x Hx. rewrite Forall_forall in F. apply F.
  apply (in_idxs_filter f). exact Hx.
Qed.

Lemma idxs_app : forall a b, idxs (a ++ b) = idxs a ++ idxs b.
Proof. intros. unfold idxs. apply map_app. Qed.

(* dropping elements in the middle keeps a list increasing *)
Lemma incr_mid_filter : forall f a u b,
  incr (idxs (a ++ u ++ b)) -> incr (idxs (a ++ filter f u ++ b)).
Proof.
  intros f a u b H. rewrite !idxs_app in *. rewrite !incr_app in *.
  destruct H as (Ia & (Iu & Ib & Cub) & Ca).
  repeat split; auto.
  - apply incr_filter. exact Iu.
  - intros x y Hx Hy. apply Cub; [eapply in_idxs_filter; eauto | exact Hy].
  - intros x y Hx Hy. apply Ca; [exact Hx|]. apply in_app_or in Hy. apply in_or_app.
    destruct Hy as [Hy|Hy]; [left; eapply in_idxs_filter; eauto | right; exact Hy].
Qed.

Lemma Forall_mid_filter : forall (P : entry -> Prop) f a u b,
  Forall P (a ++ u ++ b) -> Forall P (a ++ filter f u ++ b).
Proof.
  intros P f a u b H. rewrite !Forall_app in *. destruct H as (Ha & Hu & Hb). repeat split; auto.
  rewrite Forall_forall in *. intros x Hx. apply filter_In in Hx. apply Hu. tauto.
Qed.

(* tx.Set of a key that sorts between pre and l lands there *)
Lemma db_set_mid : forall e pre l,
  incr (idxs (pre ++ e :: l)) -> db_set e (pre ++ l) = pre ++ e :: l.
Proof.
  induction pre as [|p pre IH]; intros l H.
  - cbn [app] in *. destruct l as [|x r]; [reflexivity|].
    cbn [idxs map incr] in H. destruct H as (F & _). inversion F as [|? ? Hlt _]; subst.
    cbn [db_set]. apply N.ltb_lt in Hlt. rewrite Hlt. reflexivity.
  - cbn [app idxs map incr] in H. destruct H as (F & Hi).
    assert (Hlt : e_idx p < e_idx e).
    { rewrite Forall_forall in F. apply F. fold (idxs (pre ++ e :: l)). rewrite idxs_app.
      apply in_or_app. right. left. reflexivity. }
    cbn [app db_set].
    destruct (N.ltb_spec (e_idx e) (e_idx p)); [lia|].
    destruct (N.eqb_spec (e_idx e) (e_idx p)); [lia|].
    f_equal. apply IH. exact Hi.
Qed.

Lemma incr_drop_mid : forall a u b, incr (idxs (a ++ u ++ b)) -> incr (idxs (a ++ b)).
Proof.
  intros a u b H. apply (incr_mid_filter (fun _ => false)) in H.
  assert (E : filter (fun _ : entry => false) u = []) by (induction u; auto).
  rewrite E in H. exact H.
Qed.

Lemma incr_unsent_db : forall d s u b, incr (idxs (d ++ (s ++ u) ++ b)) -> incr (idxs (u ++ b)).
Proof.
  intros d s u b H. apply (incr_drop_mid [] (d ++ s) (u ++ b)). cbn [app].
  rewrite <- !app_assoc in *. exact H.
Qed.

Lemma fold_set_sorted : forall us pre l,
  incr (idxs (pre ++ us ++ l)) ->
  fold_left (fun d e => db_set e d) us (pre ++ l) = pre ++ us ++ l.
Proof.
  induction us as [|u us IH]; intros pre l H; [reflexivity|].
  cbn [fold_left app]. rewrite db_set_mid.
  2:{ replace (pre ++ u :: l) with ((pre ++ [u]) ++ l) by (rewrite <- app_assoc; reflexivity).
      apply (incr_drop_mid _ us). rewrite <- app_assoc. exact H. }
  replace (pre ++ u :: l) with ((pre ++ [u]) ++ l) by (rewrite <- app_assoc; reflexivity).
  rewrite IH.
  - rewrite <- app_assoc. reflexivity.
  - rewrite <- app_assoc. exact H.
Qed.

Lemma reinsert_sorted : forall now unsent db,
  incr (idxs (unsent ++ db)) ->
  reinsert now unsent db = filter (fun e => Z.ltb now (e_exat e)) unsent ++ db.
Proof.
  intros now unsent db H. unfold reinsert.
  apply (fold_set_sorted _ [] db). cbn [app].
  apply (incr_mid_filter _ [] unsent db). exact H.
Qed.

Lemma send_all_split : forall l outs s u, send_all outs l = (s, u) -> l = s ++ u.
Proof.
  induction l as [|e r IH]; intros outs s u H; cbn [send_all] in H.
  - injection H as <- <-. reflexivity.
  - destruct outs as [|[|] o].
    + destruct (send_all [] r) as [s' u'] eqn:E. injection H as <- <-.
      cbn [app]. f_equal. eapply IH. exact E.
    + destruct (send_all o r) as [s' u'] eqn:E. injection H as <- <-.
      cbn [app]. f_equal. eapply IH. exact E.
    + injection H as <- <-. reflexivity.
Qed.

Lemma send_all_healthy : forall l, send_all [] l = (l, []).
Proof. induction l as [|e r IH]; [reflexivity|]. cbn [send_all]. rewrite IH. reflexivity. Qed.

Lemma updf_same : forall A (f : hookid -> A) h x, updf f h x h = x.
Proof. intros. unfold updf. now rewrite N.eqb_refl. Qed.

Lemma updf_other : forall A (f : hookid -> A) h x i, i <> h -> updf f h x i = f i.
Proof. intros A f h x i Hne. unfold updf. destruct (N.eqb_spec i h); congruence. Qed.

(* ---- the general invariant: what is delivered, being sent and queued for a hook is in key order ---- *)

Definition line (q : hq) (h : hookid) : list entry := q_delivered q h ++ taken_list q h ++ q_db q h.

Record HInv (q : hq) : Prop := mkHInv {
  hi_incr : forall h, incr (idxs (line q h));
  hi_bound : forall h, Forall (fun e => e_idx e <= q_idx q) (line q h);
  hi_hook : forall h, Forall (fun e => e_hook e = h) (line q h)
}.

Lemma hinv_init : HInv hq_init.
Proof. constructor; intros h; cbn; auto. Qed.

(* the persisted counter is the in-memory counter *)
Definition PInv (q : hq) : Prop := q_pidx q = q_idx q.

(* effect of queueHooks *)
Lemma enqueue_spec : forall now msgs q, HInv q ->
  let q' := enqueue now msgs q in
  HInv q' /\ q_idx q <= q_idx q' /\ q_taken q' = q_taken q /\ q_delivered q' = q_delivered q /\
  (PInv q -> PInv q') /\
  forall h, exists news,
    q_db q' h = q_db q h ++ news /\
    map e_msg news = map snd (filter (fun hm => N.eqb (fst hm) h) msgs) /\
    Forall (fun e => e_exat e = (now + hook_ttl)%Z) news.
Proof.
  induction msgs as [|[h0 m] r IH]; intros q H; cbn zeta.
  - cbn [enqueue]. split; [exact H|]. split; [lia|]. split; [reflexivity|]. split; [reflexivity|].
    split; [auto|].
    intros h. exists []. rewrite app_nil_r. auto.
  - cbn [enqueue].
    set (e := mkEntry (N.succ (q_idx q)) h0 m (now + hook_ttl)).
    set (q1 := mkHQ (updf (q_db q) h0 (db_set e (q_db q h0))) (N.succ (q_idx q)) (q_taken q) (q_delivered q) (N.succ (q_idx q))).
    assert (Hset : db_set e (q_db q h0) = q_db q h0 ++ [e]).
    { pose proof (db_set_mid e (q_db q h0) []) as Hmid. rewrite app_nil_r in Hmid. apply Hmid. clear Hmid.
      rewrite idxs_app.
      pose proof (hi_incr _ H h0) as Hi. pose proof (hi_bound _ H h0) as Hb.
      unfold line in Hi, Hb. rewrite !idxs_app in Hi. rewrite !incr_app in Hi.
      destruct Hi as (_ & (_ & Idb & _) & _).
      apply incr_app. repeat split; auto. cbn. auto.
      intros x y Hx [<-|[]]. cbn [e e_idx].
      rewrite !Forall_app in Hb. destruct Hb as (_ & _ & Hb). rewrite Forall_forall in Hb.
      unfold idxs in Hx. apply in_map_iff in Hx. destruct Hx as (z & <- & Hz). specialize (Hb z Hz). cbn in Hb. lia. }
    assert (H1 : HInv q1).
    { constructor; intros h; unfold line, taken_list; cbn [q1 q_db q_idx q_taken q_delivered].
      - destruct (N.eq_dec h h0) as [->|Hne].
        + rewrite updf_same, Hset. rewrite !app_assoc. rewrite idxs_app. apply incr_app.
          pose proof (hi_incr _ H h0) as Hi. pose proof (hi_bound _ H h0) as Hb. unfold line, taken_list in Hi, Hb.
          rewrite <- !app_assoc. repeat split; auto. cbn; auto.
          intros x y Hx [<-|[]]. cbn [e e_idx]. rewrite Forall_forall in Hb.
          unfold idxs in Hx. apply in_map_iff in Hx. destruct Hx as (z & <- & Hz). specialize (Hb z Hz). cbn in Hb. lia.
        + rewrite updf_other by exact Hne. apply (hi_incr _ H h).
      - destruct (N.eq_dec h h0) as [->|Hne].
        + rewrite updf_same, Hset. rewrite !app_assoc. apply Forall_app. split.
          * rewrite <- !app_assoc. pose proof (hi_bound _ H h0) as Hb. unfold line, taken_list in Hb.
            eapply Forall_impl; [|exact Hb]. cbn. intros; lia.
          * constructor; [cbn; lia | constructor].
        + rewrite updf_other by exact Hne. pose proof (hi_bound _ H h) as Hb. unfold line, taken_list in Hb.
          eapply Forall_impl; [|exact Hb]. cbn. intros; lia.
      - destruct (N.eq_dec h h0) as [->|Hne].
        + rewrite updf_same, Hset. rewrite !app_assoc. apply Forall_app. split.
          * rewrite <- !app_assoc. apply (hi_hook _ H h0).
          * constructor; [reflexivity | constructor].
        + rewrite updf_other by exact Hne. apply (hi_hook _ H h). }
    destruct (IH q1 H1) as (HI & Hle & Htk & Hdl & Hpi & Hdb). fold q1.
    split; [exact HI|]. split; [cbn [q1 q_idx] in Hle; lia|]. split; [exact Htk|]. split; [exact Hdl|].
    split; [intros _; apply Hpi; reflexivity|].
    * intros h. destruct (Hdb h) as (news & E1 & E2 & E3).
      cbn [filter fst snd]. destruct (N.eqb_spec h0 h) as [->|Hne].
      -- exists (e :: news). cbn [q1 q_db] in E1. rewrite updf_same, Hset in E1.
        rewrite E1. rewrite <- app_assoc. repeat split; auto.
        cbn [map snd e e_msg]. f_equal. exact E2.
      -- exists news. cbn [q1 q_db] in E1. rewrite updf_other in E1 by congruence. auto.
Qed.

Lemma qstep_hinv : forall q ev, HInv q -> PInv q -> HInv (qstep q ev).
Proof.
  intros q [now msgs|h0 now outs|now] H HP.
  3:{ (* restart: the counter comes back unchanged, what was being sent is dropped *)
      cbn [qstep]. unfold PInv in HP.
      assert (Hl : forall h, line (mkHQ (q_db q) (q_pidx q) (fun _ => None) (q_delivered q) (q_pidx q)) h
                             = q_delivered q h ++ filter (fun _ => false) (taken_list q h) ++ q_db q h).
      { intros h. unfold line at 1, taken_list at 1. cbn [q_db q_taken q_delivered].
        assert (E : filter (fun _ : entry => false) (taken_list q h) = []) by (induction (taken_list q h); auto).
        rewrite E. reflexivity. }
      constructor; intros h; rewrite Hl; cbn [q_idx]; rewrite ?HP.
      - apply incr_mid_filter. apply (hi_incr _ H h).
      - apply Forall_mid_filter. apply (hi_bound _ H h).
      - apply Forall_mid_filter. apply (hi_hook _ H h). }
  - cbn [qstep]. apply (enqueue_spec now msgs q H).
  - cbn [qstep]. destruct (q_taken q h0) as [tk|] eqn:ET.
    + destruct (send_all outs tk) as [sent unsent] eqn:ES.
      pose proof (send_all_split _ _ _ _ ES) as Hsp.
      assert (Hl0 : line q h0 = q_delivered q h0 ++ (sent ++ unsent) ++ q_db q h0)
        by (unfold line, taken_list; rewrite ET, Hsp; reflexivity).
      assert (Hre : reinsert now unsent (q_db q h0) = filter (fun e => Z.ltb now (e_exat e)) unsent ++ q_db q h0).
      { apply reinsert_sorted. pose proof (hi_incr _ H h0) as Hi. rewrite Hl0 in Hi.
        eapply incr_unsent_db. exact Hi. }
      assert (Hnew : forall h, line (mkHQ (updf (q_db q) h0 (reinsert now unsent (q_db q h0))) (q_idx q)
                                         (updf (q_taken q) h0 None) (updf (q_delivered q) h0 (q_delivered q h0 ++ sent)) (q_pidx q)) h
                     = if N.eqb h h0 then (q_delivered q h0 ++ sent) ++ filter (fun e => Z.ltb now (e_exat e)) unsent ++ q_db q h0
                       else line q h).
      { intros h. unfold line, taken_list. cbn [q_db q_taken q_delivered].
        destruct (N.eqb_spec h h0) as [->|Hne].
        - rewrite !updf_same, Hre. reflexivity.
        - rewrite !updf_other by exact Hne. reflexivity. }
      constructor; intros h; rewrite Hnew; cbn [q_idx]; destruct (N.eqb_spec h h0) as [->|Hne];
        try apply (hi_incr _ H h); try apply (hi_bound _ H h); try apply (hi_hook _ H h).
      * pose proof (hi_incr _ H h0) as Hi. rewrite Hl0 in Hi. rewrite <- !app_assoc in *.
        replace (q_delivered q h0 ++ sent ++ filter (fun e => Z.ltb now (e_exat e)) unsent ++ q_db q h0)
          with ((q_delivered q h0 ++ sent) ++ filter (fun e => Z.ltb now (e_exat e)) unsent ++ q_db q h0)
          by (rewrite <- app_assoc; reflexivity).
        apply incr_mid_filter. rewrite <- app_assoc. exact Hi.
      * pose proof (hi_bound _ H h0) as Hb. rewrite Hl0 in Hb. rewrite <- !app_assoc in *.
        replace (q_delivered q h0 ++ sent ++ filter (fun e => Z.ltb now (e_exat e)) unsent ++ q_db q h0)
          with ((q_delivered q h0 ++ sent) ++ filter (fun e => Z.ltb now (e_exat e)) unsent ++ q_db q h0)
          by (rewrite <- app_assoc; reflexivity).
        apply Forall_mid_filter. rewrite <- app_assoc. exact Hb.
      * pose proof (hi_hook _ H h0) as Hb. rewrite Hl0 in Hb. rewrite <- !app_assoc in *.
        replace (q_delivered q h0 ++ sent ++ filter (fun e => Z.ltb now (e_exat e)) unsent ++ q_db q h0)
          with ((q_delivered q h0 ++ sent) ++ filter (fun e => Z.ltb now (e_exat e)) unsent ++ q_db q h0)
          by (rewrite <- app_assoc; reflexivity).
        apply Forall_mid_filter. rewrite <- app_assoc. exact Hb.
    + assert (Hl0 : line q h0 = q_delivered q h0 ++ q_db q h0 ++ [])
        by (unfold line, taken_list; rewrite ET, app_nil_r; reflexivity).
      assert (Hnew : forall h, line (mkHQ (updf (q_db q) h0 []) (q_idx q)
                                         (updf (q_taken q) h0 (Some (filter (alive now) (q_db q h0)))) (q_delivered q) (q_pidx q)) h
                     = if N.eqb h h0 then q_delivered q h0 ++ filter (alive now) (q_db q h0) ++ [] else line q h).
      { intros h. unfold line, taken_list. cbn [q_db q_taken q_delivered].
        destruct (N.eqb_spec h h0) as [->|Hne].
        - rewrite !updf_same. reflexivity.
        - rewrite !updf_other by exact Hne. reflexivity. }
      constructor; intros h; rewrite Hnew; cbn [q_idx]; destruct (N.eqb_spec h h0) as [->|Hne];
        try apply (hi_incr _ H h); try apply (hi_bound _ H h); try apply (hi_hook _ H h).
      * apply incr_mid_filter. rewrite <- Hl0. apply (hi_incr _ H h0).
      * apply Forall_mid_filter. rewrite <- Hl0. apply (hi_bound _ H h0).
      * apply Forall_mid_filter. rewrite <- Hl0. apply (hi_hook _ H h0).
Qed.

Lemma qstep_pinv : forall q ev, HInv q -> PInv q -> PInv (qstep q ev).
Proof.
  intros q [now msgs|h0 now outs|now] H HP; cbn [qstep].
  - apply (enqueue_spec now msgs q H). exact HP.
  - destruct (q_taken q h0) as [tk|]; [destruct (send_all outs tk)|]; exact HP.
  - reflexivity.
Qed.

Lemma qrun_hinv' : forall evs q, HInv q -> PInv q -> HInv (qrun q evs) /\ PInv (qrun q evs).
Proof.
  induction evs as [|ev r IH]; intros q H HP; [split; assumption|].
  cbn [qrun fold_left]. apply IH; [apply qstep_hinv | apply qstep_pinv]; assumption.
Qed.

Lemma qrun_hinv : forall evs, HInv (qrun hq_init evs).
Proof. intros evs. apply (qrun_hinv' evs hq_init hinv_init eq_refl). Qed.

(* the counter a restarted process reads back is the counter the dead process had *)
Theorem qidx_persisted : forall evs, q_pidx (qrun hq_init evs) = q_idx (qrun hq_init evs).
Proof. intros evs. apply (qrun_hinv' evs hq_init hinv_init eq_refl). Qed.

(* ---- order: the delivered keys are strictly increasing, always (TTL expiry included) ---- *)

Theorem delivered_increasing : forall evs h, incr (idxs (q_delivered (qrun hq_init evs) h)).
Proof.
  intros evs h. pose proof (hi_incr _ (qrun_hinv evs) h) as Hi.
  unfold line in Hi. rewrite idxs_app in Hi. apply incr_app in Hi. tauto.
Qed.

Lemma incr_nodup : forall l, incr l -> NoDup l.
Proof.
  induction l as [|x r IH]; intros H; [constructor|].
  cbn [incr] in H. destruct H as (F & Hi). constructor; [|apply IH; exact Hi].
  intros Hin. rewrite Forall_forall in F. specialize (F x Hin). lia.
Qed.

Theorem delivered_no_duplicate : forall evs h, NoDup (idxs (q_delivered (qrun hq_init evs) h)).
Proof. intros. apply incr_nodup. apply delivered_increasing. Qed.

(* ---- loss only through the two TTL tests ---- *)

Theorem ttl_only_loss : forall q ev h e, HInv q ->
  (forall now, ev = Restart now -> q_taken q h = None) ->
  In e (pending q h) ->
  In e (pending (qstep q ev) h) \/ In e (q_delivered (qstep q ev) h) \/ (e_exat e <= qtime ev)%Z.
Proof.
  intros q [now msgs|h0 now outs|now] h e H HR Hin.
  3:{ left. cbn [qstep]. unfold pending, taken_list in *. cbn [q_taken q_db].
      rewrite (HR now eq_refl) in Hin. exact Hin. }
  - left. cbn [qstep]. destruct (enqueue_spec now msgs q H) as (_ & _ & Htk & _ & _ & Hdb).
    destruct (Hdb h) as (news & E1 & _). unfold pending, taken_list in *. rewrite Htk, E1.
    apply in_app_or in Hin. apply in_or_app. destruct Hin as [Hin|Hin]; [left; exact Hin|].
    right. apply in_or_app. left. exact Hin.
  - cbn [qstep qtime]. destruct (N.eq_dec h h0) as [->|Hne].
    + destruct (q_taken q h0) as [tk|] eqn:ET.
      * destruct (send_all outs tk) as [sent unsent] eqn:ES.
        pose proof (send_all_split _ _ _ _ ES) as Hsp.
        assert (Hre : reinsert now unsent (q_db q h0) = filter (fun e => Z.ltb now (e_exat e)) unsent ++ q_db q h0).
        { apply reinsert_sorted. pose proof (hi_incr _ H h0) as Hi. unfold line, taken_list in Hi. rewrite ET, Hsp in Hi.
          eapply incr_unsent_db. exact Hi. }
        unfold pending, taken_list in *. cbn [q_db q_taken q_delivered]. rewrite ET in Hin.
        rewrite !updf_same, Hre. cbn [app]. subst tk.
        apply in_app_or in Hin. destruct Hin as [Hin|Hin].
        -- apply in_app_or in Hin. destruct Hin as [Hin|Hin].
           ++ right. left. apply in_or_app. right. exact Hin.
           ++ destruct (Z.ltb_spec now (e_exat e)).
              ** left. apply in_or_app. left. apply filter_In. split; [exact Hin|]. apply Z.ltb_lt. assumption.
              ** right. right. assumption.
        -- left. apply in_or_app. right. exact Hin.
      * unfold pending, taken_list in *. cbn [q_db q_taken q_delivered]. rewrite ET in Hin.
        rewrite !updf_same. cbn [app] in Hin. rewrite app_nil_r.
        destruct (alive now e) eqn:EA.
        -- left. apply filter_In. split; assumption.
        -- right. right. unfold alive in EA. apply Z.leb_gt in EA. lia.
    + left. unfold pending, taken_list in *.
      destruct (q_taken q h0) as [tk|]; [destruct (send_all outs tk) as [sent unsent]|];
        cbn [q_db q_taken q_delivered]; rewrite !updf_other by exact Hne; exact Hin.
Qed.

(* ---- no expiry: nothing lost, nothing duplicated, in order ---- *)

(* every event happens within the retention period, counted from time 0 of the history *)
Definition in_retention (evs : list qev) : Prop :=
  Forall (fun ev => (0 <= qtime ev < hook_ttl)%Z) evs.

Record NInv (q : hq) (seen : list qev) : Prop := mkNInv {
  ni_msgs : forall h, map e_msg (line q h) = enq_msgs h seen;
  ni_exat : forall h, Forall (fun e => (hook_ttl <= e_exat e)%Z) (line q h)
}.

Lemma enq_msgs_app : forall h a b, enq_msgs h (a ++ b) = enq_msgs h a ++ enq_msgs h b.
Proof.
  induction a as [|[now msgs|h0 now outs|now] a IH]; intros b; cbn [app enq_msgs]; [reflexivity| |apply IH|apply IH].
  rewrite IH. rewrite app_assoc. reflexivity.
Qed.

Lemma filter_all : forall (f : entry -> bool) l, Forall (fun e => f e = true) l -> filter f l = l.
Proof.
  induction l as [|e r IH]; intros H; [reflexivity|]. inversion H; subst. cbn [filter].
  rewrite H2. f_equal. apply IH. assumption.
Qed.

Lemma qstep_ninv : forall q seen ev, HInv q -> NInv q seen -> (0 <= qtime ev < hook_ttl)%Z ->
  (match ev with Restart _ => forall h, q_taken q h = None | _ => True end) ->
  NInv (qstep q ev) (seen ++ [ev]).
Proof.
  intros q seen [now msgs|h0 now outs|now] H Hn Ht HQ; cbn [qtime] in Ht.
  3:{ cbn [qstep].
      assert (Hl : forall h, line (mkHQ (q_db q) (q_pidx q) (fun _ => None) (q_delivered q) (q_pidx q)) h = line q h).
      { intros h. unfold line, taken_list. cbn [q_db q_taken q_delivered]. rewrite (HQ h). reflexivity. }
      constructor; intros h; rewrite Hl.
      - rewrite enq_msgs_app. cbn [enq_msgs]. rewrite app_nil_r. apply (ni_msgs _ _ Hn h).
      - apply (ni_exat _ _ Hn h). }
  - cbn [qstep]. destruct (enqueue_spec now msgs q H) as (_ & _ & Htk & Hdl & _ & Hdb).
    constructor; intros h; destruct (Hdb h) as (news & E1 & E2 & E3);
      unfold line, taken_list; rewrite Htk, Hdl, E1.
    + rewrite enq_msgs_app. cbn [enq_msgs]. rewrite app_nil_r. rewrite <- (ni_msgs _ _ Hn h).
      unfold line, taken_list. rewrite !map_app, E2. rewrite <- !app_assoc. reflexivity.
    + rewrite !app_assoc. apply Forall_app. split.
      * rewrite <- !app_assoc. apply (ni_exat _ _ Hn h).
      * eapply Forall_impl; [|exact E3]. cbn. intros a Ha. rewrite Ha. lia.
  - assert (Hm : forall h, enq_msgs h (seen ++ [Mgr h0 now outs]) = enq_msgs h seen)
      by (intros h; rewrite enq_msgs_app; cbn [enq_msgs]; apply app_nil_r).
    cbn [qstep]. destruct (q_taken q h0) as [tk|] eqn:ET.
    + destruct (send_all outs tk) as [sent unsent] eqn:ES.
      pose proof (send_all_split _ _ _ _ ES) as Hsp.
      assert (Hl0 : line q h0 = q_delivered q h0 ++ (sent ++ unsent) ++ q_db q h0)
        by (unfold line, taken_list; rewrite ET, Hsp; reflexivity).
      assert (Hre : reinsert now unsent (q_db q h0) = unsent ++ q_db q h0).
      { rewrite reinsert_sorted.
        - f_equal. apply filter_all. pose proof (ni_exat _ _ Hn h0) as He. rewrite Hl0 in He.
          rewrite !Forall_app in He. destruct He as (_ & (_ & He) & _).
          eapply Forall_impl; [|exact He]. cbn. intros a Ha. apply Z.ltb_lt. lia.
        - pose proof (hi_incr _ H h0) as Hi. rewrite Hl0 in Hi.
          eapply incr_unsent_db. exact Hi. }
      assert (Hnew : forall h, line (mkHQ (updf (q_db q) h0 (reinsert now unsent (q_db q h0))) (q_idx q)
                                         (updf (q_taken q) h0 None) (updf (q_delivered q) h0 (q_delivered q h0 ++ sent)) (q_pidx q)) h
                     = line q h).
      { intros h. unfold line, taken_list. cbn [q_db q_taken q_delivered].
        destruct (N.eq_dec h h0) as [->|Hne].
        - rewrite !updf_same, Hre, ET, Hsp. cbn [app]. rewrite <- !app_assoc. reflexivity.
        - rewrite !updf_other by exact Hne. reflexivity. }
      constructor; intros h; rewrite Hnew; [rewrite Hm; apply (ni_msgs _ _ Hn h) | apply (ni_exat _ _ Hn h)].
    + assert (Hal : filter (alive now) (q_db q h0) = q_db q h0).
      { apply filter_all. pose proof (ni_exat _ _ Hn h0) as He. unfold line in He.
        rewrite !Forall_app in He. destruct He as (_ & _ & He).
        eapply Forall_impl; [|exact He]. cbn. intros a Ha. unfold alive. apply Z.leb_le. lia. }
      assert (Hnew : forall h, line (mkHQ (updf (q_db q) h0 []) (q_idx q)
                                         (updf (q_taken q) h0 (Some (filter (alive now) (q_db q h0)))) (q_delivered q) (q_pidx q)) h
                     = line q h).
      { intros h. unfold line, taken_list. cbn [q_db q_taken q_delivered].
        destruct (N.eq_dec h h0) as [->|Hne].
        - rewrite !updf_same, Hal, ET. cbn [app]. rewrite app_nil_r. reflexivity.
        - rewrite !updf_other by exact Hne. reflexivity. }
      constructor; intros h; rewrite Hnew; [rewrite Hm; apply (ni_msgs _ _ Hn h) | apply (ni_exat _ _ Hn h)].
Qed.

Lemma qrun_ninv : forall evs q seen, HInv q -> PInv q -> NInv q seen -> in_retention evs -> quiet q evs ->
  HInv (qrun q evs) /\ NInv (qrun q evs) (seen ++ evs).
Proof.
  induction evs as [|ev r IH]; intros q seen H HP Hn Ht HQ.
  - rewrite app_nil_r. split; assumption.
  - inversion Ht; subst. cbn [quiet] in HQ. destruct HQ as (HQ1 & HQ2). cbn [qrun fold_left].
    replace (seen ++ ev :: r) with ((seen ++ [ev]) ++ r) by (rewrite <- app_assoc; reflexivity).
    apply IH; [apply qstep_hinv; assumption | apply qstep_pinv; assumption | apply qstep_ninv; assumption | assumption | assumption].
Qed.

Lemma ninv_init : NInv hq_init [].
Proof. constructor; intros h; cbn; auto. Qed.

(* the messages generated for h = what was delivered, then what is being sent, then what is queued *)
Theorem hook_order : forall evs h, in_retention evs -> quiet hq_init evs ->
  let q := qrun hq_init evs in
  enq_msgs h evs = map e_msg (q_delivered q h) ++ map e_msg (pending q h).
Proof.
  intros evs h Ht HQ q. destruct (qrun_ninv evs hq_init [] hinv_init eq_refl ninv_init Ht HQ) as (_ & Hn).
  cbn [app] in Hn. rewrite <- (ni_msgs _ _ Hn h). unfold line, pending. fold q.
  rewrite !map_app. reflexivity.
Qed.

Definition is_prefix {A} (p l : list A) : Prop := exists r, l = p ++ r.

Theorem hook_delivered_prefix : forall evs h, in_retention evs -> quiet hq_init evs ->
  is_prefix (map e_msg (q_delivered (qrun hq_init evs) h)) (enq_msgs h evs).
Proof. intros evs h Ht HQ. eexists. apply hook_order; assumption. Qed.

Lemma quiet_app : forall a q b, quiet q (a ++ b) <-> quiet q a /\ quiet (qrun q a) b.
Proof.
  induction a as [|ev r IH]; intros q b; cbn [app quiet qrun fold_left]; [tauto|].
  fold (qrun (qstep q ev) r). rewrite IH. tauto.
Qed.

(* once the endpoint is healthy, three more halves of proc deliver everything *)
Theorem hook_eventually_all : forall evs h t1 t2 t3,
  in_retention (evs ++ [Mgr h t1 []; Mgr h t2 []; Mgr h t3 []]) -> quiet hq_init evs ->
  let q := qrun hq_init (evs ++ [Mgr h t1 []; Mgr h t2 []; Mgr h t3 []]) in
  map e_msg (q_delivered q h) = enq_msgs h evs /\ q_db q h = [] /\ taken_list q h = [].
Proof.
  intros evs h t1 t2 t3 Ht HQ q.
  assert (HQ' : quiet hq_init (evs ++ [Mgr h t1 []; Mgr h t2 []; Mgr h t3 []]))
    by (apply quiet_app; split; [exact HQ | cbn; tauto]).
  pose proof (hook_order _ h Ht HQ') as Ho. fold q in Ho.
  rewrite enq_msgs_app in Ho. cbn [enq_msgs] in Ho. rewrite app_nil_r in Ho.
  assert (Hp : q_db q h = [] /\ taken_list q h = []).
  { unfold q. unfold qrun. rewrite fold_left_app. fold (qrun hq_init evs).
    set (q0 := qrun hq_init evs).
    assert (Hr : in_retention evs /\ (0 <= t1 < hook_ttl)%Z /\ (0 <= t2 < hook_ttl)%Z /\ (0 <= t3 < hook_ttl)%Z).
    { unfold in_retention in Ht. rewrite Forall_app in Ht. destruct Ht as (A & B).
      inversion B as [|? ? B1 B']; subst. inversion B' as [|? ? B2 B'']; subst. inversion B'' as [|? ? B3 _]; subst.
      cbn [qtime] in *. auto. }
    destruct Hr as (Hr0 & Hr1 & Hr2 & Hr3).
    destruct (qrun_ninv evs hq_init [] hinv_init eq_refl ninv_init Hr0 HQ) as (H0 & N0). fold q0 in H0, N0.
    assert (Hal : forall now, (0 <= now < hook_ttl)%Z -> filter (alive now) (q_db q0 h) = q_db q0 h).
    { intros now Hn. apply filter_all. pose proof (ni_exat _ _ N0 h) as He. unfold line in He.
      rewrite !Forall_app in He. destruct He as (_ & _ & He).
      eapply Forall_impl; [|exact He]. cbn. intros a Ha. unfold alive. apply Z.leb_le. lia. }
    cbn [fold_left]. unfold taken_list.
    destruct (q_taken q0 h) as [tk|] eqn:ET.
    - (* busy: finish, take, finish *)
      cbn [qstep]. rewrite ET. rewrite send_all_healthy.
      cbn [qstep q_taken q_db q_delivered q_idx]. rewrite !updf_same.
      cbn [qstep q_taken q_db q_delivered q_idx]. rewrite !updf_same. rewrite send_all_healthy.
      cbn [q_taken q_db q_delivered q_idx]. rewrite !updf_same. split; reflexivity.
    - (* idle: take, finish, take *)
      cbn [qstep]. rewrite ET.
      cbn [qstep q_taken q_db q_delivered q_idx]. rewrite !updf_same. rewrite send_all_healthy.
      cbn [qstep q_taken q_db q_delivered q_idx]. rewrite !updf_same.
      cbn [q_taken q_db q_delivered q_idx]. rewrite !updf_same.
      split; reflexivity. }
  destruct Hp as (Hdb & Htk). unfold pending in Ho. rewrite Hdb, Htk in Ho. cbn [app map] in Ho.
  rewrite app_nil_r in Ho. auto.
Qed.
