(* Proofs/CollectionProofs.v — lemmas about Model/Collection.v (property C19). *)
From Coq Require Import ZifyN ZifyNat ZifyBool Sorting.Sorted.
From T38 Require Import Base.Bytes Model.Float32 Model.Collection.
Import ListNotations.
Local Open Scope Z_scope.

(* ------------------------------------------------------------------ *)
(* strict total orders given by a comparison function                   *)
Record order {K} (cmp : K -> K -> comparison) : Prop := {
  ord_eq : forall a b, cmp a b = Eq <-> a = b;
  ord_anti : forall a b, cmp b a = CompOpp (cmp a b);
  ord_trans : forall a b c, cmp a b = Lt -> cmp b c = Lt -> cmp a c = Lt }.

Lemma order_bytes : order bytes_cmp.
Proof. split; [exact bytes_cmp_eq | exact bytes_cmp_antisym | exact bytes_cmp_lt_trans]. Qed.

Lemma order_Z : order Z.compare.
Proof.
  split.
  - intros a b. apply Z.compare_eq_iff.
  - intros a b. apply Z.compare_antisym.
  - intros a b c H1 H2. rewrite Z.compare_lt_iff in *. lia.
Qed.

Lemma order_lex {A B} (ca : A -> A -> comparison) (cb : B -> B -> comparison) :
  order ca -> order cb -> order (lex_cmp ca cb).
Proof.
  intros [ea aa ta] [eb ab tb]. split.
  - intros [a1 b1] [a2 b2]. unfold lex_cmp; cbn.
    destruct (ca a1 a2) eqn:E.
    + apply ea in E. subst a2. rewrite eb. split; [intros ->; reflexivity | intros H; inversion H; reflexivity].
    + split; [discriminate|]. intros H; inversion H; subst.
      assert (ca a2 a2 = Eq) as R by (apply ea; reflexivity). congruence.
    + split; [discriminate|]. intros H; inversion H; subst.
      assert (ca a2 a2 = Eq) as R by (apply ea; reflexivity). congruence.
  - intros [a1 b1] [a2 b2]. unfold lex_cmp; cbn. rewrite (aa a1 a2).
    destruct (ca a1 a2); cbn; auto.
  - intros [a1 b1] [a2 b2] [a3 b3]. unfold lex_cmp; cbn.
    destruct (ca a1 a2) eqn:E12; try discriminate.
    + apply ea in E12. subst a2. destruct (ca a1 a3) eqn:E13; try discriminate; auto.
      intros H1 H2. eapply tb; eauto.
    + intros _. destruct (ca a2 a3) eqn:E23; try discriminate.
      * apply ea in E23. subst a3. rewrite E12. reflexivity.
      * intros _. rewrite (ta _ _ _ E12 E23). reflexivity.
Qed.

Lemma order_vcmp : order vcmp.
Proof. apply order_lex; apply order_bytes. Qed.
Lemma order_ecmp : order ecmp.
Proof. apply order_lex; [apply order_Z | apply order_bytes]. Qed.

(* ------------------------------------------------------------------ *)
Section SL.
  Context {A K : Type}.
  Variable key : A -> K.
  Variable cmp : K -> K -> comparison.
  Hypothesis Hord : order cmp.

  Definition klt (a b : A) : Prop := cmp (key a) (key b) = Lt.
  Definition ssorted (l : list A) : Prop := StronglySorted klt l.

  Lemma cmp_refl k : cmp k k = Eq.
  Proof. apply (ord_eq _ Hord). reflexivity. Qed.

  Lemma cmp_lt_gt a b : cmp a b = Lt -> cmp b a = Gt.
  Proof. intros H. rewrite (ord_anti _ Hord a b), H. reflexivity. Qed.

  Lemma cmp_gt_lt a b : cmp a b = Gt -> cmp b a = Lt.
  Proof. intros H. rewrite (ord_anti _ Hord a b), H. reflexivity. Qed.

  Lemma ssorted_inv y r : ssorted (y :: r) -> ssorted r /\ forall x, In x r -> klt y x.
  Proof. intros H. inversion H; subst. split; auto. now apply Forall_forall. Qed.

  Lemma ssorted_cons y r : ssorted r -> (forall x, In x r -> klt y x) -> ssorted (y :: r).
  Proof. intros H1 H2. constructor; auto. now apply Forall_forall. Qed.

  Lemma ssorted_nil : ssorted [].
  Proof. constructor. Qed.

  Lemma get_spec l : ssorted l ->
    forall k x, sl_get key cmp k l = Some x <-> (In x l /\ key x = k).
  Proof.
    induction l as [|y r IH]; intros Hs k x; cbn.
    - split; [discriminate | intros [[] _]].
    - apply ssorted_inv in Hs. destruct Hs as [Hs Hall]. specialize (IH Hs).
      destruct (cmp k (key y)) eqn:E.
      + apply (ord_eq _ Hord) in E. subst k. split.
        * intros H; inversion H; subst. auto.
        * intros [[->|Hin] Hk]; auto.
          specialize (Hall _ Hin). unfold klt in Hall. rewrite Hk, cmp_refl in Hall. discriminate.
      + split; [discriminate|]. intros [[->|Hin] Hk].
        * subst k. rewrite cmp_refl in E. discriminate.
        * specialize (Hall _ Hin). unfold klt in Hall. rewrite Hk in Hall.
          apply cmp_lt_gt in Hall. congruence.
      + rewrite IH. split.
        * intros [Hin Hk]. auto.
        * intros [[->|Hin] Hk]; auto. subst k. rewrite cmp_refl in E. discriminate.
  Qed.

  Lemma get_none l : ssorted l ->
    forall k, sl_get key cmp k l = None <-> (forall x, In x l -> key x <> k).
  Proof.
    intros Hs k. split.
    - intros Hn x Hin Hk. assert (sl_get key cmp k l = Some x) by (apply get_spec; auto). congruence.
    - intros H. destruct (sl_get key cmp k l) eqn:E; auto.
      apply get_spec in E; auto. destruct E as [Hin Hk]. exfalso. eapply H; eauto.
  Qed.

  Lemma ins_In l : ssorted l ->
    forall x y, In y (sl_ins key cmp x l) <-> (y = x \/ (In y l /\ key y <> key x)).
  Proof.
    induction l as [|z r IH]; intros Hs x y; cbn.
    - split; [intros [->|[]]; auto | intros [->|[[] _]]; auto].
    - apply ssorted_inv in Hs. destruct Hs as [Hs Hall]. specialize (IH Hs).
      destruct (cmp (key x) (key z)) eqn:E; cbn.
      + apply (ord_eq _ Hord) in E. split.
        * intros [->|Hin]; auto. right. split; auto.
          specialize (Hall _ Hin). unfold klt in Hall. intros Hk. rewrite Hk, E, cmp_refl in Hall. discriminate.
        * intros [->|[[->|Hin] Hk]]; auto. congruence.
      + split.
        * intros [->|[->|Hin]]; auto.
          -- right. split; auto. intros Hk. rewrite Hk, cmp_refl in E. discriminate.
          -- right. split; auto. specialize (Hall _ Hin). unfold klt in Hall.
             intros Hk. rewrite Hk in Hall.
             pose proof (ord_trans _ Hord _ _ _ E Hall) as T. rewrite cmp_refl in T. discriminate.
        * intros [->|[[->|Hin] Hk]]; auto.
      + rewrite IH. split.
        * intros [->|[->|[Hin Hk]]]; auto. right. split; auto.
          intros Hk. rewrite Hk, cmp_refl in E. discriminate.
        * intros [->|[[->|Hin] Hk]]; auto.
  Qed.

  Lemma ins_sorted l : ssorted l -> forall x, ssorted (sl_ins key cmp x l).
  Proof.
    induction l as [|z r IH]; intros Hs x; cbn.
    - apply ssorted_cons; [constructor | intros ? []].
    - pose proof Hs as Hs0. apply ssorted_inv in Hs. destruct Hs as [Hs Hall].
      destruct (cmp (key x) (key z)) eqn:E.
      + apply (ord_eq _ Hord) in E. apply ssorted_cons; auto.
        intros w Hw. specialize (Hall _ Hw). unfold klt in *. rewrite E. exact Hall.
      + apply ssorted_cons; auto. intros w [->|Hw]; [exact E|].
        specialize (Hall _ Hw). unfold klt in *. eapply (ord_trans _ Hord); eauto.
      + apply ssorted_cons; auto. intros w Hw. apply ins_In in Hw; auto.
        destruct Hw as [->|[Hw _]]; auto. unfold klt. now apply cmp_gt_lt.
  Qed.

  Lemma del_In l : ssorted l ->
    forall k y, In y (sl_del key cmp k l) <-> (In y l /\ key y <> k).
  Proof.
    induction l as [|z r IH]; intros Hs k y; cbn.
    - split; [intros [] | intros [[] _]].
    - apply ssorted_inv in Hs. destruct Hs as [Hs Hall]. specialize (IH Hs).
      destruct (cmp k (key z)) eqn:E; cbn.
      + apply (ord_eq _ Hord) in E. subst k. split.
        * intros Hin. split; auto. specialize (Hall _ Hin). unfold klt in Hall.
          intros Hk. rewrite Hk, cmp_refl in Hall. discriminate.
        * intros [[->|Hin] Hk]; auto. congruence.
      + split.
        * intros [->|Hin].
          -- split; auto. intros Hk. subst k. rewrite cmp_refl in E. discriminate.
          -- split; auto. specialize (Hall _ Hin). unfold klt in Hall. intros Hk. subst k.
             pose proof (ord_trans _ Hord _ _ _ Hall E) as T. rewrite cmp_refl in T. discriminate.
        * intros [H _]; exact H.
      + rewrite IH. split.
        * intros [->|[Hin Hk]]; auto. split; auto. intros Hk. subst k. rewrite cmp_refl in E. discriminate.
        * intros [[->|Hin] Hk]; auto.
  Qed.

  Lemma del_sorted l : ssorted l -> forall k, ssorted (sl_del key cmp k l).
  Proof.
    induction l as [|z r IH]; intros Hs k; cbn; auto.
    pose proof Hs as Hs0. apply ssorted_inv in Hs. destruct Hs as [Hs Hall].
    destruct (cmp k (key z)); auto.
    apply ssorted_cons; auto. intros w Hw. apply del_In in Hw; auto. destruct Hw; auto.
  Qed.

  Definition fprev (f : A -> Z) (p : option A) : Z := match p with Some a => f a | None => 0 end.

  Lemma ins_sum (f : A -> Z) l : ssorted l -> forall x,
    zsum f (sl_ins key cmp x l) = zsum f l + f x - fprev f (sl_get key cmp (key x) l).
  Proof.
    unfold zsum. induction l as [|z r IH]; intros Hs x; cbn; [lia|].
    apply ssorted_inv in Hs. destruct Hs as [Hs Hall].
    destruct (cmp (key x) (key z)); cbn; try lia; try (rewrite IH; auto; lia).
  Qed.

  Lemma del_sum (f : A -> Z) l : ssorted l -> forall k,
    zsum f (sl_del key cmp k l) = zsum f l - fprev f (sl_get key cmp k l).
  Proof.
    unfold zsum. induction l as [|z r IH]; intros Hs k; cbn; [lia|].
    apply ssorted_inv in Hs. destruct Hs as [Hs Hall].
    destruct (cmp k (key z)); cbn; try lia; try (rewrite IH; auto; lia).
  Qed.

  Lemma ssorted_key_inj l : ssorted l -> forall x y, In x l -> In y l -> key x = key y -> x = y.
  Proof.
    intros Hs x y Hx Hy Hk.
    assert (sl_get key cmp (key y) l = Some x) as E1 by (apply get_spec; auto).
    assert (sl_get key cmp (key y) l = Some y) as E2 by (apply get_spec; auto).
    congruence.
  Qed.

  Lemma get_del_none l : ssorted l -> forall k, sl_get key cmp k (sl_del key cmp k l) = None.
  Proof.
    intros Hs k. apply get_none; [apply del_sorted; auto|].
    intros x Hx. apply del_In in Hx; auto. tauto.
  Qed.

  Lemma ins_del_same l : ssorted l -> forall x, sl_ins key cmp x (sl_del key cmp (key x) l) = sl_ins key cmp x l.
  Proof.
    induction l as [|z r IH]; intros Hs x; cbn; auto.
    apply ssorted_inv in Hs. destruct Hs as [Hs Hall].
    destruct (cmp (key x) (key z)) eqn:E; cbn.
    - apply (ord_eq _ Hord) in E. destruct r as [|w r']; cbn; auto.
      assert (klt z w) as Hw by (apply Hall; left; reflexivity). unfold klt in Hw.
      rewrite E, Hw. reflexivity.
    - rewrite E. reflexivity.
    - rewrite E. f_equal. apply IH; auto.
  Qed.

  Lemma ssorted_NoDup l : ssorted l -> NoDup (map key l).
  Proof.
    induction l as [|z r IH]; intros Hs; cbn; [constructor|].
    apply ssorted_inv in Hs. destruct Hs as [Hs Hall]. constructor; auto.
    intros Hin. apply in_map_iff in Hin. destruct Hin as [w [Hk Hw]].
    specialize (Hall _ Hw). unfold klt in Hall. rewrite Hk, cmp_refl in Hall. discriminate.
  Qed.
End SL.

Arguments ssorted {A K} key cmp l.

(* ------------------------------------------------------------------ *)
(* the R-tree entry list                                                *)
Definition sp_ids (sp : list (rect32 * obj)) : list bytes := map (fun e => o_id (snd e)) sp.

Lemma sp_del_In sp : NoDup (sp_ids sp) ->
  forall id e, In e (sp_del id sp) <-> (In e sp /\ o_id (snd e) <> id).
Proof.
  induction sp as [|a r IH]; intros Hnd id e; cbn.
  - split; [intros [] | intros [[] _]].
  - cbn in Hnd. inversion Hnd as [|? ? Hnot Hnd']; subst.
    destruct (bytes_eqb (o_id (snd a)) id) eqn:E.
    + apply bytes_eqb_eq in E. split.
      * intros Hin. split; auto. intros Hk. apply Hnot. unfold sp_ids.
        apply in_map_iff. exists e. split; auto. congruence.
      * intros [[->|Hin] Hk]; auto. congruence.
    + cbn. rewrite IH; auto. split.
      * intros [->|[Hin Hk]]; auto. split; auto. intros Hk.
        rewrite <- bytes_eqb_eq in Hk. congruence.
      * intros [[->|Hin] Hk]; auto.
Qed.

Lemma sp_del_ids_incl sp id x : In x (sp_ids (sp_del id sp)) -> In x (sp_ids sp).
Proof.
  induction sp as [|a r IH]; cbn; auto.
  destruct (bytes_eqb (o_id (snd a)) id); cbn; auto. intros [H|H]; auto.
Qed.

Lemma sp_del_NoDup sp id : NoDup (sp_ids sp) -> NoDup (sp_ids (sp_del id sp)).
Proof.
  induction sp as [|a r IH]; cbn; auto. intros Hnd. inversion Hnd; subst.
  destruct (bytes_eqb (o_id (snd a)) id); cbn; auto.
  constructor; auto. intros Hin. apply sp_del_ids_incl in Hin. auto.
Qed.

Lemma sp_del_notin sp id : ~ In id (sp_ids sp) -> sp_del id sp = sp.
Proof.
  induction sp as [|a r IH]; cbn; auto. intros Hn.
  destruct (bytes_eqb (o_id (snd a)) id) eqn:E.
  - apply bytes_eqb_eq in E. exfalso. auto.
  - f_equal. apply IH. auto.
Qed.

(* ------------------------------------------------------------------ *)
(* the invariant                                                        *)
Definition in_values (o : obj) : bool := negb (o_spatial o).
Definition in_spatial (o : obj) : bool := o_spatial o && negb (o_empty o).
Definition in_expires (o : obj) : bool := negb (o_ex o =? 0).

Record Wf (c : coll) : Prop := {
  wf_objs : ssorted o_id id_cmp (c_objs c);
  wf_values_sorted : ssorted vkey vcmp (c_values c);
  wf_values : forall o, In o (c_values c) <-> (In o (c_objs c) /\ in_values o = true);
  wf_spatial_nodup : NoDup (sp_ids (c_spatial c));
  wf_spatial : forall e, In e (c_spatial c) <->
      (In (snd e) (c_objs c) /\ in_spatial (snd e) = true /\ e = rtree_item (snd e));
  wf_expires_sorted : ssorted ekey ecmp (c_expires c);
  wf_expires : forall o, In o (c_expires c) <-> (In o (c_objs c) /\ in_expires o = true);
  wf_objects : c_objects c = zsum (fun o => b2z (o_spatial o)) (c_objs c);
  wf_nobjects : c_nobjects c = zsum (fun o => b2z (negb (o_spatial o))) (c_objs c);
  wf_points : c_points c = zsum o_npoints (c_objs c);
  wf_weight : c_weight c = zsum o_weight (c_objs c) }.

Lemma wf_new : Wf cnew.
Proof.
  split; cbn; try (apply ssorted_nil); try reflexivity.
  - intros o; split; [intros [] | intros [[] _]].
  - constructor.
  - intros e; split; [intros [] | intros [[] _]].
  - intros o; split; [intros [] | intros [[] _]].
Qed.


(* objects of the collection are determined by their id *)
Lemma objs_id_inj c : Wf c -> forall x y, In x (c_objs c) -> In y (c_objs c) -> o_id x = o_id y -> x = y.
Proof. intros W. eapply ssorted_key_inj; [exact order_bytes | apply (wf_objs _ W)]. Qed.

(* removing the previous object p (present in objs0 = objs + p, absent from objs) *)
Section Steps.
  Variable c : coll.
  Hypothesis W : Wf c.

  (* vkey / ekey equality of two collection members reduces to identity *)
  Lemma vkey_member_inj x y : In x (c_objs c) -> In y (c_objs c) -> vkey x = vkey y -> x = y.
  Proof. intros Hx Hy E. apply (objs_id_inj c W); auto. unfold vkey in E. congruence. Qed.
  Lemma ekey_member_inj x y : In x (c_objs c) -> In y (c_objs c) -> ekey x = ekey y -> x = y.
  Proof. intros Hx Hy E. apply (objs_id_inj c W); auto. unfold ekey in E. congruence. Qed.
End Steps.

(* The state after "remove p from every secondary index and counter", where p is a member:
   it is well-formed with respect to objs minus p. We phrase the intermediate invariant with an
   explicit object list. *)
Record WfL (objs : list obj) (c : coll) : Prop := {
  l_objs : ssorted o_id id_cmp objs;
  l_values_sorted : ssorted vkey vcmp (c_values c);
  l_values : forall o, In o (c_values c) <-> (In o objs /\ in_values o = true);
  l_spatial_nodup : NoDup (sp_ids (c_spatial c));
  l_spatial : forall e, In e (c_spatial c) <->
      (In (snd e) objs /\ in_spatial (snd e) = true /\ e = rtree_item (snd e));
  l_expires_sorted : ssorted ekey ecmp (c_expires c);
  l_expires : forall o, In o (c_expires c) <-> (In o objs /\ in_expires o = true);
  l_objects : c_objects c = zsum (fun o => b2z (o_spatial o)) objs;
  l_nobjects : c_nobjects c = zsum (fun o => b2z (negb (o_spatial o))) objs;
  l_points : c_points c = zsum o_npoints objs;
  l_weight : c_weight c = zsum o_weight objs }.

Lemma Wf_WfL c : Wf c <-> WfL (c_objs c) c.
Proof. split; intros []; split; auto. Qed.

Lemma sp_ids_in sp e : In e sp -> In (o_id (snd e)) (sp_ids sp).
Proof. intros H. unfold sp_ids. apply in_map_iff. exists e. auto. Qed.

(* secondary indexes and counters of c (w.r.t. objs) after subtracting member p, w.r.t. objs - p *)
Lemma sub_step_gen objs c p :
  WfL objs c -> In p objs ->
  forall objf vals1 sp1 ex1 o1 n1,
    (vals1, sp1, o1, n1) =
      (if o_spatial p then (c_values c, index_delete (c_spatial c) p, c_objects c - 1, c_nobjects c)
       else (sl_del vkey vcmp (vkey p) (c_values c), c_spatial c, c_objects c, c_nobjects c - 1)) ->
    ex1 = (if o_ex p =? 0 then c_expires c else sl_del ekey ecmp (ekey p) (c_expires c)) ->
    WfL (sl_del o_id id_cmp (o_id p) objs)
        (Coll objf vals1 sp1 ex1 o1 n1
              (c_points c - o_npoints p) (c_weight c - o_weight p)).
Proof.
  intros L Hp objf vals1 sp1 ex1 o1 n1 E1 E2.
  destruct L as [Lo Lvs Lv Lnd Lsp Les Le Lc1 Lc2 Lc3 Lc4].
  pose proof (del_In o_id id_cmp order_bytes objs Lo (o_id p)) as DI.
  assert (Hinj : forall x, In x objs -> o_id x = o_id p -> x = p).
  { intros x Hx Hk. eapply ssorted_key_inj; eauto using order_bytes. }
  assert (Hget : sl_get o_id id_cmp (o_id p) objs = Some p).
  { apply get_spec; auto using order_bytes. }
  assert (Hne : forall x, In x objs -> (o_id x <> o_id p <-> x <> p)).
  { intros x Hx. split; intros H1 H2; apply H1; [subst; auto | auto]. }
  split; cbn [c_objs c_values c_spatial c_expires c_objects c_nobjects c_points c_weight].
  - apply del_sorted; auto using order_bytes.
  - destruct (o_spatial p); inversion E1; subst; auto.
    apply del_sorted; auto using order_vcmp.
  - intros o. rewrite DI.
    destruct (o_spatial p) eqn:Sp; inversion E1; subst.
    + rewrite Lv. split.
      * intros [Ho Hv]. repeat split; auto. intros Hk. apply Hinj in Hk; auto. subst o.
        unfold in_values in Hv. rewrite Sp in Hv. discriminate.
      * intros [[Ho _] Hv]. auto.
    + rewrite (del_In vkey vcmp order_vcmp _ Lvs). rewrite Lv. split.
      * intros [[Ho Hv] Hk]. repeat split; auto. intros Hid. apply Hinj in Hid; auto. subst o. auto.
      * intros [[Ho Hid] Hv]. repeat split; auto. intros Hk. apply Hid. unfold vkey in Hk. congruence.
  - destruct (o_spatial p); inversion E1; subst; auto.
    unfold index_delete. destruct (negb (o_empty p)); auto. apply sp_del_NoDup; auto.
  - intros e. rewrite DI.
    destruct (o_spatial p) eqn:Sp; inversion E1; subst.
    + unfold index_delete. destruct (o_empty p) eqn:Em; cbn [negb].
      * rewrite Lsp. split.
        -- intros (Ho & Hs & He). repeat split; auto. intros Hk. apply Hinj in Hk; auto.
           rewrite Hk in Hs. unfold in_spatial in Hs. rewrite Em in Hs.
           rewrite andb_false_r in Hs. discriminate.
        -- intros ((Ho & _) & Hs & He). auto.
      * rewrite sp_del_In; auto. rewrite Lsp. split.
        -- intros ((Ho & Hs & He) & Hk). auto.
        -- intros ((Ho & Hk) & Hs & He). auto.
    + rewrite Lsp. split.
      * intros (Ho & Hs & He). repeat split; auto. intros Hk. apply Hinj in Hk; auto.
        rewrite Hk in Hs. unfold in_spatial in Hs. rewrite Sp in Hs. discriminate.
      * intros ((Ho & _) & Hs & He). auto.
  - subst ex1. destruct (o_ex p =? 0); auto. apply del_sorted; auto using order_ecmp.
  - intros o. rewrite DI. subst ex1. destruct (o_ex p =? 0) eqn:Ex.
    + rewrite Le. split.
      * intros [Ho Hv]. repeat split; auto. intros Hk. apply Hinj in Hk; auto. subst o.
        unfold in_expires in Hv. rewrite Ex in Hv. discriminate.
      * intros [[Ho _] Hv]. auto.
    + rewrite (del_In ekey ecmp order_ecmp _ Les). rewrite Le. split.
      * intros [[Ho Hv] Hk]. repeat split; auto. intros Hid. apply Hinj in Hid; auto. subst o. auto.
      * intros [[Ho Hid] Hv]. repeat split; auto. intros Hk. apply Hid. unfold ekey in Hk. congruence.
  - rewrite (del_sum o_id id_cmp _ _ Lo), Hget. cbn.
    destruct (o_spatial p); inversion E1; subst; cbn; lia.
  - rewrite (del_sum o_id id_cmp _ _ Lo), Hget. cbn.
    destruct (o_spatial p); inversion E1; subst; cbn; lia.
  - rewrite (del_sum o_id id_cmp _ _ Lo), Hget. cbn. lia.
  - rewrite (del_sum o_id id_cmp _ _ Lo), Hget. cbn. lia.
Qed.

(* adding a new object o whose id is absent from objs *)
Lemma add_step objs c o :
  WfL objs c -> sl_get o_id id_cmp (o_id o) objs = None ->
  forall objs',
  objs' = sl_ins o_id id_cmp o objs ->
  WfL objs' (fill_add (with_objs c objs') o).
Proof.
  intros L Hnone objs' ->.
  destruct L as [Lo Lvs Lv Lnd Lsp Les Le Lc1 Lc2 Lc3 Lc4].
  pose proof (ins_In o_id id_cmp order_bytes objs Lo o) as II.
  assert (Hfresh : forall x, In x objs -> o_id x <> o_id o).
  { exact (proj1 (get_none o_id id_cmp order_bytes objs Lo (o_id o)) Hnone). }
  assert (II' : forall y, In y (sl_ins o_id id_cmp o objs) <-> (y = o \/ In y objs)).
  { intros y. rewrite II. split; intros [H|H]; auto. destruct H; auto. }
  destruct c as [objs0 vals sp ex nobj nnobj pts w]. cbn in *.
  split; cbn [c_objs c_values c_spatial c_expires c_objects c_nobjects c_points c_weight].
  - apply ins_sorted; auto using order_bytes.
  - destruct (o_spatial o); cbn; auto. apply ins_sorted; auto using order_vcmp.
  - intros y. rewrite II'. destruct (o_spatial o) eqn:Sp; cbn.
    + rewrite Lv. split.
      * intros [Hy Hv]; auto.
      * intros [[->|Hy] Hv]; auto. unfold in_values in Hv. rewrite Sp in Hv. discriminate.
    + rewrite (ins_In vkey vcmp order_vcmp _ Lvs). rewrite Lv. split.
      * intros [->|[[Hy Hv] _]]; auto. split; auto. unfold in_values. rewrite Sp. reflexivity.
      * intros [[->|Hy] Hv]; auto. right. repeat split; auto.
        intros Hk. apply (Hfresh _ Hy). unfold vkey in Hk. congruence.
  - destruct (o_spatial o); cbn; auto. unfold index_insert.
    destruct (negb (o_empty o)); auto. cbn. constructor; auto.
    intros Hin. unfold sp_ids in Hin. apply in_map_iff in Hin. destruct Hin as [e [Hk He]].
    apply Lsp in He. destruct He as (Ho & _). apply (Hfresh _ Ho). exact Hk.
  - intros e. rewrite II'. destruct (o_spatial o) eqn:Sp; cbn.
    + unfold index_insert. destruct (o_empty o) eqn:Em; cbn.
      * rewrite Lsp. split.
        -- intros (Ho & Hs & He); auto.
        -- intros ([Ho|Ho] & Hs & He); auto. rewrite Ho in Hs. unfold in_spatial in Hs.
           rewrite Em, andb_false_r in Hs. discriminate.
      * rewrite Lsp. split.
        -- intros [<-|(Ho & Hs & He)]; auto. cbn. repeat split; auto.
           unfold in_spatial. rewrite Sp, Em. reflexivity.
        -- intros ([Ho|Ho] & Hs & He); auto. left. rewrite He, Ho. reflexivity.
    + rewrite Lsp. split.
      * intros (Ho & Hs & He); auto.
      * intros ([Ho|Ho] & Hs & He); auto. rewrite Ho in Hs. unfold in_spatial in Hs.
        rewrite Sp in Hs. discriminate.
  - destruct (o_spatial o); cbn; (destruct (o_ex o =? 0); auto; apply ins_sorted; auto using order_ecmp).
  - intros y. rewrite II'.
    assert (G : In y (if o_ex o =? 0 then ex else sl_ins ekey ecmp o ex) <->
                ((y = o \/ In y objs) /\ in_expires y = true)).
    { destruct (o_ex o =? 0) eqn:Ex.
      + rewrite Le. split.
        * intros [Hy Hv]; auto.
        * intros [[->|Hy] Hv]; auto. unfold in_expires in Hv. rewrite Ex in Hv. discriminate.
      + rewrite (ins_In ekey ecmp order_ecmp _ Les). rewrite Le. split.
        * intros [->|[[Hy Hv] _]]; auto. split; auto. unfold in_expires. rewrite Ex. reflexivity.
        * intros [[->|Hy] Hv]; auto. right. repeat split; auto.
          intros Hk. apply (Hfresh _ Hy). unfold ekey in Hk. congruence. }
    destruct (o_spatial o); cbn; exact G.
  - rewrite (ins_sum o_id id_cmp _ _ Lo), Hnone. cbn. destruct (o_spatial o); cbn; lia.
  - rewrite (ins_sum o_id id_cmp _ _ Lo), Hnone. cbn. destruct (o_spatial o); cbn; lia.
  - rewrite (ins_sum o_id id_cmp _ _ Lo), Hnone. cbn. destruct (o_spatial o); cbn; lia.
  - rewrite (ins_sum o_id id_cmp _ _ Lo), Hnone. cbn. destruct (o_spatial o); cbn; lia.
Qed.

Lemma WfL_with_objs l c x : WfL l c -> WfL l (with_objs c x).
Proof. destruct c. cbn. intros []; split; auto. Qed.

Lemma with_objs_same c : with_objs c (c_objs c) = c.
Proof. destruct c; reflexivity. Qed.

Lemma fill_sub_objs c p : c_objs (fill_sub c p) = c_objs c.
Proof. destruct c; cbn. destruct (o_spatial p); reflexivity. Qed.

Lemma fill_add_objs c o : c_objs (fill_add c o) = c_objs c.
Proof. destruct c; cbn. destruct (o_spatial o); reflexivity. Qed.

Lemma sub_step objs c p :
  WfL objs c -> In p objs -> WfL (sl_del o_id id_cmp (o_id p) objs) (fill_sub c p).
Proof.
  intros L Hp. pose proof (sub_step_gen objs c p L Hp) as G.
  destruct c as [objs0 vals sp ex nobj nnobj pts w]. cbn in G. unfold fill_sub.
  destruct (if o_spatial p then (vals, index_delete sp p, nobj - 1, nnobj)
            else (sl_del vkey vcmp (vkey p) vals, sp, nobj, nnobj - 1)) as [[[v1 s1] a1] b1] eqn:E1.
  apply G; auto.
Qed.

Lemma cset_wf c o : Wf c -> Wf (cset c o).
Proof.
  intros W. apply Wf_WfL. pose proof (proj1 (Wf_WfL c) W) as L.
  pose proof (wf_objs c W) as So.
  unfold cset. rewrite fill_add_objs.
  destruct (sl_get o_id id_cmp (o_id o) (c_objs c)) as [p|] eqn:G.
  - rewrite fill_sub_objs.
    apply (get_spec o_id id_cmp order_bytes _ So) in G. destruct G as [Hp Hk].
    set (objs' := sl_ins o_id id_cmp o (c_objs c)).
    assert (L1 : WfL (sl_del o_id id_cmp (o_id p) (c_objs c)) (fill_sub (with_objs c objs') p)).
    { apply sub_step; auto. apply WfL_with_objs; auto. }
    rewrite Hk in L1.
    pose proof (add_step _ _ o L1 (get_del_none o_id id_cmp order_bytes _ So (o_id o)) objs') as A.
    rewrite (ins_del_same o_id id_cmp order_bytes _ So o) in A. specialize (A eq_refl).
    replace (with_objs (fill_sub (with_objs c objs') p) objs') with (fill_sub (with_objs c objs') p) in A.
    + replace (c_objs (with_objs c objs')) with objs' by (destruct c; reflexivity). exact A.
    + rewrite <- (with_objs_same (fill_sub (with_objs c objs') p)) at 1.
      rewrite fill_sub_objs. destruct c; reflexivity.
  - set (objs' := sl_ins o_id id_cmp o (c_objs c)).
    replace (c_objs (with_objs c objs')) with objs' by (destruct c; reflexivity).
    apply (add_step _ _ o L G objs' eq_refl).
Qed.

Lemma cdelete_wf c id : Wf c -> Wf (cdelete c id).
Proof.
  intros W. pose proof (proj1 (Wf_WfL c) W) as L. pose proof (wf_objs c W) as So.
  unfold cdelete. destruct (sl_get o_id id_cmp id (c_objs c)) as [p|] eqn:G; auto.
  apply (get_spec o_id id_cmp order_bytes _ So) in G. destruct G as [Hp Hk]. subst id.
  pose proof (sub_step_gen _ c p L Hp (sl_del o_id id_cmp (o_id p) (c_objs c))) as S.
  destruct c as [objs0 vals sp ex nobj nnobj pts w]. cbn in *.
  replace (if negb (o_empty p) then index_delete sp p else sp) with (index_delete sp p)
    by (unfold index_delete; destruct (negb (o_empty p)); reflexivity).
  destruct (if o_spatial p then (vals, index_delete sp p, nobj - 1, nnobj)
            else (sl_del vkey vcmp (vkey p) vals, sp, nobj, nnobj - 1)) as [[[v1 s1] a1] b1] eqn:E1.
  apply Wf_WfL. cbn. apply S; auto.
Qed.

Lemma wf_preserved c o id : Wf c -> Wf (cset c o) /\ Wf (cdelete c id).
Proof. intros W. split; [apply cset_wf | apply cdelete_wf]; auto. Qed.

Lemma wf_fold ops : forall c, Wf c -> Wf (fold_left apply ops c).
Proof.
  induction ops as [|x ops IH]; cbn; auto. intros c W. apply IH.
  destruct x; cbn; [apply cset_wf | apply cdelete_wf]; auto.
Qed.

Lemma wf_run ops : Wf (run ops).
Proof. apply wf_fold. apply wf_new. Qed.

(* ------------------------------------------------------------------ *)
(* counters = recomputation; access paths = retrievable objects         *)
Lemma zsum_count_len (l : list obj) :
  zsum (fun o => b2z (o_spatial o)) l + zsum (fun o => b2z (negb (o_spatial o))) l = Z.of_nat (length l).
Proof. induction l as [|a l IH]; cbn [zsum fold_right length]; [reflexivity|].
  unfold zsum in IH. destruct (o_spatial a); cbn [negb b2z]; lia. Qed.

Lemma counters_agree c : Wf c ->
  ccount c = Z.of_nat (length (scan_ids c)) /\
  cstring_count c = zsum (fun o => b2z (negb (o_spatial o))) (scan_ids c) /\
  cpoint_count c = zsum o_npoints (scan_ids c) /\
  ctotal_weight c = zsum o_weight (scan_ids c).
Proof.
  intros W. unfold ccount, cstring_count, cpoint_count, ctotal_weight, scan_ids.
  rewrite (wf_objects c W), (wf_nobjects c W), (wf_points c W), (wf_weight c W), zsum_count_len. auto.
Qed.

Lemma retrievable_iff c : Wf c -> forall o, cget c (o_id o) = Some o <-> In o (c_objs c).
Proof.
  intros W o. unfold cget. rewrite (get_spec o_id id_cmp order_bytes _ (wf_objs c W)). tauto.
Qed.

Lemma paths_agree c : Wf c ->
  (forall o, In o (scan_ids c) <-> cget c (o_id o) = Some o) /\
  (forall o, In o (search_values c) <-> (cget c (o_id o) = Some o /\ o_spatial o = false)) /\
  (forall o, In o (spatial_list c) <-> (cget c (o_id o) = Some o /\ o_spatial o = true /\ o_empty o = false)) /\
  (forall o, In o (scan_expires c) <-> (cget c (o_id o) = Some o /\ o_ex o <> 0)) /\
  NoDup (map o_id (scan_ids c)) /\ NoDup (map o_id (search_values c)) /\
  NoDup (map o_id (spatial_list c)) /\ NoDup (map o_id (scan_expires c)).
Proof.
  intros W. pose proof (retrievable_iff c W) as R.
  assert (P2 : forall o, In o (search_values c) <-> (cget c (o_id o) = Some o /\ o_spatial o = false)).
  { intros o. unfold search_values. rewrite (wf_values c W), R. unfold in_values.
    destruct (o_spatial o); cbn; intuition congruence. }
  assert (P4 : forall o, In o (scan_expires c) <-> (cget c (o_id o) = Some o /\ o_ex o <> 0)).
  { intros o. unfold scan_expires. rewrite (wf_expires c W), R. unfold in_expires.
    destruct (Z.eqb_spec (o_ex o) 0); cbn; intuition congruence. }
  assert (ND : forall l, (forall o, In o l -> In o (c_objs c)) -> NoDup l -> NoDup (map o_id l)).
  { intros l Hl. induction 1 as [|a l Ha Hnd IH]; cbn; constructor.
    - intros Hin. apply in_map_iff in Hin. destruct Hin as [b [Hk Hb]].
      assert (b = a). { apply (objs_id_inj c W); auto. apply Hl; right; auto. apply Hl; left; auto. }
      subst b. auto.
    - apply IH. intros o Ho. apply Hl. right. auto. }
  assert (NDk : forall {K} (key : obj -> K) l, NoDup (map key l) -> NoDup l).
  { intros K key l. induction l as [|a l IH]; cbn; intros H; constructor; inversion H; subst; auto.
    intros Hin. apply H2. apply in_map. auto. }
  assert (P1 : forall o, In o (scan_ids c) <-> cget c (o_id o) = Some o).
  { intros o. unfold scan_ids. symmetry. apply R. }
  assert (P3 : forall o, In o (spatial_list c) <-> (cget c (o_id o) = Some o /\ o_spatial o = true /\ o_empty o = false)).
  { intros o. split.
    - intros Hin. unfold spatial_list in Hin. apply in_map_iff in Hin. destruct Hin as [e [He Hin]].
      apply (wf_spatial c W) in Hin. destruct Hin as (Ho & Hs & _). subst o.
      unfold in_spatial in Hs. apply andb_true_iff in Hs. destruct Hs as [Hs1 Hs2].
      split; [apply R; auto|]. split; auto. destruct (o_empty (snd e)); auto; discriminate.
    - intros (Hg & Hs & He). unfold spatial_list. apply in_map_iff. exists (rtree_item o). split; auto.
      apply (wf_spatial c W). cbn. split; [apply R; auto|]. split; auto.
      unfold in_spatial. rewrite Hs, He. reflexivity. }
  split; [exact P1|]. split; [exact P2|]. split; [exact P3|]. split; [exact P4|].
  split; [|split; [|split]].
  - apply (ssorted_NoDup o_id id_cmp order_bytes). apply (wf_objs c W).
  - apply ND. { intros o Ho. apply (wf_values c W) in Ho. tauto. }
    apply (NDk _ vkey). apply (ssorted_NoDup vkey vcmp order_vcmp). apply (wf_values_sorted c W).
  - unfold spatial_list. rewrite map_map. apply (wf_spatial_nodup c W).
  - apply ND. { intros o Ho. apply (wf_expires c W) in Ho. tauto. }
    apply (NDk _ ekey). apply (ssorted_NoDup ekey ecmp order_ecmp). apply (wf_expires_sorted c W).
Qed.

