(* The Lua sandbox as a statement about names: what lStatePool.New registers (Gen/LuaAllow.v,
   regenerated from /repo) against the documented allow-list.  The Lua VM itself is not modelled. *)
From Coq Require Import String List Bool.
From T38 Require Import Model.Tables Gen.LuaAllow Model.Sandbox.
Import ListNotations.
Open Scope string_scope.

Definition inclb (a b : list string) : bool := forallb (fun x => in_strs x b) a.

Lemma inclb_incl a b : inclb a b = true -> incl a b.
Proof.
  unfold inclb. rewrite forallb_forall. intros H x Hx. specialize (H x Hx).
  unfold in_strs in H. apply existsb_exists in H as [y [Hy He]]. apply String.eqb_eq in He. subst. exact Hy.
Qed.

Lemma sandbox_ok :
  lua_skip_open_libs = true /\ lua_newindex_locked = true /\
  incl lua_names documented_allow /\ (forall n, In n lua_names -> ~ In n dangerous_names) /\
  incl lua_module_libs allowed_libs.
Proof.
  split; [reflexivity|]. split; [reflexivity|]. split; [apply inclb_incl; vm_compute; reflexivity|].
  split.
  - assert (H : forallb (fun n => negb (in_strs n dangerous_names)) lua_names = true) by (vm_compute; reflexivity).
    rewrite forallb_forall in H. intros n Hn Hd. specialize (H n Hn). apply negb_true_iff in H.
    assert (in_strs n dangerous_names = true).
    { unfold in_strs. apply existsb_exists. exists n. split; [exact Hd | apply String.eqb_refl]. }
    congruence.
  - apply inclb_incl. vm_compute. reflexivity.
Qed.

(* the interpreter is configured by the audited options and calls only *)
Lemma interpreter_config_ok :
  lua_newstate_options = audited_options /\ incl lua_state_methods audited_state_methods.
Proof. split; [reflexivity | apply inclb_incl; vm_compute; reflexivity]. Qed.
