(* The Lua sandbox as a statement about names: what lStatePool.New registers (Gen/LuaAllow.v,
   regenerated from /repo) against the documented allow-list.  The Lua VM itself is not modelled. *)
From Coq Require Import String List Bool.
From T38 Require Import Model.Tables Gen.LuaAllow.
Import ListNotations.
Open Scope string_scope.

(* names a script can reach by construction of the state: globals set by New/openBaseSubset,
   functions of the partially opened base and os modules, the tile38 table *)
Definition lua_names : list string :=
  (lua_set_globals ++ lua_base_fns ++ map (fun f => String.append "os." f) lua_os_fns ++
   map (fun f => String.append "tile38." f) lua_tile38_exports)%list.

(* README / website: the script environment *)
Definition documented_allow : list string :=
  ["_G"; "_VERSION"; "_GOPHER_LUA_VERSION"; "json"; "tile38"; "tonumber"; "tostring";
   "os.clock"; "os.difftime";
   "tile38.call"; "tile38.pcall"; "tile38.error_reply"; "tile38.status_reply"; "tile38.sha1hex"; "tile38.distance_to"].

Definition dangerous_names : list string :=
  ["io"; "package"; "require"; "dofile"; "loadfile"; "load"; "loadstring"; "debug"; "channel"; "coroutine";
   "os.execute"; "os.exit"; "os.getenv"; "os.remove"; "os.rename"; "os.tmpname"; "os.setenv"; "os.setlocale";
   "os.date"; "os.time"; "module"; "newproxy"; "setfenv"; "getfenv"; "rawset"; "setmetatable"; "getmetatable";
   "collectgarbage"; "print"].

(* library opener functions (second component of allowedModules entries) *)
Definition lua_module_libs : list string :=
  map (fun s => match index 0 "=" s with Some i => substring (S i) (String.length s - S i) s | None => s end) lua_modules.

Definition allowed_libs : list string :=
  ["openBaseSubset."; "lua.OpenTable."; "lua.OpenMath."; "lua.OpenString."; "openOsSubset."].

Definition inclb (a b : list string) : bool := forallb (fun x => in_strs x b) a.

Lemma inclb_incl a b : inclb a b = true -> incl a b.
Proof.
  unfold inclb. rewrite forallb_forall. intros H x Hx. specialize (H x Hx).
  unfold in_strs in H. apply existsb_exists in H as [y [Hy He]]. apply String.eqb_eq in He. subst. exact Hy.
Qed.

Lemma sandbox_ok :
  lua_skip_open_libs = true /\ lua_newindex_locked = true /\
  incl lua_names documented_allow /\ (forall n, In n lua_names -> ~ In n dangerous_names) /\
  incl lua_module_libs allowed_libs.
Proof.
  split; [reflexivity|]. split; [reflexivity|]. split; [apply inclb_incl; vm_compute; reflexivity|].
  split.
  - assert (H : forallb (fun n => negb (in_strs n dangerous_names)) lua_names = true) by (vm_compute; reflexivity).
    rewrite forallb_forall in H. intros n Hn Hd. specialize (H n Hn). apply negb_true_iff in H.
    assert (in_strs n dangerous_names = true).
    { unfold in_strs. apply existsb_exists. exists n. split; [exact Hd | apply String.eqb_refl]. }
    congruence.
  - apply inclb_incl. vm_compute. reflexivity.
Qed.
