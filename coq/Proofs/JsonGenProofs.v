(* C17 — the checker evaluated over the templates regenerated from /repo/internal/server. *)
From T38 Require Import Base.Bytes Base.Utf8 Model.Json Model.Templates Proofs.JsonProofs Proofs.JsonTmplProofs.
From T38 Require Gen.Templates.
Open Scope N_scope.

Lemma all_templates_ok : forallb tmpl_ok Gen.Templates.templates = true.
Proof. vm_compute. reflexivity. Qed.

Lemma all_templates_ok_head : forallb has_ok_head Gen.Templates.templates = true.
Proof. vm_compute. reflexivity. Qed.

Lemma all_value_templates_ok : forallb tmpl_value_ok Gen.Templates.value_templates = true.
Proof. vm_compute. reflexivity. Qed.

Lemma all_fragments_ok : forallb frag_ok Gen.Templates.fragments = true.
Proof. vm_compute. reflexivity. Qed.

Lemma all_replies_valid : forall t v,
  In t Gen.Templates.templates -> inst t v ->
  valid_json v = true /\ (hasPrefix ok_true_prefix v \/ hasPrefix ok_false_prefix v).
Proof.
  intros t v Hin Hi. split.
  - apply (tmpl_ok_sound_proof t); [|exact Hi].
    pose proof all_templates_ok as H. rewrite forallb_forall in H. apply H; exact Hin.
  - apply (has_ok_head_sound_proof t); [|exact Hi].
    pose proof all_templates_ok_head as H. rewrite forallb_forall in H. apply H; exact Hin.
Qed.

Lemma all_scan_templates_ok : forallb tmpl_ok Gen.Templates.scan_templates = true.
Proof. vm_compute. reflexivity. Qed.

Lemma all_scan_templates_ok_head : forallb has_ok_head Gen.Templates.scan_templates = true.
Proof. vm_compute. reflexivity. Qed.

Lemma scan_templates_present : length Gen.Templates.scan_templates = 4%nat.
Proof. reflexivity. Qed.

Lemma all_scan_replies_valid : forall t v,
  In t Gen.Templates.scan_templates -> inst t v ->
  valid_json v = true /\ (hasPrefix ok_true_prefix v \/ hasPrefix ok_false_prefix v).
Proof.
  intros t v Hin Hi. split.
  - apply (tmpl_ok_sound_proof t); [|exact Hi].
    pose proof all_scan_templates_ok as H. rewrite forallb_forall in H. apply H; exact Hin.
  - apply (has_ok_head_sound_proof t); [|exact Hi].
    pose proof all_scan_templates_ok_head as H. rewrite forallb_forall in H. apply H; exact Hin.
Qed.

(* the reply of OUTPUT (no argument, JSON mode) before the repair: the duration is a raw-text
   hole in value position *)
Definition output_template_before_fix : tmpl :=
  Seq (Seq (Lit [123; 34; 111; 107; 34; 58; 116; 114; 117; 101; 44; 34; 111; 117; 116; 112; 117; 116; 34; 58; 34; 106; 115; 111; 110; 34; 44;
                 34; 101; 108; 97; 112; 115; 101; 100; 34; 58]) HDur) (Lit [125]).

Lemma output_before_fix_refuted :
  tmpl_ok output_template_before_fix = false /\
  exists v, inst output_template_before_fix v /\ valid_json v = false.
Proof.
  split; [vm_compute; reflexivity|].
  eexists. split.
  - apply ISeq; [apply ISeq; [apply ILit | apply (IDur [52; 48; 110; 115]); reflexivity] | apply ILit].
  - vm_compute. reflexivity.
Qed.

(* an unguarded strconv.FormatFloat in value position is rejected, and rightly so *)
Lemma unguarded_float_refuted :
  tmpl_ok (Seq (Seq (Lit [123; 34; 111; 107; 34; 58; 116; 114; 117; 101; 44; 34; 100; 34; 58]) HFloat) (Lit [125])) = false /\
  exists v, inst (Seq (Seq (Lit [123; 34; 111; 107; 34; 58; 116; 114; 117; 101; 44; 34; 100; 34; 58]) HFloat) (Lit [125])) v /\ valid_json v = false.
Proof.
  split; [vm_compute; reflexivity|].
  eexists. split.
  - apply ISeq; [apply ISeq; [apply ILit | apply (IFloat [78; 97; 78])] | apply ILit].
  - vm_compute. reflexivity.
Qed.
