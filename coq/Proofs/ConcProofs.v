(* Every concurrent execution of lock-protected critical sections equals the sequential execution
   of the writers in acquisition (= log) order; readers only ever observe states after a complete
   prefix of that order, and all observations of one read section are the same state. *)
From Coq Require Import List Arith Bool Lia.
From T38 Require Import Model.Conc.
Import ListNotations.

Section ConcProofs.
Variable S : Type.
Variable micro : Type.
Variable apply : S -> micro -> S.
Variable s0 : S.

Notation gstate := (gstate S micro).
Notation seq := (seq_state S micro apply s0).
Notation step := (step S micro apply).
Notation run := (run S micro apply).

Definition Inv (g : gstate) : Prop :=
  (* J1 *) (forall t rem, writer _ _ g = Some (t, rem) ->
             readers _ _ g = [] /\ log _ _ g <> [] /\
             exists done, last (log _ _ g) [] = done ++ rem /\
                          shared _ _ g = fold_left apply done (seq (removelast (log _ _ g)))) /\
  (* J2 *) (writer _ _ g = None -> shared _ _ g = seq (log _ _ g)) /\
  (* J3 *) (forall t k seen, In (t, (k, seen)) (readers _ _ g) -> forall x, In x seen -> x = shared _ _ g) /\
  (* J4 *) (forall seen, In seen (finished _ _ g) ->
             exists k, k <= length (log _ _ g) /\ forall x, In x seen -> x = seq (firstn k (log _ _ g))).

Lemma seq_app l ms : seq (l ++ [ms]) = fold_left apply ms (seq l).
Proof. unfold seq_state. rewrite fold_left_app. reflexivity. Qed.

Lemma lookup_in t l k seen : lookup S t l = Some (k, seen) -> In (t, (k, seen)) l.
Proof.
  induction l as [|[t' x] l IH]; cbn; [discriminate|].
  destruct (Nat.eqb_spec t' t) as [->|]; [intros H; inversion H; left; reflexivity | intros H; right; exact (IH H)].
Qed.

Lemma remove_t_in t l u y : In (u, y) (remove_t S t l) -> In (u, y) l.
Proof.
  induction l as [|[t' x] l IH]; cbn; [tauto|].
  destruct (Nat.eqb t' t); [intros H; right; exact (IH H)|].
  intros [H|H]; [left; exact H | right; exact (IH H)].
Qed.

Lemma inv_init prog : Inv (init S micro s0 prog).
Proof.
  unfold Inv, init; cbn. repeat split; try discriminate; try tauto.
Qed.

Ltac inv4 := unfold Inv; cbn [shared log writer readers todo finished]; split; [|split; [|split]].

Lemma step_inv g t : Inv g -> Inv (step g t).
Proof.
  intros [J1 [J2 [J3 J4]]]. unfold Conc.step.
  assert (Hreader : forall k seen, writer _ _ g = None \/ (exists w rem, writer _ _ g = Some (w, rem) /\ w <> t) ->
            lookup S t (readers _ _ g) = Some (k, seen) -> Inv (reader_step S micro g t k seen)).
  { intros k seen Hw Hl. apply lookup_in in Hl.
    assert (Hnw : writer _ _ g = None).
    { destruct Hw as [Hw|[w [rem [Hw _]]]]; [exact Hw|].
      destruct (J1 _ _ Hw) as [Hr _]. rewrite Hr in Hl. destruct Hl. }
    unfold reader_step. destruct k as [|k']; inv4.
    - intros t0 rem Hw'. rewrite Hnw in Hw'. discriminate.
    - exact J2.
    - intros u k0 sn Hin. apply remove_t_in in Hin. exact (J3 _ _ _ Hin).
    - intros sn [<-|Hin]; [|exact (J4 _ Hin)].
      exists (length (log _ _ g)). split; [lia|]. intros x Hx.
      rewrite firstn_all. rewrite <- (J2 Hnw). exact (J3 _ _ _ Hl x Hx).
    - intros t0 rem Hw'. rewrite Hnw in Hw'. discriminate.
    - exact J2.
    - intros u k0 sn [Hin|Hin] x Hx.
      + inversion Hin; subst. apply in_app_or in Hx as [Hx|[<-|[]]]; [exact (J3 _ _ _ Hl x Hx) | reflexivity].
      + apply remove_t_in in Hin. exact (J3 _ _ _ Hin x Hx).
    - exact J4. }
  assert (Hsame : Inv g) by (unfold Inv; auto).
  assert (Hidle : Inv (idle_step S micro g t)).
  { unfold idle_step. destruct (todo _ _ g t) as [|[ms|n] rest]; [exact Hsame| |].
    - destruct (writer _ _ g) as [[w rem]|] eqn:Ew; [exact Hsame|].
      destruct (readers _ _ g) as [|r rs] eqn:Er; [|exact Hsame].
      inv4.
      + intros t0 rem H. inversion H; subst. split; [reflexivity|]. split.
        * intros E. apply app_eq_nil in E as [_ E]. discriminate.
        * exists []. rewrite last_last, removelast_last. cbn.
          split; [reflexivity | apply J2; reflexivity].
      + discriminate.
      + intros u k0 sn [].
      + intros sn Hin. destruct (J4 _ Hin) as [k [Hk Hx]]. exists k. rewrite app_length. split; [lia|].
        intros x Hxx. rewrite firstn_app. replace (k - length (log _ _ g)) with 0 by lia.
        cbn. rewrite app_nil_r. exact (Hx x Hxx).
    - destruct (writer _ _ g) as [[w rem]|] eqn:Ew; [exact Hsame|].
      inv4.
      + discriminate.
      + intros _. apply J2. reflexivity.
      + intros u k0 sn [Hin|Hin]; [inversion Hin; subst; intros x [] | exact (J3 _ _ _ Hin)].
      + exact J4. }
  destruct (writer _ _ g) as [[w rem]|] eqn:Ew.
  - destruct (Nat.eqb_spec w t) as [->|Hne].
    + destruct (J1 _ _ eq_refl) as [Hr [Hlog [done [Hlast Hsh]]]].
      destruct rem as [|m r]; inv4.
      * discriminate.
      * intros _. rewrite app_nil_r in Hlast. rewrite Hsh.
        rewrite (app_removelast_last [] Hlog) at 2. rewrite seq_app, Hlast. reflexivity.
      * rewrite Hr. intros u k0 sn [].
      * exact J4.
      * intros t0 rem0 H. inversion H; subst. split; [exact Hr|]. split; [exact Hlog|].
        exists (done ++ [m]). rewrite <- app_assoc. cbn.
        split; [exact Hlast | rewrite fold_left_app; cbn; rewrite Hsh; reflexivity].
      * discriminate.
      * rewrite Hr. intros u k0 sn [].
      * exact J4.
    + destruct (lookup S t (readers _ _ g)) as [[k seen]|] eqn:El.
      * apply Hreader; [right; exists w, rem; split; [reflexivity | exact Hne] | reflexivity].
      * exact Hidle.
  - destruct (lookup S t (readers _ _ g)) as [[k seen]|] eqn:El.
    + apply Hreader; [left; reflexivity | reflexivity].
    + exact Hidle.
Qed.

Theorem run_inv prog sched : Inv (run (init S micro s0 prog) sched).
Proof.
  unfold Conc.run. generalize (inv_init prog). generalize (init S micro s0 prog).
  induction sched as [|t sched IH]; intros g Hg; cbn [fold_left]; [exact Hg|].
  apply IH. apply step_inv. exact Hg.
Qed.

(* whenever no writer is inside its critical section, the dataset is the sequential result of the
   log; every completed read section saw one single state, the result of a complete prefix of the
   log; a read section in progress sees the current state only *)
Theorem linearizable prog sched :
  let g := run (init S micro s0 prog) sched in
  (writer _ _ g = None -> shared _ _ g = seq (log _ _ g)) /\
  (forall seen, In seen (finished _ _ g) ->
     exists k, k <= length (log _ _ g) /\ forall x, In x seen -> x = seq (firstn k (log _ _ g))) /\
  (forall t rem, writer _ _ g = Some (t, rem) -> readers _ _ g = []).
Proof.
  cbn zeta. destruct (run_inv prog sched) as [J1 [J2 [J3 J4]]].
  split; [exact J2|]. split; [exact J4|].
  intros t rem H. exact (proj1 (J1 _ _ H)).
Qed.

End ConcProofs.
