(* The previous position handed to fenceMatchRoam is the item stored under the id immediately before
   the SET - what GET returned - whatever its deadline: lemmas over Model/RoamSet.v, the corollary
   of roam_faraway_exact for an expired-but-unswept previous object, and the refutation of the
   variant of cmdSET that forgets such an object. *)
From Coq Require Import List NArith ZArith Bool Lia String.
From T38 Require Import Base.Bytes Model.Glob Model.Roam Model.RoamSet Proofs.RoamProofs Gen.SetOld.
Import ListNotations.
Arguments s_id {G}. Arguments s_geo {G}. Arguments s_exp {G}. Arguments Build_sobj {G}.
Arguments KSet {G}. Arguments KDel {G}. Arguments KSweep {G}.

Section RoamSetProofs.
  Variable G : Type.
  Variable dist : G -> G -> Z.
  Variable in_rect : G -> Z -> G -> bool.
  Variable rmin : Z.
  Hypothesis Hr : forall c r o, (rmin <= r)%Z -> (dist c o <= r)%Z -> in_rect c r o = true.

  Notation sobj := (sobj G).

  Lemma sid_is_true id (o : sobj) : sid_is G id o = true <-> s_id o = id.
  Proof. unfold sid_is. apply bytes_eqb_eq. Qed.

  (* cmdSET's old is Collection.Get of the id just before, at any clock value *)
  Theorem set_old_is_get now (col : list sobj) o :
    snd (set_details G (old_as_is G) now col o) = col_get G (s_id o) col.
  Proof. reflexivity. Qed.

  Lemma get_unique (col : list sobj) x :
    NoDup (map (@s_id G) col) -> In x col -> col_get G (s_id x) col = Some x.
  Proof.
    unfold col_get. induction col as [|y col IH]; intros Hnd Hin; [destruct Hin|].
    cbn [find]. inversion Hnd as [|? ? Hny Hnd']; subst.
    destruct (sid_is G (s_id x) y) eqn:E.
    - apply sid_is_true in E. destruct Hin as [->|Hin]; [reflexivity|].
      exfalso. apply Hny. rewrite E. apply in_map. exact Hin.
    - destruct Hin as [->|Hin]; [|exact (IH Hnd' Hin)].
      assert (sid_is G (s_id x) x = true) by (apply sid_is_true; reflexivity). congruence.
  Qed.

  (* an object that is still stored - its deadline passed or not - is the old of the next SET of its id *)
  Theorem stored_is_old now (col : list sobj) x o :
    NoDup (map (@s_id G) col) -> In x col -> s_id x = s_id o ->
    snd (set_details G (old_as_is G) now col o) = Some x.
  Proof. intros Hnd Hin He. rewrite set_old_is_get, <- He. exact (get_unique col x Hnd Hin). Qed.

  (* ids stay unique along any history of SET / DEL / sweep *)
  Lemma NoDup_ids_filter (P : sobj -> bool) col : NoDup (map (@s_id G) col) -> NoDup (map (@s_id G) (filter P col)).
  Proof.
    induction col as [|y col IH]; intros Hnd; [constructor|].
    inversion Hnd as [|? ? Hny Hnd']; subst. cbn [filter]. destruct (P y); [|exact (IH Hnd')].
    cbn [map]. constructor; [|exact (IH Hnd')].
    intros Hi. apply Hny. apply in_map_iff in Hi. destruct Hi as (z & Ez & Hz).
    apply filter_In in Hz. rewrite <- Ez. apply in_map. tauto.
  Qed.

  Theorem krun_ids_unique ops : NoDup (map (@s_id G) (krun G ops)).
  Proof.
    unfold krun. assert (H0 : NoDup (map (@s_id G) (@nil sobj))) by constructor.
    revert H0. generalize (@nil sobj).
    induction ops as [|k ops IH]; intros col Hnd; cbn [fold_left]; [exact Hnd|].
    apply IH. destruct k as [now o|id|now]; cbn [kstep set_details col_set fst].
    - cbn [map]. constructor; [|apply NoDup_ids_filter; exact Hnd].
      intros Hi. apply in_map_iff in Hi. destruct Hi as (z & Ez & Hz). apply filter_In in Hz.
      destruct Hz as [_ Hz]. apply negb_true_iff in Hz.
      assert (sid_is G (s_id o) z = true) by (apply sid_is_true; exact Ez). congruence.
    - apply NoDup_ids_filter; exact Hnd.
    - apply NoDup_ids_filter; exact Hnd.
  Qed.

  (* after any history: the faraway entries of a SET are measured from the stored previous object,
     expired or not *)
  Theorem set_roam_faraway ops now x o rcol sw near far :
    In x (krun G ops) -> s_id x = s_id o ->
    (rmin <= rs_meters sw)%Z -> NoDup (map (@o_id G) rcol) ->
    set_roam G dist in_rect (old_as_is G) now (krun G ops) o rcol sw = RoamDone near far ->
    forall m, In m far <->
      exists n, In n rcol /\
        (o_id n <> s_id o /\ (dist (s_geo x) (o_geo n) <= rs_meters sw)%Z /\ id_match sw (o_id n) = true) /\
        ~ (dist (s_geo o) (o_geo n) <= rs_meters sw)%Z /\
        m = {| m_id := o_id n; m_geo := o_geo n; m_meters := dist (o_geo n) (s_geo o) |}.
  Proof.
    intros Hin He Hmin Hnd Hres m. unfold set_roam in Hres.
    rewrite (stored_is_old now (krun G ops) x o (krun_ids_unique ops) Hin He) in Hres. cbn [option_map] in Hres.
    assert (Hs : same_id G (to_robj G o) (Some (to_robj G x))).
    { intros ob E. injection E as <-. cbn. exact He. }
    rewrite (roam_faraway_exact G dist in_rect rmin Hr rcol sw _ _ near far Hmin Hnd Hs Hres m).
    split.
    - intros (n & ob & E & Hn & H1 & H2 & H3). injection E as <-. exists n. cbn in *. auto.
    - intros (n & Hn & H1 & H2 & H3). exists n, (to_robj G x). cbn. auto.
  Qed.
End RoamSetProofs.

(* ---------- the variant that forgets an expired previous object, on the plane ---------- *)
Module PlaneSet.
  Import Plane.
  Definition so (n : N) (x y : Z) (e : option Z) : sobj P := {| s_id := b n; s_geo := (x, y); s_exp := e |}.
  (* 97 was written at (5000,0) with a deadline of 10 and has not been swept; 101 sits next to it *)
  Definition ops : list (kop P) := [KSet 0 (so 101 5000 300 None); KSet 0 (so 97 5000 0 (Some 10%Z))].
  Definition rcol_after : list (robj P) := [mk 97 0 0; mk 101 5000 300].

  (* at clock 20 the object is still stored (GET returns it) and is SET to the origin: the code reports
     101 faraway, the variant reports nothing *)
  Lemma forget_expired_refuted :
    col_get P (b 97) (krun P ops) = Some (so 97 5000 0 (Some 10%Z)) /\
    set_roam P pdist prect (old_as_is P) 20 (krun P ops) (so 97 0 0 None) rcol_after (sw1000 false)
      = RoamDone [] [{| m_id := b 101; m_geo := (5000, 300)%Z; m_meters := 25090000%Z |}] /\
    set_roam P pdist prect (old_forget_expired P) 20 (krun P ops) (so 97 0 0 None) rcol_after (sw1000 false)
      = RoamDone [] [].
  Proof. vm_compute. auto. Qed.

  (* under NODWELL the variant reports a dwelling neighbour nearby again *)
  Definition ops2 : list (kop P) := [KSet 0 (so 99 300 400 None); KSet 0 (so 97 100 0 (Some 10%Z))].
  Lemma forget_expired_nodwell_refuted :
    set_roam P pdist prect (old_as_is P) 20 (krun P ops2) (so 97 0 0 None) [mk 97 0 0; mk 99 300 400] (sw1000 true)
      = RoamDone [] [] /\
    set_roam P pdist prect (old_forget_expired P) 20 (krun P ops2) (so 97 0 0 None) [mk 97 0 0; mk 99 300 400] (sw1000 true)
      = RoamDone [{| m_id := b 99; m_geo := (300, 400)%Z; m_meters := 250000%Z |}] [].
  Proof. vm_compute. auto. Qed.
End PlaneSet.

(* ---------- tie to the source ---------- *)
Open Scope string_scope.
Theorem set_old_source_tied :
  set_old_defs = ["col.Set(obj)"] /\ set_details_old = ["old"] /\ set_details_obj = ["obj"] /\
  roam_call_args = ["sw.s"; "fence"; "details.obj"; "details.old"].
Proof. repeat split; reflexivity. Qed.
