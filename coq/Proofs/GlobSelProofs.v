(* Proofs/GlobSelProofs.v — lemmas about Model/GlobSel.v (property C12):
   the range shortcut derived from several MATCH patterns (multiGlobParse + ScanRange /
   SearchValuesRange) never changes the selected ids, in both directions; the hook / channel
   walk yields exactly the entries of the asked kind whose name matches; the unfiltered COUNT
   shortcut equals the counting iteration after every history of Set / Delete. *)
From Coq Require Import ZifyN ZifyNat ZifyBool Sorting.Sorted Sorting.Permutation.
From T38 Require Import Base.Bytes Base.Utf8 Model.Glob Proofs.GlobProofs.
From T38 Require Import Model.Collection Proofs.CollectionProofs Model.GlobSel.
Import ListNotations.
Open Scope N_scope.

(* ---------- generic facts about the two walk primitives ---------- *)

Lemma filter_skip_while {A} (P f : A -> bool) (l : list A) :
  (forall x, P x = true -> f x = false) -> filter P (skip_while f l) = filter P l.
Proof.
  intros HP. induction l as [|x r IH]; cbn; [reflexivity|].
  destruct (f x) eqn:Ef; [|reflexivity].
  rewrite IH. destruct (P x) eqn:Px; [|reflexivity].
  apply HP in Px. congruence.
Qed.

Lemma filter_none {A} (P : A -> bool) (l : list A) :
  (forall x, In x l -> P x = false) -> filter P l = [].
Proof.
  induction l as [|x r IH]; cbn; intros H; [reflexivity|].
  rewrite (H x (or_introl eq_refl)). apply IH. intros y Hy. apply H. right; exact Hy.
Qed.

Lemma filter_take_until {A} (R : A -> A -> Prop) (P stop : A -> bool) (l : list A) :
  StronglySorted R l ->
  (forall a b, R a b -> stop a = true -> stop b = true) ->
  (forall x, P x = true -> stop x = false) ->
  filter P (take_until stop l) = filter P l.
Proof.
  intros Hs Hmono HP. induction l as [|x r IH]; cbn; [reflexivity|].
  inversion Hs as [|? ? Hs' Hall]; subst.
  destruct (stop x) eqn:Ex.
  - cbn. symmetry. apply (filter_none P (x :: r)).
    intros y Hy. destruct (P y) eqn:Py; [|reflexivity]. apply HP in Py.
    destruct Hy as [->|Hy]; [congruence|].
    rewrite Forall_forall in Hall. rewrite (Hmono x y (Hall y Hy) Ex) in Py. discriminate.
  - cbn. rewrite IH by assumption. reflexivity.
Qed.

Lemma skip_while_sorted {A} (R : A -> A -> Prop) (f : A -> bool) (l : list A) :
  StronglySorted R l -> StronglySorted R (skip_while f l).
Proof.
  intros Hs. induction l as [|x r IH]; cbn; [constructor|].
  inversion Hs; subst. destruct (f x); [apply IH; assumption | exact Hs].
Qed.

Lemma sorted_snoc {A} (R : A -> A -> Prop) (l : list A) (a : A) :
  StronglySorted R l -> Forall (fun x => R x a) l -> StronglySorted R (l ++ [a]).
Proof.
  induction l as [|x r IH]; cbn; intros Hs Hall.
  - constructor; [constructor | constructor].
  - inversion Hs as [|? ? Hs' Hx]; subst. inversion Hall as [|? ? Hxa Hr]; subst.
    constructor; [apply IH; assumption|].
    apply Forall_app. split; [exact Hx | constructor; [exact Hxa | constructor]].
Qed.

Lemma sorted_rev {A} (R : A -> A -> Prop) (l : list A) :
  StronglySorted R l -> StronglySorted (fun a b => R b a) (rev l).
Proof.
  induction l as [|x r IH]; cbn; intros Hs; [constructor|].
  inversion Hs as [|? ? Hs' Hx]; subst.
  apply sorted_snoc; [apply IH; exact Hs'|].
  apply Forall_rev. exact Hx.
Qed.

(* ---------- order facts ---------- *)

Lemma bytes_ltb_false_leb a b : bytes_ltb a b = false -> bytes_leb b a = true.
Proof.
  unfold bytes_ltb, bytes_leb. rewrite (bytes_cmp_antisym a b).
  destruct (bytes_cmp a b); cbn; congruence.
Qed.

Lemma bytes_ltb_leb_false a b : bytes_ltb a b = true -> bytes_leb b a = false.
Proof.
  unfold bytes_ltb, bytes_leb. rewrite (bytes_cmp_antisym a b).
  destruct (bytes_cmp a b); cbn; congruence.
Qed.

Lemma bytes_ltb_asym a b : bytes_ltb a b = true -> bytes_ltb b a = false.
Proof. intros H. apply bytes_leb_ltb_false. apply bytes_ltb_leb. exact H. Qed.

Lemma bytes_leb_ltb_trans a b c : bytes_leb a b = true -> bytes_ltb b c = true -> bytes_ltb a c = true.
Proof.
  unfold bytes_ltb, bytes_leb. destruct (bytes_cmp a b) eqn:E1; try discriminate;
  destruct (bytes_cmp b c) eqn:E2; try discriminate; intros _ _.
  - apply bytes_cmp_eq in E1; subst. rewrite E2; reflexivity.
  - rewrite (bytes_cmp_lt_trans _ _ _ E1 E2). reflexivity.
Qed.

Lemma bytes_ltb_nil_r a : bytes_ltb a [] = false.
Proof. destruct a; reflexivity. Qed.

Lemma desc_low_lt pre : pre <> [] -> bytes_ltb (desc_low pre) pre = true.
Proof.
  intros Hpre. unfold desc_low, bytes_ltb.
  destruct (Nat.eqb_spec (length (strip_trailing 0 pre)) (length pre)) as [Hlen|Hlen].
  - destruct pre as [|x pre']; [congruence|].
    assert (Hl : last (x :: pre') 0 <> 0) by (apply strip_trailing_id_last; [congruence | exact Hlen]).
    pose proof (dec_last_lt (x :: pre') [] ltac:(congruence) Hl) as H. rewrite app_nil_r in H.
    rewrite H; reflexivity.
  - destruct (strip_trailing 0 pre) as [|y q] eqn:Es.
    + destruct pre; [congruence | reflexivity].
    + destruct (strip_trailing_decomp 0 pre) as [k Hk]. rewrite Es in Hk.
      destruct (strip_trailing_last 0 pre) as [q' [z [Hq Hz]]]; [rewrite Es; congruence|].
      rewrite Es in Hq.
      assert (Hk' : pre = (q' ++ [z]) ++ repeat 0 k) by (rewrite <- Hq; exact Hk).
      rewrite Hq. unfold dec_last. rewrite removelast_last, last_last.
      rewrite Hk'. rewrite <- !app_assoc. cbn [app].
      rewrite (bytes_cmp_app_lt q' (z - 1) z [255] (repeat 0 k)); [reflexivity | lia].
Qed.

(* ---------- one pattern: the range (strict at the DESC end, where the walk stops) ---------- *)

(* membership in the part of the order a range walk from l0 to l1 visits before stopping:
   ASC : l0 <= s <  l1        (Ascend(l0), stop at the first s >= l1)
   DESC: l1 <  s <  l0        (Descend(l0), stop at the first s <= l1) *)
Definition covers (desc : bool) (l0 l1 s : bytes) : bool :=
  if desc then bytes_ltb l1 s && bytes_ltb s l0 else bytes_leb l0 s && bytes_ltb s l1.

Lemma parse_covers p d s :
  gmatches p s = true -> prefix_ends_ff p = false ->
  unlimited (parse p d) = true \/ covers d (g_lim0 (parse p d)) (g_lim1 (parse p d)) s = true.
Proof.
  intros Hm Hff. unfold gmatches in Hm. destruct (glob_match p s) eqn:Em; try discriminate.
  pose proof (match_forces_lit_prefix p s Em) as Hpre.
  unfold parse.
  destruct p as [|c0 p']; [left; reflexivity|].
  destruct (c0 =? STAR) eqn:Ec; [left; reflexivity|].
  set (p := c0 :: p') in *.
  destruct (lit_prefix p) as [|x l] eqn:El; [left; reflexivity|].
  right. unfold prefix_ends_ff in Hff. rewrite El in Hff.
  unfold upper_of. rewrite Hff.
  assert (Hne : x :: l <> []) by congruence.
  destruct d; unfold covers; cbn [g_lim0 g_lim1]; apply andb_true_iff; split.
  - eapply bytes_ltb_leb_trans; [apply desc_low_lt; exact Hne | apply prefix_lower; exact Hpre].
  - apply prefix_upper_inc; assumption.
  - apply prefix_lower; exact Hpre.
  - apply prefix_upper_inc; assumption.
Qed.

(* ---------- several patterns: multiGlobParse ---------- *)

Lemma covers_widen d a0 a1 b0 b1 s :
  covers d a0 a1 s = true ->
  (if d then bytes_leb a0 b0 = true /\ bytes_leb b1 a1 = true
   else bytes_leb b0 a0 = true /\ bytes_leb a1 b1 = true) ->
  covers d b0 b1 s = true.
Proof.
  unfold covers. destruct d; intros H [H0 H1]; apply andb_true_iff in H as [Ha Hb];
    apply andb_true_iff; split.
  - eapply bytes_leb_ltb_trans; eassumption.
  - eapply bytes_ltb_leb_trans; eassumption.
  - eapply bytes_leb_trans; eassumption.
  - eapply bytes_ltb_leb_trans; eassumption.
Qed.

Lemma pick_min_l a b : bytes_leb (if bytes_ltb a b then a else b) a = true.
Proof. destruct (bytes_ltb a b) eqn:E; [apply bytes_leb_refl | apply bytes_ltb_false_leb; exact E]. Qed.
Lemma pick_min_r a b : bytes_leb (if bytes_ltb a b then a else b) b = true.
Proof. destruct (bytes_ltb a b) eqn:E; [apply bytes_ltb_leb; exact E | apply bytes_leb_refl]. Qed.
Lemma pick_max_l a b : bytes_leb a (if bytes_gtb a b then a else b) = true.
Proof. unfold bytes_gtb. destruct (bytes_ltb b a) eqn:E; [apply bytes_leb_refl | apply bytes_ltb_false_leb; exact E]. Qed.
Lemma pick_max_r a b : bytes_leb b (if bytes_gtb a b then a else b) = true.
Proof. unfold bytes_gtb. destruct (bytes_ltb b a) eqn:E; [apply bytes_ltb_leb; exact E | apply bytes_leb_refl]. Qed.

Lemma multi_aux_covers rest : forall desc first l0 l1 seen,
  (first = true -> seen = []) ->
  (forall p s, In p seen -> gmatches p s = true -> covers desc l0 l1 s = true) ->
  (forall p, In p rest -> prefix_ends_ff p = false) ->
  let r := multi_glob_parse_aux rest desc first l0 l1 in
  (fst r = [] /\ snd r = []) \/
  (forall p s, In p (seen ++ rest) -> gmatches p s = true -> covers desc (fst r) (snd r) s = true).
Proof.
  induction rest as [|q rest IH]; intros desc first l0 l1 seen Hfirst Hseen Hff; cbn [multi_glob_parse_aux].
  - right. cbn [fst snd]. intros p s Hin. rewrite app_nil_r in Hin. apply Hseen; exact Hin.
  - destruct (unlimited (parse q desc)) eqn:Eu; [left; split; reflexivity|].
    assert (Hq : forall s, gmatches q s = true ->
                 covers desc (g_lim0 (parse q desc)) (g_lim1 (parse q desc)) s = true).
    { intros s Hs. destruct (parse_covers q desc s Hs (Hff q (or_introl eq_refl))) as [H|H]; [congruence | exact H]. }
    assert (Hff' : forall p, In p rest -> prefix_ends_ff p = false) by (intros p Hp; apply Hff; right; exact Hp).
    assert (Hstep : forall n0 n1,
      (forall p s, In p (seen ++ [q]) -> gmatches p s = true -> covers desc n0 n1 s = true) ->
      let r := multi_glob_parse_aux rest desc false n0 n1 in
      (fst r = [] /\ snd r = []) \/
      (forall p s, In p (seen ++ q :: rest) -> gmatches p s = true -> covers desc (fst r) (snd r) s = true)).
    { intros n0 n1 Hn. specialize (IH desc false n0 n1 (seen ++ [q]) ltac:(discriminate) Hn Hff').
      rewrite <- app_assoc in IH. exact IH. }
    destruct first.
    + apply Hstep. rewrite (Hfirst eq_refl). cbn. intros p s [<-|[]] Hs. apply Hq; exact Hs.
    + destruct desc; apply Hstep; intros p s Hin Hs; apply in_app_iff in Hin as [Hin|[<-|[]]].
      * eapply covers_widen; [apply (Hseen p s Hin Hs)|]. cbn. split; [apply pick_max_r | apply pick_min_r].
      * eapply covers_widen; [apply (Hq s Hs)|]. cbn. split; [apply pick_max_l | apply pick_min_l].
      * eapply covers_widen; [apply (Hseen p s Hin Hs)|]. cbn. split; [apply pick_min_r | apply pick_max_r].
      * eapply covers_widen; [apply (Hq s Hs)|]. cbn. split; [apply pick_min_l | apply pick_max_l].
Qed.

(* every text accepted by the filter of a range-limited query lies in the part of the order the
   range walk visits *)
Lemma multi_covers globs desc :
  (forall p, In p globs -> prefix_ends_ff p = false) ->
  let r := multi_glob_parse globs desc in
  isempty (fst r) && isempty (snd r) = false ->
  forall s, glob_test globs s = true -> covers desc (fst r) (snd r) s = true.
Proof.
  intros Hff r Hne s Hs. subst r. unfold multi_glob_parse in *.
  destruct (multi_aux_covers globs desc true [] [] [] (fun _ => eq_refl)
              (fun p s (H : In p []) => match H with end) Hff) as [[H0 H1]|H].
  - rewrite H0, H1 in Hne. discriminate.
  - unfold glob_test in Hs. apply orb_true_iff in Hs as [He|Hs].
    + exfalso. destruct globs as [|p [|p' g']].
      * cbn in Hne. discriminate.
      * cbn in He. apply bytes_eqb_eq in He. subst p. cbn in Hne. discriminate.
      * cbn in He. discriminate.
    + apply existsb_exists in Hs as [p [Hin Hp]]. apply (H p s); [exact Hin | exact Hp].
Qed.

(* ---------- scanWriter.pushObject: the walk with early exits ---------- *)

Section PushProofs.
  Context {A : Type}.
  Variable globs : list bytes.
  Variable text : A -> bytes.
  Variable fok : A -> bool.
  Variable limit : N.

  (* the filter the reply is supposed to apply *)
  Definition sel (o : A) : bool := glob_test globs (text o) && fok o.

  Lemma first_match_spec ps val : first_match ps val = (existsb (fun p => gmatches p val) ps, true).
  Proof.
    induction ps as [|p r IH]; cbn [first_match existsb]; [reflexivity|].
    destruct (gmatches p val); [reflexivity | exact IH].
  Qed.

  (* globMatch never asks the walk to stop *)
  Lemma glob_match_kg_spec o : glob_match_kg globs text o = (glob_test globs (text o), true).
  Proof.
    unfold glob_match_kg, glob_test. destruct (glob_everything globs); [reflexivity|].
    rewrite first_match_spec. reflexivity.
  Qed.

  Lemma test_object_spec o : test_object globs text fok o = (sel o, true).
  Proof.
    unfold test_object, sel. rewrite glob_match_kg_spec.
    destruct (glob_test globs (text o)); reflexivity.
  Qed.

  Lemma walk_items l : forall st, sw_nitems st < limit ->
    out_items (walk_push globs text fok limit false st l) =
    out_items st ++ firstn (N.to_nat (limit - sw_nitems st)) (filter sel l).
  Proof.
    unfold out_items.
    induction l as [|o r IH]; intros st Hn; cbn [walk_push filter].
    - rewrite firstn_nil, app_nil_r. reflexivity.
    - unfold push_object. rewrite test_object_spec.
      destruct (sel o); cbn [negb].
      + replace (N.to_nat (limit - sw_nitems st)) with (S (N.to_nat (limit - (sw_nitems st + 1)))) by lia.
        cbn [firstn].
        destruct (N.eqb_spec (sw_nitems st + 1) limit) as [E|E].
        * cbn [sw_filled rev]. replace (N.to_nat (limit - (sw_nitems st + 1))) with 0%nat by lia.
          rewrite firstn_O. reflexivity.
        * rewrite IH by (cbn [sw_nitems]; lia). cbn [sw_filled sw_nitems rev].
          rewrite <- app_assoc. reflexivity.
      + apply IH. exact Hn.
  Qed.

  Lemma walk_count l : forall st, sw_count st < limit ->
    out_count (walk_push globs text fok limit true st l) =
    N.min limit (sw_count st + N.of_nat (length (filter sel l))).
  Proof.
    unfold out_count.
    induction l as [|o r IH]; intros st Hn; cbn [walk_push filter].
    - cbn [length]. lia.
    - unfold push_object. rewrite test_object_spec.
      destruct (sel o); cbn [negb].
      + cbn [length]. rewrite Nat2N.inj_succ.
        destruct (N.ltb_spec (sw_count st + 1) limit) as [E|E].
        * rewrite IH by (cbn [sw_count]; exact E). cbn [sw_count]. lia.
        * cbn [sw_count]. lia.
      + apply IH. exact Hn.
  Qed.

  (* the reply of a walk over the visited entries: the first LIMIT selected entries, in order;
     COUNT = their number *)
  Theorem walk_push_exact l : 1 <= limit ->
    out_items (walk_push globs text fok limit false (@sw0 A) l) = firstn (N.to_nat limit) (filter sel l) /\
    out_count (walk_push globs text fok limit true (@sw0 A) l) = N.min limit (N.of_nat (length (filter sel l))).
  Proof.
    intros H. split.
    - rewrite walk_items by (cbn; lia). cbn. rewrite N.sub_0_r. reflexivity.
    - rewrite walk_count by (cbn; lia). cbn. reflexivity.
  Qed.
End PushProofs.

(* ---------- SCAN with several MATCH patterns ---------- *)

Definition bsorted (l : list bytes) : Prop := StronglySorted (fun a b => bytes_ltb a b = true) l.

(* the range walk visits every id a filter implying the MATCH test accepts *)
Lemma scan_visit_filter globs desc ids (P : bytes -> bool) :
  bsorted ids -> (forall p, In p globs -> prefix_ends_ff p = false) ->
  (forall x, P x = true -> glob_test globs x = true) ->
  filter P (scan_visit globs desc ids) = filter P (if desc then rev ids else ids).
Proof.
  intros Hs Hff HP. unfold scan_visit.
  pose proof (multi_covers globs desc Hff) as Hc. cbv zeta in Hc.
  destruct (multi_glob_parse globs desc) as [l0 l1]. cbn [fst snd] in Hc.
  destruct (isempty l0 && isempty l1) eqn:Ee; [reflexivity|].
  specialize (Hc eq_refl).
  assert (Hc' : forall x, P x = true -> covers desc l0 l1 x = true) by (intros x Hx; apply Hc, HP, Hx).
  clear Hc HP. unfold scan_range_visit, covers in *.
  destruct desc.
  - rewrite (filter_take_until (fun a b => bytes_ltb b a = true)).
    + apply filter_skip_while. intros x Hx. apply Hc' in Hx. apply andb_true_iff in Hx as [_ Hx].
      unfold bytes_gtb. apply bytes_ltb_asym. exact Hx.
    + apply skip_while_sorted. apply (sorted_rev (fun a b => bytes_ltb a b = true)). exact Hs.
    + intros a b Hab Ha. eapply bytes_leb_trans; [apply bytes_ltb_leb; exact Hab | exact Ha].
    + intros x Hx. apply Hc' in Hx. apply andb_true_iff in Hx as [Hx _].
      apply bytes_ltb_leb_false. exact Hx.
  - rewrite (filter_take_until (fun a b => bytes_ltb a b = true)).
    + apply filter_skip_while. intros x Hx. apply Hc' in Hx. apply andb_true_iff in Hx as [Hx _].
      apply bytes_leb_ltb_false. exact Hx.
    + apply skip_while_sorted. exact Hs.
    + intros a b Hab Ha. unfold bytes_geb in *. eapply bytes_leb_trans; [exact Ha | apply bytes_ltb_leb; exact Hab].
    + intros x Hx. apply Hc' in Hx. apply andb_true_iff in Hx as [_ Hx].
      unfold bytes_geb. apply bytes_ltb_leb_false. exact Hx.
Qed.

Definition scan_sel (globs : list bytes) (fok : bytes -> bool) (id : bytes) : bool := glob_test globs id && fok id.

Theorem scan_multi_exact globs fok limit (desc : bool) (ids : list bytes) :
  bsorted ids -> (forall p, In p globs -> prefix_ends_ff p = false) -> 1 <= limit ->
  let all := if desc then rev ids else ids in
  out_items (scan_multi globs fok limit false desc ids) = firstn (N.to_nat limit) (filter (scan_sel globs fok) all) /\
  out_count (scan_multi globs fok limit true desc ids) = N.min limit (N.of_nat (length (filter (scan_sel globs fok) all))).
Proof.
  intros Hs Hff Hl all. unfold scan_multi.
  destruct (walk_push_exact globs (fun id : bytes => id) fok limit (scan_visit globs desc ids) Hl) as [H1 H2].
  rewrite H1, H2.
  assert (E : filter (sel globs (fun id : bytes => id) fok) (scan_visit globs desc ids) = filter (scan_sel globs fok) all).
  { apply (scan_visit_filter globs desc ids (scan_sel globs fok) Hs Hff).
    intros x Hx. unfold scan_sel in Hx. apply andb_true_iff in Hx. tauto. }
  rewrite E. split; reflexivity.
Qed.

(* ---------- SEARCH (value index) with several MATCH patterns ---------- *)

Lemma ventry_ltb_trans a b c : ventry_ltb a b = true -> ventry_ltb b c = true -> ventry_ltb a c = true.
Proof.
  unfold ventry_ltb.
  destruct (bytes_cmp (fst a) (fst b)) eqn:E1; try discriminate;
  destruct (bytes_cmp (fst b) (fst c)) eqn:E2; try discriminate; intros H1 H2.
  - apply bytes_cmp_eq in E1. apply bytes_cmp_eq in E2. rewrite E1, E2, bytes_cmp_refl.
    eapply bytes_ltb_trans; eassumption.
  - apply bytes_cmp_eq in E1. rewrite E1, E2. reflexivity.
  - apply bytes_cmp_eq in E2. rewrite <- E2, E1. reflexivity.
  - rewrite (bytes_cmp_lt_trans _ _ _ E1 E2). reflexivity.
Qed.

Lemma ventry_ltb_pivot_r e v : ventry_ltb e (v, []) = bytes_ltb (fst e) v.
Proof.
  unfold ventry_ltb, bytes_ltb. cbn [fst snd].
  destruct (bytes_cmp (fst e) v); try reflexivity. destruct (snd e); reflexivity.
Qed.

Lemma ventry_ltb_pivot_l_lt e v : bytes_ltb v (fst e) = true -> ventry_ltb (v, []) e = true.
Proof. unfold ventry_ltb, bytes_ltb. cbn [fst snd]. destruct (bytes_cmp v (fst e)); congruence. Qed.

Lemma ventry_ltb_pivot_l_gt e v : bytes_ltb (fst e) v = true -> ventry_ltb (v, []) e = false.
Proof.
  intros H. unfold ventry_ltb. cbn [fst snd]. unfold bytes_ltb in H.
  rewrite (bytes_cmp_antisym (fst e) v). destruct (bytes_cmp (fst e) v); cbn; congruence.
Qed.

Definition vsorted (l : list ventry) : Prop := StronglySorted (fun a b => ventry_ltb a b = true) l.

Lemma search_visit_filter globs desc vs (P : ventry -> bool) :
  vsorted vs -> (forall p, In p globs -> prefix_ends_ff p = false) ->
  (forall e, P e = true -> glob_test globs (fst e) = true) ->
  filter P (search_visit globs desc vs) = filter P (if desc then rev vs else vs).
Proof.
  intros Hs Hff HP. unfold search_visit.
  pose proof (multi_covers globs desc Hff) as Hc. cbv zeta in Hc.
  destruct (multi_glob_parse globs desc) as [l0 l1]. cbn [fst snd] in Hc.
  destruct (isempty l0 && isempty l1) eqn:Ee; [reflexivity|].
  specialize (Hc eq_refl).
  assert (Hc' : forall e, P e = true -> covers desc l0 l1 (fst e) = true) by (intros x Hx; apply Hc, HP, Hx).
  clear Hc HP. unfold search_range_visit, covers in *.
  destruct desc.
  - rewrite (filter_take_until (fun a b => ventry_ltb b a = true)).
    + apply filter_skip_while. intros x Hx. apply Hc' in Hx. apply andb_true_iff in Hx as [_ Hx].
      apply ventry_ltb_pivot_l_gt. exact Hx.
    + apply skip_while_sorted. apply (sorted_rev (fun a b => ventry_ltb a b = true)). exact Hs.
    + intros a b Hab Ha. apply negb_true_iff in Ha. apply negb_true_iff.
      destruct (ventry_ltb (l1, []) b) eqn:Eb; [|reflexivity].
      rewrite (ventry_ltb_trans _ _ _ Eb Hab) in Ha. discriminate.
    + intros x Hx. apply Hc' in Hx. apply andb_true_iff in Hx as [Hx _].
      apply negb_false_iff. apply ventry_ltb_pivot_l_lt. exact Hx.
  - rewrite (filter_take_until (fun a b => ventry_ltb a b = true)).
    + apply filter_skip_while. intros x Hx. apply Hc' in Hx. apply andb_true_iff in Hx as [Hx _].
      rewrite ventry_ltb_pivot_r. apply bytes_leb_ltb_false. exact Hx.
    + apply skip_while_sorted. exact Hs.
    + intros a b Hab Ha. apply negb_true_iff in Ha. apply negb_true_iff.
      destruct (ventry_ltb b (l1, [])) eqn:Eb; [|reflexivity].
      rewrite (ventry_ltb_trans _ _ _ Hab Eb) in Ha. discriminate.
    + intros x Hx. apply Hc' in Hx. apply andb_true_iff in Hx as [_ Hx].
      apply negb_false_iff. rewrite ventry_ltb_pivot_r. exact Hx.
Qed.

Definition search_sel (globs : list bytes) (fok : ventry -> bool) (e : ventry) : bool := glob_test globs (fst e) && fok e.

(* every entry whose VALUE passes MATCH and whose fields pass the filter is returned (up to LIMIT),
   however many ids share one value *)
Theorem search_multi_exact globs fok limit (desc : bool) (vs : list ventry) :
  vsorted vs -> (forall p, In p globs -> prefix_ends_ff p = false) -> 1 <= limit ->
  let all := if desc then rev vs else vs in
  map snd (out_items (search_multi globs fok limit false desc vs)) =
    map snd (firstn (N.to_nat limit) (filter (search_sel globs fok) all)) /\
  out_count (search_multi globs fok limit true desc vs) = N.min limit (N.of_nat (length (filter (search_sel globs fok) all))).
Proof.
  intros Hs Hff Hl all. unfold search_multi.
  destruct (walk_push_exact globs (@fst bytes bytes) fok limit (search_visit globs desc vs) Hl) as [H1 H2].
  rewrite H1, H2.
  assert (E : filter (sel globs (@fst bytes bytes) fok) (search_visit globs desc vs) = filter (search_sel globs fok) all).
  { apply (search_visit_filter globs desc vs (search_sel globs fok) Hs Hff).
    intros x Hx. unfold search_sel in Hx. apply andb_true_iff in Hx. tauto. }
  rewrite E. split; reflexivity.
Qed.

(* the iteration-control results themselves: on values as on ids, a hit never ends the walk *)
Lemma test_object_keeps_going (globs : list bytes) (fok : ventry -> bool) (e : ventry) :
  glob_match_kg globs fst e = (glob_test globs (fst e), true) /\
  test_object globs fst fok e = (search_sel globs fok e, true).
Proof. split; [apply glob_match_kg_spec | apply test_object_spec]. Qed.

(* DESC only reverses, for any number of patterns and any field filter, when LIMIT does not cut *)
Corollary scan_multi_desc_rev globs fok limit ids :
  bsorted ids -> (forall p, In p globs -> prefix_ends_ff p = false) -> N.of_nat (length ids) < limit ->
  out_items (scan_multi globs fok limit false true ids) = rev (out_items (scan_multi globs fok limit false false ids)).
Proof.
  intros Hs Hff Hl.
  destruct (scan_multi_exact globs fok limit true ids Hs Hff ltac:(lia)) as [H1 _].
  destruct (scan_multi_exact globs fok limit false ids Hs Hff ltac:(lia)) as [H2 _].
  rewrite H1, H2.
  assert (Hlen : forall l : list bytes, (length (filter (scan_sel globs fok) l) <= length l)%nat).
  { induction l as [|x r IH]; cbn; [lia|]. destruct (scan_sel globs fok x); cbn; lia. }
  rewrite !firstn_all2.
  - clear. induction ids as [|x r IH]; cbn; [reflexivity|].
    rewrite filter_app, IH. cbn. destruct (scan_sel globs fok x); cbn; [reflexivity | rewrite app_nil_r; reflexivity].
  - specialize (Hlen ids). lia.
  - specialize (Hlen (rev ids)). rewrite rev_length in Hlen. lia.
Qed.

(* ---------- hooks and channels ---------- *)

Definition hsel (pattern : bytes) (channel : bool) (e : hentry) : bool :=
  Bool.eqb (snd e) channel && gmatches pattern (fst e).

Definition hsorted (l : list hentry) : Prop := StronglySorted (fun a b => bytes_ltb (fst a) (fst b) = true) l.

Lemma hook_walk_from_spec pattern lim1 has_upper channel l :
  hook_walk_from pattern lim1 has_upper channel l =
  map fst (filter (hsel pattern channel)
             (take_until (fun e : hentry => has_upper && bytes_gtb (fst e) lim1) l)).
Proof.
  induction l as [|e r IH]; cbn [hook_walk_from take_until]; [reflexivity|].
  destruct (has_upper && bytes_gtb (fst e) lim1); [reflexivity|].
  cbn [filter]. unfold hsel at 1.
  destruct (Bool.eqb (snd e) channel); cbn [andb]; [|exact IH].
  destruct (gmatches pattern (fst e)); cbn [map]; [f_equal; exact IH | exact IH].
Qed.

Theorem hook_walk_exact pattern channel entries :
  hsorted entries -> prefix_ends_ff pattern = false ->
  hook_walk pattern channel entries = map fst (filter (hsel pattern channel) entries).
Proof.
  intros Hs Hff. unfold hook_walk. rewrite hook_walk_from_spec. f_equal.
  assert (Hin : forall e, hsel pattern channel e = true ->
            unlimited (parse pattern false) = true \/
            (bytes_leb (g_lim0 (parse pattern false)) (fst e) = true /\
             bytes_ltb (fst e) (g_lim1 (parse pattern false)) = true)).
  { intros e He. unfold hsel in He. apply andb_true_iff in He as [_ He].
    destruct (parse_covers pattern false (fst e) He Hff) as [H|H]; [left; exact H|].
    right. unfold covers in H. apply andb_true_iff in H. exact H. }
  rewrite (filter_take_until (fun a b : hentry => bytes_ltb (fst a) (fst b) = true)).
  - apply filter_skip_while. intros e He. destruct (Hin e He) as [Hu|[H0 _]].
    + unfold unlimited in Hu. apply andb_true_iff in Hu as [Hu _].
      destruct (g_lim0 (parse pattern false)); [apply bytes_ltb_nil_r | discriminate].
    + apply bytes_leb_ltb_false. exact H0.
  - apply skip_while_sorted. exact Hs.
  - intros a b Hab Ha. apply andb_true_iff in Ha as [Hu Ha]. rewrite Hu. cbn [andb].
    unfold bytes_gtb in *. eapply bytes_ltb_trans; eassumption.
  - intros e He. destruct (Hin e He) as [Hu|[_ H1]].
    + unfold unlimited in Hu. apply andb_true_iff in Hu as [_ Hu]. rewrite Hu. reflexivity.
    + unfold bytes_gtb. rewrite (bytes_ltb_asym _ _ H1). apply andb_false_r.
Qed.

(* PDELHOOK / PDELCHAN: the reply counts exactly the selected entries and exactly those are gone *)
Theorem pdel_hooks_exact pattern channel entries :
  hsorted entries -> prefix_ends_ff pattern = false ->
  pdel_hooks pattern channel entries =
  (length (filter (hsel pattern channel) entries),
   filter (fun e => negb (hsel pattern channel e)) entries).
Proof.
  intros Hs Hff. unfold pdel_hooks. rewrite (hook_walk_exact _ _ _ Hs Hff).
  rewrite map_length. f_equal.
  apply filter_ext_in. intros e He. f_equal. unfold hsel at 2.
  destruct (Bool.eqb (snd e) channel) eqn:Ek; cbn [andb]; [|reflexivity].
  destruct (gmatches pattern (fst e)) eqn:Em.
  - apply existsb_exists. exists (fst e). split; [|apply bytes_eqb_refl].
    apply in_map. apply filter_In. split; [exact He|]. unfold hsel. rewrite Ek, Em. reflexivity.
  - destruct (existsb (bytes_eqb (fst e)) (map fst (filter (hsel pattern channel) entries))) eqn:Ex; [|reflexivity].
    apply existsb_exists in Ex as [n [Hn Heq]]. apply bytes_eqb_eq in Heq. subst n.
    apply in_map_iff in Hn as [e' [Hf He']]. apply filter_In in He' as [_ He'].
    unfold hsel in He'. apply andb_true_iff in He' as [_ He']. rewrite Hf in He'. congruence.
Qed.

(* ---------- the COUNT shortcut ---------- *)

Local Open Scope Z_scope.

Lemma zsum_b2z_filter (f : obj -> bool) (l : list obj) :
  zsum (fun o => b2z (f o)) l = Z.of_nat (length (filter f l)).
Proof.
  induction l as [|a l IH]; cbn [zsum fold_right filter]; [reflexivity|].
  unfold zsum in IH. rewrite IH. destruct (f a); cbn [b2z length]; lia.
Qed.

Lemma values_length c : Wf c ->
  length (search_values c) = length (filter (fun o => negb (o_spatial o)) (scan_ids c)).
Proof.
  intros W. unfold search_values, scan_ids. apply Permutation_length. apply NoDup_Permutation.
  - apply (NoDup_map_inv vkey). apply (ssorted_NoDup vkey vcmp order_vcmp). apply (wf_values_sorted c W).
  - apply NoDup_filter. apply (NoDup_map_inv o_id). apply (ssorted_NoDup o_id id_cmp order_bytes). apply (wf_objs c W).
  - intros o. rewrite (wf_values c W), filter_In. unfold in_values. tauto.
Qed.

Lemma counters_are_lengths c : Wf c ->
  cstring_count c = Z.of_nat (length (search_values c)) /\ ccount c = Z.of_nat (length (scan_ids c)).
Proof.
  intros W. destruct (counters_agree c W) as (Hc & Hsc & _). split; [|exact Hc].
  rewrite Hsc, zsum_b2z_filter, (values_length c W). reflexivity.
Qed.

Lemma shortcut_is_iter (n : nat) cursor limit (l : list obj) :
  n = length l -> shortcut_count (Z.of_nat n) cursor limit = iter_count l cursor limit.
Proof. intros ->. unfold shortcut_count, iter_count. rewrite <- nat_N_Z, N2Z.id. reflexivity. Qed.

(* after every history of Set / Delete the shortcut answers what the counting iteration would *)
Theorem count_shortcut_exact ops cursor limit :
  let c := run ops in
  search_count_shortcut c cursor limit = iter_count (search_values c) cursor limit /\
  scan_count_shortcut c cursor limit = iter_count (scan_ids c) cursor limit.
Proof.
  intros c. destruct (counters_are_lengths c (wf_run ops)) as [Hs Hc].
  unfold search_count_shortcut, scan_count_shortcut. rewrite Hs, Hc.
  split; apply shortcut_is_iter; reflexivity.
Qed.

(* ... and for any single step from a well-formed collection *)
Theorem count_shortcut_step c o id cursor limit : Wf c ->
  search_count_shortcut (cset c o) cursor limit = iter_count (search_values (cset c o)) cursor limit /\
  search_count_shortcut (cdelete c id) cursor limit = iter_count (search_values (cdelete c id)) cursor limit.
Proof.
  intros W. destruct (wf_preserved c o id W) as [W1 W2].
  destruct (counters_are_lengths _ W1) as [H1 _]. destruct (counters_are_lengths _ W2) as [H2 _].
  unfold search_count_shortcut. rewrite H1, H2. split; apply shortcut_is_iter; reflexivity.
Qed.
