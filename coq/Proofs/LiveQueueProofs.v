(* C07 — a live fence connection receives the writes on its key in log order (Model/LiveQueue.v). *)
From Coq Require Import String List NArith Bool Arith.
From T38 Require Import Model.Queues Proofs.QueuesFifoProofs Gen.Mutators Model.LiveQueue.
Import ListNotations.
Open Scope list_scope.

(* what the source does now: both slices are appended to at the back and read at the front *)
Lemma source_is_fifo : d_lstack = fifo /\ d_details = fifo.
Proof. vm_compute. split; reflexivity. Qed.

Lemma lstepD_fifo s ev : lstepD fifo fifo s ev = lstep s ev.
Proof.
  destruct ev as [b k|b|k d| |b]; cbn [lstepD lstep fifo q_push q_pop push_back pop_front]; try reflexivity.
  - destruct (lv_stack s) as [|[k d] r]; reflexivity.
  - destruct (lv_details s b) as [|d r]; reflexivity.
Qed.

Lemma lrunD_fifo evs : forall s, lrunD fifo fifo s evs = lrun s evs.
Proof.
  induction evs as [|ev r IH]; intros s; [reflexivity|].
  unfold lrunD, lrun in *. cbn [fold_left]. rewrite lstepD_fifo. apply IH.
Qed.

(* any history of registrations, logged writes (in log order), processLives steps and deliveries,
   any interleaving: what a connection registered on key k has received, followed by what is still
   on its way, is exactly the writes on k logged since its registration, in log order, once *)
Theorem live_log_order : forall pre evs b k,
  let s0 := lstepD d_lstack d_details (lrunD d_lstack d_details lv_init pre) (LReg b k) in
  untouched b pre = true -> untouched b evs = true ->
  lv_view (lrunD d_lstack d_details s0 evs) b k = lv_view s0 b k ++ writes_on k evs.
Proof.
  destruct source_is_fifo as [E1 E2]. rewrite E1, E2. intros pre evs b k.
  cbv zeta. rewrite !lrunD_fifo, lstepD_fifo. apply live_fifo.
Qed.

(* ... in particular the socket never carries two writes in the opposite order of the log *)
Corollary live_out_is_prefix : forall pre evs b k,
  let s0 := lstepD d_lstack d_details (lrunD d_lstack d_details lv_init pre) (LReg b k) in
  untouched b pre = true -> untouched b evs = true -> lv_view s0 b k = [] ->
  exists rest, writes_on k evs = lv_out (lrunD d_lstack d_details s0 evs) b ++ rest.
Proof.
  intros pre evs b k s0 Hp He H0. pose proof (live_log_order pre evs b k Hp He) as H. fold s0 in H.
  rewrite H0 in H. cbn [app] in H. rewrite <- H. unfold lv_view. eexists. reflexivity.
Qed.

(* the statement is about the discipline: taking the newest item first delivers two pending writes
   in the opposite order of the log *)
Lemma lifo_reorders :
  let lifo := mkDisc true false in
  let evs := [LWrite 7%N 1%N; LWrite 7%N 2%N; LProc; LProc; LDeliver 0; LDeliver 0] in
  let s0 := lstepD lifo fifo lv_init (LReg 0 7%N) in
  lv_out (lrunD lifo fifo s0 evs) 0 = [2%N; 1%N] /\ writes_on 7%N evs = [1%N; 2%N].
Proof. vm_compute. split; reflexivity. Qed.
