(* Proofs/SearchProofs.v — the spatial index neither loses nor invents results (C02). *)
From Coq Require Import ZifyN ZifyNat ZifyBool.
From Flocq Require Import BinarySingleNaN.
From T38 Require Import Base.Bytes Model.Float32 Model.Collection Model.Search
  Proofs.Float32Proofs Proofs.CollectionProofs.
Import ListNotations.

Arguments down : simpl never.
Arguments up : simpl never.
Arguments rtree_rect : simpl never.
Arguments lt32 : simpl never.
Arguments le32 : simpl never.

(* the float64 bounding rectangles overlap, as Go's comparisons evaluate it (false on NaN) *)
Definition overlap64 (a b : rect64) : Prop :=
  le64 (r64_minx a) (r64_maxx b) = true /\ le64 (r64_minx b) (r64_maxx a) = true /\
  le64 (r64_miny a) (r64_maxy b) = true /\ le64 (r64_miny b) (r64_maxy a) = true.

Lemma le32_not_lt (x y : f32) : le32 x y = true -> lt32 y x = false.
Proof.
  unfold le32, lt32. rewrite (Bcompare_swap 24 128 x y).
  destruct (Bcompare x y) as [[| |]|]; cbn; auto; discriminate.
Qed.

Lemma le32_nonnan_l (x y : f32) : le32 x y = true -> is_nan32 x = false.
Proof. unfold le32. destruct x; cbn; auto. Qed.

Lemma overlap_rounded (a b : rect64) : overlap64 a b ->
  intersects32 (rtree_rect a) (rtree_rect b) = true /\ is_nan32 (r32_minx (rtree_rect b)) = false.
Proof.
  intros (H1 & H2 & H3 & H4).
  pose proof (round_monotone _ _ H1) as R1. pose proof (round_monotone _ _ H2) as R2.
  pose proof (round_monotone _ _ H3) as R3. pose proof (round_monotone _ _ H4) as R4.
  unfold intersects32, gt32, rtree_rect. cbn [r32_minx r32_miny r32_maxx r32_maxy].
  rewrite (le32_not_lt _ _ R2), (le32_not_lt _ _ R1), (le32_not_lt _ _ R4), (le32_not_lt _ _ R3).
  cbn. split; auto. apply (le32_nonnan_l _ _ R2).
Qed.

Lemma filter_map_filter {A B} (f : B -> bool) (g : A -> bool) (p : A -> B) (l : list A) :
  (forall e, In e l -> f (p e) = true -> g e = true) ->
  filter f (map p (filter g l)) = filter f (map p l).
Proof.
  induction l as [|a l IH]; intros H; cbn; auto.
  destruct (g a) eqn:G; cbn.
  - rewrite IH; auto. intros e He. apply H. right; auto.
  - destruct (f (p a)) eqn:F.
    + rewrite (H a (or_introl eq_refl) F) in G. discriminate.
    + apply IH. intros e He. apply H. right; auto.
Qed.

Lemma filter_nil {A} (f : A -> bool) (l : list A) : (forall x, In x l -> f x = false) -> filter f l = [].
Proof.
  induction l as [|a l IH]; intros H; cbn; auto.
  rewrite (H a (or_introl eq_refl)). apply IH. intros x Hx. apply H. right; auto.
Qed.

Lemma geo_search_incl sp qr o : In o (geo_search sp qr) -> In o (map snd sp).
Proof.
  unfold geo_search. destruct (_ && _ && _ && _); [intros []|].
  intros H. apply in_map_iff in H. destruct H as [e [E H]]. apply filter_In in H.
  apply in_map_iff. exists e. tauto.
Qed.

Section Search.
  Variable Q : Type.
  Variable qrect : Q -> rect64.
  Variable hits : obj -> Q -> bool.

  (* the index returns exactly the spatially indexed objects that satisfy the predicate *)
  Lemma search_exact c q : Wf c ->
    (forall o, hits o q = true -> overlap64 (o_rect o) (qrect q)) ->
    search Q qrect hits c q = filter (fun o => hits o q) (spatial_list c).
  Proof.
    intros W Hrect. unfold search, geo_search, spatial_list.
    destruct (is_nan32 (r32_minx (rtree_rect (qrect q))) && _ && _ && _) eqn:G.
    - cbn. symmetry. apply filter_nil. intros o Ho.
      destruct (hits o q) eqn:Hh; auto. exfalso.
      destruct (overlap_rounded _ _ (Hrect o Hh)) as [_ Hn]. rewrite Hn in G. discriminate.
    - apply filter_map_filter. intros e He Hh.
      pose proof (proj1 (wf_spatial c W e) He) as (_ & _ & Hitem).
      rewrite Hitem. cbn [fst rtree_item].
      apply (overlap_rounded _ _ (Hrect _ Hh)).
  Qed.

  (* ... which, when strings and empty geometries never satisfy it, are all the retrievable
     objects that satisfy it (what TEST evaluates for every id) *)
  Lemma search_spec_equiv c q : Wf c ->
    (forall o, hits o q = true -> overlap64 (o_rect o) (qrect q)) ->
    (forall o, hits o q = true -> o_spatial o = true /\ o_empty o = false) ->
    (forall o, In o (search Q qrect hits c q) <-> In o (search_spec Q hits c q)) /\
    NoDup (map o_id (search Q qrect hits c q)).
  Proof.
    intros W Hrect Hkind. rewrite (search_exact c q W Hrect).
    destruct (paths_agree c W) as (P1 & _ & P3 & _ & _ & _ & ND & _).
    split.
    - intros o. unfold search_spec. rewrite !filter_In, P3, P1. split.
      + intros [(G & _) Hh]. auto.
      + intros [G Hh]. destruct (Hkind o Hh). auto.
    - assert (F : forall l, NoDup (map o_id l) -> NoDup (map o_id (filter (fun o => hits o q) l))).
      { induction l as [|a l IH]; cbn; auto. intros N. inversion N; subst.
        destruct (hits a q); cbn; auto. constructor; auto.
        intros Hin. apply H1. apply in_map_iff in Hin. destruct Hin as [b [E Hb]].
        apply filter_In in Hb. apply in_map_iff. exists b. tauto. }
      apply F. exact ND.
  Qed.

  (* The same with the hypotheses restricted to what the code can rely on: non-empty geometries.
     TEST's helper (test_hits) answers false for empty geometries itself, so no assumption about the
     library's answer on empty geometries is left. *)
  Lemma search_exact_indexed c q : Wf c ->
    (forall o, In o (spatial_list c) -> hits o q = true -> overlap64 (o_rect o) (qrect q)) ->
    search Q qrect hits c q = filter (fun o => hits o q) (spatial_list c).
  Proof.
    intros W Hrect. unfold search, geo_search, spatial_list in *.
    destruct (is_nan32 (r32_minx (rtree_rect (qrect q))) && _ && _ && _) eqn:G.
    - cbn. symmetry. apply filter_nil. intros o Ho.
      destruct (hits o q) eqn:Hh; auto. exfalso.
      destruct (overlap_rounded _ _ (Hrect o Ho Hh)) as [_ Hn]. rewrite Hn in G. discriminate.
    - apply filter_map_filter. intros e He Hh.
      pose proof (proj1 (wf_spatial c W e) He) as (_ & _ & Hitem).
      rewrite Hitem. cbn [fst rtree_item].
      apply (overlap_rounded (o_rect (snd e)) (qrect q)). apply Hrect; auto.
      apply in_map. exact He.
  Qed.

  Lemma search_equals_test c q : Wf c ->
    (forall o, o_empty o = false -> hits o q = true -> overlap64 (o_rect o) (qrect q)) ->
    (forall o, o_empty o = false -> hits o q = true -> o_spatial o = true) ->
    (forall o, In o (search Q qrect hits c q) <-> In o (test_spec Q hits c q)) /\
    NoDup (map o_id (search Q qrect hits c q)).
  Proof.
    intros W Hrect Hkind.
    destruct (paths_agree c W) as (P1 & _ & P3 & _ & _ & _ & ND & _).
    rewrite (search_exact_indexed c q W).
    2:{ intros o Ho Hh. apply P3 in Ho. destruct Ho as (_ & _ & He). apply Hrect; auto. }
    split.
    - intros o. unfold test_spec, test_hits. rewrite !filter_In, P3, P1. split.
      + intros [(G & _ & He) Hh]. rewrite He. auto.
      + intros [G Hh]. destruct (o_empty o) eqn:He; [discriminate|].
        pose proof (Hkind o He Hh). auto.
    - assert (F : forall l, NoDup (map o_id l) -> NoDup (map o_id (filter (fun o => hits o q) l))).
      { induction l as [|a l IH]; cbn; auto. intros N. inversion N; subst.
        destruct (hits a q); cbn; auto. constructor; auto.
        intros Hin. apply H1. apply in_map_iff in Hin. destruct Hin as [b [E Hb]].
        apply filter_In in Hb. apply in_map_iff. exists b. tauto. }
      apply F. exact ND.
  Qed.

  (* ---- SPARSE only thins ---- *)
  Variable leaves : rect64 -> nat -> list rect64.

  Lemma mem_In id l : mem id l = true <-> In id l.
  Proof.
    induction l as [|x l IH]; cbn; [split; [discriminate | intros []]|].
    rewrite orb_true_iff, IH, bytes_eqb_eq. tauto.
  Qed.

  Definition sinv (sp : list (rect32 * obj)) (q : Q) (matched : list bytes) (out : list obj) : Prop :=
    matched = map o_id out /\ NoDup matched /\
    forall o, In o out -> hits o q = true /\ In o (map snd sp).

  Lemma leaf_scan_inv sp q cands : (forall o, In o cands -> In o (map snd sp)) ->
    forall matched out, sinv sp q matched out ->
    let '(m1, o1, _) := leaf_scan Q hits q cands matched out in sinv sp q m1 o1.
  Proof.
    induction cands as [|o r IH]; intros Hc matched out I; cbn; auto.
    destruct (mem (o_id o) matched) eqn:M.
    - apply IH; auto. intros x Hx. apply Hc. right; auto.
    - destruct (hits o q) eqn:Hh; auto.
      destruct I as (I1 & I2 & I3). split; [|split].
      + cbn. congruence.
      + constructor; auto. intros Hin. apply mem_In in Hin. congruence.
      + intros x [<-|Hx]; auto. split; auto. apply Hc. left; auto.
  Qed.

  Lemma sparse_loop_inv sp q ls : forall matched out, sinv sp q matched out ->
    exists m, sinv sp q m (sparse_loop Q hits sp q ls matched out).
  Proof.
    induction ls as [|l r IH]; intros matched out I; cbn; [eauto|].
    pose proof (leaf_scan_inv sp q (geo_search sp l) (fun o => geo_search_incl sp l o) matched out I) as L.
    destruct (leaf_scan Q hits q (geo_search sp l) matched out) as [[m1 o1] alive].
    destruct alive; eauto.
  Qed.

  Lemma sparse_sound c q n : Wf c ->
    (forall o, In o (sparse_search Q qrect hits leaves c q n) ->
       hits o q = true /\ In o (spatial_list c)) /\
    NoDup (map o_id (sparse_search Q qrect hits leaves c q n)).
  Proof.
    intros W. unfold sparse_search.
    destruct (sparse_loop_inv (c_spatial c) q (leaves (qrect q) n) [] []) as [m (I1 & I2 & I3)].
    { split; [reflexivity|]. split; [constructor|]. intros o []. }
    split.
    - intros o Ho. apply in_rev in Ho. apply I3 in Ho. exact Ho.
    - rewrite map_rev. apply NoDup_rev. rewrite <- I1. exact I2.
  Qed.
End Search.

(* all-NaN query rectangle: geoSearch returns at once *)
Lemma nan_guard sp qr :
  is_nan (r64_minx qr) = true -> is_nan (r64_miny qr) = true ->
  is_nan (r64_maxx qr) = true -> is_nan (r64_maxy qr) = true -> geo_search sp qr = [].
Proof.
  destruct qr as [a b c d]. cbn [r64_minx r64_miny r64_maxx r64_maxy].
  intros Ha Hb Hc Hd.
  destruct a; try discriminate. destruct b; try discriminate.
  destruct c; try discriminate. destruct d; try discriminate. reflexivity.
Qed.

(* "outward rounding" in the literal sense (down x <= x <= up x) is NOT what the code guarantees:
   it fails for subnormal doubles below the float32 range and for finite doubles above it *)
Lemma enclosure_refuted :
  (exists x : f64, is_nan x = false /\ le64 (to64 (down x)) x = false) /\
  (exists x : f64, is_nan x = false /\ le64 x (to64 (up x)) = false).
Proof.
  split.
  - (* x = MaxFloat64: down x = +Inf *)
    exists (f64_of_bits 9218868437227405311). split; vm_compute; reflexivity.
  - (* x = 5e-324: up x = 0 *)
    exists (f64_of_bits 1). split; vm_compute; reflexivity.
Qed.

(* a concrete instance of the hypotheses of search_exact: hits = bounding boxes overlap *)
Definition box_hits (o : obj) (q : rect64) : bool :=
  o_spatial o && negb (o_empty o) &&
  le64 (r64_minx (o_rect o)) (r64_maxx q) && le64 (r64_minx q) (r64_maxx (o_rect o)) &&
  le64 (r64_miny (o_rect o)) (r64_maxy q) && le64 (r64_miny q) (r64_maxy (o_rect o)).

Lemma box_hits_overlap o q : box_hits o q = true -> overlap64 (o_rect o) q.
Proof.
  unfold box_hits, overlap64. intros H.
  repeat (apply andb_true_iff in H; destruct H as [H ?]). auto.
Qed.

Lemma box_hits_kind o q : box_hits o q = true -> o_spatial o = true /\ o_empty o = false.
Proof.
  unfold box_hits. intros H.
  repeat (apply andb_true_iff in H; destruct H as [H ?]). split; auto.
  destruct (o_empty o); auto; discriminate.
Qed.

(* The second oracle hypothesis of search_spec_equiv (only non-empty geometries satisfy the
   predicate) cannot be dropped: a predicate that is vacuously true on an empty geometry — as
   tidwall/geojson's Circle.Contains is for an empty FeatureCollection — makes TEST hold for an
   object the index never holds (known finding C02-empty-in-circle). *)
Definition vacuous_hits (o : obj) (q : rect64) : bool := o_empty o || box_hits o q.

Definition empty_fc : obj := Obj [108]%N true true 0 1 [] 0 (rect64_of_bits 0 0 0 0).

Lemma kind_hypothesis_needed :
  exists c q, Wf c /\
    (forall o, In o (scan_ids c) -> vacuous_hits o q = true -> overlap64 (o_rect o) q) /\
    In empty_fc (search_spec rect64 vacuous_hits c q) /\
    search rect64 (fun q => q) vacuous_hits c q = [].
Proof.
  exists (run [OSet empty_fc]), (rect64_of_bits 0 0 0 0).
  split; [apply wf_run|]. split; [|split].
  - intros o [<-|[]] _. vm_compute. repeat split; reflexivity.
  - vm_compute. left. reflexivity.
  - vm_compute. reflexivity.
Qed.

(* SPARSE with the quad split geoSparseInner performs *)
Lemma sparse_sound_quads (Q : Type) (qrect : Q -> rect64) (hits : obj -> Q -> bool) c q n : Wf c ->
  (forall o, In o (sparse_search Q qrect hits quad_leaves c q n) ->
     hits o q = true /\ In o (spatial_list c)) /\
  NoDup (map o_id (sparse_search Q qrect hits quad_leaves c q n)).
Proof. apply sparse_sound. Qed.

Lemma quad_leaves_length r n : length (quad_leaves r n) = Nat.pow 4 n.
Proof.
  revert r. induction n as [|n IH]; intros r; [reflexivity|].
  cbn [quad_leaves quads flat_map]. rewrite !app_length, !IH. cbn [length]. cbn [Nat.pow]. lia.
Qed.

(* sparse = 0 leaves the query rectangle alone *)
Lemma quad_leaves_0 r : quad_leaves r 0 = [r].
Proof. reflexivity. Qed.
