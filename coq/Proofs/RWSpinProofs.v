(* Mutual exclusion of the rwspinlock model for every schedule. *)
From Coq Require Import List ZArith Bool Lia.
From T38 Require Import Model.RWSpin.
Import ListNotations.
Open Scope Z_scope.

Definition b2z (b : bool) : Z := if b then 1 else 0.

Lemma count_cons f t l : count f (t :: l) = b2z (f t) + count f l.
Proof. unfold count; cbn. destruct (f t); cbn [b2z length]; lia. Qed.

Lemma count_set_nth f : forall l i t t',
  nth_error l i = Some t -> count f (set_nth i t' l) = count f l - b2z (f t) + b2z (f t').
Proof.
  induction l as [|x l IH]; intros [|i] t t' H; cbn in H; try discriminate.
  - inversion H; subst. unfold set_nth; cbn. rewrite !count_cons. lia.
  - unfold set_nth in *; cbn. rewrite !count_cons.
    specialize (IH i t t' H). cbn in IH. rewrite IH. lia.
Qed.

Lemma count_nonneg f l : 0 <= count f l.
Proof. unfold count; lia. Qed.

Lemma count_pos f : forall l i t, nth_error l i = Some t -> f t = true -> 1 <= count f l.
Proof.
  induction l as [|x l IH]; intros [|i] t H Hf; cbn in H; try discriminate.
  - inversion H; subst. rewrite count_cons, Hf. pose proof (count_nonneg f l). unfold b2z; lia.
  - rewrite count_cons. specialize (IH i t H Hf). destruct (f x); unfold b2z; lia.
Qed.

Definition Inv (s : sys) : Prop :=
  panicked s = false /\
  ((lockstate s = -1 /\ writers s = 1 /\ readers s = 0) \/
   (lockstate s = readers s /\ writers s = 0)).

Lemma inv_init n : Inv (init n).
Proof.
  unfold Inv, init, writers, readers, count; cbn. split; [reflexivity|]. right.
  assert (H : forall f, (forall t, t = Idle -> f t = false) -> filter f (repeat Idle n) = []).
  { intros f Hf. induction n as [|n IH]; cbn; [reflexivity|]. rewrite (Hf Idle eq_refl). exact IH. }
  rewrite !H; [cbn; lia | intros t ->; reflexivity | intros t ->; reflexivity].
Qed.

Lemma step_inv s i c : Inv s -> Inv (step s i c).
Proof.
  intros [Hp Hs]. unfold step.
  destruct (nth_error (threads s) i) as [t|] eqn:Et; [|split; assumption].
  pose proof (count_set_nth is_inw (threads s) i t) as Cw.
  pose proof (count_set_nth is_inr (threads s) i t) as Cr.
  specialize (fun t' => Cw t' Et). specialize (fun t' => Cr t' Et).
  unfold Inv, writers, readers in *. cbn [lockstate threads panicked].
  destruct t as [| [v|] | | [v|] | ]; cbn [lockstate threads panicked].
  - (* Idle *)
    destruct c; rewrite Cw, Cr, Hp; cbn; (split; [reflexivity|]); destruct Hs as [Hs|Hs]; [left|right|left|right]; lia.
  - (* WantW (Some v) *)
    destruct ((v =? 0) && (lockstate s =? v)) eqn:E; cbn [lockstate threads panicked]; rewrite Cw, Cr, Hp; cbn.
    + split; [reflexivity|]. apply andb_true_iff in E as [E1 E2].
      apply Z.eqb_eq in E1, E2. destruct Hs as [Hs|Hs]; [lia|]. left. lia.
    + split; [reflexivity|]. destruct Hs as [Hs|Hs]; [left|right]; lia.
  - (* WantW None *)
    rewrite Cw, Cr, Hp; cbn. split; [reflexivity|]. destruct Hs as [Hs|Hs]; [left|right]; lia.
  - (* InW: Unlock *)
    rewrite Cw, Cr, Hp; cbn.
    pose proof (count_pos is_inw (threads s) i InW Et eq_refl) as Hw.
    destruct Hs as [Hs|Hs]; [|lia].
    destruct Hs as [H1 [H2 H3]]. rewrite H1. cbn. split; [reflexivity|]. right. lia.
  - (* WantR (Some v) *)
    destruct ((0 <=? v) && (lockstate s =? v)) eqn:E; cbn [lockstate threads panicked]; rewrite Cw, Cr, Hp; cbn.
    + split; [reflexivity|]. apply andb_true_iff in E as [E1 E2].
      apply Z.leb_le in E1. apply Z.eqb_eq in E2. destruct Hs as [Hs|Hs]; [lia|]. right. lia.
    + split; [reflexivity|]. destruct Hs as [Hs|Hs]; [left|right]; lia.
  - (* WantR None *)
    rewrite Cw, Cr, Hp; cbn. split; [reflexivity|]. destruct Hs as [Hs|Hs]; [left|right]; lia.
  - (* InR: RUnlock *)
    rewrite Cw, Cr, Hp; cbn.
    pose proof (count_pos is_inr (threads s) i InR Et eq_refl) as Hr.
    destruct Hs as [Hs|Hs]; [lia|].
    destruct Hs as [H1 H2].
    assert (Hn : (lockstate s - 1 <? 0) = false) by (apply Z.ltb_ge; lia).
    rewrite Hn. split; [reflexivity|]. right. lia.
Qed.

Theorem run_inv n sched : Inv (run (init n) sched).
Proof.
  unfold run. generalize (inv_init n). generalize (init n).
  induction sched as [|[i c] sched IH]; intros s Hs; cbn [fold_left]; [exact Hs|].
  apply IH. apply step_inv. exact Hs.
Qed.

(* the user-facing reading of the invariant *)
Theorem rwspin_exclusion n sched :
  let s := run (init n) sched in
  panicked s = false /\
  (writers s = 0 \/ (writers s = 1 /\ readers s = 0)) /\
  (lockstate s = -1 <-> writers s = 1) /\
  (0 <= lockstate s -> lockstate s = readers s).
Proof.
  cbn zeta. pose proof (run_inv n sched) as [Hp Hs].
  pose proof (count_nonneg is_inr (threads (run (init n) sched))) as Hr.
  unfold readers, writers in *.
  split; [exact Hp|]. destruct Hs as [[H1 [H2 H3]]|[H1 H2]]; repeat split; try lia.
Qed.

(* non-vacuity: two threads; one gets the write lock, the other spins, then gets it after the unlock *)
Example rwspin_example :
  let s := run (init 2) [(0%nat, GoW); (0%nat, GoW); (0%nat, GoW); (1%nat, GoW); (1%nat, GoW); (1%nat, GoW)] in
  nth_error (threads s) 0 = Some InW /\ nth_error (threads s) 1 = Some (WantW None) /\ lockstate s = -1.
Proof. vm_compute. repeat split. Qed.
