(* Scripts over the concurrency model (Model/Script.v): for every handler semantics, every set of
   per-connection programs (plain commands and scripts of every variant, scripts being call
   STRATEGIES) and every schedule,

     - the dataset is what start-up computes from the log, at every instant (also in the middle of a
       script and after a script was aborted by a failing call);
     - the log is exactly the successful updating write calls, in the order they were made;
     - the events of a request whose lock switch took the exclusive lock (EVAL, EVALSHA, every write
       command) are contiguous in the history up to steps of threads that hold no server lock, its
       records are contiguous in the log, and everything any other locked step observes contains
       all or none of them;
     - a request that starts under a script table without a write arm (EVALRO, EVALROSHA) never
       changes the dataset or the log;
     - while a thread holds the exclusive lock - for a whole EVAL, or for one call of an EVALNA
       script - no other thread's step touches the dataset, the log or the lock.

   The locks, arms, refusals and logging flags are read from Gen/LockTable.v, Gen/ScriptTables.v,
   Gen/Dispatch.v and Gen/Mutators.v; the facts needed about them are computed here over the whole
   tables (vm_compute) and lifted to every command string. *)
From Coq Require Import String List Bool Arith Lia.
From T38 Require Import Base.Bytes Model.Resp Model.Aof Proofs.AofProofs.
From T38 Require Import Model.Tables Gen.LockTable Gen.Dispatch Gen.ScriptTables Gen.Mutators
  Model.Gate Model.Replay Model.Script Proofs.GateProofs.
Import ListNotations.
Local Open Scope string_scope.
Local Open Scope list_scope.
Local Open Scope nat_scope.

(* ---------------------------------------------------------------------------------------- *)
(* lists *)

Lemma Forall_snoc {A} (P : A -> Prop) l x : Forall P l -> P x -> Forall P (l ++ [x]).
Proof. intros Hl Hx. apply Forall_app. split; [exact Hl | constructor; [exact Hx | constructor]]. Qed.

Lemma Forall_snoc_inv {A} (P : A -> Prop) l x : Forall P (l ++ [x]) -> Forall P l /\ P x.
Proof. intros H. apply Forall_app in H as [H1 H2]. inversion H2; subst. split; assumption. Qed.

Lemma in_snoc {A} (x y : A) l : In x (l ++ [y]) -> In x l \/ x = y.
Proof. intros H. apply in_app_or in H as [H|[H|[]]]; [left; exact H | right; symmetry; exact H]. Qed.

Lemma flat_map_snoc {A B} (f : A -> list B) l x : flat_map f (l ++ [x]) = flat_map f l ++ f x.
Proof. rewrite flat_map_app. cbn. rewrite app_nil_r. reflexivity. Qed.

Lemma firstn_le_app {A} n (l x : list A) : n <= length l -> firstn n (l ++ x) = firstn n l.
Proof.
  intros H. rewrite firstn_app. replace (n - length l) with 0 by lia. cbn. apply app_nil_r.
Qed.

Lemma count_remove_one_same t l : In t l -> count_occ Nat.eq_dec (remove_one t l) t = pred (count_occ Nat.eq_dec l t).
Proof.
  induction l as [|x l IH]; cbn; [tauto|]. intros Hin.
  destruct (Nat.eqb_spec x t) as [->|Hne].
  - destruct (Nat.eq_dec t t); [reflexivity | congruence].
  - destruct Hin as [Hx|Hin]; [congruence|]. cbn.
    destruct (Nat.eq_dec x t); [congruence | exact (IH Hin)].
Qed.

Lemma count_remove_one_other t u l : u <> t -> count_occ Nat.eq_dec (remove_one t l) u = count_occ Nat.eq_dec l u.
Proof.
  intros Hne. induction l as [|x l IH]; cbn; [reflexivity|].
  destruct (Nat.eqb_spec x t) as [->|Hx].
  - destruct (Nat.eq_dec t u); [congruence | reflexivity].
  - cbn. destruct (Nat.eq_dec x u); rewrite IH; reflexivity.
Qed.

(* ---------------------------------------------------------------------------------------- *)
(* locks *)

Lemma lockk_eqb_eq a b : lockk_eqb a b = true <-> a = b.
Proof. destruct a, b; cbn; split; congruence. Qed.

Lemma lmax_none_r l : lmax l LNone = l.
Proof. destruct l; reflexivity. Qed.

Lemma lmax_none_l l : lmax LNone l = l.
Proof. destruct l; reflexivity. Qed.

(* ---------------------------------------------------------------------------------------- *)
(* the regenerated tables *)

Lemma arm_of_in t c : In (arm_of t c) (t_default t :: t_arms t).
Proof.
  unfold arm_of. destruct (find_arm (t_arms t) c) as [a|] eqn:Ef; [right | left; reflexivity].
  induction (t_arms t) as [|x l IH]; cbn in *; [discriminate|].
  destruct (in_strs c (a_cmds x)); [inversion Ef; left; reflexivity | right; apply IH; exact Ef].
Qed.

Lemma assoc_in {A} (l : list (string * A)) k v : assoc l k = Some v -> In (k, v) l.
Proof.
  induction l as [|[k' v'] l IH]; cbn; [discriminate|].
  destruct (String.eqb_spec k' k) as [->|]; [intros H; inversion H; left; reflexivity | intros H; right; exact (IH H)].
Qed.

Lemma find_handler_spec hs c h : find_handler hs c = Some h -> In h hs /\ h_cmd h = c.
Proof.
  induction hs as [|x hs IH]; cbn; [discriminate|].
  destruct (String.eqb_spec (h_cmd x) c) as [E|E].
  - intros H; inversion H; subst. split; [left; reflexivity | reflexivity].
  - intros H. destruct (IH H) as [Hi Hc]. split; [right; exact Hi | exact Hc].
Qed.

(* an arm of handleInputCommand that logs takes the exclusive lock *)
Lemma top_write_arm_excl c : a_write (arm_of lock_table c) = true -> a_lock (arm_of lock_table c) = LExcl.
Proof.
  assert (Hw : forallb (fun a => implb (a_write a) (lockk_eqb (a_lock a) LExcl))
                 (t_default lock_table :: t_arms lock_table) = true) by (vm_compute; reflexivity).
  rewrite forallb_forall in Hw. intros H. specialize (Hw _ (arm_of_in lock_table c)).
  rewrite H in Hw. cbn in Hw. apply lockk_eqb_eq. exact Hw.
Qed.

(* in every script variant, an arm that logs runs under the exclusive lock: the one the command that
   started the script took, or the one the arm takes itself *)
Lemma script_write_arm_excl v t c :
  assoc script_variant v = Some t ->
  a_write (arm_of t c) && t_logs_on_write t = true ->
  lmax (a_lock (arm_of lock_table v)) (a_lock (arm_of t c)) = LExcl.
Proof.
  assert (Hw : forallb (fun vt => forallb (fun a => implb (a_write a && t_logs_on_write (snd vt))
                   (lockk_eqb (lmax (a_lock (arm_of lock_table (fst vt))) (a_lock a)) LExcl))
                   (t_default (snd vt) :: t_arms (snd vt))) script_variant = true) by (vm_compute; reflexivity).
  rewrite forallb_forall in Hw. intros Hv H. specialize (Hw _ (assoc_in _ _ _ Hv)). cbn [fst snd] in Hw.
  rewrite forallb_forall in Hw. specialize (Hw _ (arm_of_in t c)).
  rewrite H in Hw. cbn in Hw. apply lockk_eqb_eq. exact Hw.
Qed.

(* in every script variant, a sub-command whose handler can change the dataset and that is let
   through falls into an arm that logs *)
Lemma variant_logged v t : assoc script_variant v = Some t -> forall c, script_logged_check t c = true.
Proof.
  assert (Hw : forallb (fun vt => forallb (script_logged_check (snd vt)) (map h_cmd dispatch_script)) script_variant = true)
    by (vm_compute; reflexivity).
  rewrite forallb_forall in Hw. intros Hv. specialize (Hw _ (assoc_in _ _ _ Hv)). cbn [snd] in Hw.
  apply (lift_dispatch dispatch_script); [exact Hw|].
  intros c He _. unfold script_logged_check, changes_script. rewrite He. reflexivity.
Qed.

(* start-up sends a logged sub-command through Server.command: same handler as commandInScript *)
Lemma script_handler_is_top_handler c h :
  find_handler dispatch_script c = Some h -> exists h', find_handler dispatch c = Some h' /\ h_fn h' = h_fn h.
Proof.
  assert (Hw : forallb (fun h => match find_handler dispatch (h_cmd h) with
                                 | Some h' => String.eqb (h_fn h') (h_fn h) | None => false end) dispatch_script = true)
    by (vm_compute; reflexivity).
  rewrite forallb_forall in Hw. intros H. destruct (find_handler_spec _ _ _ H) as [Hi Hc].
  specialize (Hw _ Hi). rewrite Hc in Hw.
  destruct (find_handler dispatch c) as [h'|]; [|discriminate].
  exists h'. split; [reflexivity | apply String.eqb_eq; exact Hw].
Qed.

(* the script tables without a write arm, and the commands that start a script under them *)
Definition table_never_logs (t : table) : bool :=
  forallb (fun a => negb (a_write a && t_logs_on_write t)) (t_default t :: t_arms t).

Definition starts_script (v : string) : bool :=
  match find_handler dispatch v with Some h => String.eqb (h_fn h) eval_handler | None => false end.

Lemma evalro_tables :
  forallb (fun v => starts_script v && negb (in_strs v dev_only) &&
                    match assoc script_variant v with Some t => table_never_logs t | None => false end)
          ["evalro"; "evalrosha"] = true.
Proof. vm_compute. reflexivity. Qed.

Lemma eval_takes_excl :
  forallb (fun v => starts_script v && lockk_eqb (a_lock (arm_of lock_table v)) LExcl) ["eval"; "evalsha"] = true.
Proof. vm_compute. reflexivity. Qed.

Lemma evalna_takes_none :
  forallb (fun v => starts_script v && lockk_eqb (a_lock (arm_of lock_table v)) LNone &&
                    match assoc script_variant v with
                    | Some t => forallb (fun a => implb (a_write a) (lockk_eqb (a_lock a) LExcl)) (t_default t :: t_arms t)
                    | None => false end) ["evalna"; "evalnasha"] = true.
Proof. vm_compute. reflexivity. Qed.

(* ======================================================================================== *)
Section ScriptProofs.
Variables S val herr : Type.
Variable cname : cmd -> string.
Variable handler : string -> S -> cmd -> S * (val + herr) * bool.
Variable e : env.
Variable s0 : S.

(* a command that fails or reports "not updated" leaves the dataset as it was
   (for the keyspace model of C01 this is c01_error_changes_nothing / c03ks_noupd) *)
Hypothesis h_noupd : forall fn s c s' r upd,
  handler fn s c = (s', r, upd) -> is_ok r && upd = false -> s' = s.
(* what Gen/Mutators.v means: a handler from which no mutation of the dataset is reachable does
   not change the dataset *)
Hypothesis h_pure : forall fn s c s' r upd,
  handler fn s c = (s', r, upd) -> touches dataset_structs (fn_effects fn) = false -> s' = s.

Notation gstate := (gstate S val herr).
Notation effect := (effect S val herr).
Notation event := (event S val herr).
Notation tstate := (tstate val herr).
Notation plan := (plan cname handler e).
Notation sstep := (sstep cname handler e).
Notation srun := (srun cname handler e).
Notation call_body := (call_body cname handler e).
Notation exec_top := (exec_top cname handler).
Notation replay_log := (replay_log cname handler).
Notation outer_lock := (outer_lock cname).
Notation outerh := (outerh cname).

(* ---------------------------------------------------------------------------------------- *)
(* a step that does not log leaves the dataset unchanged *)

Lemma top_unlogged nm h s c s' r upd :
  find_handler dispatch nm = Some h -> in_strs nm dev_only = false ->
  handler (h_fn h) s c = (s', r, upd) ->
  a_write (arm_of lock_table nm) && t_logs_on_write lock_table && is_ok r && upd = false -> s' = s.
Proof.
  intros Hf Hd Hh Hl.
  destruct (is_ok r && upd) eqn:Eok; [|exact (h_noupd _ _ _ _ _ _ Hh Eok)].
  apply (h_pure _ _ _ _ _ _ Hh).
  pose proof (every_change_logged nm) as L. unfold logged_check in L. rewrite Hd in L. cbn [negb] in L.
  rewrite andb_true_r in L.
  assert (Hw : a_write (arm_of lock_table nm) && t_logs_on_write lock_table = false).
  { destruct (a_write (arm_of lock_table nm) && t_logs_on_write lock_table); [|reflexivity].
    rewrite <- andb_assoc in Hl. rewrite Eok in Hl. discriminate. }
  rewrite Hw in L. unfold changes, handler_effects in L. rewrite Hf in L.
  destruct (touches dataset_structs (fn_effects (h_fn h))); [discriminate | reflexivity].
Qed.

Lemma script_unlogged v t c h s cm s' r upd :
  assoc script_variant v = Some t -> in_strs c script_deny = false -> a_reject (arm_of t c) = RNo ->
  find_handler dispatch_script c = Some h -> handler (h_fn h) s cm = (s', r, upd) ->
  a_write (arm_of t c) && t_logs_on_write t && is_ok r && upd = false -> s' = s.
Proof.
  intros Hv Hd Hr Hf Hh Hl.
  destruct (is_ok r && upd) eqn:Eok; [|exact (h_noupd _ _ _ _ _ _ Hh Eok)].
  apply (h_pure _ _ _ _ _ _ Hh).
  pose proof (variant_logged v t Hv c) as L. unfold script_logged_check in L. rewrite Hd, Hr in L. cbn [orb] in L.
  assert (Hw : a_write (arm_of t c) && t_logs_on_write t = false).
  { destruct (a_write (arm_of t c) && t_logs_on_write t); [|reflexivity].
    rewrite <- andb_assoc in Hl. rewrite Eok in Hl. discriminate. }
  rewrite Hw in L. unfold changes_script, handler_effects in L. rewrite Hf in L.
  destruct (touches dataset_structs (fn_effects (h_fn h))); [discriminate | reflexivity].
Qed.

(* ---------------------------------------------------------------------------------------- *)
(* what a step does, by cases *)

Definition pc_ok (ts : tstate) : Prop :=
  match t_pc ts with
  | PCallHeld prot c k t a =>
      assoc script_variant (cname (t_cmd ts)) = Some t /\ a = arm_of t (cname c) /\
      in_strs (cname c) script_deny = false /\ a_reject a = RNo
  | _ => True
  end.

Definition int_kind (k : ekind S val herr) : bool :=
  match k with KEnter | KExec _ _ _ _ _ _ | KRefused _ _ | KAns _ => true | _ => false end.

Definition eff_ok (g : gstate) (f : effect) : Prop :=
  (f_rec f = None -> f_shared f = shared g) /\
  (forall c, f_rec f = Some c -> f_shared f = fst (exec_top (shared g) c) /\ f_held f = LExcl) /\
  match f_kind f with
  | KExec c seen after r upd logged =>
      seen = shared g /\ after = f_shared f /\ f_rec f = (if logged then Some c else None) /\
      (logged = true -> is_ok r = true /\ upd = true)
  | _ => f_rec f = None
  end.

Lemma exec_top_same c h' s s' r upd :
  find_handler dispatch (cname c) = Some h' -> handler (h_fn h') s c = (s', r, upd) -> fst (exec_top s c) = s'.
Proof. intros Hf Hh. unfold Script.exec_top. rewrite Hf, Hh. reflexivity. Qed.

Lemma call_body_spec v t s prot c k kd s' rc p' :
  assoc script_variant v = Some t -> in_strs (cname c) script_deny = false ->
  a_reject (arm_of t (cname c)) = RNo ->
  call_body s prot c k t (arm_of t (cname c)) = (kd, s', rc, p') ->
  (rc = None -> s' = s) /\
  (forall c', rc = Some c' -> s' = fst (exec_top s c') /\
                              lmax (a_lock (arm_of lock_table v)) (a_lock (arm_of t (cname c))) = LExcl) /\
  int_kind kd = true /\
  match kd with
  | KExec c0 seen after r upd logged =>
      seen = s /\ after = s' /\ rc = (if logged then Some c0 else None) /\
      (logged = true -> is_ok r = true /\ upd = true)
  | _ => rc = None
  end.
Proof.
  intros Hv Hd Hr. unfold Script.call_body.
  destruct (arm_verdict (arm_of t (cname c)) e) as [er|].
  { intros H; inversion H; subst.
    split; [reflexivity|]. split; [intros c' Hc; discriminate|]. split; reflexivity. }
  destruct (find_handler dispatch_script (cname c)) as [h|] eqn:Ef.
  2:{ intros H; inversion H; subst.
    split; [reflexivity|]. split; [intros c' Hc; discriminate|]. split; reflexivity. }
  destruct (handler (h_fn h) s c) as [[s1 r] upd] eqn:Eh.
  intros H; inversion H; subst; clear H.
  destruct (a_write (arm_of t (cname c)) && t_logs_on_write t && is_ok r && upd) eqn:El.
  - split; [discriminate|]. split; [|split; [reflexivity|]].
    + intros c' Hc; inversion Hc; subst c'. split.
      * destruct (script_handler_is_top_handler _ _ Ef) as [h' [Hf' Hfn]].
        symmetry. apply (exec_top_same c h' s s' r upd Hf'). rewrite Hfn. exact Eh.
      * apply (script_write_arm_excl v t (cname c) Hv).
        destruct (a_write (arm_of t (cname c)) && t_logs_on_write t); [reflexivity | discriminate].
    + split; [reflexivity|]. split; [reflexivity|]. split; [reflexivity|]. intros _. split.
      * destruct (is_ok r); [reflexivity|]. rewrite andb_false_r in El. discriminate.
      * destruct upd; [reflexivity|]. rewrite andb_false_r in El. discriminate.
  - split; [|split; [intros c' Hc; discriminate|split; [reflexivity|]]].
    + intros _. exact (script_unlogged v t (cname c) h s c s' r upd Hv Hd Hr Ef Eh El).
    + split; [reflexivity|]. split; [reflexivity|]. split; [reflexivity|]. intros Hx; discriminate.
Qed.

Section Class.
Variable g : gstate.
Variable u : nat.
Let ts := th g u.
Let nm := cname (t_cmd ts).
Let ol := outer_lock (t_cmd ts).

Inductive sclass (f : effect) : Prop :=
| SCstart q rest :
    t_pc ts = PIdle -> t_todo ts = q :: rest ->
    can_acquire (wr g) (rd g) (outer_lock (q_cmd q)) = true ->
    f_ts f = mkT rest (t_rid ts) 0 (q_cmd q) (PEntered (q_prog q)) ->
    f_name f = cname (q_cmd q) -> f_kind f = KStart (outer_lock (q_cmd q)) ->
    f_held f = outer_lock (q_cmd q) -> f_lock f = LAcq (outer_lock (q_cmd q)) ->
    f_shared f = shared g -> f_rec f = None -> sclass f
| SCacq prot c k t a :
    t_pc ts = PScript (Call prot c k) -> a_lock a <> LNone ->
    can_acquire (wr g) (rd g) (a_lock a) = true ->
    f_ts f = set_pc ts (PCallHeld prot c k t a) -> pc_ok (f_ts f) ->
    f_name f = nm -> f_kind f = KAcq (a_lock a) -> f_held f = lmax ol (a_lock a) ->
    f_lock f = LAcq (a_lock a) -> f_shared f = shared g -> f_rec f = None -> sclass f
| SCrel l p :
    t_pc ts = PCallRel l p -> f_ts f = next_call ts (PScript p) ->
    f_name f = nm -> f_kind f = KRel l -> f_held f = lmax ol l -> f_lock f = LRel l ->
    f_shared f = shared g -> f_rec f = None -> sclass f
| SCend :
    t_pc ts = PLeave -> f_ts f = mkT (t_todo ts) (Datatypes.S (t_rid ts)) 0 [] PIdle ->
    f_name f = nm -> f_kind f = KEnd ol -> f_held f = ol -> f_lock f = LRel ol ->
    f_shared f = shared g -> f_rec f = None -> sclass f
| SCint :
    t_pc ts <> PIdle -> t_pc (f_ts f) <> PIdle -> t_rid (f_ts f) = t_rid ts ->
    t_cmd (f_ts f) = t_cmd ts -> t_todo (f_ts f) = t_todo ts ->
    innerh (f_ts f) = innerh ts -> pc_ok (f_ts f) ->
    f_name f = nm -> f_lock f = LKeep -> f_held f = lmax ol (innerh ts) ->
    int_kind (f_kind f) = true -> eff_ok g f -> sclass f.

Lemma sclass_eff_ok f : sclass f -> eff_ok g f.
Proof.
  intros [q rest ? ? ? ? ? Hk ? ? Hs Hr | prot c k t a ? ? ? ? ? ? Hk ? ? Hs Hr | l p ? ? ? Hk ? ? Hs Hr
         | ? ? ? Hk ? ? Hs Hr | ? ? ? ? ? ? ? ? ? ? ? H]; try exact H;
    unfold eff_ok; rewrite Hk, Hr; (split; [intros _; exact Hs | split; [intros c0 Hc; discriminate | reflexivity]]).
Qed.

Ltac int_leaf Epc :=
  apply SCint; cbn [f_ts f_name f_kind f_held f_lock f_shared f_rec set_pc next_call t_pc t_rid t_cmd t_todo t_cid];
  fold ts; rewrite ?Epc;
  try discriminate; try reflexivity; try exact I.

Lemma plan_class f : pc_ok ts -> plan g u = Some f -> sclass f.
Proof.
  intros Hok. unfold Script.plan. fold ts. fold nm. fold ol.
  destruct (t_pc ts) as [|p|p|prot c k t a|l p|] eqn:Epc.
  - (* PIdle *)
    destruct (t_todo ts) as [|q rest] eqn:Et; [discriminate|].
    destruct (can_acquire (wr g) (rd g) (Script.outer_lock cname (q_cmd q))) eqn:Ec; [|discriminate].
    intros H; inversion H; subst f; clear H.
    eapply SCstart; try reflexivity; eassumption.
  - (* PEntered *)
    assert (Hin : innerh ts = LNone) by (unfold innerh; rewrite Epc; reflexivity).
    destruct (arm_verdict (arm_of lock_table nm) e) as [er|].
    { intros H; inversion H; subst f; clear H. int_leaf Epc.
      - unfold innerh; rewrite Epc; reflexivity.
      - rewrite Hin, lmax_none_r. reflexivity.
      - unfold eff_ok; cbn. split; [reflexivity|]. split; [intros c0 Hc0; discriminate | reflexivity]. }
    destruct (in_strs nm dev_only) eqn:Edev.
    { intros H; inversion H; subst f; clear H. int_leaf Epc.
      - unfold innerh; rewrite Epc; reflexivity.
      - rewrite Hin, lmax_none_r. reflexivity.
      - unfold eff_ok; cbn. split; [reflexivity|]. split; [intros c0 Hc0; discriminate | reflexivity]. }
    destruct (find_handler dispatch nm) as [h|] eqn:Ef.
    2:{ intros H; inversion H; subst f; clear H. int_leaf Epc.
      - unfold innerh; rewrite Epc; reflexivity.
      - rewrite Hin, lmax_none_r. reflexivity.
      - unfold eff_ok; cbn. split; [reflexivity|]. split; [intros c0 Hc0; discriminate | reflexivity]. }
    destruct (String.eqb (h_fn h) eval_handler).
    { intros H; inversion H; subst f; clear H. int_leaf Epc.
      - unfold innerh; rewrite Epc; reflexivity.
      - rewrite Hin, lmax_none_r. reflexivity.
      - unfold eff_ok; cbn. split; [reflexivity|]. split; [intros c0 Hc0; discriminate | reflexivity]. }
    destruct (handler (h_fn h) (shared g) (t_cmd ts)) as [[s1 r] upd] eqn:Eh.
    remember (a_write (arm_of lock_table nm) && t_logs_on_write lock_table && is_ok r && upd) as lg eqn:El.
    symmetry in El.
    intros H; inversion H; subst f; clear H. int_leaf Epc.
    + unfold innerh; rewrite Epc; reflexivity.
    + rewrite Hin, lmax_none_r. reflexivity.
    + unfold eff_ok; cbn [f_rec f_shared f_kind f_held].
      destruct lg; cbv beta iota.
      * split; [discriminate|]. split.
        -- intros c0 Hc; inversion Hc; subst c0. split.
           ++ symmetry. exact (exec_top_same _ _ _ _ _ _ Ef Eh).
           ++ apply top_write_arm_excl.
              apply andb_true_iff in El as [El _]. apply andb_true_iff in El as [El _].
              apply andb_true_iff in El as [El _]. exact El.
        -- split; [reflexivity|]. split; [reflexivity|]. split; [reflexivity|]. intros _. split.
           ++ destruct (is_ok r); [reflexivity|]. rewrite andb_false_r in El. discriminate.
           ++ destruct upd; [reflexivity|]. rewrite andb_false_r in El. discriminate.
      * split; [|split; [intros c0 Hc; discriminate|]].
        -- intros _. exact (top_unlogged nm h _ _ _ _ _ Ef Edev Eh El).
        -- split; [reflexivity|]. split; [reflexivity|]. split; [reflexivity|]. intros Hx; discriminate.
  - (* PScript *)
    assert (Hin : innerh ts = LNone) by (unfold innerh; rewrite Epc; reflexivity).
    destruct p as [v|er|prot c k].
    { intros H; inversion H; subst f; clear H. int_leaf Epc.
      - unfold innerh; rewrite Epc; reflexivity.
      - rewrite Hin, lmax_none_r. reflexivity.
      - unfold eff_ok; cbn. split; [reflexivity|]. split; [intros c0 Hc0; discriminate | reflexivity]. }
    { intros H; inversion H; subst f; clear H. int_leaf Epc.
      - unfold innerh; rewrite Epc; reflexivity.
      - rewrite Hin, lmax_none_r. reflexivity.
      - unfold eff_ok; cbn. split; [reflexivity|]. split; [intros c0 Hc0; discriminate | reflexivity]. }
    assert (Hrefuse : forall er f,
      Some (mkEff (next_call ts (PScript (resume prot (inr er) k))) nm (KRefused c er) ol LKeep (shared g) None) = Some f ->
      sclass f).
    { intros er f0 H; inversion H; subst f0; clear H. int_leaf Epc.
      - unfold innerh; rewrite Epc; reflexivity.
      - rewrite Hin, lmax_none_r. reflexivity.
      - unfold eff_ok; cbn. split; [reflexivity|]. split; [intros c0 Hc0; discriminate | reflexivity]. }
    destruct (in_strs (cname c) script_deny) eqn:Ed; [apply Hrefuse|].
    destruct (assoc script_variant nm) as [t|] eqn:Ev; [|apply Hrefuse].
    destruct (a_reject (arm_of t (cname c))) eqn:Er; [|apply Hrefuse|apply Hrefuse].
    destruct (a_lock (arm_of t (cname c))) eqn:Elk.
    + destruct (can_acquire (wr g) (rd g) LExcl) eqn:Ec; [|discriminate].
      intros H; inversion H; subst f; clear H.
      eapply (SCacq _ prot c k t (arm_of t (cname c))); cbn [f_ts f_name f_kind f_held f_lock f_shared f_rec];
        rewrite ?Elk; try reflexivity; try assumption; try discriminate.
      unfold pc_ok; cbn. fold ts. fold nm. repeat split; assumption.
    + destruct (can_acquire (wr g) (rd g) LShared) eqn:Ec; [|discriminate].
      intros H; inversion H; subst f; clear H.
      eapply (SCacq _ prot c k t (arm_of t (cname c))); cbn [f_ts f_name f_kind f_held f_lock f_shared f_rec];
        rewrite ?Elk; try reflexivity; try assumption; try discriminate.
      unfold pc_ok; cbn. fold ts. fold nm. repeat split; assumption.
    + destruct (call_body (shared g) prot c k t (arm_of t (cname c))) as [[[kd s1] rc] p'] eqn:Eb.
      intros H; inversion H; subst f; clear H.
      destruct (call_body_spec nm t _ _ _ _ _ _ _ _ Ev Ed Er Eb) as [B1 [B2 [B3 B4]]].
      int_leaf Epc.
      * unfold innerh; rewrite Epc; reflexivity.
      * rewrite Hin, lmax_none_r. reflexivity.
      * exact B3.
      * unfold eff_ok; cbn [f_rec f_shared f_kind f_held]. split; [exact B1|]. split.
        -- intros c' Hc. destruct (B2 c' Hc) as [Hs Hl]. split; [exact Hs|].
           rewrite Elk, lmax_none_r in Hl. exact Hl.
        -- destruct kd; try exact B4.
  - (* PCallHeld *)
    unfold pc_ok in Hok. rewrite Epc in Hok. destruct Hok as [Ev [Ha [Ed Er]]]. subst a. fold nm in Ev.
    destruct (call_body (shared g) prot c k t (arm_of t (cname c))) as [[[kd s1] rc] p'] eqn:Eb.
    intros H; inversion H; subst f; clear H.
    destruct (call_body_spec nm t _ _ _ _ _ _ _ _ Ev Ed Er Eb) as [B1 [B2 [B3 B4]]].
    int_leaf Epc.
    + unfold innerh; rewrite Epc; reflexivity.
    + unfold innerh; rewrite Epc; reflexivity.
    + exact B3.
    + unfold eff_ok; cbn [f_rec f_shared f_kind f_held]. split; [exact B1|]. split.
      * intros c' Hc. destruct (B2 c' Hc) as [Hs Hl]. split; [exact Hs | exact Hl].
      * destruct kd; try exact B4.
  - (* PCallRel *)
    intros H; inversion H; subst f; clear H. eapply SCrel; try reflexivity. exact Epc.
  - (* PLeave *)
    intros H; inversion H; subst f; clear H. eapply SCend; try reflexivity. exact Epc.
Qed.

End Class.

Lemma sstep_cases (g : gstate) u : sstep g u = g \/ exists f, plan g u = Some f /\ sstep g u = commit g u f.
Proof. unfold Script.sstep. destruct (plan g u) as [f|]; [right; exists f; split; reflexivity | left; reflexivity]. Qed.

(* ---------------------------------------------------------------------------------------- *)
(* the server lock and what the threads think they hold *)

Definition exh (ts : tstate) : bool := lockk_eqb (outerh ts) LExcl || lockk_eqb (innerh ts) LExcl.
Definition nsh (ts : tstate) : nat :=
  (if lockk_eqb (outerh ts) LShared then 1 else 0) + (if lockk_eqb (innerh ts) LShared then 1 else 0).

Record LockInv (g : gstate) : Prop := mkLI {
  li_pc : forall t, pc_ok (th g t);
  li_ex : forall t, exh (th g t) = true -> wr g = Some t;
  li_wr : forall t, wr g = Some t -> rd g = [];
  li_sh : forall t, count_occ Nat.eq_dec (rd g) t = nsh (th g t);
  li_nest : forall t, (outerh (th g t) = LExcl -> innerh (th g t) = LNone) /\
                      (innerh (th g t) = LExcl -> outerh (th g t) = LNone) }.

Lemma outerh_nonidle (ts : tstate) : t_pc ts <> PIdle -> outerh ts = outer_lock (t_cmd ts).
Proof. unfold Script.outerh. destruct (t_pc ts); [congruence | reflexivity..]. Qed.

Lemma th_commit_same (g : gstate) u (f : effect) : th (commit g u f) u = f_ts f.
Proof.
  unfold Script.commit. destruct (lock_after (wr g) (rd g) u (f_lock f)). cbn. unfold Script.set_th.
  rewrite Nat.eqb_refl. reflexivity.
Qed.

Lemma th_commit_other (g : gstate) u (f : effect) t : t <> u -> th (commit g u f) t = th g t.
Proof.
  intros Hne. unfold Script.commit. destruct (lock_after (wr g) (rd g) u (f_lock f)). cbn. unfold Script.set_th.
  destruct (Nat.eqb_spec t u); [congruence | reflexivity].
Qed.

Lemma locks_commit (g : gstate) u (f : effect) : (wr (commit g u f), rd (commit g u f)) = lock_after (wr g) (rd g) u (f_lock f).
Proof. unfold Script.commit. destruct (lock_after (wr g) (rd g) u (f_lock f)). reflexivity. Qed.

Lemma shared_commit (g : gstate) u (f : effect) : shared (commit g u f) = f_shared f.
Proof. unfold Script.commit. destruct (lock_after (wr g) (rd g) u (f_lock f)). reflexivity. Qed.

Lemma log_commit (g : gstate) u (f : effect) :
  log (commit g u f) = log g ++ match f_rec f with Some c => [mkRec u (t_rid (th g u)) c] | None => [] end.
Proof. unfold Script.commit. destruct (lock_after (wr g) (rd g) u (f_lock f)). reflexivity. Qed.

Definition new_event (g : gstate) (u : nat) (f : effect) : event :=
  mkEv u (t_rid (th g u)) (t_cid (th g u)) (f_name f) (f_held f) (length (log g)) (f_kind f).

Lemma hist_commit (g : gstate) u (f : effect) : hist (commit g u f) = hist g ++ [new_event g u f].
Proof. unfold Script.commit. destruct (lock_after (wr g) (rd g) u (f_lock f)). reflexivity. Qed.

(* how the two lock levels of the stepping thread change, per class *)
Lemma class_holds g u f :
  sclass g u f ->
  let ts := th g u in
  match f_lock f with
  | LKeep => outerh (f_ts f) = outerh ts /\ innerh (f_ts f) = innerh ts
  | LAcq l =>
      can_acquire (wr g) (rd g) l = true /\
      ((outerh ts = LNone /\ innerh ts = LNone /\ outerh (f_ts f) = l /\ innerh (f_ts f) = LNone) \/
       (innerh ts = LNone /\ outerh (f_ts f) = outerh ts /\ innerh (f_ts f) = l))
  | LRel l =>
      (innerh ts = l /\ outerh (f_ts f) = outerh ts /\ innerh (f_ts f) = LNone) \/
      (outerh ts = l /\ innerh ts = LNone /\ outerh (f_ts f) = LNone /\ innerh (f_ts f) = LNone)
  end.
Proof.
  intros [q rest Hpc Ht Hc Hts _ _ _ Hl _ _ | prot c k t a Hpc Hn Hc Hts _ _ _ _ Hl _ _ | l p Hpc Hts _ _ _ Hl _ _
         | Hpc Hts _ _ _ Hl _ _ | Hpc Hpc' Hr Hcm Htd Hin _ _ Hl _ _ _]; cbn zeta; rewrite Hl.
  - split; [exact Hc|]. left. unfold Script.outerh, Script.innerh. rewrite Hpc, Hts. cbn. repeat split; reflexivity.
  - split; [exact Hc|]. right. unfold Script.outerh, Script.innerh. rewrite Hpc, Hts. cbn. repeat split; reflexivity.
  - left. unfold Script.outerh, Script.innerh. rewrite Hpc, Hts. cbn. repeat split; reflexivity.
  - right. unfold Script.outerh, Script.innerh. rewrite Hpc, Hts. cbn. repeat split; reflexivity.
  - split; [|exact Hin]. rewrite (outerh_nonidle _ Hpc), (outerh_nonidle _ Hpc'), Hcm. reflexivity.
Qed.

Lemma can_excl w r : can_acquire w r LExcl = true -> w = None /\ r = [].
Proof. destruct w, r; cbn; try discriminate. split; reflexivity. Qed.

Lemma can_shared w r : can_acquire w r LShared = true -> w = None.
Proof. destruct w; cbn; [discriminate | reflexivity]. Qed.

Lemma exh_false_nsh0 (ts : tstate) : exh ts = false -> nsh ts = 0 -> outerh ts = LNone /\ innerh ts = LNone.
Proof. unfold exh, nsh. destruct (outerh ts), (innerh ts); cbn; try discriminate; split; reflexivity. Qed.

Lemma lockinv_commit g u f : LockInv g -> sclass g u f -> LockInv (commit g u f).
Proof.
  intros [Ipc Iex Iwr Ish Inest] Hc.
  pose proof (class_holds g u f Hc) as Hh. cbn zeta in Hh.
  pose proof (locks_commit g u f) as Hlk.
  assert (Hpc' : pc_ok (f_ts f)).
  { destruct Hc as [q rest ? ? ? Hts | ? ? ? ? ? ? ? ? ? H | l p ? Hts | ? Hts | ? ? ? ? ? ? H]; try exact H;
      unfold pc_ok; rewrite Hts; exact I. }
  assert (Hth : forall t, th (commit g u f) t = if Nat.eqb t u then f_ts f else th g t).
  { intros t. destruct (Nat.eqb_spec t u) as [->|Hne]; [apply th_commit_same | apply th_commit_other; exact Hne]. }
  set (ts := th g u) in *.
  set (o := outerh ts) in *. set (i := innerh ts) in *.
  set (o' := outerh (f_ts f)) in *. set (i' := innerh (f_ts f)) in *.
  pose proof (Iex u) as Iexu. pose proof (Ish u) as Ishu. pose proof (Inest u) as Inestu.
  unfold exh, nsh in Iexu, Ishu. fold ts in Iexu, Ishu, Inestu. fold o i in Iexu, Ishu, Inestu.
  assert (Hother_ex : forall t, t <> u -> exh (th g t) = true -> wr g = Some u -> False).
  { intros t Hne He Hw. rewrite (Iex t He) in Hw. congruence. }
  (* the new lock state *)
  pose proof (f_equal fst Hlk) as Hw'. pose proof (f_equal snd Hlk) as Hr'. cbn [fst snd] in Hw', Hr'. clear Hlk.
  constructor.
  - intros t. rewrite Hth. destruct (Nat.eqb t u); [exact Hpc' | apply Ipc].
  - (* li_ex *)
    intros t. rewrite Hth. destruct (Nat.eqb_spec t u) as [->|Hne].
    + unfold exh. fold o' i'. intros He.
      destruct (f_lock f) as [|l|l]; cbn in Hw'.
      * destruct Hh as [-> ->]. rewrite Hw'. apply Iexu. exact He.
      * destruct Hh as [Hcan [[Ho [Hi [-> ->]]]|[Hi [-> ->]]]].
        -- destruct l; cbn in He; try discriminate. cbn in Hw'. exact Hw'.
        -- destruct l; cbn in Hw'.
           ++ exact Hw'.
           ++ rewrite Hw'. apply Iexu. rewrite Hi. cbn in He |- *. rewrite orb_false_r in *. exact He.
           ++ rewrite Hw'. apply Iexu. rewrite Hi. exact He.
      * destruct Hh as [[Hi [-> ->]]|[Ho [Hi [-> ->]]]]; [|cbn in He; discriminate].
        cbn in He. rewrite orb_false_r in He. apply lockk_eqb_eq in He.
        destruct l; cbn in Hw'.
        -- (* releasing an exclusive call lock while the outer lock is exclusive: excluded *)
           destruct Inestu as [N1 _]. specialize (N1 He). rewrite Hi in N1. discriminate.
        -- rewrite Hw'. apply Iexu. rewrite He. reflexivity.
        -- rewrite Hw'. apply Iexu. rewrite He. reflexivity.
    + intros He. pose proof (Iex t He) as Hwt.
      destruct (f_lock f) as [|l|l]; cbn in Hw'.
      * rewrite Hw'. exact Hwt.
      * destruct Hh as [Hcan _]. destruct l; cbn in Hw'.
        -- apply can_excl in Hcan as [Hn _]. congruence.
        -- rewrite Hw'. exact Hwt.
        -- rewrite Hw'. exact Hwt.
      * destruct l; cbn in Hw'; [|rewrite Hw'; exact Hwt..].
        exfalso. apply (Hother_ex t Hne He). apply Iexu.
        destruct Hh as [[Hi _]|[Ho _]]; [rewrite Hi | rewrite Ho]; cbn; [apply orb_true_r | reflexivity].
  - (* li_wr *)
    intros t Hwt. rewrite Hw' in Hwt. rewrite Hr'.
    destruct (f_lock f) as [|l|l]; cbn in Hwt |- *.
    + apply (Iwr t Hwt).
    + destruct Hh as [Hcan _]. destruct l; cbn in Hwt |- *.
      * apply can_excl in Hcan as [_ Hn]. exact Hn.
      * apply can_shared in Hcan. congruence.
      * apply (Iwr t Hwt).
    + destruct l; cbn in Hwt |- *; [discriminate | | apply (Iwr t Hwt)].
      rewrite (Iwr t Hwt). reflexivity.
  - (* li_sh *)
    intros t. rewrite Hth, Hr'. destruct (Nat.eqb_spec t u) as [->|Hne].
    + unfold nsh. fold o' i'.
      destruct (f_lock f) as [|l|l]; cbn.
      * destruct Hh as [-> ->]. exact Ishu.
      * destruct Hh as [Hcan [[Ho [Hi [-> ->]]]|[Hi [-> ->]]]].
        -- rewrite Ho, Hi in Ishu. cbn in Ishu. destruct l; cbn.
           ++ exact Ishu.
           ++ destruct (Nat.eq_dec u u); [|congruence]. rewrite Ishu. reflexivity.
           ++ exact Ishu.
        -- rewrite Hi in Ishu. cbn in Ishu. destruct l; cbn.
           ++ rewrite Ishu. reflexivity.
           ++ destruct (Nat.eq_dec u u); [|congruence]. rewrite Ishu. lia.
           ++ rewrite Ishu. reflexivity.
      * destruct Hh as [[Hi [-> ->]]|[Ho [Hi [-> ->]]]].
        -- rewrite Hi in Ishu. destruct l; cbn in Ishu |- *.
           ++ rewrite Ishu. reflexivity.
           ++ rewrite count_remove_one_same.
              ** rewrite Ishu. lia.
              ** apply (count_occ_In Nat.eq_dec). rewrite Ishu. lia.
           ++ rewrite Ishu. reflexivity.
        -- rewrite Ho, Hi in Ishu. destruct l; cbn in Ishu |- *.
           ++ rewrite Ishu. reflexivity.
           ++ rewrite count_remove_one_same.
              ** rewrite Ishu. reflexivity.
              ** apply (count_occ_In Nat.eq_dec). rewrite Ishu. lia.
           ++ exact Ishu.
    + destruct (f_lock f) as [|l|l]; cbn; [apply Ish | |].
      * destruct l; cbn; [apply Ish | | apply Ish].
        destruct (Nat.eq_dec u t); [congruence | apply Ish].
      * destruct l; cbn; [apply Ish | | apply Ish].
        rewrite count_remove_one_other; [apply Ish | exact Hne].
  - (* li_nest *)
    intros t. rewrite Hth. destruct (Nat.eqb_spec t u) as [->|Hne]; [|apply Inest].
    fold o' i'. destruct (f_lock f) as [|l|l].
    + destruct Hh as [-> ->]. exact Inestu.
    + destruct Hh as [Hcan [[Ho [Hi [-> ->]]]|[Hi [-> ->]]]]; [split; [reflexivity | discriminate]|].
      split.
      * intros Ho. assert (Hwu : wr g = Some u) by (apply Iexu; rewrite Ho; reflexivity).
        destruct l; [apply can_excl in Hcan as [Hn _]; congruence | apply can_shared in Hcan; congruence | reflexivity].
      * intros Hl. subst l. apply can_excl in Hcan as [Hw0 Hn].
        rewrite Hn, Hi in Ishu. cbn in Ishu. destruct o; cbn in Ishu; try reflexivity; try discriminate.
        assert (Hwu : wr g = Some u) by (apply Iexu; reflexivity). congruence.
    + destruct Hh as [[Hi [-> ->]]|[Ho [Hi [-> ->]]]]; split; try reflexivity; try discriminate.
Qed.

(* while a thread holds the server lock exclusively, a step of any other thread holds no lock *)
Lemma other_step_free (g : gstate) t u f :
  LockInv g -> wr g = Some t -> u <> t -> sclass g u f ->
  f_held f = LNone /\ f_lock f <> LAcq LExcl /\ f_lock f <> LAcq LShared /\
  f_lock f <> LRel LExcl /\ f_lock f <> LRel LShared.
Proof.
  intros [Ipc Iex Iwr Ish Inest] Hw Hne Hc.
  assert (Hnone : outerh (th g u) = LNone /\ innerh (th g u) = LNone).
  { apply exh_false_nsh0.
    - destruct (exh (th g u)) eqn:E; [|reflexivity]. rewrite (Iex u E) in Hw. congruence.
    - rewrite <- Ish, (Iwr t Hw). reflexivity. }
  destruct Hnone as [Ho Hi].
  destruct Hc as [q rest Hpc Ht Hcan Hts _ _ Hh Hl _ _ | prot c k tb a Hpc Hn Hcan Hts _ _ _ Hh Hl _ _
                 | l p Hpc Hts _ _ Hh Hl _ _ | Hpc Hts _ _ Hh Hl _ _ | Hpc Hpc' Hr Hcm Htd Hin _ _ Hl Hh _ _].
  - rewrite Hh, Hl, Hw in *. destruct (Script.outer_lock cname (q_cmd q)); cbn in Hcan; try discriminate.
    repeat split; congruence.
  - rewrite Hw in Hcan. destruct (a_lock a); cbn in Hcan; try discriminate. congruence.
  - unfold Script.innerh in Hi. rewrite Hpc in Hi. subst l.
    rewrite (outerh_nonidle (th g u)) in Ho by (rewrite Hpc; discriminate).
    rewrite Hh, Hl, Ho. repeat split; cbn; congruence.
  - rewrite (outerh_nonidle (th g u)) in Ho by (rewrite Hpc; discriminate).
    rewrite Hh, Hl, Ho. repeat split; cbn; congruence.
  - rewrite (outerh_nonidle (th g u) Hpc) in Ho. rewrite Hh, Hl, Ho, Hi. repeat split; cbn; congruence.
Qed.

(* ---------------------------------------------------------------------------------------- *)
(* dataset, log and history *)

Definition ev_ok (ev : event) : Prop :=
  match e_kind ev with
  | KStart l => l = a_lock (arm_of lock_table (e_name ev)) /\ e_held ev = l
  | KExec c seen after r upd logged =>
      (logged = true -> e_held ev = LExcl /\ is_ok r = true /\ upd = true) /\ (logged = false -> after = seen)
  | _ => True
  end.

Record DataInv (g : gstate) : Prop := mkDI {
  di_replay : shared g = replay_log (aof g) s0;
  di_log : log g = recs_of (hist g);
  di_pos : Forall (fun ev => e_pos ev <= length (log g)) (hist g);
  di_seen : forall ev, In ev (hist g) -> forall c seen after r upd lg,
      e_kind ev = KExec c seen after r upd lg ->
      seen = replay_log (map r_cmd (firstn (e_pos ev) (log g))) s0;
  di_ev : Forall ev_ok (hist g) }.

Lemma replay_log_snoc l c : replay_log (l ++ [c]) s0 = fst (exec_top (replay_log l s0) c).
Proof. unfold Script.replay_log, replay. rewrite fold_left_app. reflexivity. Qed.

Lemma datainv_commit (g : gstate) u f : DataInv g -> sclass g u f -> DataInv (commit g u f).
Proof.
  intros [Irep Ilog Ipos Iseen Iev] Hc.
  pose proof (sclass_eff_ok g u f Hc) as [E1 [E2 E3]].
  assert (Hrecs : ev_recs (new_event g u f) = match f_rec f with Some c => [mkRec u (t_rid (th g u)) c] | None => [] end).
  { unfold Script.ev_recs, new_event. cbn [e_kind e_tid e_rid].
    destruct (f_kind f) as [l| |c seen after r upd lg|c er|l|l|r|l]; try (rewrite E3; reflexivity).
    destruct E3 as [_ [_ [E3 _]]]. rewrite E3. destruct lg; reflexivity. }
  constructor.
  - rewrite shared_commit. unfold Script.aof. rewrite log_commit, map_app. fold (aof g).
    destruct (f_rec f) as [c|] eqn:Er; cbn [map].
    + rewrite replay_log_snoc, <- Irep. apply (E2 c eq_refl).
    + rewrite app_nil_r, <- Irep. apply E1. reflexivity.
  - rewrite log_commit, hist_commit. unfold Script.recs_of. rewrite flat_map_snoc. fold (recs_of (hist g)).
    rewrite <- Ilog, Hrecs. reflexivity.
  - rewrite hist_commit, log_commit. apply Forall_snoc.
    + eapply Forall_impl; [|exact Ipos]. intros ev H. cbn beta in H |- *. rewrite app_length. lia.
    + cbn. rewrite app_length. lia.
  - rewrite hist_commit, log_commit. intros ev Hin c seen after r upd lg Hk.
    apply in_snoc in Hin as [Hin| ->].
    + rewrite firstn_le_app; [exact (Iseen ev Hin _ _ _ _ _ _ Hk)|].
      rewrite Forall_forall in Ipos. exact (Ipos ev Hin).
    + cbn [new_event e_pos e_kind] in Hk |- *. rewrite firstn_le_app by lia. rewrite firstn_all.
      rewrite Hk in E3. destruct E3 as [-> _]. exact Irep.
  - rewrite hist_commit. apply Forall_snoc; [exact Iev|].
    unfold ev_ok, new_event. cbn [e_kind e_name e_held].
    destruct (f_kind f) as [l| |c seen after r upd lg|c er|l|l|r|l] eqn:Ek; try exact I.
    + destruct Hc as [q rest ? ? ? ? Hn Hk Hh | ? ? ? ? ? ? ? ? ? ? ? Hk | ? ? ? ? ? Hk | ? ? ? Hk | ? ? ? ? ? ? ? ? ? ? Hk];
        rewrite Ek in Hk; try discriminate.
      inversion Hk; subst l. rewrite Hn, Hh. split; reflexivity.
    + destruct E3 as [Es [Ea [Er Eo]]]. split.
      * intros ->. split; [exact (proj2 (E2 c Er)) | exact (Eo eq_refl)].
      * intros ->. rewrite Es, Ea. apply E1. exact Er.
Qed.

(* the records of one request: what it logged, in the order it logged it *)
Lemma filter_recs_of t r (h : list event) :
  filter (own_rec t r) (recs_of h) = recs_of (filter (own t r) h).
Proof.
  induction h as [|ev h IH]; [reflexivity|].
  cbn [Script.recs_of flat_map filter]. fold (recs_of h). rewrite filter_app, IH.
  assert (Hev : filter (own_rec t r) (ev_recs ev) = if own t r ev then ev_recs ev else []).
  { unfold Script.ev_recs. destruct (e_kind ev) as [| |c seen after rr upd lg| | | | |]; try (destruct (own t r ev); reflexivity).
    destruct lg; [|destruct (own t r ev); reflexivity].
    cbn [filter]. unfold own_rec, Script.own. cbn [r_tid r_rid]. destruct (Nat.eqb (e_tid ev) t && Nat.eqb (e_rid ev) r); reflexivity. }
  rewrite Hev. destruct (own t r ev); [reflexivity|].
  cbn [app]. reflexivity.
Qed.

(* ---------------------------------------------------------------------------------------- *)
(* requests in the history: contiguity of those that hold the exclusive lock *)

Definition notown t r (ev : event) : Prop := own t r ev = false.
Definition ownfree t r (ev : event) : Prop := own t r ev || free ev = true.
Definition nrec (h : list event) : nat := length (recs_of h).

Definition opendec t r (h : list event) : Prop :=
  exists pre mid, h = pre ++ mid /\ Forall (notown t r) pre /\ Forall (ownfree t r) mid /\
    Forall (fun ev => e_pos ev <= nrec pre) pre /\ Forall (fun ev => nrec pre <= e_pos ev) mid.

Definition contig t r (h : list event) : Prop :=
  exists pre mid post, h = pre ++ mid ++ post /\
    Forall (notown t r) pre /\ Forall (ownfree t r) mid /\ Forall (notown t r) post /\
    Forall (fun ev => e_pos ev <= nrec pre) pre /\
    Forall (fun ev => nrec pre <= e_pos ev <= nrec pre + nrec mid) mid /\
    Forall (fun ev => nrec pre + nrec mid <= e_pos ev) post.

Definition marked t r (h : list event) : Prop :=
  exists ev, In ev h /\ own t r ev = true /\ e_kind ev = KStart LExcl.

Lemma nrec_app a b : nrec (a ++ b) = nrec a + nrec b.
Proof. unfold nrec, Script.recs_of. rewrite flat_map_app, app_length. reflexivity. Qed.

Lemma opendec_start t r h ev :
  Forall (notown t r) h -> Forall (fun x => e_pos x <= nrec h) h -> e_pos ev = nrec h -> own t r ev = true ->
  opendec t r (h ++ [ev]).
Proof.
  intros Hn Hp He Ho. exists h, [ev]. split; [reflexivity|]. split; [exact Hn|]. split.
  - constructor; [|constructor]. unfold ownfree. rewrite Ho. reflexivity.
  - split; [exact Hp|]. constructor; [lia | constructor].
Qed.

Lemma opendec_snoc t r h ev :
  opendec t r h -> ownfree t r ev -> e_pos ev = nrec h -> opendec t r (h ++ [ev]).
Proof.
  intros [pre [mid [-> [Hn [Hm [Hp Hq]]]]]] Ho He. exists pre, (mid ++ [ev]).
  split; [rewrite app_assoc; reflexivity|]. split; [exact Hn|]. split; [apply Forall_snoc; assumption|].
  split; [exact Hp|]. apply Forall_snoc; [exact Hq|]. rewrite He, nrec_app. lia.
Qed.

Lemma opendec_close t r h :
  opendec t r h -> Forall (fun x => e_pos x <= nrec h) h -> contig t r h.
Proof.
  intros [pre [mid [-> [Hn [Hm [Hp Hq]]]]]] Hall. exists pre, mid, [].
  split; [rewrite app_nil_r; reflexivity|]. split; [exact Hn|]. split; [exact Hm|]. split; [constructor|].
  split; [exact Hp|]. split; [|constructor].
  apply Forall_app in Hall as [_ Hall]. rewrite nrec_app in Hall.
  rewrite Forall_forall in *. intros x Hx. split; [apply Hq; exact Hx | apply Hall; exact Hx].
Qed.

Lemma contig_snoc t r h ev :
  contig t r h -> notown t r ev -> e_pos ev = nrec h -> contig t r (h ++ [ev]).
Proof.
  intros [pre [mid [post [-> [Hn [Hm [Ho [Hp [Hq Hr]]]]]]]]] Hne He. exists pre, mid, (post ++ [ev]).
  split; [rewrite <- !app_assoc; reflexivity|]. split; [exact Hn|]. split; [exact Hm|].
  split; [apply Forall_snoc; assumption|]. split; [exact Hp|]. split; [exact Hq|].
  apply Forall_snoc; [exact Hr|]. rewrite He, !nrec_app. lia.
Qed.

Record HistInv (g : gstate) : Prop := mkHI {
  hi_future : forall t r, (t_rid (th g t) < r \/ (r = t_rid (th g t) /\ t_pc (th g t) = PIdle)) ->
                          Forall (notown t r) (hist g);
  hi_open : forall t, t_pc (th g t) <> PIdle -> outer_lock (t_cmd (th g t)) = LExcl ->
                      opendec t (t_rid (th g t)) (hist g);
  hi_past : forall t r, r < t_rid (th g t) -> marked t r (hist g) -> contig t r (hist g);
  hi_start : forall t, t_pc (th g t) <> PIdle -> forall ev, In ev (hist g) -> own t (t_rid (th g t)) ev = true ->
                       forall l, e_kind ev = KStart l -> l = outer_lock (t_cmd (th g t)) }.

Lemma own_new (g : gstate) u f t r : own t r (new_event g u f) = Nat.eqb u t && Nat.eqb (t_rid (th g u)) r.
Proof. reflexivity. Qed.

Lemma marked_snoc_notown t r h ev : own t r ev = false -> marked t r (h ++ [ev]) -> marked t r h.
Proof.
  intros Hn [x [Hin [Ho Hk]]]. apply in_snoc in Hin as [Hin| ->]; [exists x; repeat split; assumption | congruence].
Qed.

Lemma histinv_commit (g : gstate) u f :
  LockInv g -> DataInv g -> HistInv g -> sclass g u f -> HistInv (commit g u f).
Proof.
  intros LI DI [Ifut Iopen Ipast Istart] Hc.
  assert (Hpos : e_pos (new_event g u f) = nrec (hist g)).
  { cbn. unfold nrec. rewrite <- (di_log g DI). reflexivity. }
  assert (Hall : Forall (fun x => e_pos x <= nrec (hist g)) (hist g)).
  { unfold nrec. rewrite <- (di_log g DI). exact (di_pos g DI). }
  assert (Hth : forall t, th (commit g u f) t = if Nat.eqb t u then f_ts f else th g t).
  { intros t. destruct (Nat.eqb_spec t u) as [->|Hne]; [apply th_commit_same | apply th_commit_other; exact Hne]. }
  (* what the step does to the stepping thread's request number, idleness and command *)
  assert (Hshape :
    (t_pc (th g u) = PIdle /\ t_pc (f_ts f) <> PIdle /\ t_rid (f_ts f) = t_rid (th g u) /\
       f_kind f = KStart (outer_lock (t_cmd (f_ts f)))) \/
    (t_pc (th g u) <> PIdle /\ t_pc (f_ts f) <> PIdle /\ t_rid (f_ts f) = t_rid (th g u) /\
       t_cmd (f_ts f) = t_cmd (th g u) /\ (forall l, f_kind f <> KStart l)) \/
    (t_pc (th g u) <> PIdle /\ t_pc (f_ts f) = PIdle /\ t_rid (f_ts f) = Datatypes.S (t_rid (th g u)) /\
       (forall l, f_kind f <> KStart l))).
  { destruct Hc as [q rest Hpc Ht Hcan Hts _ Hk _ _ _ _ | prot c k tb a Hpc Hn Hcan Hts _ _ Hk _ _ _ _
                   | l p Hpc Hts _ Hk _ _ _ _ | Hpc Hts _ Hk _ _ _ _ | Hpc Hpc' Hr Hcm Htd Hin _ _ Hl Hh Hk _].
    - left. rewrite Hts, Hk. cbn. repeat split; try assumption; discriminate.
    - right; left. rewrite Hts, Hk, Hpc. cbn. repeat split; try discriminate; reflexivity.
    - right; left. rewrite Hts, Hk, Hpc. cbn. repeat split; try discriminate; reflexivity.
    - right; right. rewrite Hts, Hk, Hpc. cbn. repeat split; try discriminate; reflexivity.
    - right; left. repeat split; try assumption. intros l El. rewrite El in Hk. discriminate. }
  constructor.
  - (* hi_future *)
    intros t r H. rewrite hist_commit. rewrite Hth in H.
    destruct (Nat.eqb_spec t u) as [->|Hne].
    + assert (Hr : t_rid (th g u) < r \/ (r = t_rid (th g u) /\ t_pc (th g u) = PIdle) /\ False \/ t_rid (th g u) < r).
      { destruct Hshape as [[Hi [Hn [Hr _]]]|[[Hi [Hn [Hr _]]]|[Hi [Hn [Hr _]]]]]; rewrite Hr in H;
          destruct H as [H|[H1 H2]]; try (left; lia); try congruence. }
      assert (Hlt : t_rid (th g u) < r) by (destruct Hr as [?|[[_ []]|?]]; assumption).
      apply Forall_snoc; [apply Ifut; left; exact Hlt|].
      unfold notown. rewrite own_new. destruct (Nat.eqb_spec (t_rid (th g u)) r); [lia | apply andb_false_r].
    + apply Forall_snoc; [apply Ifut; exact H|].
      unfold notown. rewrite own_new. destruct (Nat.eqb_spec u t); [congruence | reflexivity].
  - (* hi_open *)
    intros t. rewrite Hth, hist_commit. destruct (Nat.eqb_spec t u) as [->|Hne].
    + intros Hn Hex.
      destruct Hshape as [[Hi [_ [Hr Hk]]]|[[Hi [_ [Hr [Hcm _]]]]|[_ [Hi' _]]]]; [| |congruence]; rewrite Hr.
      * apply opendec_start; [apply Ifut; right; split; [reflexivity | exact Hi] | exact Hall | exact Hpos |].
        rewrite own_new, !Nat.eqb_refl. reflexivity.
      * apply opendec_snoc; [apply Iopen; [exact Hi | rewrite <- Hcm; exact Hex] | | exact Hpos].
        unfold ownfree. rewrite own_new, !Nat.eqb_refl. reflexivity.
    + intros Hn Hex. apply opendec_snoc; [apply Iopen; assumption | | exact Hpos].
      unfold ownfree. apply orb_true_iff. right.
      assert (Hw : wr g = Some t).
      { apply (li_ex g LI). unfold exh. rewrite (outerh_nonidle _ Hn), Hex. reflexivity. }
      destruct (other_step_free g t u f LI Hw (not_eq_sym Hne) Hc) as [Hh _].
      unfold Script.free. cbn. rewrite Hh. reflexivity.
  - (* hi_past *)
    intros t r. rewrite Hth, hist_commit. destruct (Nat.eqb_spec t u) as [->|Hne].
    + intros Hlt Hm.
      destruct (Nat.eq_dec r (t_rid (th g u))) as [->|Hr].
      * (* the request that just ended *)
        destruct Hshape as [[_ [_ [Hr _]]]|[[_ [_ [Hr _]]]|[Hi [_ [_ Hk]]]]]; [lia | lia |].
        assert (Hm0 : marked u (t_rid (th g u)) (hist g)).
        { destruct Hm as [x [Hin [Ho Hx]]]. apply in_snoc in Hin as [Hin| ->]; [exists x; repeat split; assumption|].
          exfalso. exact (Hk _ Hx). }
        destruct Hm0 as [x [Hin [Ho Hx]]].
        pose proof (Istart u Hi x Hin Ho _ Hx) as Hex.
        apply opendec_close.
        -- apply opendec_snoc; [apply Iopen; [exact Hi | symmetry; exact Hex] | | exact Hpos].
           unfold ownfree. rewrite own_new, !Nat.eqb_refl. reflexivity.
        -- apply Forall_snoc.
           ++ eapply Forall_impl; [|exact Hall]. intros y Hy. cbn beta in *. rewrite nrec_app. lia.
           ++ rewrite Hpos, nrec_app. lia.
      * assert (Hlt0 : r < t_rid (th g u)).
        { destruct Hshape as [[_ [_ [Hq _]]]|[[_ [_ [Hq _]]]|[_ [_ [Hq _]]]]]; rewrite Hq in Hlt; lia. }
        assert (Hno : own u r (new_event g u f) = false).
        { rewrite own_new. destruct (Nat.eqb_spec (t_rid (th g u)) r); [lia | apply andb_false_r]. }
        apply contig_snoc; [apply Ipast; [exact Hlt0 | exact (marked_snoc_notown _ _ _ _ Hno Hm)] | exact Hno | exact Hpos].
    + intros Hlt Hm.
      assert (Hno : own t r (new_event g u f) = false).
      { rewrite own_new. destruct (Nat.eqb_spec u t); [congruence | reflexivity]. }
      apply contig_snoc; [apply Ipast; [exact Hlt | exact (marked_snoc_notown _ _ _ _ Hno Hm)] | exact Hno | exact Hpos].
  - (* hi_start *)
    intros t. rewrite Hth, hist_commit. destruct (Nat.eqb_spec t u) as [->|Hne].
    + intros Hn ev Hin Ho l Hk.
      destruct Hshape as [[Hi [_ [Hr Hks]]]|[[Hi [_ [Hr [Hcm Hks]]]]|[_ [Hi' _]]]]; [| |congruence]; rewrite Hr in Ho.
      * apply in_snoc in Hin as [Hin| ->].
        -- exfalso. pose proof (Ifut u (t_rid (th g u)) (or_intror (conj eq_refl Hi))) as Hf.
           rewrite Forall_forall in Hf. specialize (Hf ev Hin). unfold notown in Hf. congruence.
        -- cbn [new_event e_kind] in Hk. rewrite Hks in Hk. inversion Hk. reflexivity.
      * rewrite Hcm. apply in_snoc in Hin as [Hin| ->].
        -- exact (Istart u Hi ev Hin Ho l Hk).
        -- exfalso. exact (Hks _ Hk).
    + intros Hn ev Hin Ho l Hk. apply in_snoc in Hin as [Hin| ->]; [exact (Istart t Hn ev Hin Ho l Hk)|].
      rewrite own_new in Ho. destruct (Nat.eqb_spec u t); [congruence | discriminate].
Qed.

(* ---------------------------------------------------------------------------------------- *)
(* requests that start a script under a table without a logging arm (EVALRO, EVALROSHA) *)

Definition ro_name (v : string) : bool :=
  starts_script v && negb (in_strs v dev_only) &&
  match assoc script_variant v with Some t => table_never_logs t | None => true end.

Lemma call_body_never_logs t s prot c k kd s' rc p' :
  table_never_logs t = true -> call_body s prot c k t (arm_of t (cname c)) = (kd, s', rc, p') -> rc = None.
Proof.
  intros Hn. unfold Script.call_body.
  destruct (arm_verdict (arm_of t (cname c)) e); [intros H; inversion H; reflexivity|].
  destruct (find_handler dispatch_script (cname c)) as [h|]; [|intros H; inversion H; reflexivity].
  destruct (handler (h_fn h) s c) as [[s1 r] upd].
  unfold table_never_logs in Hn. rewrite forallb_forall in Hn. specialize (Hn _ (arm_of_in t (cname c))).
  apply negb_true_iff in Hn. rewrite Hn. cbn. intros H; inversion H; reflexivity.
Qed.

Lemma plan_ro (g : gstate) u f :
  pc_ok (th g u) -> t_pc (th g u) <> PIdle -> ro_name (cname (t_cmd (th g u))) = true ->
  plan g u = Some f -> f_rec f = None.
Proof.
  intros Hok Hn Hro. unfold ro_name in Hro.
  apply andb_true_iff in Hro as [Hro Htab]. apply andb_true_iff in Hro as [Hst Hdev].
  apply negb_true_iff in Hdev. unfold starts_script in Hst.
  unfold Script.plan. set (ts := th g u) in *. set (nm := cname (t_cmd ts)) in *.
  destruct (t_pc ts) as [|p|p|prot c k t a|l p|] eqn:Epc; [congruence| | | | |].
  - destruct (arm_verdict (arm_of lock_table nm) e); [intros H; inversion H; reflexivity|].
    rewrite Hdev. destruct (find_handler dispatch nm) as [h|]; [|discriminate].
    rewrite Hst. intros H; inversion H; reflexivity.
  - destruct p as [v|er|prot c k]; try (intros H; inversion H; reflexivity).
    destruct (in_strs (cname c) script_deny); [intros H; inversion H; reflexivity|].
    destruct (assoc script_variant nm) as [t|]; [|intros H; inversion H; reflexivity].
    destruct (a_reject (arm_of t (cname c))); try (intros H; inversion H; reflexivity).
    destruct (a_lock (arm_of t (cname c))).
    + destruct (can_acquire (wr g) (rd g) LExcl); [intros H; inversion H; reflexivity | discriminate].
    + destruct (can_acquire (wr g) (rd g) LShared); [intros H; inversion H; reflexivity | discriminate].
    + destruct (call_body (shared g) prot c k t (arm_of t (cname c))) as [[[kd s1] rc] p'] eqn:Eb.
      intros H; inversion H; subst f. cbn. exact (call_body_never_logs t _ _ _ _ _ _ _ _ Htab Eb).
  - unfold pc_ok in Hok. fold ts in Hok. rewrite Epc in Hok. destruct Hok as [Ev [Ha _]]. fold nm in Ev. subst a.
    rewrite Ev in Htab.
    destruct (call_body (shared g) prot c k t (arm_of t (cname c))) as [[[kd s1] rc] p'] eqn:Eb.
    intros H; inversion H; subst f. cbn. exact (call_body_never_logs t _ _ _ _ _ _ _ _ Htab Eb).
  - intros H; inversion H; reflexivity.
  - intros H; inversion H; reflexivity.
Qed.

Lemma new_event_recs (g : gstate) u f :
  eff_ok g f ->
  ev_recs (new_event g u f) = match f_rec f with Some c => [mkRec u (t_rid (th g u)) c] | None => [] end.
Proof.
  intros [_ [_ E3]]. unfold Script.ev_recs, new_event. cbn [e_kind e_tid e_rid].
  destruct (f_kind f) as [l| |c seen after r upd lg|c er|l|l|r|l]; try (rewrite E3; reflexivity).
  destruct E3 as [_ [_ [E3 _]]]. rewrite E3. destruct lg; reflexivity.
Qed.

Definition ro_ev_ok (ev : event) : Prop := ro_name (e_name ev) = true -> ev_recs ev = [].

(* ---------------------------------------------------------------------------------------- *)
(* every reachable state *)

Record AllInv (g : gstate) : Prop := mkAI {
  ai_lock : LockInv g; ai_data : DataInv g; ai_hist : HistInv g; ai_ro : Forall ro_ev_ok (hist g) }.

Lemma inv_init progs : AllInv (sinit s0 progs).
Proof.
  constructor.
  - constructor; cbn; intros t.
    + exact I.
    + discriminate.
    + discriminate.
    + reflexivity.
    + split; [discriminate | reflexivity].
  - constructor; cbn; try constructor; try reflexivity. intros ev [].
  - constructor; cbn.
    + intros; constructor.
    + intros t H. congruence.
    + intros t r H. lia.
    + intros t H ev [].
  - constructor.
Qed.

Lemma inv_step g u : AllInv g -> AllInv (sstep g u).
Proof.
  intros [LI DI HI RI]. destruct (sstep_cases g u) as [->|[f [Hp ->]]]; [constructor; assumption|].
  pose proof (plan_class g u f (li_pc g LI u) Hp) as Hc.
  constructor.
  - exact (lockinv_commit g u f LI Hc).
  - exact (datainv_commit g u f DI Hc).
  - exact (histinv_commit g u f LI DI HI Hc).
  - rewrite hist_commit. apply Forall_snoc; [exact RI|].
    unfold ro_ev_ok. intros Hro. rewrite (new_event_recs g u f (sclass_eff_ok g u f Hc)).
    cbn [new_event e_name] in Hro.
    destruct Hc as [q rest Hpc Ht Hcan Hts _ Hk _ _ _ Hr | prot c k tb a Hpc Hn Hcan Hts _ Hnm Hk _ _ _ Hr
                   | l p Hpc Hts Hnm Hk _ _ _ Hr | Hpc Hts Hnm Hk _ _ _ Hr | Hpc Hpc' Hr0 Hcm Htd Hin _ Hnm Hl Hh Hk _];
      try (rewrite Hr; reflexivity).
    rewrite Hnm in Hro. rewrite (plan_ro g u f (li_pc g LI u) Hpc Hro Hp). reflexivity.
Qed.

Theorem reach_inv progs sched : AllInv (srun (sinit s0 progs) sched).
Proof.
  unfold Script.srun. generalize (inv_init progs). generalize (sinit s0 progs).
  induction sched as [|t sched IH]; intros g Hg; cbn [fold_left]; [exact Hg|].
  apply IH. apply inv_step. exact Hg.
Qed.

(* ======================================================================================== *)
(* the statements *)

Lemma recs_notown t r (h : list event) :
  Forall (notown t r) h -> Forall (fun x => own_rec t r x = false) (recs_of h).
Proof.
  induction h as [|ev h IH]; intros H; [constructor|]. inversion H; subst.
  cbn [Script.recs_of flat_map]. apply Forall_app. split; [|apply IH; assumption].
  unfold Script.ev_recs. destruct (e_kind ev) as [| |c seen after rr upd lg| | | | |]; try constructor.
  destruct lg; constructor; [|constructor]. exact H2.
Qed.

Lemma recs_ownfree t r (h : list event) :
  Forall (ownfree t r) h -> Forall ev_ok h -> Forall (fun x => own_rec t r x = true) (recs_of h).
Proof.
  induction h as [|ev h IH]; intros Hm Hev; [constructor|]. inversion Hm; subst. inversion Hev; subst.
  cbn [Script.recs_of flat_map]. apply Forall_app. split; [|apply IH; assumption].
  unfold Script.ev_recs. destruct (e_kind ev) as [| |c seen after rr upd lg| | | | |] eqn:Ek; try constructor.
  destruct lg; constructor; [|constructor].
  unfold ownfree in H1. apply orb_true_iff in H1 as [H1|H1]; [exact H1|].
  exfalso. unfold ev_ok in H3. rewrite Ek in H3. destruct H3 as [H3 _]. destruct (H3 eq_refl) as [Hx _].
  unfold Script.free in H1. rewrite Hx in H1. discriminate.
Qed.

Section Reach.
Variable progs : nat -> list (req val herr).
Variable sched : list nat.
Let g := srun (sinit s0 progs) sched.

(* (d) the dataset is what start-up computes from the log - at every instant *)
Theorem state_is_replay_of_log : shared g = replay_log (aof g) s0.
Proof. exact (di_replay g (ai_data g (reach_inv progs sched))). Qed.

(* (d) the log is exactly the successful updating write calls, once each, in the order they were
   made; a call that was not logged changed nothing *)
Theorem log_is_the_successful_writes :
  log g = recs_of (hist g) /\
  (forall t r, filter (own_rec t r) (log g) = recs_of (filter (own t r) (hist g))) /\
  (forall ev c seen after r upd logged, In ev (hist g) -> e_kind ev = KExec c seen after r upd logged ->
     (logged = true -> e_held ev = LExcl /\ is_ok r = true /\ upd = true) /\ (logged = false -> after = seen)).
Proof.
  pose proof (ai_data g (reach_inv progs sched)) as DI. split; [exact (di_log g DI)|]. split.
  - intros t r. rewrite (di_log g DI). apply filter_recs_of.
  - intros ev c seen after r upd logged Hin Hk. pose proof (di_ev g DI) as Hev. rewrite Forall_forall in Hev.
    specialize (Hev ev Hin). unfold ev_ok in Hev. rewrite Hk in Hev. exact Hev.
Qed.

(* (a) a request whose lock switch took the exclusive lock is contiguous in the history, up to steps
   of threads that hold no server lock *)
Theorem exclusive_request_contiguous t r : marked t r (hist g) -> contig t r (hist g).
Proof.
  intros Hm. pose proof (reach_inv progs sched) as [LI DI HI _]. fold g in LI, DI, HI.
  destruct (lt_eq_lt_dec r (t_rid (th g t))) as [[Hlt|Heq]|Hgt].
  - exact (hi_past g HI t r Hlt Hm).
  - subst r. destruct Hm as [x [Hin [Ho Hx]]].
    destruct (t_pc (th g t)) eqn:Epc.
    1:{ exfalso. pose proof (hi_future g HI t (t_rid (th g t)) (or_intror (conj eq_refl Epc))) as Hf.
        rewrite Forall_forall in Hf. specialize (Hf x Hin). unfold notown in Hf. congruence. }
    all: (assert (Hn : t_pc (th g t) <> PIdle) by (rewrite Epc; discriminate);
          pose proof (hi_start g HI t Hn x Hin Ho _ Hx) as Hex;
          apply opendec_close; [apply (hi_open g HI t Hn); symmetry; exact Hex|];
          unfold nrec; rewrite <- (di_log g DI); exact (di_pos g DI)).
  - exfalso. destruct Hm as [x [Hin [Ho Hx]]].
    pose proof (hi_future g HI t r (or_introl Hgt)) as Hf.
    rewrite Forall_forall in Hf. specialize (Hf x Hin). unfold notown in Hf. congruence.
Qed.

(* the lock the switch takes is the one Gen/LockTable.v lists for the command *)
Theorem start_lock_from_table ev l :
  In ev (hist g) -> e_kind ev = KStart l -> l = a_lock (arm_of lock_table (e_name ev)) /\ e_held ev = l.
Proof.
  intros Hin Hk. pose proof (di_ev g (ai_data g (reach_inv progs sched))) as Hev. rewrite Forall_forall in Hev.
  specialize (Hev ev Hin). unfold ev_ok in Hev. rewrite Hk in Hev. exact Hev.
Qed.

Theorem eval_contiguous ev l :
  In ev (hist g) -> e_kind ev = KStart l -> In (e_name ev) ["eval"; "evalsha"] ->
  contig (e_tid ev) (e_rid ev) (hist g).
Proof.
  intros Hin Hk Hn. apply exclusive_request_contiguous. exists ev. split; [exact Hin|]. split.
  - unfold Script.own. rewrite !Nat.eqb_refl. reflexivity.
  - destruct (start_lock_from_table ev l Hin Hk) as [Hl _]. rewrite Hk, Hl.
    pose proof eval_takes_excl as T. rewrite forallb_forall in T. specialize (T _ Hn).
    apply andb_true_iff in T as [_ T]. apply lockk_eqb_eq in T. rewrite T. reflexivity.
Qed.

(* (a) ... its records are contiguous in the log and in call order; what its own steps see is the log
   before it plus its own records so far; what any other locked step sees contains all or none *)
Theorem contiguous_in_the_log t r :
  contig t r (hist g) ->
  exists lpre lmid lpost,
    log g = lpre ++ lmid ++ lpost /\
    Forall (fun x => own_rec t r x = false) lpre /\ Forall (fun x => own_rec t r x = true) lmid /\
    Forall (fun x => own_rec t r x = false) lpost /\
    forall ev, In ev (hist g) ->
      (own t r ev = true -> length lpre <= e_pos ev <= length lpre + length lmid) /\
      (own t r ev = false -> free ev = false -> e_pos ev <= length lpre \/ length lpre + length lmid <= e_pos ev).
Proof.
  intros [pre [mid [post [Hh [Hn [Hm [Ho [Hp [Hq Hr]]]]]]]]].
  pose proof (ai_data g (reach_inv progs sched)) as DI. fold g in DI.
  pose proof (di_ev g DI) as Hev. rewrite Hh in Hev.
  apply Forall_app in Hev as [Hev1 Hev]. apply Forall_app in Hev as [Hev2 Hev3].
  exists (recs_of pre), (recs_of mid), (recs_of post).
  split; [rewrite (di_log g DI), Hh; unfold Script.recs_of; rewrite !flat_map_app; reflexivity|].
  split; [apply recs_notown; exact Hn|]. split; [apply recs_ownfree; assumption|].
  split; [apply recs_notown; exact Ho|].
  {     intros ev Hin. rewrite Hh in Hin. fold (nrec pre). fold (nrec mid).
    rewrite Forall_forall in Hn, Hm, Ho, Hp, Hq, Hr.
    apply in_app_or in Hin as [Hin|Hin]; [|apply in_app_or in Hin as [Hin|Hin]].
    + split; [intros H; specialize (Hn ev Hin); unfold notown in Hn; congruence|].
      intros _ _. left. exact (Hp ev Hin).
    + split; [intros _; exact (Hq ev Hin)|].
      intros H1 H2. specialize (Hm ev Hin). unfold ownfree in Hm. rewrite H1, H2 in Hm. discriminate.
    + split; [intros H; specialize (Ho ev Hin); unfold notown in Ho; congruence|].
      intros _ _. right. exact (Hr ev Hin). }
Qed.

(* every state a handler observes is the state after a complete prefix of the log *)
Theorem observations_are_log_prefixes ev c seen after r upd logged :
  In ev (hist g) -> e_kind ev = KExec c seen after r upd logged ->
  e_pos ev <= length (log g) /\ seen = replay_log (map r_cmd (firstn (e_pos ev) (log g))) s0.
Proof.
  intros Hin Hk. pose proof (ai_data g (reach_inv progs sched)) as DI. fold g in DI. split.
  - pose proof (di_pos g DI) as Hp. rewrite Forall_forall in Hp. exact (Hp ev Hin).
  - exact (di_seen g DI ev Hin _ _ _ _ _ _ Hk).
Qed.

(* (b) in the history: a request under a table without a logging arm logs nothing and no handler it
   runs changes the dataset *)
Theorem ro_request_logs_nothing ev :
  In ev (hist g) -> ro_name (e_name ev) = true ->
  ev_recs ev = [] /\ forall c seen after r upd logged, e_kind ev = KExec c seen after r upd logged -> logged = false /\ after = seen.
Proof.
  intros Hin Hro. pose proof (reach_inv progs sched) as [_ DI _ RI]. fold g in DI, RI.
  rewrite Forall_forall in RI. pose proof (RI ev Hin Hro) as Hr. split; [exact Hr|].
  intros c seen after r upd logged Hk. unfold Script.ev_recs in Hr. rewrite Hk in Hr.
  destruct logged; [discriminate|]. split; [reflexivity|].
  pose proof (di_ev g DI) as Hev. rewrite Forall_forall in Hev. specialize (Hev ev Hin).
  unfold ev_ok in Hev. rewrite Hk in Hev. exact (proj2 Hev eq_refl).
Qed.

(* (b) as a step: while a thread runs such a request, its steps leave dataset and log as they are *)
Theorem ro_step_changes_nothing u :
  t_pc (th g u) <> PIdle -> ro_name (cname (t_cmd (th g u))) = true ->
  shared (sstep g u) = shared g /\ log (sstep g u) = log g.
Proof.
  intros Hn Hro. pose proof (ai_lock g (reach_inv progs sched)) as LI. fold g in LI.
  destruct (sstep_cases g u) as [->|[f [Hp ->]]]; [split; reflexivity|].
  pose proof (plan_class g u f (li_pc g LI u) Hp) as Hc.
  pose proof (plan_ro g u f (li_pc g LI u) Hn Hro Hp) as Hr.
  destruct (sclass_eff_ok g u f Hc) as [E1 _].
  rewrite shared_commit, log_commit, Hr, app_nil_r. split; [exact (E1 Hr) | reflexivity].
Qed.

(* (a)/(c) as a step: while thread t holds the exclusive lock, whatever another thread does touches
   neither the dataset, nor the log, nor the lock, and is done holding no lock *)
Theorem exclusive_holder_excludes t u :
  wr g = Some t -> u <> t ->
  shared (sstep g u) = shared g /\ log (sstep g u) = log g /\
  wr (sstep g u) = wr g /\ rd (sstep g u) = rd g /\
  (hist (sstep g u) = hist g \/
   exists ev, hist (sstep g u) = hist g ++ [ev] /\ e_tid ev = u /\ free ev = true /\ ev_recs ev = []).
Proof.
  intros Hw Hne. pose proof (ai_lock g (reach_inv progs sched)) as LI. fold g in LI.
  destruct (sstep_cases g u) as [->|[f [Hp ->]]]; [repeat split; try reflexivity; left; reflexivity|].
  pose proof (plan_class g u f (li_pc g LI u) Hp) as Hc.
  destruct (other_step_free g t u f LI Hw Hne Hc) as [Hh [L1 [L2 [L3 L4]]]].
  pose proof (sclass_eff_ok g u f Hc) as Heff. pose proof Heff as [E1 [E2 _]].
  assert (Hr : f_rec f = None).
  { destruct (f_rec f) as [c|] eqn:Er; [|reflexivity]. destruct (E2 c eq_refl) as [_ Hx]. congruence. }
  pose proof (locks_commit g u f) as Hlk.
  assert (Hsame : lock_after (wr g) (rd g) u (f_lock f) = (wr g, rd g)).
  { destruct (f_lock f) as [|[]|[]]; try reflexivity; congruence. }
  rewrite Hsame in Hlk. inversion Hlk as [[Hw' Hr']].
  rewrite shared_commit, log_commit, Hr, app_nil_r, hist_commit.
  split; [exact (E1 Hr)|]. split; [reflexivity|]. split; [reflexivity|]. split; [reflexivity|].
  right. exists (new_event g u f). split; [reflexivity|]. split; [reflexivity|]. split.
  - unfold Script.free. cbn. rewrite Hh. reflexivity.
  - rewrite (new_event_recs g u f Heff), Hr. reflexivity.
Qed.

(* who holds the exclusive lock: a thread inside a request whose arm of the lock switch is exclusive
   (EVAL, EVALSHA, every write command), or inside one call of a script whose arm takes it (EVALNA) *)
Theorem inside_exclusive_request t :
  t_pc (th g t) <> PIdle -> outer_lock (t_cmd (th g t)) = LExcl -> wr g = Some t.
Proof.
  intros Hn Hex. apply (li_ex g (ai_lock g (reach_inv progs sched))).
  unfold exh. rewrite (outerh_nonidle _ Hn), Hex. reflexivity.
Qed.

Theorem inside_exclusive_call t : innerh (th g t) = LExcl -> wr g = Some t.
Proof.
  intros Hex. apply (li_ex g (ai_lock g (reach_inv progs sched))).
  unfold exh. rewrite Hex. apply orb_true_r.
Qed.

End Reach.
End ScriptProofs.

Arguments contig {S val herr}. Arguments marked {S val herr}. Arguments opendec {S val herr}.
Arguments notown {S val herr}. Arguments ownfree {S val herr}. Arguments nrec {S val herr}.
Arguments ev_ok {S val herr}.

(* the two hypotheses about the handler semantics, by name *)
Definition noupd_ok {S val herr : Type} (handler : string -> S -> cmd -> S * (val + herr) * bool) : Prop :=
  forall fn s c s' r upd, handler fn s c = (s', r, upd) -> is_ok r && upd = false -> s' = s.
Definition pure_ok {S val herr : Type} (handler : string -> S -> cmd -> S * (val + herr) * bool) : Prop :=
  forall fn s c s' r upd, handler fn s c = (s', r, upd) -> touches dataset_structs (fn_effects fn) = false -> s' = s.

Lemma evalro_names : ro_name "evalro" = true /\ ro_name "evalrosha" = true /\ ro_name "eval" = false /\ ro_name "evalna" = false.
Proof. vm_compute. repeat split. Qed.

(* ======================================================================================== *)
(* a kill at any instant: start-up recovers a dataset the live server was in *)
Section ScriptCrash.
Variables S val herr : Type.
Variable cname : cmd -> string.
Variable handler : string -> S -> cmd -> S * (val + herr) * bool.
Variable e : env.
Variable s0 : S.
Hypothesis h_noupd : noupd_ok handler.
Hypothesis h_pure : pure_ok handler.

Notation gstate := (gstate S val herr).
Notation sstep := (sstep cname handler e).
Notation srun := (srun cname handler e).

Lemma log_grows (g : gstate) u : exists x, log (sstep g u) = log g ++ x /\ length x <= 1.
Proof.
  destruct (sstep_cases S val herr cname handler e g u) as [->|[f [_ ->]]].
  - exists []. rewrite app_nil_r. split; [reflexivity | cbn; lia].
  - rewrite log_commit. destruct (f_rec f); eexists; (split; [reflexivity | cbn; lia]).
Qed.

Lemma srun_snoc (g : gstate) sched u : srun g (sched ++ [u]) = sstep (srun g sched) u.
Proof. unfold Script.srun. rewrite fold_left_app. reflexivity. Qed.

(* every prefix of the log was the whole log at some instant of the run *)
Lemma log_prefix_was_the_log (g0 : gstate) sched : log g0 = [] ->
  forall n, n <= length (log (srun g0 sched)) ->
  exists k, k <= length sched /\ log (srun g0 (firstn k sched)) = firstn n (log (srun g0 sched)).
Proof.
  intros H0. induction sched as [|u sched IH] using rev_ind; intros n Hn.
  - exists 0. cbn in *. rewrite H0 in *. cbn in Hn. replace n with 0 by lia. split; [lia | reflexivity].
  - rewrite srun_snoc in *. destruct (log_grows (srun g0 sched) u) as [x [Hx Hlen]].
    rewrite Hx in *. rewrite app_length in Hn.
    destruct (le_lt_dec n (length (log (srun g0 sched)))) as [Hle|Hgt].
    + destruct (IH n Hle) as [k [Hk Hl]]. exists k. rewrite app_length. split; [cbn; lia|].
      rewrite firstn_app. replace (k - length sched) with 0 by lia. cbn. rewrite app_nil_r.
      rewrite Hl. rewrite firstn_le_app by exact Hle. reflexivity.
    + exists (length (sched ++ [u])). split; [lia|]. rewrite firstn_all, srun_snoc, Hx.
      rewrite firstn_all2 by (rewrite app_length; lia). reflexivity.
Qed.

Theorem crash_recovers_a_live_state progs sched q t :
  let g := srun (sinit s0 progs) sched in
  Forall cmd_ok (aof g) -> q ++ t = encs (aof g) ->
  exists k, k <= length sched /\
    let gk := srun (sinit s0 progs) (firstn k sched) in
    aof gk = firstn (inside (aof g) (len q)) (aof g) /\
    recover S (exec_top cname handler) q s0 = Some (shared gk, len (encs (aof gk))).
Proof.
  cbn zeta. intros Hok Hq.
  set (g := srun (sinit s0 progs) sched) in *.
  set (n := inside (aof g) (len q)).
  assert (Hn : n <= length (log g)).
  { unfold n, Script.aof. clear. generalize (len q). induction (log g) as [|x l IH]; intros z; cbn [inside map Datatypes.length]; [lia|].
    destruct (len (enc (r_cmd x)) <=? z)%Z; [specialize (IH (z - len (enc (r_cmd x)))%Z); lia | lia]. }
  destruct (log_prefix_was_the_log (sinit s0 progs) sched eq_refl n Hn) as [k [Hk Hl]].
  exists k. split; [exact Hk|].
  assert (Ha : aof (srun (sinit s0 progs) (firstn k sched)) = firstn n (aof g)).
  { unfold Script.aof. rewrite Hl. fold g. rewrite firstn_map. reflexivity. }
  split; [exact Ha|].
  unfold recover. rewrite (load_whole_cut (aof g) q t Hok Hq). fold n.
  rewrite (state_is_replay_of_log S val herr cname handler e s0 h_noupd h_pure progs (firstn k sched)).
  rewrite Ha. reflexivity.
Qed.

End ScriptCrash.
