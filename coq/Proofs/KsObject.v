(* The head codec of internal/object (Model/Object.v): makeHead / ID / Expires round trip. *)
From Coq Require Import ZifyN ZifyNat ZifyBool.
From T38 Require Import Base.Bytes Model.Object.

Lemma land_pow2_disjoint a b n : a < 2 ^ n -> N.land a (b * 2 ^ n) = 0.
Proof.
  intros Ha. apply N.bits_inj_0. intros k. rewrite N.land_spec.
  destruct (N.lt_ge_cases k n) as [Hk|Hk].
  - rewrite N.mul_pow2_bits_low by exact Hk. apply andb_false_r.
  - rewrite <- (N.mod_small a (2 ^ n)) by exact Ha.
    rewrite N.mod_pow2_bits_high by exact Hk. reflexivity.
Qed.

Lemma lor_disjoint a b n : a < 2 ^ n -> N.lor a (b * 2 ^ n) = a + b * 2 ^ n.
Proof.
  intros Ha. pose proof (land_pow2_disjoint a b n Ha) as Hl.
  rewrite <- (N.lxor_lor _ _ Hl). symmetry. apply N.add_nocarry_lxor. exact Hl.
Qed.

Lemma land_127 y : y < 128 -> N.land (y + 128) 127 = y.
Proof.
  intros Hy. change 127 with (N.ones 7). rewrite N.land_ones. change (2 ^ 7) with 128.
  replace (y + 128) with (y + 1 * 128) by lia. rewrite N.mod_add by lia. apply N.mod_small. exact Hy.
Qed.

Lemma pow_step i : 2 ^ ((i + 1) * 7) = 128 * 2 ^ (i * 7).
Proof.
  replace ((i + 1) * 7) with (7 + i * 7) by lia. rewrite N.pow_add_r. reflexivity.
Qed.

Lemma put_uvarint_decode fuel : forall x i acc rest,
  x < 128 ^ N.of_nat fuel -> (0 < fuel)%nat -> acc < 2 ^ (i * 7) -> acc + x * 2 ^ (i * 7) < two64 ->
  uvarint_loop (put_uvarint fuel x ++ rest) i acc =
    (acc + x * 2 ^ (i * 7), i + N.of_nat (length (put_uvarint fuel x))).
Proof.
  induction fuel as [|f IH]. { intros; lia. }
  intros x i acc rest Hx Hf Hacc Hsum.
  cbn [put_uvarint].
  set (P := 2 ^ (i * 7)) in *.
  assert (HP : 0 < P) by (unfold P; apply N.neq_0_lt_0; apply N.pow_nonzero; lia).
  destruct (x <? 128) eqn:Ex.
  - apply N.ltb_lt in Ex. cbn [app uvarint_loop length]. apply N.ltb_lt in Ex as Ex'. rewrite Ex'.
    rewrite N.shiftl_mul_pow2. fold P.
    rewrite (N.mod_small (x * P) two64) by lia.
    unfold P. rewrite lor_disjoint by exact Hacc. f_equal; lia.
  - apply N.ltb_ge in Ex.
    cbn [app uvarint_loop length].
    assert (Hm : x mod 128 < 128) by (apply N.mod_lt; lia).
    assert (Hb : (x mod 128 + 128 <? 128) = false) by (apply N.ltb_ge; lia).
    rewrite Hb. rewrite land_127 by exact Hm.
    rewrite N.shiftl_mul_pow2. fold P.
    pose proof (N.div_mod x 128 ltac:(lia)) as Hdm.
    set (q := x / 128) in *. set (m := x mod 128) in *.
    assert (HxP : x * P = 128 * (q * P) + m * P) by (rewrite Hdm; ring).
    assert (HmP : m * P < 128 * P) by (apply N.mul_lt_mono_pos_r; assumption).
    assert (HmP1 : m * P + P <= 128 * P).
    { replace (m * P + P) with ((m + 1) * P) by ring. apply N.mul_le_mono_r. lia. }
    rewrite (N.mod_small (m * P) two64) by lia.
    unfold P at 1. rewrite lor_disjoint by exact Hacc. fold P.
    destruct f as [|f'].
    + (* no fuel left but x >= 128: impossible *)
      cbn in Hx. lia.
    + rewrite IH.
      * rewrite pow_step. fold P. f_equal; [rewrite HxP; ring | lia].
      * (* q < 128 ^ (S f') *)
        replace (N.of_nat (S (S f'))) with (N.succ (N.of_nat (S f'))) in Hx by lia.
        rewrite N.pow_succ_r' in Hx. unfold q.
        apply N.div_lt_upper_bound; [lia | exact Hx].
      * lia.
      * rewrite pow_step. fold P. lia.
      * rewrite pow_step. fold P. replace (q * (128 * P)) with (128 * (q * P)) by ring. lia.
Qed.

Lemma zigzag_bound ex : int64_range ex -> zigzag ex < two64.
Proof. unfold int64_range, zigzag, two64. intros H. destruct (0 <=? ex)%Z eqn:E; lia. Qed.

Lemma zigzag_nonzero ex : ex <> 0%Z -> zigzag ex <> 0.
Proof. unfold zigzag. intros H. destruct (0 <=? ex)%Z eqn:E; lia. Qed.

Lemma unzigzag ex :
  (if N.odd (zigzag ex) then (- Z.of_N (zigzag ex / 2) - 1)%Z else Z.of_N (zigzag ex / 2)) = ex.
Proof.
  unfold zigzag. destruct (0 <=? ex)%Z eqn:E.
  - apply Z.leb_le in E.
    assert (H : Z.to_N (2 * ex) = 2 * Z.to_N ex) by lia. rewrite H.
    rewrite N.odd_mul. change (N.odd 2) with false. cbn [andb].
    rewrite N.mul_comm, N.div_mul by lia. lia.
  - apply Z.leb_gt in E.
    assert (H : Z.to_N (-2 * ex - 1) = 1 + 2 * Z.to_N (- ex - 1)) by lia. rewrite H.
    rewrite N.odd_add_mul_2. change (N.odd 1) with true. cbv iota.
    replace (1 + 2 * Z.to_N (- ex - 1)) with (Z.to_N (- ex - 1) * 2 + 1) by lia.
    rewrite (N.div_unique (Z.to_N (- ex - 1) * 2 + 1) 2 (Z.to_N (- ex - 1)) 1) by lia. lia.
Qed.

Lemma pow_128_10 : two64 <= 128 ^ N.of_nat 10.
Proof. vm_compute. discriminate. Qed.

Lemma varint_put ex rest : int64_range ex ->
  varint (put_varint ex ++ rest) = (ex, N.of_nat (length (put_varint ex))).
Proof.
  intros Hr. unfold varint, uvarint, put_varint.
  pose proof (zigzag_bound ex Hr) as Hb. pose proof pow_128_10 as Hp.
  rewrite (put_uvarint_decode 10 (zigzag ex) 0 0 rest); [| lia | lia | cbn; lia | cbn; lia].
  cbn [N.mul N.pow]. rewrite N.mul_1_r, !N.add_0_l.
  rewrite unzigzag. reflexivity.
Qed.

Lemma put_uvarint_head f x : x <> 0 -> exists b tl, put_uvarint (S f) x = b :: tl /\ b <> 0.
Proof.
  intros Hx. cbn [put_uvarint]. destruct (x <? 128) eqn:E.
  - exists x, []. split; [reflexivity | exact Hx].
  - exists (x mod 128 + 128), (put_uvarint f (x / 128)). split; [reflexivity | lia].
Qed.

Theorem head_roundtrip kind id ex : int64_range ex ->
  head_id (make_head kind id ex) = Some id /\ head_expires (make_head kind id ex) = Some ex.
Proof.
  intros Hr. unfold make_head. destruct (ex =? 0)%Z eqn:E0.
  - apply Z.eqb_eq in E0. subst ex. split; reflexivity.
  - apply Z.eqb_neq in E0.
    pose proof (varint_put ex id Hr) as Hv.
    destruct (put_uvarint_head 9 (zigzag ex) (zigzag_nonzero ex E0)) as [b [tl [Hput Hb]]].
    unfold put_varint in *. rewrite Hput in *. cbn [app] in *.
    split.
    + cbn [head_id]. apply N.eqb_neq in Hb. rewrite Hb. rewrite Hv.
      rewrite Nat2N.id. change (b :: tl ++ id) with ((b :: tl) ++ id).
      rewrite skipn_app, skipn_all, Nat.sub_diag. reflexivity.
    + cbn [head_expires]. rewrite Hv. reflexivity.
Qed.
