(* C09 — lemmas about Model/Shrink.v.

   Contents
     1. order / list / sorted-map helpers (ascend_from, firstn/skipn of sorted lists)
     2. exec / replay: well-formedness, the per-object action of a command (act), the shrinklog is
        idempotent per object (acts_idem), replay of snapshot records
     3. characterisation of the batch scans and of one rewrite step (step_cases)
     4. T1/T2: the new file (snapshot ++ shrinklog) replays to the live dataset (no RENAME)
     5. T5: the records are emitted in strictly increasing (key,id) order (all schedules), and
        in the quiescent case are exactly the objects of the dataset
     6. T3: refutations with RENAME;  7. T4: crash points of the final section, leftovers
     8. T6: termination of the quiescent run;  9. requests;  10. hooks;  11. TTL digits;
     12. example data for Props/C09.v *)
From Coq Require Import List NArith ZArith Bool Lia Sorted.
From Coq Require Import ZifyN ZifyNat ZifyBool.
From T38 Require Import Base.Bytes Base.SMap Model.Shrink.
Import ListNotations.
Local Open Scope nat_scope.

Definition wfc (col : coll) : Prop := msorted col /\ Forall (fun io => msorted (o_fields (snd io))) col.
Definition wf (s : st) : Prop :=
  msorted s /\
  Forall (fun kc => msorted (snd kc) /\ Forall (fun io => msorted (o_fields (snd io))) (snd kc)) s.
Definition same_data (a b : st) : Prop := forall k i, lookup k i a = lookup k i b.

(* ------------------------------------------------------------------ 1. helpers *)

Lemma ltb_false_leb a b : bytes_ltb a b = false <-> bytes_leb b a = true.
Proof.
  unfold bytes_ltb, bytes_leb. rewrite (bytes_cmp_antisym a b).
  destruct (bytes_cmp a b); cbn; split; congruence.
Qed.

Lemma leb_cases a b : bytes_leb a b = true -> a = b \/ bytes_ltb a b = true.
Proof.
  unfold bytes_leb, bytes_ltb. destruct (bytes_cmp a b) eqn:E; intros H.
  - left. apply bytes_cmp_eq; exact E.
  - right; reflexivity.
  - discriminate.
Qed.

Lemma leb_ltb_trans a b c : bytes_leb a b = true -> bytes_ltb b c = true -> bytes_ltb a c = true.
Proof. intros H1 H2. destruct (leb_cases _ _ H1) as [->|H]; [exact H2 | eapply ltb_trans; eauto]. Qed.

Lemma ltb_leb_trans a b c : bytes_ltb a b = true -> bytes_leb b c = true -> bytes_ltb a c = true.
Proof. intros H1 H2. destruct (leb_cases _ _ H2) as [<-|H]; [exact H1 | eapply ltb_trans; eauto]. Qed.

Lemma leb_nil i : bytes_leb [] i = true.
Proof. destruct i; reflexivity. Qed.

Lemma ltb_leb_contra a b : bytes_ltb a b = true -> bytes_leb b a = true -> False.
Proof. intros H1 H2. apply ltb_false_leb in H2. congruence. Qed.

Lemma ltb_nil_false a : bytes_ltb a [] = false.
Proof. destruct a; reflexivity. Qed.

(* StronglySorted and append *)
Lemma SS_app_inv {A} (R : A -> A -> Prop) (a b : list A) :
  StronglySorted R (a ++ b) ->
  StronglySorted R a /\ StronglySorted R b /\ (forall x y, In x a -> In y b -> R x y).
Proof.
  induction a as [|x a IH]; cbn; intros H.
  - split; [constructor|]. split; [exact H|]. intros ? ? [].
  - apply StronglySorted_inv in H. destruct H as [H1 H2]. destruct (IH H1) as [Ha [Hb Hab]].
    apply Forall_app in H2. destruct H2 as [H2a H2b]. split; [constructor; assumption|].
    split; [exact Hb|]. intros x' y [->|Hx] Hy.
    + rewrite Forall_forall in H2b. apply H2b; exact Hy.
    + apply Hab; assumption.
Qed.

Lemma SS_app {A} (R : A -> A -> Prop) (a b : list A) :
  StronglySorted R a -> StronglySorted R b -> (forall x y, In x a -> In y b -> R x y) ->
  StronglySorted R (a ++ b).
Proof.
  induction a as [|x a IH]; cbn; intros Ha Hb Hab; [exact Hb|].
  apply StronglySorted_inv in Ha. destruct Ha as [Ha Hx]. constructor.
  - apply IH; [exact Ha | exact Hb|]. intros; apply Hab; [right|]; assumption.
  - apply Forall_app. split; [exact Hx|]. rewrite Forall_forall. intros y Hy. apply Hab; [left; reflexivity | exact Hy].
Qed.

Lemma SS_map {A B} (f : A -> B) (R : A -> A -> Prop) (S : B -> B -> Prop) (l : list A) :
  (forall x y, R x y -> S (f x) (f y)) -> StronglySorted R l -> StronglySorted S (map f l).
Proof.
  intros HRS H. induction H as [|x l Hl IH Hx]; cbn; constructor; [exact IH|].
  rewrite Forall_forall in *. intros y Hy. apply in_map_iff in Hy. destruct Hy as [z [<- Hz]].
  apply HRS. apply Hx; exact Hz.
Qed.

(* a strictly sorted list cut at n: the part before, the part after, the first of the part after *)
Lemma sorted_firstn (l : list bytes) n : sorted_keys l -> sorted_keys (firstn n l).
Proof. intros H. unfold sorted_keys in *. rewrite <- (firstn_skipn n l) in H. apply SS_app_inv in H. tauto. Qed.

Lemma sorted_skipn (l : list bytes) n : sorted_keys l -> sorted_keys (skipn n l).
Proof. intros H. unfold sorted_keys in *. rewrite <- (firstn_skipn n l) in H. apply SS_app_inv in H. tauto. Qed.

Lemma sorted_cut_lt (l : list bytes) n y t x :
  sorted_keys l -> skipn n l = y :: t -> In x (firstn n l) -> bytes_ltb x y = true.
Proof.
  intros H E Hx. unfold sorted_keys in H. rewrite <- (firstn_skipn n l) in H. apply SS_app_inv in H.
  destruct H as [_ [_ H]]. apply H; [exact Hx|]. rewrite E. left; reflexivity.
Qed.

Lemma sorted_cut_ge (l : list bytes) n y t x :
  sorted_keys l -> skipn n l = y :: t -> In x l -> In x (firstn n l) \/ bytes_leb y x = true.
Proof.
  intros H E Hx. rewrite <- (firstn_skipn n l) in Hx. apply in_app_iff in Hx. destruct Hx as [Hx|Hx]; [left; exact Hx|].
  right. apply (sorted_skipn l n) in H. rewrite E in *. destruct Hx as [->|Hx]; [apply bytes_leb_refl|].
  apply StronglySorted_inv in H. destruct H as [_ H]. rewrite Forall_forall in H. apply bytes_ltb_leb. apply H; exact Hx.
Qed.

Lemma skipn_nil_firstn {A} n (l : list A) : skipn n l = [] -> firstn n l = l.
Proof. intros E. rewrite <- (firstn_skipn n l) at 2. rewrite E, app_nil_r. reflexivity. Qed.

Lemma skipn_head_in {A} n (l : list A) y t : skipn n l = y :: t -> In y l.
Proof. intros E. rewrite <- (firstn_skipn n l), E. apply in_app_iff. right; left; reflexivity. Qed.

Lemma firstn_in {A} n (l : list A) x : In x (firstn n l) -> In x l.
Proof. intros H. rewrite <- (firstn_skipn n l). apply in_app_iff. left; exact H. Qed.

(* ascend_from over a sorted map *)
Lemma ascend_from_In {V} p (m : smap V) k v :
  In (k, v) m -> bytes_leb p k = true -> In (k, v) (ascend_from p m).
Proof.
  induction m as [|[k' v'] r IH]; cbn; [tauto|]. intros Hin Hle.
  destruct (bytes_ltb k' p) eqn:E; [|exact Hin].
  destruct Hin as [Heq|Hin]; [|apply IH; assumption].
  inversion Heq; subst. exfalso. eapply ltb_leb_contra; eauto.
Qed.

Lemma ascend_from_incl {V} p (m : smap V) x : In x (ascend_from p m) -> In x m.
Proof.
  induction m as [|[k' v'] r IH]; cbn; [tauto|].
  destruct (bytes_ltb k' p); [intros H; right; apply IH; exact H | tauto].
Qed.

Lemma ascend_from_sorted {V} p (m : smap V) : msorted m -> msorted (ascend_from p m).
Proof.
  induction m as [|[k' v'] r IH]; cbn; intros H; [exact H|].
  destruct (bytes_ltb k' p); [apply IH; eapply msorted_tail; exact H | exact H].
Qed.

Lemma ascend_from_ge {V} p (m : smap V) :
  msorted m -> Forall (fun k => bytes_leb p k = true) (keys (ascend_from p m)).
Proof.
  induction m as [|[k' v'] r IH]; cbn; intros H; [constructor|].
  destruct (bytes_ltb k' p) eqn:E; [apply IH; eapply msorted_tail; exact H|].
  apply ltb_false_leb in E. apply msorted_inv in H. destruct H as [_ H]. cbn. constructor; [exact E|].
  rewrite Forall_forall in *. intros x Hx. apply bytes_ltb_leb. eapply leb_ltb_trans; [exact E | apply H; exact Hx].
Qed.

Lemma in_keys_get {V} k (m : smap V) : In k (keys m) -> exists v, get k m = Some v.
Proof.
  induction m as [|[k' v'] r IH]; cbn; [tauto|]. intros [->|H].
  - rewrite bytes_eqb_refl. eexists; reflexivity.
  - destruct (bytes_eqb k k'); [eexists; reflexivity | apply IH; exact H].
Qed.

(* ------------------------------------------------------------------ 2. exec / replay *)

Lemma lookup_nil k i : lookup k i [] = None.
Proof. reflexivity. Qed.

Lemma lookup_set_same k c s i : lookup k i (set k c s) = get i c.
Proof. unfold lookup. rewrite get_set_same. reflexivity. Qed.

Lemma lookup_set_other k k' c s i : k <> k' -> lookup k i (set k' c s) = lookup k i s.
Proof. intros H. unfold lookup. rewrite get_set_other by exact H. reflexivity. Qed.

Lemma lookup_del_same k s i : msorted s -> lookup k i (del k s) = None.
Proof. intros H. unfold lookup. rewrite get_del_same by exact H. reflexivity. Qed.

Lemma lookup_del_other k k' s i : k <> k' -> lookup k i (del k' s) = lookup k i s.
Proof. intros H. unfold lookup. rewrite get_del_other by exact H. reflexivity. Qed.

Lemma lookup_some s k i v : lookup k i s = Some v -> exists col, get k s = Some col /\ get i col = Some v.
Proof. unfold lookup. destruct (get k s) as [col|]; [|discriminate]. intros H. exists col. auto. Qed.

Lemma obj_eta o : mkObj (o_geo o) (o_fields o) (o_dl o) = o.
Proof. destruct o; reflexivity. Qed.

(* well-formedness *)
Lemma wf_nil : wf [].
Proof. split; constructor. Qed.

Lemma wfc_nil : wfc [].
Proof. split; constructor. Qed.

Lemma wf_get s k col : wf s -> get k s = Some col -> wfc col.
Proof. intros [_ HF] Hg. exact (Forall_get _ _ _ _ HF Hg). Qed.

Lemma wfc_get col i o : wfc col -> get i col = Some o -> msorted (o_fields o).
Proof. intros [_ HF] Hg. exact (Forall_get _ _ _ _ HF Hg). Qed.

Lemma wf_lookup s k i o : wf s -> lookup k i s = Some o -> msorted (o_fields o).
Proof.
  intros Hwf H. destruct (lookup_some _ _ _ _ H) as [col [Hk Hi]].
  eapply wfc_get; [eapply wf_get; eauto | exact Hi].
Qed.

Lemma wfc_set col i o : wfc col -> msorted (o_fields o) -> wfc (set i o col).
Proof. intros [H1 H2] Ho. split; [apply msorted_set; exact H1 | apply Forall_set; assumption]. Qed.

Lemma wfc_del col i : wfc col -> wfc (del i col).
Proof. intros [H1 H2]. split; [apply msorted_del; exact H1 | apply Forall_del; exact H2]. Qed.

Lemma keys_filter_in {V} (f : bytes * V -> bool) (m : smap V) x : In x (keys (filter f m)) -> In x (keys m).
Proof.
  unfold keys. intros H. apply in_map_iff in H. destruct H as [kv [<- H]]. apply filter_In in H.
  apply in_map. tauto.
Qed.

Lemma msorted_filter {V} (f : bytes * V -> bool) (m : smap V) : msorted m -> msorted (filter f m).
Proof.
  induction m as [|[k v] r IH]; intros Hs; cbn; [exact Hs|].
  pose proof (msorted_inv _ _ _ Hs) as [Hr Hall]. destruct (f (k, v)); [|apply IH; exact Hr].
  apply msorted_cons; [apply IH; exact Hr|]. rewrite Forall_forall in *. intros x Hx. apply Hall.
  eapply keys_filter_in; exact Hx.
Qed.

Lemma Forall_filter {A} (Q : A -> Prop) f (l : list A) : Forall Q l -> Forall Q (filter f l).
Proof. rewrite !Forall_forall. intros H x Hx. apply filter_In in Hx. apply H; tauto. Qed.

Lemma wfc_filter col f : wfc col -> wfc (filter f col).
Proof. intros [H1 H2]. split; [apply msorted_filter; exact H1 | apply Forall_filter; exact H2]. Qed.

Lemma wf_set s k col : wf s -> wfc col -> wf (set k col s).
Proof. intros [H1 H2] Hc. split; [apply msorted_set; exact H1 | apply Forall_set; assumption]. Qed.

Lemma wf_del s k : wf s -> wf (del k s).
Proof. intros [H1 H2]. split; [apply msorted_del; exact H1 | apply Forall_del; exact H2]. Qed.

Lemma wf_put_col s k col : wf s -> wfc col -> wf (put_col k col s).
Proof. intros Hs Hc. unfold put_col. destruct col; [apply wf_del; exact Hs | apply wf_set; assumption]. Qed.

(* fields *)
Lemma fset1_sorted fs u : msorted fs -> msorted (fset1 fs u).
Proof. intros H. unfold fset1. destruct (snd u); [apply msorted_set | apply msorted_del]; exact H. Qed.

Lemma apply_fields_sorted us : forall fs, msorted fs -> msorted (apply_fields fs us).
Proof. unfold apply_fields. induction us as [|u r IH]; intros fs H; cbn; [exact H|]. apply IH, fset1_sorted, H. Qed.

Lemma apply_fields_app fs a b : apply_fields fs (a ++ b) = apply_fields (apply_fields fs a) b.
Proof. unfold apply_fields. apply fold_left_app. Qed.

Lemma ofval_eqb_eq a b : ofval_eqb a b = true -> a = b.
Proof. destruct a, b; cbn; try discriminate; try reflexivity. intros H. apply bytes_eqb_eq in H. congruence. Qed.

Lemma fset1_same fs u : msorted fs -> get (fst u) fs = snd u -> fset1 fs u = fs.
Proof.
  intros Hs H. unfold fset1. destruct (snd u) as [v|]; [apply set_same | apply del_absent]; assumption.
Qed.

Lemma fset_loop_apply us : forall fs n, msorted fs -> fst (fset_loop fs us n) = apply_fields fs us.
Proof.
  induction us as [|u r IH]; intros fs n Hs; cbn; [reflexivity|].
  destruct (ofval_eqb (get (fst u) fs) (snd u)) eqn:E.
  - apply ofval_eqb_eq in E. rewrite (fset1_same fs u Hs E). apply IH; exact Hs.
  - apply IH. apply fset1_sorted; exact Hs.
Qed.

Lemma fset_loop_count us : forall fs n,
  n <= snd (fset_loop fs us n) /\ (snd (fset_loop fs us n) = n -> fst (fset_loop fs us n) = fs).
Proof.
  induction us as [|u r IH]; intros fs n; cbn; [auto|].
  destruct (ofval_eqb (get (fst u) fs) (snd u)); [apply IH|].
  destruct (IH (fset1 fs u) (S n)) as [H1 H2]. split; lia.
Qed.

(* collections inside the dataset *)
Lemma lookup_upd s k' col i' o k i :
  (forall j, get j col = lookup k' j s) ->
  lookup k i (set k' (set i' o col) s) = if bytes_eqb k k' && bytes_eqb i i' then Some o else lookup k i s.
Proof.
  intros Hc. destruct (bytes_eqb k k') eqn:Ek; cbn.
  - apply bytes_eqb_eq in Ek; subst k'. rewrite lookup_set_same. destruct (bytes_eqb i i') eqn:Ei.
    + apply bytes_eqb_eq in Ei; subst i'. apply get_set_same.
    + apply eqb_false_neq in Ei. rewrite get_set_other by exact Ei. apply Hc.
  - apply eqb_false_neq in Ek. apply lookup_set_other; exact Ek.
Qed.

Lemma col_lookup (s : st) k (col : coll) : get k s = Some col -> forall j, get j col = lookup k j s.
Proof. intros H j. unfold lookup. rewrite H. reflexivity. Qed.

Lemma lookup_put_col s k' col' k i : msorted s ->
  lookup k i (put_col k' col' s) = if bytes_eqb k k' then get i col' else lookup k i s.
Proof.
  intros Hs. unfold put_col. destruct (bytes_eqb k k') eqn:Ek.
  - apply bytes_eqb_eq in Ek; subst k'. destruct col'; [apply lookup_del_same; exact Hs | apply lookup_set_same].
  - apply eqb_false_neq in Ek. destruct col'; [apply lookup_del_other | apply lookup_set_other]; exact Ek.
Qed.

Lemma get_filter_key {V} (p : bytes -> bool) (m : smap V) i :
  get i (filter (fun iv => negb (p (fst iv))) m) = if p i then None else get i m.
Proof.
  induction m as [|[k v] r IH]; cbn; [destruct (p i); reflexivity|].
  destruct (p k) eqn:Ep; cbn.
  - rewrite IH. destruct (bytes_eqb i k) eqn:E; [|reflexivity]. apply bytes_eqb_eq in E; subst. rewrite Ep. reflexivity.
  - destruct (bytes_eqb i k) eqn:E.
    + apply bytes_eqb_eq in E; subst. rewrite Ep. reflexivity.
    + exact IH.
Qed.

Lemma filter_len_le {A} (f : A -> bool) (l : list A) : length (filter f l) <= length l.
Proof. induction l as [|x l IH]; cbn; [lia|]. destruct (f x); cbn; lia. Qed.

Lemma filter_length_eq {A} f (l : list A) : length (filter f l) = length l -> filter f l = l.
Proof.
  induction l as [|x l IH]; cbn; [reflexivity|]. destruct (f x); cbn.
  - intros H. f_equal. apply IH. lia.
  - intros H. pose proof (filter_len_le f l). lia.
Qed.

Lemma exec_wf s c : wf s -> wf (fst (exec s c)).
Proof.
  intros Hwf. destruct c as [k i us ex geo|k i us|k i|k i|k i|k pat|k|a b|]; cbn.
  - apply wf_set; [exact Hwf|]. destruct (get k s) as [col|] eqn:E.
    + pose proof (wf_get _ _ _ Hwf E) as Hc. apply wfc_set; [exact Hc|]. cbn. apply apply_fields_sorted.
      destruct (get i col) eqn:Ei; [eapply wfc_get; eauto | constructor].
    + apply wfc_set; [apply wfc_nil|]. cbn. apply apply_fields_sorted. constructor.
  - destruct (get k s) as [col|] eqn:E; [|exact Hwf]. destruct (get i col) as [o|] eqn:Ei; [|exact Hwf].
    pose proof (wf_get _ _ _ Hwf E) as Hc. pose proof (wfc_get _ _ _ Hc Ei) as Ho.
    pose proof (fset_loop_apply us (o_fields o) 0 Ho) as Hfl.
    destruct (fset_loop (o_fields o) us 0) as [fs' n]. cbn in *. subst fs'.
    apply wf_set; [exact Hwf|]. apply wfc_set; [exact Hc|]. cbn. apply apply_fields_sorted; exact Ho.
  - destruct (get k s) as [col|] eqn:E; [|exact Hwf]. destruct (get i col) as [o|] eqn:Ei; [|exact Hwf]. cbn.
    pose proof (wf_get _ _ _ Hwf E) as Hc. apply wf_set; [exact Hwf|]. apply wfc_set; [exact Hc|]. cbn. eapply wfc_get; eauto.
  - destruct (get k s) as [col|] eqn:E; [|exact Hwf]. destruct (get i col) as [o|] eqn:Ei; [|exact Hwf].
    destruct (o_dl o); [|exact Hwf]. cbn.
    pose proof (wf_get _ _ _ Hwf E) as Hc. apply wf_set; [exact Hwf|]. apply wfc_set; [exact Hc|]. cbn. eapply wfc_get; eauto.
  - destruct (get k s) as [col|] eqn:E; [|exact Hwf]. destruct (get i col) eqn:Ei; [|exact Hwf]. cbn.
    apply wf_put_col; [exact Hwf|]. apply wfc_del. eapply wf_get; eauto.
  - destruct (get k s) as [col|] eqn:E; [|exact Hwf].
    destruct (Nat.eqb _ _); [exact Hwf|]. cbn. apply wf_put_col; [exact Hwf|]. apply wfc_filter. eapply wf_get; eauto.
  - destruct (get k s) eqn:E; [|exact Hwf]. cbn. apply wf_del; exact Hwf.
  - destruct (get a s) as [col|] eqn:E; [|exact Hwf]. cbn. apply wf_set; [apply wf_del, wf_del; exact Hwf|].
    eapply wf_get; eauto.
  - apply wf_nil.
Qed.

Definition nr_cmd (c : cmd) : bool := match c with CRename _ _ => false | _ => true end.

Definition samepair (k i k' i' : bytes) : bool := bytes_eqb k k' && bytes_eqb i i'.

Lemma samepair_true k i k' i' : samepair k i k' i' = true -> k = k' /\ i = i'.
Proof. unfold samepair. intros H. apply andb_true_iff in H. destruct H as [H1 H2]. apply bytes_eqb_eq in H1, H2. auto. Qed.

Lemma samepair_refl k i : samepair k i k i = true.
Proof. unfold samepair. rewrite !bytes_eqb_refl. reflexivity. Qed.

Definition oflds (x : option obj) : smap fval := match x with Some o => o_fields o | None => [] end.

(* the effect of a (non-RENAME) command on the object (k,i), as a function of its old value *)
Definition act (c : cmd) (k i : bytes) (x : option obj) : option obj :=
  match c with
  | CSet k' i' us ex geo =>
      if samepair k i k' i' then Some (mkObj geo (apply_fields (oflds x) us) ex) else x
  | CFset k' i' us =>
      if samepair k i k' i'
      then option_map (fun o => mkObj (o_geo o) (apply_fields (o_fields o) us) (o_dl o)) x else x
  | CExpire k' i' =>
      if samepair k i k' i' then option_map (fun o => mkObj (o_geo o) (o_fields o) true) x else x
  | CPersist k' i' =>
      if samepair k i k' i' then option_map (fun o => mkObj (o_geo o) (o_fields o) false) x else x
  | CDel k' i' => if samepair k i k' i' then None else x
  | CPdel k' pat => if bytes_eqb k k' && pmatch pat i then None else x
  | CDrop k' => if bytes_eqb k k' then None else x
  | CRename _ _ => x
  | CFlushdb => None
  end.

Lemma exec_lookup s c k i : wf s -> nr_cmd c = true ->
  lookup k i (fst (exec s c)) = act c k i (lookup k i s).
Proof.
  intros Hwf Hnr. pose proof Hwf as [Hs _].
  destruct c as [k' i' us ex geo|k' i' us|k' i'|k' i'|k' i'|k' pat|k'|a b|]; cbn [exec act]; try discriminate.
  - (* SET *)
    set (col := match get k' s with Some c => c | None => [] end).
    assert (Hc : forall j, get j col = lookup k' j s) by (intros j; unfold col, lookup; destruct (get k' s); reflexivity).
    cbn [fst]. rewrite (lookup_upd s k' col i' _ k i Hc). fold (samepair k i k' i').
    destruct (samepair k i k' i') eqn:E; [|reflexivity]. apply samepair_true in E. destruct E; subst k' i'.
    rewrite <- Hc. destruct (get i col); reflexivity.
  - (* FSET *)
    destruct (get k' s) as [col|] eqn:Ek.
    + destruct (get i' col) as [o|] eqn:Ei.
      * pose proof (wfc_get _ _ _ (wf_get _ _ _ Hwf Ek) Ei) as Ho.
        pose proof (fset_loop_apply us (o_fields o) 0 Ho) as Hfl.
        destruct (fset_loop (o_fields o) us 0) as [fs' n]. cbn [fst] in *. subst fs'.
        rewrite (lookup_upd s k' col i' _ k i (col_lookup _ _ _ Ek)). fold (samepair k i k' i').
        destruct (samepair k i k' i') eqn:E; [|reflexivity]. apply samepair_true in E. destruct E; subst k' i'.
        unfold lookup. rewrite Ek, Ei. reflexivity.
      * cbn [fst]. destruct (samepair k i k' i') eqn:E; [|reflexivity]. apply samepair_true in E. destruct E; subst k' i'.
        unfold lookup. rewrite Ek, Ei. reflexivity.
    + cbn [fst]. destruct (samepair k i k' i') eqn:E; [|reflexivity]. apply samepair_true in E. destruct E; subst k' i'.
      unfold lookup. rewrite Ek. reflexivity.
  - (* EXPIRE *)
    destruct (get k' s) as [col|] eqn:Ek.
    + destruct (get i' col) as [o|] eqn:Ei; cbn [fst].
      * rewrite (lookup_upd s k' col i' _ k i (col_lookup _ _ _ Ek)). fold (samepair k i k' i').
        destruct (samepair k i k' i') eqn:E; [|reflexivity]. apply samepair_true in E. destruct E; subst k' i'.
        unfold lookup. rewrite Ek, Ei. reflexivity.
      * destruct (samepair k i k' i') eqn:E; [|reflexivity]. apply samepair_true in E. destruct E; subst k' i'.
        unfold lookup. rewrite Ek, Ei. reflexivity.
    + cbn [fst]. destruct (samepair k i k' i') eqn:E; [|reflexivity]. apply samepair_true in E. destruct E; subst k' i'.
      unfold lookup. rewrite Ek. reflexivity.
  - (* PERSIST *)
    destruct (get k' s) as [col|] eqn:Ek.
    + destruct (get i' col) as [o|] eqn:Ei; cbn [fst].
      * destruct (o_dl o) eqn:Ed; cbn [fst].
        -- rewrite (lookup_upd s k' col i' _ k i (col_lookup _ _ _ Ek)). fold (samepair k i k' i').
           destruct (samepair k i k' i') eqn:E; [|reflexivity]. apply samepair_true in E. destruct E; subst k' i'.
           unfold lookup. rewrite Ek, Ei. reflexivity.
        -- destruct (samepair k i k' i') eqn:E; [|reflexivity]. apply samepair_true in E. destruct E; subst k' i'.
           unfold lookup. rewrite Ek, Ei. cbn. rewrite <- Ed, obj_eta. reflexivity.
      * destruct (samepair k i k' i') eqn:E; [|reflexivity]. apply samepair_true in E. destruct E; subst k' i'.
        unfold lookup. rewrite Ek, Ei. reflexivity.
    + cbn [fst]. destruct (samepair k i k' i') eqn:E; [|reflexivity]. apply samepair_true in E. destruct E; subst k' i'.
      unfold lookup. rewrite Ek. reflexivity.
  - (* DEL *)
    destruct (get k' s) as [col|] eqn:Ek.
    + destruct (get i' col) as [o|] eqn:Ei; cbn [fst].
      * rewrite lookup_put_col by exact Hs. unfold samepair. destruct (bytes_eqb k k') eqn:E; cbn [andb]; [|reflexivity].
        apply bytes_eqb_eq in E; subst k'. destruct (bytes_eqb i i') eqn:E2.
        -- apply bytes_eqb_eq in E2; subst i'. apply get_del_same. apply (wf_get _ _ _ Hwf Ek).
        -- apply eqb_false_neq in E2. rewrite get_del_other by exact E2. apply (col_lookup _ _ _ Ek).
      * destruct (samepair k i k' i') eqn:E; [|reflexivity]. apply samepair_true in E. destruct E; subst k' i'.
        unfold lookup. rewrite Ek, Ei. reflexivity.
    + cbn [fst]. destruct (samepair k i k' i') eqn:E; [|reflexivity]. apply samepair_true in E. destruct E; subst k' i'.
      unfold lookup. rewrite Ek. reflexivity.
  - (* PDEL *)
    destruct (get k' s) as [col|] eqn:Ek.
    + pose proof (get_filter_key (pmatch pat) col i) as Hf.
      destruct (Nat.eqb_spec (length (filter (fun iv => negb (pmatch pat (fst iv))) col)) (length col)) as [El|El]; cbn [fst].
      * apply filter_length_eq in El. rewrite El in Hf.
        destruct (bytes_eqb k k') eqn:E; cbn [andb]; [|reflexivity]. apply bytes_eqb_eq in E; subst k'.
        destruct (pmatch pat i); [|reflexivity]. unfold lookup. rewrite Ek. exact Hf.
      * rewrite lookup_put_col by exact Hs. destruct (bytes_eqb k k') eqn:E; cbn [andb]; [|reflexivity].
        apply bytes_eqb_eq in E; subst k'. rewrite Hf. destruct (pmatch pat i); [reflexivity|]. apply (col_lookup _ _ _ Ek).
    + cbn [fst]. destruct (bytes_eqb k k') eqn:E; cbn [andb]; [|reflexivity]. apply bytes_eqb_eq in E; subst k'.
      destruct (pmatch pat i); [|reflexivity]. unfold lookup. rewrite Ek. reflexivity.
  - (* DROP *)
    destruct (bytes_eqb k k') eqn:E.
    + apply bytes_eqb_eq in E; subst k'. destruct (get k s) eqn:Ek; cbn [fst].
      * apply lookup_del_same; exact Hs.
      * unfold lookup. rewrite Ek. reflexivity.
    + apply eqb_false_neq in E. destruct (get k' s); cbn [fst]; [apply lookup_del_other; exact E | reflexivity].
  - reflexivity.
Qed.

(* a list of commands seen from the object (k,i) *)
Fixpoint acts (l : list cmd) (k i : bytes) (x : option obj) : option obj :=
  match l with [] => x | c :: r => acts r k i (act c k i x) end.

Lemma acts_app a b k i x : acts (a ++ b) k i x = acts b k i (acts a k i x).
Proof. revert x. induction a as [|c a IH]; intros x; cbn; [reflexivity | apply IH]. Qed.

Lemma replay_app a b s : replay (a ++ b) s = replay b (replay a s).
Proof. revert s. induction a as [|c a IH]; intros s; cbn; [reflexivity | apply IH]. Qed.

Lemma replay_wf l s : wf s -> wf (replay l s).
Proof. revert s. induction l as [|c l IH]; intros s H; cbn; [exact H | apply IH, exec_wf; exact H]. Qed.

Lemma replay_lookup l : forall s k i, wf s -> forallb nr_cmd l = true ->
  lookup k i (replay l s) = acts l k i (lookup k i s).
Proof.
  induction l as [|c l IH]; intros s k i Hwf Hnr; cbn; [reflexivity|].
  cbn in Hnr. apply andb_true_iff in Hnr. destruct Hnr as [Hc Hl].
  rewrite IH by (try apply exec_wf; assumption). rewrite exec_lookup by assumption. reflexivity.
Qed.

Ltac miss Ek Ei :=
  match goal with
  | |- context [samepair ?k ?i ?k' ?i'] =>
      let E := fresh "E" in
      destruct (samepair k i k' i') eqn:E;
      [apply samepair_true in E; destruct E; subst; unfold lookup; rewrite ?Ek, ?Ei; reflexivity | reflexivity]
  end.

(* a command that was not logged did not change anything *)
Lemma exec_unlogged s c k i : wf s -> logged (snd (exec s c)) = false ->
  act c k i (lookup k i s) = lookup k i s.
Proof.
  intros Hwf. destruct c as [k' i' us ex geo|k' i' us|k' i'|k' i'|k' i'|k' pat|k'|a b|]; cbn [exec act]; try discriminate.
  - destruct (get k' s) as [col|] eqn:Ek; [|intros _; miss Ek Ek].
    destruct (get i' col) as [o|] eqn:Ei; [|intros _; miss Ek Ei].
    pose proof (wfc_get _ _ _ (wf_get _ _ _ Hwf Ek) Ei) as Ho.
    pose proof (fset_loop_apply us (o_fields o) 0 Ho) as Hfl.
    pose proof (fset_loop_count us (o_fields o) 0) as [_ Hcnt].
    destruct (fset_loop (o_fields o) us 0) as [fs' n]. cbn [fst snd] in *. destruct n; [|discriminate]. intros _.
    destruct (samepair k i k' i') eqn:E; [|reflexivity]. apply samepair_true in E. destruct E; subst k' i'.
    unfold lookup. rewrite Ek, Ei. cbn. rewrite <- Hfl, (Hcnt eq_refl), obj_eta. reflexivity.
  - destruct (get k' s) as [col|] eqn:Ek; [|intros _; miss Ek Ek].
    destruct (get i' col) as [o|] eqn:Ei; [discriminate|intros _; miss Ek Ei].
  - destruct (get k' s) as [col|] eqn:Ek; [|intros _; miss Ek Ek].
    destruct (get i' col) as [o|] eqn:Ei; [|intros _; miss Ek Ei].
    destruct (o_dl o) eqn:Ed; [discriminate|]. intros _.
    destruct (samepair k i k' i') eqn:E; [|reflexivity]. apply samepair_true in E. destruct E; subst k' i'.
    unfold lookup. rewrite Ek, Ei. cbn. rewrite <- Ed, obj_eta. reflexivity.
  - destruct (get k' s) as [col|] eqn:Ek; [|intros _; miss Ek Ek].
    destruct (get i' col) as [o|] eqn:Ei; [discriminate|intros _; miss Ek Ei].
  - destruct (get k' s) as [col|] eqn:Ek.
    + pose proof (get_filter_key (pmatch pat) col i) as Hf.
      destruct (Nat.eqb_spec (length (filter (fun iv => negb (pmatch pat (fst iv))) col)) (length col)) as [El|El];
        [|discriminate]. intros _. apply filter_length_eq in El. rewrite El in Hf.
      destruct (bytes_eqb k k') eqn:E; cbn [andb]; [|reflexivity]. apply bytes_eqb_eq in E; subst k'.
      destruct (pmatch pat i); [|reflexivity]. unfold lookup. rewrite Ek. symmetry; exact Hf.
    + intros _. destruct (bytes_eqb k k') eqn:E; cbn [andb]; [|reflexivity]. apply bytes_eqb_eq in E; subst k'.
      destruct (pmatch pat i); [|reflexivity]. unfold lookup. rewrite Ek. reflexivity.
  - destruct (get k' s) eqn:Ek; [discriminate|]. intros _.
    destruct (bytes_eqb k k') eqn:E; [|reflexivity]. apply bytes_eqb_eq in E; subst k'. unfold lookup. rewrite Ek. reflexivity.
  - reflexivity.
Qed.

(* FSET / EXPIRE / PERSIST act on (k,i) only when the object exists *)
Definition cond (c : cmd) (k i : bytes) : bool :=
  match c with
  | CFset k' i' _ | CExpire k' i' | CPersist k' i' => samepair k i k' i'
  | _ => false
  end.

Lemma exec_logged_cond s c k i : logged (snd (exec s c)) = true -> cond c k i = true -> lookup k i s <> None.
Proof.
  destruct c as [k' i' us ex geo|k' i' us|k' i'|k' i'|k' i'|k' pat|k'|a b|]; cbn [exec cond]; try discriminate;
    intros Hl Hc; apply samepair_true in Hc; destruct Hc; subst k' i'; unfold lookup;
    (destruct (get k s) as [col|]; [|discriminate Hl]); (destruct (get i col); [discriminate | discriminate Hl]).
Qed.

(* classification of the other actions *)
Definition isreset (c : cmd) (k i : bytes) : bool :=
  match c with
  | CDel k' i' => samepair k i k' i'
  | CPdel k' pat => bytes_eqb k k' && pmatch pat i
  | CDrop k' => bytes_eqb k k'
  | CFlushdb => true
  | _ => false
  end.

Definition isset (c : cmd) (k i : bytes) : bool :=
  match c with CSet k' i' _ _ _ => samepair k i k' i' | _ => false end.

(* the action on an existing object *)
Definition gstep (c : cmd) (k i : bytes) (g : bytes) : bytes :=
  match c with CSet k' i' _ _ geo => if samepair k i k' i' then geo else g | _ => g end.
Definition dstep (c : cmd) (k i : bytes) (d : bool) : bool :=
  match c with
  | CSet k' i' _ ex _ => if samepair k i k' i' then ex else d
  | CExpire k' i' => if samepair k i k' i' then true else d
  | CPersist k' i' => if samepair k i k' i' then false else d
  | _ => d
  end.
Definition ustep (c : cmd) (k i : bytes) : fupd :=
  match c with
  | CSet k' i' us _ _ | CFset k' i' us => if samepair k i k' i' then us else []
  | _ => []
  end.
Definition tr (c : cmd) (k i : bytes) (o : obj) : obj :=
  mkObj (gstep c k i (o_geo o)) (apply_fields (o_fields o) (ustep c k i)) (dstep c k i (o_dl o)).

Definition e0 : obj := mkObj [] [] false.
Definition base (x : option obj) : obj := match x with Some o => o | None => e0 end.
Definition issome {A} (x : option A) : bool := match x with Some _ => true | None => false end.

Lemma act_reset c k i x : isreset c k i = true -> act c k i x = None.
Proof. destruct c; cbn; try discriminate; intros H; try rewrite H; reflexivity. Qed.

Lemma act_some c k i o : isreset c k i = false -> act c k i (Some o) = Some (tr c k i o).
Proof.
  unfold tr. destruct c; cbn; intros H; try discriminate; try rewrite H;
    try (destruct (samepair _ _ _ _)); cbn; rewrite ?obj_eta; reflexivity.
Qed.

Lemma act_none c k i : isreset c k i = false -> cond c k i = false ->
  act c k i None = if isset c k i then Some (tr c k i e0) else None.
Proof.
  unfold tr. destruct c; cbn; intros H1 H2; try discriminate; try rewrite H1; try rewrite H2;
    try (destruct (samepair _ _ _ _)); reflexivity.
Qed.

Lemma tr_nop c k i o : isset c k i = false -> cond c k i = false -> tr c k i o = o.
Proof.
  unfold tr. destruct c; cbn; intros H1 H2; try rewrite H1; try rewrite H2; cbn; apply obj_eta.
Qed.

Fixpoint trs (l : list cmd) (k i : bytes) (o : obj) : obj :=
  match l with [] => o | c :: r => trs r k i (tr c k i o) end.

Definition has_reset (l : list cmd) (k i : bytes) : bool := existsb (fun c => isreset c k i) l.
Definition has_set (l : list cmd) (k i : bytes) : bool := existsb (fun c => isset c k i) l.

(* every conditional entry for (k,i) finds the object: true of a shrinklog, whose entries were
   all `Updated` when they ran *)
Fixpoint okl (l : list cmd) (k i : bytes) (x : option obj) : Prop :=
  match l with
  | [] => True
  | c :: r => (cond c k i = true -> x <> None) /\ okl r k i (act c k i x)
  end.

Lemma okl_app a b k i x : okl (a ++ b) k i x <-> okl a k i x /\ okl b k i (acts a k i x).
Proof.
  revert x. induction a as [|c a IH]; intros x; cbn; [tauto|]. rewrite IH. tauto.
Qed.

Lemma acts_reset_const l k i : has_reset l k i = true -> forall x x', acts l k i x = acts l k i x'.
Proof.
  induction l as [|c l IH]; cbn; [discriminate|]. intros H x x'. destruct (isreset c k i) eqn:E.
  - rewrite !(act_reset c k i _ E). reflexivity.
  - apply IH. exact H.
Qed.

Lemma acts_some l k i : forall o, has_reset l k i = false -> acts l k i (Some o) = Some (trs l k i o).
Proof.
  induction l as [|c l IH]; intros o H; cbn; [reflexivity|]. cbn in H. apply orb_false_iff in H. destruct H as [H1 H2].
  rewrite act_some by exact H1. apply IH; exact H2.
Qed.

Lemma acts_trs l k i : forall x, has_reset l k i = false -> okl l k i x ->
  acts l k i x = if issome x || has_set l k i then Some (trs l k i (base x)) else None.
Proof.
  induction l as [|c l IH]; intros x H Hok; cbn [acts trs has_set existsb].
  - destruct x; reflexivity.
  - cbn in H. apply orb_false_iff in H. destruct H as [H1 H2]. destruct Hok as [Hc Hok].
    destruct x as [o|].
    + rewrite act_some in * by exact H1. rewrite IH by assumption. reflexivity.
    + assert (Hcf : cond c k i = false) by (destruct (cond c k i); [exfalso; apply Hc; reflexivity | reflexivity]).
      rewrite act_none in * by assumption. cbn [issome orb base]. destruct (isset c k i) eqn:Es; cbn [orb].
      * rewrite IH by assumption. reflexivity.
      * rewrite IH by assumption. cbn [issome orb base]. rewrite (tr_nop c k i e0 Es Hcf). reflexivity.
Qed.

(* component form of the composed action *)
Fixpoint G (l : list cmd) (k i : bytes) (g : bytes) : bytes :=
  match l with [] => g | c :: r => G r k i (gstep c k i g) end.
Fixpoint D (l : list cmd) (k i : bytes) (d : bool) : bool :=
  match l with [] => d | c :: r => D r k i (dstep c k i d) end.
Fixpoint US (l : list cmd) (k i : bytes) : fupd :=
  match l with [] => [] | c :: r => ustep c k i ++ US r k i end.

Lemma trs_form l k i : forall o,
  trs l k i o = mkObj (G l k i (o_geo o)) (apply_fields (o_fields o) (US l k i)) (D l k i (o_dl o)).
Proof.
  induction l as [|c l IH]; intros o; cbn [trs G D US]; [symmetry; apply obj_eta|].
  rewrite IH. unfold tr. cbn [o_geo o_fields o_dl]. rewrite apply_fields_app. reflexivity.
Qed.

Definition ioc {A} (f : A -> A) : Prop := (forall a, f a = a) \/ (exists c, forall a, f a = c).

Lemma ioc_idem {A} (f : A -> A) a : ioc f -> f (f a) = f a.
Proof. intros [H|[c H]]; [rewrite !H; reflexivity | rewrite !H; reflexivity]. Qed.

Lemma ioc_comp {A} (f g : A -> A) : ioc f -> ioc g -> ioc (fun a => g (f a)).
Proof.
  intros [Hf|[c Hf]] [Hg|[d Hg]].
  - left. intros a. rewrite Hf, Hg. reflexivity.
  - right. exists d. intros a. apply Hg.
  - right. exists c. intros a. rewrite Hg, Hf. reflexivity.
  - right. exists d. intros a. apply Hg.
Qed.

Lemma G_ioc l k i : ioc (G l k i).
Proof.
  induction l as [|c l IH]; cbn [G]; [left; reflexivity|].
  apply (ioc_comp (gstep c k i) (G l k i)); [|exact IH].
  destruct c; unfold gstep; try (left; reflexivity).
  match goal with |- context [samepair ?a ?b ?c ?d] => destruct (samepair a b c d) end; [right; eexists; reflexivity | left; reflexivity].
Qed.

Lemma D_ioc l k i : ioc (D l k i).
Proof.
  induction l as [|c l IH]; cbn [D]; [left; reflexivity|].
  apply (ioc_comp (dstep c k i) (D l k i)); [|exact IH].
  destruct c; unfold dstep; try (left; reflexivity);
  match goal with |- context [samepair ?a ?b ?c ?d] => destruct (samepair a b c d) end; try (left; reflexivity); right; eexists; reflexivity.
Qed.

(* fields, by name *)
Fixpoint lastupd (n : bytes) (us : fupd) : option (option fval) :=
  match us with
  | [] => None
  | u :: r => match lastupd n r with Some x => Some x | None => if bytes_eqb n (fst u) then Some (snd u) else None end
  end.

Lemma get_fset1 fs u n : msorted fs -> get n (fset1 fs u) = if bytes_eqb n (fst u) then snd u else get n fs.
Proof.
  intros Hs. unfold fset1. destruct (bytes_eqb n (fst u)) eqn:E.
  - apply bytes_eqb_eq in E; subst n. destruct (snd u); [apply get_set_same | apply get_del_same; exact Hs].
  - apply eqb_false_neq in E. destruct (snd u); [apply get_set_other | apply get_del_other]; exact E.
Qed.

Lemma get_apply_fields us : forall fs n, msorted fs ->
  get n (apply_fields fs us) = match lastupd n us with Some u => u | None => get n fs end.
Proof.
  induction us as [|u r IH]; intros fs n Hs; [reflexivity|].
  change (apply_fields fs (u :: r)) with (apply_fields (fset1 fs u) r).
  rewrite IH by (apply fset1_sorted; exact Hs). cbn [lastupd]. destruct (lastupd n r); [reflexivity|].
  rewrite get_fset1 by exact Hs. destruct (bytes_eqb n (fst u)); reflexivity.
Qed.

Lemma apply_fields_idem fs us : msorted fs -> apply_fields (apply_fields fs us) us = apply_fields fs us.
Proof.
  intros Hs. pose proof (apply_fields_sorted us fs Hs) as H1.
  apply smap_ext; [apply apply_fields_sorted; exact H1 | exact H1|]. intros n.
  rewrite get_apply_fields by exact H1. destruct (lastupd n us) eqn:E; [|reflexivity].
  rewrite get_apply_fields by exact Hs. rewrite E. reflexivity.
Qed.

Lemma trs_idem l k i o : msorted (o_fields o) -> trs l k i (trs l k i o) = trs l k i o.
Proof.
  intros Hs. rewrite (trs_form l k i (trs l k i o)). rewrite (trs_form l k i o). cbn [o_geo o_fields o_dl].
  rewrite (ioc_idem _ _ (G_ioc l k i)), (ioc_idem _ _ (D_ioc l k i)), apply_fields_idem by exact Hs. reflexivity.
Qed.

Definition fsorted (x : option obj) : Prop := match x with Some o => msorted (o_fields o) | None => True end.

(* replaying a shrinklog on its own result changes nothing, per object *)
Theorem acts_idem l k i x0 : fsorted x0 -> okl l k i x0 ->
  acts l k i (acts l k i x0) = acts l k i x0.
Proof.
  intros Hs Hok. destruct (has_reset l k i) eqn:Hr; [apply acts_reset_const; exact Hr|].
  rewrite (acts_trs l k i x0 Hr Hok). destruct (issome x0 || has_set l k i) eqn:E.
  - rewrite acts_some by exact Hr. rewrite trs_idem; [reflexivity|]. destruct x0; [exact Hs | constructor].
  - apply orb_false_iff in E. destruct E as [E1 E2]. destruct x0; [discriminate|].
    rewrite (acts_trs l k i None Hr Hok). cbn [issome orb]. rewrite E2. reflexivity.
Qed.

(* the form used for the new file: the snapshot holds the value at some earlier time (after the
   prefix l1 of the final log l1 ++ l2); replaying the whole log on it gives the final value *)
Theorem log_idempotent k i l1 l2 x0 : fsorted x0 -> okl (l1 ++ l2) k i x0 ->
  acts (l1 ++ l2) k i (acts l1 k i x0) = acts (l1 ++ l2) k i x0.
Proof.
  intros Hs Hok. apply okl_app in Hok. destruct Hok as [Hok _].
  rewrite !acts_app. rewrite acts_idem by assumption. reflexivity.
Qed.

(* snapshot records *)
Definition is_cset (c : cmd) : Prop := match c with CSet _ _ _ _ _ => True | _ => False end.

Definition rec_lt (a b : cmd) : Prop :=
  match a, b with
  | CSet k i _ _ _, CSet k' i' _ _ _ => bytes_ltb k k' = true \/ (k = k' /\ bytes_ltb i i' = true)
  | _, _ => False
  end.

Definition rec_sorted (l : list cmd) : Prop := Forall is_cset l /\ StronglySorted rec_lt l.

Lemma cset_nr l : Forall is_cset l -> forallb nr_cmd l = true.
Proof. induction 1 as [|c l Hc _ IH]; cbn; [reflexivity|]. rewrite IH. destruct c; cbn in *; tauto. Qed.

Lemma fields_of_inj a : forall b, fields_of a = fields_of b -> a = b.
Proof.
  induction a as [|[n v] a IH]; intros [|[n' v'] b]; cbn; try discriminate; [reflexivity|].
  intros H. inversion H; subst. f_equal. apply IH; assumption.
Qed.

Lemma rec_cmd_inj k i o k' i' o' : rec_cmd k i o = rec_cmd k' i' o' -> k = k' /\ i = i' /\ o = o'.
Proof.
  unfold rec_cmd. intros H. inversion H as [[H1 H2 H3 H4 H5]]. apply fields_of_inj in H3.
  split; [reflexivity|]. split; [reflexivity|]. destruct o, o'; cbn in *; subst; reflexivity.
Qed.

Lemma lastupd_fields_of fs n : msorted fs ->
  lastupd n (fields_of fs) = match get n fs with Some v => Some (Some v) | None => None end.
Proof.
  induction fs as [|[m v] r IH]; intros Hs; [reflexivity|].
  change (fields_of ((m, v) :: r)) with ((m, Some v) :: fields_of r). cbn [lastupd get fst snd].
  pose proof (msorted_inv _ _ _ Hs) as [Hr Hall]. rewrite IH by exact Hr.
  destruct (bytes_eqb n m) eqn:E.
  - apply bytes_eqb_eq in E; subst m. rewrite (get_below _ _ Hall). reflexivity.
  - destruct (get n r); reflexivity.
Qed.

Lemma apply_fields_of fs : msorted fs -> apply_fields [] (fields_of fs) = fs.
Proof.
  intros Hs. apply smap_ext; [apply apply_fields_sorted; constructor | exact Hs|]. intros n.
  rewrite get_apply_fields by constructor. rewrite lastupd_fields_of by exact Hs. destruct (get n fs); reflexivity.
Qed.

Lemma act_rec_none k i o : msorted (o_fields o) -> act (rec_cmd k i o) k i None = Some o.
Proof. intros Hs. cbn. rewrite samepair_refl. cbn. rewrite apply_fields_of by exact Hs. rewrite obj_eta. reflexivity. Qed.

(* the record of an object recreates exactly that object *)
Theorem snapshot_record_exact k i o s : wf s -> msorted (o_fields o) -> lookup k i s = None ->
  lookup k i (fst (exec s (rec_cmd k i o))) = Some o.
Proof. intros Hwf Hs Hl. rewrite exec_lookup by (exact Hwf || reflexivity). rewrite Hl. apply act_rec_none; exact Hs. Qed.

Lemma act_cset_miss c k i x : is_cset c -> isset c k i = false -> act c k i x = x.
Proof. destruct c; cbn; try tauto. intros _ ->. reflexivity. Qed.

Lemma acts_miss l k i x : Forall is_cset l -> (forall c, In c l -> isset c k i = false) -> acts l k i x = x.
Proof.
  induction l as [|c l IH]; intros Hcs Hm; cbn; [reflexivity|]. inversion Hcs; subst.
  rewrite act_cset_miss; [|assumption|apply Hm; left; reflexivity]. apply IH; [assumption|]. intros; apply Hm; right; assumption.
Qed.

Lemma rec_lt_hit a b k i : rec_lt a b -> isset a k i = true -> isset b k i = true -> False.
Proof.
  destruct a, b; cbn; try tauto. intros H Ha Hb. apply samepair_true in Ha, Hb. destruct Ha, Hb; subst.
  rewrite !ltb_irrefl in H. destruct H as [H|[_ H]]; discriminate.
Qed.

Lemma acts_sorted_hit out c k i x : rec_sorted out -> In c out -> isset c k i = true ->
  acts out k i x = act c k i x.
Proof.
  intros [Hcs Hss] Hin Hc. apply in_split in Hin. destruct Hin as [a [b ->]].
  apply Forall_app in Hcs. destruct Hcs as [Hca Hcb]. inversion Hcb; subst.
  apply SS_app_inv in Hss. destruct Hss as [_ [Hsb Hab]]. apply StronglySorted_inv in Hsb. destruct Hsb as [_ Hb].
  rewrite Forall_forall in Hb.
  rewrite acts_app. cbn [acts]. rewrite (acts_miss a).
  - apply acts_miss; [assumption|]. intros c' Hc'. destruct (isset c' k i) eqn:E; [|reflexivity].
    exfalso. eapply rec_lt_hit; [apply Hb; exact Hc' | exact Hc | exact E].
  - assumption.
  - intros c' Hc'. destruct (isset c' k i) eqn:E; [|reflexivity].
    exfalso. eapply rec_lt_hit; [apply Hab; [exact Hc' | left; reflexivity] | exact E | exact Hc].
Qed.

Definition recwf (c : cmd) : Prop := exists k i o, c = rec_cmd k i o /\ msorted (o_fields o).

Lemma isset_rec k i o k' i' : isset (rec_cmd k' i' o) k i = samepair k i k' i'.
Proof. reflexivity. Qed.

Lemma snap_value_some out k i o : rec_sorted out -> Forall recwf out -> In (rec_cmd k i o) out ->
  acts out k i None = Some o.
Proof.
  intros Hrs Hwf Hin. rewrite (acts_sorted_hit out (rec_cmd k i o) k i None Hrs Hin) by (rewrite isset_rec; apply samepair_refl).
  apply act_rec_none. rewrite Forall_forall in Hwf. destruct (Hwf _ Hin) as [k' [i' [o' [Heq Hs]]]].
  apply rec_cmd_inj in Heq. destruct Heq as [_ [_ ->]]. exact Hs.
Qed.

Lemma snap_value_none out k i : rec_sorted out -> Forall recwf out -> (forall o, ~ In (rec_cmd k i o) out) ->
  acts out k i None = None.
Proof.
  intros [Hcs _] Hwf Hno. apply acts_miss; [exact Hcs|]. intros c Hc. rewrite Forall_forall in Hwf.
  destruct (Hwf _ Hc) as [k' [i' [o' [-> _]]]]. rewrite isset_rec. destruct (samepair k i k' i') eqn:E; [|reflexivity].
  apply samepair_true in E. destruct E; subst. exfalso. eapply Hno; exact Hc.
Qed.

(* ------------------------------------------------------------------ 3. scans and one step *)

Definition recs (k : bytes) (l : list (bytes * val)) : list cmd := map (fun iv => rec_cmd k (fst iv) (snd iv)) l.

Lemma in_recs c k l : In c (recs k l) -> exists i v, c = rec_cmd k i v /\ In (i, v) l.
Proof. unfold recs. intros H. apply in_map_iff in H. destruct H as [[i v] [<- H]]. exists i, v. auto. Qed.

Lemma recs_in k l i v : In (i, v) l -> In (rec_cmd k i v) (recs k l).
Proof. intros H. unfold recs. apply in_map_iff. exists (i, v). auto. Qed.

Lemma recs_cset k l : Forall is_cset (recs k l).
Proof. rewrite Forall_forall. intros c H. apply in_recs in H. destruct H as [i [v [-> _]]]. exact I. Qed.

Section Steps.
Variables mk mi : nat.

Lemma keys_scan_spec l : forall acc kd nk, length acc <= mk ->
  keys_scan mk l acc kd nk =
  (acc ++ firstn (mk - length acc) l,
   match skipn (mk - length acc) l with [] => kd | _ :: _ => false end,
   match skipn (mk - length acc) l with [] => nk | y :: _ => y end).
Proof.
  induction l as [|key r IH]; intros acc kd nk Hlen; cbn [keys_scan].
  - rewrite firstn_nil, skipn_nil, app_nil_r. reflexivity.
  - destruct (Nat.eqb_spec (length acc) mk) as [E|E].
    + replace (mk - length acc) with 0 by lia. cbn. rewrite app_nil_r. reflexivity.
    + rewrite IH by (rewrite app_length; cbn; lia). rewrite app_length. cbn [length].
      replace (mk - length acc) with (S (mk - (length acc + 1))) by lia. cbn [firstn skipn].
      rewrite <- app_assoc. reflexivity.
Qed.

Lemma ids_scan_spec key l : forall count idsdone nid out, count <= mi ->
  ids_scan mi key l count idsdone nid out =
  (match skipn (mi - count) l with [] => idsdone | _ :: _ => false end,
   match skipn (mi - count) l with [] => nid | (y, _) :: _ => y end,
   out ++ recs key (firstn (mi - count) l)).
Proof.
  induction l as [|[id v] r IH]; intros count idsdone nid out Hc; cbn [ids_scan].
  - rewrite firstn_nil, skipn_nil. cbn. rewrite app_nil_r. reflexivity.
  - destruct (Nat.eqb_spec count mi) as [E|E].
    + replace (mi - count) with 0 by lia. cbn. rewrite app_nil_r. reflexivity.
    + rewrite IH by lia. replace (mi - count) with (S (mi - S count)) by lia. cbn [firstn skipn recs map fst snd].
      rewrite <- app_assoc. reflexivity.
Qed.

(* One step, unfolded.  At AtKeys the Go variable keys is empty (shape). *)
Lemma step_cases live sh :
  match sh_pos sh with
  | ScanDone => step mk mi live sh = sh
  | AtKeys =>
      sh_keys sh = [] ->
      let l := keys (ascend_from (sh_nextkey sh) live) in
      step mk mi live sh =
        top (firstn mk l) (match skipn mk l with [] => sh_nextkey sh | y :: _ => y end)
            (match skipn mk l with [] => sh_keysdone sh | _ :: _ => false end) (sh_out sh)
  | AtIds nid =>
      match sh_keys sh with
      | [] => step mk mi live sh = sh
      | k0 :: rest =>
          match get k0 live with
          | None => step mk mi live sh = top rest (sh_nextkey sh) (sh_keysdone sh) (sh_out sh)
          | Some col =>
              let l := ascend_from nid col in
              match skipn mi l with
              | [] => step mk mi live sh =
                        top rest (sh_nextkey sh) (sh_keysdone sh) (sh_out sh ++ recs k0 (firstn mi l))
              | (y, _) :: _ => step mk mi live sh =
                        mkShrink (sh_keys sh) (sh_nextkey sh) (sh_keysdone sh) (AtIds y)
                                 (sh_out sh ++ recs k0 (firstn mi l))
              end
          end
      end
  end.
Proof.
  unfold step. destruct (sh_pos sh) as [|nid|].
  - intros Hk. rewrite Hk. rewrite keys_scan_spec by (cbn; lia). cbn [length app].
    rewrite Nat.sub_0_r. reflexivity.
  - destruct (sh_keys sh) as [|k0 rest]; [reflexivity|].
    destruct (get k0 live) as [col|]; [|reflexivity].
    cbn zeta. rewrite ids_scan_spec by lia. rewrite Nat.sub_0_r.
    destruct (skipn mi (ascend_from nid col)) as [|[y w] t]; reflexivity.
  - reflexivity.
Qed.

Definition shape (sh : shrink) : Prop :=
  match sh_pos sh with AtKeys => sh_keys sh = [] | _ => True end.

Lemma top_shape keys nk kd out : shape (top keys nk kd out).
Proof. unfold top, shape. destruct keys; [destruct kd|]; cbn; auto. Qed.

Lemma top_out keys nk kd out : sh_out (top keys nk kd out) = out.
Proof. unfold top. destruct keys; [destruct kd|]; reflexivity. Qed.

Lemma shape_init : shape shrink_init.
Proof. reflexivity. Qed.

Lemma step_shape live sh : shape sh -> shape (step mk mi live sh).
Proof.
  intros Hs. pose proof (step_cases live sh) as H. unfold shape in Hs. destruct (sh_pos sh) as [|nid|] eqn:Ep.
  - rewrite (H Hs). apply top_shape.
  - destruct (sh_keys sh) as [|k0 rest]; [rewrite H; unfold shape; rewrite Ep; exact I|].
    destruct (get k0 live) as [col|]; [|rewrite H; apply top_shape].
    cbn zeta in H. destruct (skipn mi (ascend_from nid col)) as [|[y w] t]; rewrite H; [apply top_shape | exact I].
  - rewrite H. unfold shape. rewrite Ep. exact I.
Qed.

(* the records a step adds: objects of the live dataset *)
Lemma step_out live sh : wf live -> shape sh ->
  exists new, sh_out (step mk mi live sh) = sh_out sh ++ new /\
              forall c, In c new -> exists k i v, c = rec_cmd k i v /\ lookup k i live = Some v.
Proof.
  intros Hwf Hs. pose proof (step_cases live sh) as H. unfold shape in Hs. destruct (sh_pos sh) as [|nid|] eqn:Ep.
  - exists []. rewrite (H Hs), top_out, app_nil_r. split; [reflexivity | intros ? []].
  - destruct (sh_keys sh) as [|k0 rest]; [rewrite H; exists []; rewrite app_nil_r; split; [reflexivity | intros ? []]|].
    destruct (get k0 live) as [col|] eqn:Eg;
      [|rewrite H, top_out; exists []; rewrite app_nil_r; split; [reflexivity | intros ? []]].
    cbn zeta in H. exists (recs k0 (firstn mi (ascend_from nid col))). split.
    + destruct (skipn mi (ascend_from nid col)) as [|[y w] t]; rewrite H; [apply top_out | reflexivity].
    + intros c Hc. apply in_recs in Hc. destruct Hc as [i [v [-> Hin]]]. exists k0, i, v. split; [reflexivity|].
      apply firstn_in, ascend_from_incl in Hin. unfold lookup. rewrite Eg.
      apply In_get; [eapply wf_get; eauto | exact Hin].
  - rewrite H. exists []. rewrite app_nil_r. split; [reflexivity | intros ? []].
Qed.

(* what the rewrite will still visit *)
Definition pending (k i : bytes) (sh : shrink) : Prop :=
  match sh_pos sh with
  | AtKeys => bytes_leb (sh_nextkey sh) k = true
  | AtIds nid =>
      match sh_keys sh with
      | [] => False
      | k0 :: rest => (k = k0 /\ bytes_leb nid i = true) \/ In k rest \/
                      (sh_keysdone sh = false /\ bytes_leb (sh_nextkey sh) k = true)
      end
  | ScanDone => False
  end.

Lemma top_pending k i rest nk kd out :
  In k rest \/ (kd = false /\ bytes_leb nk k = true) -> pending k i (top rest nk kd out).
Proof.
  unfold top, pending. destruct rest as [|k1 rest']; [destruct kd|]; cbn.
  - intros [[]|[H _]]; discriminate.
  - intros [[]|[_ H]]; exact H.
  - intros [[H|H]|H]; [left; split; [auto | apply leb_nil] | right; left; exact H | right; right; exact H].
Qed.

Lemma step_cover live sh k i v : wf live -> shape sh -> lookup k i live = Some v ->
  In (rec_cmd k i v) (sh_out sh) \/ pending k i sh ->
  In (rec_cmd k i v) (sh_out (step mk mi live sh)) \/ pending k i (step mk mi live sh).
Proof.
  intros Hwf Hs Hl [Hin|Hp].
  { left. destruct (step_out live sh Hwf Hs) as [new [-> _]]. apply in_app_iff. left; exact Hin. }
  destruct (lookup_some _ _ _ _ Hl) as [col [Hgk Hgi]].
  pose proof (step_cases live sh) as H. unfold shape in Hs. unfold pending in Hp.
  destruct (sh_pos sh) as [|nid|] eqn:Ep; [| |contradiction].
  - (* keys batch *)
    specialize (H Hs). cbn zeta in H. rewrite H. right. apply top_pending.
    set (l := keys (ascend_from (sh_nextkey sh) live)) in *.
    assert (Hkl : In k l).
    { unfold l. apply (in_map fst) with (x := (k, col)). apply ascend_from_In; [apply get_In; exact Hgk | exact Hp]. }
    assert (Hsl : sorted_keys l) by (apply ascend_from_sorted; apply Hwf).
    destruct (skipn mk l) as [|y t] eqn:Esk.
    + left. rewrite (skipn_nil_firstn _ _ Esk). exact Hkl.
    + destruct (sorted_cut_ge l mk y t k Hsl Esk Hkl) as [Hf|Hge]; [left; exact Hf | right; auto].
  - (* ids batch *)
    destruct (sh_keys sh) as [|k0 rest] eqn:Ek; [contradiction|].
    destruct (get k0 live) as [col0|] eqn:Eg0.
    + cbn zeta in H. set (l := ascend_from nid col0) in *.
      destruct Hp as [[-> Hge]|Hp].
      * rewrite Hgk in Eg0. inversion Eg0; subst col0.
        assert (Hil : In (i, v) l) by (apply ascend_from_In; [apply get_In; exact Hgi | exact Hge]).
        assert (Hsl : sorted_keys (keys l)) by (apply ascend_from_sorted; eapply wf_get; eauto).
        destruct (skipn mi l) as [|[y w] t] eqn:Esk; rewrite H.
        -- left. rewrite top_out. apply in_app_iff. right. apply recs_in.
           rewrite (skipn_nil_firstn _ _ Esk). exact Hil.
        -- assert (Esk' : skipn mi (keys l) = y :: keys t) by (unfold keys; rewrite skipn_map, Esk; reflexivity).
           destruct (sorted_cut_ge (keys l) mi y (keys t) i Hsl Esk' (in_map fst _ _ Hil)) as [Hf|Hge'].
           ++ left. cbn [sh_out]. apply in_app_iff. right. apply recs_in.
              unfold keys in Hf. rewrite firstn_map in Hf. apply in_map_iff in Hf. destruct Hf as [[i' v'] [Hi Hf]].
              cbn in Hi; subst i'. replace v with v'; [exact Hf|].
              apply firstn_in, ascend_from_incl in Hf. apply In_get in Hf; [congruence | eapply wf_get; eauto].
           ++ right. unfold pending. cbn [sh_pos sh_keys]. try rewrite Ek. left. auto.
      * destruct (skipn mi l) as [|[y w] t] eqn:Esk; rewrite H.
        -- right. apply top_pending. exact Hp.
        -- right. unfold pending. cbn [sh_pos sh_keys sh_keysdone sh_nextkey]. try rewrite Ek. right. exact Hp.
    + rewrite H. right. apply top_pending. destruct Hp as [[-> _]|Hp]; [congruence | exact Hp].
Qed.


End Steps.

(* ------------------------------------------------------------------ 5. T5: record order *)

(* strictly below the frontier (k0, nid) / key strictly below kb / key at most kb *)
Definition rec_below (k0 nid : bytes) (c : cmd) : Prop :=
  match c with CSet k i _ _ _ => bytes_ltb k k0 = true \/ (k = k0 /\ bytes_ltb i nid = true) | _ => False end.
Definition rec_key_lt (kb : bytes) (c : cmd) : Prop :=
  match c with CSet k _ _ _ _ => bytes_ltb k kb = true | _ => False end.
Definition rec_key_le (kb : bytes) (c : cmd) : Prop :=
  match c with CSet k _ _ _ _ => bytes_leb k kb = true | _ => False end.

Lemma below_le k0 nid c : rec_below k0 nid c -> rec_key_le k0 c.
Proof. destruct c; cbn; try tauto. intros [H|[-> _]]; [apply bytes_ltb_leb; exact H | apply bytes_leb_refl]. Qed.

Lemma key_le_lt k0 k c : rec_key_le k0 c -> bytes_ltb k0 k = true -> rec_key_lt k c.
Proof. destruct c; cbn; try tauto. intros H1 H2. eapply leb_ltb_trans; eauto. Qed.

Lemma key_lt_leb k0 k c : rec_key_lt k0 c -> bytes_leb k0 k = true -> rec_key_lt k c.
Proof. destruct c; cbn; try tauto. intros H1 H2. eapply ltb_leb_trans; eauto. Qed.

Lemma key_lt_below k c : rec_key_lt k c -> rec_below k [] c.
Proof. destruct c; cbn; tauto. Qed.

Lemma below_mono k0 nid y c : rec_below k0 nid c -> bytes_leb nid y = true -> rec_below k0 y c.
Proof. destruct c; cbn; try tauto. intros [H|[-> H]] Hy; [left; exact H | right; split; [reflexivity | eapply ltb_leb_trans; eauto]]. Qed.

Lemma recs_key_le k l : Forall (rec_key_le k) (recs k l).
Proof. rewrite Forall_forall. intros c H. apply in_recs in H. destruct H as [i [v [-> _]]]. cbn. apply bytes_leb_refl. Qed.

Lemma SS_map_inv {A B} (f : A -> B) (S : B -> B -> Prop) (l : list A) :
  StronglySorted S (map f l) -> StronglySorted (fun x y => S (f x) (f y)) l.
Proof.
  induction l as [|x l IH]; cbn; intros H; [constructor|].
  apply StronglySorted_inv in H. destruct H as [H1 H2]. constructor; [apply IH; exact H1|].
  rewrite Forall_forall in *. intros y Hy. apply H2. apply in_map; exact Hy.
Qed.

Lemma SS_firstn {A} (R : A -> A -> Prop) n (l : list A) : StronglySorted R l -> StronglySorted R (firstn n l).
Proof. intros H. rewrite <- (firstn_skipn n l) in H. apply SS_app_inv in H. tauto. Qed.

Lemma recs_sorted k (l : list (bytes * val)) : msorted l -> StronglySorted rec_lt (recs k l).
Proof.
  intros H. unfold msorted, sorted_keys, keys in H. apply SS_map_inv in H. unfold recs.
  eapply SS_map; [|exact H]. cbn. intros x y Hxy. right. auto.
Qed.

Definition front (sh : shrink) : Prop :=
  rec_sorted (sh_out sh) /\
  match sh_pos sh with
  | AtKeys => sh_keys sh = [] /\ sh_keysdone sh = true /\ Forall (rec_key_lt (sh_nextkey sh)) (sh_out sh)
  | AtIds nid =>
      match sh_keys sh with
      | [] => True
      | k0 :: rest =>
          sorted_keys (k0 :: rest) /\
          (sh_keysdone sh = false -> Forall (fun k => bytes_ltb k (sh_nextkey sh) = true) (k0 :: rest)) /\
          Forall (rec_below k0 nid) (sh_out sh)
      end
  | ScanDone => True
  end.

Lemma front_shape sh : front sh -> shape sh.
Proof. unfold front, shape. destruct (sh_pos sh); tauto. Qed.

Lemma top_front keys nk kd out :
  rec_sorted out -> sorted_keys keys ->
  (kd = false -> Forall (fun k => bytes_ltb k nk = true) keys) ->
  (forall k, In k keys -> Forall (rec_key_lt k) out) ->
  (kd = false -> Forall (rec_key_lt nk) out) ->
  front (top keys nk kd out).
Proof.
  intros Hrs Hsk Hnk Hlt Hout. unfold top, front. destruct keys as [|k1 r]; [destruct kd|]; cbn.
  - auto.
  - auto.
  - split; [exact Hrs|]. split; [exact Hsk|]. split; [exact Hnk|].
    eapply Forall_impl; [|apply (Hlt k1); left; reflexivity]. intros c; apply key_lt_below.
Qed.

Lemma front_init : front shrink_init.
Proof. unfold front; cbn. split; [split; constructor|]. auto. Qed.

Section Front.
Variables mk mi : nat.

Lemma step_front live sh : wf live -> front sh -> front (step mk mi live sh).
Proof.
  intros Hwf Hf. pose proof (step_cases mk mi live sh) as H. pose proof Hf as [Hrs Hpos].
  destruct (sh_pos sh) as [|nid|] eqn:Ep.
  - (* keys batch *)
    destruct Hpos as [Hk [Hkd Hout]]. specialize (H Hk). cbn zeta in H. rewrite H.
    set (l := keys (ascend_from (sh_nextkey sh) live)) in *.
    assert (Hsl : sorted_keys l) by (apply ascend_from_sorted; apply Hwf).
    assert (Hge : forall k, In k l -> bytes_leb (sh_nextkey sh) k = true).
    { pose proof (ascend_from_ge (sh_nextkey sh) live (proj1 Hwf)) as G. rewrite Forall_forall in G. exact G. }
    apply top_front.
    + exact Hrs.
    + apply sorted_firstn; exact Hsl.
    + destruct (skipn mk l) as [|y t] eqn:Esk; [congruence|]. intros _.
      rewrite Forall_forall. intros x Hx. eapply sorted_cut_lt; eauto.
    + intros k Hk'. apply firstn_in in Hk'. eapply Forall_impl; [|exact Hout].
      intros c Hc. eapply key_lt_leb; [exact Hc | apply Hge; exact Hk'].
    + destruct (skipn mk l) as [|y t] eqn:Esk; [congruence|]. intros _.
      eapply Forall_impl; [|exact Hout]. intros c Hc. eapply key_lt_leb; [exact Hc|].
      apply Hge. eapply skipn_head_in; eauto.
  - (* ids batch *)
    destruct (sh_keys sh) as [|k0 rest] eqn:Ek; [rewrite H; exact Hf|].
    destruct Hpos as [Hsk [Hnk Hbelow]].
    assert (Hrest : sorted_keys rest /\ Forall (fun k => bytes_ltb k0 k = true) rest)
      by (apply StronglySorted_inv in Hsk; exact Hsk).
    destruct Hrest as [Hsrest Hk0rest]. rewrite Forall_forall in Hk0rest.
    assert (Htop : forall out', rec_sorted out' -> Forall (rec_key_le k0) out' ->
                     front (top rest (sh_nextkey sh) (sh_keysdone sh) out')).
    { intros out' Hrs' Hle. apply top_front.
      - exact Hrs'.
      - exact Hsrest.
      - intros Hkd. specialize (Hnk Hkd). inversion Hnk; assumption.
      - intros k Hk'. eapply Forall_impl; [|exact Hle]. intros c Hc. eapply key_le_lt; [exact Hc | apply Hk0rest; exact Hk'].
      - intros Hkd. specialize (Hnk Hkd). inversion Hnk; subst.
        eapply Forall_impl; [|exact Hle]. intros c Hc. eapply key_le_lt; eauto. }
    assert (Hle : Forall (rec_key_le k0) (sh_out sh)).
    { eapply Forall_impl; [|exact Hbelow]. intros c; apply below_le. }
    destruct (get k0 live) as [col|] eqn:Eg; [|rewrite H; apply Htop; assumption].
    cbn zeta in H. set (l := ascend_from nid col) in *.
    assert (Hcol : msorted col) by (eapply wf_get; eauto).
    assert (Hsl : msorted l) by (apply ascend_from_sorted; exact Hcol).
    assert (Hge : forall i, In i (keys l) -> bytes_leb nid i = true).
    { pose proof (ascend_from_ge nid col Hcol) as G. rewrite Forall_forall in G. exact G. }
    assert (Hrs' : rec_sorted (sh_out sh ++ recs k0 (firstn mi l))).
    { destruct Hrs as [Hcs Hss]. split; [apply Forall_app; split; [exact Hcs | apply recs_cset]|].
      apply SS_app; [exact Hss | apply recs_sorted; unfold msorted, keys; rewrite <- firstn_map; apply sorted_firstn; exact Hsl|].
      intros x y Hx Hy. apply in_recs in Hy. destruct Hy as [i [v [-> Hy]]].
      apply firstn_in in Hy. apply (in_map fst) in Hy. apply Hge in Hy. cbn [fst] in Hy.
      rewrite Forall_forall in Hbelow. specialize (Hbelow x Hx). destruct x; cbn in *; try tauto.
      destruct Hbelow as [Hb|[-> Hb]]; [left; exact Hb | right; split; [reflexivity | eapply ltb_leb_trans; eauto]]. }
    destruct (skipn mi l) as [|[y w] t] eqn:Esk; rewrite H.
    + apply Htop; [exact Hrs'|]. apply Forall_app. split; [exact Hle | apply recs_key_le].
    + unfold front. cbn [sh_out sh_pos sh_keys sh_keysdone sh_nextkey].
      split; [exact Hrs'|]. split; [exact Hsk|]. split; [exact Hnk|].
      assert (Esk' : skipn mi (keys l) = y :: keys t) by (unfold keys; rewrite skipn_map, Esk; reflexivity).
      apply Forall_app. split.
      * eapply Forall_impl; [|exact Hbelow]. intros c Hc. eapply below_mono; [exact Hc|].
        apply Hge. eapply skipn_head_in; eauto.
      * rewrite Forall_forall. intros c Hc. apply in_recs in Hc. destruct Hc as [i [v [-> Hc]]]. cbn. right.
        split; [reflexivity|]. eapply (sorted_cut_lt (keys l)); [exact Hsl | exact Esk'|].
        unfold keys. rewrite firstn_map. apply (in_map fst) in Hc. exact Hc.
  - rewrite H. exact Hf.
Qed.

Definition inv5 (r : run) : Prop := wf (r_live r) /\ front (r_sh r).

Lemma inv5_run sched : forall r, inv5 r -> inv5 (run_sched mk mi sched r).
Proof.
  unfold run_sched. induction sched as [|e sched IH]; intros r Hinv; cbn [fold_left]; [exact Hinv|].
  apply IH. destruct Hinv as [Hwf Hf]. destruct e as [c| |]; cbn [do_ev].
  - pose proof (exec_wf (r_live r) c Hwf) as Hwf'. destruct (exec (r_live r) c) as [s' o]. split; assumption.
  - split; [exact Hwf | apply step_front; assumption].
  - unfold request. destruct (r_shrinking r); [split; assumption|]. split; [exact Hwf | exact front_init].
Qed.

(* holds for all schedules, RENAME included *)
Theorem batches_never_repeat s0 sched : wf s0 ->
  let r := run_sched mk mi sched (run_init s0) in rec_sorted (sh_out (r_sh r)).
Proof.
  intros Hwf r. assert (H : inv5 r) by (apply inv5_run; split; [exact Hwf | exact front_init]).
  destruct H as [_ [H _]]. exact H.
Qed.

End Front.

(* ------------------------------------------------------------------ 4. T1 / T2 *)

Definition nr_ev (e : ev) : bool := negb (is_rename e).

(* y is the value the object (k,i) had at some moment of the run: after a prefix of the shrinklog *)
Definition prefix_at (log : list cmd) (k i : bytes) (x0 y : option obj) : Prop :=
  exists l1 l2, log = l1 ++ l2 /\ acts l1 k i x0 = y.

Lemma prefix_at_snoc log c k i x0 y : prefix_at log k i x0 y -> prefix_at (log ++ [c]) k i x0 y.
Proof. intros [l1 [l2 [-> H]]]. exists l1, (l2 ++ [c]). rewrite app_assoc. auto. Qed.

Lemma prefix_at_now log k i x0 : prefix_at log k i x0 (acts log k i x0).
Proof. exists log, []. rewrite app_nil_r. auto. Qed.

Lemma rec_dec out k i : Forall recwf out ->
  (exists o, In (rec_cmd k i o) out) \/ (forall o, ~ In (rec_cmd k i o) out).
Proof.
  induction 1 as [|c out Hc _ IH]; [right; intros o []|].
  destruct Hc as [k' [i' [o' [-> _]]]]. destruct (samepair k i k' i') eqn:E.
  - apply samepair_true in E. destruct E; subst. left. exists o'. left; reflexivity.
  - destruct IH as [[o Ho]|Hno]; [left; exists o; right; exact Ho|]. right. intros o [Heq|Hin]; [|eapply Hno; exact Hin].
    apply rec_cmd_inj in Heq. destruct Heq as [-> [-> _]]. rewrite samepair_refl in E. discriminate.
Qed.

Lemma request_noop r : r_shrinking r = true -> request r = r.
Proof. intros H. unfold request. rewrite H. reflexivity. Qed.

Lemma pending_done k i sh : sh_done sh = true -> ~ pending k i sh.
Proof. unfold sh_done, pending. destruct (sh_pos sh); try discriminate. tauto. Qed.

Section T1.
Variables mk mi : nat.

Record inv1 (s0 : st) (r : run) : Prop := {
  i_shr : r_shrinking r = true;
  i_wf : wf (r_live r);
  i_nr : forallb nr_cmd (r_log r) = true;
  i_live : forall k i, lookup k i (r_live r) = acts (r_log r) k i (lookup k i s0);
  i_ok : forall k i, okl (r_log r) k i (lookup k i s0);
  i_shape : shape (r_sh r);
  i_recwf : Forall recwf (sh_out (r_sh r));
  i_sound : forall k i o, In (rec_cmd k i o) (sh_out (r_sh r)) ->
              prefix_at (r_log r) k i (lookup k i s0) (Some o);
  i_cover : forall k i, (exists o, In (rec_cmd k i o) (sh_out (r_sh r))) \/ pending k i (r_sh r) \/
              prefix_at (r_log r) k i (lookup k i s0) None
}.

Lemma inv1_init s0 : wf s0 -> inv1 s0 (run_init s0).
Proof.
  intros Hwf. constructor; cbn; auto.
  - intros k i o [].
  - intros k i. right; left. unfold pending; cbn. apply leb_nil.
Qed.

Lemma inv1_step s0 r e : nr_ev e = true -> inv1 s0 r -> inv1 s0 (do_ev mk mi r e).
Proof.
  intros Hnr [Hshr Hwf Hlog Hlive Hok Hsh Hrw Hsound Hcover]. destruct e as [c| |]; cbn [do_ev].
  - (* writer *)
    assert (Hc : nr_cmd c = true) by (destruct c; cbn in *; congruence).
    pose proof (exec_wf (r_live r) c Hwf) as Hwf'.
    pose proof (fun k i => exec_lookup (r_live r) c k i Hwf Hc) as Hel.
    pose proof (fun k i => exec_unlogged (r_live r) c k i Hwf) as Hnl.
    pose proof (fun k i => exec_logged_cond (r_live r) c k i) as Hlc.
    destruct (exec (r_live r) c) as [s' o]. cbn [fst snd] in *. rewrite Hshr. cbn [andb].
    destruct (logged o) eqn:Elog.
    + constructor; cbn [r_live r_sh r_log r_shrinking]; auto.
      * rewrite forallb_app, Hlog. cbn. rewrite Hc. reflexivity.
      * intros k i. rewrite acts_app. cbn [acts]. rewrite Hel, Hlive. reflexivity.
      * intros k i. apply okl_app. split; [apply Hok|]. cbn. split; [|exact I].
        rewrite <- Hlive. apply Hlc; reflexivity.
      * intros k i o' Hin. apply prefix_at_snoc, Hsound, Hin.
      * intros k i. destruct (Hcover k i) as [H|[H|H]]; [left; exact H | right; left; exact H | right; right; apply prefix_at_snoc, H].
    + constructor; cbn [r_live r_sh r_log r_shrinking]; auto.
      intros k i. rewrite Hel, (Hnl k i eq_refl). apply Hlive.
  - (* a locked section of the rewrite *)
    destruct (step_out mk mi (r_live r) (r_sh r) Hwf Hsh) as [new [Hout Hnew]].
    constructor; cbn [r_live r_sh r_log r_shrinking]; auto.
    + apply step_shape; exact Hsh.
    + rewrite Hout. apply Forall_app. split; [exact Hrw|]. rewrite Forall_forall. intros c Hc.
      destruct (Hnew c Hc) as [k [i [v [-> Hl]]]]. exists k, i, v. split; [reflexivity | eapply wf_lookup; eauto].
    + intros k i o Hin. rewrite Hout in Hin. apply in_app_iff in Hin. destruct Hin as [Hin|Hin]; [apply Hsound; exact Hin|].
      destruct (Hnew _ Hin) as [k' [i' [v' [Heq Hl]]]]. apply rec_cmd_inj in Heq. destruct Heq as [<- [<- <-]].
      rewrite Hlive in Hl. pose proof (prefix_at_now (r_log r) k i (lookup k i s0)) as P. rewrite Hl in P. exact P.
    + intros k i. destruct (Hcover k i) as [[o Ho]|[Hp|Hp]].
      * left. exists o. rewrite Hout. apply in_app_iff. left; exact Ho.
      * destruct (lookup k i (r_live r)) as [v|] eqn:El.
        -- destruct (step_cover mk mi (r_live r) (r_sh r) k i v Hwf Hsh El (or_intror Hp)) as [H|H];
             [left; exists v; exact H | right; left; exact H].
        -- right; right. rewrite Hlive in El. pose proof (prefix_at_now (r_log r) k i (lookup k i s0)) as P.
           rewrite El in P. exact P.
      * right; right; exact Hp.
  - (* another AOFSHRINK request while the rewrite runs: refused *)
    rewrite request_noop by exact Hshr. constructor; assumption.
Qed.

Lemma inv1_run s0 sched : forall r, forallb nr_ev sched = true -> inv1 s0 r -> inv1 s0 (run_sched mk mi sched r).
Proof.
  unfold run_sched. induction sched as [|e sched IH]; intros r Hnr Hinv; cbn; [exact Hinv|].
  cbn in Hnr. apply andb_true_iff in Hnr. destruct Hnr as [He Hs]. apply IH; [exact Hs|]. apply inv1_step; assumption.
Qed.

Lemma inv1_done s0 r : wf s0 -> inv1 s0 r -> rec_sorted (sh_out (r_sh r)) -> sh_done (r_sh r) = true ->
  same_data (replay (newfile r) []) (r_live r).
Proof.
  intros Hwf0 [_ Hwf Hlog Hlive Hok Hsh Hrw Hsound Hcover] Hrs Hdone k i.
  unfold newfile. rewrite replay_lookup; [|exact wf_nil|rewrite forallb_app, Hlog, (cset_nr _ (proj1 Hrs)); reflexivity].
  rewrite lookup_nil, acts_app, Hlive. change (@None val) with (@None obj).
  assert (Hfs : fsorted (lookup k i s0)).
  { unfold fsorted. destruct (lookup k i s0) eqn:E; [exact (wf_lookup _ _ _ _ Hwf0 E) | exact I]. }
  assert (Hkey : forall y, prefix_at (r_log r) k i (lookup k i s0) y ->
                 acts (r_log r) k i y = acts (r_log r) k i (lookup k i s0)).
  { intros y [l1 [l2 [Hl Hy]]]. specialize (Hok k i). rewrite Hl in *. rewrite <- Hy.
    apply log_idempotent; assumption. }
  destruct (rec_dec (sh_out (r_sh r)) k i Hrw) as [[o Ho]|Hno].
  - rewrite (snap_value_some _ _ _ _ Hrs Hrw Ho). apply Hkey, Hsound, Ho.
  - rewrite (snap_value_none _ _ _ Hrs Hrw Hno). apply Hkey.
    destruct (Hcover k i) as [[o Ho]|[Hp|Hp]]; [exfalso; eapply Hno; exact Ho | exfalso; eapply pending_done; eauto | exact Hp].
Qed.

Theorem concurrent_partial s0 sched : wf s0 -> no_rename sched = true ->
  let r := run_sched mk mi sched (run_init s0) in
  sh_done (r_sh r) = true -> same_data (replay (newfile r) []) (r_live r).
Proof.
  intros Hwf Hnr r Hdone. apply (inv1_done s0); [exact Hwf| |apply batches_never_repeat; exact Hwf|exact Hdone].
  apply inv1_run; [exact Hnr | apply inv1_init; exact Hwf].
Qed.

Lemma no_rename_steps n : no_rename (repeat Step n) = true.
Proof. induction n; cbn; auto. Qed.

Lemma run_steps_live n : forall r, r_live (run_sched mk mi (repeat Step n) r) = r_live r /\
                                  r_log (run_sched mk mi (repeat Step n) r) = r_log r.
Proof. unfold run_sched. induction n as [|n IH]; intros r; cbn [repeat fold_left]; [auto|]. destruct (IH (do_ev mk mi r Step)) as [-> ->]. cbn. auto. Qed.

Theorem quiescent s n : wf s ->
  let r := run_sched mk mi (repeat Step n) (run_init s) in
  sh_done (r_sh r) = true -> same_data (replay (newfile r) []) s.
Proof.
  intros Hwf r Hdone. pose proof (concurrent_partial s (repeat Step n) Hwf (no_rename_steps n) Hdone) as H.
  fold r in H. unfold r in H at 2. rewrite (proj1 (run_steps_live n _)) in H. exact H.
Qed.

(* quiescent: the records are exactly the objects *)
Lemma quiescent_records s n : wf s ->
  let r := run_sched mk mi (repeat Step n) (run_init s) in
  sh_done (r_sh r) = true ->
  Forall recwf (sh_out (r_sh r)) /\ forall k i v, In (rec_cmd k i v) (sh_out (r_sh r)) <-> lookup k i s = Some v.
Proof.
  intros Hwf r Hdone.
  assert (Hinv : inv1 s r) by (apply inv1_run; [apply no_rename_steps | apply inv1_init; exact Hwf]).
  assert (Hlog : r_log r = []) by (unfold r; rewrite (proj2 (run_steps_live n _)); reflexivity).
  destruct Hinv as [_ _ _ _ _ _ Hrw Hsound Hcover]. rewrite Hlog in *. split; [exact Hrw|].
  assert (Hnil : forall k i y, prefix_at [] k i (lookup k i s) y -> lookup k i s = y).
  { intros k i y [l1 [l2 [Hl Hy]]]. symmetry in Hl. apply app_eq_nil in Hl. destruct Hl as [E1 E2]. rewrite E1 in Hy. exact Hy. }
  intros k i v. split.
  - intros Hin. apply Hnil, Hsound, Hin.
  - intros Hl. destruct (Hcover k i) as [[o Ho]|[Hp|Hp]].
    + pose proof (Hnil _ _ _ (Hsound _ _ _ Ho)) as E. rewrite Hl in E. inversion E; subst. exact Ho.
    + exfalso. eapply pending_done; eauto.
    + apply Hnil in Hp. congruence.
Qed.

Theorem batches_cover s n : wf s ->
  let r := run_sched mk mi (repeat Step n) (run_init s) in
  sh_done (r_sh r) = true ->
  (forall k i v, In (rec_cmd k i v) (sh_out (r_sh r)) <-> lookup k i s = Some v) /\ rec_sorted (sh_out (r_sh r)).
Proof.
  intros Hwf r Hdone. split; [apply (quiescent_records s n Hwf Hdone) | apply batches_never_repeat; exact Hwf].
Qed.

End T1.

(* ------------------------------------------------------------------ boolean checker for wf *)

Fixpoint sortedb (l : list bytes) : bool :=
  match l with [] => true | x :: r => forallb (bytes_ltb x) r && sortedb r end.

Lemma sortedb_ok l : sortedb l = true -> sorted_keys l.
Proof.
  induction l as [|x r IH]; cbn; intros H; [constructor|].
  apply andb_true_iff in H. destruct H as [H1 H2]. constructor; [apply IH; exact H2|].
  rewrite Forall_forall. rewrite forallb_forall in H1. exact H1.
Qed.

Definition wfb (s : st) : bool :=
  sortedb (keys s) &&
  forallb (fun kc => sortedb (keys (snd kc)) && forallb (fun io => sortedb (keys (o_fields (snd io)))) (snd kc)) s.

Lemma wfb_ok s : wfb s = true -> wf s.
Proof.
  unfold wfb, wf. intros H. apply andb_true_iff in H. destruct H as [H1 H2]. split; [apply sortedb_ok; exact H1|].
  rewrite Forall_forall. rewrite forallb_forall in H2. intros kc Hkc. specialize (H2 kc Hkc).
  apply andb_true_iff in H2. destruct H2 as [H2 H3]. split; [apply sortedb_ok; exact H2|].
  rewrite Forall_forall. rewrite forallb_forall in H3. intros io Hio. apply sortedb_ok. apply H3; exact Hio.
Qed.

(* ------------------------------------------------------------------ 6. T3: RENAME refutations *)

Definition b1 (n : N) : bytes := [n].

(* nine collections b..i and m, each {1 -> x} *)
Definition s0_lost : st :=
  map (fun n => (b1 n, [(b1 49, mkObj (b1 120) [] false)])) [98; 99; 100; 101; 102; 103; 104; 105; 109]%N.

(* first keys batch = b..i with nextkey = m; then m is renamed to a, before the cursor *)
Definition sched_lost : list ev := [Step; W (CRename (b1 109) (b1 97))] ++ repeat Step 12.

Theorem rename_refuted :
  exists s0 sched, wf s0 /\ sh_done (r_sh (run_sched maxkeys maxids sched (run_init s0))) = true /\
    exists k i, lookup k i (replay (newfile (run_sched maxkeys maxids sched (run_init s0))) []) <>
                lookup k i (r_live (run_sched maxkeys maxids sched (run_init s0))).
Proof.
  exists s0_lost, sched_lost. split; [apply wfb_ok; vm_compute; reflexivity|].
  split; [vm_compute; reflexivity|]. exists (b1 97), (b1 49). vm_compute. discriminate.
Qed.

(* A -> {1 -> x}; RENAME A B and SET A 1 y are logged before the first keys batch *)
Definition s0_dup : st := [(b1 65, [(b1 49, mkObj (b1 120) [] false)])].
Definition sched_dup : list ev := [W (CRename (b1 65) (b1 66)); W (CSet (b1 65) (b1 49) [] false (b1 121))] ++ repeat Step 6.

Theorem rename_dup_refuted :
  exists s0 sched, wf s0 /\ sh_done (r_sh (run_sched maxkeys maxids sched (run_init s0))) = true /\
    exists k i, lookup k i (replay (newfile (run_sched maxkeys maxids sched (run_init s0))) []) <>
                lookup k i (r_live (run_sched maxkeys maxids sched (run_init s0))).
Proof.
  exists s0_dup, sched_dup. split; [apply wfb_ok; vm_compute; reflexivity|].
  split; [vm_compute; reflexivity|]. exists (b1 66), (b1 49). vm_compute. discriminate.
Qed.

(* ------------------------------------------------------------------ 7. T4: crash points *)

Definition crash_hyp (fi : final_in) : Prop :=
  same_data (replay (f_snap fi ++ f_slog fi) []) (replay (f_live fi ++ f_pend fi) []).

Lemma same_data_refl a : same_data a a.
Proof. intros k i; reflexivity. Qed.

Theorem crash_points fi c : crash_hyp fi ->
  let d := recover_dir (crash_at fi c) in
  same_data d (replay (f_live fi) []) \/ same_data d (replay (f_live fi ++ f_pend fi) []).
Proof.
  intros H. destruct c; unfold crash_at, dir_start, recover_dir; cbn;
    first [ left; apply same_data_refl | right; apply same_data_refl | right; exact H ].
Qed.

Theorem crash_orig_partial fi c : c <> CP_after_rename_bak -> crash_hyp fi ->
  let d := recover_dir_orig (crash_at fi c) in
  same_data d (replay (f_live fi) []) \/ same_data d (replay (f_live fi ++ f_pend fi) []).
Proof.
  intros Hc H. destruct c; try congruence; unfold crash_at, dir_start, recover_dir_orig; cbn;
    first [ left; apply same_data_refl | right; apply same_data_refl | right; exact H ].
Qed.

Definition fi_small : final_in :=
  mkFinal [CSet (b1 97) (b1 49) [] false (b1 120)] [] [CSet (b1 97) (b1 49) [] false (b1 120)] [].

Theorem crash_orig_refuted :
  exists fi, crash_hyp fi /\ (exists k i v, lookup k i (replay (f_live fi) []) = Some v) /\
             recover_dir_orig (crash_at fi CP_after_rename_bak) = [].
Proof.
  exists fi_small. split; [intros k i; reflexivity|]. split; [|reflexivity].
  exists (b1 97), (b1 49), (mkObj (b1 120) [] false). vm_compute. reflexivity.
Qed.

(* ------------------------------------------------------------------ 8. T6: termination (quiescent) *)

Lemma ascend_from_nil_id {V} (m : smap V) : ascend_from [] m = m.
Proof. destruct m as [|[k v] r]; cbn; [reflexivity|]. rewrite ltb_nil_false. reflexivity. Qed.

Lemma ascend_from_split {V} p (m : smap V) : exists pre, m = pre ++ ascend_from p m.
Proof.
  induction m as [|[k v] r [pre IH]]; cbn; [exists []; reflexivity|].
  destruct (bytes_ltb k p); [exists ((k, v) :: pre); cbn; rewrite <- IH; reflexivity | exists []; reflexivity].
Qed.

Lemma ascend_from_at {V} (m a : smap V) y c t :
  msorted m -> m = a ++ (y, c) :: t -> ascend_from y m = (y, c) :: t.
Proof.
  revert m. induction a as [|[k v] a IH]; intros m Hs ->; cbn.
  - rewrite ltb_irrefl. reflexivity.
  - cbn in Hs. pose proof (msorted_inv _ _ _ Hs) as [Hr Hall]. rewrite Forall_forall in Hall.
    rewrite (Hall y).
    + apply IH; [exact Hr | reflexivity].
    + unfold keys. rewrite map_app. apply in_app_iff. right. left. reflexivity.
Qed.

Definition shape2 (sh : shrink) : Prop :=
  match sh_pos sh with
  | AtKeys => sh_keys sh = [] /\ sh_keysdone sh = true
  | AtIds _ => sh_keys sh <> []
  | ScanDone => True
  end.

Lemma top_shape2 keys nk kd out : shape2 (top keys nk kd out).
Proof. unfold top, shape2. destruct keys; [destruct kd|]; cbn; auto. discriminate. Qed.

Section Term.
Variables (mk mi : nat) (s : st).
Hypothesis Hmk : 1 <= mk.
Hypothesis Hmi : 1 <= mi.
Hypothesis Hwf : wf s.

Lemma step_shape2 sh : shape2 sh -> shape2 (step mk mi s sh).
Proof.
  intros Hs. pose proof (step_cases mk mi s sh) as H. unfold shape2 in Hs. destruct (sh_pos sh) as [|nid|] eqn:Ep.
  - rewrite (H (proj1 Hs)). apply top_shape2.
  - destruct (sh_keys sh) as [|k0 rest]; [congruence|].
    destruct (get k0 s) as [col|]; [|rewrite H; apply top_shape2].
    cbn zeta in H. destruct (skipn mi (ascend_from nid col)) as [|[y w] t]; rewrite H; [apply top_shape2|].
    unfold shape2; cbn. discriminate.
  - rewrite H. unfold shape2. rewrite Ep. exact I.
Qed.

(* remaining work: 2 + |col| per collection not yet in a keys batch, 1 + |col| per key of the
   current batch, 1 + remaining ids for the current key *)
Definition KW (m : st) : nat := list_sum (map (fun kc => 2 + length (snd kc)) m).
Definition idsw (k nid : bytes) : nat :=
  match get k s with Some col => length (ascend_from nid col) | None => 0 end.
Definition RW (ks : list bytes) : nat := list_sum (map (fun k => 1 + idsw k []) ks).
Definition tailw (kd : bool) (nk : bytes) : nat := if kd then 0 else 1 + KW (ascend_from nk s).
Definition mu (sh : shrink) : nat :=
  match sh_pos sh with
  | ScanDone => 0
  | AtKeys => 1 + KW (ascend_from (sh_nextkey sh) s)
  | AtIds nid =>
      match sh_keys sh with
      | [] => 0
      | k0 :: rest => 1 + idsw k0 nid + RW rest + tailw (sh_keysdone sh) (sh_nextkey sh)
      end
  end.

Lemma mu_top rest nk kd out : mu (top rest nk kd out) = RW rest + tailw kd nk.
Proof.
  unfold top, mu. destruct rest as [|k1 r]; [destruct kd|]; unfold RW, tailw, list_sum;
    cbn [sh_pos sh_keys sh_keysdone sh_nextkey map fold_right]; lia.
Qed.

Lemma KW_app a b : KW (a ++ b) = KW a + KW b.
Proof. unfold KW. rewrite map_app, list_sum_app. reflexivity. Qed.

Lemma RW_keys (m' : st) : (forall x, In x m' -> In x s) -> RW (keys m') + length m' = KW m'.
Proof.
  induction m' as [|[k col] r IH]; intros Hin; [reflexivity|].
  assert (Hg : get k s = Some col) by (apply In_get; [apply Hwf | apply Hin; left; reflexivity]).
  specialize (IH (fun x Hx => Hin x (or_intror Hx))).
  unfold RW, KW, list_sum in *. cbn [keys map fold_right length fst snd] in *. unfold idsw at 1. rewrite Hg, ascend_from_nil_id.
  fold (keys r). lia.
Qed.

Lemma mu_dec sh : shape2 sh -> sh_done sh = false -> mu (step mk mi s sh) < mu sh.
Proof.
  intros Hs Hnd. pose proof (step_cases mk mi s sh) as H. unfold shape2 in Hs. unfold sh_done in Hnd.
  unfold mu at 2. destruct (sh_pos sh) as [|nid|] eqn:Ep; [| |discriminate].
  - destruct Hs as [Hk Hkd]. specialize (H Hk). cbn zeta in H. rewrite H, mu_top.
    set (A := ascend_from (sh_nextkey sh) s) in *.
    unfold keys at 1. rewrite firstn_map. fold (keys (firstn mk A)).
    assert (HA : KW (firstn mk A) + KW (skipn mk A) = KW A) by (rewrite <- KW_app, firstn_skipn; reflexivity).
    assert (HR : RW (keys (firstn mk A)) + length (firstn mk A) = KW (firstn mk A)).
    { apply RW_keys. intros x Hx. apply firstn_in in Hx. eapply ascend_from_incl; exact Hx. }
    pose proof (firstn_length mk A) as HL1. pose proof (skipn_length mk A) as HL2.
    unfold keys in *. rewrite !skipn_map. destruct (skipn mk A) as [|[y cy] t] eqn:Esk; cbn [map fst].
    + rewrite Hkd. cbn [tailw]. unfold KW in HA at 2; cbn in HA. lia.
    + cbn [tailw].
      assert (Ey : ascend_from y s = (y, cy) :: t).
      { destruct (ascend_from_split (sh_nextkey sh) s) as [pre Hpre]. fold A in Hpre.
        rewrite <- (firstn_skipn mk A), Esk, app_assoc in Hpre.
        eapply ascend_from_at; [apply Hwf | exact Hpre]. }
      rewrite Ey. cbn [length] in HL2. lia.
  - destruct (sh_keys sh) as [|k0 rest] eqn:Ek; [congruence|].
    destruct (get k0 s) as [col|] eqn:Eg.
    + cbn zeta in H. set (l := ascend_from nid col) in *.
      assert (Hid : idsw k0 nid = length l) by (unfold idsw; rewrite Eg; reflexivity).
      pose proof (skipn_length mi l) as HL2.
      destruct (skipn mi l) as [|[y w] t] eqn:Esk; rewrite H.
      * rewrite mu_top. lia.
      * unfold mu. cbn [sh_pos sh_keys sh_keysdone sh_nextkey].
        assert (Ey : ascend_from y col = (y, w) :: t).
        { destruct (ascend_from_split nid col) as [pre Hpre]. fold l in Hpre.
          rewrite <- (firstn_skipn mi l), Esk, app_assoc in Hpre.
          eapply ascend_from_at; [eapply wf_get; eauto | exact Hpre]. }
        assert (Hid' : idsw k0 y = length ((y, w) :: t)) by (unfold idsw; rewrite Eg, Ey; reflexivity).
        rewrite Hid', Hid, HL2. cbn [length] in HL2. lia.
    + rewrite H, mu_top. lia.
Qed.

Lemma terminates_from : forall m sh log, mu sh <= m -> shape2 sh ->
  exists n, sh_done (r_sh (run_sched mk mi (repeat Step n) (mkRun s sh log true))) = true.
Proof.
  induction m as [|m IH]; intros sh log Hm Hs; destruct (sh_done sh) eqn:Ed;
    try (exists 0; exact Ed); pose proof (mu_dec sh Hs Ed) as Hdec; [lia|].
  destruct (IH (step mk mi s sh) log) as [n Hn]; [lia | apply step_shape2; exact Hs|].
  exists (S n). exact Hn.
Qed.

Theorem quiescent_terminates :
  exists n, sh_done (r_sh (run_sched mk mi (repeat Step n) (run_init s))) = true.
Proof. apply (terminates_from (mu shrink_init)); [lia|]. unfold shape2; cbn. auto. Qed.

End Term.

(* ------------------------------------------------------------------ the quiescent snapshot is the flattened dataset *)

Lemma SS_ext {A} (R : A -> A -> Prop) :
  (forall x, ~ R x x) -> (forall x y z, R x y -> R y z -> R x z) ->
  forall l1 l2, StronglySorted R l1 -> StronglySorted R l2 -> (forall x, In x l1 <-> In x l2) -> l1 = l2.
Proof.
  intros Hirr Htr. induction l1 as [|x1 r1 IH]; intros [|x2 r2] H1 H2 Hin.
  - reflexivity.
  - exfalso. apply (proj2 (Hin x2)). left; reflexivity.
  - exfalso. apply (proj1 (Hin x1)). left; reflexivity.
  - apply StronglySorted_inv in H1, H2. destruct H1 as [H1 F1], H2 as [H2 F2]. rewrite Forall_forall in F1, F2.
    assert (Hx : x1 = x2).
    { destruct (proj1 (Hin x1) (or_introl eq_refl)) as [E|E1]; [symmetry; exact E|].
      destruct (proj2 (Hin x2) (or_introl eq_refl)) as [E|E2]; [exact E|].
      exfalso. apply (Hirr x1). eapply Htr; [apply F1; exact E2 | apply F2; exact E1]. }
    subst x2. f_equal. apply IH; [exact H1 | exact H2|]. intros x. split; intros Hx.
    + destruct (proj1 (Hin x) (or_intror Hx)) as [E|E]; [|exact E]. subst x. exfalso. apply (Hirr x1), F1, Hx.
    + destruct (proj2 (Hin x) (or_intror Hx)) as [E|E]; [|exact E]. subst x. exfalso. apply (Hirr x1), F2, Hx.
Qed.

Lemma rec_lt_irrefl x : ~ rec_lt x x.
Proof. destruct x; cbn; try tauto. rewrite !ltb_irrefl. intros [H|[_ H]]; discriminate. Qed.

Lemma rec_lt_trans x y z : rec_lt x y -> rec_lt y z -> rec_lt x z.
Proof.
  destruct x, y, z; cbn; try tauto. intros [H1|[-> H1]] [H2|[-> H2]].
  - left. eapply ltb_trans; eauto.
  - left. exact H1.
  - left. exact H2.
  - right. split; [reflexivity | eapply ltb_trans; eauto].
Qed.

Definition snap (s : st) : list cmd := flat_map (fun kc => recs (fst kc) (snd kc)) s.

Lemma snap_flatten s : map rec_of (flatten s) = snap s.
Proof.
  unfold flatten, snap. induction s as [|[k col] r IH]; cbn; [reflexivity|].
  rewrite map_app, IH. f_equal. unfold recs. rewrite map_map. reflexivity.
Qed.

Lemma in_snap c s : In c (snap s) -> exists k col i v, In (k, col) s /\ In (i, v) col /\ c = rec_cmd k i v.
Proof.
  unfold snap. intros H. apply in_flat_map in H. destruct H as [[k col] [Hkc Hc]]. cbn in Hc.
  apply in_recs in Hc. destruct Hc as [i [v [-> Hiv]]]. exists k, col, i, v. auto.
Qed.

Lemma snap_in s k i v : wf s -> (In (rec_cmd k i v) (snap s) <-> lookup k i s = Some v).
Proof.
  intros Hwf. split.
  - intros H. apply in_snap in H. destruct H as [k' [col [i' [v' [Hkc [Hiv Heq]]]]]]. apply rec_cmd_inj in Heq. destruct Heq as [<- [<- <-]].
    assert (Hg : get k s = Some col) by (apply In_get; [apply Hwf | exact Hkc]).
    unfold lookup. rewrite Hg. apply In_get; [eapply wf_get; eauto | exact Hiv].
  - intros H. destruct (lookup_some _ _ _ _ H) as [col [Hg Hi]]. unfold snap. apply in_flat_map.
    exists (k, col). split; [apply get_In; exact Hg|]. cbn. apply recs_in, get_In. exact Hi.
Qed.

Lemma snap_sorted s : wf s -> rec_sorted (snap s).
Proof.
  intros Hwf. split.
  - rewrite Forall_forall. intros c Hc. apply in_snap in Hc. destruct Hc as [k [col [i [v [_ [_ ->]]]]]]. exact I.
  - destruct Hwf as [Hs HF]. induction s as [|[k col] r IH]; cbn; [constructor|].
    pose proof (msorted_inv _ _ _ Hs) as [Hr Hall]. inversion HF as [|? ? Hhd Htl]; subst. destruct Hhd as [Hhd _].
    apply SS_app; [apply recs_sorted; exact Hhd | apply IH; assumption|].
    intros x y Hx Hy. apply in_recs in Hx. destruct Hx as [i [v [-> _]]].
    apply in_snap in Hy. destruct Hy as [k' [col' [i' [v' [Hkc [_ ->]]]]]]. cbn. left.
    rewrite Forall_forall in Hall. apply Hall. apply (in_map fst) in Hkc. exact Hkc.
Qed.

Theorem quiescent_snapshot mk mi s n : wf s ->
  let r := run_sched mk mi (repeat Step n) (run_init s) in
  sh_done (r_sh r) = true -> sh_out (r_sh r) = map rec_of (flatten s).
Proof.
  intros Hwf r Hdone. rewrite snap_flatten.
  destruct (quiescent_records mk mi s n Hwf Hdone) as [Hrw Hin]. fold r in Hrw, Hin.
  destruct (batches_never_repeat mk mi s (repeat Step n) Hwf) as [_ Hss]. fold r in Hss.
  apply (SS_ext rec_lt rec_lt_irrefl rec_lt_trans); [exact Hss | apply snap_sorted; exact Hwf|].
  intros x. split; intros Hx.
  - rewrite Forall_forall in Hrw. destruct (Hrw x Hx) as [k [i [o [-> _]]]].
    apply snap_in; [exact Hwf|]. apply Hin; exact Hx.
  - destruct (in_snap _ _ Hx) as [k [col [i [v [_ [_ ->]]]]]]. apply Hin. apply snap_in; assumption.
Qed.

(* ------------------------------------------------------------------ requests while a rewrite runs *)

Theorem request_is_noop (mk mi : nat) r : r_shrinking r = true -> do_ev mk mi r Req = r.
Proof. intros H. cbn [do_ev]. apply request_noop; exact H. Qed.

Lemma shrinking_ev (mk mi : nat) r e : r_shrinking r = true -> r_shrinking (do_ev mk mi r e) = true.
Proof.
  intros H. destruct e as [c| |]; cbn [do_ev].
  - destruct (exec (r_live r) c) as [s' o]. exact H.
  - exact H.
  - rewrite request_noop; exact H.
Qed.

Lemma shrinking_run (mk mi : nat) sched : forall r, r_shrinking r = true -> r_shrinking (run_sched mk mi sched r) = true.
Proof.
  unfold run_sched. induction sched as [|e sched IH]; intros r H; cbn [fold_left]; [exact H|].
  apply IH, shrinking_ev; exact H.
Qed.

(* the flag stays set whatever requests arrive; after the epilogue the next request starts afresh *)
Theorem request_lifecycle s0 (mk mi : nat) sched :
  let r := run_sched mk mi sched (run_init s0) in
  r_shrinking r = true /\ request (end_rewrite r) = run_init (r_live r).
Proof. intros r. split; [apply shrinking_run; reflexivity | reflexivity]. Qed.


(* ------------------------------------------------------------------ leftovers of an interrupted rewrite *)

Theorem rewrite_ignores_leftovers d fi : d_live d = Some (f_live fi) ->
  rewrite_dir d fi = mkDir (Some (f_snap fi ++ f_slog fi)) None None.
Proof. destruct d as [l b sh]. cbn [d_live]. intros ->. reflexivity. Qed.

Theorem crash_points_leftovers d fi c : d_live d = Some (f_live fi) -> crash_hyp fi ->
  let d' := recover_dir (crash_from d fi c) in
  same_data d' (replay (f_live fi) []) \/ same_data d' (replay (f_live fi ++ f_pend fi) []).
Proof.
  destruct d as [l b sh]. cbn [d_live]. intros -> H.
  destruct c; unfold crash_from, create_shrink, write_snap, recover_dir; cbn;
    first [ left; apply same_data_refl | right; apply same_data_refl | right; exact H ].
Qed.

Theorem startup_keeps_data_gen d : recover_dir (startup_dir d) = recover_dir d.
Proof. destruct d as [[l|] [b|] sh]; reflexivity. Qed.

Theorem startup_keeps_data fi c : recover_dir (startup_dir (crash_at fi c)) = recover_dir (crash_at fi c).
Proof. apply startup_keeps_data_gen. Qed.

Theorem two_rewrites fi1 c fi2 : d_live (startup_dir (crash_at fi1 c)) = Some (f_live fi2) ->
  recover_dir (rewrite_dir (startup_dir (crash_at fi1 c)) fi2) = replay (f_snap fi2 ++ f_slog fi2) [].
Proof. intros H. rewrite (rewrite_ignores_leftovers _ _ H). reflexivity. Qed.


(* ------------------------------------------------------------------ 12. example data (used by Props/C09.v) *)

Definition ex_id (i : nat) : bytes := [N.of_nat (48 + i / 10); N.of_nat (48 + i mod 10)].

(* object number i: three fields a b c / one field f / none; every fourth one has a deadline *)
Definition ex_obj (i : nat) : obj :=
  mkObj (b1 120)
        (if Nat.eqb (i mod 3) 0 then [(b1 97, b1 49); (b1 98, b1 50); (b1 99, b1 51)]
         else if Nat.eqb (i mod 3) 1 then [(b1 102, b1 55)] else [])
        (Nat.eqb (i mod 4) 1).

(* n objects "00", "01", ... (two decimal digits, so the ids are sorted for n <= 100) *)
Definition ex_ids (n : nat) : coll := map (fun i => (ex_id i, ex_obj i)) (seq 0 n).

(* ten collections "a".."j"; "d" has 40 objects (two ids batches), the others 2 *)
Definition ex_data : st :=
  map (fun j => (b1 (N.of_nat (97 + j)), if Nat.eqb j 3 then ex_ids 40 else ex_ids 2)) (seq 0 10).

(* writers between the locked sections, on objects behind, at and ahead of the cursor; no RENAME.
   Some of them are not `Updated` (FSET without change, PERSIST without deadline, missing key / id,
   PDEL without match) and therefore not logged. *)
Definition ex_sched : list ev :=
  [Step;
   W (CSet (b1 97) (ex_id 7) [(b1 102, Some (b1 57))] true (b1 121));
   Step; Step;
   W (CSet (b1 98) (ex_id 0) [(b1 98, None); (b1 122, Some (b1 57))] false (b1 122));
   W (CFset (b1 97) (ex_id 1) [(b1 102, Some (b1 56)); (b1 103, Some (b1 49))]);
   W (CFset (b1 97) (ex_id 1) [(b1 102, Some (b1 56))]);
   W (CExpire (b1 98) (ex_id 1)); W (CPersist (b1 97) (ex_id 1)); W (CPersist (b1 97) (ex_id 0));
   W (CDel (b1 100) (ex_id 5)); W (CDel (b1 100) (ex_id 99));
   W (CFset (b1 100) (ex_id 33) [(b1 97, None)]); W (CFset (b1 100) (ex_id 34) [(b1 97, None)]);
   W (CFset (b1 120) (ex_id 0) [(b1 97, Some (b1 49))]); W (CFset (b1 97) (ex_id 50) [(b1 97, Some (b1 49))]);
   Step; Step;
   W (CSet (b1 100) (ex_id 35) [] false (b1 121)); W (CExpire (b1 100) (ex_id 2));
   W (CPdel (b1 100) (b1 50)); W (CPdel (b1 101) (b1 48)); W (CPersist (b1 100) (ex_id 37));
   W (CDrop (b1 102)); W (CDrop (b1 120));
   W (CSet [96%N] (ex_id 1) [(b1 97, Some (b1 49))] false (b1 121));
   W (CSet (b1 122) (ex_id 1) [] true (b1 121));
   Step; W (CDel (b1 106) (ex_id 0)); W (CDel (b1 106) (ex_id 1)); W (CPdel (b1 100) (b1 57));
   W (CFset (b1 100) (ex_id 39) [(b1 99, Some (b1 57)); (b1 97, None)])] ++ repeat Step 40.

Definition ex_sched_flush : list ev :=
  [Step; Step; Step; W (CSet (b1 97) (ex_id 7) [] false (b1 121)); W CFlushdb; Step;
   W (CSet (b1 99) (ex_id 7) [(b1 97, Some (b1 49))] true (b1 121));
   W (CFset (b1 99) (ex_id 7) [(b1 98, Some (b1 50))]);
   W (CSet (b1 122) (ex_id 7) [] false (b1 121))] ++ repeat Step 40.

(* ex_sched with AOFSHRINK requests: at the start, right after each of the first writers, twice in a
   row in the middle, at the very end *)
Definition ex_sched_req : list ev :=
  [Req] ++ flat_map (fun e => match e with W c => [W c; Req] | _ => [e] end) (firstn 12 ex_sched)
        ++ [Req; Req] ++ skipn 12 ex_sched ++ [Req].

(* the final section: live file with a deleted object, one unflushed command, its snapshot and shrinklog *)
Definition ex_final : final_in :=
  mkFinal [CSet (b1 97) (ex_id 1) [(b1 102, Some (b1 55))] true (b1 120);
           CSet (b1 97) (ex_id 2) [] false (b1 121); CDel (b1 97) (ex_id 1)]
          [CSet (b1 98) (ex_id 1) [] false (b1 122)]
          [CSet (b1 97) (ex_id 2) [] false (b1 121)]
          [CSet (b1 98) (ex_id 1) [] false (b1 122)].

(* second rewrite after ex_final died at CP_after_sync: the live file is ex_final's flushed one, an
   unflushed DEL, and a snapshot of ONE record (the leftover -shrink file has two) *)
Definition ex_final2 : final_in :=
  mkFinal (f_live ex_final ++ f_pend ex_final) [CDel (b1 98) (ex_id 1)] [CSet (b1 97) (ex_id 2) [] false (b1 121)] [].

(* ------------------------------------------------------------------ the shrinklog of a run, dataset level *)

Theorem log_replay_idempotent mk mi s0 sched l1 l2 : wf s0 -> no_rename sched = true ->
  let r := run_sched mk mi sched (run_init s0) in
  r_log r = l1 ++ l2 ->
  same_data (replay (r_log r) (replay l1 s0)) (r_live r).
Proof.
  intros Hwf Hnr r Hl k i.
  assert (Hinv : inv1 s0 r) by (apply inv1_run; [exact Hnr | apply inv1_init; exact Hwf]).
  destruct Hinv as [_ _ Hlog Hlive Hok _ _ _ _].
  assert (Hl1 : forallb nr_cmd l1 = true).
  { rewrite Hl, forallb_app in Hlog. apply andb_true_iff in Hlog. tauto. }
  rewrite replay_lookup; [|apply replay_wf; exact Hwf|exact Hlog].
  rewrite (replay_lookup l1) by assumption. rewrite Hlive. specialize (Hok k i). rewrite Hl in *.
  apply log_idempotent; [|exact Hok].
  unfold fsorted. destruct (lookup k i s0) eqn:E; [exact (wf_lookup _ _ _ _ Hwf E) | exact I].
Qed.

(* ------------------------------------------------------------------ 10. hooks and channels *)

Definition kcons (kind : bytes -> bool) (r : hreg) : Prop := forall n p, get n r = Some p -> h_chan p = kind n.
Definition hcmd_ok (kind : bytes -> bool) (c : hcmd) : Prop :=
  match c with HSet n h => h_chan h = kind n | _ => True end.

(* with one kind per name every command is, per name, a constant or a no-op *)
Definition htouch (kind : bytes -> bool) (c : hcmd) (n : bytes) : option (option hook) :=
  match c with
  | HSet n' h => if bytes_eqb n n' then Some (Some h) else None
  | HDel n' c => if bytes_eqb n n' && Bool.eqb (kind n) c then Some None else None
  | HPdel pat c => if pmatch pat n && Bool.eqb (kind n) c then Some None else None
  | HFlush => Some None
  end.

Fixpoint hlast (kind : bytes -> bool) (l : list hcmd) (n : bytes) : option (option hook) :=
  match l with
  | [] => None
  | c :: r => match hlast kind r n with Some x => Some x | None => htouch kind c n end
  end.

Lemma hlast_app kind a b n :
  hlast kind (a ++ b) n = match hlast kind b n with Some x => Some x | None => hlast kind a n end.
Proof.
  induction a as [|c a IH]; cbn.
  - destruct (hlast kind b n); reflexivity.
  - rewrite IH. destruct (hlast kind b n); reflexivity.
Qed.

Lemma hlast_none kind l n : hlast kind l n = None -> forall c, In c l -> htouch kind c n = None.
Proof.
  induction l as [|c l IH]; cbn; [tauto|]. destruct (hlast kind l n); [discriminate|].
  intros H c' [<-|Hc]; [exact H | apply IH; [reflexivity | exact Hc]].
Qed.

Lemma hlast_some kind l n x : hlast kind l n = Some x -> exists c, In c l /\ htouch kind c n = Some x.
Proof.
  induction l as [|c l IH]; cbn; [discriminate|]. destruct (hlast kind l n) eqn:E.
  - intros H; inversion H; subst. destruct (IH eq_refl) as [c' [H1 H2]]. exists c'. auto.
  - intros H. exists c. auto.
Qed.

Lemma get_filter_sorted {V} (f : bytes * V -> bool) (m : smap V) n : msorted m ->
  get n (filter f m) = match get n m with Some v => if f (n, v) then Some v else None | None => None end.
Proof.
  induction m as [|[k v] r IH]; intros Hs; cbn; [reflexivity|].
  pose proof (msorted_inv _ _ _ Hs) as [Hr Hall]. destruct (bytes_eqb n k) eqn:E.
  - apply bytes_eqb_eq in E; subst k. destruct (f (n, v)); cbn; [rewrite bytes_eqb_refl; reflexivity|].
    apply get_not_in. intros Hin. apply keys_filter_in in Hin. rewrite Forall_forall in Hall.
    apply Hall in Hin. rewrite ltb_irrefl in Hin. discriminate.
  - destruct (f (k, v)); cbn; [rewrite E|]; apply IH; exact Hr.
Qed.

Lemma hook_same_eq p h : hook_same p h = true -> h_chan p = h_chan h -> p = h.
Proof.
  destruct p as [c1 b1' e1], h as [c2 b2 e2]. unfold hook_same. cbn. intros H Hc.
  apply andb_true_iff in H. destruct H as [H H3]. apply andb_true_iff in H. destruct H as [H1 H2].
  apply bytes_eqb_eq in H1. destruct e1, e2; try discriminate. subst. reflexivity.
Qed.

Lemma hexec_spec kind r c : msorted r -> kcons kind r -> hcmd_ok kind c ->
  snd (hexec r c) <> HFatal /\ msorted (fst (hexec r c)) /\ kcons kind (fst (hexec r c)) /\
  forall n, get n (fst (hexec r c)) = match htouch kind c n with Some y => y | None => get n r end.
Proof.
  intros Hs Hk Hc. destruct c as [n' h|n' c|pat c|]; cbn [hexec htouch].
  - (* SETHOOK / SETCHAN *)
    cbn in Hc.
    assert (Hset : msorted (set n' h r) /\ kcons kind (set n' h r) /\
                   forall n, get n (set n' h r) = if bytes_eqb n n' then Some h else get n r).
    { split; [apply msorted_set; exact Hs|]. split.
      - intros n p. destruct (bytes_eqb n n') eqn:E.
        + apply bytes_eqb_eq in E; subst. rewrite get_set_same. intros H; inversion H; subst. exact Hc.
        + apply eqb_false_neq in E. rewrite get_set_other by exact E. apply Hk.
      - intros n. destruct (bytes_eqb n n') eqn:E.
        + apply bytes_eqb_eq in E; subst. apply get_set_same.
        + apply eqb_false_neq in E. apply get_set_other; exact E. }
    destruct Hset as [H1 [H2 H3]].
    assert (Hfmt : forall n, (if bytes_eqb n n' then Some h else get n r) =
                             match (if bytes_eqb n n' then Some (Some h) else None) with Some y => y | None => get n r end)
      by (intros n; destruct (bytes_eqb n n'); reflexivity).
    destruct (get n' r) as [p|] eqn:E.
    + rewrite (Hk _ _ E), Hc, Bool.eqb_reflx. cbn [negb]. destruct (hook_same p h) eqn:Es; cbn [fst snd].
      * split; [discriminate|]. split; [exact Hs|]. split; [exact Hk|]. intros n.
        destruct (bytes_eqb n n') eqn:En; [|reflexivity]. apply bytes_eqb_eq in En; subst.
        rewrite E. f_equal. apply hook_same_eq; [exact Es|]. rewrite (Hk _ _ E), Hc. reflexivity.
      * split; [discriminate|]. split; [exact H1|]. split; [exact H2|]. intros n. rewrite H3. apply Hfmt.
    + cbn [fst snd]. split; [discriminate|]. split; [exact H1|]. split; [exact H2|]. intros n. rewrite H3. apply Hfmt.
  - (* DELHOOK / DELCHAN *)
    destruct (get n' r) as [p|] eqn:E.
    + rewrite (Hk _ _ E). destruct (Bool.eqb (kind n') c) eqn:Ec; cbn [fst snd].
      * split; [discriminate|]. split; [apply msorted_del; exact Hs|]. split.
        -- intros n q. destruct (bytes_eqb n n') eqn:En.
           ++ apply bytes_eqb_eq in En; subst. rewrite get_del_same by exact Hs. discriminate.
           ++ apply eqb_false_neq in En. rewrite get_del_other by exact En. apply Hk.
        -- intros n. destruct (bytes_eqb n n') eqn:En; cbn [andb].
           ++ apply bytes_eqb_eq in En; subst. rewrite Ec. apply get_del_same; exact Hs.
           ++ apply eqb_false_neq in En. apply get_del_other; exact En.
      * split; [discriminate|]. split; [exact Hs|]. split; [exact Hk|]. intros n.
        destruct (bytes_eqb n n') eqn:En; cbn [andb]; [|reflexivity]. apply bytes_eqb_eq in En; subst. rewrite Ec. reflexivity.
    + cbn [fst snd]. split; [discriminate|]. split; [exact Hs|]. split; [exact Hk|]. intros n.
      destruct (bytes_eqb n n') eqn:En; cbn [andb]; [|reflexivity]. apply bytes_eqb_eq in En; subst.
      destruct (Bool.eqb (kind n') c); [exact E | reflexivity].
  - (* PDELHOOK / PDELCHAN *)
    cbv zeta.
    set (f := fun nh : bytes * hook => negb (pmatch pat (fst nh) && Bool.eqb (h_chan (snd nh)) c)).
    assert (Hg : forall n, get n (filter f r) = match (if pmatch pat n && Bool.eqb (kind n) c then Some None else None) with
                                                 | Some y => y | None => get n r end).
    { intros n. rewrite get_filter_sorted by exact Hs. destruct (get n r) as [p|] eqn:E.
      - unfold f. cbn [fst snd]. rewrite (Hk _ _ E). destruct (pmatch pat n && Bool.eqb (kind n) c); reflexivity.
      - destruct (pmatch pat n && Bool.eqb (kind n) c); reflexivity. }
    assert (Hkf : kcons kind (filter f r)).
    { intros n q Hq. rewrite get_filter_sorted in Hq by exact Hs. destruct (get n r) as [p|] eqn:E; [|discriminate].
      destruct (f (n, p)); [|discriminate]. inversion Hq; subst. apply (Hk _ _ E). }
    destruct (Nat.eqb_spec (length (filter f r)) (length r)) as [El|El]; cbn [fst snd].
    + pose proof (filter_length_eq f r El) as Er. rewrite Er in Hg.
      split; [discriminate|]. split; [exact Hs|]. split; [exact Hk | exact Hg].
    + split; [discriminate|]. split; [apply msorted_filter; exact Hs|]. split; [exact Hkf | exact Hg].
  - cbn. split; [discriminate|]. split; [constructor|]. split; [intros n p; discriminate | reflexivity].
Qed.

Lemma hexec_unlogged r c : hlogged (snd (hexec r c)) = false -> fst (hexec r c) = r.
Proof.
  destruct c as [n' h|n' c|pat c|]; cbn [hexec].
  - destruct (get n' r) as [p|]; [|discriminate].
    destruct (negb (Bool.eqb (h_chan p) (h_chan h))); [reflexivity|]. destruct (hook_same p h); [reflexivity | discriminate].
  - destruct (get n' r) as [p|]; [|reflexivity]. destruct (Bool.eqb (h_chan p) c); [discriminate | reflexivity].
  - destruct (Nat.eqb _ _); [reflexivity | discriminate].
  - discriminate.
Qed.

Lemma hreplay_orig_spec kind l : forall r, msorted r -> kcons kind r -> Forall (hcmd_ok kind) l ->
  exists reg, hreplay_orig l r = Some reg /\
              forall n, get n reg = match hlast kind l n with Some y => y | None => get n r end.
Proof.
  induction l as [|c l IH]; intros r Hs Hk Hl; cbn [hreplay_orig hlast].
  - exists r. auto.
  - inversion Hl as [|? ? Hc Hl']; subst. destruct (hexec_spec kind r c Hs Hk Hc) as [Hnf [Hs' [Hk' Hg]]].
    destruct (hexec r c) as [r' o]. cbn [fst snd] in *.
    destruct (IH r' Hs' Hk' Hl') as [reg [Hrep Hget]]. exists reg. split.
    + destruct o; [exact Hrep | exact Hrep | congruence].
    + intros n. rewrite Hget, Hg. destruct (hlast kind l n); reflexivity.
Qed.

Definition hpending (n : bytes) (hs : hshrink) : Prop :=
  match hs_pos hs with HNames => True | HEmit names => In n names | HDone => False end.

Definition hrec_ok (kind : bytes -> bool) (c : hcmd) : Prop := exists n h, c = HSet n h /\ h_chan h = kind n.

Record hinv (kind : bytes -> bool) (r0 : hreg) (r : hrun) : Prop := {
  h_sorted : msorted (hr_live r);
  h_kc : kcons kind (hr_live r);
  h_logok : Forall (hcmd_ok kind) (hr_log r);
  h_live : forall n, get n (hr_live r) = match hlast kind (hr_log r) n with Some y => y | None => get n r0 end;
  h_outok : Forall (hrec_ok kind) (hs_out (hr_sh r));
  h_sound : forall n h, hlast kind (hr_log r) n = None -> In (HSet n h) (hs_out (hr_sh r)) -> get n r0 = Some h;
  h_cover : forall n h, hlast kind (hr_log r) n = None -> get n r0 = Some h ->
              In (HSet n h) (hs_out (hr_sh r)) \/ hpending n (hr_sh r)
}.

Lemma hnext_pending n names : In n names -> hpending n (mkHShrink (hnext names) []) .
Proof. destruct names; cbn; [tauto|]. unfold hpending; cbn. tauto. Qed.

Lemma hinv_step kind r0 r e : hev_kind_ok kind e = true -> hinv kind r0 r -> hinv kind r0 (hdo_ev r e).
Proof.
  intros He [Hs Hk Hlog Hlive Hout Hsound Hcover]. destruct e as [c|]; cbn [hdo_ev].
  - assert (Hc : hcmd_ok kind c).
    { destruct c; cbn in *; try exact I. apply Bool.eqb_prop; exact He. }
    destruct (hexec_spec kind (hr_live r) c Hs Hk Hc) as [Hnf [Hs' [Hk' Hg]]].
    pose proof (hexec_unlogged (hr_live r) c) as Hnl.
    destruct (hexec (hr_live r) c) as [r' o]. cbn [fst snd] in *. destruct (hlogged o) eqn:Elog.
    + constructor; cbn [hr_live hr_sh hr_log]; auto.
      * apply Forall_app. split; [exact Hlog | constructor; [exact Hc | constructor]].
      * intros n. rewrite hlast_app. cbn [hlast]. rewrite Hg, Hlive. destruct (htouch kind c n); reflexivity.
      * intros n h Hlt. rewrite hlast_app in Hlt. cbn [hlast] in Hlt.
        destruct (htouch kind c n); [discriminate|]. apply Hsound; exact Hlt.
      * intros n h Hlt. rewrite hlast_app in Hlt. cbn [hlast] in Hlt.
        destruct (htouch kind c n); [discriminate|]. apply Hcover; exact Hlt.
    + rewrite (Hnl eq_refl) in *. constructor; cbn [hr_live hr_sh hr_log]; auto.
  - unfold hstep. destruct (hs_pos (hr_sh r)) as [|names|] eqn:Ep.
    + (* the names batch *)
      constructor; cbn [hr_live hr_sh hr_log hs_out hs_pos]; auto.
      intros n h Hlt H0. destruct (Hcover n h Hlt H0) as [Hin|_]; [left; exact Hin|]. right.
      assert (Hin : In n (keys (hr_live r))).
      { apply (get_in_keys n (hr_live r) h). rewrite Hlive, Hlt. exact H0. }
      unfold hpending. cbn [hs_pos]. destruct (keys (hr_live r)); [destruct Hin | exact Hin].
    + destruct names as [|m rest].
      * constructor; cbn [hr_live hr_sh hr_log hs_out hs_pos]; auto.
        intros n h Hlt H0. destruct (Hcover n h Hlt H0) as [Hin|Hp]; [left; exact Hin|].
        unfold hpending in Hp. rewrite Ep in Hp. destruct Hp.
      * assert (Hpend : forall n, In n rest -> hpending n (mkHShrink (hnext rest) (hs_out (hr_sh r)))).
        { intros n Hn. unfold hpending; cbn [hs_pos]. destruct rest; [destruct Hn | exact Hn]. }
        destruct (get m (hr_live r)) as [hm|] eqn:Em.
        -- constructor; cbn [hr_live hr_sh hr_log hs_out hs_pos]; auto.
           ++ apply Forall_app. split; [exact Hout|]. constructor; [|constructor]. exists m, hm. split; [reflexivity|]. apply (Hk _ _ Em).
           ++ intros n h Hlt Hin. apply in_app_iff in Hin. destruct Hin as [Hin|[Heq|[]]]; [apply Hsound; assumption|].
              inversion Heq; subst. rewrite Hlive, Hlt in Em. exact Em.
           ++ intros n h Hlt H0. destruct (Hcover n h Hlt H0) as [Hin|Hp]; [left; apply in_app_iff; left; exact Hin|].
              unfold hpending in Hp. rewrite Ep in Hp. destruct Hp as [->|Hp].
              ** left. apply in_app_iff. right. left. rewrite Hlive, Hlt, H0 in Em. inversion Em; reflexivity.
              ** right. unfold hpending; cbn [hs_pos]. destruct rest; [destruct Hp | exact Hp].
        -- constructor; cbn [hr_live hr_sh hr_log hs_out hs_pos]; auto.
           intros n h Hlt H0. destruct (Hcover n h Hlt H0) as [Hin|Hp]; [left; exact Hin|].
           unfold hpending in Hp. rewrite Ep in Hp. destruct Hp as [->|Hp].
           ** rewrite Hlive, Hlt, H0 in Em. discriminate.
           ** right. unfold hpending; cbn [hs_pos]. destruct rest; [destruct Hp | exact Hp].
    + (* done *)
      assert (E : mkHRun (hr_live r) (hr_sh r) (hr_log r) = r) by (destruct r; reflexivity).
      constructor; cbn [hr_live hr_sh hr_log]; auto.
Qed.

Theorem hooks_orig_partial r0 sched kind : msorted r0 -> kind_consistent kind r0 sched = true ->
  let r := hrun_sched sched (hrun_init r0) in
  hs_done (hr_sh r) = true ->
  exists reg, hreplay_orig (hnewfile r) [] = Some reg /\ forall n, get n reg = get n (hr_live r).
Proof.
  intros Hs Hkc r Hdone. unfold kind_consistent in Hkc. apply andb_true_iff in Hkc. destruct Hkc as [Hk0 Hsched].
  assert (Hinit : hinv kind r0 (hrun_init r0)).
  { constructor; cbn; auto.
    - intros n p Hg. apply get_In in Hg. rewrite forallb_forall in Hk0. apply Hk0 in Hg. cbn in Hg.
      apply Bool.eqb_prop; exact Hg.
    - intros n h _ []. }
  assert (Hinv : hinv kind r0 r).
  { unfold r, hrun_sched. generalize (hrun_init r0) Hinit. clear r Hdone Hinit.
    induction sched as [|e sched IH]; intros r Hr; cbn [fold_left]; [exact Hr|].
    cbn in Hsched. apply andb_true_iff in Hsched. destruct Hsched as [He Hsched].
    apply IH; [exact Hsched|]. apply hinv_step; assumption. }
  destruct Hinv as [_ _ Hlog Hlive Hout Hsound Hcover].
  assert (Hok : Forall (hcmd_ok kind) (hnewfile r)).
  { unfold hnewfile. apply Forall_app. split; [|exact Hlog]. eapply Forall_impl; [|exact Hout].
    intros c [n [h [-> Hc]]]. exact Hc. }
  assert (Hnil : kcons kind []) by (intros n p; discriminate).
  destruct (hreplay_orig_spec kind (hnewfile r) [] (msorted_nil) Hnil Hok) as [reg [Hrep Hget]].
  exists reg. split; [exact Hrep|]. intros n. rewrite Hget, Hlive. unfold hnewfile. rewrite hlast_app.
  destruct (hlast kind (hr_log r) n) as [x|] eqn:Elt; [reflexivity|]. cbn [get].
  destruct (hlast kind (hs_out (hr_sh r)) n) as [x|] eqn:Eo.
  - destruct (hlast_some _ _ _ _ Eo) as [c [Hc Ht]]. rewrite Forall_forall in Hout.
    destruct (Hout c Hc) as [n' [h [-> _]]]. cbn in Ht. destruct (bytes_eqb n n') eqn:En; [|discriminate].
    apply bytes_eqb_eq in En; subst n'. inversion Ht; subst. symmetry. apply Hsound; assumption.
  - destruct (get n r0) as [h|] eqn:E0; [|reflexivity]. exfalso.
    destruct (Hcover n h Elt E0) as [Hin|Hp].
    + pose proof (hlast_none _ _ _ Eo _ Hin) as Ht. cbn in Ht. rewrite bytes_eqb_refl in Ht. discriminate.
    + unfold hs_done in Hdone. unfold hpending in Hp. destruct (hs_pos (hr_sh r)); try discriminate. exact Hp.
Qed.

(* a name that changes its kind during the rewrite: the new file does not load *)
Definition hookA : hook := mkHook false (b1 65) false.
Definition chanB : hook := mkHook true (b1 66) false.
Definition hsched_switch : list hev :=
  [HW (HSet (b1 120) hookA); HW (HDel (b1 120) false); HW (HSet (b1 120) chanB); HStep; HStep].

Theorem hook_kind_switch_refuted :
  exists r0 sched, msorted r0 /\ hs_done (hr_sh (hrun_sched sched (hrun_init r0))) = true /\
    hreplay_orig (hnewfile (hrun_sched sched (hrun_init r0))) [] = None.
Proof. exists [], hsched_switch. split; [constructor|]. split; reflexivity. Qed.

(* hooks example: SETHOOK / SETCHAN / DELHOOK / PDELCHAN between the sections of the hooks phase *)
Definition ex_hooks : hreg :=
  [(b1 97, mkHook false (b1 49) false); (b1 98, mkHook true (b1 50) true); (b1 99, mkHook false (b1 51) false);
   (b1 100, mkHook true (b1 52) false)].
Definition ex_hkind (n : bytes) : bool := match n with [x] => N.even x | _ => false end.
Definition ex_hsched : list hev :=
  [HW (HSet (b1 101) (mkHook false (b1 53) false)); HW (HSet (b1 97) (mkHook false (b1 49) false));
   HStep; HW (HDel (b1 98) true); HW (HDel (b1 99) true); HStep; HW (HSet (b1 97) (mkHook false (b1 57) true));
   HStep; HW (HPdel (b1 100) true); HW (HSet (b1 102) (mkHook true (b1 54) false)); HStep; HStep; HStep; HStep].

(* ---- the repaired loader (an HFatal record is ignored): no hypothesis on kinds ---- *)

(* exact per-name action of a command *)
Definition hact (c : hcmd) (n : bytes) (x : option hook) : option hook :=
  match c with
  | HSet n' h =>
      if bytes_eqb n n' then
        match x with
        | Some p => if negb (Bool.eqb (h_chan p) (h_chan h)) then x else if hook_same p h then x else Some h
        | None => Some h
        end
      else x
  | HDel n' c =>
      if bytes_eqb n n' then
        match x with Some p => if Bool.eqb (h_chan p) c then None else x | None => x end
      else x
  | HPdel pat c =>
      match x with Some p => if pmatch pat n && Bool.eqb (h_chan p) c then None else x | None => None end
  | HFlush => None
  end.

Fixpoint hacts (l : list hcmd) (n : bytes) (x : option hook) : option hook :=
  match l with [] => x | c :: r => hacts r n (hact c n x) end.

Lemma hacts_app a b n x : hacts (a ++ b) n x = hacts b n (hacts a n x).
Proof. revert x. induction a as [|c a IH]; intros x; cbn; [reflexivity | apply IH]. Qed.

Lemma hexec_sorted r c : msorted r -> msorted (fst (hexec r c)).
Proof.
  intros Hs. destruct c as [n' h|n' c|pat c|]; cbn [hexec].
  - destruct (get n' r) as [p|]; [|apply msorted_set; exact Hs].
    destruct (negb _); [exact Hs|]. destruct (hook_same p h); [exact Hs | apply msorted_set; exact Hs].
  - destruct (get n' r) as [p|]; [|exact Hs]. destruct (Bool.eqb _ _); [apply msorted_del; exact Hs | exact Hs].
  - cbv zeta. destruct (Nat.eqb _ _); [exact Hs | apply msorted_filter; exact Hs].
  - constructor.
Qed.

Lemma hexec_act r c n : msorted r -> get n (fst (hexec r c)) = hact c n (get n r).
Proof.
  intros Hs. destruct c as [n' h|n' c|pat c|]; cbn [hexec hact].
  - destruct (bytes_eqb n n') eqn:En.
    + apply bytes_eqb_eq in En; subst n'. destruct (get n r) as [p|] eqn:E; cbn [fst].
      * destruct (negb (Bool.eqb (h_chan p) (h_chan h))); cbn [fst]; [exact E|].
        destruct (hook_same p h); cbn [fst]; [exact E | apply get_set_same].
      * apply get_set_same.
    + apply eqb_false_neq in En. destruct (get n' r) as [p|]; cbn [fst]; [|apply get_set_other; exact En].
      destruct (negb _); cbn [fst]; [reflexivity|]. destruct (hook_same p h); cbn [fst]; [reflexivity | apply get_set_other; exact En].
  - destruct (bytes_eqb n n') eqn:En.
    + apply bytes_eqb_eq in En; subst n'. destruct (get n r) as [p|] eqn:E; cbn [fst]; [|exact E].
      destruct (Bool.eqb (h_chan p) c); cbn [fst]; [apply get_del_same; exact Hs | exact E].
    + apply eqb_false_neq in En. destruct (get n' r) as [p|]; cbn [fst]; [|reflexivity].
      destruct (Bool.eqb _ _); cbn [fst]; [apply get_del_other; exact En | reflexivity].
  - cbv zeta. set (f := fun nh : bytes * hook => negb (pmatch pat (fst nh) && Bool.eqb (h_chan (snd nh)) c)).
    assert (Hg : get n (filter f r) = match get n r with
                                      | Some p => if pmatch pat n && Bool.eqb (h_chan p) c then None else get n r
                                      | None => None end).
    { rewrite get_filter_sorted by exact Hs. destruct (get n r) as [p|]; [|reflexivity]. unfold f. cbn [fst snd].
      destruct (pmatch pat n && Bool.eqb (h_chan p) c); reflexivity. }
    destruct (Nat.eqb_spec (length (filter f r)) (length r)) as [El|El]; cbn [fst]; [|exact Hg].
    rewrite (filter_length_eq f r El) in Hg. exact Hg.
  - reflexivity.
Qed.

Lemma hreplay_get l : forall r n, msorted r -> get n (hreplay l r) = hacts l n (get n r).
Proof.
  induction l as [|c l IH]; intros r n Hs; cbn [hreplay hacts]; [reflexivity|].
  rewrite IH by (apply hexec_sorted; exact Hs). rewrite hexec_act by exact Hs. reflexivity.
Qed.

(* what `logged` tells about the name n: a logged SETHOOK/SETCHAN n found n absent or of its kind,
   a logged DELHOOK/DELCHAN n found it with that kind (PDEL* and FLUSHDB tell nothing about n) *)
Definition heff (c : hcmd) (n : bytes) (x : option hook) : Prop :=
  match c with
  | HSet n' h => n = n' -> x = None \/ exists p, x = Some p /\ h_chan p = h_chan h
  | HDel n' c => n = n' -> exists p, x = Some p /\ h_chan p = c
  | _ => True
  end.

Fixpoint okh (l : list hcmd) (n : bytes) (x : option hook) : Prop :=
  match l with [] => True | c :: r => heff c n x /\ okh r n (hact c n x) end.

Lemma okh_app a b n x : okh (a ++ b) n x <-> okh a n x /\ okh b n (hacts a n x).
Proof. revert x. induction a as [|c a IH]; intros x; cbn; [tauto|]. rewrite IH. tauto. Qed.

Lemma hexec_logged_eff r c n : hlogged (snd (hexec r c)) = true -> heff c n (get n r).
Proof.
  destruct c as [n' h|n' c|pat c|]; cbn [hexec heff]; try (intros; exact I).
  - intros Hl ->. destruct (get n' r) as [p|]; [|left; reflexivity]. right. exists p. split; [reflexivity|].
    destruct (Bool.eqb (h_chan p) (h_chan h)) eqn:E; [apply Bool.eqb_prop; exact E | discriminate Hl].
  - intros Hl ->. destruct (get n' r) as [p|]; [|discriminate Hl]. exists p. split; [reflexivity|].
    destruct (Bool.eqb (h_chan p) c) eqn:E; [apply Bool.eqb_prop; exact E | discriminate Hl].
Qed.

(* lock-step: u the original run, w the replay that started from y; they are equal, or the replay
   still holds y, or the replay lost y to a PDEL of y's kind while the original holds another kind *)
Definition HInv (y u w : option hook) : Prop :=
  w = u \/ w = y \/ (w = None /\ exists p q, u = Some p /\ y = Some q /\ h_chan p <> h_chan q).

Lemma heff_set_result n h x : heff (HSet n h) n x -> hact (HSet n h) n x = Some h.
Proof.
  cbn. rewrite bytes_eqb_refl. intros H. destruct (H eq_refl) as [->|[p [-> Hk]]]; [reflexivity|].
  rewrite Hk, Bool.eqb_reflx. cbn [negb]. destruct (hook_same p h) eqn:E; [|reflexivity].
  f_equal. apply hook_same_eq; assumption.
Qed.

Lemma eqb_neq_false a b : a <> b -> Bool.eqb a b = false.
Proof. destruct a, b; cbn; congruence. Qed.

Lemma HInv_step y c n u w : heff c n u -> HInv y u w -> HInv y (hact c n u) (hact c n w).
Proof.
  intros He [->|[->|[-> [p [q [-> [-> Hpq]]]]]]].
  - left; reflexivity.
  - (* the replay still holds y *)
    destruct c as [n' h|n' c|pat c|].
    + destruct (bytes_eqb n n') eqn:En; [|cbn; rewrite En; right; left; reflexivity].
      apply bytes_eqb_eq in En; subst n'. rewrite (heff_set_result n h u He).
      cbn. rewrite bytes_eqb_refl. destruct y as [q|]; [|left; reflexivity].
      destruct (Bool.eqb (h_chan q) (h_chan h)) eqn:Ek; cbn [negb]; [|right; left; reflexivity].
      destruct (hook_same q h) eqn:Es; [|left; reflexivity]. left. f_equal. apply hook_same_eq; [exact Es|].
      apply Bool.eqb_prop; exact Ek.
    + cbn in *. destruct (bytes_eqb n n') eqn:En; [|right; left; reflexivity].
      apply bytes_eqb_eq in En; subst n'. destruct (He eq_refl) as [p [-> Hk]]. rewrite Hk, Bool.eqb_reflx.
      destruct y as [q|]; [|left; reflexivity]. destruct (Bool.eqb (h_chan q) c); [left; reflexivity | right; left; reflexivity].
    + cbn. destruct y as [q|]; [|destruct u as [p|]; [right; left; reflexivity | left; reflexivity]].
      destruct (pmatch pat n && Bool.eqb (h_chan q) c) eqn:Eq; [|right; left; reflexivity].
      destruct u as [p|]; [|left; reflexivity].
      destruct (pmatch pat n && Bool.eqb (h_chan p) c) eqn:Ep; [left; reflexivity|].
      right; right. split; [reflexivity|]. exists p, q. split; [reflexivity|]. split; [reflexivity|].
      intros Hk. rewrite Hk in Ep. congruence.
    + left; reflexivity.
  - (* the replay is empty, the original holds p of another kind than y = q *)
    destruct c as [n' h|n' c|pat c|].
    + destruct (bytes_eqb n n') eqn:En.
      * apply bytes_eqb_eq in En; subst n'. rewrite (heff_set_result n h (Some p) He).
        cbn. rewrite bytes_eqb_refl. left; reflexivity.
      * cbn. rewrite En. right; right. split; [reflexivity|]. exists p, q. auto.
    + cbn in *. destruct (bytes_eqb n n') eqn:En.
      * apply bytes_eqb_eq in En; subst n'. destruct (He eq_refl) as [p' [Hp Hk]]. inversion Hp; subst p'.
        rewrite Hk, Bool.eqb_reflx. left; reflexivity.
      * right; right. split; [reflexivity|]. exists p, q. auto.
    + cbn. destruct (pmatch pat n && Bool.eqb (h_chan p) c); [left; reflexivity|].
      right; right. split; [reflexivity|]. exists p, q. auto.
    + left; reflexivity.
Qed.

Lemma HInv_run y n l : forall u w, okh l n u -> HInv y u w -> HInv y (hacts l n u) (hacts l n w).
Proof.
  induction l as [|c l IH]; intros u w Hok Hi; cbn [hacts]; [exact Hi|].
  destruct Hok as [He Hok]. apply IH; [exact Hok|]. apply HInv_step; assumption.
Qed.

(* the hook shrinklog is idempotent on the states of its run, whatever the kinds *)
Theorem hacts_idem l n x0 : okh l n x0 -> hacts l n (hacts l n x0) = hacts l n x0.
Proof.
  intros Hok. set (y := hacts l n x0).
  assert (Hi : HInv y (hacts l n x0) (hacts l n y)) by (apply HInv_run; [exact Hok | right; left; reflexivity]).
  fold y in Hi. destruct Hi as [H|[H|[_ [p [q [Hp [Hq Hpq]]]]]]]; [exact H | exact H|].
  exfalso. rewrite Hp in Hq. inversion Hq; subst. apply Hpq; reflexivity.
Qed.

Theorem hlog_idempotent n l1 l2 x0 : okh (l1 ++ l2) n x0 ->
  hacts (l1 ++ l2) n (hacts l1 n x0) = hacts (l1 ++ l2) n x0.
Proof.
  intros Hok. apply okh_app in Hok. destruct Hok as [Hok _]. rewrite !hacts_app, hacts_idem by exact Hok. reflexivity.
Qed.

Definition is_hset (c : hcmd) : Prop := match c with HSet _ _ => True | _ => False end.

Lemma hacts_out_some out n : Forall is_hset out -> forall x h, hacts out n x = Some h -> x = Some h \/ In (HSet n h) out.
Proof.
  induction 1 as [|c out Hc _ IH]; intros x h; cbn [hacts]; [auto|]. intros H. destruct (IH _ _ H) as [H1|H1]; [|right; right; exact H1].
  destruct c as [n' h'| | |]; try destruct Hc. cbn in H1. destruct (bytes_eqb n n') eqn:En; [|left; exact H1].
  apply bytes_eqb_eq in En; subst n'. destruct x as [p|].
  - destruct (negb _); [left; exact H1|]. destruct (hook_same p h'); [left; exact H1|]. inversion H1; subst. right; left; reflexivity.
  - inversion H1; subst. right; left; reflexivity.
Qed.

Lemma hacts_some_stays l n : Forall is_hset l -> forall q, hacts l n (Some q) <> None.
Proof.
  induction 1 as [|c' l' Hc' _ IH']; intros q'; cbn [hacts]; [discriminate|].
  destruct c' as [n' h'| | |]; try destruct Hc'. cbn. destruct (bytes_eqb n n'); [|apply IH'].
  destruct (negb _); [apply IH'|]. destruct (hook_same q' h'); apply IH'.
Qed.

Lemma hacts_out_none out n : Forall is_hset out -> forall x, hacts out n x = None -> forall h, ~ In (HSet n h) out.
Proof.
  induction 1 as [|c out Hc Hrest IH]; intros x; cbn [hacts]; [intros _ h []|]. intros H h [Heq|Hin].
  - subst c. assert (Hx : exists q, hact (HSet n h) n x = Some q).
    { cbn. rewrite bytes_eqb_refl. destruct x as [p|]; [|eexists; reflexivity].
      destruct (negb _); [eexists; reflexivity|]. destruct (hook_same p h); eexists; reflexivity. }
    destruct Hx as [q Hq]. rewrite Hq in H. exact (hacts_some_stays out n Hrest q H).
  - exact (IH _ H h Hin).
Qed.

Definition hprefix (log : list hcmd) (n : bytes) (x0 y : option hook) : Prop :=
  exists l1 l2, log = l1 ++ l2 /\ hacts l1 n x0 = y.

Lemma hprefix_snoc log c n x0 y : hprefix log n x0 y -> hprefix (log ++ [c]) n x0 y.
Proof. intros [l1 [l2 [-> H]]]. exists l1, (l2 ++ [c]). rewrite app_assoc. auto. Qed.

Lemma hprefix_now log n x0 : hprefix log n x0 (hacts log n x0).
Proof. exists log, []. rewrite app_nil_r. auto. Qed.

Record hginv (r0 : hreg) (r : hrun) : Prop := {
  g_sorted : msorted (hr_live r);
  g_live : forall n, get n (hr_live r) = hacts (hr_log r) n (get n r0);
  g_ok : forall n, okh (hr_log r) n (get n r0);
  g_out : Forall is_hset (hs_out (hr_sh r));
  g_sound : forall n h, In (HSet n h) (hs_out (hr_sh r)) -> hprefix (hr_log r) n (get n r0) (Some h);
  g_cover : forall n, (exists h, In (HSet n h) (hs_out (hr_sh r))) \/ hpending n (hr_sh r) \/
                      hprefix (hr_log r) n (get n r0) None
}.

Lemma hginv_step r0 r e : hginv r0 r -> hginv r0 (hdo_ev r e).
Proof.
  intros [Hs Hlive Hok Hout Hsound Hcover]. destruct e as [c|]; cbn [hdo_ev].
  - pose proof (hexec_sorted (hr_live r) c Hs) as Hs'.
    pose proof (fun n => hexec_act (hr_live r) c n Hs) as Hg.
    pose proof (hexec_unlogged (hr_live r) c) as Hnl.
    pose proof (fun n => hexec_logged_eff (hr_live r) c n) as Hle.
    destruct (hexec (hr_live r) c) as [r' o]. cbn [fst snd] in *. destruct (hlogged o) eqn:Elog.
    + constructor; cbn [hr_live hr_sh hr_log]; auto.
      * intros n. rewrite hacts_app. cbn [hacts]. rewrite Hg, Hlive. reflexivity.
      * intros n. apply okh_app. split; [apply Hok|]. cbn. split; [|exact I]. rewrite <- Hlive. apply Hle; reflexivity.
      * intros n h Hin. apply hprefix_snoc, Hsound, Hin.
      * intros n. destruct (Hcover n) as [H|[H|H]]; [left; exact H | right; left; exact H | right; right; apply hprefix_snoc, H].
    + rewrite (Hnl eq_refl) in *. constructor; cbn [hr_live hr_sh hr_log]; auto.
  - unfold hstep. destruct (hs_pos (hr_sh r)) as [|names|] eqn:Ep.
    + constructor; cbn [hr_live hr_sh hr_log hs_out hs_pos]; auto.
      intros n. destruct (Hcover n) as [H|[_|H]]; [left; exact H| |right; right; exact H].
      destruct (get n (hr_live r)) as [h|] eqn:E.
      * right; left. apply get_in_keys in E. unfold hpending. cbn [hs_pos]. destruct (keys (hr_live r)); [destruct E | exact E].
      * right; right. rewrite Hlive in E. pose proof (hprefix_now (hr_log r) n (get n r0)) as P. rewrite E in P. exact P.
    + destruct names as [|m rest].
      * constructor; cbn [hr_live hr_sh hr_log hs_out hs_pos]; auto.
        intros n. destruct (Hcover n) as [H|[H|H]]; [left; exact H| |right; right; exact H].
        unfold hpending in H. rewrite Ep in H. destruct H.
      * assert (Hrest : forall n out, In n rest -> hpending n (mkHShrink (hnext rest) out)).
        { intros n out Hn. unfold hpending; cbn [hs_pos]. destruct rest; [destruct Hn | exact Hn]. }
        destruct (get m (hr_live r)) as [hm|] eqn:Em.
        -- constructor; cbn [hr_live hr_sh hr_log hs_out hs_pos]; auto.
           ++ apply Forall_app. split; [exact Hout | constructor; [exact I | constructor]].
           ++ intros n h Hin. apply in_app_iff in Hin. destruct Hin as [Hin|[Heq|[]]]; [apply Hsound; exact Hin|].
              inversion Heq; subst. rewrite Hlive in Em. pose proof (hprefix_now (hr_log r) n (get n r0)) as P. rewrite Em in P. exact P.
           ++ intros n. destruct (Hcover n) as [[h H]|[H|H]]; [left; exists h; apply in_app_iff; left; exact H| |right; right; exact H].
              unfold hpending in H. rewrite Ep in H. destruct H as [<-|H].
              ** left. exists hm. apply in_app_iff. right; left; reflexivity.
              ** right; left. apply Hrest; exact H.
        -- constructor; cbn [hr_live hr_sh hr_log hs_out hs_pos]; auto.
           intros n. destruct (Hcover n) as [H|[H|H]]; [left; exact H| |right; right; exact H].
           unfold hpending in H. rewrite Ep in H. destruct H as [<-|H].
           ** right; right. rewrite Hlive in Em. pose proof (hprefix_now (hr_log r) m (get m r0)) as P. rewrite Em in P. exact P.
           ** right; left. apply Hrest; exact H.
    + constructor; cbn [hr_live hr_sh hr_log]; auto.
Qed.

Theorem hooks_preserved r0 sched : msorted r0 ->
  let r := hrun_sched sched (hrun_init r0) in
  hs_done (hr_sh r) = true -> forall n, get n (hreplay (hnewfile r) []) = get n (hr_live r).
Proof.
  intros Hs r Hdone n.
  assert (Hinit : hginv r0 (hrun_init r0)).
  { constructor; cbn; auto. intros n' h []. }
  assert (Hinv : hginv r0 r).
  { unfold r, hrun_sched. generalize (hrun_init r0) Hinit. clear r Hdone Hinit.
    induction sched as [|e sched IH]; intros r Hr; cbn [fold_left]; [exact Hr|]. apply IH. apply hginv_step; exact Hr. }
  destruct Hinv as [_ Hlive Hok Hout Hsound Hcover].
  rewrite hreplay_get by constructor. cbn [get]. unfold hnewfile. rewrite hacts_app, Hlive.
  assert (Hkey : forall y, hprefix (hr_log r) n (get n r0) y -> hacts (hr_log r) n y = hacts (hr_log r) n (get n r0)).
  { intros y [l1 [l2 [Hl Hy]]]. specialize (Hok n). rewrite Hl in *. rewrite <- Hy. apply hlog_idempotent; exact Hok. }
  apply Hkey. destruct (hacts (hs_out (hr_sh r)) n None) as [h|] eqn:E.
  - destruct (hacts_out_some _ n Hout _ _ E) as [H|H]; [discriminate|]. apply Hsound; exact H.
  - pose proof (hacts_out_none _ n Hout _ E) as Hno.
    destruct (Hcover n) as [[h H]|[H|H]]; [exfalso; eapply Hno; exact H| |exact H].
    exfalso. unfold hs_done in Hdone. unfold hpending in H. destruct (hs_pos (hr_sh r)); try discriminate. exact H.
Qed.

(* ------------------------------------------------------------------ 11. TTL digits *)

Local Open Scope Z_scope.

Theorem ttl_floor ex now : 100000000 <= ex - now ->
  let t := obj_ttl_tenths ex now * 100000000 in t <= ex - now < t + 100000000.
Proof.
  intros H t. unfold t, obj_ttl_tenths.
  pose proof (Z.div_mod (ex - now) 100000000 ltac:(lia)) as Hd.
  pose proof (Z.mod_pos_bound (ex - now) 100000000 ltac:(lia)) as Hm.
  assert (1 <= (ex - now) / 100000000) by (apply Z.div_le_lower_bound; lia). lia.
Qed.

Theorem ttl_minimum ex now : ex - now < 100000000 -> obj_ttl_tenths ex now = 1.
Proof.
  intros H. unfold obj_ttl_tenths.
  assert ((ex - now) / 100000000 <= 0); [|lia].
  destruct (Z_lt_le_dec (ex - now) 0) as [Hn|Hp].
  - pose proof (Z.div_lt_upper_bound (ex - now) 100000000 0 ltac:(lia) ltac:(lia)). lia.
  - rewrite Z.div_small by lia. lia.
Qed.

Theorem hook_ttl_round ex now :
  let t := hook_ttl_tenths ex now * 100000000 in t - 50000000 <= ex - now < t + 50000000.
Proof.
  intros t. unfold t, hook_ttl_tenths.
  pose proof (Z.div_mod (ex - now + 50000000) 100000000 ltac:(lia)) as Hd.
  pose proof (Z.mod_pos_bound (ex - now + 50000000) 100000000 ltac:(lia)) as Hm. lia.
Qed.

(* ------------------------------------------------------------------ 13. file names *)

Lemma msorted_put_file p f fs : msorted fs -> msorted (put_file p f fs).
Proof. intros H. unfold put_file. destruct f; [apply msorted_set | apply msorted_del]; exact H. Qed.

Lemma get_put_file p f (fs : fsys) q : msorted fs ->
  get q (put_file p f fs) = if bytes_eqb q p then f else get q fs.
Proof.
  intros Hs. unfold put_file. destruct (bytes_eqb q p) eqn:E.
  - apply bytes_eqb_eq in E; subst q. destruct f; [apply get_set_same | apply get_del_same; exact Hs].
  - apply eqb_false_neq in E. destruct f; [apply get_set_other | apply get_del_other]; exact E.
Qed.

Lemma app_neq_self {A} (n s : list A) : s <> [] -> n <> n ++ s.
Proof. intros Hs H. apply (f_equal (@length A)) in H. rewrite app_length in H. destruct s; [congruence | cbn in H; lia]. Qed.

Lemma name_neq_bak n : n <> bak_name n.
Proof. apply app_neq_self. discriminate. Qed.

Lemma name_neq_shrink n : n <> shrink_name n.
Proof. apply app_neq_self. discriminate. Qed.

Lemma bak_neq_shrink n : bak_name n <> shrink_name n.
Proof. unfold bak_name, shrink_name. intros H. apply app_inv_head in H. discriminate. Qed.

Lemma get_to_fs n d rest : msorted rest ->
  get n (to_fs n d rest) = d_live d /\ get (bak_name n) (to_fs n d rest) = d_bak d.
Proof.
  intros Hs. unfold to_fs.
  pose proof (msorted_put_file (shrink_name n) (d_shrink d) rest Hs) as H1.
  pose proof (msorted_put_file (bak_name n) (d_bak d) _ H1) as H2.
  split.
  - rewrite get_put_file by exact H2. rewrite bytes_eqb_refl. reflexivity.
  - rewrite get_put_file by exact H2. rewrite (proj2 (eqb_false_neq _ _)) by (intros E; apply (name_neq_bak n); symmetry; exact E).
    rewrite get_put_file by exact H1. rewrite bytes_eqb_refl. reflexivity.
Qed.

(* the named start-up (restore <name>-bak, open <name>) is the directory-level repaired start-up,
   for every configured name and whatever other files are around *)
Theorem recover_fs_is_recover_dir n d rest : msorted rest -> recover_fs n n (to_fs n d rest) = recover_dir d.
Proof.
  intros Hs. destruct (get_to_fs n d rest Hs) as [Hl Hb]. unfold recover_fs, restore_backup, recover_dir.
  rewrite Hl. destruct (d_live d) as [l|].
  - rewrite Hl. reflexivity.
  - rewrite Hb. destruct (d_bak d) as [b|].
    + rewrite get_set_same. reflexivity.
    + rewrite Hl. reflexivity.
Qed.

Theorem crash_points_named n rest fi c : msorted rest -> crash_hyp fi ->
  let s := recover_fs n n (to_fs n (crash_at fi c) rest) in
  same_data s (replay (f_live fi) []) \/ same_data s (replay (f_live fi ++ f_pend fi) []).
Proof. intros Hs H s. unfold s. rewrite recover_fs_is_recover_dir by exact Hs. apply crash_points; exact H. Qed.

(* a restore that looks under another name than the one the server opens comes up empty *)
Theorem restore_other_name_refuted :
  exists n0 n fi, n0 <> n /\ crash_hyp fi /\ (exists k i v, lookup k i (replay (f_live fi) []) = Some v) /\
    recover_fs n0 n (to_fs n (crash_at fi CP_after_rename_bak) []) = [].
Proof.
  exists (b1 97), (b1 98), fi_small. split; [discriminate|]. split; [intros k i; reflexivity|]. split; [|reflexivity].
  exists (b1 97), (b1 49), (mkObj (b1 120) [] false). vm_compute. reflexivity.
Qed.

(* a five-byte log name ("x.aof") and an unrelated file ("zz") *)
Definition ex_name : bytes := [120; 46; 97; 111; 102]%N.
Definition ex_rest : fsys := [([122; 122]%N, [CFlushdb])].
