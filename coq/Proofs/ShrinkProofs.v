(* C09 — lemmas about Model/Shrink.v (work in progress). *)
From Coq Require Import List NArith ZArith Bool Lia.
From T38 Require Import Base.Bytes Base.SMap Model.Shrink.
Import ListNotations.
