(* C09 — lemmas about Model/Shrink.v.

   Contents
     1. order / list / sorted-map helpers (ascend_from, firstn/skipn of sorted lists)
     2. exec / replay: pointwise effect of a command ("touch"), well-formedness
     3. characterisation of the batch scans and of one rewrite step (step_cases)
     4. T1/T2: the new file (snapshot ++ shrinklog) replays to the live dataset (no RENAME)
     5. T5: the records are emitted in strictly increasing (key,id) order (all schedules), and
        in the quiescent case are exactly the objects of the dataset
     6. T3: refutations with RENAME
     7. T4: crash points of the final section
     8. T6: termination of the quiescent run
     9. example data for Props/C09.v; the quiescent snapshot equals map rec_of (flatten s) *)
From Coq Require Import List NArith ZArith Bool Lia Sorted.
From Coq Require Import ZifyN ZifyNat ZifyBool.
From T38 Require Import Base.Bytes Base.SMap Model.Shrink.
Import ListNotations.
Local Open Scope nat_scope.

Definition wf (s : st) : Prop := msorted s /\ Forall (fun kc => msorted (snd kc)) s.
Definition same_data (a b : st) : Prop := forall k i, lookup k i a = lookup k i b.

(* ------------------------------------------------------------------ 1. helpers *)

Lemma ltb_false_leb a b : bytes_ltb a b = false <-> bytes_leb b a = true.
Proof.
  unfold bytes_ltb, bytes_leb. rewrite (bytes_cmp_antisym a b).
  destruct (bytes_cmp a b); cbn; split; congruence.
Qed.

Lemma leb_cases a b : bytes_leb a b = true -> a = b \/ bytes_ltb a b = true.
Proof.
  unfold bytes_leb, bytes_ltb. destruct (bytes_cmp a b) eqn:E; intros H.
  - left. apply bytes_cmp_eq; exact E.
  - right; reflexivity.
  - discriminate.
Qed.

Lemma leb_ltb_trans a b c : bytes_leb a b = true -> bytes_ltb b c = true -> bytes_ltb a c = true.
Proof. intros H1 H2. destruct (leb_cases _ _ H1) as [->|H]; [exact H2 | eapply ltb_trans; eauto]. Qed.

Lemma ltb_leb_trans a b c : bytes_ltb a b = true -> bytes_leb b c = true -> bytes_ltb a c = true.
Proof. intros H1 H2. destruct (leb_cases _ _ H2) as [<-|H]; [exact H1 | eapply ltb_trans; eauto]. Qed.

Lemma leb_nil i : bytes_leb [] i = true.
Proof. destruct i; reflexivity. Qed.

Lemma ltb_leb_contra a b : bytes_ltb a b = true -> bytes_leb b a = true -> False.
Proof. intros H1 H2. apply ltb_false_leb in H2. congruence. Qed.

Lemma ltb_nil_false a : bytes_ltb a [] = false.
Proof. destruct a; reflexivity. Qed.

(* StronglySorted and append *)
Lemma SS_app_inv {A} (R : A -> A -> Prop) (a b : list A) :
  StronglySorted R (a ++ b) ->
  StronglySorted R a /\ StronglySorted R b /\ (forall x y, In x a -> In y b -> R x y).
Proof.
  induction a as [|x a IH]; cbn; intros H.
  - split; [constructor|]. split; [exact H|]. intros ? ? [].
  - apply StronglySorted_inv in H. destruct H as [H1 H2]. destruct (IH H1) as [Ha [Hb Hab]].
    apply Forall_app in H2. destruct H2 as [H2a H2b]. split; [constructor; assumption|].
    split; [exact Hb|]. intros x' y [->|Hx] Hy.
    + rewrite Forall_forall in H2b. apply H2b; exact Hy.
    + apply Hab; assumption.
Qed.

Lemma SS_app {A} (R : A -> A -> Prop) (a b : list A) :
  StronglySorted R a -> StronglySorted R b -> (forall x y, In x a -> In y b -> R x y) ->
  StronglySorted R (a ++ b).
Proof.
  induction a as [|x a IH]; cbn; intros Ha Hb Hab; [exact Hb|].
  apply StronglySorted_inv in Ha. destruct Ha as [Ha Hx]. constructor.
  - apply IH; [exact Ha | exact Hb|]. intros; apply Hab; [right|]; assumption.
  - apply Forall_app. split; [exact Hx|]. rewrite Forall_forall. intros y Hy. apply Hab; [left; reflexivity | exact Hy].
Qed.

Lemma SS_map {A B} (f : A -> B) (R : A -> A -> Prop) (S : B -> B -> Prop) (l : list A) :
  (forall x y, R x y -> S (f x) (f y)) -> StronglySorted R l -> StronglySorted S (map f l).
Proof.
  intros HRS H. induction H as [|x l Hl IH Hx]; cbn; constructor; [exact IH|].
  rewrite Forall_forall in *. intros y Hy. apply in_map_iff in Hy. destruct Hy as [z [<- Hz]].
  apply HRS. apply Hx; exact Hz.
Qed.

(* a strictly sorted list cut at n: the part before, the part after, the first of the part after *)
Lemma sorted_firstn (l : list bytes) n : sorted_keys l -> sorted_keys (firstn n l).
Proof. intros H. unfold sorted_keys in *. rewrite <- (firstn_skipn n l) in H. apply SS_app_inv in H. tauto. Qed.

Lemma sorted_skipn (l : list bytes) n : sorted_keys l -> sorted_keys (skipn n l).
Proof. intros H. unfold sorted_keys in *. rewrite <- (firstn_skipn n l) in H. apply SS_app_inv in H. tauto. Qed.

Lemma sorted_cut_lt (l : list bytes) n y t x :
  sorted_keys l -> skipn n l = y :: t -> In x (firstn n l) -> bytes_ltb x y = true.
Proof.
  intros H E Hx. unfold sorted_keys in H. rewrite <- (firstn_skipn n l) in H. apply SS_app_inv in H.
  destruct H as [_ [_ H]]. apply H; [exact Hx|]. rewrite E. left; reflexivity.
Qed.

Lemma sorted_cut_ge (l : list bytes) n y t x :
  sorted_keys l -> skipn n l = y :: t -> In x l -> In x (firstn n l) \/ bytes_leb y x = true.
Proof.
  intros H E Hx. rewrite <- (firstn_skipn n l) in Hx. apply in_app_iff in Hx. destruct Hx as [Hx|Hx]; [left; exact Hx|].
  right. apply (sorted_skipn l n) in H. rewrite E in *. destruct Hx as [->|Hx]; [apply bytes_leb_refl|].
  apply StronglySorted_inv in H. destruct H as [_ H]. rewrite Forall_forall in H. apply bytes_ltb_leb. apply H; exact Hx.
Qed.

Lemma skipn_nil_firstn {A} n (l : list A) : skipn n l = [] -> firstn n l = l.
Proof. intros E. rewrite <- (firstn_skipn n l) at 2. rewrite E, app_nil_r. reflexivity. Qed.

Lemma skipn_head_in {A} n (l : list A) y t : skipn n l = y :: t -> In y l.
Proof. intros E. rewrite <- (firstn_skipn n l), E. apply in_app_iff. right; left; reflexivity. Qed.

Lemma firstn_in {A} n (l : list A) x : In x (firstn n l) -> In x l.
Proof. intros H. rewrite <- (firstn_skipn n l). apply in_app_iff. left; exact H. Qed.

(* ascend_from over a sorted map *)
Lemma ascend_from_In {V} p (m : smap V) k v :
  In (k, v) m -> bytes_leb p k = true -> In (k, v) (ascend_from p m).
Proof.
  induction m as [|[k' v'] r IH]; cbn; [tauto|]. intros Hin Hle.
  destruct (bytes_ltb k' p) eqn:E; [|exact Hin].
  destruct Hin as [Heq|Hin]; [|apply IH; assumption].
  inversion Heq; subst. exfalso. eapply ltb_leb_contra; eauto.
Qed.

Lemma ascend_from_incl {V} p (m : smap V) x : In x (ascend_from p m) -> In x m.
Proof.
  induction m as [|[k' v'] r IH]; cbn; [tauto|].
  destruct (bytes_ltb k' p); [intros H; right; apply IH; exact H | tauto].
Qed.

Lemma ascend_from_sorted {V} p (m : smap V) : msorted m -> msorted (ascend_from p m).
Proof.
  induction m as [|[k' v'] r IH]; cbn; intros H; [exact H|].
  destruct (bytes_ltb k' p); [apply IH; eapply msorted_tail; exact H | exact H].
Qed.

Lemma ascend_from_ge {V} p (m : smap V) :
  msorted m -> Forall (fun k => bytes_leb p k = true) (keys (ascend_from p m)).
Proof.
  induction m as [|[k' v'] r IH]; cbn; intros H; [constructor|].
  destruct (bytes_ltb k' p) eqn:E; [apply IH; eapply msorted_tail; exact H|].
  apply ltb_false_leb in E. apply msorted_inv in H. destruct H as [_ H]. cbn. constructor; [exact E|].
  rewrite Forall_forall in *. intros x Hx. apply bytes_ltb_leb. eapply leb_ltb_trans; [exact E | apply H; exact Hx].
Qed.

Lemma in_keys_get {V} k (m : smap V) : In k (keys m) -> exists v, get k m = Some v.
Proof.
  induction m as [|[k' v'] r IH]; cbn; [tauto|]. intros [->|H].
  - rewrite bytes_eqb_refl. eexists; reflexivity.
  - destruct (bytes_eqb k k'); [eexists; reflexivity | apply IH; exact H].
Qed.

(* ------------------------------------------------------------------ 2. exec / replay *)

Lemma lookup_nil k i : lookup k i [] = None.
Proof. reflexivity. Qed.

Lemma lookup_set_same k c s i : lookup k i (set k c s) = get i c.
Proof. unfold lookup. rewrite get_set_same. reflexivity. Qed.

Lemma lookup_set_other k k' c s i : k <> k' -> lookup k i (set k' c s) = lookup k i s.
Proof. intros H. unfold lookup. rewrite get_set_other by exact H. reflexivity. Qed.

Lemma lookup_del_same k s i : msorted s -> lookup k i (del k s) = None.
Proof. intros H. unfold lookup. rewrite get_del_same by exact H. reflexivity. Qed.

Lemma lookup_del_other k k' s i : k <> k' -> lookup k i (del k' s) = lookup k i s.
Proof. intros H. unfold lookup. rewrite get_del_other by exact H. reflexivity. Qed.

Lemma wf_nil : wf [].
Proof. split; constructor. Qed.

Lemma wf_get s k col : wf s -> get k s = Some col -> msorted col.
Proof. intros [_ HF] Hg. exact (Forall_get _ _ _ _ HF Hg). Qed.

Lemma lookup_some s k i v : lookup k i s = Some v -> exists col, get k s = Some col /\ get i col = Some v.
Proof. unfold lookup. destruct (get k s) as [col|]; [|discriminate]. intros H. exists col. auto. Qed.

Lemma exec_wf s c : wf s -> wf (fst (exec s c)).
Proof.
  intros Hwf. pose proof Hwf as [Hs HF]. destruct c as [k i v|k i|k|a b|]; cbn.
  - split; [apply msorted_set; exact Hs|]. apply Forall_set; [exact HF|]. cbn. apply msorted_set.
    destruct (get k s) eqn:E; [eapply wf_get; eauto | apply msorted_nil].
  - destruct (get k s) as [col|] eqn:E; [|exact Hwf]. destruct (get i col) eqn:Ei; [|exact Hwf]. cbn.
    destruct (del i col) eqn:Ed.
    + split; [apply msorted_del; exact Hs | apply Forall_del; exact HF].
    + rewrite <- Ed. split; [apply msorted_set; exact Hs|]. apply Forall_set; [exact HF|]. cbn.
      apply msorted_del. eapply wf_get; eauto.
  - destruct (get k s) eqn:E; [|exact Hwf]. cbn. split; [apply msorted_del; exact Hs | apply Forall_del; exact HF].
  - destruct (get a s) as [col|] eqn:E; [|exact Hwf]. cbn. split.
    + apply msorted_set, msorted_del, msorted_del; exact Hs.
    + apply Forall_set; [apply Forall_del, Forall_del; exact HF|]. cbn. eapply wf_get; eauto.
  - apply wf_nil.
Qed.

Lemma exec_not_logged s c : logged (snd (exec s c)) = false -> fst (exec s c) = s.
Proof.
  destruct c as [k i v|k i|k|a b|]; cbn; try discriminate.
  - destruct (get k s) as [col|]; [|reflexivity]. destruct (get i col); [discriminate | reflexivity].
  - destruct (get k s); [discriminate | reflexivity].
  - destruct (get a s); [discriminate | reflexivity].
Qed.

Definition nr_cmd (c : cmd) : bool := match c with CRename _ _ => false | _ => true end.

(* the effect of a (non-RENAME) command on the object (k,i): None = untouched,
   Some r = afterwards the lookup is r whatever it was before *)
Definition touch (c : cmd) (k i : bytes) : option (option val) :=
  match c with
  | CSet k' i' v => if bytes_eqb k k' && bytes_eqb i i' then Some (Some v) else None
  | CDel k' i' => if bytes_eqb k k' && bytes_eqb i i' then Some None else None
  | CDrop k' => if bytes_eqb k k' then Some None else None
  | CRename _ _ => None
  | CFlushdb => Some None
  end.

Lemma exec_lookup s c k i : wf s -> nr_cmd c = true ->
  lookup k i (fst (exec s c)) = match touch c k i with Some r => r | None => lookup k i s end.
Proof.
  intros Hwf Hnr. pose proof Hwf as [Hs HF]. destruct c as [k' i' v|k' i'|k'|a b|]; cbn in Hnr |- *; try discriminate.
  - destruct (bytes_eqb k k') eqn:Ek; cbn.
    + apply bytes_eqb_eq in Ek; subst k'. rewrite lookup_set_same.
      destruct (bytes_eqb i i') eqn:Ei.
      * apply bytes_eqb_eq in Ei; subst i'. apply get_set_same.
      * apply eqb_false_neq in Ei. rewrite get_set_other by exact Ei. unfold lookup. destruct (get k s); reflexivity.
    + apply eqb_false_neq in Ek. apply lookup_set_other; exact Ek.
  - destruct (bytes_eqb k k') eqn:Ek; cbn.
    + apply bytes_eqb_eq in Ek; subst k'.
      destruct (get k s) as [col|] eqn:E.
      * pose proof (wf_get _ _ _ Hwf E) as Hcol.
        destruct (get i' col) eqn:Ei'; cbn.
        -- assert (Hd : forall j, lookup k j (match del i' col with [] => del k s | _ :: _ => set k (del i' col) s end)
                                  = get j (del i' col)).
           { intros j. destruct (del i' col) eqn:Ed; [rewrite lookup_del_same by exact Hs; reflexivity|].
             rewrite lookup_set_same. reflexivity. }
           rewrite Hd. destruct (bytes_eqb i i') eqn:Ei.
           ++ apply bytes_eqb_eq in Ei; subst i'. apply get_del_same; exact Hcol.
           ++ apply eqb_false_neq in Ei. rewrite get_del_other by exact Ei. unfold lookup. rewrite E. reflexivity.
        -- destruct (bytes_eqb i i') eqn:Ei; [|reflexivity].
           apply bytes_eqb_eq in Ei; subst i'. unfold lookup. rewrite E. exact Ei'.
      * cbn. unfold lookup. rewrite E. destruct (bytes_eqb i i'); reflexivity.
    + apply eqb_false_neq in Ek.
      destruct (get k' s) as [col|] eqn:E; [|reflexivity]. destruct (get i' col) eqn:Ei'; [|reflexivity]. cbn.
      destruct (del i' col); [apply lookup_del_other | apply lookup_set_other]; exact Ek.
  - destruct (bytes_eqb k k') eqn:Ek.
    + apply bytes_eqb_eq in Ek; subst k'. destruct (get k s) eqn:E; cbn.
      * apply lookup_del_same; exact Hs.
      * unfold lookup. rewrite E. reflexivity.
    + apply eqb_false_neq in Ek. destruct (get k' s) eqn:E; cbn; [|reflexivity]. apply lookup_del_other; exact Ek.
  - reflexivity.
Qed.

Fixpoint last_touch (l : list cmd) (k i : bytes) : option (option val) :=
  match l with
  | [] => None
  | c :: r => match last_touch r k i with Some x => Some x | None => touch c k i end
  end.

Lemma last_touch_app a b k i :
  last_touch (a ++ b) k i = match last_touch b k i with Some x => Some x | None => last_touch a k i end.
Proof.
  induction a as [|c a IH]; cbn.
  - destruct (last_touch b k i); reflexivity.
  - rewrite IH. destruct (last_touch b k i); reflexivity.
Qed.

Lemma last_touch_none l k i : last_touch l k i = None -> forall c, In c l -> touch c k i = None.
Proof.
  induction l as [|c l IH]; cbn; [tauto|]. destruct (last_touch l k i); [discriminate|].
  intros H c' [<-|Hc]; [exact H | apply IH; [reflexivity | exact Hc]].
Qed.

Lemma last_touch_some l k i x : last_touch l k i = Some x -> exists c, In c l /\ touch c k i = Some x.
Proof.
  induction l as [|c l IH]; cbn; [discriminate|]. destruct (last_touch l k i) eqn:E.
  - intros H; inversion H; subst. destruct (IH eq_refl) as [c' [H1 H2]]. exists c'. auto.
  - intros H. exists c. auto.
Qed.

Lemma replay_app a b s : replay (a ++ b) s = replay b (replay a s).
Proof. revert s. induction a as [|c a IH]; intros s; cbn; [reflexivity | apply IH]. Qed.

Lemma replay_wf l s : wf s -> wf (replay l s).
Proof. revert s. induction l as [|c l IH]; intros s H; cbn; [exact H | apply IH, exec_wf; exact H]. Qed.

Lemma replay_lookup l : forall s k i, wf s -> forallb nr_cmd l = true ->
  lookup k i (replay l s) = match last_touch l k i with Some r => r | None => lookup k i s end.
Proof.
  induction l as [|c l IH]; intros s k i Hwf Hnr; cbn; [reflexivity|].
  cbn in Hnr. apply andb_true_iff in Hnr. destruct Hnr as [Hc Hl].
  rewrite IH by (try apply exec_wf; assumption).
  destruct (last_touch l k i); [reflexivity|]. apply exec_lookup; assumption.
Qed.

Definition is_cset (c : cmd) : Prop := match c with CSet _ _ _ => True | _ => False end.

Lemma cset_nr l : Forall is_cset l -> forallb nr_cmd l = true.
Proof. induction 1 as [|c l Hc _ IH]; cbn; [reflexivity|]. rewrite IH. destruct c; cbn in *; tauto. Qed.

Lemma touch_cset_some c k i x : is_cset c -> touch c k i = Some x -> exists v, x = Some v /\ c = CSet k i v.
Proof.
  destruct c as [k' i' v| | | |]; cbn; try tauto. intros _.
  destruct (bytes_eqb k k') eqn:Ek; cbn; [|discriminate]. destruct (bytes_eqb i i') eqn:Ei; [|discriminate].
  apply bytes_eqb_eq in Ek, Ei. subst. intros H; inversion H. exists v. auto.
Qed.

Lemma touch_cset_same k i v : touch (CSet k i v) k i = Some (Some v).
Proof. cbn. rewrite !bytes_eqb_refl. reflexivity. Qed.

(* ------------------------------------------------------------------ 3. scans and one step *)

Definition recs (k : bytes) (l : list (bytes * val)) : list cmd := map (fun iv => CSet k (fst iv) (snd iv)) l.

Lemma in_recs c k l : In c (recs k l) -> exists i v, c = CSet k i v /\ In (i, v) l.
Proof. unfold recs. intros H. apply in_map_iff in H. destruct H as [[i v] [<- H]]. exists i, v. auto. Qed.

Lemma recs_in k l i v : In (i, v) l -> In (CSet k i v) (recs k l).
Proof. intros H. unfold recs. apply in_map_iff. exists (i, v). auto. Qed.

Lemma recs_cset k l : Forall is_cset (recs k l).
Proof. rewrite Forall_forall. intros c H. apply in_recs in H. destruct H as [i [v [-> _]]]. exact I. Qed.

Section Steps.
Variables mk mi : nat.

Lemma keys_scan_spec l : forall acc kd nk, length acc <= mk ->
  keys_scan mk l acc kd nk =
  (acc ++ firstn (mk - length acc) l,
   match skipn (mk - length acc) l with [] => kd | _ :: _ => false end,
   match skipn (mk - length acc) l with [] => nk | y :: _ => y end).
Proof.
  induction l as [|key r IH]; intros acc kd nk Hlen; cbn [keys_scan].
  - rewrite firstn_nil, skipn_nil, app_nil_r. reflexivity.
  - destruct (Nat.eqb_spec (length acc) mk) as [E|E].
    + replace (mk - length acc) with 0 by lia. cbn. rewrite app_nil_r. reflexivity.
    + rewrite IH by (rewrite app_length; cbn; lia). rewrite app_length. cbn [length].
      replace (mk - length acc) with (S (mk - (length acc + 1))) by lia. cbn [firstn skipn].
      rewrite <- app_assoc. reflexivity.
Qed.

Lemma ids_scan_spec key l : forall count idsdone nid out, count <= mi ->
  ids_scan mi key l count idsdone nid out =
  (match skipn (mi - count) l with [] => idsdone | _ :: _ => false end,
   match skipn (mi - count) l with [] => nid | (y, _) :: _ => y end,
   out ++ recs key (firstn (mi - count) l)).
Proof.
  induction l as [|[id v] r IH]; intros count idsdone nid out Hc; cbn [ids_scan].
  - rewrite firstn_nil, skipn_nil. cbn. rewrite app_nil_r. reflexivity.
  - destruct (Nat.eqb_spec count mi) as [E|E].
    + replace (mi - count) with 0 by lia. cbn. rewrite app_nil_r. reflexivity.
    + rewrite IH by lia. replace (mi - count) with (S (mi - S count)) by lia. cbn [firstn skipn recs map fst snd].
      rewrite <- app_assoc. reflexivity.
Qed.

(* One step, unfolded.  At AtKeys the Go variable keys is empty (shape). *)
Lemma step_cases live sh :
  match sh_pos sh with
  | ScanDone => step mk mi live sh = sh
  | AtKeys =>
      sh_keys sh = [] ->
      let l := keys (ascend_from (sh_nextkey sh) live) in
      step mk mi live sh =
        top (firstn mk l) (match skipn mk l with [] => sh_nextkey sh | y :: _ => y end)
            (match skipn mk l with [] => sh_keysdone sh | _ :: _ => false end) (sh_out sh)
  | AtIds nid =>
      match sh_keys sh with
      | [] => step mk mi live sh = sh
      | k0 :: rest =>
          match get k0 live with
          | None => step mk mi live sh = top rest (sh_nextkey sh) (sh_keysdone sh) (sh_out sh)
          | Some col =>
              let l := ascend_from nid col in
              match skipn mi l with
              | [] => step mk mi live sh =
                        top rest (sh_nextkey sh) (sh_keysdone sh) (sh_out sh ++ recs k0 (firstn mi l))
              | (y, _) :: _ => step mk mi live sh =
                        mkShrink (sh_keys sh) (sh_nextkey sh) (sh_keysdone sh) (AtIds y)
                                 (sh_out sh ++ recs k0 (firstn mi l))
              end
          end
      end
  end.
Proof.
  unfold step. destruct (sh_pos sh) as [|nid|].
  - intros Hk. rewrite Hk. rewrite keys_scan_spec by (cbn; lia). cbn [length app].
    rewrite Nat.sub_0_r. reflexivity.
  - destruct (sh_keys sh) as [|k0 rest]; [reflexivity|].
    destruct (get k0 live) as [col|]; [|reflexivity].
    cbn zeta. rewrite ids_scan_spec by lia. rewrite Nat.sub_0_r.
    destruct (skipn mi (ascend_from nid col)) as [|[y w] t]; reflexivity.
  - reflexivity.
Qed.

Definition shape (sh : shrink) : Prop :=
  match sh_pos sh with AtKeys => sh_keys sh = [] | _ => True end.

Lemma top_shape keys nk kd out : shape (top keys nk kd out).
Proof. unfold top, shape. destruct keys; [destruct kd|]; cbn; auto. Qed.

Lemma top_out keys nk kd out : sh_out (top keys nk kd out) = out.
Proof. unfold top. destruct keys; [destruct kd|]; reflexivity. Qed.

Lemma shape_init : shape shrink_init.
Proof. reflexivity. Qed.

Lemma step_shape live sh : shape sh -> shape (step mk mi live sh).
Proof.
  intros Hs. pose proof (step_cases live sh) as H. unfold shape in Hs. destruct (sh_pos sh) as [|nid|] eqn:Ep.
  - rewrite (H Hs). apply top_shape.
  - destruct (sh_keys sh) as [|k0 rest]; [rewrite H; unfold shape; rewrite Ep; exact I|].
    destruct (get k0 live) as [col|]; [|rewrite H; apply top_shape].
    cbn zeta in H. destruct (skipn mi (ascend_from nid col)) as [|[y w] t]; rewrite H; [apply top_shape | exact I].
  - rewrite H. unfold shape. rewrite Ep. exact I.
Qed.

(* the records a step adds: objects of the live dataset *)
Lemma step_out live sh : wf live -> shape sh ->
  exists new, sh_out (step mk mi live sh) = sh_out sh ++ new /\
              forall c, In c new -> exists k i v, c = CSet k i v /\ lookup k i live = Some v.
Proof.
  intros Hwf Hs. pose proof (step_cases live sh) as H. unfold shape in Hs. destruct (sh_pos sh) as [|nid|] eqn:Ep.
  - exists []. rewrite (H Hs), top_out, app_nil_r. split; [reflexivity | intros ? []].
  - destruct (sh_keys sh) as [|k0 rest]; [rewrite H; exists []; rewrite app_nil_r; split; [reflexivity | intros ? []]|].
    destruct (get k0 live) as [col|] eqn:Eg;
      [|rewrite H, top_out; exists []; rewrite app_nil_r; split; [reflexivity | intros ? []]].
    cbn zeta in H. exists (recs k0 (firstn mi (ascend_from nid col))). split.
    + destruct (skipn mi (ascend_from nid col)) as [|[y w] t]; rewrite H; [apply top_out | reflexivity].
    + intros c Hc. apply in_recs in Hc. destruct Hc as [i [v [-> Hin]]]. exists k0, i, v. split; [reflexivity|].
      apply firstn_in, ascend_from_incl in Hin. unfold lookup. rewrite Eg.
      apply In_get; [eapply wf_get; eauto | exact Hin].
  - rewrite H. exists []. rewrite app_nil_r. split; [reflexivity | intros ? []].
Qed.

(* what the rewrite will still visit *)
Definition pending (k i : bytes) (sh : shrink) : Prop :=
  match sh_pos sh with
  | AtKeys => bytes_leb (sh_nextkey sh) k = true
  | AtIds nid =>
      match sh_keys sh with
      | [] => False
      | k0 :: rest => (k = k0 /\ bytes_leb nid i = true) \/ In k rest \/
                      (sh_keysdone sh = false /\ bytes_leb (sh_nextkey sh) k = true)
      end
  | ScanDone => False
  end.

Lemma top_pending k i rest nk kd out :
  In k rest \/ (kd = false /\ bytes_leb nk k = true) -> pending k i (top rest nk kd out).
Proof.
  unfold top, pending. destruct rest as [|k1 rest']; [destruct kd|]; cbn.
  - intros [[]|[H _]]; discriminate.
  - intros [[]|[_ H]]; exact H.
  - intros [[H|H]|H]; [left; split; [auto | apply leb_nil] | right; left; exact H | right; right; exact H].
Qed.

Lemma step_cover live sh k i v : wf live -> shape sh -> lookup k i live = Some v ->
  In (CSet k i v) (sh_out sh) \/ pending k i sh ->
  In (CSet k i v) (sh_out (step mk mi live sh)) \/ pending k i (step mk mi live sh).
Proof.
  intros Hwf Hs Hl [Hin|Hp].
  { left. destruct (step_out live sh Hwf Hs) as [new [-> _]]. apply in_app_iff. left; exact Hin. }
  destruct (lookup_some _ _ _ _ Hl) as [col [Hgk Hgi]].
  pose proof (step_cases live sh) as H. unfold shape in Hs. unfold pending in Hp.
  destruct (sh_pos sh) as [|nid|] eqn:Ep; [| |contradiction].
  - (* keys batch *)
    specialize (H Hs). cbn zeta in H. rewrite H. right. apply top_pending.
    set (l := keys (ascend_from (sh_nextkey sh) live)) in *.
    assert (Hkl : In k l).
    { unfold l. apply (in_map fst) with (x := (k, col)). apply ascend_from_In; [apply get_In; exact Hgk | exact Hp]. }
    assert (Hsl : sorted_keys l) by (apply ascend_from_sorted; apply Hwf).
    destruct (skipn mk l) as [|y t] eqn:Esk.
    + left. rewrite (skipn_nil_firstn _ _ Esk). exact Hkl.
    + destruct (sorted_cut_ge l mk y t k Hsl Esk Hkl) as [Hf|Hge]; [left; exact Hf | right; auto].
  - (* ids batch *)
    destruct (sh_keys sh) as [|k0 rest] eqn:Ek; [contradiction|].
    destruct (get k0 live) as [col0|] eqn:Eg0.
    + cbn zeta in H. set (l := ascend_from nid col0) in *.
      destruct Hp as [[-> Hge]|Hp].
      * rewrite Hgk in Eg0. inversion Eg0; subst col0.
        assert (Hil : In (i, v) l) by (apply ascend_from_In; [apply get_In; exact Hgi | exact Hge]).
        assert (Hsl : sorted_keys (keys l)) by (apply ascend_from_sorted; eapply wf_get; eauto).
        destruct (skipn mi l) as [|[y w] t] eqn:Esk; rewrite H.
        -- left. rewrite top_out. apply in_app_iff. right. apply recs_in.
           rewrite (skipn_nil_firstn _ _ Esk). exact Hil.
        -- assert (Esk' : skipn mi (keys l) = y :: keys t) by (unfold keys; rewrite skipn_map, Esk; reflexivity).
           destruct (sorted_cut_ge (keys l) mi y (keys t) i Hsl Esk' (in_map fst _ _ Hil)) as [Hf|Hge'].
           ++ left. cbn [sh_out]. apply in_app_iff. right. apply recs_in.
              unfold keys in Hf. rewrite firstn_map in Hf. apply in_map_iff in Hf. destruct Hf as [[i' v'] [Hi Hf]].
              cbn in Hi; subst i'. replace v with v'; [exact Hf|].
              apply firstn_in, ascend_from_incl in Hf. apply In_get in Hf; [congruence | eapply wf_get; eauto].
           ++ right. unfold pending. cbn [sh_pos sh_keys]. try rewrite Ek. left. auto.
      * destruct (skipn mi l) as [|[y w] t] eqn:Esk; rewrite H.
        -- right. apply top_pending. exact Hp.
        -- right. unfold pending. cbn [sh_pos sh_keys sh_keysdone sh_nextkey]. try rewrite Ek. right. exact Hp.
    + rewrite H. right. apply top_pending. destruct Hp as [[-> _]|Hp]; [congruence | exact Hp].
Qed.

(* ------------------------------------------------------------------ 4. T1 / T2 *)

Definition nr_ev (e : ev) : bool := negb (is_rename e).

Record inv1 (s0 : st) (r : run) : Prop := {
  i_shr : r_shrinking r = true;
  i_wf : wf (r_live r);
  i_nr : forallb nr_cmd (r_log r) = true;
  i_live : forall k i, lookup k i (r_live r) =
             match last_touch (r_log r) k i with Some x => x | None => lookup k i s0 end;
  i_shape : shape (r_sh r);
  i_cset : Forall is_cset (sh_out (r_sh r));
  i_sound : forall k i v, last_touch (r_log r) k i = None ->
             In (CSet k i v) (sh_out (r_sh r)) -> lookup k i s0 = Some v;
  i_cover : forall k i v, last_touch (r_log r) k i = None -> lookup k i s0 = Some v ->
             In (CSet k i v) (sh_out (r_sh r)) \/ pending k i (r_sh r)
}.

Lemma inv1_init s0 : wf s0 -> inv1 s0 (run_init s0).
Proof.
  intros Hwf. constructor; cbn; auto.
  - intros k i v _ []. 
  - intros k i v _ _. right. unfold pending; cbn. apply leb_nil.
Qed.

Lemma inv1_step s0 r e : nr_ev e = true -> inv1 s0 r -> inv1 s0 (do_ev mk mi r e).
Proof.
  intros Hnr [Hshr Hwf Hlog Hlive Hsh Hcs Hsound Hcover]. destruct e as [c| |]; cbn [do_ev].
  - (* writer *)
    assert (Hc : nr_cmd c = true) by (destruct c; cbn in *; congruence).
    pose proof (exec_wf (r_live r) c Hwf) as Hwf'.
    pose proof (exec_lookup (r_live r) c) as Hel.
    pose proof (exec_not_logged (r_live r) c) as Hnl.
    destruct (exec (r_live r) c) as [s' o]. cbn [fst snd] in *. rewrite Hshr. cbn [andb].
    destruct (logged o) eqn:Elog.
    + constructor; cbn [r_live r_sh r_log r_shrinking]; auto.
      * rewrite forallb_app, Hlog. cbn. rewrite Hc. reflexivity.
      * intros k i. rewrite last_touch_app. cbn [last_touch]. rewrite Hel by assumption.
        destruct (touch c k i); [reflexivity | apply Hlive].
      * intros k i v Hlt. rewrite last_touch_app in Hlt. cbn [last_touch] in Hlt.
        destruct (touch c k i); [discriminate|]. apply Hsound; exact Hlt.
      * intros k i v Hlt. rewrite last_touch_app in Hlt. cbn [last_touch] in Hlt.
        destruct (touch c k i); [discriminate|]. apply Hcover; exact Hlt.
    + rewrite (Hnl eq_refl) in *. constructor; cbn [r_live r_sh r_log r_shrinking]; auto.
  - (* a locked section of the rewrite *)
    destruct (step_out (r_live r) (r_sh r) Hwf Hsh) as [new [Hout Hnew]].
    constructor; cbn [r_live r_sh r_log r_shrinking]; auto.
    + apply step_shape; exact Hsh.
    + rewrite Hout. apply Forall_app. split; [exact Hcs|]. rewrite Forall_forall. intros c Hc.
      destruct (Hnew c Hc) as [k [i [v [-> _]]]]. exact I.
    + intros k i v Hlt Hin. rewrite Hout in Hin. apply in_app_iff in Hin. destruct Hin as [Hin|Hin].
      * apply Hsound; assumption.
      * destruct (Hnew _ Hin) as [k' [i' [v' [Heq Hl]]]]. inversion Heq; subst k' i' v'.
        rewrite Hlive, Hlt in Hl. exact Hl.
    + intros k i v Hlt Hl. apply step_cover; auto.
      rewrite Hlive, Hlt. exact Hl.
  - (* another AOFSHRINK request while the rewrite runs: refused *)
    unfold request. rewrite Hshr. constructor; assumption.
Qed.

Lemma request_noop r : r_shrinking r = true -> request r = r.
Proof. intros H. unfold request. rewrite H. reflexivity. Qed.

Lemma inv1_run s0 sched : forall r, forallb nr_ev sched = true -> inv1 s0 r -> inv1 s0 (run_sched mk mi sched r).
Proof.
  unfold run_sched. induction sched as [|e sched IH]; intros r Hnr Hinv; cbn; [exact Hinv|].
  cbn in Hnr. apply andb_true_iff in Hnr. destruct Hnr as [He Hs]. apply IH; [exact Hs|]. apply inv1_step; assumption.
Qed.

Lemma pending_done k i sh : sh_done sh = true -> ~ pending k i sh.
Proof. unfold sh_done, pending. destruct (sh_pos sh); try discriminate. tauto. Qed.

Lemma inv1_done s0 r : inv1 s0 r -> sh_done (r_sh r) = true -> same_data (replay (newfile r) []) (r_live r).
Proof.
  intros [_ Hwf Hlog Hlive Hsh Hcs Hsound Hcover] Hdone k i.
  unfold newfile. rewrite replay_lookup; [|exact wf_nil|rewrite forallb_app, Hlog, (cset_nr _ Hcs); reflexivity].
  rewrite last_touch_app, Hlive, lookup_nil.
  destruct (last_touch (r_log r) k i) as [x|] eqn:Elt; [reflexivity|].
  destruct (last_touch (sh_out (r_sh r)) k i) as [x|] eqn:Eo.
  - destruct (last_touch_some _ _ _ _ Eo) as [c [Hc Ht]].
    rewrite Forall_forall in Hcs. destruct (touch_cset_some c k i x (Hcs c Hc) Ht) as [v [-> ->]].
    symmetry. apply Hsound; assumption.
  - destruct (lookup k i s0) as [v|] eqn:El; [|reflexivity]. exfalso.
    destruct (Hcover k i v Elt El) as [Hin|Hp]; [|eapply pending_done; eauto].
    pose proof (last_touch_none _ _ _ Eo _ Hin) as Ht. rewrite touch_cset_same in Ht. discriminate.
Qed.

Theorem concurrent_partial s0 sched : wf s0 -> no_rename sched = true ->
  let r := run_sched mk mi sched (run_init s0) in
  sh_done (r_sh r) = true -> same_data (replay (newfile r) []) (r_live r).
Proof.
  intros Hwf Hnr r Hdone. apply (inv1_done s0); [|exact Hdone].
  apply inv1_run; [exact Hnr | apply inv1_init; exact Hwf].
Qed.

Lemma no_rename_steps n : no_rename (repeat Step n) = true.
Proof. induction n; cbn; auto. Qed.

Lemma run_steps_live n : forall r, r_live (run_sched mk mi (repeat Step n) r) = r_live r /\
                                  r_log (run_sched mk mi (repeat Step n) r) = r_log r.
Proof. unfold run_sched. induction n as [|n IH]; intros r; cbn [repeat fold_left]; [auto|]. destruct (IH (do_ev mk mi r Step)) as [-> ->]. cbn. auto. Qed.

Theorem quiescent s n : wf s ->
  let r := run_sched mk mi (repeat Step n) (run_init s) in
  sh_done (r_sh r) = true -> same_data (replay (newfile r) []) s.
Proof.
  intros Hwf r Hdone. pose proof (concurrent_partial s (repeat Step n) Hwf (no_rename_steps n) Hdone) as H.
  fold r in H. unfold r in H at 2. rewrite (proj1 (run_steps_live n _)) in H. exact H.
Qed.

End Steps.

(* ------------------------------------------------------------------ boolean checker for wf *)

Fixpoint sortedb (l : list bytes) : bool :=
  match l with [] => true | x :: r => forallb (bytes_ltb x) r && sortedb r end.

Lemma sortedb_ok l : sortedb l = true -> sorted_keys l.
Proof.
  induction l as [|x r IH]; cbn; intros H; [constructor|].
  apply andb_true_iff in H. destruct H as [H1 H2]. constructor; [apply IH; exact H2|].
  rewrite Forall_forall. rewrite forallb_forall in H1. exact H1.
Qed.

Definition wfb (s : st) : bool := sortedb (keys s) && forallb (fun kc => sortedb (keys (snd kc))) s.

Lemma wfb_ok s : wfb s = true -> wf s.
Proof.
  unfold wfb, wf. intros H. apply andb_true_iff in H. destruct H as [H1 H2]. split; [apply sortedb_ok; exact H1|].
  rewrite Forall_forall. rewrite forallb_forall in H2. intros kc Hkc. apply sortedb_ok. apply H2; exact Hkc.
Qed.

(* ------------------------------------------------------------------ 6. T3: RENAME refutations *)

Definition b1 (n : N) : bytes := [n].

(* nine collections b..i and m, each {1 -> x} *)
Definition s0_lost : st :=
  map (fun n => (b1 n, [(b1 49, b1 120)])) [98; 99; 100; 101; 102; 103; 104; 105; 109]%N.

(* first keys batch = b..i with nextkey = m; then m is renamed to a, before the cursor *)
Definition sched_lost : list ev := [Step; W (CRename (b1 109) (b1 97))] ++ repeat Step 12.

Theorem rename_refuted :
  exists s0 sched, wf s0 /\ sh_done (r_sh (run_sched maxkeys maxids sched (run_init s0))) = true /\
    exists k i, lookup k i (replay (newfile (run_sched maxkeys maxids sched (run_init s0))) []) <>
                lookup k i (r_live (run_sched maxkeys maxids sched (run_init s0))).
Proof.
  exists s0_lost, sched_lost. split; [apply wfb_ok; vm_compute; reflexivity|].
  split; [vm_compute; reflexivity|]. exists (b1 97), (b1 49). vm_compute. discriminate.
Qed.

(* A -> {1 -> x}; RENAME A B and SET A 1 y are logged before the first keys batch *)
Definition s0_dup : st := [(b1 65, [(b1 49, b1 120)])].
Definition sched_dup : list ev := [W (CRename (b1 65) (b1 66)); W (CSet (b1 65) (b1 49) (b1 121))] ++ repeat Step 6.

Theorem rename_dup_refuted :
  exists s0 sched, wf s0 /\ sh_done (r_sh (run_sched maxkeys maxids sched (run_init s0))) = true /\
    exists k i, lookup k i (replay (newfile (run_sched maxkeys maxids sched (run_init s0))) []) <>
                lookup k i (r_live (run_sched maxkeys maxids sched (run_init s0))).
Proof.
  exists s0_dup, sched_dup. split; [apply wfb_ok; vm_compute; reflexivity|].
  split; [vm_compute; reflexivity|]. exists (b1 66), (b1 49). vm_compute. discriminate.
Qed.

(* ------------------------------------------------------------------ 7. T4: crash points *)

Definition crash_hyp (fi : final_in) : Prop :=
  same_data (replay (f_snap fi ++ f_slog fi) []) (replay (f_live fi ++ f_pend fi) []).

Lemma same_data_refl a : same_data a a.
Proof. intros k i; reflexivity. Qed.

Theorem crash_points fi c : crash_hyp fi ->
  let d := recover_dir (crash_at fi c) in
  same_data d (replay (f_live fi) []) \/ same_data d (replay (f_live fi ++ f_pend fi) []).
Proof.
  intros H. destruct c; unfold crash_at, dir_start, recover_dir; cbn;
    first [ left; apply same_data_refl | right; apply same_data_refl | right; exact H ].
Qed.

Theorem crash_orig_partial fi c : c <> CP_after_rename_bak -> crash_hyp fi ->
  let d := recover_dir_orig (crash_at fi c) in
  same_data d (replay (f_live fi) []) \/ same_data d (replay (f_live fi ++ f_pend fi) []).
Proof.
  intros Hc H. destruct c; try congruence; unfold crash_at, dir_start, recover_dir_orig; cbn;
    first [ left; apply same_data_refl | right; apply same_data_refl | right; exact H ].
Qed.

Definition fi_small : final_in :=
  mkFinal [CSet (b1 97) (b1 49) (b1 120)] [] [CSet (b1 97) (b1 49) (b1 120)] [].

Theorem crash_orig_refuted :
  exists fi, crash_hyp fi /\ (exists k i v, lookup k i (replay (f_live fi) []) = Some v) /\
             recover_dir_orig (crash_at fi CP_after_rename_bak) = [].
Proof.
  exists fi_small. split; [intros k i; reflexivity|]. split; [|reflexivity].
  exists (b1 97), (b1 49), (b1 120). vm_compute. reflexivity.
Qed.

(* ------------------------------------------------------------------ 5. T5: record order *)

Definition rec_lt (a b : cmd) : Prop :=
  match a, b with
  | CSet k i _, CSet k' i' _ => bytes_ltb k k' = true \/ (k = k' /\ bytes_ltb i i' = true)
  | _, _ => False
  end.

Definition rec_sorted (l : list cmd) : Prop := Forall is_cset l /\ StronglySorted rec_lt l.

(* strictly below the frontier (k0, nid) / key strictly below kb / key at most kb *)
Definition rec_below (k0 nid : bytes) (c : cmd) : Prop :=
  match c with CSet k i _ => bytes_ltb k k0 = true \/ (k = k0 /\ bytes_ltb i nid = true) | _ => False end.
Definition rec_key_lt (kb : bytes) (c : cmd) : Prop :=
  match c with CSet k _ _ => bytes_ltb k kb = true | _ => False end.
Definition rec_key_le (kb : bytes) (c : cmd) : Prop :=
  match c with CSet k _ _ => bytes_leb k kb = true | _ => False end.

Lemma below_le k0 nid c : rec_below k0 nid c -> rec_key_le k0 c.
Proof. destruct c; cbn; try tauto. intros [H|[-> _]]; [apply bytes_ltb_leb; exact H | apply bytes_leb_refl]. Qed.

Lemma key_le_lt k0 k c : rec_key_le k0 c -> bytes_ltb k0 k = true -> rec_key_lt k c.
Proof. destruct c; cbn; try tauto. intros H1 H2. eapply leb_ltb_trans; eauto. Qed.

Lemma key_lt_leb k0 k c : rec_key_lt k0 c -> bytes_leb k0 k = true -> rec_key_lt k c.
Proof. destruct c; cbn; try tauto. intros H1 H2. eapply ltb_leb_trans; eauto. Qed.

Lemma key_lt_below k c : rec_key_lt k c -> rec_below k [] c.
Proof. destruct c; cbn; tauto. Qed.

Lemma below_mono k0 nid y c : rec_below k0 nid c -> bytes_leb nid y = true -> rec_below k0 y c.
Proof. destruct c; cbn; try tauto. intros [H|[-> H]] Hy; [left; exact H | right; split; [reflexivity | eapply ltb_leb_trans; eauto]]. Qed.

Lemma recs_key_le k l : Forall (rec_key_le k) (recs k l).
Proof. rewrite Forall_forall. intros c H. apply in_recs in H. destruct H as [i [v [-> _]]]. cbn. apply bytes_leb_refl. Qed.

Lemma SS_map_inv {A B} (f : A -> B) (S : B -> B -> Prop) (l : list A) :
  StronglySorted S (map f l) -> StronglySorted (fun x y => S (f x) (f y)) l.
Proof.
  induction l as [|x l IH]; cbn; intros H; [constructor|].
  apply StronglySorted_inv in H. destruct H as [H1 H2]. constructor; [apply IH; exact H1|].
  rewrite Forall_forall in *. intros y Hy. apply H2. apply in_map; exact Hy.
Qed.

Lemma SS_firstn {A} (R : A -> A -> Prop) n (l : list A) : StronglySorted R l -> StronglySorted R (firstn n l).
Proof. intros H. rewrite <- (firstn_skipn n l) in H. apply SS_app_inv in H. tauto. Qed.

Lemma recs_sorted k (l : list (bytes * val)) : msorted l -> StronglySorted rec_lt (recs k l).
Proof.
  intros H. unfold msorted, sorted_keys, keys in H. apply SS_map_inv in H. unfold recs.
  eapply SS_map; [|exact H]. cbn. intros x y Hxy. right. auto.
Qed.

Definition front (sh : shrink) : Prop :=
  rec_sorted (sh_out sh) /\
  match sh_pos sh with
  | AtKeys => sh_keys sh = [] /\ sh_keysdone sh = true /\ Forall (rec_key_lt (sh_nextkey sh)) (sh_out sh)
  | AtIds nid =>
      match sh_keys sh with
      | [] => True
      | k0 :: rest =>
          sorted_keys (k0 :: rest) /\
          (sh_keysdone sh = false -> Forall (fun k => bytes_ltb k (sh_nextkey sh) = true) (k0 :: rest)) /\
          Forall (rec_below k0 nid) (sh_out sh)
      end
  | ScanDone => True
  end.

Lemma front_shape sh : front sh -> shape sh.
Proof. unfold front, shape. destruct (sh_pos sh); tauto. Qed.

Lemma top_front keys nk kd out :
  rec_sorted out -> sorted_keys keys ->
  (kd = false -> Forall (fun k => bytes_ltb k nk = true) keys) ->
  (forall k, In k keys -> Forall (rec_key_lt k) out) ->
  (kd = false -> Forall (rec_key_lt nk) out) ->
  front (top keys nk kd out).
Proof.
  intros Hrs Hsk Hnk Hlt Hout. unfold top, front. destruct keys as [|k1 r]; [destruct kd|]; cbn.
  - auto.
  - auto.
  - split; [exact Hrs|]. split; [exact Hsk|]. split; [exact Hnk|].
    eapply Forall_impl; [|apply (Hlt k1); left; reflexivity]. intros c; apply key_lt_below.
Qed.

Lemma front_init : front shrink_init.
Proof. unfold front; cbn. split; [split; constructor|]. auto. Qed.

Section Front.
Variables mk mi : nat.

Lemma step_front live sh : wf live -> front sh -> front (step mk mi live sh).
Proof.
  intros Hwf Hf. pose proof (step_cases mk mi live sh) as H. pose proof Hf as [Hrs Hpos].
  destruct (sh_pos sh) as [|nid|] eqn:Ep.
  - (* keys batch *)
    destruct Hpos as [Hk [Hkd Hout]]. specialize (H Hk). cbn zeta in H. rewrite H.
    set (l := keys (ascend_from (sh_nextkey sh) live)) in *.
    assert (Hsl : sorted_keys l) by (apply ascend_from_sorted; apply Hwf).
    assert (Hge : forall k, In k l -> bytes_leb (sh_nextkey sh) k = true).
    { pose proof (ascend_from_ge (sh_nextkey sh) live (proj1 Hwf)) as G. rewrite Forall_forall in G. exact G. }
    apply top_front.
    + exact Hrs.
    + apply sorted_firstn; exact Hsl.
    + destruct (skipn mk l) as [|y t] eqn:Esk; [congruence|]. intros _.
      rewrite Forall_forall. intros x Hx. eapply sorted_cut_lt; eauto.
    + intros k Hk'. apply firstn_in in Hk'. eapply Forall_impl; [|exact Hout].
      intros c Hc. eapply key_lt_leb; [exact Hc | apply Hge; exact Hk'].
    + destruct (skipn mk l) as [|y t] eqn:Esk; [congruence|]. intros _.
      eapply Forall_impl; [|exact Hout]. intros c Hc. eapply key_lt_leb; [exact Hc|].
      apply Hge. eapply skipn_head_in; eauto.
  - (* ids batch *)
    destruct (sh_keys sh) as [|k0 rest] eqn:Ek; [rewrite H; exact Hf|].
    destruct Hpos as [Hsk [Hnk Hbelow]].
    assert (Hrest : sorted_keys rest /\ Forall (fun k => bytes_ltb k0 k = true) rest)
      by (apply StronglySorted_inv in Hsk; exact Hsk).
    destruct Hrest as [Hsrest Hk0rest]. rewrite Forall_forall in Hk0rest.
    assert (Htop : forall out', rec_sorted out' -> Forall (rec_key_le k0) out' ->
                     front (top rest (sh_nextkey sh) (sh_keysdone sh) out')).
    { intros out' Hrs' Hle. apply top_front.
      - exact Hrs'.
      - exact Hsrest.
      - intros Hkd. specialize (Hnk Hkd). inversion Hnk; assumption.
      - intros k Hk'. eapply Forall_impl; [|exact Hle]. intros c Hc. eapply key_le_lt; [exact Hc | apply Hk0rest; exact Hk'].
      - intros Hkd. specialize (Hnk Hkd). inversion Hnk; subst.
        eapply Forall_impl; [|exact Hle]. intros c Hc. eapply key_le_lt; eauto. }
    assert (Hle : Forall (rec_key_le k0) (sh_out sh)).
    { eapply Forall_impl; [|exact Hbelow]. intros c; apply below_le. }
    destruct (get k0 live) as [col|] eqn:Eg; [|rewrite H; apply Htop; assumption].
    cbn zeta in H. set (l := ascend_from nid col) in *.
    assert (Hcol : msorted col) by (eapply wf_get; eauto).
    assert (Hsl : msorted l) by (apply ascend_from_sorted; exact Hcol).
    assert (Hge : forall i, In i (keys l) -> bytes_leb nid i = true).
    { pose proof (ascend_from_ge nid col Hcol) as G. rewrite Forall_forall in G. exact G. }
    assert (Hrs' : rec_sorted (sh_out sh ++ recs k0 (firstn mi l))).
    { destruct Hrs as [Hcs Hss]. split; [apply Forall_app; split; [exact Hcs | apply recs_cset]|].
      apply SS_app; [exact Hss | apply recs_sorted; unfold msorted, keys; rewrite <- firstn_map; apply sorted_firstn; exact Hsl|].
      intros x y Hx Hy. apply in_recs in Hy. destruct Hy as [i [v [-> Hy]]].
      apply firstn_in in Hy. apply (in_map fst) in Hy. apply Hge in Hy. cbn [fst] in Hy.
      rewrite Forall_forall in Hbelow. specialize (Hbelow x Hx). destruct x; cbn in *; try tauto.
      destruct Hbelow as [Hb|[-> Hb]]; [left; exact Hb | right; split; [reflexivity | eapply ltb_leb_trans; eauto]]. }
    destruct (skipn mi l) as [|[y w] t] eqn:Esk; rewrite H.
    + apply Htop; [exact Hrs'|]. apply Forall_app. split; [exact Hle | apply recs_key_le].
    + unfold front. cbn [sh_out sh_pos sh_keys sh_keysdone sh_nextkey].
      split; [exact Hrs'|]. split; [exact Hsk|]. split; [exact Hnk|].
      assert (Esk' : skipn mi (keys l) = y :: keys t) by (unfold keys; rewrite skipn_map, Esk; reflexivity).
      apply Forall_app. split.
      * eapply Forall_impl; [|exact Hbelow]. intros c Hc. eapply below_mono; [exact Hc|].
        apply Hge. eapply skipn_head_in; eauto.
      * rewrite Forall_forall. intros c Hc. apply in_recs in Hc. destruct Hc as [i [v [-> Hc]]]. cbn. right.
        split; [reflexivity|]. eapply (sorted_cut_lt (keys l)); [exact Hsl | exact Esk'|].
        unfold keys. rewrite firstn_map. apply (in_map fst) in Hc. exact Hc.
  - rewrite H. exact Hf.
Qed.

Definition inv5 (r : run) : Prop := wf (r_live r) /\ front (r_sh r).

Lemma inv5_run sched : forall r, inv5 r -> inv5 (run_sched mk mi sched r).
Proof.
  unfold run_sched. induction sched as [|e sched IH]; intros r Hinv; cbn [fold_left]; [exact Hinv|].
  apply IH. destruct Hinv as [Hwf Hf]. destruct e as [c| |]; cbn [do_ev].
  - pose proof (exec_wf (r_live r) c Hwf) as Hwf'. destruct (exec (r_live r) c) as [s' o]. split; assumption.
  - split; [exact Hwf | apply step_front; assumption].
  - unfold request. destruct (r_shrinking r); [split; assumption|]. split; [exact Hwf | exact front_init].
Qed.

(* holds for all schedules, RENAME included *)
Theorem batches_never_repeat s0 sched : wf s0 ->
  let r := run_sched mk mi sched (run_init s0) in rec_sorted (sh_out (r_sh r)).
Proof.
  intros Hwf r. assert (H : inv5 r) by (apply inv5_run; split; [exact Hwf | exact front_init]).
  destruct H as [_ [H _]]. exact H.
Qed.

Theorem batches_cover s n : wf s ->
  let r := run_sched mk mi (repeat Step n) (run_init s) in
  sh_done (r_sh r) = true ->
  (forall k i v, In (CSet k i v) (sh_out (r_sh r)) <-> lookup k i s = Some v) /\ rec_sorted (sh_out (r_sh r)).
Proof.
  intros Hwf r Hdone. split; [|apply batches_never_repeat; exact Hwf].
  assert (Hinv : inv1 s r) by (apply inv1_run; [apply no_rename_steps | apply inv1_init; exact Hwf]).
  assert (Hlog : r_log r = []) by (unfold r; rewrite (proj2 (run_steps_live mk mi n _)); reflexivity).
  destruct Hinv as [_ _ _ _ _ _ Hsound Hcover]. rewrite Hlog in *. intros k i v. split.
  - apply Hsound. reflexivity.
  - intros Hl. destruct (Hcover k i v eq_refl Hl) as [Hin|Hp]; [exact Hin|].
    exfalso. eapply pending_done; eauto.
Qed.

End Front.

(* ------------------------------------------------------------------ 8. T6: termination (quiescent) *)

Lemma ascend_from_nil_id {V} (m : smap V) : ascend_from [] m = m.
Proof. destruct m as [|[k v] r]; cbn; [reflexivity|]. rewrite ltb_nil_false. reflexivity. Qed.

Lemma ascend_from_split {V} p (m : smap V) : exists pre, m = pre ++ ascend_from p m.
Proof.
  induction m as [|[k v] r [pre IH]]; cbn; [exists []; reflexivity|].
  destruct (bytes_ltb k p); [exists ((k, v) :: pre); cbn; rewrite <- IH; reflexivity | exists []; reflexivity].
Qed.

Lemma ascend_from_at {V} (m a : smap V) y c t :
  msorted m -> m = a ++ (y, c) :: t -> ascend_from y m = (y, c) :: t.
Proof.
  revert m. induction a as [|[k v] a IH]; intros m Hs ->; cbn.
  - rewrite ltb_irrefl. reflexivity.
  - cbn in Hs. pose proof (msorted_inv _ _ _ Hs) as [Hr Hall]. rewrite Forall_forall in Hall.
    rewrite (Hall y).
    + apply IH; [exact Hr | reflexivity].
    + unfold keys. rewrite map_app. apply in_app_iff. right. left. reflexivity.
Qed.

Definition shape2 (sh : shrink) : Prop :=
  match sh_pos sh with
  | AtKeys => sh_keys sh = [] /\ sh_keysdone sh = true
  | AtIds _ => sh_keys sh <> []
  | ScanDone => True
  end.

Lemma top_shape2 keys nk kd out : shape2 (top keys nk kd out).
Proof. unfold top, shape2. destruct keys; [destruct kd|]; cbn; auto. discriminate. Qed.

Section Term.
Variables (mk mi : nat) (s : st).
Hypothesis Hmk : 1 <= mk.
Hypothesis Hmi : 1 <= mi.
Hypothesis Hwf : wf s.

Lemma step_shape2 sh : shape2 sh -> shape2 (step mk mi s sh).
Proof.
  intros Hs. pose proof (step_cases mk mi s sh) as H. unfold shape2 in Hs. destruct (sh_pos sh) as [|nid|] eqn:Ep.
  - rewrite (H (proj1 Hs)). apply top_shape2.
  - destruct (sh_keys sh) as [|k0 rest]; [congruence|].
    destruct (get k0 s) as [col|]; [|rewrite H; apply top_shape2].
    cbn zeta in H. destruct (skipn mi (ascend_from nid col)) as [|[y w] t]; rewrite H; [apply top_shape2|].
    unfold shape2; cbn. discriminate.
  - rewrite H. unfold shape2. rewrite Ep. exact I.
Qed.

(* remaining work: 2 + |col| per collection not yet in a keys batch, 1 + |col| per key of the
   current batch, 1 + remaining ids for the current key *)
Definition KW (m : st) : nat := list_sum (map (fun kc => 2 + length (snd kc)) m).
Definition idsw (k nid : bytes) : nat :=
  match get k s with Some col => length (ascend_from nid col) | None => 0 end.
Definition RW (ks : list bytes) : nat := list_sum (map (fun k => 1 + idsw k []) ks).
Definition tailw (kd : bool) (nk : bytes) : nat := if kd then 0 else 1 + KW (ascend_from nk s).
Definition mu (sh : shrink) : nat :=
  match sh_pos sh with
  | ScanDone => 0
  | AtKeys => 1 + KW (ascend_from (sh_nextkey sh) s)
  | AtIds nid =>
      match sh_keys sh with
      | [] => 0
      | k0 :: rest => 1 + idsw k0 nid + RW rest + tailw (sh_keysdone sh) (sh_nextkey sh)
      end
  end.

Lemma mu_top rest nk kd out : mu (top rest nk kd out) = RW rest + tailw kd nk.
Proof.
  unfold top, mu. destruct rest as [|k1 r]; [destruct kd|]; unfold RW, tailw, list_sum;
    cbn [sh_pos sh_keys sh_keysdone sh_nextkey map fold_right]; lia.
Qed.

Lemma KW_app a b : KW (a ++ b) = KW a + KW b.
Proof. unfold KW. rewrite map_app, list_sum_app. reflexivity. Qed.

Lemma RW_keys (m' : st) : (forall x, In x m' -> In x s) -> RW (keys m') + length m' = KW m'.
Proof.
  induction m' as [|[k col] r IH]; intros Hin; [reflexivity|].
  assert (Hg : get k s = Some col) by (apply In_get; [apply Hwf | apply Hin; left; reflexivity]).
  specialize (IH (fun x Hx => Hin x (or_intror Hx))).
  unfold RW, KW, list_sum in *. cbn [keys map fold_right length fst snd] in *. unfold idsw at 1. rewrite Hg, ascend_from_nil_id.
  fold (keys r). lia.
Qed.

Lemma mu_dec sh : shape2 sh -> sh_done sh = false -> mu (step mk mi s sh) < mu sh.
Proof.
  intros Hs Hnd. pose proof (step_cases mk mi s sh) as H. unfold shape2 in Hs. unfold sh_done in Hnd.
  unfold mu at 2. destruct (sh_pos sh) as [|nid|] eqn:Ep; [| |discriminate].
  - destruct Hs as [Hk Hkd]. specialize (H Hk). cbn zeta in H. rewrite H, mu_top.
    set (A := ascend_from (sh_nextkey sh) s) in *.
    unfold keys at 1. rewrite firstn_map. fold (keys (firstn mk A)).
    assert (HA : KW (firstn mk A) + KW (skipn mk A) = KW A) by (rewrite <- KW_app, firstn_skipn; reflexivity).
    assert (HR : RW (keys (firstn mk A)) + length (firstn mk A) = KW (firstn mk A)).
    { apply RW_keys. intros x Hx. apply firstn_in in Hx. eapply ascend_from_incl; exact Hx. }
    pose proof (firstn_length mk A) as HL1. pose proof (skipn_length mk A) as HL2.
    unfold keys in *. rewrite !skipn_map. destruct (skipn mk A) as [|[y cy] t] eqn:Esk; cbn [map fst].
    + rewrite Hkd. cbn [tailw]. unfold KW in HA at 2; cbn in HA. lia.
    + cbn [tailw].
      assert (Ey : ascend_from y s = (y, cy) :: t).
      { destruct (ascend_from_split (sh_nextkey sh) s) as [pre Hpre]. fold A in Hpre.
        rewrite <- (firstn_skipn mk A), Esk, app_assoc in Hpre.
        eapply ascend_from_at; [apply Hwf | exact Hpre]. }
      rewrite Ey. cbn [length] in HL2. lia.
  - destruct (sh_keys sh) as [|k0 rest] eqn:Ek; [congruence|].
    destruct (get k0 s) as [col|] eqn:Eg.
    + cbn zeta in H. set (l := ascend_from nid col) in *.
      assert (Hid : idsw k0 nid = length l) by (unfold idsw; rewrite Eg; reflexivity).
      pose proof (skipn_length mi l) as HL2.
      destruct (skipn mi l) as [|[y w] t] eqn:Esk; rewrite H.
      * rewrite mu_top. lia.
      * unfold mu. cbn [sh_pos sh_keys sh_keysdone sh_nextkey].
        assert (Ey : ascend_from y col = (y, w) :: t).
        { destruct (ascend_from_split nid col) as [pre Hpre]. fold l in Hpre.
          rewrite <- (firstn_skipn mi l), Esk, app_assoc in Hpre.
          eapply ascend_from_at; [eapply wf_get; eauto | exact Hpre]. }
        assert (Hid' : idsw k0 y = length ((y, w) :: t)) by (unfold idsw; rewrite Eg, Ey; reflexivity).
        rewrite Hid', Hid, HL2. cbn [length] in HL2. lia.
    + rewrite H, mu_top. lia.
Qed.

Lemma terminates_from : forall m sh log, mu sh <= m -> shape2 sh ->
  exists n, sh_done (r_sh (run_sched mk mi (repeat Step n) (mkRun s sh log true))) = true.
Proof.
  induction m as [|m IH]; intros sh log Hm Hs; destruct (sh_done sh) eqn:Ed;
    try (exists 0; exact Ed); pose proof (mu_dec sh Hs Ed) as Hdec; [lia|].
  destruct (IH (step mk mi s sh) log) as [n Hn]; [lia | apply step_shape2; exact Hs|].
  exists (S n). exact Hn.
Qed.

Theorem quiescent_terminates :
  exists n, sh_done (r_sh (run_sched mk mi (repeat Step n) (run_init s))) = true.
Proof. apply (terminates_from (mu shrink_init)); [lia|]. unfold shape2; cbn. auto. Qed.

End Term.

(* ------------------------------------------------------------------ example data (used by Props/C09.v) *)

(* n objects "00", "01", ... (two decimal digits, so the ids are sorted for n <= 100) *)
Definition ex_ids (n : nat) : coll :=
  map (fun i => ([N.of_nat (48 + i / 10); N.of_nat (48 + i mod 10)], b1 120)) (seq 0 n).

(* ten collections "a".."j"; "d" has 40 objects (two ids batches), the others 2 *)
Definition ex_data : st :=
  map (fun j => (b1 (N.of_nat (97 + j)), if Nat.eqb j 3 then ex_ids 40 else ex_ids 2)) (seq 0 10).

Definition ex_id (i : nat) : bytes := [N.of_nat (48 + i / 10); N.of_nat (48 + i mod 10)].

(* writers between the locked sections: SET into a collection already snapshotted, into the one
   being snapshotted, into one not yet reached, a new collection behind and ahead of the cursor,
   DEL, DROP; no RENAME *)
Definition ex_sched : list ev :=
  [Step; W (CSet (b1 97) (ex_id 7) (b1 121)); Step; Step;
   W (CSet (b1 98) (ex_id 0) (b1 122)); W (CDel (b1 100) (ex_id 5)); W (CDel (b1 100) (ex_id 99));
   Step; Step; W (CSet (b1 100) (ex_id 35) (b1 121)); W (CDrop (b1 102)); W (CDrop (b1 120));
   W (CSet [96%N] (ex_id 1) (b1 121)); W (CSet (b1 122) (ex_id 1) (b1 121)); Step; W (CDel (b1 106) (ex_id 0));
   W (CDel (b1 106) (ex_id 1))] ++ repeat Step 40.

Definition ex_sched_flush : list ev :=
  [Step; Step; Step; W (CSet (b1 97) (ex_id 7) (b1 121)); W CFlushdb; Step;
   W (CSet (b1 99) (ex_id 7) (b1 121)); W (CSet (b1 122) (ex_id 7) (b1 121))] ++ repeat Step 40.

(* the final section: live file with a deleted object, one unflushed command, its snapshot and shrinklog *)
Definition ex_final : final_in :=
  mkFinal [CSet (b1 97) (ex_id 1) (b1 120); CSet (b1 97) (ex_id 2) (b1 121); CDel (b1 97) (ex_id 1)]
          [CSet (b1 98) (ex_id 1) (b1 122)]
          [CSet (b1 97) (ex_id 2) (b1 121)]
          [CSet (b1 98) (ex_id 1) (b1 122)].

(* ------------------------------------------------------------------ the quiescent snapshot is the flattened dataset *)

Lemma SS_ext {A} (R : A -> A -> Prop) :
  (forall x, ~ R x x) -> (forall x y z, R x y -> R y z -> R x z) ->
  forall l1 l2, StronglySorted R l1 -> StronglySorted R l2 -> (forall x, In x l1 <-> In x l2) -> l1 = l2.
Proof.
  intros Hirr Htr. induction l1 as [|x1 r1 IH]; intros [|x2 r2] H1 H2 Hin.
  - reflexivity.
  - exfalso. apply (proj2 (Hin x2)). left; reflexivity.
  - exfalso. apply (proj1 (Hin x1)). left; reflexivity.
  - apply StronglySorted_inv in H1, H2. destruct H1 as [H1 F1], H2 as [H2 F2]. rewrite Forall_forall in F1, F2.
    assert (Hx : x1 = x2).
    { destruct (proj1 (Hin x1) (or_introl eq_refl)) as [E|E1]; [symmetry; exact E|].
      destruct (proj2 (Hin x2) (or_introl eq_refl)) as [E|E2]; [exact E|].
      exfalso. apply (Hirr x1). eapply Htr; [apply F1; exact E2 | apply F2; exact E1]. }
    subst x2. f_equal. apply IH; [exact H1 | exact H2|]. intros x. split; intros Hx.
    + destruct (proj1 (Hin x) (or_intror Hx)) as [E|E]; [|exact E]. subst x. exfalso. apply (Hirr x1), F1, Hx.
    + destruct (proj2 (Hin x) (or_intror Hx)) as [E|E]; [|exact E]. subst x. exfalso. apply (Hirr x1), F2, Hx.
Qed.

Lemma rec_lt_irrefl x : ~ rec_lt x x.
Proof. destruct x; cbn; try tauto. rewrite !ltb_irrefl. intros [H|[_ H]]; discriminate. Qed.

Lemma rec_lt_trans x y z : rec_lt x y -> rec_lt y z -> rec_lt x z.
Proof.
  destruct x, y, z; cbn; try tauto. intros [H1|[-> H1]] [H2|[-> H2]].
  - left. eapply ltb_trans; eauto.
  - left. exact H1.
  - left. exact H2.
  - right. split; [reflexivity | eapply ltb_trans; eauto].
Qed.

Definition snap (s : st) : list cmd := flat_map (fun kc => recs (fst kc) (snd kc)) s.

Lemma snap_flatten s : map rec_of (flatten s) = snap s.
Proof.
  unfold flatten, snap. induction s as [|[k col] r IH]; cbn; [reflexivity|].
  rewrite map_app, IH. f_equal. unfold recs. rewrite map_map. reflexivity.
Qed.

Lemma in_snap c s : In c (snap s) -> exists k col i v, In (k, col) s /\ In (i, v) col /\ c = CSet k i v.
Proof.
  unfold snap. intros H. apply in_flat_map in H. destruct H as [[k col] [Hkc Hc]]. cbn in Hc.
  apply in_recs in Hc. destruct Hc as [i [v [-> Hiv]]]. exists k, col, i, v. auto.
Qed.

Lemma snap_in s k i v : wf s -> (In (CSet k i v) (snap s) <-> lookup k i s = Some v).
Proof.
  intros Hwf. split.
  - intros H. apply in_snap in H. destruct H as [k' [col [i' [v' [Hkc [Hiv Heq]]]]]]. inversion Heq; subst k' i' v'.
    assert (Hg : get k s = Some col) by (apply In_get; [apply Hwf | exact Hkc]).
    unfold lookup. rewrite Hg. apply In_get; [eapply wf_get; eauto | exact Hiv].
  - intros H. destruct (lookup_some _ _ _ _ H) as [col [Hg Hi]]. unfold snap. apply in_flat_map.
    exists (k, col). split; [apply get_In; exact Hg|]. cbn. apply recs_in, get_In. exact Hi.
Qed.

Lemma snap_sorted s : wf s -> rec_sorted (snap s).
Proof.
  intros Hwf. split.
  - rewrite Forall_forall. intros c Hc. apply in_snap in Hc. destruct Hc as [k [col [i [v [_ [_ ->]]]]]]. exact I.
  - destruct Hwf as [Hs HF]. induction s as [|[k col] r IH]; cbn; [constructor|].
    pose proof (msorted_inv _ _ _ Hs) as [Hr Hall]. inversion HF; subst.
    apply SS_app; [apply recs_sorted; assumption | apply IH; assumption|].
    intros x y Hx Hy. apply in_recs in Hx. destruct Hx as [i [v [-> _]]].
    apply in_snap in Hy. destruct Hy as [k' [col' [i' [v' [Hkc [_ ->]]]]]]. cbn. left.
    rewrite Forall_forall in Hall. apply Hall. apply (in_map fst) in Hkc. exact Hkc.
Qed.

Theorem quiescent_snapshot mk mi s n : wf s ->
  let r := run_sched mk mi (repeat Step n) (run_init s) in
  sh_done (r_sh r) = true -> sh_out (r_sh r) = map rec_of (flatten s).
Proof.
  intros Hwf r Hdone. rewrite snap_flatten.
  destruct (batches_cover mk mi s n Hwf Hdone) as [Hin [Hcs Hss]]. fold r in Hin, Hcs, Hss.
  apply (SS_ext rec_lt rec_lt_irrefl rec_lt_trans); [exact Hss | apply snap_sorted; exact Hwf|].
  intros x. split; intros Hx.
  - rewrite Forall_forall in Hcs. pose proof (Hcs x Hx) as Hc. destruct x; cbn in Hc; try contradiction.
    apply snap_in; [exact Hwf|]. apply Hin; exact Hx.
  - destruct (in_snap _ _ Hx) as [k [col [i [v [_ [_ ->]]]]]]. apply Hin. apply snap_in; assumption.
Qed.

(* ------------------------------------------------------------------ requests while a rewrite runs *)

Theorem request_is_noop (mk mi : nat) r : r_shrinking r = true -> do_ev mk mi r Req = r.
Proof. intros H. cbn [do_ev]. apply request_noop; exact H. Qed.

Lemma shrinking_ev (mk mi : nat) r e : r_shrinking r = true -> r_shrinking (do_ev mk mi r e) = true.
Proof.
  intros H. destruct e as [c| |]; cbn [do_ev].
  - destruct (exec (r_live r) c) as [s' o]. exact H.
  - exact H.
  - rewrite request_noop; exact H.
Qed.

Lemma shrinking_run (mk mi : nat) sched : forall r, r_shrinking r = true -> r_shrinking (run_sched mk mi sched r) = true.
Proof.
  unfold run_sched. induction sched as [|e sched IH]; intros r H; cbn [fold_left]; [exact H|].
  apply IH, shrinking_ev; exact H.
Qed.

(* the flag stays set whatever requests arrive; after the epilogue the next request starts afresh *)
Theorem request_lifecycle s0 (mk mi : nat) sched :
  let r := run_sched mk mi sched (run_init s0) in
  r_shrinking r = true /\ request (end_rewrite r) = run_init (r_live r).
Proof. intros r. split; [apply shrinking_run; reflexivity | reflexivity]. Qed.

(* ex_sched with AOFSHRINK requests: before the first section's successor, right after a writer, at the end *)
Definition ex_sched_req : list ev :=
  [Step; Req; W (CSet (b1 97) (ex_id 7) (b1 121)); Req; Step; Step;
   W (CSet (b1 98) (ex_id 0) (b1 122)); W (CDel (b1 100) (ex_id 5)); W (CDel (b1 100) (ex_id 99));
   Step; Req; Req; Step; W (CSet (b1 100) (ex_id 35) (b1 121)); W (CDrop (b1 102)); W (CDrop (b1 120));
   W (CSet [96%N] (ex_id 1) (b1 121)); W (CSet (b1 122) (ex_id 1) (b1 121)); Step; W (CDel (b1 106) (ex_id 0));
   W (CDel (b1 106) (ex_id 1)); Req] ++ repeat Step 40 ++ [Req].

(* ------------------------------------------------------------------ leftovers of an interrupted rewrite *)

Theorem rewrite_ignores_leftovers d fi : d_live d = Some (f_live fi) ->
  rewrite_dir d fi = mkDir (Some (f_snap fi ++ f_slog fi)) None None.
Proof. destruct d as [l b sh]. cbn [d_live]. intros ->. reflexivity. Qed.

Theorem crash_points_leftovers d fi c : d_live d = Some (f_live fi) -> crash_hyp fi ->
  let d' := recover_dir (crash_from d fi c) in
  same_data d' (replay (f_live fi) []) \/ same_data d' (replay (f_live fi ++ f_pend fi) []).
Proof.
  destruct d as [l b sh]. cbn [d_live]. intros -> H.
  destruct c; unfold crash_from, create_shrink, write_snap, recover_dir; cbn;
    first [ left; apply same_data_refl | right; apply same_data_refl | right; exact H ].
Qed.

Theorem startup_keeps_data_gen d : recover_dir (startup_dir d) = recover_dir d.
Proof. destruct d as [[l|] [b|] sh]; reflexivity. Qed.

Theorem startup_keeps_data fi c : recover_dir (startup_dir (crash_at fi c)) = recover_dir (crash_at fi c).
Proof. apply startup_keeps_data_gen. Qed.

Theorem two_rewrites fi1 c fi2 : d_live (startup_dir (crash_at fi1 c)) = Some (f_live fi2) ->
  recover_dir (rewrite_dir (startup_dir (crash_at fi1 c)) fi2) = replay (f_snap fi2 ++ f_slog fi2) [].
Proof. intros H. rewrite (rewrite_ignores_leftovers _ _ H). reflexivity. Qed.

(* second rewrite after ex_final died at CP_after_sync: the live file is ex_final's flushed one, an
   unflushed DEL, and a snapshot of ONE record (the leftover -shrink file has two) *)
Definition ex_final2 : final_in :=
  mkFinal (f_live ex_final ++ f_pend ex_final) [CDel (b1 98) (ex_id 1)] [CSet (b1 97) (ex_id 2) (b1 121)] [].
