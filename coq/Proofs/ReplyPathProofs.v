(* Table facts for C08's "a reply leaves only after the flush" (Model/ReplyPath.v). *)
From Coq Require Import String List Bool.
From T38 Require Import Gen.SocketWrites Model.ReplyPath.
Import ListNotations.
Open Scope string_scope.

Lemma no_early_socket_write : early_writes socket_writes = [].
Proof. vm_compute. reflexivity. Qed.

Lemma reply_writes_are_the_two_blocks :
  reply_blocks = 2 /\ length (reply_writes socket_writes) = 2 /\
  forallb (fun w => String.eqb (sw_fn w) "Server.netServe" && String.eqb (sw_arg w) "client.out" && String.eqb (sw_how w) ".Write")
          (reply_writes socket_writes) = true.
Proof. vm_compute. repeat split. Qed.

Lemma reply_buffer_leaves_through_the_blocks_only : allowed_sends_reply_buffer socket_writes = [].
Proof. vm_compute. reflexivity. Qed.

Lemma client_write_only_buffers : client_write_body = client_write_buffers.
Proof. vm_compute. reflexivity. Qed.

(* as a statement about any row: a write on the command path is a post-flush reply write or allowed *)
Lemma on_path_write_classified : forall w, In w socket_writes -> sw_on_path w = true ->
  sw_reply_block w = true \/ allowed w = true.
Proof.
  intros w Hin Hp.
  destruct (sw_reply_block w) eqn:Er; [left; reflexivity|]. right.
  destruct (allowed w) eqn:Ea; [reflexivity|]. exfalso.
  assert (H : In w (early_writes socket_writes)).
  { unfold early_writes. apply filter_In. split; [exact Hin|]. rewrite Hp, Er, Ea. reflexivity. }
  rewrite no_early_socket_write in H. exact H.
Qed.
