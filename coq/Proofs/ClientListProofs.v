(* C17 — CLIENT LIST: the members the JSON arm recovers from the RESP text are exactly the fields
   the text was printed from, for every connection name CLIENT SETNAME accepts. *)
From Coq Require Import ZifyN ZifyNat ZifyBool.
From T38 Require Import Base.Bytes Model.ClientList.
Open Scope N_scope.

(* ---------- strings.Split ---------- *)

Lemma split_on_nonempty sep s : split_on sep s <> [].
Proof.
  destruct s as [|c r]; cbn [split_on]; [discriminate|].
  destruct (c =? sep); [discriminate|]. destruct (split_on sep r); discriminate.
Qed.

Lemma split_on_nosep sep t : ~ In sep t -> split_on sep t = [t].
Proof.
  induction t as [|c r IH]; intros H; [reflexivity|]. cbn [split_on].
  destruct (N.eqb_spec c sep) as [->|Hn]; [exfalso; apply H; left; reflexivity|].
  rewrite IH by (intros Hin; apply H; right; exact Hin). reflexivity.
Qed.

Lemma split_on_app sep t rest : ~ In sep t -> split_on sep (t ++ sep :: rest) = t :: split_on sep rest.
Proof.
  induction t as [|c r IH]; intros H; cbn [app split_on].
  - rewrite N.eqb_refl. reflexivity.
  - destruct (N.eqb_spec c sep) as [->|Hn]; [exfalso; apply H; left; reflexivity|].
    rewrite IH by (intros Hin; apply H; right; exact Hin). reflexivity.
Qed.

Lemma split_on_join sep toks : toks <> [] -> Forall (fun t => ~ In sep t) toks ->
  split_on sep (join sep toks) = toks.
Proof.
  induction toks as [|t r IH]; intros Hne Hall; [congruence|].
  inversion Hall as [|? ? Ht Hr]; subst. destruct r as [|t2 r2].
  - cbn [join]. apply split_on_nosep. exact Ht.
  - change (join sep (t :: t2 :: r2)) with (t ++ sep :: join sep (t2 :: r2)).
    rewrite split_on_app by exact Ht. rewrite IH; [reflexivity | discriminate | exact Hr].
Qed.

Lemma split_lines sep lines : Forall (fun l => ~ In sep l) lines ->
  split_on sep (concat (map (fun l => l ++ [sep]) lines)) = lines ++ [[]].
Proof.
  induction 1 as [|l r Hl _ IH]; [reflexivity|].
  cbn [map concat]. rewrite <- app_assoc. cbn [app]. rewrite split_on_app by exact Hl. rewrite IH. reflexivity.
Qed.

(* ---------- strings.TrimSpace ---------- *)

Definition hd_ok (s : bytes) : Prop := match s with [] => True | c :: _ => is_space c = false end.

Lemma drop_space_hd s : hd_ok s -> drop_space s = s.
Proof. destruct s as [|c r]; [reflexivity|]. cbn [hd_ok drop_space]. intros ->. reflexivity. Qed.

Lemma trim_space_id s : hd_ok s -> hd_ok (rev s) -> trim_space s = s.
Proof.
  intros H1 H2. unfold trim_space. rewrite (drop_space_hd s H1), (drop_space_hd _ H2). apply rev_involutive.
Qed.

Lemma no_space_spec s : no_space s = true -> forall c, In c s -> is_space c = false.
Proof.
  unfold no_space. rewrite forallb_forall. intros H c Hc. specialize (H c Hc).
  destruct (is_space c); [discriminate | reflexivity].
Qed.

Lemma name_ok_no_space s : name_ok s = true -> no_space s = true.
Proof.
  unfold name_ok, no_space. rewrite !forallb_forall. intros H c Hc. specialize (H c Hc).
  unfold is_space. lia.
Qed.

Lemma no_space_hd s : no_space s = true -> hd_ok s.
Proof. destruct s as [|c r]; [exact (fun _ => I)|]. intros H. apply (no_space_spec _ H). left; reflexivity. Qed.

Lemma no_space_rev s : no_space s = true -> no_space (rev s) = true.
Proof.
  unfold no_space. rewrite !forallb_forall. intros H c Hc. apply H. apply in_rev. exact Hc.
Qed.

Lemma no_space_app a b : no_space (a ++ b) = no_space a && no_space b.
Proof. unfold no_space. apply forallb_app. Qed.

Lemma trim_token t : no_space t = true -> trim_space t = t.
Proof. intros H. apply trim_space_id; apply no_space_hd; [exact H | apply no_space_rev; exact H]. Qed.

Lemma no_space_not_in s c : no_space s = true -> is_space c = true -> ~ In c s.
Proof. intros Hs Hc Hin. rewrite (no_space_spec _ Hs _ Hin) in Hc. discriminate. Qed.

(* ---------- one line ---------- *)

Definition token (kv : bytes * bytes) : bytes := fst kv ++ EQ :: snd kv.

Lemma cut_first_token k v : ~ In EQ k -> cut_first EQ (k ++ EQ :: v) = Some (k, v).
Proof.
  induction k as [|c r IH]; intros H; cbn [app cut_first].
  - rewrite N.eqb_refl. reflexivity.
  - destruct (N.eqb_spec c EQ) as [->|Hn]; [exfalso; apply H; left; reflexivity|].
    rewrite IH by (intros Hin; apply H; right; exact Hin). reflexivity.
Qed.

Section Line.
Variable c : cinfo.
Hypothesis Hwf : client_wf c = true.

Lemma wf_parts :
  no_space (ci_id c) = true /\ no_space (ci_addr c) = true /\ no_space (ci_name c) = true /\
  no_space (ci_age c) = true /\ no_space (ci_idle c) = true.
Proof.
  pose proof Hwf as H. unfold client_wf in H.
  apply andb_true_iff in H. destruct H as [H H5]. apply andb_true_iff in H. destruct H as [H H4].
  apply andb_true_iff in H. destruct H as [H H3]. apply andb_true_iff in H. destruct H as [H1 H2].
  repeat split; try assumption. apply name_ok_no_space. exact H3.
Qed.

Lemma tokens_no_space : Forall (fun t => no_space t = true) (map token (resp_fields c)).
Proof.
  destruct wf_parts as (H1 & H2 & H3 & H4 & H5).
  assert (T : forall k v, no_space k = true -> no_space v = true -> no_space (token (k, v)) = true).
  { intros k v Hk Hv. unfold token. cbn [fst snd]. rewrite no_space_app, Hk.
    change (no_space (EQ :: v)) with (negb (is_space EQ) && no_space v). rewrite Hv. reflexivity. }
  cbn [resp_fields map].
  repeat (constructor; [apply T; [reflexivity | assumption]|]). constructor.
Qed.

Lemma line_is_join : client_line c = join SP (map token (resp_fields c)).
Proof. reflexivity. Qed.

Lemma line_no_space_edges : hd_ok (client_line c) /\ hd_ok (rev (client_line c)).
Proof.
  split; [reflexivity|].
  destruct wf_parts as (_ & _ & _ & _ & H5).
  (* the line ends with the idle value, or with the '=' in front of an empty one *)
  assert (A : forall a b : bytes, b <> [] -> hd_ok (rev b) -> hd_ok (rev (a ++ b))).
  { intros a b Hb Hh. rewrite rev_app_distr. destruct (rev b) as [|x r] eqn:E; [|exact Hh].
    apply (f_equal (@rev N)) in E. rewrite rev_involutive in E. cbn in E. congruence. }
  assert (NE : forall (a : bytes) x b, a ++ x :: b <> []).
  { intros a x b E. apply app_eq_nil in E. destruct E; discriminate. }
  unfold client_line, resp_fields. cbn [map join fst snd].
  repeat (apply A; [discriminate|]; apply (A [SP]); [apply NE|]).
  apply A; [discriminate|]. cbn [rev].
  destruct (rev (ci_idle c)) as [|x r] eqn:Er; [reflexivity|].
  cbn [app hd_ok]. apply (no_space_spec _ (no_space_rev _ H5)). rewrite Er. left; reflexivity.
Qed.

Lemma entry_fields_line : entry_fields cut_first (client_line c) = resp_fields c.
Proof.
  unfold entry_fields. destruct line_no_space_edges as [L1 L2]. rewrite (trim_space_id _ L1 L2).
  rewrite line_is_join, split_on_join.
  - pose proof tokens_no_space as Ht.
    cbn [resp_fields map flat_map] in *.
    repeat match goal with H : Forall _ (_ :: _) |- _ => inversion H; clear H; subst end.
    rewrite !trim_token by assumption. unfold token. cbn [fst snd].
    rewrite !cut_first_token by (cbn; intuition discriminate). reflexivity.
  - discriminate.
  - eapply Forall_impl; [|apply tokens_no_space]. intros t Hs. apply (no_space_not_in _ _ Hs). reflexivity.
Qed.

Lemma line_no_newline : ~ In NL (client_line c).
Proof.
  rewrite line_is_join. pose proof tokens_no_space as Ht.
  cbn [resp_fields map join] in *.
  repeat match goal with H : Forall _ (_ :: _) |- _ => inversion H; clear H; subst end.
  intros Hin.
  repeat (apply in_app_or in Hin; destruct Hin as [Hin|Hin];
          [match goal with Hs : no_space ?t = true, Hi : In NL ?t |- _ => exact (no_space_not_in t NL Hs eq_refl Hi) end|];
          destruct Hin as [Hin|Hin]; [discriminate|]).
  match goal with Hs : no_space ?t = true, Hi : In NL ?t |- _ => exact (no_space_not_in t NL Hs eq_refl Hi) end.
Qed.

End Line.

(* ---------- the whole list ---------- *)

Theorem client_list_fields_agree : forall cs, forallb client_wf cs = true ->
  json_entries cut_first (list_text cs) = map resp_fields cs.
Proof.
  intros cs Hwf. rewrite forallb_forall in Hwf.
  unfold json_entries, list_text.
  rewrite <- (map_map client_line (fun l => l ++ [NL])).
  rewrite split_lines.
  - rewrite map_app, filter_app. cbn [map filter].
    replace (entry_fields cut_first []) with (@nil (bytes * bytes)) by reflexivity. cbn iota. rewrite app_nil_r.
    rewrite map_map.
    induction cs as [|c r IH]; [reflexivity|].
    cbn [map filter]. rewrite (entry_fields_line c) by (apply Hwf; left; reflexivity).
    cbn [resp_fields]. cbn iota. f_equal. apply IH. intros x Hx. apply Hwf. right. exact Hx.
  - apply Forall_forall. intros l Hl. apply in_map_iff in Hl. destruct Hl as (c & <- & Hc).
    apply line_no_newline. apply Hwf. exact Hc.
Qed.

(* cutting at every '=' and wanting two pieces (seeded change C17/12): a name with '=' in it is lost *)
Definition client_eq_name : cinfo := mkC [55] [49; 58; 50] [97; 61; 98] [48] [48].

Lemma client_list_split_all_refuted :
  client_wf client_eq_name = true /\
  json_entries cut_only (list_text [client_eq_name]) <> map resp_fields [client_eq_name] /\
  json_entries cut_only (list_text [client_eq_name]) = [[(k_id, [55]); (k_addr, [49; 58; 50]); (k_age, [48]); (k_idle, [48])]].
Proof. split; [reflexivity|]. split; [vm_compute; discriminate | reflexivity]. Qed.
