(* Proofs/WhereExprSem.v — evaluating the printed text of a filter tree is the denotation of the
   tree (Model/WhereExprTree.v), for the transcribed evaluator of Model/WhereExpr.v.

   Part 1  byte-string facts (bat / slice / sfrom on concatenations, trim)
   Part 2  squash / readGroup on balanced text, parseString on escape-free literals
   Part 3  the scanning loops: fuel irrelevance, inert bytes, groups, splits
   Part 4  evalAtom on the four atom shapes and on a parenthesised group
   Part 5  the induction over trees *)
From Coq Require Import List NArith ZArith Bool Lia.
From Coq Require Import ZifyN ZifyNat ZifyBool.
From T38 Require Import Base.Bytes Model.WhereExpr Model.WhereExprTree.
Import ListNotations.
Local Open Scope nat_scope.

Ltac on_lhs tac :=
  match goal with |- _ = ?r => let R := fresh "RHS" in set (R := r); tac; subst R end.

(* ------------------------------------------------------------------ Part 1 *)

Lemma bat_app_r (a b : bytes) k : bat (a ++ b) (length a + k) = bat b k.
Proof. unfold bat. rewrite nth_error_app2 by lia. f_equal. lia. Qed.

Lemma bat_app_r0 (a b : bytes) : bat (a ++ b) (length a) = bat b 0.
Proof. rewrite <- (Nat.add_0_r (length a)) at 1. apply bat_app_r. Qed.

Lemma bat_app_l (a b : bytes) k : k < length a -> bat (a ++ b) k = bat a k.
Proof. intros. unfold bat. apply nth_error_app1. assumption. Qed.

Lemma bat_len_none (a : bytes) : bat a (length a) = None.
Proof. unfold bat. apply nth_error_None. lia. Qed.

Lemma bat_cons0 c (r : bytes) : bat (c :: r) 0 = Some c.
Proof. reflexivity. Qed.

Lemma bat_pred_app_last (a : bytes) c (b : bytes) : bat_pred ((a ++ [c]) ++ b) (length (a ++ [c])) = Some c.
Proof.
  rewrite app_length. cbn [length]. replace (length a + 1) with (S (length a)) by lia.
  cbn [bat_pred]. rewrite <- app_assoc. rewrite nth_error_app2 by lia.
  replace (length a - length a) with 0 by lia. reflexivity.
Qed.

Lemma last_byte_app (a : bytes) c : last_byte (a ++ [c]) = Some c.
Proof.
  unfold last_byte. pose proof (bat_pred_app_last a c []) as H. rewrite app_nil_r in H. exact H.
Qed.

Lemma sfrom_app (a b : bytes) : sfrom (a ++ b) (length a) = Some b.
Proof.
  unfold sfrom. rewrite app_length.
  replace (length a <=? length a + length b) with true by (symmetry; apply Nat.leb_le; lia).
  f_equal. rewrite skipn_app, skipn_all. replace (length a - length a) with 0 by lia. reflexivity.
Qed.

Lemma sfrom_0 (a : bytes) : sfrom a 0 = Some a.
Proof. unfold sfrom. reflexivity. Qed.

Lemma sfrom_all (a : bytes) : sfrom a (length a) = Some [].
Proof. rewrite <- (app_nil_r a) at 1. apply sfrom_app. Qed.

Lemma slice_app (a b c : bytes) : slice (a ++ b ++ c) (length a) (length a + length b) = Some b.
Proof.
  unfold slice. rewrite !app_length.
  replace (length a <=? length a + length b) with true by (symmetry; apply Nat.leb_le; lia).
  replace (length a + length b <=? length a + (length b + length c)) with true by (symmetry; apply Nat.leb_le; lia).
  cbn [andb]. f_equal. rewrite skipn_app, skipn_all. replace (length a - length a) with 0 by lia.
  cbn [skipn app]. replace (length a + length b - length a) with (length b) by lia.
  rewrite firstn_app, firstn_all. replace (length b - length b) with 0 by lia. cbn. apply app_nil_r.
Qed.

Lemma slice_prefix (b c : bytes) : slice (b ++ c) 0 (length b) = Some b.
Proof. exact (slice_app [] b c). Qed.

(* trim *)
Definition nonspace_ends (s : bytes) : Prop :=
  exists c m d, (s = [c] \/ s = c :: m ++ [d]) /\ isspace c = false /\ isspace d = false.

Lemma trim_left_nonspace c r : isspace c = false -> trim_left (c :: r) = c :: r.
Proof. intros H. cbn. rewrite H. reflexivity. Qed.

Lemma trim_tight s : nonspace_ends s -> trim s = s.
Proof.
  intros (c & m & d & [-> | ->] & Hc & Hd); unfold trim.
  - cbn. rewrite Hc. cbn. rewrite Hc. reflexivity.
  - rewrite trim_left_nonspace by assumption.
    change (c :: m ++ [d]) with ((c :: m) ++ [d]). rewrite rev_app_distr. cbn [rev app].
    rewrite trim_left_nonspace by assumption.
    change (d :: rev m ++ [c]) with ((d :: rev m) ++ [c]). rewrite rev_app_distr. cbn [rev app].
    rewrite rev_involutive. reflexivity.
Qed.

Lemma trim_space_l s : trim (32%N :: s) = trim s.
Proof. unfold trim. cbn [trim_left]. reflexivity. Qed.

Lemma trim_left_app s t :
  trim_left (s ++ t) = match trim_left s with [] => trim_left t | r => r ++ t end.
Proof.
  induction s as [|c s IH]; cbn [app trim_left]; [destruct (trim_left t); reflexivity|].
  destruct (isspace c); [exact IH | reflexivity].
Qed.

Lemma trim_app_space s : trim (s ++ [32%N]) = trim s.
Proof.
  unfold trim. rewrite trim_left_app.
  destruct (trim_left s) as [|c r] eqn:E; [reflexivity|].
  rewrite rev_app_distr. cbn [rev app trim_left]. reflexivity.
Qed.

Lemma trim_space_r s : nonspace_ends s -> trim (s ++ [32%N]) = s.
Proof. intros H. rewrite trim_app_space. apply trim_tight. exact H. Qed.

Lemma trim_nil : trim [] = [].
Proof. reflexivity. Qed.

(* ------------------------------------------------------------------ Part 2 *)

Definition safe (c : N) : Prop := safe_char c = true.

(* bytes that squash's outer loop only steps over *)
Definition plain_sq (c : N) : bool :=
  negb ((c =? 34) || (c =? 39) || (c =? 123) || (c =? 91) || (c =? 40) || (c =? 125) || (c =? 93) || (c =? 41))%N.

Inductive bal : bytes -> Prop :=
| bal_nil : bal []
| bal_plain c r : plain_sq c = true -> bal r -> bal (c :: r)
| bal_str s r : Forall safe s -> bal r -> bal (34%N :: s ++ 34%N :: r)
| bal_paren x r : bal x -> bal r -> bal (40%N :: x ++ 41%N :: r).

Lemma bal_app a b : bal a -> bal b -> bal (a ++ b).
Proof.
  induction 1; intros Hb; cbn [app].
  - exact Hb.
  - apply bal_plain; auto.
  - rewrite <- app_assoc. cbn [app]. apply bal_str; auto.
  - rewrite <- app_assoc. cbn [app]. apply bal_paren; auto.
Qed.

(* the quote loop on an escape-free literal: it stops on the closing quote *)
Lemma sq_quote_safe : forall s pre post fuel s2 l,
  Forall safe s -> pre = l ++ [34%N] \/ (exists c, pre = l ++ [c] /\ safe c) ->
  length s < fuel ->
  sq_quote (pre ++ s ++ 34%N :: post) fuel (length pre) s2 34%N = Ok (length pre + length s).
Proof.
  induction s as [|c s IH]; intros pre post fuel s2 l Hs Hpre Hf.
  - destruct fuel as [|fuel]; [cbn in Hf; lia|]. cbn [app sq_quote].
    rewrite bat_app_r0. cbn [bat nth_error].
    replace (92 <? 34)%N with false by reflexivity. replace (34 =? 34)%N with true by reflexivity.
    assert (Hp : exists c, bat_pred (pre ++ 34%N :: post) (length pre) = Some c /\ (c =? 92)%N = false).
    { destruct Hpre as [-> | (c & -> & Hc)].
      - exists 34%N. split; [apply bat_pred_app_last | reflexivity].
      - exists c. split; [apply bat_pred_app_last |].
        unfold safe, safe_char in Hc. destruct (N.eqb_spec c 92); [subst; discriminate | reflexivity]. }
    destruct Hp as (c & -> & Hc). cbn [opt_panic bind]. rewrite Hc. f_equal. cbn. lia.
  - destruct fuel as [|fuel]; [cbn in Hf; lia|].
    inversion Hs as [|? ? Hc Hs']; subst.
    cbn [sq_quote]. cbn [app]. rewrite bat_app_r0. cbn [bat nth_error].
    assert (Hne : (c =? 34)%N = false).
    { unfold safe, safe_char in Hc. destruct (N.eqb_spec c 34); [subst; discriminate | reflexivity]. }
    assert (Hstep : sq_quote (pre ++ c :: s ++ 34%N :: post) fuel (S (length pre)) s2 34%N
                    = Ok (length pre + length (c :: s))).
    { replace (pre ++ c :: s ++ 34%N :: post) with ((pre ++ [c]) ++ s ++ 34%N :: post)
        by (rewrite <- app_assoc; reflexivity).
      replace (S (length pre)) with (length (pre ++ [c])) by (rewrite app_length; cbn; lia).
      rewrite (IH (pre ++ [c]) post fuel s2 pre); auto.
      - rewrite app_length. cbn [length]. f_equal. lia.
      - right. exists c. auto.
      - cbn in Hf. lia. }
    destruct (92 <? c)%N; [exact Hstep|]. rewrite Hne. exact Hstep.
Qed.

(* fuel irrelevance of the outer loop *)
Lemma sq_quote_ge : forall data fuel i s2 q j, sq_quote data fuel i s2 q = Ok j -> i <= j.
Proof.
  induction fuel as [|fuel IH]; intros i s2 q j H; [discriminate|].
  cbn [sq_quote] in H. destruct (bat data i) as [c|]; [|inversion H; lia].
  destruct (92 <? c)%N; [apply IH in H; lia|].
  destruct (c =? q)%N.
  - destruct (opt_panic (bat_pred data i)) as [p| | | |]; cbn [bind] in H; try discriminate.
    destruct (p =? 92)%N.
    + destruct (sq_count data (S (length data)) (i - 1) s2 0) as [n| | | |]; cbn [bind] in H; try discriminate.
      destruct (Nat.even n); [apply IH in H; lia | inversion H; lia].
    + inversion H; lia.
  - apply IH in H; lia.
Qed.

Lemma sq_loop_irrel : forall data f1 f2 i d,
  length data - i < f1 -> length data - i < f2 -> sq_loop data f1 i d = sq_loop data f2 i d.
Proof.
  induction f1 as [|f1 IH]; intros f2 i d H1 H2; [lia|].
  destruct f2 as [|f2]; [lia|].
  cbn [sq_loop]. destruct (bat data i) as [c|] eqn:Hb; [|reflexivity].
  assert (Hi : i < length data) by (apply nth_error_Some; unfold bat in Hb; congruence).
  destruct ((c <? 34) || (125 <? c))%N; [apply IH; lia|].
  destruct ((c =? 34) || (c =? 39))%N.
  - destruct (sq_quote data (S (length data)) (S i) (S i) c) as [j| | | |] eqn:Hq; cbn [bind]; try reflexivity.
    apply sq_quote_ge in Hq.
    destruct (d =? 0)%Z; [reflexivity|]. apply IH; lia.
  - destruct ((c =? 123) || (c =? 91) || (c =? 40))%N; [apply IH; lia|].
    destruct ((c =? 125) || (c =? 93) || (c =? 41))%N.
    + destruct (d - 1 =? 0)%Z; [reflexivity | apply IH; lia].
    + apply IH; lia.
Qed.

(* one step of the outer loop, fuel unchanged *)
Lemma sq_loop_step data fuel i d c :
  bat data i = Some c -> length data - i < fuel ->
  sq_loop data fuel i d =
    if ((c <? 34) || (125 <? c))%N then sq_loop data fuel (S i) d
    else if ((c =? 34) || (c =? 39))%N then
      do j <- sq_quote data (S (length data)) (S i) (S i) c;
      if (d =? 0)%Z then (if length data <=? j then Ok None else Ok (Some j))
      else sq_loop data fuel (S j) d
    else if ((c =? 123) || (c =? 91) || (c =? 40))%N then sq_loop data fuel (S i) (d + 1)%Z
    else if ((c =? 125) || (c =? 93) || (c =? 41))%N then
      if (d - 1 =? 0)%Z then Ok (Some i) else sq_loop data fuel (S i) (d - 1)%Z
    else sq_loop data fuel (S i) d.
Proof.
  intros Hb Hf. destruct fuel as [|fuel]; [lia|].
  assert (Hi : i < length data) by (apply nth_error_Some; unfold bat in Hb; congruence).
  on_lhs ltac:(cbn [sq_loop]; rewrite Hb).
  destruct ((c <? 34) || (125 <? c))%N; [apply sq_loop_irrel; lia|].
  destruct ((c =? 34) || (c =? 39))%N.
  - destruct (sq_quote data (S (length data)) (S i) (S i) c) as [j| | | |] eqn:Hq; cbn [bind]; try reflexivity.
    apply sq_quote_ge in Hq. destruct (d =? 0)%Z; [reflexivity|]. apply sq_loop_irrel; lia.
  - destruct ((c =? 123) || (c =? 91) || (c =? 40))%N; [apply sq_loop_irrel; lia|].
    destruct ((c =? 125) || (c =? 93) || (c =? 41))%N.
    + destruct (d - 1 =? 0)%Z; [reflexivity | apply sq_loop_irrel; lia].
    + apply sq_loop_irrel; lia.
Qed.

Lemma plain_sq_cases c : plain_sq c = true ->
  ((c =? 34) || (c =? 39))%N = false /\ ((c =? 123) || (c =? 91) || (c =? 40))%N = false /\
  ((c =? 125) || (c =? 93) || (c =? 41))%N = false.
Proof. unfold plain_sq. intros H. repeat split; lia. Qed.

(* the outer loop runs over balanced text at any depth >= 1 *)
Lemma sq_loop_bal : forall x, bal x -> forall pre post fuel d,
  (1 <= d)%Z -> length (pre ++ x ++ post) - length pre < fuel ->
  sq_loop (pre ++ x ++ post) fuel (length pre) d = sq_loop (pre ++ x ++ post) fuel (length pre + length x) d.
Proof.
  induction 1 as [|c r Hc Hr IH|s r Hs Hr IH|x r Hx IHx Hr IHr]; intros pre post fuel d Hd Hf.
  - cbn [length]. f_equal. lia.
  - rewrite (sq_loop_step _ _ _ _ c); [|cbn [app]; rewrite bat_app_r0; reflexivity | exact Hf].
    destruct (plain_sq_cases c Hc) as (H1 & H2 & H3). rewrite H1, H2, H3.
    assert (Hgo : sq_loop (pre ++ (c :: r) ++ post) fuel (S (length pre)) d
                  = sq_loop (pre ++ (c :: r) ++ post) fuel (length pre + length (c :: r)) d).
    { replace (pre ++ (c :: r) ++ post) with ((pre ++ [c]) ++ r ++ post) by (rewrite <- app_assoc; reflexivity).
      replace (S (length pre)) with (length (pre ++ [c])) by (rewrite app_length; cbn; lia).
      rewrite IH; [|exact Hd|].
      - f_equal. rewrite app_length. cbn [length]. lia.
      - rewrite !app_length in *. cbn [length] in *. lia. }
    destruct ((c <? 34) || (125 <? c))%N; exact Hgo.
  - rewrite (sq_loop_step _ _ _ _ 34%N); [|cbn [app]; rewrite bat_app_r0; reflexivity | exact Hf].
    replace ((34 <? 34) || (125 <? 34))%N with false by reflexivity.
    replace ((34 =? 34) || (34 =? 39))%N with true by reflexivity.
    replace (pre ++ (34%N :: s ++ 34%N :: r) ++ post) with ((pre ++ [34%N]) ++ s ++ 34%N :: (r ++ post))
      by (rewrite <- !app_assoc; cbn [app]; rewrite <- !app_assoc; reflexivity).
    replace (S (length pre)) with (length (pre ++ [34%N])) by (rewrite app_length; cbn; lia).
    rewrite (sq_quote_safe s (pre ++ [34%N]) (r ++ post) _ _ pre); auto.
    2:{ rewrite !app_length. cbn [length]. lia. }
    cbn [bind]. replace (d =? 0)%Z with false by lia.
    replace ((pre ++ [34%N]) ++ s ++ 34%N :: r ++ post) with ((pre ++ 34%N :: s ++ [34%N]) ++ r ++ post)
      by (rewrite <- !app_assoc; cbn [app]; rewrite <- !app_assoc; reflexivity).
    replace (S (length (pre ++ [34%N]) + length s)) with (length (pre ++ 34%N :: s ++ [34%N]))
      by (rewrite !app_length; cbn [length]; rewrite app_length; cbn [length]; lia).
    rewrite IH; [|exact Hd|].
    + f_equal. rewrite !app_length. cbn [length]. rewrite !app_length. cbn [length]. lia.
    + rewrite !app_length in *. cbn [length] in *. rewrite !app_length in *. cbn [length] in *. lia.
  - rewrite (sq_loop_step _ _ _ _ 40%N); [|cbn [app]; rewrite bat_app_r0; reflexivity | exact Hf].
    replace ((40 <? 34) || (125 <? 40))%N with false by reflexivity.
    replace ((40 =? 34) || (40 =? 39))%N with false by reflexivity.
    replace ((40 =? 123) || (40 =? 91) || (40 =? 40))%N with true by reflexivity.
    replace (pre ++ (40%N :: x ++ 41%N :: r) ++ post) with ((pre ++ [40%N]) ++ x ++ (41%N :: r ++ post))
      by (rewrite <- !app_assoc; cbn [app]; rewrite <- !app_assoc; reflexivity).
    replace (S (length pre)) with (length (pre ++ [40%N])) by (rewrite app_length; cbn; lia).
    rewrite IHx; [|lia|].
    2:{ rewrite !app_length in *. cbn [length] in *. rewrite !app_length in *. cbn [length] in *. lia. }
    rewrite (sq_loop_step _ _ _ _ 41%N).
    2:{ rewrite app_assoc. rewrite <- app_length. rewrite bat_app_r0. reflexivity. }
    2:{ rewrite !app_length in *. cbn [length] in *. rewrite !app_length in *. cbn [length] in *. lia. }
    replace ((41 <? 34) || (125 <? 41))%N with false by reflexivity.
    replace ((41 =? 34) || (41 =? 39))%N with false by reflexivity.
    replace ((41 =? 123) || (41 =? 91) || (41 =? 40))%N with false by reflexivity.
    replace ((41 =? 125) || (41 =? 93) || (41 =? 41))%N with true by reflexivity.
    replace (d + 1 - 1 =? 0)%Z with false by lia. replace (d + 1 - 1)%Z with d by lia.
    replace ((pre ++ [40%N]) ++ x ++ 41%N :: r ++ post) with ((pre ++ 40%N :: x ++ [41%N]) ++ r ++ post)
      by (rewrite <- !app_assoc; cbn [app]; rewrite <- !app_assoc; reflexivity).
    replace (S (length (pre ++ [40%N]) + length x)) with (length (pre ++ 40%N :: x ++ [41%N]))
      by (rewrite !app_length; cbn [length]; rewrite app_length; cbn [length]; lia).
    rewrite IHr; [|exact Hd|].
    + f_equal. rewrite !app_length. cbn [length]. rewrite !app_length. cbn [length]. lia.
    + rewrite !app_length in *. cbn [length] in *. rewrite !app_length in *. cbn [length] in *. lia.
Qed.

(* readGroup on ( balanced ) followed by anything *)
Lemma read_group_paren x rest : bal x ->
  read_group (40%N :: x ++ 41%N :: rest) = Ok (40%N :: x ++ [41%N]).
Proof.
  intros Hx. unfold read_group, squash. cbn [bat nth_error opt_panic bind].
  replace ((40 =? 34) || (40 =? 39))%N with false by reflexivity.
  assert (H : sq_loop (40%N :: x ++ 41%N :: rest) (S (length (40%N :: x ++ 41%N :: rest))) 1 1%Z
             = sq_loop (40%N :: x ++ 41%N :: rest) (S (length (40%N :: x ++ 41%N :: rest))) (1 + length x) 1%Z).
  { apply (sq_loop_bal x Hx [40%N] (41%N :: rest)); [lia | cbn [app length]; lia]. }
  rewrite H. clear H.
  rewrite (sq_loop_step _ _ _ _ 41%N).
  2:{ change (40%N :: x ++ 41%N :: rest) with ((40%N :: x) ++ 41%N :: rest).
      change (S (length x)) with (length (40%N :: x)). rewrite bat_app_r0. reflexivity. }
  2:{ cbn [length]. lia. }
  replace ((41 <? 34) || (125 <? 41))%N with false by reflexivity.
  replace ((41 =? 34) || (41 =? 39))%N with false by reflexivity.
  replace ((41 =? 123) || (41 =? 91) || (41 =? 40))%N with false by reflexivity.
  replace ((41 =? 125) || (41 =? 93) || (41 =? 41))%N with true by reflexivity.
  replace (1 - 1 =? 0)%Z with true by reflexivity. cbn [bind].
  replace (40%N :: x ++ 41%N :: rest) with ((40%N :: x ++ [41%N]) ++ rest)
    by (cbn [app]; rewrite <- app_assoc; reflexivity).
  replace (S (1 + length x)) with (length (40%N :: x ++ [41%N])) by (cbn [length]; rewrite app_length; cbn; lia).
  rewrite slice_prefix. cbn [opt_panic bind].
  replace (length (40%N :: x ++ [41%N]) <? 2) with false
    by (symmetry; apply Nat.ltb_ge; cbn [length]; rewrite app_length; cbn; lia).
  change (40%N :: x ++ [41%N]) with ((40%N :: x) ++ [41%N]). rewrite last_byte_app.
  cbn [opt_panic bind app bat nth_error]. reflexivity.
Qed.

(* readGroup on an escape-free double-quoted literal followed by anything *)
Lemma read_group_str s rest : Forall safe s ->
  read_group (34%N :: s ++ 34%N :: rest) = Ok (34%N :: s ++ [34%N]).
Proof.
  intros Hs. unfold read_group, squash. cbn [bat nth_error opt_panic bind].
  replace ((34 =? 34) || (34 =? 39))%N with true by reflexivity.
  cbn [sq_loop bat nth_error].
  replace ((34 <? 34) || (125 <? 34))%N with false by reflexivity.
  replace ((34 =? 34) || (34 =? 39))%N with true by reflexivity.
  assert (H : sq_quote (34%N :: s ++ 34%N :: rest) (S (length (34%N :: s ++ 34%N :: rest))) 1 1 34%N
             = Ok (1 + length s)).
  { apply (sq_quote_safe s [34%N] rest _ 1 [] Hs); [left; reflexivity | cbn [length]; rewrite app_length; cbn; lia]. }
  rewrite H. clear H.
  cbn [bind]. replace (0 =? 0)%Z with true by reflexivity.
  assert (Hlen : (length (34%N :: s ++ 34%N :: rest) <=? 1 + length s) = false)
    by (apply Nat.leb_gt; cbn [length]; rewrite app_length; cbn [length]; lia).
  rewrite Hlen. clear Hlen. cbn [bind].
  replace (34%N :: s ++ 34%N :: rest) with ((34%N :: s ++ [34%N]) ++ rest)
    by (cbn [app]; rewrite <- app_assoc; reflexivity).
  replace (S (1 + length s)) with (length (34%N :: s ++ [34%N])) by (cbn [length]; rewrite app_length; cbn; lia).
  rewrite slice_prefix. cbn [opt_panic bind].
  replace (length (34%N :: s ++ [34%N]) <? 2) with false
    by (symmetry; apply Nat.ltb_ge; cbn [length]; rewrite app_length; cbn; lia).
  change (34%N :: s ++ [34%N]) with ((34%N :: s) ++ [34%N]). rewrite last_byte_app.
  cbn [opt_panic bind app bat nth_error]. reflexivity.
Qed.

(* parseString on an escape-free double-quoted literal followed by anything *)
Lemma ps_loop_safe : forall s pre post fuel,
  Forall safe s -> length s < fuel -> 1 <= length pre ->
  ps_loop (pre ++ s ++ 34%N :: post) fuel (length pre) 34%N false
  = do t <- opt_panic (slice (pre ++ s ++ 34%N :: post) 1 (length pre + length s));
    Ok (Some (t, S (length pre + length s))).
Proof.
  induction s as [|c s IH]; intros pre post fuel Hs Hf Hp.
  - destruct fuel as [|fuel]; [cbn in Hf; lia|]. cbn [app ps_loop].
    rewrite bat_app_r0. cbn [bat nth_error].
    replace (34 <? 32)%N with false by reflexivity. replace (34 =? 92)%N with false by reflexivity.
    replace (34 =? 34)%N with true by reflexivity. cbn [length]. rewrite Nat.add_0_r.
    destruct (opt_panic (slice (pre ++ 34%N :: post) 1 (length pre))); reflexivity.
  - destruct fuel as [|fuel]; [cbn in Hf; lia|].
    inversion Hs as [|? ? Hc Hs']; subst. cbn [ps_loop app]. rewrite bat_app_r0. cbn [bat nth_error].
    unfold safe, safe_char in Hc.
    replace (c <? 32)%N with false by lia. replace (c =? 92)%N with false by lia.
    replace (c =? 34)%N with false by lia.
    replace (pre ++ c :: s ++ 34%N :: post) with ((pre ++ [c]) ++ s ++ 34%N :: post)
      by (rewrite <- app_assoc; reflexivity).
    replace (S (length pre)) with (length (pre ++ [c])) by (rewrite app_length; cbn; lia).
    rewrite IH; auto.
    + rewrite app_length. cbn [length].
      replace (length pre + 1 + length s) with (length pre + S (length s)) by lia. reflexivity.
    + cbn in Hf. lia.
    + rewrite app_length. lia.
Qed.

Lemma parse_string_safe_lit s rest : Forall safe s ->
  parse_string (34%N :: s ++ 34%N :: rest) = Ok (Some (s, S (S (length s)))).
Proof.
  intros Hs. unfold parse_string.
  replace (length (34%N :: s ++ 34%N :: rest) <? 2) with false
    by (symmetry; apply Nat.ltb_ge; cbn [length]; rewrite app_length; cbn; lia).
  cbn [bat nth_error opt_panic bind].
  assert (H : ps_loop (34%N :: s ++ 34%N :: rest) (S (length (34%N :: s ++ 34%N :: rest))) 1 34%N false
             = do t <- opt_panic (slice (34%N :: s ++ 34%N :: rest) 1 (1 + length s));
               Ok (Some (t, S (1 + length s)))).
  { apply (ps_loop_safe s [34%N] rest _ Hs); [cbn [length]; rewrite app_length; cbn; lia | cbn; lia]. }
  rewrite H. clear H.
  assert (H2 : slice (34%N :: s ++ 34%N :: rest) 1 (1 + length s) = Some s)
    by (apply (slice_app [34%N] s (34%N :: rest))).
  rewrite H2.
  cbn [opt_panic bind]. reflexivity.
Qed.

(* ------------------------------------------------------------------ Part 3 *)

Lemma read_group_len2 data g : read_group data = Ok g -> 2 <= length g.
Proof.
  unfold read_group. destruct (squash data) as [[j|]| | | |]; cbn [bind]; try discriminate.
  destruct (opt_panic (slice data 0 (S j))) as [g'| | | |]; cbn [bind]; try discriminate.
  destruct (Nat.ltb_spec (length g') 2); [discriminate|].
  destruct (opt_panic (last_byte g')) as [l| | | |]; cbn [bind]; try discriminate.
  destruct (opt_panic (bat data 0)) as [c0| | | |]; cbn [bind]; try discriminate.
  destruct (negb (l =? closech c0)%N); [discriminate|]. intros Hx; inversion Hx; subst. assumption.
Qed.

(* the bytes on which the switch of level n does anything *)
Definition trigger (n : nat) (c : N) : bool :=
  match n with
  | 1 => ((c =? 42) || (c =? 47) || (c =? 37))%N
  | 3 => ((c =? 60) || (c =? 62))%N
  | 4 => ((c =? 61) || (c =? 33))%N
  | 5 => (c =? 38)%N
  | 6 => (c =? 94)%N
  | 7 => (c =? 124)%N
  | 8 => (c =? 38)%N
  | 9 => ((c =? 63) || (c =? 124))%N
  | _ => false
  end.

Lemma recog_untriggered n e i c : trigger n c = false -> recog n e i c = Ok ANone.
Proof.
  intros H.
  destruct n as [|[|[|[|[|[|[|[|[|[|n]]]]]]]]]]; cbn [trigger recog] in *; try reflexivity;
    repeat match goal with Hx : (_ || _)%bool = false |- _ => apply orb_false_iff in Hx; destruct Hx end;
    repeat match goal with Hx : (c =? _)%N = false |- _ => rewrite Hx; clear Hx end;
    reflexivity.
Qed.

Lemma recog_split_pos n e i c opch k : recog n e i c = Ok (ASplit opch k) -> 1 <= k.
Proof.
  intros H.
  destruct n as [|[|[|[|[|[|[|[|[|[|n]]]]]]]]]]; cbn [recog] in H; try discriminate;
    repeat match type of H with
    | context [if ?b then _ else _] => destruct b
    | context [bind (opt_panic ?o) _] => destruct o; cbn [opt_panic bind] in H
    end; try discriminate; inversion H; lia.
Qed.

Inductive item := IChar (c : N) | IGroup (g : bytes).
Definition item_bytes (it : item) : bytes := match it with IChar c => [c] | IGroup g => g end.
Fixpoint flat (l : list item) : bytes :=
  match l with [] => [] | it :: r => item_bytes it ++ flat r end.

Lemma flat_app a b : flat (a ++ b) = flat a ++ flat b.
Proof. induction a as [|x a IH]; cbn [app flat]; [reflexivity|]. rewrite IH, app_assoc. reflexivity. Qed.

Definition good_group (g : bytes) : Prop :=
  (exists c r, g = c :: r /\ is_opener c = true) /\ forall rest, read_group (g ++ rest) = Ok g.

Lemma good_group_len g : good_group g -> 2 <= length g.
Proof. intros [_ H]. apply (read_group_len2 (g ++ [])). apply H. Qed.

Lemma good_group_paren x : bal x -> good_group (40%N :: x ++ [41%N]).
Proof.
  intros Hx. split; [exists 40%N, (x ++ [41%N]); split; reflexivity|].
  intros rest. replace ((40%N :: x ++ [41%N]) ++ rest) with (40%N :: x ++ 41%N :: rest)
    by (cbn [app]; rewrite <- app_assoc; reflexivity).
  apply read_group_paren. exact Hx.
Qed.

Lemma good_group_str s : Forall safe s -> good_group (34%N :: s ++ [34%N]).
Proof.
  intros Hs. split; [exists 34%N, (s ++ [34%N]); split; reflexivity|].
  intros rest. replace ((34%N :: s ++ [34%N]) ++ rest) with (34%N :: s ++ 34%N :: rest)
    by (cbn [app]; rewrite <- app_assoc; reflexivity).
  apply read_group_str. exact Hs.
Qed.

Section Sem.
Context {F : Type} (O : oracle F) (obj : eobj F).
Notation V := (evalue F).

Lemma rbind_ret_r (r : R F) : rbind F r (fun v => ret F v) = r.
Proof.
  unfold rbind, ret. destruct r as [[v em]| | | |]; cbn [bind]; try reflexivity.
  rewrite app_nil_r. reflexivity.
Qed.

(* ---- scan_level ---- *)

Section Level.
Variable n : nat.
Variable next : bool -> bytes -> R F.
Variable it : bool.
Variable e : bytes.
Notation scan := (scan_level F O obj n next it e).

Lemma scan_level_irrel : forall f1 f2 i s lft op em,
  length e - i < f1 -> length e - i < f2 -> scan f1 i s lft op em = scan f2 i s lft op em.
Proof.
  induction f1 as [|f1 IH]; intros f2 i s lft op em H1 H2; [lia|].
  destruct f2 as [|f2]; [lia|].
  cbn [scan_level]. destruct (bat e i) as [c|] eqn:Hb; [|reflexivity].
  assert (Hi : i < length e) by (apply nth_error_Some; unfold bat in Hb; congruence).
  destruct (is_opener c).
  - destruct (opt_panic (sfrom e i)) as [t| | | |]; cbn [bind]; try reflexivity.
    destruct (read_group t) as [g| | | |] eqn:Hg; cbn [bind]; try reflexivity.
    apply read_group_len2 in Hg. apply IH; lia.
  - destruct (recog n e i c) as [a| | | |] eqn:Hr; cbn [bind]; try reflexivity.
    destruct a as [| |opch k].
    + apply IH; lia.
    + apply IH; lia.
    + apply recog_split_pos in Hr.
      destruct (opt_panic (slice e s i)) as [seg| | | |]; cbn [bind]; try reflexivity.
      destruct (operand F O obj n next it lft op seg) as [[v em2]| | | |]; cbn [bind]; try reflexivity.
      apply IH; lia.
Qed.

Lemma scan_level_char fuel i s lft op em c :
  bat e i = Some c -> is_opener c = false -> recog n e i c = Ok ANone -> length e - i < fuel ->
  scan fuel i s lft op em = scan fuel (S i) s lft op em.
Proof.
  intros Hb Ho Hr Hf. destruct fuel as [|fuel]; [lia|].
  assert (Hi : i < length e) by (apply nth_error_Some; unfold bat in Hb; congruence).
  on_lhs ltac:(cbn [scan_level]; rewrite Hb, Ho, Hr; cbn [bind]).
  apply scan_level_irrel; lia.
Qed.

Lemma scan_level_group fuel s lft op em pre g post :
  e = pre ++ g ++ post -> good_group g -> length e - length pre < fuel ->
  scan fuel (length pre) s lft op em = scan fuel (length pre + length g) s lft op em.
Proof.
  intros He Hg Hf. destruct fuel as [|fuel]; [lia|].
  pose proof (good_group_len g Hg) as Hl.
  destruct Hg as [(c & r & Hc & Ho) Hg].
  assert (Hb : bat e (length pre) = Some c) by (rewrite He, bat_app_r0, Hc; reflexivity).
  assert (Hs : sfrom e (length pre) = Some (g ++ post)) by (rewrite He; apply sfrom_app).
  on_lhs ltac:(cbn [scan_level]; rewrite Hb, Ho, Hs; cbn [opt_panic bind]; rewrite Hg; cbn [bind]).
  replace (S (length pre + length g - 1)) with (length pre + length g) by lia.
  apply scan_level_irrel; rewrite He, !app_length in *; lia.
Qed.

Lemma scan_level_split fuel i s lft op em c opch k seg v em2 :
  bat e i = Some c -> is_opener c = false -> recog n e i c = Ok (ASplit opch k) ->
  slice e s i = Some seg -> operand F O obj n next it lft op seg = Ok (v, em2) ->
  length e - i < fuel ->
  scan fuel i s lft op em = scan fuel (i + k) (i + k) v opch (em ++ em2).
Proof.
  intros Hb Ho Hr Hs Hop Hf. destruct fuel as [|fuel]; [lia|].
  assert (Hi : i < length e) by (apply nth_error_Some; unfold bat in Hb; congruence).
  pose proof (recog_split_pos _ _ _ _ _ _ Hr) as Hk.
  on_lhs ltac:(cbn [scan_level]; rewrite Hb, Ho, Hr; cbn [bind]; rewrite Hs; cbn [opt_panic bind];
               rewrite Hop; cbn [bind]).
  replace (S (i + k - 1)) with (i + k) by lia.
  apply scan_level_irrel; lia.
Qed.

Lemma scan_level_split_err fuel i s lft op em c opch k seg r :
  bat e i = Some c -> is_opener c = false -> recog n e i c = Ok (ASplit opch k) ->
  slice e s i = Some seg -> operand F O obj n next it lft op seg = r ->
  (forall x, r <> Ok x) -> 1 <= fuel ->
  scan fuel i s lft op em = match r with Ok _ => NoFuel | Err x => Err x | Panic => Panic | NoFuel => NoFuel | Outside => Outside end.
Proof.
  intros Hb Ho Hr Hs Hop Hne Hf. destruct fuel as [|fuel]; [lia|].
  cbn [scan_level]. rewrite Hb, Ho, Hr. cbn [bind]. rewrite Hs. cbn [opt_panic bind]. rewrite Hop.
  destruct r as [x| | | |]; cbn [bind]; try reflexivity. exfalso. apply (Hne x). reflexivity.
Qed.

Lemma scan_level_end fuel i s lft op em seg :
  bat e i = None -> sfrom e s = Some seg -> 1 <= fuel ->
  scan fuel i s lft op em =
    do ve <- operand F O obj n next it lft op seg; let '(v, em2) := ve in Ok (v, em ++ em2).
Proof.
  intros Hb Hs Hf. destruct fuel as [|fuel]; [lia|].
  cbn [scan_level]. rewrite Hb, Hs. reflexivity.
Qed.

(* a stretch of top-level text over which the loop of level n only advances *)
Inductive quiet_from : nat -> list item -> Prop :=
| q_nil i : quiet_from i []
| q_char i c r : is_opener c = false -> recog n e i c = Ok ANone -> quiet_from (S i) r ->
    quiet_from i (IChar c :: r)
| q_group i g r : good_group g -> quiet_from (i + length g) r -> quiet_from i (IGroup g :: r).

Lemma scan_level_quiet : forall l pre post fuel s lft op em,
  e = pre ++ flat l ++ post -> quiet_from (length pre) l -> length e - length pre < fuel ->
  scan fuel (length pre) s lft op em = scan fuel (length pre + length (flat l)) s lft op em.
Proof.
  induction l as [|x l IH]; intros pre post fuel s lft op em He Hq Hf.
  - cbn [flat length]. f_equal. lia.
  - inversion Hq as [|? c r Ho Hr Hq'|? g r Hg Hq']; subst x.
    + subst. cbn [flat item_bytes app] in *.
      rewrite (scan_level_char fuel (length pre) s lft op em c); auto.
      2:{ rewrite He, bat_app_r0. reflexivity. }
      replace (S (length pre)) with (length (pre ++ [c])) by (rewrite app_length; cbn; lia).
      rewrite (IH (pre ++ [c]) post).
      * f_equal. rewrite app_length. cbn [length]. lia.
      * rewrite He, <- app_assoc. reflexivity.
      * rewrite app_length. cbn [length]. replace (length pre + 1) with (S (length pre)) by lia. exact Hq'.
      * rewrite app_length. cbn [length]. lia.
    + subst. cbn [flat item_bytes] in *.
      rewrite (scan_level_group fuel s lft op em pre g (flat l ++ post)); auto.
      2:{ rewrite He, <- app_assoc. reflexivity. }
      replace (length pre + length g) with (length (pre ++ g)) by (rewrite app_length; lia).
      rewrite (IH (pre ++ g) post).
      * f_equal. rewrite !app_length. lia.
      * rewrite He, <- !app_assoc. reflexivity.
      * rewrite app_length. exact Hq'.
      * rewrite app_length. pose proof (good_group_len g Hg). lia.
Qed.

(* a whole string that is quiet for level n: the level hands it to the next one *)
Lemma scan_level_transparent l :
  e = flat l -> quiet_from 0 l ->
  scan (S (length e)) 0 0 (VUndef F) 0%N [] =
    do ve <- operand F O obj n next it (VUndef F) 0%N e; let '(v, em2) := ve in Ok (v, em2).
Proof.
  intros He Hq.
  pose proof (scan_level_quiet l [] [] (S (length e)) 0 (VUndef F) 0%N []) as H.
  cbn [app length Nat.add] in H. rewrite app_nil_r in H. rewrite (H He Hq) by lia. clear H.
  rewrite (scan_level_end _ _ _ _ _ _ e); [reflexivity| |apply sfrom_0|lia].
  rewrite <- He. apply bat_len_none.
Qed.

(* one binary operator at top level *)
Lemma scan_level_binop l1 opb l2 c opch :
  e = flat l1 ++ opb ++ flat l2 ->
  quiet_from 0 l1 -> bat opb 0 = Some c -> is_opener c = false ->
  recog n e (length (flat l1)) c = Ok (ASplit opch (length opb)) ->
  quiet_from (length (flat l1) + length opb) l2 ->
  scan (S (length e)) 0 0 (VUndef F) 0%N [] =
    do ve <- operand F O obj n next it (VUndef F) 0%N (flat l1);
    let '(a, em1) := ve in
    do we <- operand F O obj n next it a opch (flat l2);
    let '(b, em2) := we in Ok (b, em1 ++ em2).
Proof.
  intros He Hq1 Hc Ho Hr Hq2.
  pose proof (recog_split_pos _ _ _ _ _ _ Hr) as Hk.
  pose proof (scan_level_quiet l1 [] (opb ++ flat l2) (S (length e)) 0 (VUndef F) 0%N []) as H.
  cbn [app length Nat.add] in H. rewrite (H He Hq1) by lia. clear H.
  assert (Hb : bat e (length (flat l1)) = Some c).
  { rewrite He, bat_app_r0. destruct opb; [discriminate|]. exact Hc. }
  assert (Hs : slice e 0 (length (flat l1)) = Some (flat l1)) by (rewrite He; apply slice_prefix).
  destruct (operand F O obj n next it (VUndef F) 0%N (flat l1)) as [[a em1]| | | |] eqn:Hop.
  - rewrite (scan_level_split _ _ _ _ _ _ c opch (length opb) (flat l1) a em1); auto.
    2:{ rewrite He, !app_length. lia. }
    cbn [bind app].
    pose proof (scan_level_quiet l2 (flat l1 ++ opb) [] (S (length e))
                  (length (flat l1) + length opb) a opch em1) as H.
    rewrite app_length in H. rewrite H; clear H.
    + rewrite (scan_level_end _ _ _ _ _ _ (flat l2)); [reflexivity | | | lia].
      * replace (length (flat l1) + length opb + length (flat l2)) with (length e)
          by (rewrite He, !app_length; lia). apply bat_len_none.
      * replace (length (flat l1) + length opb) with (length (flat l1 ++ opb)) by (rewrite app_length; lia).
        rewrite He, app_assoc. apply sfrom_app.
    + rewrite He, app_nil_r, <- app_assoc. reflexivity.
    + exact Hq2.
    + rewrite He, !app_length. lia.
  - rewrite (scan_level_split_err _ _ _ _ _ _ c opch (length opb) (flat l1) (Err e0)); auto; [congruence|lia].
  - rewrite (scan_level_split_err _ _ _ _ _ _ c opch (length opb) (flat l1) Panic); auto; [congruence|lia].
  - rewrite (scan_level_split_err _ _ _ _ _ _ c opch (length opb) (flat l1) NoFuel); auto; [congruence|lia].
  - rewrite (scan_level_split_err _ _ _ _ _ _ c opch (length opb) (flat l1) Outside); auto; [congruence|lia].
Qed.

End Level.

(* ---- the three special loops: evalComma, evalTerns, evalSums on text without their operators ---- *)

Definition cquiet (P : N -> bool) (l : list item) : Prop :=
  Forall (fun x => match x with
                   | IChar c => is_opener c = false /\ P c = false
                   | IGroup g => good_group g
                   end) l.

Section Special.
Variable rec : N -> bool -> bytes -> R F.
Variable steps : N.
Variable next : bool -> bytes -> R F.
Variable it : bool.
Variable e : bytes.

(* evalComma *)
Notation scanc := (scan_comma F next it e).

Lemma scan_comma_irrel : forall f1 f2 i s em,
  length e - i < f1 -> length e - i < f2 -> scanc f1 i s em = scanc f2 i s em.
Proof.
  induction f1 as [|f1 IH]; intros f2 i s em H1 H2; [lia|].
  destruct f2 as [|f2]; [lia|].
  cbn [scan_comma]. destruct (bat e i) as [c|] eqn:Hb; [|reflexivity].
  assert (Hi : i < length e) by (apply nth_error_Some; unfold bat in Hb; congruence).
  destruct (c =? 44)%N.
  - destruct (opt_panic (slice e s i)) as [seg| | | |]; cbn [bind]; try reflexivity.
    destruct (next false seg) as [[v em2]| | | |]; cbn [bind]; try reflexivity. apply IH; lia.
  - destruct (is_opener c); [|apply IH; lia].
    destruct (opt_panic (sfrom e i)) as [t| | | |]; cbn [bind]; try reflexivity.
    destruct (read_group t) as [g| | | |] eqn:Hg; cbn [bind]; try reflexivity.
    apply read_group_len2 in Hg. apply IH; lia.
Qed.

Lemma scan_comma_quiet : forall l pre post fuel s em,
  e = pre ++ flat l ++ post -> cquiet (fun c => (c =? 44)%N) l -> length e - length pre < fuel ->
  scanc fuel (length pre) s em = scanc fuel (length pre + length (flat l)) s em.
Proof.
  induction l as [|x l IH]; intros pre post fuel s em He Hq Hf.
  - cbn [flat length]. f_equal. lia.
  - apply Forall_cons_iff in Hq. destruct Hq as [Hx Hq']. destruct x as [c|g].
    + destruct Hx as [Ho Hc]. cbn [flat item_bytes app] in *.
      destruct fuel as [|fuel]; [lia|].
      assert (Hb : bat e (length pre) = Some c) by (rewrite He, bat_app_r0; reflexivity).
      assert (Hlen : length e = length pre + S (length (flat l) + length post))
        by (rewrite He, !app_length; cbn [length]; rewrite app_length; lia).
      on_lhs ltac:(cbn [scan_comma]; rewrite Hb, Hc, Ho).
      rewrite (scan_comma_irrel fuel (S fuel)) by lia.
      replace (S (length pre)) with (length (pre ++ [c])) by (rewrite app_length; cbn; lia).
      rewrite (IH (pre ++ [c]) post); auto.
      * f_equal. rewrite app_length. cbn [length]. lia.
      * rewrite He, <- app_assoc. reflexivity.
      * rewrite app_length. cbn [length]. lia.
    + cbn [flat item_bytes] in *. pose proof (good_group_len g Hx) as Hl.
      destruct Hx as [(c & r & Hc & Ho) Hg]. destruct fuel as [|fuel]; [lia|].
      assert (Hb : bat e (length pre) = Some c) by (rewrite He, bat_app_r0, Hc; reflexivity).
      assert (Hne : (c =? 44)%N = false).
      { unfold is_opener in Ho. destruct (N.eqb_spec c 44) as [E|E]; [rewrite E in Ho; discriminate | reflexivity]. }
      assert (Hs : sfrom e (length pre) = Some (g ++ flat l ++ post))
        by (rewrite He, <- app_assoc; apply sfrom_app).
      assert (Hlen : length e = length pre + (length g + length (flat l) + length post))
        by (rewrite He, !app_length; lia).
      on_lhs ltac:(cbn [scan_comma]; rewrite Hb, Hne, Ho, Hs; cbn [opt_panic bind]; rewrite Hg; cbn [bind]).
      replace (S (length pre + length g - 1)) with (length pre + length g) by lia.
      rewrite (scan_comma_irrel fuel (S fuel)) by lia.
      replace (length pre + length g) with (length (pre ++ g)) by (rewrite app_length; lia).
      rewrite (IH (pre ++ g) post); auto.
      * f_equal. rewrite !app_length. lia.
      * rewrite He, <- !app_assoc. reflexivity.
      * rewrite app_length. lia.
Qed.

Lemma scan_comma_transparent l :
  e = flat l -> cquiet (fun c => (c =? 44)%N) l -> it = false ->
  scanc (S (length e)) 0 0 [] = next false e.
Proof.
  intros He Hq Hit.
  pose proof (scan_comma_quiet l [] [] (S (length e)) 0 []) as H.
  cbn [app length Nat.add] in H. rewrite app_nil_r in H. rewrite (H He Hq) by lia. clear H.
  rewrite <- He. cbn [scan_comma]. rewrite bat_len_none, sfrom_0. cbn [opt_panic bind]. rewrite Hit.
  destruct (next false e) as [[v em2]| | | |]; cbn [bind]; try reflexivity.
  cbn [app]. rewrite app_nil_r. reflexivity.
Qed.

(* evalTerns *)
Notation scant := (scan_terns F O obj rec steps next it e).

Lemma scan_terns_irrel : forall f1 f2 i s cond depth,
  length e - i < f1 -> length e - i < f2 -> scant f1 i s cond depth = scant f2 i s cond depth.
Proof.
  induction f1 as [|f1 IH]; intros f2 i s cond depth H1 H2; [lia|].
  destruct f2 as [|f2]; [lia|].
  cbn [scan_terns]. destruct (bat e i) as [c|] eqn:Hb; [|reflexivity].
  assert (Hi : i < length e) by (apply nth_error_Some; unfold bat in Hb; congruence).
  destruct (c =? 63)%N.
  - destruct (if S i <? length e then do c1 <- opt_panic (bat e (S i)); Ok ((c1 =? 63) || (c1 =? 46))%N else Ok false)
      as [sk| | | |]; cbn [bind]; try reflexivity.
    destruct sk; [apply IH; lia|].
    destruct (depth =? 0)%Z.
    + destruct (opt_panic (slice e 0 i)) as [cnd| | | |]; cbn [bind]; try reflexivity. apply IH; lia.
    + apply IH; lia.
  - destruct (c =? 58)%N.
    + destruct (depth - 1 =? 0)%Z; [reflexivity | apply IH; lia].
    + destruct (is_opener c); [|apply IH; lia].
      destruct (opt_panic (sfrom e i)) as [t| | | |]; cbn [bind]; try reflexivity.
      destruct (read_group t) as [g| | | |] eqn:Hg; cbn [bind]; try reflexivity.
      apply read_group_len2 in Hg. apply IH; lia.
Qed.

Lemma scan_terns_quiet : forall l pre post fuel s cond depth,
  e = pre ++ flat l ++ post -> cquiet (fun c => (c =? 63) || (c =? 58))%N l -> length e - length pre < fuel ->
  scant fuel (length pre) s cond depth = scant fuel (length pre + length (flat l)) s cond depth.
Proof.
  induction l as [|x l IH]; intros pre post fuel s cond depth He Hq Hf.
  - cbn [flat length]. f_equal. lia.
  - apply Forall_cons_iff in Hq. destruct Hq as [Hx Hq']. destruct x as [c|g].
    + destruct Hx as [Ho Hc]. apply orb_false_iff in Hc. destruct Hc as [Hc1 Hc2].
      cbn [flat item_bytes app] in *.
      destruct fuel as [|fuel]; [lia|].
      assert (Hb : bat e (length pre) = Some c) by (rewrite He, bat_app_r0; reflexivity).
      assert (Hlen : length e = length pre + S (length (flat l) + length post))
        by (rewrite He, !app_length; cbn [length]; rewrite app_length; lia).
      on_lhs ltac:(cbn [scan_terns]; rewrite Hb, Hc1, Hc2, Ho).
      rewrite (scan_terns_irrel fuel (S fuel)) by lia.
      replace (S (length pre)) with (length (pre ++ [c])) by (rewrite app_length; cbn; lia).
      rewrite (IH (pre ++ [c]) post); auto.
      * f_equal. rewrite app_length. cbn [length]. lia.
      * rewrite He, <- app_assoc. reflexivity.
      * rewrite app_length. cbn [length]. lia.
    + cbn [flat item_bytes] in *. pose proof (good_group_len g Hx) as Hl.
      destruct Hx as [(c & r & Hc & Ho) Hg]. destruct fuel as [|fuel]; [lia|].
      assert (Hb : bat e (length pre) = Some c) by (rewrite He, bat_app_r0, Hc; reflexivity).
      assert (Hne : (c =? 63)%N = false /\ (c =? 58)%N = false).
      { unfold is_opener in Ho.
        split; [destruct (N.eqb_spec c 63) as [E|E] | destruct (N.eqb_spec c 58) as [E|E]]; try reflexivity;
          rewrite E in Ho; discriminate. }
      destruct Hne as [Hn1 Hn2].
      assert (Hs : sfrom e (length pre) = Some (g ++ flat l ++ post))
        by (rewrite He, <- app_assoc; apply sfrom_app).
      assert (Hlen : length e = length pre + (length g + length (flat l) + length post))
        by (rewrite He, !app_length; lia).
      on_lhs ltac:(cbn [scan_terns]; rewrite Hb, Hn1, Hn2, Ho, Hs; cbn [opt_panic bind]; rewrite Hg; cbn [bind]).
      replace (S (length pre + length g - 1)) with (length pre + length g) by lia.
      rewrite (scan_terns_irrel fuel (S fuel)) by lia.
      replace (length pre + length g) with (length (pre ++ g)) by (rewrite app_length; lia).
      rewrite (IH (pre ++ g) post); auto.
      * f_equal. rewrite !app_length. lia.
      * rewrite He, <- !app_assoc. reflexivity.
      * rewrite app_length. lia.
Qed.

Lemma scan_terns_transparent l :
  e = flat l -> cquiet (fun c => (c =? 63) || (c =? 58))%N l ->
  scant (S (length e)) 0 0 [] 0%Z = next it e.
Proof.
  intros He Hq.
  pose proof (scan_terns_quiet l [] [] (S (length e)) 0 [] 0%Z) as H.
  cbn [app length Nat.add] in H. rewrite app_nil_r in H. rewrite (H He Hq) by lia. clear H.
  rewrite <- He. cbn [scan_terns]. rewrite bat_len_none. reflexivity.
Qed.

(* evalSums *)
Notation scans := (scan_sums F O obj next it e).

Lemma scan_sums_irrel : forall f1 f2 i s lft op fill neg em,
  length e - i < f1 -> length e - i < f2 ->
  scans f1 i s lft op fill neg em = scans f2 i s lft op fill neg em.
Proof.
  induction f1 as [|f1 IH]; intros f2 i s lft op fill neg em H1 H2; [lia|].
  destruct f2 as [|f2]; [lia|].
  cbn [scan_sums]. destruct (bat e i) as [c|] eqn:Hb; [|reflexivity].
  assert (Hi : i < length e) by (apply nth_error_Some; unfold bat in Hb; congruence).
  destruct ((c =? 45) || (c =? 43))%N.
  - destruct (negb fill).
    + destruct (if 0 <? i then do p <- opt_panic (bat_pred e i); Ok (p =? c)%N else Ok false) as [dup| | | |];
        cbn [bind]; try reflexivity.
      destruct dup; [reflexivity | apply IH; lia].
    + destruct (if 0 <? i then do p <- opt_panic (bat_pred e i); Ok ((p =? 101) || (p =? 69))%N else Ok false)
        as [sci| | | |]; cbn [bind]; try reflexivity.
      destruct sci; [apply IH; lia|].
      destruct (sums_adjust e s neg) as [[s' neg']| | | |]; cbn [bind]; try reflexivity.
      destruct (opt_panic (slice e s' i)) as [seg| | | |]; cbn [bind]; try reflexivity.
      destruct (sum_operand F O obj next it lft op seg neg') as [[v em2]| | | |]; cbn [bind]; try reflexivity.
      apply IH; lia.
  - destruct (is_opener c); [|apply IH; lia].
    destruct (opt_panic (sfrom e i)) as [t| | | |]; cbn [bind]; try reflexivity.
    destruct (read_group t) as [g| | | |] eqn:Hg; cbn [bind]; try reflexivity.
    apply read_group_len2 in Hg. apply IH; lia.
Qed.

Lemma scan_sums_quiet : forall l pre post fuel s lft op fill neg em,
  e = pre ++ flat l ++ post -> cquiet (fun c => (c =? 45) || (c =? 43))%N l -> length e - length pre < fuel ->
  exists fill', scans fuel (length pre) s lft op fill neg em
              = scans fuel (length pre + length (flat l)) s lft op fill' neg em.
Proof.
  induction l as [|x l IH]; intros pre post fuel s lft op fill neg em He Hq Hf.
  - exists fill. cbn [flat length]. f_equal. lia.
  - apply Forall_cons_iff in Hq. destruct Hq as [Hx Hq']. destruct x as [c|g].
    + destruct Hx as [Ho Hc]. cbn [flat item_bytes app] in *.
      destruct fuel as [|fuel]; [lia|].
      assert (Hb : bat e (length pre) = Some c) by (rewrite He, bat_app_r0; reflexivity).
      assert (Hlen : length e = length pre + S (length (flat l) + length post))
        by (rewrite He, !app_length; cbn [length]; rewrite app_length; lia).
      destruct (IH (pre ++ [c]) post (S fuel) s lft op (if negb fill && negb (isspace c) then true else fill) neg em)
        as [fill' Hfill]; auto.
      { rewrite He, <- app_assoc. reflexivity. }
      { rewrite app_length. cbn [length]. lia. }
      exists fill'. rewrite app_length in Hfill. cbn [length] in Hfill.
      replace (length pre + 1 + length (flat l)) with (length pre + S (length (flat l))) in Hfill by lia.
      cbn [length]. rewrite <- Hfill.
      on_lhs ltac:(cbn [scan_sums]; rewrite Hb, Hc, Ho).
      replace (length pre + 1) with (S (length pre)) by lia.
      apply scan_sums_irrel; lia.
    + cbn [flat item_bytes] in *. pose proof (good_group_len g Hx) as Hl.
      destruct Hx as [(c & r & Hc & Ho) Hg]. destruct fuel as [|fuel]; [lia|].
      assert (Hb : bat e (length pre) = Some c) by (rewrite He, bat_app_r0, Hc; reflexivity).
      assert (Hne : ((c =? 45) || (c =? 43))%N = false).
      { unfold is_opener in Ho. apply orb_false_iff.
        split; [destruct (N.eqb_spec c 45) as [E|E] | destruct (N.eqb_spec c 43) as [E|E]]; try reflexivity;
          rewrite E in Ho; discriminate. }
      assert (Hs : sfrom e (length pre) = Some (g ++ flat l ++ post))
        by (rewrite He, <- app_assoc; apply sfrom_app).
      assert (Hlen : length e = length pre + (length g + length (flat l) + length post))
        by (rewrite He, !app_length; lia).
      destruct (IH (pre ++ g) post (S fuel) s lft op true neg em) as [fill' Hfill]; auto.
      { rewrite He, <- !app_assoc. reflexivity. }
      { rewrite app_length. lia. }
      exists fill'. rewrite app_length in Hfill.
      replace (length pre + length g + length (flat l)) with (length pre + length (g ++ flat l)) in Hfill
        by (rewrite app_length; lia).
      rewrite <- Hfill.
      on_lhs ltac:(cbn [scan_sums]; rewrite Hb, Hne, Ho, Hs; cbn [opt_panic bind]; rewrite Hg; cbn [bind]).
      replace (S (length pre + length g - 1)) with (length pre + length g) by lia.
      apply scan_sums_irrel; lia.
Qed.

Lemma scan_sums_transparent l :
  e = flat l -> cquiet (fun c => (c =? 45) || (c =? 43))%N l -> trim e = e -> e <> [] ->
  scans (S (length e)) 0 0 (VUndef F) 0%N false false [] = next it e.
Proof.
  intros He Hq Ht Hne.
  destruct (scan_sums_quiet l [] [] (S (length e)) 0 (VUndef F) 0%N false false []) as [fill' H].
  { rewrite app_nil_r. exact He. } { exact Hq. } { cbn [length]. lia. }
  cbn [app length Nat.add] in H. rewrite H. clear H.
  rewrite <- He. cbn [scan_sums]. rewrite bat_len_none. cbn [sums_adjust bind]. rewrite sfrom_0.
  cbn [opt_panic bind]. unfold sum_operand. rewrite Ht.
  destruct e as [|c0 r0]; [congruence|].
  unfold rbind. destruct (next it (c0 :: r0)) as [[v em2]| | | |]; cbn [bind]; try reflexivity.
  replace (0 =? 43)%N with false by reflexivity. replace (0 =? 45)%N with false by reflexivity.
  unfold ret. cbn [bind app]. rewrite app_nil_r. reflexivity.
Qed.

(* evalSums on  -digits : the sign is handed back to the number (s--, neg = false) *)
Lemma scan_sums_neg ds :
  e = 45%N :: ds -> Forall (fun c => isdigit c = true) ds -> ds <> [] -> trim e = e ->
  scans (S (length e)) 0 0 (VUndef F) 0%N false false [] = next it e.
Proof.
  intros He Hds Hne Ht.
  assert (Hb0 : bat e 0 = Some 45%N) by (rewrite He; reflexivity).
  cbn [scan_sums]. rewrite Hb0. replace ((45 =? 45) || (45 =? 43))%N with true by reflexivity.
  cbn [negb Nat.ltb Nat.leb bind]. replace (45 =? 45)%N with true by reflexivity. cbn [negb].
  assert (Hq : cquiet (fun c => (c =? 45) || (c =? 43))%N (map IChar ds)).
  { clear -Hds. induction Hds as [|c r Hc Hr IH]; cbn [map]; constructor; auto.
    unfold isdigit in Hc. unfold is_opener. split; lia. }
  assert (Hfl : flat (map IChar ds) = ds).
  { clear. induction ds as [|c r IH]; cbn [map flat item_bytes app]; congruence. }
  destruct (scan_sums_quiet (map IChar ds) [45%N] [] (length e) 1 (VUndef F) 0%N false true []) as [fill' H].
  { rewrite Hfl, app_nil_r. exact He. } { exact Hq. } { rewrite He. cbn [length]. lia. }
  cbn [length] in H. rewrite H. clear H. rewrite Hfl.
  assert (Hlen : length e = 1 + length ds) by (rewrite He; reflexivity).
  destruct ds as [|d0 r0] eqn:Eds; [congruence|]. rewrite <- Eds in *.
  assert (Hd0 : isdigit d0 = true) by (rewrite Eds in Hds; inversion Hds; assumption).
  replace (1 + length ds) with (length e) by lia.
  rewrite (scan_sums_irrel (length e) 1) by lia.
  cbn [scan_sums]. rewrite bat_len_none.
  unfold sums_adjust.
  replace ((0 <? 1) && (1 <? length e)) with true
    by (symmetry; apply andb_true_iff; split; [reflexivity | apply Nat.ltb_lt; rewrite Hlen, Eds; cbn [length]; lia]).
  assert (Hp : bat_pred e 1 = Some 45%N) by (rewrite He; reflexivity).
  assert (Hb1 : bat e 1 = Some d0) by (rewrite He, Eds; reflexivity).
  rewrite Hp, Hb1. cbn [opt_panic bind]. replace (45 =? 45)%N with true by reflexivity. rewrite Hd0.
  cbn [andb Nat.sub bind]. rewrite sfrom_0. cbn [opt_panic bind].
  unfold sum_operand. rewrite Ht.
  assert (Hnil : e <> []) by (rewrite He; discriminate).
  clear -Hnil. destruct e as [|c0 r0']; [congruence|].
  unfold rbind. destruct (next it (c0 :: r0')) as [[v em2]| | | |]; cbn [bind]; try reflexivity.
  replace (0 =? 43)%N with false by reflexivity. replace (0 =? 45)%N with false by reflexivity.
  unfold ret. cbn [bind app]. rewrite app_nil_r. reflexivity.
Qed.

End Special.

End Sem.

(* ------------------------------------------------------------------ Part 4a: decimal spelling *)

Local Open Scope Z_scope.

Lemma isdigit_of_digit d : 0 <= d < 10 -> isdigit (Z.to_N (48 + d)) = true.
Proof. intros H. unfold isdigit. lia. Qed.

Lemma digit_back d : 0 <= d < 10 -> Z.of_N (Z.to_N (48 + d)) - 48 = d.
Proof. intros H. lia. Qed.

Lemma dec_digits_spec : forall fuel n acc,
  0 <= n < 10 ^ Z.of_nat fuel -> (1 <= fuel)%nat ->
  exists ds, dec_digits fuel n acc = ds ++ acc /\ Forall (fun c => isdigit c = true) ds /\
    (1 <= length ds)%nat /\
    (forall k, 1 <= k -> n < 10 ^ k -> Z.of_nat (length ds) <= k) /\
    (forall v rest, all_digits_val (ds ++ rest) v = all_digits_val rest (v * 10 ^ Z.of_nat (length ds) + n)).
Proof.
  induction fuel as [|fuel IH]; intros n acc Hn Hf; [lia|].
  cbn [dec_digits]. destruct (Z.ltb_spec n 10) as [Hlt|Hge].
  - exists [Z.to_N (48 + n mod 10)]. rewrite Z.mod_small by lia. repeat split.
    + constructor; [apply isdigit_of_digit; lia | constructor].
    + cbn. lia.
    + intros k Hk _. cbn. lia.
    + intros v rest. cbn [app all_digits_val length]. rewrite isdigit_of_digit by lia.
      rewrite digit_back by lia. f_equal; try (change (Z.of_nat 1) with 1; lia).
  - assert (Hf' : (1 <= fuel)%nat).
    { destruct fuel; [|lia]. cbn in Hn. lia. }
    assert (Hq : 0 <= n / 10 < 10 ^ Z.of_nat fuel).
    { split; [apply Z.div_pos; lia|].
      apply Z.div_lt_upper_bound; [lia|].
      replace (10 * 10 ^ Z.of_nat fuel) with (10 ^ Z.of_nat (S fuel)); [lia|].
      rewrite Nat2Z.inj_succ, Z.pow_succ_r by lia. reflexivity. }
    destruct (IH (n / 10) (Z.to_N (48 + n mod 10) :: acc) Hq Hf') as (ds & Hds & Hall & Hlen & Hk & Hv).
    exists (ds ++ [Z.to_N (48 + n mod 10)]).
    assert (Hm : 0 <= n mod 10 < 10) by (apply Z.mod_pos_bound; lia).
    repeat split.
    + rewrite Hds, <- app_assoc. reflexivity.
    + apply Forall_app. split; [exact Hall|]. constructor; [apply isdigit_of_digit; lia | constructor].
    + rewrite app_length. cbn. lia.
    + intros k Hk1 Hnk. rewrite app_length. cbn [length].
      assert (2 <= k).
      { destruct (Z.eq_dec k 1) as [->|]; [|lia]. change (10 ^ 1) with 10 in Hnk. lia. }
      assert (n / 10 < 10 ^ (k - 1)).
      { apply Z.div_lt_upper_bound; [lia|].
        replace (10 * 10 ^ (k - 1)) with (10 ^ k); [lia|].
        replace k with (Z.succ (k - 1)) at 1 by lia. rewrite Z.pow_succ_r by lia. reflexivity. }
      specialize (Hk (k - 1)). lia.
    + intros v rest. rewrite <- app_assoc. rewrite Hv. cbn [app all_digits_val].
      rewrite isdigit_of_digit by lia. rewrite digit_back by lia. f_equal.
      rewrite app_length. cbn [length]. rewrite Nat2Z.inj_add. change (Z.of_nat 1) with 1.
      rewrite Z.pow_add_r by lia. change (10 ^ 1) with 10.
      pose proof (Z.div_mod n 10). lia.
Qed.

Lemma dec_of_Z_spec_k n k : 0 <= n < 10 ^ k -> 1 <= k <= 25 ->
  exists ds, dec_of_Z n = ds /\ Forall (fun c => isdigit c = true) ds /\ (1 <= length ds)%nat /\
    Z.of_nat (length ds) <= k /\ all_digits_val ds 0 = Some n.
Proof.
  intros Hn Hk. unfold dec_of_Z. replace (n <? 0) with false by lia.
  destruct (dec_digits_spec 25 n []) as (ds & Hds & Hall & Hlen & Hkk & Hv); [|lia|].
  { split; [lia|]. eapply Z.lt_le_trans; [apply Hn|]. apply Z.pow_le_mono_r; lia. }
  exists (dec_digits 25 n []). rewrite Hds, app_nil_r. repeat split; auto.
  - apply Hkk; lia.
  - specialize (Hv 0 []). rewrite app_nil_r in Hv. rewrite Hv. cbn [all_digits_val]. f_equal; lia.
Qed.

Lemma dec_of_Z_spec n : 0 <= n < 1000000000000000 ->
  exists ds, dec_of_Z n = ds /\ Forall (fun c => isdigit c = true) ds /\ (1 <= length ds <= 15)%nat /\
    all_digits_val ds 0 = Some n.
Proof.
  intros Hn. destruct (dec_of_Z_spec_k n 15) as (ds & H1 & H2 & H3 & H4 & H5); [exact Hn | lia |].
  exists ds. repeat split; auto. lia.
Qed.

Lemma dec_of_Z_neg n : n < 0 -> dec_of_Z n = 45%N :: dec_of_Z (- n).
Proof. intros H. unfold dec_of_Z. replace (n <? 0) with true by lia. replace (- n <? 0) with false by lia. reflexivity. Qed.

Local Close Scope Z_scope.

(* ------------------------------------------------------------------ Part 4b: evalAtom on the atom shapes *)

(* bytes that no scanning loop reacts to *)
Definition inert (c : N) : bool :=
  negb (is_opener c || (c =? 42) || (c =? 47) || (c =? 37) || (c =? 60) || (c =? 62) || (c =? 61) || (c =? 33)
        || (c =? 38) || (c =? 94) || (c =? 124) || (c =? 63) || (c =? 44) || (c =? 58) || (c =? 45) || (c =? 43))%N.

Lemma inert_facts c : inert c = true ->
  is_opener c = false /\ (forall n, trigger n c = false) /\ (c =? 44)%N = false /\
  ((c =? 63) || (c =? 58))%N = false /\ ((c =? 45) || (c =? 43))%N = false /\ (c =? 33)%N = false.
Proof.
  unfold inert. intros H. apply negb_true_iff in H.
  remember (is_opener c) as io eqn:Eio.
  repeat (apply orb_false_elim in H; let H2 := fresh "Hc" in destruct H as [H H2]).
  subst io.
  split; [exact H|]. split.
  { intros n. destruct n as [|[|[|[|[|[|[|[|[|[|n]]]]]]]]]]; cbn [trigger]; try reflexivity;
      repeat match goal with Hx : (c =? _)%N = false |- _ => rewrite Hx; clear Hx end; reflexivity. }
  repeat split; repeat match goal with Hx : (c =? _)%N = false |- _ => rewrite Hx; clear Hx end; reflexivity.
Qed.

Definition allq (l : list item) : Prop :=
  Forall (fun x => match x with IChar c => inert c = true | IGroup g => good_group g end) l.

Definition specials : list N :=
  [40; 91; 123; 34; 39; 42; 47; 37; 60; 62; 61; 33; 38; 94; 124; 63; 44; 58; 45; 43; 9; 10; 11; 12; 13; 32]%N.

Lemma not_special_inert c : (forall k, In k specials -> c <> k) -> inert c = true /\ isspace c = false.
Proof.
  intros H.
  assert (E : forall k, In k specials -> (c =? k)%N = false).
  { intros k Hk. apply N.eqb_neq. apply H. exact Hk. }
  unfold inert, is_opener, isspace.
  rewrite (E 40%N), (E 91%N), (E 123%N), (E 34%N), (E 39%N), (E 42%N), (E 47%N), (E 37%N), (E 60%N), (E 62%N),
    (E 61%N), (E 33%N), (E 38%N), (E 94%N), (E 124%N), (E 63%N), (E 44%N), (E 58%N), (E 45%N), (E 43%N),
    (E 9%N), (E 10%N), (E 11%N), (E 12%N), (E 13%N), (E 32%N) by (cbn; tauto).
  split; reflexivity.
Qed.

Lemma id_continue_range c : id_continue c = true ->
  (c = 36 \/ c = 95 \/ (48 <= c /\ c <= 57) \/ (65 <= c /\ c <= 90) \/ (97 <= c /\ c <= 122))%N.
Proof.
  unfold id_continue, id_start, isdigit. intros H.
  apply orb_true_iff in H. destruct H as [H|H].
  - apply orb_true_iff in H. destruct H as [H|H].
    + apply orb_true_iff in H. destruct H as [H|H].
      * apply orb_true_iff in H. destruct H as [H|H]; apply N.eqb_eq in H; [left | right; left]; exact H.
      * apply andb_true_iff in H. destruct H as [H1 H2]. apply N.leb_le in H1, H2.
        right; right; right; left. split; assumption.
    + apply andb_true_iff in H. destruct H as [H1 H2]. apply N.leb_le in H1, H2.
      right; right; right; right. split; assumption.
  - apply andb_true_iff in H. destruct H as [H1 H2]. apply N.leb_le in H1, H2.
    right; right; left. split; assumption.
Qed.

Lemma id_continue_inert c : id_continue c = true -> inert c = true /\ isspace c = false.
Proof.
  intros H. apply id_continue_range in H. apply not_special_inert.
  intros k Hk. cbn [specials In] in Hk.
  repeat (destruct Hk as [<-|Hk]; [lia|]). contradiction.
Qed.

Lemma allq_chars s : Forall (fun c => inert c = true) s -> allq (map IChar s) /\ flat (map IChar s) = s.
Proof.
  induction 1 as [|c s Hc Hs [IH1 IH2]]; cbn [map flat item_bytes app]; split; try constructor; auto.
  rewrite IH2. reflexivity.
Qed.

Lemma bind_pair_id {A B} (r : res (A * B)) : (do ve <- r; let '(v, em) := ve in Ok (v, em)) = r.
Proof. destruct r as [[a b]| | | |]; reflexivity. Qed.

Section Sem2.
Context {F : Type} (O : oracle F) (obj : eobj F).
Variable rec : N -> bool -> bytes -> R F.
Variable st : N.
Notation V := (evalue F).

Lemma apply_op_zero n (l r : V) : apply_op F O obj n 0%N l r = Ok r.
Proof. destruct n as [|[|[|[|[|[|[|[|[|[|n]]]]]]]]]]; reflexivity. Qed.

Lemma allq_quiet_from n e l : allq l -> forall i, quiet_from n e i l.
Proof.
  induction 1 as [|x l Hx Hl IH]; intros i; [constructor|].
  destruct x as [c|g].
  - destruct (inert_facts c Hx) as (Ho & Ht & _). constructor; auto. apply recog_untriggered. apply Ht.
  - constructor; auto.
Qed.

Lemma allq_cquiet P l : (forall c, inert c = true -> P c = false) -> allq l -> cquiet P l.
Proof.
  intros HP. induction 1 as [|x l Hx Hl IH]; constructor; auto.
  destruct x as [c|g]; auto. split; [apply (inert_facts c Hx) | apply HP; exact Hx].
Qed.

(* operand of a level on a tight text that does not start with '!' *)
Lemma operand_plain n next it (e : bytes) c r :
  e = c :: r -> trim e = e -> (c =? 33)%N = false ->
  operand F O obj n next it (VUndef F) 0%N e = next it e.
Proof.
  intros He Ht Hc. unfold operand. rewrite Ht.
  destruct (n =? 4).
  - rewrite He. cbn [strip_bangs length]. rewrite Hc. cbn [negb bind].
    unfold rbind. destruct (next it (c :: r)) as [[v em]| | | |]; cbn [bind]; try reflexivity.
    rewrite apply_op_zero. unfold lift, ret. cbn [bind]. rewrite app_nil_r. reflexivity.
  - rewrite He. rewrite <- He.
    unfold rbind. destruct (next it e) as [[v em]| | | |]; cbn [bind]; try reflexivity.
    rewrite apply_op_zero. unfold lift, ret. cbn [bind]. rewrite app_nil_r. reflexivity.
Qed.

Lemma eval_auto_S m it e :
  eval_auto F O obj rec st (S m) it e =
    if has_step st (S m) then level_scan F O obj rec st (S m) (eval_auto F O obj rec st m) it e
    else eval_auto F O obj rec st m it e.
Proof. reflexivity. Qed.

Lemma level_scan_cases n next it e :
  level_scan F O obj rec st n next it e =
    (if n =? 11 then scan_comma F next it e (S (length e)) 0 0 []
     else if n =? 10 then scan_terns F O obj rec st next it e (S (length e)) 0 0 [] 0%Z
     else if n =? 2 then scan_sums F O obj next it e (S (length e)) 0 0 (VUndef F) 0%N false false []
     else scan_level F O obj n next it e (S (length e)) 0 0 (VUndef F) 0%N []).
Proof.
  destruct n as [|[|[|[|[|[|[|[|[|[|[|[|n]]]]]]]]]]]]; reflexivity.
Qed.

(* every level is transparent on a tight text made of inert bytes and groups *)
Lemma eval_auto_allq l e c r :
  e = flat l -> allq l -> e = c :: r -> trim e = e -> (c =? 33)%N = false ->
  forall n, eval_auto F O obj rec st n false e = eval_atom F O obj rec st false e.
Proof.
  intros He Hq Hc Ht Hb. induction n as [|m IH]; [reflexivity|].
  rewrite eval_auto_S. destruct (has_step st (S m)); [|exact IH].
  rewrite level_scan_cases.
  destruct (S m =? 11) eqn:E11.
  { rewrite scan_comma_transparent with (l := l); auto.
    apply allq_cquiet; auto. intros c0 H0. apply (inert_facts c0 H0). }
  destruct (S m =? 10) eqn:E10.
  { rewrite scan_terns_transparent with (l := l); auto.
    apply allq_cquiet; auto. intros c0 H0. apply (inert_facts c0 H0). }
  destruct (S m =? 2) eqn:E2.
  { rewrite scan_sums_transparent with (l := l); auto; [|rewrite Hc; discriminate].
    apply allq_cquiet; auto. intros c0 H0. apply (inert_facts c0 H0). }
  rewrite scan_level_transparent with (l := l); auto; [|apply allq_quiet_from; exact Hq].
  rewrite bind_pair_id. rewrite operand_plain with (c := c) (r := r); auto.
Qed.

(* evalAtom on a parenthesised group *)
Lemma eval_atom_paren it x :
  bal x -> eval_atom F O obj rec st it (40%N :: x ++ [41%N]) = rec st it x.
Proof.
  intros Hx. unfold eval_atom.
  assert (Ht : trim (40%N :: x ++ [41%N]) = 40%N :: x ++ [41%N]).
  { apply trim_tight. exists 40%N, x, 41%N. repeat split; auto. }
  rewrite Ht.
  replace ((40 =? 48) || (40 =? 45) || (40 =? 46) || (49 <=? 40) && (40 <=? 57))%N with false by reflexivity.
  replace ((40 =? 34) || (40 =? 39))%N with false by reflexivity.
  replace ((40 =? 40) || (40 =? 123) || (40 =? 91))%N with true by reflexivity.
  pose proof (good_group_paren x Hx) as [_ Hg]. specialize (Hg []). rewrite app_nil_r in Hg. rewrite Hg.
  cbn [bind bat nth_error opt_panic]. replace (40 =? 40)%N with true by reflexivity.
  unfold group_inner.
  assert (Hs : slice (40%N :: x ++ [41%N]) 1 (length (40%N :: x ++ [41%N]) - 1) = Some x).
  { pose proof (slice_app [40%N] x [41%N]) as H. cbn [app length] in H.
    cbn [length]. rewrite app_length. cbn [length].
    replace (S (length x + 1) - 1) with (1 + length x) by lia. exact H. }
  rewrite Hs. cbn [opt_panic bind]. rewrite sfrom_all. cbn [opt_panic bind].
  unfold rbind. destruct (rec st it x) as [[v em]| | | |]; cbn [bind]; try reflexivity.
  cbn [length atom_chain]. rewrite trim_nil. unfold ret. cbn [bind]. rewrite app_nil_r. reflexivity.
Qed.

(* evalAtom on an escape-free string literal *)
Lemma eval_atom_str it s :
  Forall safe s -> eval_atom F O obj rec st it (34%N :: s ++ [34%N]) = ret F (VStr F s).
Proof.
  intros Hs. unfold eval_atom.
  assert (Ht : trim (34%N :: s ++ [34%N]) = 34%N :: s ++ [34%N]).
  { apply trim_tight. exists 34%N, s, 34%N. repeat split; auto. }
  rewrite Ht.
  replace ((34 =? 48) || (34 =? 45) || (34 =? 46) || (49 <=? 34) && (34 <=? 57))%N with false by reflexivity.
  replace ((34 =? 34) || (34 =? 39))%N with true by reflexivity.
  pose proof (parse_string_safe_lit s [] Hs) as Hp.
  rewrite Hp. cbn [bind].
  replace (S (S (length s))) with (length (34%N :: s ++ [34%N])) by (cbn [length]; rewrite app_length; cbn; lia).
  rewrite sfrom_all. cbn [opt_panic bind length atom_chain]. rewrite trim_nil. reflexivity.
Qed.

End Sem2.

(* ------------------------------------------------------------------ Part 4c: identifiers, numbers, keywords *)

Lemma nonspace_ends_of s : s <> [] -> Forall (fun c => isspace c = false) s -> nonspace_ends s.
Proof.
  intros Hne Hall. destruct (exists_last Hne) as (m' & d & Hm). subst s.
  apply Forall_app in Hall. destruct Hall as [Hm' Hd]. inversion Hd as [|? ? Hd' _]; subst.
  destruct m' as [|c m].
  - exists d, [], d. split; [left; reflexivity|]. split; assumption.
  - exists c, m, d. split; [right; reflexivity|]. inversion Hm'; subst. split; assumption.
Qed.

Lemma id_rest_all r : forallb id_continue r = true -> id_rest r = r.
Proof.
  induction r as [|c r IH]; [reflexivity|]. cbn [forallb id_rest]. intros H.
  apply andb_true_iff in H. destruct H as [Hc Hr]. rewrite Hc, IH by assumption. reflexivity.
Qed.

Lemma id_start_range c : id_start c = true ->
  (c = 36 \/ c = 95 \/ (65 <= c /\ c <= 90) \/ (97 <= c /\ c <= 122))%N.
Proof.
  unfold id_start. intros H.
  apply orb_true_iff in H. destruct H as [H|H].
  - apply orb_true_iff in H. destruct H as [H|H].
    + apply orb_true_iff in H. destruct H as [H|H]; apply N.eqb_eq in H; [left | right; left]; exact H.
    + apply andb_true_iff in H. destruct H as [H1 H2]. apply N.leb_le in H1, H2. right; right; left. split; assumption.
  - apply andb_true_iff in H. destruct H as [H1 H2]. apply N.leb_le in H1, H2. right; right; right. split; assumption.
Qed.

Lemma id_start_continue c : id_start c = true -> id_continue c = true.
Proof. unfold id_continue. intros ->. reflexivity. Qed.

Lemma id_start_tests c : id_start c = true ->
  ((c =? 48) || (c =? 45) || (c =? 46) || (49 <=? c) && (c <=? 57))%N = false /\
  ((c =? 34) || (c =? 39))%N = false /\ ((c =? 40) || (c =? 123) || (c =? 91))%N = false /\ (c =? 33)%N = false.
Proof.
  intros H. apply id_start_range in H.
  assert (E : forall k, In k [48; 45; 46; 34; 39; 40; 123; 91; 33]%N -> (c =? k)%N = false).
  { intros k Hk. apply N.eqb_neq. cbn [In] in Hk. repeat (destruct Hk as [<-|Hk]; [lia|]). contradiction. }
  rewrite (E 48%N), (E 45%N), (E 46%N), (E 34%N), (E 39%N), (E 40%N), (E 123%N), (E 91%N), (E 33%N) by (cbn; tauto).
  cbn [orb]. repeat split.
  destruct (N.leb_spec 49 c); [|reflexivity]. destruct (N.leb_spec c 57); [lia | reflexivity].
Qed.

Section Sem3.
Context {F : Type} (O : oracle F) (obj : eobj F).
Variable rec : N -> bool -> bytes -> R F.
Variable st : N.
Notation V := (evalue F).

Lemma wf_name_parts nm : wf_name nm = true ->
  exists c r, nm = c :: r /\ id_start c = true /\ forallb id_continue r = true /\
              existsb (bytes_eqb nm) keywords = false.
Proof.
  unfold wf_name. destruct nm as [|c r]; [discriminate|]. intros H.
  apply andb_true_iff in H. destruct H as [H Hk]. apply andb_true_iff in H. destruct H as [Hc Hr].
  exists c, r. repeat split; auto. apply negb_true_iff. exact Hk.
Qed.

Lemma wf_name_allq nm : wf_name nm = true ->
  allq (map IChar nm) /\ flat (map IChar nm) = nm /\ trim nm = nm.
Proof.
  intros H. destruct (wf_name_parts nm H) as (c & r & -> & Hc & Hr & _).
  assert (Hall : Forall (fun x => id_continue x = true) (c :: r)).
  { constructor; [apply id_start_continue; exact Hc |].
    apply Forall_forall. intros x Hx. apply (proj1 (forallb_forall _ _) Hr x Hx). }
  assert (Hin : Forall (fun x => inert x = true) (c :: r)).
  { eapply Forall_impl; [|exact Hall]. intros a Ha. apply (id_continue_inert a Ha). }
  destruct (allq_chars (c :: r) Hin) as [H1 H2]. repeat split; auto.
  apply trim_tight. apply nonspace_ends_of; [congruence|].
  eapply Forall_impl; [|exact Hall]. intros a Ha. apply (id_continue_inert a Ha).
Qed.

(* evalAtom on an identifier that is not a keyword *)
Lemma eval_atom_ident it nm : wf_name nm = true ->
  eval_atom F O obj rec st it nm = lift F (get_ref_value F O obj false (VUndef F) nm false).
Proof.
  intros H. destruct (wf_name_allq nm H) as (_ & _ & Ht).
  destruct (wf_name_parts nm H) as (c & r & Hnm & Hc & Hr & Hk).
  unfold eval_atom. rewrite Ht. rewrite Hnm at 1.
  destruct (id_start_tests c Hc) as (T1 & T2 & T3 & _). rewrite T1, T2, T3.
  assert (Hri : read_ident nm = Some nm).
  { rewrite Hnm. cbn [read_ident]. rewrite Hc, id_rest_all by assumption. reflexivity. }
  rewrite Hri.
  unfold keywords in Hk. cbn [existsb] in Hk.
  repeat (apply orb_false_elim in Hk; let H2 := fresh "K" in destruct Hk as [H2 Hk]).
  rewrite K, K0, K1, K2, K3, K4, K5, K6, K7, K8, K9, K10, K11. cbn [orb].
  rewrite sfrom_all. unfold lift.
  destruct (get_ref_value F O obj false (VUndef F) nm false) as [v| | | |]; cbn [bind opt_panic]; reflexivity.
Qed.

Lemma forall_bat (P : N -> Prop) (l : bytes) i c : Forall P l -> bat l i = Some c -> P c.
Proof. intros H Hb. unfold bat in Hb. apply nth_error_In in Hb. rewrite Forall_forall in H. auto. Qed.

(* evalAtom on the decimal spelling of a small non-negative integer *)
Lemma eval_atom_num it n : (0 <= n < 1000000000000000)%Z ->
  eval_atom F O obj rec st it (dec_of_Z n) = ret F (VFloat F (f_of_int F O n)).
Proof.
  intros Hn. destruct (dec_of_Z_spec n Hn) as (ds & -> & Hall & Hlen & Hval).
  destruct ds as [|c r] eqn:Eds; [cbn in Hlen; lia|]. rewrite <- Eds in *.
  assert (Hc : isdigit c = true) by (rewrite Eds in Hall; inversion Hall; auto).
  assert (Hns : Forall (fun x => isspace x = false) ds).
  { eapply Forall_impl; [|exact Hall]. intros a Ha. unfold isdigit in Ha. unfold isspace. lia. }
  assert (Ht : trim ds = ds) by (apply trim_tight, nonspace_ends_of; [rewrite Eds; congruence | exact Hns]).
  unfold eval_atom. rewrite Ht. rewrite Eds at 1.
  replace ((c =? 48) || (c =? 45) || (c =? 46) || (49 <=? c) && (c <=? 57))%N with true
    by (unfold isdigit in Hc; lia).
  assert (Hpf : expr_parse_float F O ds = Ok (Some (f_of_int F O n))).
  { unfold expr_parse_float. replace (15 <? length ds) with false by (symmetry; apply Nat.ltb_ge; lia).
    rewrite Eds at 1. replace (c =? 45)%N with false by (unfold isdigit in Hc; lia).
    rewrite Hval. rewrite Eds. reflexivity. }
  assert (Hgeneric : atom_number_generic F O ds = Ok (VFloat F (f_of_int F O n))).
  { unfold atom_number_generic.
    destruct ((3 <? length ds) && has_suffix_64 ds) eqn:E.
    - apply andb_true_iff in E. destruct E as [E _]. apply Nat.ltb_lt in E.
      destruct (bat ds (length ds - 3)) as [k|] eqn:Hk.
      + cbn [opt_panic bind]. pose proof (forall_bat _ _ _ _ Hall Hk) as Hd. cbv beta in Hd.
        unfold isdigit in Hd. replace (k =? 117)%N with false by lia. replace (k =? 105)%N with false by lia.
        cbn [bind]. rewrite Hpf. reflexivity.
      + unfold bat in Hk. apply nth_error_None in Hk. lia.
    - cbn [bind]. rewrite Hpf. reflexivity. }
  assert (Hgen : atom_number F O ds = Ok (VFloat F (f_of_int F O n))).
  { unfold atom_number. assert (Hb0 : bat ds 0 = Some c) by (rewrite Eds; reflexivity).
    rewrite Hb0. cbn [opt_panic bind].
    destruct (c =? 48)%N; [|exact Hgeneric].
    destruct (bat ds 1) as [c1|] eqn:Hc1; [|exact Hgeneric].
    pose proof (forall_bat _ _ _ _ Hall Hc1) as Hd. cbv beta in Hd. unfold isdigit in Hd.
    replace ((c1 =? 120) || (c1 =? 88))%N with false by lia. exact Hgeneric. }
  rewrite Hgen. reflexivity.
Qed.

(* evalAtom on  -digits  (at most 14 digits): parseFloat's  n * -1 *)
Lemma eval_atom_negnum it m ds :
  Forall (fun c => isdigit c = true) ds -> 1 <= length ds <= 14 -> all_digits_val ds 0%Z = Some m ->
  eval_atom F O obj rec st it (45%N :: ds) = ret F (VFloat F (f_mul F O (f_of_int F O m) (f_of_int F O (-1)%Z))).
Proof.
  intros Hall Hlen Hval. set (e := 45%N :: ds).
  assert (Hns : Forall (fun x => isspace x = false) e).
  { constructor; [reflexivity|]. eapply Forall_impl; [|exact Hall]. intros a Ha. unfold isdigit in Ha. unfold isspace. lia. }
  assert (Ht : trim e = e) by (apply trim_tight, nonspace_ends_of; [discriminate | exact Hns]).
  unfold eval_atom. rewrite Ht. unfold e at 1.
  replace ((45 =? 48) || (45 =? 45) || (45 =? 46) || (49 <=? 45) && (45 <=? 57))%N with true by reflexivity.
  assert (Hpf : expr_parse_float F O e = Ok (Some (f_mul F O (f_of_int F O m) (f_of_int F O (-1)%Z)))).
  { unfold expr_parse_float. replace (15 <? length e) with false by (symmetry; apply Nat.ltb_ge; cbn [e length]; lia).
    unfold e at 1. replace (45 =? 45)%N with true by reflexivity.
    destruct ds as [|d0 r0]; [cbn in Hlen; lia|]. rewrite Hval. reflexivity. }
  assert (Hgeneric : atom_number_generic F O e = Ok (VFloat F (f_mul F O (f_of_int F O m) (f_of_int F O (-1)%Z)))).
  { unfold atom_number_generic.
    destruct ((3 <? length e) && has_suffix_64 e) eqn:E.
    - apply andb_true_iff in E. destruct E as [E _]. apply Nat.ltb_lt in E.
      destruct (bat e (length e - 3)) as [k|] eqn:Hk.
      + cbn [opt_panic bind].
        assert (Hd : isdigit k = true).
        { unfold e in Hk, E. cbn [length] in Hk, E. replace (S (length ds) - 3) with (S (length ds - 3)) in Hk by lia.
          cbn [bat nth_error] in Hk. apply (forall_bat _ _ _ _ Hall Hk). }
        unfold isdigit in Hd. replace (k =? 117)%N with false by lia. replace (k =? 105)%N with false by lia.
        cbn [bind]. rewrite Hpf. reflexivity.
      + unfold bat in Hk. apply nth_error_None in Hk. lia.
    - cbn [bind]. rewrite Hpf. reflexivity. }
  unfold atom_number. unfold e at 1. cbn [bat nth_error opt_panic bind].
  replace (45 =? 48)%N with false by reflexivity. rewrite Hgeneric. reflexivity.
Qed.

Lemma eval_atom_true it : eval_atom F O obj rec st it s_true = ret F (VBool F true).
Proof. reflexivity. Qed.
Lemma eval_atom_false it : eval_atom F O obj rec st it s_false = ret F (VBool F false).
Proof. reflexivity. Qed.
Lemma eval_atom_null it : eval_atom F O obj rec st it s_null = ret F (VNull F).
Proof. reflexivity. Qed.

End Sem3.

(* ------------------------------------------------------------------ Part 5: the shapes the printer produces *)

Lemma id_continue_plain c : id_continue c = true -> plain_sq c = true.
Proof.
  intros H. apply id_continue_range in H. unfold plain_sq.
  assert (E : forall k, In k [34; 39; 123; 91; 40; 125; 93; 41]%N -> (c =? k)%N = false).
  { intros k Hk. apply N.eqb_neq. cbn [In] in Hk. repeat (destruct Hk as [<-|Hk]; [lia|]). contradiction. }
  rewrite (E 34%N), (E 39%N), (E 123%N), (E 91%N), (E 40%N), (E 125%N), (E 93%N), (E 41%N) by (cbn; tauto).
  reflexivity.
Qed.

Lemma isdigit_id_continue c : isdigit c = true -> id_continue c = true.
Proof. unfold id_continue. intros ->. apply orb_true_r. Qed.

Lemma bal_plain_run s r : Forall (fun c => plain_sq c = true) s -> bal r -> bal (s ++ r).
Proof. induction 1; cbn [app]; auto. intros. apply bal_plain; auto. Qed.

(* what the levels see of an atom: a string literal and a parenthesised negative number are one
   group, everything else is a run of identifier bytes *)
Definition group_atom (a : atom) : bool :=
  match a with AStr _ => true | ANum n => (n <? 0)%Z | _ => false end.

Definition atom_items (a : atom) : list item :=
  if group_atom a then [IGroup (print_atom a)] else map IChar (print_atom a).

Lemma forallb_Forall {A} (p : A -> bool) l : forallb p l = true -> Forall (fun x => p x = true) l.
Proof. intros H. apply Forall_forall. intros x Hx. apply (proj1 (forallb_forall _ _) H x Hx). Qed.

Lemma atom_chars_idc a : wf_atom a = true -> group_atom a = false ->
  Forall (fun c => id_continue c = true) (print_atom a) /\ print_atom a <> [].
Proof.
  destruct a as [nm|n|s|b|]; cbn [wf_atom print_atom group_atom]; intros H Hg; try discriminate.
  - destruct nm as [|c r]; [discriminate|]. unfold wf_name in H.
    apply andb_true_iff in H. destruct H as [H _]. apply andb_true_iff in H. destruct H as [Hc Hr].
    split; [|congruence]. constructor; [apply id_start_continue; exact Hc | apply forallb_Forall; exact Hr].
  - rewrite Hg. apply andb_true_iff in H. destruct H as [H1 H2].
    destruct (dec_of_Z_spec n) as (ds & -> & Hall & Hlen & _); [lia|].
    split; [|destruct ds; [cbn in Hlen; lia | congruence]].
    eapply Forall_impl; [|exact Hall]. intros c Hc. apply isdigit_id_continue. exact Hc.
  - destruct b; (split; [repeat constructor | discriminate]).
  - split; [repeat constructor | discriminate].
Qed.

Record tight_text (s : bytes) : Prop := {
  tt_trim : trim s = s;
  tt_head : exists c r, s = c :: r /\ (c =? 33)%N = false /\ isspace c = false;
  tt_last : exists m d, s = m ++ [d] /\ isspace d = false
}.

Lemma idc_not_bang c : id_continue c = true -> (c =? 33)%N = false.
Proof. intros H. apply id_continue_range in H. apply N.eqb_neq. lia. Qed.

Lemma idc_text_shape s : s <> [] -> Forall (fun c => id_continue c = true) s ->
  allq (map IChar s) /\ flat (map IChar s) = s /\ tight_text s /\ bal s.
Proof.
  intros Hne Hall.
  assert (Hin : Forall (fun x => inert x = true) s)
    by (eapply Forall_impl; [|exact Hall]; intros c0 Hc0; apply (id_continue_inert c0 Hc0)).
  assert (Hns : Forall (fun x => isspace x = false) s)
    by (eapply Forall_impl; [|exact Hall]; intros c0 Hc0; apply (id_continue_inert c0 Hc0)).
  destruct (allq_chars s Hin) as [H1 H2]. split; [exact H1|]. split; [exact H2|]. split.
  - constructor.
    + apply trim_tight, nonspace_ends_of; assumption.
    + destruct s as [|c r]; [congruence|]. exists c, r. inversion Hall; inversion Hns; subst.
      split; [reflexivity|]. split; [apply idc_not_bang; assumption | assumption].
    + destruct (exists_last Hne) as (m & d & ->). exists m, d. split; [reflexivity|].
      apply Forall_app in Hns. destruct Hns as [_ Hd]. inversion Hd; assumption.
  - rewrite <- (app_nil_r s). apply bal_plain_run; [|constructor].
    eapply Forall_impl; [|exact Hall]. intros c0 Hc0. apply id_continue_plain. exact Hc0.
Qed.

Lemma str_lit_shape s : Forall safe s ->
  allq [IGroup (34%N :: s ++ [34%N])] /\ flat [IGroup (34%N :: s ++ [34%N])] = 34%N :: s ++ [34%N] /\
  tight_text (34%N :: s ++ [34%N]) /\ bal (34%N :: s ++ [34%N]).
Proof.
  intros Hs. split; [constructor; [apply good_group_str; exact Hs | constructor]|].
  split; [cbn [flat item_bytes]; apply app_nil_r|]. split.
  - constructor.
    + apply trim_tight. exists 34%N, s, 34%N. repeat split; auto.
    + exists 34%N, (s ++ [34%N]). repeat split; auto.
    + exists (34%N :: s), 34%N. repeat split; auto.
  - apply (bal_str s []); [exact Hs | constructor].
Qed.

(* the text of a negative literal: - and at most 14 digits *)
Lemma neg_text_spec n : (-100000000000000 < n)%Z -> (n < 0)%Z ->
  exists ds, dec_of_Z n = 45%N :: ds /\ Forall (fun c => isdigit c = true) ds /\ 1 <= length ds <= 14 /\
    all_digits_val ds 0%Z = Some (- n)%Z.
Proof.
  intros H1 H2. rewrite dec_of_Z_neg by exact H2.
  destruct (dec_of_Z_spec_k (- n) 14) as (ds & Hds & Hall & Hlen & Hk & Hv); [split; [lia|]; change (10 ^ 14)%Z with 100000000000000%Z; lia | lia |].
  exists ds. rewrite Hds. repeat split; auto; lia.
Qed.

Lemma neg_text_bal n : (-100000000000000 < n)%Z -> (n < 0)%Z -> bal (dec_of_Z n).
Proof.
  intros H1 H2. destruct (neg_text_spec n H1 H2) as (ds & -> & Hall & _).
  apply bal_plain; [reflexivity|]. rewrite <- (app_nil_r ds). apply bal_plain_run; [|constructor].
  eapply Forall_impl; [|exact Hall]. intros c Hc. apply id_continue_plain, isdigit_id_continue. exact Hc.
Qed.

Lemma paren_shape x : bal x ->
  allq [IGroup (40%N :: x ++ [41%N])] /\ flat [IGroup (40%N :: x ++ [41%N])] = 40%N :: x ++ [41%N] /\
  tight_text (40%N :: x ++ [41%N]) /\ bal (40%N :: x ++ [41%N]).
Proof.
  intros Hx. split; [constructor; [apply good_group_paren; exact Hx | constructor]|].
  split; [cbn [flat item_bytes]; apply app_nil_r|]. split.
  - constructor.
    + apply trim_tight. exists 40%N, x, 41%N. repeat split; auto.
    + exists 40%N, (x ++ [41%N]). repeat split; auto.
    + exists (40%N :: x), 41%N. repeat split; auto.
  - apply (bal_paren x []); [exact Hx | constructor].
Qed.

Lemma atom_shape a : wf_atom a = true ->
  allq (atom_items a) /\ flat (atom_items a) = print_atom a /\ tight_text (print_atom a) /\ bal (print_atom a).
Proof.
  intros H. unfold atom_items. destruct (group_atom a) eqn:Hg.
  - destruct a as [nm|n|s|b|]; cbn [group_atom] in Hg; try discriminate.
    + cbn [print_atom wf_atom] in *. rewrite Hg. apply paren_shape.
      apply andb_true_iff in H. destruct H as [H1 H2]. apply neg_text_bal; lia.
    + cbn [print_atom wf_atom] in *. apply str_lit_shape. apply forallb_Forall. exact H.
  - destruct (atom_chars_idc a H Hg) as [Hall Hne]. apply idc_text_shape; assumption.
Qed.

Section Main.
Context {F : Type} (O : oracle F) (obj : eobj F).
Variable rec : N -> bool -> bytes -> R F.
Variable st : N.
Notation V := (evalue F).
Notation EA := (eval_auto F O obj rec st).

Lemma operand_trim_eq n next it (lft : V) op e1 e2 :
  trim e1 = trim e2 -> operand F O obj n next it lft op e1 = operand F O obj n next it lft op e2.
Proof. intros H. unfold operand. rewrite H. reflexivity. Qed.

(* the operand functions on a tight text that does not start with '!' *)
Lemma operand_nobang n next it (lft : V) op s :
  tight_text s ->
  operand F O obj n next it lft op s =
    rbind F (next it s) (fun rgt => lift F (apply_op F O obj n op lft rgt)).
Proof.
  intros [Ht (c & r & Hs & Hb & _) _]. unfold operand. rewrite Ht.
  destruct (n =? 4).
  - rewrite Hs. cbn [strip_bangs length]. rewrite Hb. cbn [negb bind]. reflexivity.
  - rewrite Hs. reflexivity.
Qed.

Lemma rbind_lift (r : res V) (f : V -> res V) :
  rbind F (lift F r) (fun x => lift F (f x)) = lift F (do x <- r; f x).
Proof.
  unfold rbind, lift, ret. destruct r as [x| | | |]; cbn [bind]; try reflexivity.
  destruct (f x) as [y| | | |]; cbn [bind app]; reflexivity.
Qed.

Lemma lift_pair_bind (ra : res V) (g : V -> R F) (rb : V -> res V) :
  (forall x, g x = lift F (rb x)) ->
  (do ve <- lift F ra; let '(a, em1) := ve in do we <- g a; let '(b, em2) := we in Ok (b, em1 ++ em2))
  = lift F (do x <- ra; rb x).
Proof.
  intros Hg. unfold lift, ret. destruct ra as [x| | | |]; cbn [bind]; try reflexivity.
  rewrite Hg. unfold lift, ret. destruct (rb x) as [y| | | |]; cbn [bind app]; reflexivity.
Qed.

(* level n does nothing on the top-level items l of e *)
Definition level_quiet (n : nat) (e : bytes) (l : list item) : Prop :=
  if n =? 11 then cquiet (fun c => (c =? 44)%N) l
  else if n =? 10 then cquiet (fun c => ((c =? 63) || (c =? 58))%N) l
  else if n =? 2 then cquiet (fun c => ((c =? 45) || (c =? 43))%N) l
  else quiet_from n e 0 l.

Lemma eval_auto_down_k l e c r lo :
  e = flat l -> e = c :: r -> trim e = e ->
  forall k,
  (forall n, lo < n -> n <= lo + k -> (n =? 4) && (c =? 33)%N = false) ->
  (forall n, lo < n -> n <= lo + k -> level_quiet n e l) ->
  EA (lo + k) false e = EA lo false e.
Proof.
  intros He Hc Ht. induction k as [|k IH]; intros Hbang Hq; [rewrite Nat.add_0_r; reflexivity|].
  assert (IH' : EA (lo + k) false e = EA lo false e).
  { apply IH; intros n H1 H2; [apply Hbang | apply Hq]; lia. }
  replace (lo + S k) with (S (lo + k)) by lia.
  rewrite eval_auto_S. destruct (has_step st (S (lo + k))); [|exact IH'].
  rewrite level_scan_cases.
  pose proof (Hq (S (lo + k)) ltac:(lia) ltac:(lia)) as Hl. unfold level_quiet in Hl.
  destruct (S (lo + k) =? 11).
  { rewrite scan_comma_transparent with (l := l); auto. }
  destruct (S (lo + k) =? 10).
  { rewrite scan_terns_transparent with (l := l); auto. }
  destruct (S (lo + k) =? 2).
  { rewrite scan_sums_transparent with (l := l); auto. rewrite Hc. discriminate. }
  rewrite scan_level_transparent with (l := l); auto.
  rewrite bind_pair_id.
  pose proof (Hbang (S (lo + k)) ltac:(lia) ltac:(lia)) as Hb.
  unfold operand. rewrite Ht.
  destruct (S (lo + k) =? 4).
  - cbn [andb] in Hb. rewrite Hc. cbn [strip_bangs length]. rewrite Hb. cbn [negb bind].
    rewrite <- Hc. unfold rbind. rewrite IH'.
    destruct (EA lo false e) as [[v em]| | | |]; cbn [bind]; try reflexivity.
    rewrite apply_op_zero. unfold lift, ret. cbn [bind]. rewrite app_nil_r. reflexivity.
  - rewrite Hc. rewrite <- Hc. unfold rbind. rewrite IH'.
    destruct (EA lo false e) as [[v em]| | | |]; cbn [bind]; try reflexivity.
    rewrite apply_op_zero. unfold lift, ret. cbn [bind]. rewrite app_nil_r. reflexivity.
Qed.

Lemma eval_auto_down l e c r lo :
  e = flat l -> e = c :: r -> trim e = e ->
  (forall n, lo < n -> (n =? 4) && (c =? 33)%N = false) ->
  (forall n, lo < n -> level_quiet n e l) ->
  forall k, EA (lo + k) false e = EA lo false e.
Proof.
  intros He Hc Ht Hbang Hq k. apply (eval_auto_down_k l e c r lo He Hc Ht k); intros n H1 _; auto.
Qed.

Lemma allq_level_quiet l e n : allq l -> level_quiet n e l.
Proof.
  intros Hq. unfold level_quiet.
  destruct (n =? 11); [apply allq_cquiet; auto; intros c0 H0; apply (inert_facts c0 H0)|].
  destruct (n =? 10); [apply allq_cquiet; auto; intros c0 H0; apply (inert_facts c0 H0)|].
  destruct (n =? 2); [apply allq_cquiet; auto; intros c0 H0; apply (inert_facts c0 H0)|].
  apply allq_quiet_from. exact Hq.
Qed.

(* a text whose top level is inert bytes and groups goes straight to evalAtom *)
Lemma eval_auto_allq' l e :
  e = flat l -> allq l -> tight_text e -> forall n, EA n false e = eval_atom F O obj rec st false e.
Proof.
  intros He Hq [Ht (c & r & Hc & Hb & _) _] n.
  replace n with (0 + n) by lia. rewrite eval_auto_down with (l := l) (c := c) (r := r); auto.
  - intros m _. rewrite Hb. apply andb_false_r.
  - intros m _. apply allq_level_quiet. exact Hq.
Qed.

(* evalExpr on the text of a negative literal (what the callback has to deliver for (-5)) *)
Definition neg_ok : Prop :=
  forall n, (-100000000000000 < n)%Z -> (n < 0)%Z ->
    rec st false (dec_of_Z n) = ret F (VFloat F (f_mul F O (f_of_int F O (- n)%Z) (f_of_int F O (-1)%Z))).

(* atoms *)
Lemma eval_auto_atom a : wf_atom a = true -> neg_ok ->
  forall n, EA n false (print_atom a) = lift F (den_atom F O obj a).
Proof.
  intros H Hneg n. destruct (atom_shape a H) as (Hq & Hf & Ht & _).
  rewrite eval_auto_allq' with (l := atom_items a); auto.
  destruct a as [nm|z|s|b|]; cbn [print_atom den_atom wf_atom] in *.
  - apply eval_atom_ident. exact H.
  - apply andb_true_iff in H. destruct H as [H1 H2].
    destruct (z <? 0)%Z eqn:Ez.
    + rewrite eval_atom_paren by (apply neg_text_bal; lia). rewrite Hneg by lia. reflexivity.
    + apply eval_atom_num. lia.
  - apply eval_atom_str. apply forallb_Forall. exact H.
  - destruct b; reflexivity.
  - reflexivity.
Qed.

(* a parenthesised group *)
Lemma eval_auto_paren x : bal x ->
  forall n, EA n false (40%N :: x ++ [41%N]) = rec st false x.
Proof.
  intros Hx n.
  rewrite eval_auto_allq' with (l := [IGroup (40%N :: x ++ [41%N])]).
  - apply eval_atom_paren. exact Hx.
  - cbn [flat item_bytes]. rewrite app_nil_r. reflexivity.
  - constructor; [apply good_group_paren; exact Hx | constructor].
  - constructor.
    + apply trim_tight. exists 40%N, x, 41%N. repeat split; auto.
    + exists 40%N, (x ++ [41%N]). repeat split; auto.
    + exists (40%N :: x), 41%N. repeat split; auto.
Qed.

End Main.

(* ------------------------------------------------------------------ Part 5b: operators at top level *)

(* ctx.steps contains the step bits of every byte of s *)
Definition covers (st : N) (s : bytes) : Prop :=
  forall c, In c s -> N.land st (op_steps c) = op_steps c.

Lemma covers_app st a b : covers st (a ++ b) <-> covers st a /\ covers st b.
Proof.
  unfold covers. split.
  - intros H. split; intros c Hc; apply H; apply in_or_app; auto.
  - intros [Ha Hb] c Hc. apply in_app_or in Hc. destruct Hc; auto.
Qed.

Lemma covers_cons st c s : covers st (c :: s) <-> N.land st (op_steps c) = op_steps c /\ covers st s.
Proof.
  unfold covers. split.
  - intros H. split; [apply H; left; reflexivity | intros x Hx; apply H; right; exact Hx].
  - intros [Hc Hs] x [<-|Hx]; auto.
Qed.

Lemma land_sub st a b : N.land st a = a -> N.land a b = b -> N.land st b = b.
Proof. intros Ha Hb. rewrite <- Hb at 1. rewrite N.land_assoc, Ha. exact Hb. Qed.

Lemma has_step_sub st c n : N.land st (op_steps c) = op_steps c -> N.land (op_steps c) (step_bit n) = step_bit n ->
  has_step st n = true.
Proof. intros H1 H2. unfold has_step. apply N.eqb_eq. apply (land_sub st (op_steps c)); assumption. Qed.

Lemma land_lor_keep a b x : N.land a x = x -> N.land (N.lor a b) x = x.
Proof.
  intros H. apply N.bits_inj. intros k. rewrite N.land_spec, N.lor_spec.
  assert (Hk : N.testbit x k = N.testbit a k && N.testbit x k) by (rewrite <- N.land_spec, H; reflexivity).
  destruct (N.testbit x k).
  - rewrite andb_true_r in Hk. rewrite <- Hk. reflexivity.
  - rewrite !andb_false_r. reflexivity.
Qed.

Lemma land_lor_new a x : N.land (N.lor a x) x = x.
Proof.
  apply N.bits_inj. intros k. rewrite N.land_spec, N.lor_spec.
  destruct (N.testbit a k), (N.testbit x k); reflexivity.
Qed.

Lemma covers_steps_of s : covers (steps_of s) s.
Proof.
  unfold steps_of.
  assert (G : forall s acc c, (In c s \/ N.land acc (op_steps c) = op_steps c) ->
              N.land (fold_left (fun a x => N.lor a (op_steps x)) s acc) (op_steps c) = op_steps c).
  { induction s0 as [|x s0 IH]; intros acc c [Hin|Hacc]; cbn [fold_left].
    - contradiction.
    - exact Hacc.
    - destruct Hin as [<-|Hin]; apply IH; [right; apply land_lor_new | left; exact Hin].
    - apply IH. right. apply land_lor_keep. exact Hacc. }
  intros c Hc. apply G. left. exact Hc.
Qed.

(* recog at a position given by a decomposition of e *)
Lemma recog3 pre c c1 post :
  (c = 60 \/ c = 62)%N ->
  recog 3 (pre ++ c :: c1 :: post) (length pre) c =
    Ok (if (c1 =? 61)%N then ASplit (c + 32)%N 2 else ASplit c 1).
Proof.
  intros Hc. cbn [recog].
  replace ((c =? 60) || (c =? 62))%N with true by (destruct Hc; subst; reflexivity).
  replace (length pre <? length (pre ++ c :: c1 :: post) - 1) with true
    by (symmetry; apply Nat.ltb_lt; rewrite app_length; cbn [length]; lia).
  replace (S (length pre)) with (length pre + 1) by lia. rewrite bat_app_r. cbn [bat nth_error opt_panic bind].
  destruct (c1 =? 61)%N; reflexivity.
Qed.

Lemma recog4_after_lt pre p post :
  (p = 60 \/ p = 62)%N -> recog 4 ((pre ++ [p]) ++ 61%N :: post) (length (pre ++ [p])) 61%N = Ok ANone.
Proof.
  intros Hp. cbn [recog]. replace (61 =? 61)%N with true by reflexivity.
  replace (0 <? length (pre ++ [p])) with true by (symmetry; apply Nat.ltb_lt; rewrite app_length; cbn; lia).
  rewrite bat_pred_app_last. cbn [opt_panic bind].
  replace ((p =? 62) || (p =? 60))%N with true by (destruct Hp; subst; reflexivity). reflexivity.
Qed.

Lemma recog4_eq pre p c2 post :
  (p =? 62)%N = false -> (p =? 60)%N = false -> (c2 =? 61)%N = false ->
  recog 4 ((pre ++ [p]) ++ 61%N :: 61%N :: c2 :: post) (length (pre ++ [p])) 61%N = Ok (ASplit 61%N 2).
Proof.
  intros H1 H2 H3. cbn [recog]. replace (61 =? 61)%N with true by reflexivity.
  replace (0 <? length (pre ++ [p])) with true by (symmetry; apply Nat.ltb_lt; rewrite app_length; cbn; lia).
  rewrite bat_pred_app_last. cbn [opt_panic bind]. rewrite H1, H2. cbn [orb].
  replace (length (pre ++ [p]) =? length ((pre ++ [p]) ++ 61%N :: 61%N :: c2 :: post) - 1) with false
    by (symmetry; apply Nat.eqb_neq; rewrite !app_length; cbn [length]; lia).
  replace (S (length (pre ++ [p]))) with (length (pre ++ [p]) + 1) by lia. rewrite bat_app_r.
  cbn [bat nth_error opt_panic bind]. replace (61 =? 61)%N with true by reflexivity.
  replace (61 =? 126)%N with false by reflexivity. cbn [negb andb].
  replace (length (pre ++ [p]) + 2 <? length ((pre ++ [p]) ++ 61%N :: 61%N :: c2 :: post)) with true
    by (symmetry; apply Nat.ltb_lt; rewrite !app_length; cbn [length]; lia).
  rewrite bat_app_r. cbn [bat nth_error opt_panic bind]. rewrite H3. reflexivity.
Qed.

Lemma recog4_ne pre c2 post :
  (c2 =? 61)%N = false ->
  recog 4 (pre ++ 33%N :: 61%N :: c2 :: post) (length pre) 33%N = Ok (ASplit 33%N 2).
Proof.
  intros H3. cbn [recog]. replace (33 =? 61)%N with false by reflexivity. replace (33 =? 33)%N with true by reflexivity.
  replace (length pre =? length (pre ++ 33%N :: 61%N :: c2 :: post) - 1) with false
    by (symmetry; apply Nat.eqb_neq; rewrite !app_length; cbn [length]; lia).
  replace (S (length pre)) with (length pre + 1) by lia. rewrite bat_app_r.
  cbn [bat nth_error opt_panic bind]. replace (61 =? 61)%N with true by reflexivity. cbn [negb].
  replace (length pre + 2 <? length (pre ++ 33%N :: 61%N :: c2 :: post)) with true
    by (symmetry; apply Nat.ltb_lt; rewrite !app_length; cbn [length]; lia).
  rewrite bat_app_r. cbn [bat nth_error opt_panic bind]. rewrite H3. reflexivity.
Qed.

Lemma recog4_bang c1 post : (c1 =? 61)%N = false -> recog 4 (33%N :: c1 :: post) 0 33%N = Ok ANone.
Proof.
  intros H. cbn [recog length bat nth_error opt_panic bind Nat.eqb Nat.sub].
  replace (33 =? 61)%N with false by reflexivity. replace (33 =? 33)%N with true by reflexivity.
  rewrite H. reflexivity.
Qed.

Lemma recog8 pre post : recog 8 (pre ++ 38%N :: 38%N :: post) (length pre) 38%N = Ok (ASplit 38%N 2).
Proof.
  cbn [recog]. replace (38 =? 38)%N with true by reflexivity.
  replace (S (length pre) =? length (pre ++ 38%N :: 38%N :: post)) with false
    by (symmetry; apply Nat.eqb_neq; rewrite !app_length; cbn [length]; lia).
  replace (S (length pre)) with (length pre + 1) by lia. rewrite bat_app_r. reflexivity.
Qed.

Lemma recog9 pre post : recog 9 (pre ++ 124%N :: 124%N :: post) (length pre) 124%N = Ok (ASplit 124%N 2).
Proof.
  cbn [recog]. replace (124 =? 63)%N with false by reflexivity. replace (124 =? 124)%N with true by reflexivity.
  replace (S (length pre) =? length (pre ++ 124%N :: 124%N :: post)) with false
    by (symmetry; apply Nat.eqb_neq; rewrite !app_length; cbn [length]; lia).
  replace (S (length pre)) with (length pre + 1) by lia. rewrite bat_app_r. reflexivity.
Qed.

Lemma quiet_from_app n e : forall l1 i l2,
  quiet_from n e i l1 -> quiet_from n e (i + length (flat l1)) l2 -> quiet_from n e i (l1 ++ l2).
Proof.
  induction l1 as [|x l1 IH]; intros i l2 H1 H2; cbn [app flat length] in *.
  - rewrite Nat.add_0_r in H2. exact H2.
  - inversion H1 as [|? c r Ho Hr Hq|? g r Hg Hq]; subst.
    + constructor; auto. apply IH; auto. cbn [item_bytes app length] in H2.
      replace (S i + length (flat l1)) with (i + S (length (flat l1))) by lia. exact H2.
    + constructor; auto. apply IH; auto. cbn [item_bytes] in H2. rewrite app_length in H2.
      replace (i + length g + length (flat l1)) with (i + (length g + length (flat l1))) by lia. exact H2.
Qed.

(* plain bytes for level n: not an opener, no trigger of the level *)
Lemma quiet_from_plain n e cs : Forall (fun c => is_opener c = false /\ trigger n c = false) cs ->
  forall i, quiet_from n e i (map IChar cs).
Proof.
  induction 1 as [|c cs [Ho Ht] Hcs IH]; intros i; cbn [map]; constructor; auto.
  apply recog_untriggered. exact Ht.
Qed.

Lemma cquiet_app P l1 l2 : cquiet P l1 -> cquiet P l2 -> cquiet P (l1 ++ l2).
Proof. intros H1 H2. apply Forall_app. split; assumption. Qed.

Lemma cquiet_plain P cs : Forall (fun c => is_opener c = false /\ P c = false) cs -> cquiet P (map IChar cs).
Proof. induction 1; cbn [map]; constructor; auto. Qed.

Definition cmp_level (op : cmpop) : nat := match op with CEq | CNe => 4 | _ => 3 end.
Definition cmp_opch (op : cmpop) : N :=
  match op with CLt => 60 | CLe => 92 | CGt => 62 | CGe => 94 | CEq => 61 | CNe => 33 end%N.
Definition cmp_head (op : cmpop) : N :=
  match op with CLt | CLe => 60 | CGt | CGe => 62 | CEq => 61 | CNe => 33 end%N.

Lemma cmp_recog op pre post :
  recog (cmp_level op) ((pre ++ [32%N]) ++ print_cmp op ++ 32%N :: post) (length (pre ++ [32%N])) (cmp_head op)
  = Ok (ASplit (cmp_opch op) (length (print_cmp op))).
Proof.
  destruct op; cbn [cmp_level print_cmp cmp_head cmp_opch app length].
  - rewrite recog3 by auto. reflexivity.
  - rewrite recog3 by auto. reflexivity.
  - rewrite recog3 by auto. reflexivity.
  - rewrite recog3 by auto. reflexivity.
  - apply recog4_eq; reflexivity.
  - apply recog4_ne; reflexivity.
Qed.

Lemma cmp_chars_plain op n : cmp_level op < n -> n <> 4 ->
  Forall (fun c => is_opener c = false /\ trigger n c = false) (print_cmp op).
Proof.
  intros Hn H4.
  assert (T : forall c, In c [60; 62; 61; 33]%N -> is_opener c = false /\ trigger n c = false).
  { intros c Hc. cbn [In] in Hc.
    destruct n as [|[|[|[|[|[|[|[|[|[|n]]]]]]]]]]; cbn [trigger]; try (destruct op; cbn in Hn; lia);
      repeat (destruct Hc as [<-|Hc]; [split; reflexivity|]); contradiction. }
  destruct op; cbn [print_cmp]; repeat constructor; apply T; cbn; tauto.
Qed.

Lemma cmp_chars_quiet4 op pre post : cmp_level op = 3 ->
  quiet_from 4 (pre ++ print_cmp op ++ post) (length pre) (map IChar (print_cmp op)).
Proof.
  intros H3. destruct op; try discriminate; cbn [print_cmp map app].
  - constructor; [reflexivity | apply recog_untriggered; reflexivity | constructor].
  - constructor; [reflexivity | apply recog_untriggered; reflexivity |].
    constructor; [reflexivity | | constructor].
    replace (pre ++ 60%N :: 61%N :: post) with ((pre ++ [60%N]) ++ 61%N :: post) by (rewrite <- app_assoc; reflexivity).
    replace (S (length pre)) with (length (pre ++ [60%N])) by (rewrite app_length; cbn; lia).
    apply recog4_after_lt. auto.
  - constructor; [reflexivity | apply recog_untriggered; reflexivity | constructor].
  - constructor; [reflexivity | apply recog_untriggered; reflexivity |].
    constructor; [reflexivity | | constructor].
    replace (pre ++ 62%N :: 61%N :: post) with ((pre ++ [62%N]) ++ 61%N :: post) by (rewrite <- app_assoc; reflexivity).
    replace (S (length pre)) with (length (pre ++ [62%N])) by (rewrite app_length; cbn; lia).
    apply recog4_after_lt. auto.
Qed.

Lemma cmp_chars_c P op : P 60%N = false -> P 62%N = false -> P 61%N = false -> P 33%N = false ->
  Forall (fun c => is_opener c = false /\ P c = false) (print_cmp op).
Proof. intros. destruct op; cbn [print_cmp]; repeat constructor; assumption. Qed.

Lemma cmp_head_spec op : exists t, print_cmp op = cmp_head op :: t /\ is_opener (cmp_head op) = false.
Proof. destruct op; cbn; eexists; split; reflexivity. Qed.

Section Main2.
Context {F : Type} (O : oracle F) (obj : eobj F).
Variable rec : N -> bool -> bytes -> R F.
Variable st : N.
Notation V := (evalue F).
Notation EA := (eval_auto F O obj rec st).

Lemma cmp_apply op (x y : V) : apply_op F O obj (cmp_level op) (cmp_opch op) x y = den_cmp F O obj op x y.
Proof. destruct op; reflexivity. Qed.

Lemma allq_snoc_space l : allq l -> allq (l ++ [IChar 32%N]).
Proof. intros H. apply Forall_app. split; [exact H | constructor; [reflexivity | constructor]]. Qed.

Lemma allq_cons_space l : allq l -> allq (IChar 32%N :: l).
Proof. intros H. constructor; [reflexivity | exact H]. Qed.

Lemma tight_concat a mid b : tight_text a -> tight_text b -> tight_text (a ++ mid ++ b).
Proof.
  intros [_ (c & r & Ha & Hb1 & Hs1) _] [_ _ (m & d & Hb & Hd)].
  assert (Hends : nonspace_ends (a ++ mid ++ b)).
  { exists c, (r ++ mid ++ m), d. split; [right|split; assumption].
    rewrite Ha, Hb. cbn [app]. rewrite <- !app_assoc. reflexivity. }
  constructor.
  - apply trim_tight. exact Hends.
  - exists c, (r ++ mid ++ b). rewrite Ha. repeat split; auto.
  - exists (a ++ mid ++ m), d. rewrite Hb. rewrite <- !app_assoc. repeat split; auto.
Qed.

(* a comparison of two atoms *)
Lemma eval_auto_cmp op a b :
  wf_atom a = true -> wf_atom b = true -> neg_ok O rec st -> covers st (print (BCmp op a b)) ->
  EA 11 false (print (BCmp op a b)) = lift F (den F O obj (BCmp op a b)).
Proof.
  intros Ha Hb Hneg Hcov.
  destruct (atom_shape a Ha) as (Hqa & Hfa & Hta & _).
  destruct (atom_shape b Hb) as (Hqb & Hfb & Htb & _).
  set (pa := print_atom a) in *. set (pb := print_atom b) in *.
  set (pop := print_cmp op). set (L := cmp_level op).
  set (l1 := atom_items a ++ [IChar 32%N]). set (l2 := IChar 32%N :: atom_items b).
  set (e := print (BCmp op a b)).
  assert (Hf1 : flat l1 = pa ++ [32%N]) by (unfold l1; rewrite flat_app, Hfa; reflexivity).
  assert (Hf2 : flat l2 = 32%N :: pb) by (unfold l2; cbn [flat item_bytes app]; rewrite Hfb; reflexivity).
  assert (He : e = flat l1 ++ pop ++ flat l2).
  { unfold e. cbn [print]. rewrite Hf1, Hf2. fold pa pb pop. rewrite <- app_assoc. reflexivity. }
  assert (Hel : e = flat (l1 ++ map IChar pop ++ l2)).
  { rewrite He, !flat_app. f_equal. f_equal. clear. induction pop as [|c s IH]; cbn [map flat item_bytes app]; congruence. }
  assert (Ht : tight_text e).
  { unfold e. cbn [print]. fold pa pb pop.
    replace (pa ++ 32%N :: pop ++ 32%N :: pb) with (pa ++ (32%N :: pop ++ [32%N]) ++ pb)
      by (cbn [app]; rewrite <- !app_assoc; reflexivity).
    apply tight_concat; assumption. }
  destruct Ht as [Htrim (c & r & Hc & Hbang & _) _].
  assert (HL : L = 3 \/ L = 4) by (unfold L; destruct op; cbn; auto).
  (* the levels above L *)
  replace 11 with (L + (11 - L)) by lia.
  rewrite eval_auto_down with (l := l1 ++ map IChar pop ++ l2) (c := c) (r := r); auto.
  2:{ intros n _. rewrite Hbang. apply andb_false_r. }
  2:{ intros n Hn. unfold level_quiet.
      destruct (Nat.eqb_spec n 11) as [E|E].
      { apply cquiet_app; [apply allq_cquiet; [|apply allq_snoc_space; exact Hqa]; intros c0 H0; apply (inert_facts c0 H0)|].
        apply cquiet_app; [apply cquiet_plain, cmp_chars_c; reflexivity|].
        apply allq_cquiet; [|apply allq_cons_space; exact Hqb]. intros c0 H0. apply (inert_facts c0 H0). }
      destruct (Nat.eqb_spec n 10) as [E0|E0].
      { apply cquiet_app; [apply allq_cquiet; [|apply allq_snoc_space; exact Hqa]; intros c0 H0; apply (inert_facts c0 H0)|].
        apply cquiet_app; [apply cquiet_plain, cmp_chars_c; reflexivity|].
        apply allq_cquiet; [|apply allq_cons_space; exact Hqb]. intros c0 H0. apply (inert_facts c0 H0). }
      destruct (Nat.eqb_spec n 2) as [E2|E2]; [lia|].
      apply quiet_from_app; [apply allq_quiet_from, allq_snoc_space; exact Hqa|].
      apply quiet_from_app; [|apply allq_quiet_from, allq_cons_space; exact Hqb].
      cbn [Nat.add]. destruct (Nat.eq_dec n 4) as [E4|E4].
      - subst n. rewrite He. apply cmp_chars_quiet4. unfold L in *. lia.
      - apply quiet_from_plain. apply cmp_chars_plain; [exact Hn | exact E4]. }
  (* level L itself *)
  assert (Hstep : has_step st L = true).
  { destruct (cmp_head_spec op) as (t & Hp & _).
    assert (Hin : In (cmp_head op) e).
    { rewrite He. apply in_or_app. right. apply in_or_app. left. fold pop in Hp. rewrite Hp. left. reflexivity. }
    apply (has_step_sub st (cmp_head op)); [apply Hcov; exact Hin|].
    unfold L. destruct op; reflexivity. }
  destruct L as [|L'] eqn:EL; [lia|].
  rewrite eval_auto_S, Hstep, level_scan_cases.
  replace (S L' =? 11) with false by (symmetry; apply Nat.eqb_neq; lia).
  replace (S L' =? 10) with false by (symmetry; apply Nat.eqb_neq; lia).
  replace (S L' =? 2) with false by (symmetry; apply Nat.eqb_neq; lia).
  destruct (cmp_head_spec op) as (t & Hp & Hno).
  rewrite scan_level_binop with (l1 := l1) (opb := pop) (l2 := l2) (c := cmp_head op) (opch := cmp_opch op); auto.
  - (* the two operands *)
    subst pa pb.
    rewrite (operand_trim_eq O obj _ _ _ _ _ (flat l1) (print_atom a)) by (rewrite Hf1; apply trim_app_space).
    rewrite operand_nobang by exact Hta.
    rewrite eval_auto_atom by assumption.
    assert (E1 : rbind F (lift F (den_atom F O obj a)) (fun rgt => lift F (apply_op F O obj (S L') 0%N (VUndef F) rgt))
                 = lift F (den_atom F O obj a)).
    { rewrite rbind_lift. f_equal. destruct (den_atom F O obj a); cbn [bind]; try reflexivity. apply apply_op_zero. }
    rewrite E1. apply lift_pair_bind. intros x.
    rewrite (operand_trim_eq O obj _ _ _ _ _ (flat l2) (print_atom b)) by (rewrite Hf2; apply trim_space_l).
    rewrite operand_nobang by exact Htb.
    rewrite eval_auto_atom by assumption.
    rewrite rbind_lift. f_equal.
    destruct (den_atom F O obj b) as [y| | | |]; cbn [bind]; try reflexivity.
    rewrite <- EL. apply cmp_apply.
  - apply allq_quiet_from, allq_snoc_space. exact Hqa.
  - fold pop in Hp. rewrite Hp. reflexivity.
  - rewrite He, Hf1, Hf2. rewrite <- EL. apply cmp_recog.
  - apply allq_quiet_from, allq_cons_space. exact Hqb.
Qed.

End Main2.

Section Main3.
Context {F : Type} (O : oracle F) (obj : eobj F).
Variable rec : N -> bool -> bytes -> R F.
Variable st : N.
Notation V := (evalue F).
Notation EA := (eval_auto F O obj rec st).

Definition paren (x : bytes) : bytes := 40%N :: x ++ [41%N].

Lemma paren_tight x : tight_text (paren x).
Proof.
  constructor.
  - apply trim_tight. exists 40%N, x, 41%N. repeat split; auto.
  - exists 40%N, (x ++ [41%N]). repeat split; auto.
  - exists (40%N :: x), 41%N. repeat split; auto.
Qed.

(* !(X) *)
Lemma eval_auto_not x (rx : res V) :
  bal x -> rec st false x = lift F rx -> covers st (33%N :: paren x) ->
  EA 11 false (33%N :: paren x) =
    lift F (do v <- rx;
            do b <- (match v with VBool _ b => Ok b | _ => to_bool F O obj v end);
            Ok (VBool F (negb b))).
Proof.
  intros Hx Hrec Hcov.
  set (e := 33%N :: paren x). set (l := [IChar 33%N; IGroup (paren x)]).
  assert (He : e = flat l) by (unfold e, l; cbn [flat item_bytes app]; rewrite app_nil_r; reflexivity).
  assert (Htrim : trim e = e).
  { apply trim_tight. exists 33%N, (40%N :: x), 41%N. repeat split; auto. }
  assert (Hg : good_group (paren x)) by (apply good_group_paren; exact Hx).
  replace 11 with (4 + 7) by reflexivity.
  rewrite eval_auto_down with (l := l) (c := 33%N) (r := paren x); auto.
  2:{ intros n Hn. replace (n =? 4) with false by (symmetry; apply Nat.eqb_neq; lia). reflexivity. }
  2:{ intros n Hn. unfold level_quiet.
      destruct (Nat.eqb_spec n 11);
        [unfold l; apply Forall_cons; [split; reflexivity | apply Forall_cons; [exact Hg | apply Forall_nil]]|].
      destruct (Nat.eqb_spec n 10);
        [unfold l; apply Forall_cons; [split; reflexivity | apply Forall_cons; [exact Hg | apply Forall_nil]]|].
      destruct (Nat.eqb_spec n 2); [lia|].
      unfold l. apply q_char; [reflexivity | | apply q_group; [exact Hg | apply q_nil]].
      apply recog_untriggered.
      destruct n as [|[|[|[|[|[|[|[|[|[|n]]]]]]]]]]; try lia; reflexivity. }
  assert (Hstep : has_step st 4 = true).
  { apply (has_step_sub st 33%N); [apply Hcov; left; reflexivity | reflexivity]. }
  rewrite eval_auto_S, Hstep, level_scan_cases. cbn [Nat.eqb].
  rewrite scan_level_transparent with (l := l); auto.
  2:{ unfold l. apply q_char; [reflexivity | apply recog4_bang; reflexivity |].
      apply q_group; [exact Hg | apply q_nil]. }
  rewrite bind_pair_id. unfold operand. rewrite Htrim. cbn [Nat.eqb].
  assert (Hsb : strip_bangs (S (length e)) e false false = Ok (true, true, paren x)).
  { unfold e. cbn [strip_bangs length]. replace (33 =? 33)%N with true by reflexivity. cbn [negb].
    rewrite (tt_trim _ (paren_tight x)). unfold paren. cbn [strip_bangs app].
    replace (40 =? 33)%N with false by reflexivity. reflexivity. }
  rewrite Hsb. cbn [bind]. unfold paren.
  rewrite eval_auto_paren by exact Hx. rewrite Hrec.
  unfold rbind, lift, ret. destruct rx as [v| | | |]; cbn [bind]; try reflexivity.
  destruct (match v with VBool _ b => Ok b | _ => to_bool F O obj v end) as [b| | | |]; cbn [bind]; reflexivity.
Qed.

(* (X) && (Y)   and   (X) || (Y) *)
Lemma eval_auto_logic (isand : bool) x y (rx ry : res V) :
  let oc := if isand then 38%N else 124%N in
  let e := paren x ++ [32%N; oc; oc; 32%N] ++ paren y in
  bal x -> bal y -> rec st false x = lift F rx -> rec st false y = lift F ry -> covers st e ->
  EA 11 false e =
    lift F (do a <- rx; do b <- ry; if isand then op_and F O obj a b else op_or F O obj a b).
Proof.
  intros oc e Hx Hy Hrx Hry Hcov.
  set (L := if isand then 8 else 9).
  set (l1 := [IGroup (paren x); IChar 32%N]). set (l2 := [IChar 32%N; IGroup (paren y)]).
  assert (Hgx : good_group (paren x)) by (apply good_group_paren; exact Hx).
  assert (Hgy : good_group (paren y)) by (apply good_group_paren; exact Hy).
  assert (Hf1 : flat l1 = paren x ++ [32%N]) by reflexivity.
  assert (Hf2 : flat l2 = 32%N :: paren y) by (unfold l2; cbn [flat item_bytes app]; rewrite app_nil_r; reflexivity).
  assert (He : e = flat l1 ++ [oc; oc] ++ flat l2).
  { unfold e. rewrite Hf1, Hf2. rewrite <- app_assoc. reflexivity. }
  assert (Hel : e = flat (l1 ++ map IChar [oc; oc] ++ l2)).
  { rewrite He, !flat_app. reflexivity. }
  assert (Ht : tight_text e).
  { unfold e. apply tight_concat; apply paren_tight. }
  destruct Ht as [Htrim (c & r & Hc & Hbang & _) _].
  assert (Hq1 : allq l1)
    by (unfold l1, allq; apply Forall_cons; [exact Hgx | apply Forall_cons; [reflexivity | apply Forall_nil]]).
  assert (Hq2 : allq l2)
    by (unfold l2, allq; apply Forall_cons; [reflexivity | apply Forall_cons; [exact Hgy | apply Forall_nil]]).
  assert (Hoc : is_opener oc = false /\ (oc =? 44)%N = false /\ ((oc =? 63) || (oc =? 58))%N = false)
    by (unfold oc; destruct isand; repeat split; reflexivity).
  destruct Hoc as (Ho1 & Ho2 & Ho3).
  replace 11 with (L + (11 - L)) by (unfold L; destruct isand; reflexivity).
  rewrite eval_auto_down with (l := l1 ++ map IChar [oc; oc] ++ l2) (c := c) (r := r); auto.
  2:{ intros n _. rewrite Hbang. apply andb_false_r. }
  2:{ intros n Hn. unfold level_quiet.
      destruct (Nat.eqb_spec n 11).
      { apply cquiet_app; [apply allq_cquiet; auto; intros c0 H0; apply (inert_facts c0 H0)|].
        apply cquiet_app; [repeat constructor; auto|].
        apply allq_cquiet; auto. intros c0 H0. apply (inert_facts c0 H0). }
      destruct (Nat.eqb_spec n 10).
      { apply cquiet_app; [apply allq_cquiet; auto; intros c0 H0; apply (inert_facts c0 H0)|].
        apply cquiet_app; [repeat constructor; auto|].
        apply allq_cquiet; auto. intros c0 H0. apply (inert_facts c0 H0). }
      destruct (Nat.eqb_spec n 2); [unfold L in Hn; destruct isand; lia|].
      apply quiet_from_app; [apply allq_quiet_from; exact Hq1|].
      apply quiet_from_app; [|apply allq_quiet_from; exact Hq2].
      apply quiet_from_plain.
      assert (Htr : trigger n oc = false).
      { unfold L, oc in *. destruct isand;
          destruct n as [|[|[|[|[|[|[|[|[|[|[|[|n]]]]]]]]]]]]; try lia; try reflexivity; congruence. }
      repeat constructor; auto. }
  assert (Hstep : has_step st L = true).
  { apply (has_step_sub st oc).
    - apply Hcov. unfold e. apply in_or_app. right. right. left. reflexivity.
    - unfold L, oc. destruct isand; reflexivity. }
  assert (HLS : exists L', L = S L' /\ (L =? 11) = false /\ (L =? 10) = false /\ (L =? 2) = false)
    by (unfold L; destruct isand; eexists; repeat split; reflexivity).
  destruct HLS as (L' & EL & N11 & N10 & N2).
  rewrite EL, eval_auto_S. rewrite <- EL. rewrite Hstep, level_scan_cases, N11, N10, N2.
  rewrite scan_level_binop with (l1 := l1) (opb := [oc; oc]) (l2 := l2) (c := oc) (opch := oc); auto.
  - rewrite (operand_trim_eq O obj _ _ _ _ _ (flat l1) (paren x)) by (rewrite Hf1; apply trim_app_space).
    rewrite operand_nobang by apply paren_tight.
    rewrite EL. cbn [Nat.sub]. rewrite <- EL.
    assert (Hnx : forall m, EA m false (paren x) = lift F rx)
      by (intros m; unfold paren; rewrite eval_auto_paren by exact Hx; exact Hrx).
    assert (Hny : forall m, EA m false (paren y) = lift F ry)
      by (intros m; unfold paren; rewrite eval_auto_paren by exact Hy; exact Hry).
    rewrite Hnx.
    assert (E1 : rbind F (lift F rx) (fun rgt => lift F (apply_op F O obj L 0%N (VUndef F) rgt)) = lift F rx).
    { rewrite rbind_lift. f_equal. destruct rx; cbn [bind]; try reflexivity. apply apply_op_zero. }
    rewrite E1. apply lift_pair_bind. intros a.
    rewrite (operand_trim_eq O obj _ _ _ _ _ (flat l2) (paren y)) by (rewrite Hf2; apply trim_space_l).
    rewrite operand_nobang by apply paren_tight.
    rewrite Hny. rewrite rbind_lift. f_equal.
    destruct ry as [b| | | |]; cbn [bind]; try reflexivity.
    unfold L, oc. destruct isand; reflexivity.
  - apply allq_quiet_from. exact Hq1.
  - rewrite He, Hf1, Hf2. unfold L, oc. destruct isand; cbn [app].
    + replace ((paren x ++ [32%N]) ++ 38%N :: 38%N :: 32%N :: paren y)
        with ((paren x ++ [32%N]) ++ 38%N :: 38%N :: (32%N :: paren y)) by reflexivity.
      apply recog8.
    + apply recog9.
  - apply allq_quiet_from. exact Hq2.
Qed.

End Main3.

(* evalExpr on the text of a negative literal *)
Lemma digit_plain_all n c : (c = 45%N \/ isdigit c = true) -> is_opener c = false /\ trigger n c = false.
Proof.
  intros Hc.
  assert (E : forall k, In k [40; 91; 123; 34; 39; 42; 47; 37; 60; 62; 61; 33; 38; 94; 124; 63]%N -> (c =? k)%N = false).
  { intros k Hk. apply N.eqb_neq. cbn [In] in Hk. unfold isdigit in Hc.
    repeat (destruct Hk as [<-|Hk]; [destruct Hc as [->|Hc]; [discriminate | lia]|]). contradiction. }
  split.
  - unfold is_opener. rewrite (E 40%N), (E 91%N), (E 123%N), (E 34%N), (E 39%N) by (cbn; tauto). reflexivity.
  - destruct n as [|[|[|[|[|[|[|[|[|[|n]]]]]]]]]]; cbn [trigger]; try reflexivity;
      rewrite ?(E 42%N), ?(E 47%N), ?(E 37%N), ?(E 60%N), ?(E 62%N), ?(E 61%N), ?(E 33%N), ?(E 38%N), ?(E 94%N),
        ?(E 124%N), ?(E 63%N) by (cbn; tauto); reflexivity.
Qed.

Section Neg.
Context {F : Type} (O : oracle F) (obj : eobj F).

Lemma eval_expr_neg d st n : 1 <= d -> (-100000000000000 < n)%Z -> (n < 0)%Z ->
  eval_expr F O obj d st false (dec_of_Z n) =
    ret F (VFloat F (f_mul F O (f_of_int F O (- n)%Z) (f_of_int F O (-1)%Z))).
Proof.
  intros Hd H1 H2. destruct d as [|d']; [lia|]. cbn [eval_expr].
  destruct (neg_text_spec n H1 H2) as (ds & -> & Hall & Hlen & Hval).
  set (e := 45%N :: ds). set (rec := eval_expr F O obj d').
  assert (Hchars : Forall (fun c => c = 45%N \/ isdigit c = true) e).
  { constructor; [left; reflexivity|]. eapply Forall_impl; [|exact Hall]. intros c Hc. right. exact Hc. }
  assert (Hfl : flat (map IChar e) = e).
  { clear. induction e as [|c r IH]; cbn [map flat item_bytes app]; congruence. }
  assert (Hns : Forall (fun x => isspace x = false) e).
  { eapply Forall_impl; [|exact Hchars]. intros c [->|Hc]; [reflexivity|]. unfold isdigit in Hc. unfold isspace. lia. }
  assert (Ht : trim e = e) by (apply trim_tight, nonspace_ends_of; [discriminate | exact Hns]).
  assert (Hplain : forall m, Forall (fun c => is_opener c = false /\ trigger m c = false) e).
  { intros m. eapply Forall_impl; [|exact Hchars]. intros c Hc. apply digit_plain_all. exact Hc. }
  assert (Hcq : forall P, P 45%N = false -> (forall c, isdigit c = true -> P c = false) -> cquiet P (map IChar e)).
  { intros P P45 Pd. apply cquiet_plain. eapply Forall_impl; [|exact Hchars].
    intros c [->|Hc]; (split; [apply (digit_plain_all 0); auto | auto]). }
  (* levels 11 .. 3 *)
  replace 11 with (2 + 9) by reflexivity.
  rewrite (eval_auto_down O obj rec st (map IChar e) e 45%N ds 2); auto.
  2:{ intros m _. apply andb_false_r. }
  2:{ intros m Hm. unfold level_quiet.
      destruct (Nat.eqb_spec m 11); [apply Hcq; [reflexivity | intros c Hc; unfold isdigit in Hc; lia]|].
      destruct (Nat.eqb_spec m 10); [apply Hcq; [reflexivity | intros c Hc; unfold isdigit in Hc; lia]|].
      destruct (Nat.eqb_spec m 2); [lia|].
      apply quiet_from_plain. apply Hplain. }
  (* level 1 and the atom *)
  assert (H1' : eval_auto F O obj rec st 1 false e = eval_atom F O obj rec st false e).
  { replace 1 with (0 + 1) by reflexivity.
    rewrite (eval_auto_down_k O obj rec st (map IChar e) e 45%N ds 0); auto.
    - intros m _ _. apply andb_false_r.
    - intros m Hm1 Hm2. assert (m = 1) by lia. subst m. unfold level_quiet. cbn [Nat.eqb].
      apply quiet_from_plain. apply Hplain. }
  (* level 2 *)
  rewrite eval_auto_S. destruct (has_step st 2).
  - rewrite level_scan_cases. cbn [Nat.eqb].
    rewrite scan_sums_neg with (ds := ds); auto; [|intros ->; cbn in Hlen; lia].
    rewrite H1'. apply (eval_atom_negnum O obj rec st false (- n)%Z ds); assumption.
  - rewrite H1'. apply (eval_atom_negnum O obj rec st false (- n)%Z ds); assumption.
Qed.

End Neg.

(* ------------------------------------------------------------------ Part 6: the induction over trees *)

Lemma cmp_plain op : Forall (fun c => plain_sq c = true) (print_cmp op).
Proof. destruct op; repeat constructor. Qed.

Lemma bal_print e : wf e = true -> bal (print e).
Proof.
  induction e as [a|op a b|x IH|x IHx y IHy|x IHx y IHy]; cbn [wf print]; intros H.
  - apply (atom_shape a H).
  - apply andb_true_iff in H. destruct H as [Ha Hb].
    apply bal_app; [apply (atom_shape a Ha)|]. apply bal_plain; [reflexivity|].
    apply bal_plain_run; [apply cmp_plain|]. apply bal_plain; [reflexivity|]. apply (atom_shape b Hb).
  - apply bal_plain; [reflexivity|]. apply (bal_paren (print x) []); [apply IH; exact H | constructor].
  - apply andb_true_iff in H. destruct H as [Ha Hb].
    replace (40%N :: print x ++ [41; 32; 38; 38; 32; 40]%N ++ print y ++ [41%N])
      with (40%N :: print x ++ 41%N :: ([32; 38; 38; 32]%N ++ (40%N :: print y ++ 41%N :: [])))
      by (cbn [app]; reflexivity).
    apply bal_paren; [apply IHx; exact Ha|]. apply bal_plain_run; [repeat constructor|].
    apply bal_paren; [apply IHy; exact Hb | constructor].
  - apply andb_true_iff in H. destruct H as [Ha Hb].
    replace (40%N :: print x ++ [41; 32; 124; 124; 32; 40]%N ++ print y ++ [41%N])
      with (40%N :: print x ++ 41%N :: ([32; 124; 124; 32]%N ++ (40%N :: print y ++ 41%N :: [])))
      by (cbn [app]; reflexivity).
    apply bal_paren; [apply IHx; exact Ha|]. apply bal_plain_run; [repeat constructor|].
    apply bal_paren; [apply IHy; exact Hb | constructor].
Qed.

Lemma print_logic_eq oc x y :
  40%N :: x ++ [41; 32; oc; oc; 32; 40]%N ++ y ++ [41%N] = paren x ++ [32%N; oc; oc; 32%N] ++ paren y.
Proof. unfold paren. cbn [app]. rewrite <- !app_assoc. reflexivity. Qed.

Lemma print_trim e : wf e = true -> trim (print e) = print e /\ print e <> [].
Proof.
  intros H.
  assert (Hends : nonspace_ends (print e) /\ print e <> []).
  { destruct e as [a|op a b|x|x y|x y]; cbn [wf print] in *.
    - destruct (atom_shape a H) as (_ & _ & [_ (c & r & Hc & _ & Hs) (m & d & Hd & Hds)] & _).
      split; [|rewrite Hc; discriminate].
      destruct m as [|c' m'].
      + exists d, [], d. rewrite Hd. cbn. repeat split; auto.
      + rewrite Hd in Hc. cbn [app] in Hc. inversion Hc; subst c'. exists c, m', d. rewrite Hd.
        split; [right; reflexivity | split; assumption].
    - apply andb_true_iff in H. destruct H as [Ha Hb].
      destruct (atom_shape a Ha) as (_ & _ & [_ (c & r & Hc & _ & Hs) _] & _).
      destruct (atom_shape b Hb) as (_ & _ & [_ _ (m & d & Hd & Hds)] & _).
      split; [|rewrite Hc; discriminate].
      exists c, (r ++ 32%N :: print_cmp op ++ 32%N :: m), d. split; [right|split; assumption].
      rewrite Hc, Hd. cbn [app]. rewrite <- !app_assoc. cbn [app]. rewrite <- !app_assoc. reflexivity.
    - split; [|discriminate]. exists 33%N, (40%N :: print x), 41%N. repeat split; auto.
    - split; [|discriminate]. exists 40%N, (print x ++ [41; 32; 38; 38; 32; 40]%N ++ print y), 41%N.
      split; [right|split; reflexivity]. cbn [app]. rewrite <- !app_assoc. reflexivity.
    - split; [|discriminate]. exists 40%N, (print x ++ [41; 32; 124; 124; 32; 40]%N ++ print y), 41%N.
      split; [right|split; reflexivity]. cbn [app]. rewrite <- !app_assoc. reflexivity. }
  destruct Hends as [He Hne]. split; [apply trim_tight; exact He | exact Hne].
Qed.

Section Final.
Context {F : Type} (O : oracle F) (obj : eobj F).
Notation V := (evalue F).

(* evalExpr on the printed text of a well-formed tree is the denotation of the tree *)
Theorem eval_expr_print : forall e, wf e = true -> forall d st,
  length (print e) < d -> covers st (print e) ->
  eval_expr F O obj d st false (print e) = lift F (den F O obj e).
Proof.
  induction e as [a|op a b|x IH|x IHx y IHy|x IHx y IHy]; intros Hwf d st Hd Hcov;
    (destruct d as [|d']; [lia|]); cbn [eval_expr].
  - assert (Hd1 : 1 <= d').
    { cbn [wf print] in *. destruct (atom_shape a Hwf) as (_ & _ & [_ (c & r & Hc & _) _] & _).
      rewrite Hc in Hd. cbn [length] in Hd. lia. }
    apply eval_auto_atom; [exact Hwf|]. intros n H1 H2. apply eval_expr_neg; assumption.
  - cbn [wf] in Hwf. apply andb_true_iff in Hwf. destruct Hwf as [Ha Hb].
    assert (Hd1 : 1 <= d').
    { cbn [print] in Hd. rewrite app_length in Hd. cbn [length] in Hd. lia. }
    apply eval_auto_cmp; try assumption. intros n H1 H2. apply eval_expr_neg; assumption.
  - cbn [wf] in Hwf. cbn [print den].
    change (33%N :: 40%N :: print x ++ [41%N]) with (33%N :: paren (print x)).
    apply eval_auto_not; [apply bal_print; exact Hwf | | exact Hcov].
    apply IH; [exact Hwf | cbn [print length] in Hd; rewrite app_length in Hd; cbn [length] in Hd; lia |].
    cbn [print] in Hcov. apply covers_cons in Hcov. destruct Hcov as [_ Hcov].
    apply covers_cons in Hcov. destruct Hcov as [_ Hcov]. apply covers_app in Hcov. apply Hcov.
  - cbn [wf] in Hwf. apply andb_true_iff in Hwf. destruct Hwf as [Ha Hb]. cbn [print den]. cbn [print] in Hcov, Hd.
    rewrite print_logic_eq. rewrite print_logic_eq in Hcov.
    rewrite print_logic_eq in Hd. unfold paren in Hd. rewrite !app_length in Hd. cbn [length] in Hd.
    rewrite !app_length in Hd. cbn [length] in Hd.
    apply (eval_auto_logic O obj (eval_expr F O obj d') st true (print x) (print y)); auto using bal_print.
    + apply IHx; [exact Ha | lia |]. apply covers_app in Hcov. destruct Hcov as [Hc _].
      unfold paren in Hc. apply covers_cons in Hc. destruct Hc as [_ Hc]. apply covers_app in Hc. apply Hc.
    + apply IHy; [exact Hb | lia |]. apply covers_app in Hcov. destruct Hcov as [_ Hc].
      apply covers_app in Hc. destruct Hc as [_ Hc].
      unfold paren in Hc. apply covers_cons in Hc. destruct Hc as [_ Hc]. apply covers_app in Hc. apply Hc.
  - cbn [wf] in Hwf. apply andb_true_iff in Hwf. destruct Hwf as [Ha Hb]. cbn [print den]. cbn [print] in Hcov, Hd.
    rewrite print_logic_eq. rewrite print_logic_eq in Hcov.
    rewrite print_logic_eq in Hd. unfold paren in Hd. rewrite !app_length in Hd. cbn [length] in Hd.
    rewrite !app_length in Hd. cbn [length] in Hd.
    apply (eval_auto_logic O obj (eval_expr F O obj d') st false (print x) (print y)); auto using bal_print.
    + apply IHx; [exact Ha | lia |]. apply covers_app in Hcov. destruct Hcov as [Hc _].
      unfold paren in Hc. apply covers_cons in Hc. destruct Hc as [_ Hc]. apply covers_app in Hc. apply Hc.
    + apply IHy; [exact Hb | lia |]. apply covers_app in Hcov. destruct Hcov as [_ Hc].
      apply covers_app in Hc. destruct Hc as [_ Hc].
      unfold paren in Hc. apply covers_cons in Hc. destruct Hc as [_ Hc]. apply covers_app in Hc. apply Hc.
Qed.

(* expr.Eval on the printed text *)
Theorem eval_print : forall e, wf e = true -> eval F O obj (print e) = den F O obj e.
Proof.
  intros e Hwf. destruct (print_trim e Hwf) as [Ht Hne].
  unfold eval, eval_for_each. rewrite Ht.
  destruct (print e) as [|c r] eqn:Ep; [congruence|]. rewrite <- Ep in *.
  replace (length (print e) =? 0) with false by (symmetry; apply Nat.eqb_neq; rewrite Ep; cbn; lia).
  rewrite eval_expr_print; auto; [|apply covers_steps_of].
  unfold lift, ret. destruct (den F O obj e); reflexivity.
Qed.

(* whereT.matchExpr on the printed text *)
Theorem match_print : forall e, wf e = true -> match_expr F O obj (print e) = den_match F O obj e.
Proof. intros e Hwf. unfold match_expr, den_match. rewrite eval_print by exact Hwf. reflexivity. Qed.

End Final.
